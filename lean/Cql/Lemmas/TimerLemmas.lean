import Cql.Timer
/-! Invariant of the timed request life-cycle model (helper lemmas for `Cql/Props/C16.lean`). -/
namespace Cql.Timer

/-- what holds of every request in every reachable state (`T` read timeout, `now` current time, `closed` handler closed) -/
structure Inv (T now : Nat) (closed : Bool) (r : Req) : Prop where
  closes_le : r.closes ≤ 1
  done_iff : r.done = true ↔ r.closes = 1
  done_timer : r.done = true → r.deadline = none
  open_timer : r.done = false → r.deadline = some (r.last + T) ∧ now < r.last + T
  timeout_late : r.err = some .timeout → ∃ t, r.firedAt = some t ∧ r.last + T ≤ t
  err_done : r.err.isSome = true → r.done = true
  closed_done : closed = true → r.done = true

def Good (s : H) : Prop := ∀ r ∈ s.reqs, Inv s.T s.now s.closed r

theorem closes_zero {T now : Nat} {c : Bool} {r : Req} (h : Inv T now c r) (ho : r.done = false) : r.closes = 0 := by
  have h1 := h.done_iff
  rw [ho] at h1
  have : r.closes ≠ 1 := fun e => by simpa using h1.mpr e
  have := h.closes_le
  omega

theorem closeReq_done (r : Req) (why : Option Why) : (closeReq r why).done = true := by
  unfold closeReq; split
  · rename_i h; exact h
  · rfl

theorem closeReq_inv {T now : Nat} {c c' : Bool} {r : Req} (h : Inv T now c r) (why : Option Why) (hw : why ≠ some .timeout) :
    Inv T now c' (closeReq r why) := by
  have hdone := closeReq_done r why
  unfold closeReq at hdone ⊢
  split
  · rename_i hd
    exact { closes_le := h.closes_le, done_iff := h.done_iff, done_timer := h.done_timer, open_timer := h.open_timer,
            timeout_late := h.timeout_late, err_done := h.err_done, closed_done := fun _ => hd }
  · rename_i hd
    have hd' : r.done = false := by simpa using hd
    have hc := closes_zero h hd'
    exact { closes_le := by simp [hc], done_iff := by simp [hc], done_timer := fun _ => rfl,
            open_timer := fun h' => by simp at h', timeout_late := fun e => absurd e hw,
            err_done := fun _ => rfl, closed_done := fun _ => rfl }

theorem inv_mono_now {T now : Nat} {c : Bool} {r : Req} (h : Inv T now c r) (now' : Nat)
    (hn : r.done = false → now' < r.last + T) : Inv T now' c r :=
  { closes_le := h.closes_le, done_iff := h.done_iff, done_timer := h.done_timer,
    open_timer := fun hd => ⟨(h.open_timer hd).1, hn hd⟩, timeout_late := h.timeout_late, err_done := h.err_done,
    closed_done := h.closed_done }

theorem fire_inv {T now : Nat} {c : Bool} {r : Req} (h : Inv T now c r) (now' : Nat) : Inv T now' c (fire now' r) := by
  unfold fire
  cases hd : r.deadline with
  | none =>
    simp only
    apply inv_mono_now h
    intro ho; have := (h.open_timer ho).1; rw [hd] at this; cases this
  | some d =>
    simp only
    split
    · rename_i hc
      have ho : r.done = false := by simpa using hc.2
      have hdl := (h.open_timer ho).1
      rw [hd] at hdl
      have hde : d = r.last + T := Option.some.inj hdl
      have hc0 := closes_zero h ho
      unfold closeReq
      simp only [ho, Bool.false_eq_true, if_false]
      exact { closes_le := by simp [hc0], done_iff := by simp [hc0], done_timer := fun _ => rfl,
              open_timer := fun h' => by simp at h',
              timeout_late := fun _ => ⟨now', rfl, by show r.last + T ≤ now'; omega⟩,
              err_done := fun _ => rfl, closed_done := fun _ => rfl }
    · rename_i hc
      apply inv_mono_now h
      intro ho
      have hdl := (h.open_timer ho).1
      rw [hd] at hdl
      have hde : d = r.last + T := Option.some.inj hdl
      have : ¬ d ≤ now' := fun hle' => hc ⟨hle', by simp [ho]⟩
      omega

theorem send_good (s : H) (hT : 0 < s.T) (hg : Good s) : Good (step s .send).1 ∧ (step s .send).1.T = s.T := by
  simp only [step]
  split
  · exact ⟨hg, by first | rfl | trivial⟩
  · rename_i hc
    refine ⟨?_, by first | rfl | trivial⟩
    intro r hr
    have hr' : r ∈ s.reqs ++ [{ deadline := some (s.now + s.T), last := s.now }] := hr
    show Inv s.T s.now s.closed r
    simp only [List.mem_append, List.mem_singleton] at hr'
    cases hr' with
    | inl h => exact hg r h
    | inr h =>
      subst h
      exact { closes_le := by simp, done_iff := by simp, done_timer := fun h' => by simp at h',
              open_timer := fun _ => ⟨rfl, by show s.now < s.now + s.T; omega⟩,
              timeout_late := fun h' => by simp at h', err_done := fun h' => by simp at h',
              closed_done := fun h' => by simp [hc] at h' }

theorem page_good (s : H) (hT : 0 < s.T) (hg : Good s) (h : Nat) (last : Bool) :
    Good (step s (.page h last)).1 ∧ (step s (.page h last)).1.T = s.T := by
  simp only [step]
  split
  · exact ⟨hg, by first | rfl | trivial⟩
  · rename_i hc
    cases hr : s.reqs[h]? with
    | none => exact ⟨hg, by first | rfl | trivial⟩
    | some r =>
      simp only
      split
      · exact ⟨hg, by first | rfl | trivial⟩
      · rename_i hd
        refine ⟨?_, by first | rfl | trivial⟩
        have hmem : r ∈ s.reqs := List.mem_of_getElem? hr
        have hi := hg r hmem
        have ho : r.done = false := by simpa using hd
        have hc0 := closes_zero hi ho
        intro r' hr'
        show Inv s.T s.now s.closed r'
        have hr'' : r' ∈ s.reqs.set h _ := hr'
        rcases List.mem_or_eq_of_mem_set hr'' with h' | h'
        · exact hg r' h'
        · subst h'
          cases last with
          | true =>
            simp only [if_true]
            unfold closeReq
            simp only [ho, Bool.false_eq_true, if_false]
            exact { closes_le := by simp [hc0], done_iff := by simp [hc0], done_timer := fun _ => rfl,
                    open_timer := fun h' => by simp at h', timeout_late := fun h' => by simp at h',
                    err_done := fun _ => rfl, closed_done := fun _ => rfl }
          | false =>
            simp only [Bool.false_eq_true, if_false]
            exact { closes_le := hi.closes_le, done_iff := hi.done_iff,
                    done_timer := fun h' => by simp [ho] at h',
                    open_timer := fun _ => ⟨rfl, by show s.now < s.now + s.T; omega⟩,
                    timeout_late := fun h' => by
                      have h1 : r.err.isSome = true := by simp [show r.err = some Why.timeout from h']
                      have h2 := hi.err_done h1
                      simp [ho] at h2,
                    err_done := fun h' => by
                      have h2 := hi.err_done h'
                      simp [ho] at h2,
                    closed_done := fun h' => by simp [hc] at h' }

theorem advance_good (s : H) (hg : Good s) (dt : Nat) : Good (step s (.advance dt)).1 ∧ (step s (.advance dt)).1.T = s.T := by
  simp only [step]
  refine ⟨?_, by first | rfl | trivial⟩
  intro r' hr'
  have hr'' : r' ∈ s.reqs.map (fire (s.now + dt)) := hr'
  show Inv s.T (s.now + dt) s.closed r'
  simp only [List.mem_map] at hr''
  obtain ⟨r, hr, rfl⟩ := hr''
  exact fire_inv (hg r hr) (s.now + dt)

theorem close_good (s : H) (hg : Good s) : Good (step s .close).1 ∧ (step s .close).1.T = s.T := by
  simp only [step]
  split
  · exact ⟨hg, by first | rfl | trivial⟩
  · refine ⟨?_, by first | rfl | trivial⟩
    intro r' hr'
    have hr'' : r' ∈ s.reqs.map (fun r => closeReq r (some .handlerClosed)) := hr'
    show Inv s.T s.now true r'
    simp only [List.mem_map] at hr''
    obtain ⟨r, hr, rfl⟩ := hr''
    exact closeReq_inv (hg r hr) (some .handlerClosed) (by simp)

/-- **Invariant.** Every state reachable by any history keeps `Inv` for every request (needs a positive read timeout). -/
theorem step_good (s : H) (hT : 0 < s.T) (hg : Good s) (e : Ev) : Good (step s e).1 ∧ (step s e).1.T = s.T := by
  cases e with
  | send => exact send_good s hT hg
  | page h last => exact page_good s hT hg h last
  | advance dt => exact advance_good s hg dt
  | close => exact close_good s hg

theorem run_good (s : H) (hT : 0 < s.T) (hg : Good s) (es : List Ev) : Good (run s es) ∧ (run s es).T = s.T := by
  induction es generalizing s with
  | nil => exact ⟨hg, by first | rfl | trivial⟩
  | cons e es ih =>
    have h1 := step_good s hT hg e
    have h2 := ih (step s e).1 (by rw [h1.2]; exact hT) h1.1
    exact ⟨h2.1, by rw [show run s (e :: es) = run (step s e).1 es from rfl, h2.2, h1.2]⟩

/-- a fresh handler -/
def init (T : Nat) : H := { T := T }

theorem init_good (T : Nat) : Good (init T) := fun r hr => by simp [init] at hr

end Cql.Timer
