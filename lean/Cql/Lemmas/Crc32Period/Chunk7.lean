import Cql.Lemmas.Crc32Period.Defs
namespace Cql.Crc.Detect

/-- steps 917729 … 1048832 of the orbit of the register value `1` under the CRC-32 bit step (4097 blocks of 32 steps):
no block starts at a power of two; the state after step 1048833 is 3616527024 -/
theorem crc32_period_chunk_7 : scan 4097 3894136404 3616527024 = true := by decide +kernel

end Cql.Crc.Detect
