/-!
# Kernel-checkable scan of the CRC-32 bit-step orbit of the register value `1`

`stepN` is the bit step of the reflected CRC-32 on `Nat` (proved equal to `Cql.Crc.crc32Bit` in
`Cql/Lemmas/Crc32Period/All.lean`). Only kernel-accelerated `Nat` operations are used, so `decide +kernel` evaluates
the orbit with GMP arithmetic.

The scan works in blocks of 32 steps. The register value `1` is reached after `m < 32` steps exactly from the value
`2 ^ m` (proved in `All.lean` from the injectivity of the step), so it suffices to test at the start of each block
that the state is not a power of two (`c &&& (c - 1) ≠ 0`) and then to jump 32 steps ahead.

The `match` on the new state makes the kernel evaluate it to a literal before the next block (otherwise the state is
carried as an ever-deeper unevaluated term and the kernel's term cache degrades).
-/
namespace Cql.Crc.Detect

/-- `if c&1 == 1 { c = c>>1 ^ 0xEDB88320 } else { c >>= 1 }` without a branch -/
def stepN (c : Nat) : Nat := Nat.xor (Nat.div c 2) (Nat.mul (Nat.mod c 2) 3988292384)

def step2 (c : Nat) : Nat := stepN (stepN c)
def step4 (c : Nat) : Nat := step2 (step2 c)
def step8 (c : Nat) : Nat := step4 (step4 c)
def step16 (c : Nat) : Nat := step8 (step8 c)
def step32 (c : Nat) : Nat := step16 (step16 c)

/-- `0` when `c` is `0` or a power of two, otherwise the state 32 steps after `c` -/
def blk (c : Nat) : Nat := cond (Nat.beq (Nat.land c (Nat.pred c)) 0) 0 (step32 c)

/-- `scan len c e`: starting from `c`, `len` blocks of 32 steps each begin at a state that is neither `0` nor a power
of two, and the state after the last block is `e` -/
def scan : Nat → Nat → Nat → Bool
  | 0, c, e => Nat.beq c e
  | k + 1, c, e =>
    match blk c with
    | 0 => false
    | m + 1 => scan k (Nat.succ m) e

end Cql.Crc.Detect
