import Cql.Lemmas.Crc32Period.Defs
namespace Cql.Crc.Detect

/-- steps 131105 … 262208 of the orbit of the register value `1` under the CRC-32 bit step (4097 blocks of 32 steps):
no block starts at a power of two; the state after step 262209 is 687284986 -/
theorem crc32_period_chunk_1 : scan 4097 2810984608 687284986 = true := by decide +kernel

end Cql.Crc.Detect
