import Cql.Lemmas.Crc32Period.Defs
namespace Cql.Crc.Detect

/-- steps 524417 … 655520 of the orbit of the register value `1` under the CRC-32 bit step (4097 blocks of 32 steps):
no block starts at a power of two; the state after step 655521 is 788818347 -/
theorem crc32_period_chunk_4 : scan 4097 389654861 788818347 = true := by decide +kernel

end Cql.Crc.Detect
