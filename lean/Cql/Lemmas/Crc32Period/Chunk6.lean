import Cql.Lemmas.Crc32Period.Defs
namespace Cql.Crc.Detect

/-- steps 786625 … 917728 of the orbit of the register value `1` under the CRC-32 bit step (4097 blocks of 32 steps):
no block starts at a power of two; the state after step 917729 is 3894136404 -/
theorem crc32_period_chunk_6 : scan 4097 3862979322 3894136404 = true := by decide +kernel

end Cql.Crc.Detect
