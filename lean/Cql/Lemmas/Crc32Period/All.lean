import Cql.Lemmas.CrcLemmas
import Cql.Lemmas.Crc32Period.Chunk0
import Cql.Lemmas.Crc32Period.Chunk1
import Cql.Lemmas.Crc32Period.Chunk2
import Cql.Lemmas.Crc32Period.Chunk3
import Cql.Lemmas.Crc32Period.Chunk4
import Cql.Lemmas.Crc32Period.Chunk5
import Cql.Lemmas.Crc32Period.Chunk6
import Cql.Lemmas.Crc32Period.Chunk7
/-!
# No two-bit error is missed by the CRC-32 within 1 048 832 bits

The 8 chunk theorems (`decide +kernel`, 4097 blocks of 32 bit steps each) are chained into: the orbit of the register
value `1` under the bit step does not return to `1` within 1 048 832 steps (`crc32_period`).
-/
namespace Cql.Crc.Detect

theorem stepN_eq (c : Nat) : stepN c = (c / 2) ^^^ ((c % 2) * 3988292384) := rfl

theorem crc32Poly_toNat : crc32Poly.toNat = 3988292384 := by decide

theorem crc32Bit_toNat (c : BitVec 32) : (crc32Bit c).toNat = stepN c.toNat := by
  rw [crc32Bit_eq, stepN_eq, BitVec.toNat_xor, BitVec.toNat_ushiftRight, Nat.shiftRight_eq_div_pow, Nat.pow_one,
    ← BitVec.testBit_toNat, Nat.testBit_zero]
  by_cases h : c.toNat % 2 = 1
  · rw [decide_eq_true h, if_pos rfl, h, Nat.one_mul, crc32Poly_toNat]
  · have h0 : c.toNat % 2 = 0 := by omega
    rw [decide_eq_false h, if_neg (by decide), h0, Nat.zero_mul]; rfl

theorem iter_crc32Bit_toNat (k : Nat) (c : BitVec 32) : (iter crc32Bit k c).toNat = iter stepN k c.toNat := by
  induction k generalizing c with
  | zero => rfl
  | succ k ih => show (iter crc32Bit k (crc32Bit c)).toNat = iter stepN k (stepN c.toNat); rw [ih, crc32Bit_toNat]

theorem iter_stepN_ofNat (k c : Nat) (hc : c < 2 ^ 32) :
    iter stepN k c = (iter crc32Bit k (BitVec.ofNat 32 c)).toNat := by
  rw [iter_crc32Bit_toNat, BitVec.toNat_ofNat, Nat.mod_eq_of_lt hc]

theorem iter_stepN_lt (k c : Nat) (hc : c < 2 ^ 32) : iter stepN k c < 2 ^ 32 := by
  rw [iter_stepN_ofNat k c hc]; exact BitVec.isLt _

theorem step32_eq (c : Nat) : step32 c = iter stepN 32 c := rfl

/-- from `2 ^ m` (`m < 32`) the bit step reaches `1` after exactly `m` steps (it only shifts) -/
theorem iter_stepN_pow : ∀ m, m < 32 → iter stepN m (2 ^ m) = 1 := by decide

theorem pow_land_pred : ∀ m, m < 32 → Nat.land (2 ^ m) (Nat.pred (2 ^ m)) = 0 := by decide

/-- the only 32-bit state from which `1` is reached in `m < 32` steps is `2 ^ m` -/
theorem eq_pow_of_iter_eq_one (m c : Nat) (hm : m < 32) (hc : c < 2 ^ 32) (h : iter stepN m c = 1) : c = 2 ^ m := by
  have hp : 2 ^ m < 2 ^ 32 := Nat.pow_lt_pow_right (by decide) hm
  have h1 : iter stepN m c = iter stepN m (2 ^ m) := by rw [h, iter_stepN_pow m hm]
  rw [iter_stepN_ofNat m c hc, iter_stepN_ofNat m _ hp] at h1
  have h2 := iter_inj crc32Bit crc32Bit_inj m _ _ (BitVec.eq_of_toNat_eq h1)
  have h3 := congrArg BitVec.toNat h2
  rw [BitVec.toNat_ofNat, BitVec.toNat_ofNat, Nat.mod_eq_of_lt hc, Nat.mod_eq_of_lt hp] at h3
  exact h3

theorem blk_spec (c n : Nat) (h : blk c = n + 1) : Nat.land c (Nat.pred c) ≠ 0 ∧ iter stepN 32 c = n + 1 := by
  rw [blk] at h
  cases hb : Nat.beq (Nat.land c (Nat.pred c)) 0 with
  | true => rw [hb] at h; exact absurd h (by simp)
  | false =>
    rw [hb] at h
    refine ⟨?_, by rw [← step32_eq]; exact h⟩
    intro h0
    rw [h0] at hb
    exact absurd hb (by decide)

theorem scan_spec (len : Nat) : ∀ c e, c < 2 ^ 32 → scan len c e = true →
    iter stepN (32 * len) c = e ∧ ∀ m, m < 32 * len → iter stepN m c ≠ 1 := by
  induction len with
  | zero =>
    intro c e _ h
    rw [scan] at h
    exact ⟨Nat.eq_of_beq_eq_true h, fun m hm => by omega⟩
  | succ k ih =>
    intro c e hc h
    rw [scan] at h
    cases hb : blk c with
    | zero => rw [hb] at h; exact absurd h (by simp)
    | succ n =>
      rw [hb] at h
      obtain ⟨hnp, h32⟩ := blk_spec c n hb
      have hlt : n + 1 < 2 ^ 32 := by rw [← h32]; exact iter_stepN_lt 32 c hc
      obtain ⟨hend, hno⟩ := ih (n + 1) e hlt h
      have hmul : 32 * (k + 1) = 32 + 32 * k := by omega
      refine ⟨by rw [hmul, iter_add, h32]; exact hend, ?_⟩
      intro m hm
      by_cases hm32 : m < 32
      · intro h1
        have := eq_pow_of_iter_eq_one m c hm32 hc h1
        rw [this] at hnp
        exact hnp (pow_land_pred m hm32)
      · have : m = 32 + (m - 32) := by omega
        rw [this, iter_add, h32]
        exact hno (m - 32) (by omega)

/-- the states `1 ≤ m < n` after `1` are not `1`, and the `n`-th is `s` -/
def OrbitFree (n s : Nat) : Prop := iter stepN n 1 = s ∧ ∀ m, 1 ≤ m → m < n → iter stepN m 1 ≠ 1

theorem orbitFree_one : OrbitFree 1 3988292384 := ⟨by decide, fun m h1 h2 => by omega⟩

theorem orbitFree_chunk (n s len s' : Nat) (h : OrbitFree n s) (hc : scan len s s' = true) :
    OrbitFree (n + 32 * len) s' := by
  have hs : s < 2 ^ 32 := by rw [← h.1]; exact iter_stepN_lt n 1 (by decide)
  obtain ⟨hend, hno⟩ := scan_spec len s s' hs hc
  refine ⟨by rw [iter_add, h.1, hend], ?_⟩
  intro m h1 h2
  by_cases hm : m < n
  · exact h.2 m h1 hm
  · have : m = n + (m - n) := by omega
    rw [this, iter_add, h.1]
    exact hno (m - n) (by omega)

theorem orbitFree_all : OrbitFree (1 + 32 * 4097 * 8) 3616527024 := by
  have h0 := orbitFree_one
  have h1 := orbitFree_chunk _ _ _ _ h0 crc32_period_chunk_0
  have h2 := orbitFree_chunk _ _ _ _ h1 crc32_period_chunk_1
  have h3 := orbitFree_chunk _ _ _ _ h2 crc32_period_chunk_2
  have h4 := orbitFree_chunk _ _ _ _ h3 crc32_period_chunk_3
  have h5 := orbitFree_chunk _ _ _ _ h4 crc32_period_chunk_4
  have h6 := orbitFree_chunk _ _ _ _ h5 crc32_period_chunk_5
  have h7 := orbitFree_chunk _ _ _ _ h6 crc32_period_chunk_6
  have h8 := orbitFree_chunk _ _ _ _ h7 crc32_period_chunk_7
  exact h8

/-- (c) the register value `1` does not come back to `1` within 1 048 832 bit steps: no two flipped bits at a distance
of at most 1 048 832 bit positions cancel in the CRC-32 -/
theorem crc32_period (k : Nat) (h1 : 1 ≤ k) (h2 : k ≤ 1048832) : iter crc32Bit k 1#32 ≠ 1#32 := by
  intro h
  have := congrArg BitVec.toNat h
  rw [iter_crc32Bit_toNat] at this
  exact orbitFree_all.2 k h1 (by omega) this

end Cql.Crc.Detect
