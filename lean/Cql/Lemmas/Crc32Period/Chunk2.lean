import Cql.Lemmas.Crc32Period.Defs
namespace Cql.Crc.Detect

/-- steps 262209 … 393312 of the orbit of the register value `1` under the CRC-32 bit step (4097 blocks of 32 steps):
no block starts at a power of two; the state after step 393313 is 4165879717 -/
theorem crc32_period_chunk_2 : scan 4097 687284986 4165879717 = true := by decide +kernel

end Cql.Crc.Detect
