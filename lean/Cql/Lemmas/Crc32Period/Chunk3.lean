import Cql.Lemmas.Crc32Period.Defs
namespace Cql.Crc.Detect

/-- steps 393313 … 524416 of the orbit of the register value `1` under the CRC-32 bit step (4097 blocks of 32 steps):
no block starts at a power of two; the state after step 524417 is 389654861 -/
theorem crc32_period_chunk_3 : scan 4097 4165879717 389654861 = true := by decide +kernel

end Cql.Crc.Detect
