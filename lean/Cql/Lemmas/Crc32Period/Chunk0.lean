import Cql.Lemmas.Crc32Period.Defs
namespace Cql.Crc.Detect

/-- steps 1 … 131104 of the orbit of the register value `1` under the CRC-32 bit step (4097 blocks of 32 steps):
no block starts at a power of two; the state after step 131105 is 2810984608 -/
theorem crc32_period_chunk_0 : scan 4097 3988292384 2810984608 = true := by decide +kernel

end Cql.Crc.Detect
