import Cql.Lemmas.Crc32Period.Defs
namespace Cql.Crc.Detect

/-- steps 655521 … 786624 of the orbit of the register value `1` under the CRC-32 bit step (4097 blocks of 32 steps):
no block starts at a power of two; the state after step 786625 is 3862979322 -/
theorem crc32_period_chunk_5 : scan 4097 788818347 3862979322 = true := by decide +kernel

end Cql.Crc.Detect
