import Cql.Impl.Message
import Cql.Lemmas.RequestsRT
import Cql.Lemmas.PrepareRT
import Cql.Lemmas.ErrorRT
import Cql.Lemmas.EventRT
import Cql.Lemmas.ResultMetadataRT
/-! Round trip / length / totality-on-valid / no-panic for the message layer as a whole: every message kind. -/
namespace Cql.Impl
open Cql Cql.Prim Cql.Parser Cql.Gen

/-! ### RESULT -/

def ValidResult (version : Nat) : ResultMsg → Prop
  | .void => True
  | .setKeyspace ks => ValidSetKeyspaceBody ks
  | .schemaChange sc => ValidSchemaChange version sc
  | .prepared a b c d => ValidPreparedBody version ⟨a, b, c, d⟩
  -- `RowsResult.Metadata` must be non-nil: `EncodedLength` (hence `EncodeFrame`) refuses a nil one
  | .rows m d => ValidRowsBody version ⟨m, d⟩ ∧ m ≠ none

def canonResult (version : Nat) : ResultMsg → ResultMsg
  | .void => .void
  | .setKeyspace ks => .setKeyspace (canonSetKeyspaceBody ks)
  | .schemaChange sc => .schemaChange (canonSchemaChange version sc)
  | .prepared a b c d => (canonPreparedBody version ⟨a, b, c, d⟩).toMsg
  | .rows m d => (canonRowsBody version ⟨m, d⟩).toMsg

private theorem rt_facts : ResultTypeVoid < 4294967296 ∧ ResultTypeSetKeyspace < 4294967296 ∧
    ResultTypeSchemaChange < 4294967296 ∧ ResultTypePrepared < 4294967296 ∧ ResultTypeRows < 4294967296 := by decide

theorem decodeResult_RT (version : Nat) (r : ResultMsg) (hv : ValidResult version r) (b : Bytes)
    (hw : encodeResult version r = .ok b) (rest : Bytes) :
    (decodeResult version).run (b ++ rest) = .ok (canonResult version r, rest) := by
  rw [encodeResult] at hw
  obtain ⟨_, _, hw⟩ := Res.bind_ok_inv hw
  obtain ⟨body, hbody, hw⟩ := Res.bind_ok_inv hw
  rw [← Res.pure_ok_inv hw, List.append_assoc, decodeResult]
  cases r with
  | void =>
    rw [ResultMsg.resultType]
    rw [encodeResultBody] at hbody
    rw [bind_ok (readInt_RT _ rt_facts.1 _), decodeResultBody, if_pos rfl, map_run,
      decodeVoidBody_RT body hbody rest]; rfl
  | setKeyspace ks =>
    rw [ResultMsg.resultType]
    rw [encodeResultBody] at hbody
    rw [bind_ok (readInt_RT _ rt_facts.2.1 _), decodeResultBody, if_neg (by decide), if_pos rfl, map_run,
      decodeSetKeyspaceBody_RT ks hv body hbody rest]; rfl
  | schemaChange sc =>
    rw [ResultMsg.resultType]
    rw [encodeResultBody] at hbody
    rw [bind_ok (readInt_RT _ rt_facts.2.2.1 _), decodeResultBody, if_neg (by decide), if_neg (by decide), if_pos rfl,
      map_run, decodeSchemaChangeResultBody_RT version sc hv body hbody rest]; rfl
  | prepared a b c d =>
    rw [ResultMsg.resultType]
    rw [encodeResultBody] at hbody
    rw [bind_ok (readInt_RT _ rt_facts.2.2.2.1 _), decodeResultBody, if_neg (by decide), if_neg (by decide),
      if_neg (by decide), if_pos rfl, map_run, decodePreparedBody_RT version ⟨a, b, c, d⟩ hv body hbody rest]; rfl
  | rows m d =>
    rw [ResultMsg.resultType]
    rw [encodeResultBody] at hbody
    rw [bind_ok (readInt_RT _ rt_facts.2.2.2.2 _), decodeResultBody, if_neg (by decide), if_neg (by decide),
      if_neg (by decide), if_neg (by decide), if_pos rfl, map_run,
      decodeRowsBody_RT version ⟨m, d⟩ hv.1 body hbody rest]; rfl

theorem encodeResult_len (version : Nat) (r : ResultMsg) (hm : ∀ m d, r = .rows m d → m ≠ none) (b : Bytes)
    (hw : encodeResult version r = .ok b) : lengthOfResult version r = .ok b.length := by
  rw [encodeResult] at hw
  obtain ⟨_, _, hw⟩ := Res.bind_ok_inv hw
  obtain ⟨body, hbody, hw⟩ := Res.bind_ok_inv hw
  have hl : lengthOfResultBody version r = .ok body.length := by
    cases r with
    | void => exact encodeVoidBody_len body hbody
    | setKeyspace ks => exact encodeSetKeyspaceBody_len ks body hbody
    | schemaChange sc => exact encodeSchemaChangeResultBody_len version sc body hbody
    | prepared a b c d => exact encodePreparedBody_len version ⟨a, b, c, d⟩ body hbody
    | rows m d => exact encodeRowsBody_len version ⟨m, d⟩ (hm m d rfl) body hbody
  rw [lengthOfResult, hl, ← Res.pure_ok_inv hw, List.length_append, writeInt_len]; rfl

theorem encodeResult_ok (version : Nat) (r : ResultMsg) (hv : ValidResult version r) :
    ∃ b, encodeResult version r = .ok b := by
  have hb : ∃ body, encodeResultBody version r = .ok body := by
    cases r with
    | void => exact encodeVoidBody_ok
    | setKeyspace ks => exact encodeSetKeyspaceBody_ok ks hv
    | schemaChange sc => exact encodeSchemaChangeResultBody_ok version sc hv
    | prepared a b c d => exact encodePreparedBody_ok version ⟨a, b, c, d⟩ hv
    | rows m d => exact encodeRowsBody_ok version ⟨m, d⟩ hv.1
  obtain ⟨body, hbody⟩ := hb
  have hc : CheckValidResultType r.resultType = true := by cases r <;> rfl
  refine ⟨writeInt r.resultType ++ body, ?_⟩
  rw [encodeResult, hc, hbody]; rfl

theorem decodeResult_noPanic (version : Nat) : NoPanic (decodeResult version) := by
  have hb : ∀ ty, NoPanic (decodeResultBody version ty) := by
    intro ty
    rw [decodeResultBody]
    no_panic [decodeVoidBody_noPanic, decodeSetKeyspaceBody_noPanic, decodeSchemaChangeResultBody_noPanic version,
      decodePreparedBody_noPanic version, decodeRowsBody_noPanic version]
  rw [decodeResult]; no_panic [hb]

/-! ### every message -/

/-- version-validity of a message, assembled from the per-message predicates (each written from the specs) -/
def ValidMsg (version : Nat) : Msg → Prop
  | .startup o => ValidStartup version o
  | .options => ValidOptions version
  | .ready => ValidReady version
  | .query q o => ValidQuery version q o
  | .prepare q ks => ValidPrepare version ⟨q, ks⟩
  | .execute a b o => ValidExecute version a b o
  | .batch b => ValidBatch version b
  | .register l => ValidRegister version l
  | .authResponse t => ValidAuthResponse version t
  | .authChallenge t => ValidAuthChallenge version t
  | .authSuccess t => ValidAuthSuccess version t
  | .authenticate a => ValidAuthenticate version a
  | .supported o => ValidSupported version o
  | .revise a b c => ValidRevise version a b c
  | .error e => ValidError version e
  | .result r => ValidResult version r
  | .event e => ValidEvent version e

/-- what a round trip may erase, per message (see the per-message `canon*` definitions for the justification of
    each clause) -/
def canonMsg (version : Nat) : Msg → Msg
  | .startup o => .startup (canonStartup version o)
  | .options => .options
  | .ready => .ready
  | .query q o => .query (canonQuery version q o).1 (canonQuery version q o).2
  | .prepare q ks => .prepare (canonPrepare version ⟨q, ks⟩).query (canonPrepare version ⟨q, ks⟩).keyspace
  | .execute a b o => .execute (canonExecute version a b o).1 (canonExecute version a b o).2.1 (canonExecute version a b o).2.2
  | .batch b => .batch (canonBatch version b)
  | .register l => .register (canonRegister version l)
  | .authResponse t => .authResponse (canonAuthResponse version t)
  | .authChallenge t => .authChallenge (canonAuthChallenge version t)
  | .authSuccess t => .authSuccess (canonAuthSuccess version t)
  | .authenticate a => .authenticate (canonAuthenticate version a)
  | .supported o => .supported (canonSupported version o)
  | .revise a b c => .revise (canonRevise version a b c).1 (canonRevise version a b c).2.1 (canonRevise version a b c).2.2
  | .error e => .error (canonError version e)
  | .result r => .result (canonResult version r)
  | .event e => .event (canonEvent version e)

/-- **Message round trip**: for every message kind, every version and every valid content, decoding the encoder's bytes
    (followed by anything) returns the message (up to `canonMsg`) and exactly the bytes that followed. -/
theorem decodeMsg_RT (version : Nat) (m : Msg) (hv : ValidMsg version m) (b : Bytes) (hw : encodeMsg version m = .ok b)
    (rest : Bytes) : (decodeMsg version m.opCode).run (b ++ rest) = .ok (canonMsg version m, rest) := by
  cases m with
  | startup o =>
    rw [Msg.opCode, decodeMsg, if_pos rfl, map_run, decodeStartup_RT version o hv b hw rest]; rfl
  | options =>
    rw [Msg.opCode, decodeMsg, if_neg (by decide), if_pos rfl, map_run, decodeOptions_RT version hv b hw rest]; rfl
  | ready =>
    rw [Msg.opCode, decodeMsg, if_neg (by decide), if_neg (by decide), if_neg (by decide), if_neg (by decide),
      if_neg (by decide), if_neg (by decide), if_neg (by decide), if_neg (by decide), if_neg (by decide),
      if_neg (by decide), if_pos rfl, map_run, decodeReady_RT version hv b hw rest]; rfl
  | query q o =>
    rw [Msg.opCode, decodeMsg, if_neg (by decide), if_neg (by decide), if_pos rfl, map_run,
      decodeQuery_RT version q o hv b hw rest]; rfl
  | prepare q ks =>
    rw [Msg.opCode, decodeMsg, if_neg (by decide), if_neg (by decide), if_neg (by decide), if_pos rfl, map_run,
      decodePrepare_RT version ⟨q, ks⟩ hv b hw rest]; rfl
  | execute a c o =>
    rw [Msg.opCode, decodeMsg, if_neg (by decide), if_neg (by decide), if_neg (by decide), if_neg (by decide),
      if_pos rfl, map_run, decodeExecute_RT version a c o hv b hw rest]; rfl
  | batch bt =>
    rw [Msg.opCode, decodeMsg, if_neg (by decide), if_neg (by decide), if_neg (by decide), if_neg (by decide),
      if_neg (by decide), if_neg (by decide), if_pos rfl, map_run, decodeBatch_RT version bt hv b hw rest]; rfl
  | register l =>
    rw [Msg.opCode, decodeMsg, if_neg (by decide), if_neg (by decide), if_neg (by decide), if_neg (by decide),
      if_neg (by decide), if_pos rfl, map_run, decodeRegister_RT version l hv b hw rest]; rfl
  | authResponse t =>
    rw [Msg.opCode, decodeMsg, if_neg (by decide), if_neg (by decide), if_neg (by decide), if_neg (by decide),
      if_neg (by decide), if_neg (by decide), if_neg (by decide), if_pos rfl, map_run,
      decodeAuthResponse_RT version t hv b hw rest]; rfl
  | authChallenge t =>
    rw [Msg.opCode, decodeMsg, if_neg (by decide), if_neg (by decide), if_neg (by decide), if_neg (by decide),
      if_neg (by decide), if_neg (by decide), if_neg (by decide), if_neg (by decide), if_neg (by decide),
      if_neg (by decide), if_neg (by decide), if_neg (by decide), if_neg (by decide), if_neg (by decide),
      if_neg (by decide), if_pos rfl, map_run, decodeAuthChallenge_RT version t hv b hw rest]; rfl
  | authSuccess t =>
    rw [Msg.opCode, decodeMsg, if_neg (by decide), if_neg (by decide), if_neg (by decide), if_neg (by decide),
      if_neg (by decide), if_neg (by decide), if_neg (by decide), if_neg (by decide), if_neg (by decide),
      if_neg (by decide), if_neg (by decide), if_neg (by decide), if_neg (by decide), if_neg (by decide),
      if_neg (by decide), if_neg (by decide), if_pos rfl, map_run, decodeAuthSuccess_RT version t hv b hw rest]; rfl
  | authenticate a =>
    rw [Msg.opCode, decodeMsg, if_neg (by decide), if_neg (by decide), if_neg (by decide), if_neg (by decide),
      if_neg (by decide), if_neg (by decide), if_neg (by decide), if_neg (by decide), if_neg (by decide),
      if_neg (by decide), if_neg (by decide), if_pos rfl, map_run, decodeAuthenticate_RT version a hv b hw rest]; rfl
  | supported o =>
    rw [Msg.opCode, decodeMsg, if_neg (by decide), if_neg (by decide), if_neg (by decide), if_neg (by decide),
      if_neg (by decide), if_neg (by decide), if_neg (by decide), if_neg (by decide), if_neg (by decide),
      if_neg (by decide), if_neg (by decide), if_neg (by decide), if_pos rfl, map_run,
      decodeSupported_RT version o hv b hw rest]; rfl
  | revise x y z =>
    rw [Msg.opCode, decodeMsg, if_neg (by decide), if_neg (by decide), if_neg (by decide), if_neg (by decide),
      if_neg (by decide), if_neg (by decide), if_neg (by decide), if_neg (by decide), if_pos rfl, map_run,
      decodeRevise_RT version x y z hv b hw rest]; rfl
  | error e =>
    rw [Msg.opCode, decodeMsg, if_neg (by decide), if_neg (by decide), if_neg (by decide), if_neg (by decide),
      if_neg (by decide), if_neg (by decide), if_neg (by decide), if_neg (by decide), if_neg (by decide),
      if_pos rfl, map_run, decodeError_RT version e hv b hw rest]; rfl
  | result r =>
    rw [Msg.opCode, decodeMsg, if_neg (by decide), if_neg (by decide), if_neg (by decide), if_neg (by decide),
      if_neg (by decide), if_neg (by decide), if_neg (by decide), if_neg (by decide), if_neg (by decide),
      if_neg (by decide), if_neg (by decide), if_neg (by decide), if_neg (by decide), if_pos rfl, map_run,
      decodeResult_RT version r hv b hw rest]; rfl
  | event e =>
    rw [Msg.opCode, decodeMsg, if_neg (by decide), if_neg (by decide), if_neg (by decide), if_neg (by decide),
      if_neg (by decide), if_neg (by decide), if_neg (by decide), if_neg (by decide), if_neg (by decide),
      if_neg (by decide), if_neg (by decide), if_neg (by decide), if_neg (by decide), if_neg (by decide),
      if_pos rfl, map_run, decodeEvent_RT version e hv b hw rest]; rfl

/-- **Declared message length = emitted bytes** (`EncodedLength` vs `Encode`) for every valid message. -/
theorem encodeMsg_len (version : Nat) (m : Msg) (hv : ValidMsg version m) (b : Bytes) (hw : encodeMsg version m = .ok b) :
    lengthOfMsg version m = .ok b.length := by
  cases m with
  | startup o => exact encodeStartup_len version o b hw
  | options => exact encodeOptions_len version b hw
  | ready => exact encodeReady_len version b hw
  | query q o => exact encodeQuery_len version q o b hw
  | prepare q ks => exact encodePrepare_len version ⟨q, ks⟩ b hw
  | execute a c o => exact encodeExecute_len version a c o b hw
  | batch bt => exact encodeBatch_len version bt b hw
  | register l => exact encodeRegister_len version l b hw
  | authResponse t => exact encodeAuthResponse_len version t b hw
  | authChallenge t => exact encodeAuthChallenge_len version t b hw
  | authSuccess t => exact encodeAuthSuccess_len version t b hw
  | authenticate a => exact encodeAuthenticate_len version a b hw
  | supported o => exact encodeSupported_len version o b hw
  | revise x y z => exact encodeRevise_len version x y z b hw
  | error e => exact encodeError_len' version e hv b hw
  | result r =>
    refine encodeResult_len version r ?_ b hw
    intro m d hr; subst hr; exact hv.2
  | event e => exact encodeEvent_len version e (ValidEvent.ipWf hv) b hw

/-- **The encoder refuses no valid message.** -/
theorem encodeMsg_ok (version : Nat) (m : Msg) (hv : ValidMsg version m) : ∃ b, encodeMsg version m = .ok b := by
  cases m with
  | startup o => exact encodeStartup_ok version o hv
  | options => exact encodeOptions_ok version hv
  | ready => exact encodeReady_ok version hv
  | query q o => exact encodeQuery_ok version q o hv
  | prepare q ks => exact encodePrepare_ok version ⟨q, ks⟩ hv
  | execute a c o => exact encodeExecute_ok version a c o hv
  | batch bt => exact encodeBatch_ok version bt hv
  | register l => exact encodeRegister_ok version l hv
  | authResponse t => exact encodeAuthResponse_ok version t hv
  | authChallenge t => exact encodeAuthChallenge_ok version t hv
  | authSuccess t => exact encodeAuthSuccess_ok version t hv
  | authenticate a => exact encodeAuthenticate_ok version a hv
  | supported o => exact encodeSupported_ok version o hv
  | revise x y z => exact encodeRevise_ok version x y z hv
  | error e => exact encodeError_ok version e hv
  | result r => exact encodeResult_ok version r hv
  | event e => exact encodeEvent_ok version e hv

/-- **No message decoder can be driven into a panic site, whatever the opcode, version and bytes.** -/
theorem decodeMsg_noPanic (version opCode : Nat) : NoPanic (decodeMsg version opCode) := by
  rw [decodeMsg]
  no_panic [decodeStartup_noPanic version, decodeOptions_noPanic version, decodeQuery_noPanic version,
    decodePrepare_noPanic version, decodeExecute_noPanic version, decodeRegister_noPanic version,
    decodeBatch_noPanic version, decodeAuthResponse_noPanic version, decodeRevise_noPanic version,
    decodeError_noPanic version, decodeReady_noPanic version, decodeAuthenticate_noPanic version,
    decodeSupported_noPanic version, decodeResult_noPanic version, decodeEvent_noPanic version,
    decodeAuthChallenge_noPanic version, decodeAuthSuccess_noPanic version]

end Cql.Impl
