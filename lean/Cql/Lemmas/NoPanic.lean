import Cql.Prim
import Cql.Impl.Combinators
/-!
"Never panics" as a compositional predicate on parsers, for C04. A model reader reaches `.panic` only where the Go
code can reach a run-time panic with wire-controlled data (negative count into `make`, index out of range, …), so
`NoPanic p` is the statement that no byte string drives `p` into such a site.
-/
namespace Cql
open Cql.Prim Cql.Parser Cql.Impl

def NoPanic {α} (p : Parser α) : Prop := ∀ s e, p.run s ≠ .panic e

theorem NoPanic.pure {α} (a : α) : NoPanic (Pure.pure a : Parser α) := by
  intro s e h; cases h

theorem NoPanic.fail {α} (m : String) : NoPanic (Parser.fail m : Parser α) := by
  intro s e h; cases h

theorem NoPanic.bind {α β} {p : Parser α} {f : α → Parser β} (hp : NoPanic p) (hf : ∀ a, NoPanic (f a)) :
    NoPanic (p >>= f) := by
  intro s e h
  change (Parser.bind' p f).run s = _ at h
  simp only [Parser.bind'] at h
  cases hr : p.run s with
  | ok x => obtain ⟨a, r⟩ := x; rw [hr] at h; exact hf a r e h
  | err m => rw [hr] at h; cases h
  | panic m => exact hp s m hr

theorem NoPanic.map {α β} {p : Parser α} (f : α → β) (hp : NoPanic p) : NoPanic (f <$> p) := by
  intro s e h
  rw [map_run] at h
  cases hr : p.run s with
  | ok x => rw [hr] at h; cases h
  | err m => rw [hr] at h; cases h
  | panic m => exact hp s m hr

theorem NoPanic.ite {α} {c : Prop} [Decidable c] {p q : Parser α} (hp : NoPanic p) (hq : NoPanic q) :
    NoPanic (if c then p else q) := by
  by_cases h : c
  · rw [if_pos h]; exact hp
  · rw [if_neg h]; exact hq

theorem NoPanic.whenP {α} (c : Bool) {p : Parser α} (d : α) (hp : NoPanic p) : NoPanic (Impl.whenP c p d) := by
  cases c
  · exact NoPanic.pure d
  · exact hp

theorem NoPanic.guardP (c : Bool) (m : String) : NoPanic (Impl.guardP c m) := by
  cases c
  · exact NoPanic.fail m
  · exact NoPanic.pure ()

theorem NoPanic.readN {α} {p : Parser α} (hp : NoPanic p) : ∀ n, NoPanic (readN n p)
  | 0 => NoPanic.pure []
  | n + 1 => by
    rw [Prim.readN]
    exact NoPanic.bind hp (fun _ => NoPanic.bind (NoPanic.readN hp n) (fun _ => NoPanic.pure _))

theorem NoPanic.take (k : Nat) : NoPanic (take k) := by
  intro s e h
  rw [Prim.take] at h
  change (if s.length < k then _ else _) = _ at h
  split at h <;> cases h

theorem NoPanic.readBE (k : Nat) : NoPanic (readBE k) := by
  intro s e h
  rw [Prim.readBE] at h
  change (if s.length < k then _ else _) = _ at h
  split at h <;> cases h

theorem NoPanic.readByte : NoPanic readByte := fun s e h => NoPanic.readBE 1 s e (by rw [Prim.readByte] at h; exact h)
theorem NoPanic.readShort : NoPanic readShort := fun s e h => NoPanic.readBE 2 s e (by rw [Prim.readShort] at h; exact h)
theorem NoPanic.readInt : NoPanic readInt := fun s e h => NoPanic.readBE 4 s e (by rw [Prim.readInt] at h; exact h)
theorem NoPanic.readLong : NoPanic readLong := fun s e h => NoPanic.readBE 8 s e (by rw [Prim.readLong] at h; exact h)

/-- closes `NoPanic p` goals for parsers built from the combinators above; extra facts are passed in brackets -/
syntax "no_panic" ("[" term,* "]")? : tactic
macro_rules
  | `(tactic| no_panic) => `(tactic| no_panic [])
  | `(tactic| no_panic [$ts,*]) => `(tactic|
      repeat (first
        | exact NoPanic.pure _
        | exact NoPanic.fail _
        | exact NoPanic.readByte
        | exact NoPanic.readShort
        | exact NoPanic.readInt
        | exact NoPanic.readLong
        | exact NoPanic.take _
        | exact NoPanic.guardP _ _
        | assumption
        | (first $[| exact $ts]*)
        | (first $[| apply $ts]*)
        | apply NoPanic.bind
        | apply NoPanic.map
        | apply NoPanic.whenP
        | apply NoPanic.readN
        | apply NoPanic.ite
        | intro _))

theorem NoPanic.readString : NoPanic readString := by rw [Prim.readString]; no_panic
theorem NoPanic.readLongString : NoPanic readLongString := by rw [Prim.readLongString]; no_panic
theorem NoPanic.readBytes : NoPanic readBytes := by rw [Prim.readBytes]; no_panic
theorem NoPanic.readShortBytes : NoPanic readShortBytes := by rw [Prim.readShortBytes]; no_panic
theorem NoPanic.readStringList : NoPanic readStringList := by rw [Prim.readStringList]; no_panic [NoPanic.readString]
theorem NoPanic.readStringPair : NoPanic readStringPair := by rw [Prim.readStringPair]; no_panic [NoPanic.readString]
theorem NoPanic.readStringMap : NoPanic readStringMap := by rw [Prim.readStringMap]; no_panic [NoPanic.readStringPair]
theorem NoPanic.readStringMultiPair : NoPanic readStringMultiPair := by
  rw [Prim.readStringMultiPair]; no_panic [NoPanic.readString, NoPanic.readStringList]
theorem NoPanic.readStringMultiMap : NoPanic readStringMultiMap := by
  rw [Prim.readStringMultiMap]; no_panic [NoPanic.readStringMultiPair]
theorem NoPanic.readBytesPair : NoPanic readBytesPair := by
  rw [Prim.readBytesPair]; no_panic [NoPanic.readString, NoPanic.readBytes]
theorem NoPanic.readBytesMap : NoPanic readBytesMap := by rw [Prim.readBytesMap]; no_panic [NoPanic.readBytesPair]
theorem NoPanic.readUuid : NoPanic readUuid := by rw [Prim.readUuid]; no_panic
theorem NoPanic.readInetAddr : NoPanic readInetAddr := by rw [Prim.readInetAddr]; no_panic
theorem NoPanic.readInet : NoPanic readInet := by rw [Prim.readInet]; no_panic [NoPanic.readInetAddr]
theorem NoPanic.readValue (v : Nat) : NoPanic (readValue v) := by rw [Prim.readValue]; no_panic
theorem NoPanic.readPositionalValues (v : Nat) : NoPanic (readPositionalValues v) := by
  rw [Prim.readPositionalValues]; no_panic [NoPanic.readValue v]
theorem NoPanic.readNamedValue (v : Nat) : NoPanic (readNamedValue v) := by
  rw [Prim.readNamedValue]; no_panic [NoPanic.readString, NoPanic.readValue v]
theorem NoPanic.readNamedValues (v : Nat) : NoPanic (readNamedValues v) := by
  rw [Prim.readNamedValues]; no_panic [NoPanic.readNamedValue v]
theorem NoPanic.readFailureReason : NoPanic readFailureReason := by
  rw [Prim.readFailureReason]; no_panic [NoPanic.readInetAddr]
theorem NoPanic.readReasonMap : NoPanic readReasonMap := by
  rw [Prim.readReasonMap]; no_panic [NoPanic.readFailureReason]
theorem NoPanic.readStreamId (v : Nat) : NoPanic (readStreamId v) := by rw [Prim.readStreamId]; no_panic

end Cql
