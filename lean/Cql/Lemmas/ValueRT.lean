import Cql.Value
import Cql.Spec.Value
import Cql.Lemmas.VintRT
/-!
Lemmas connecting the Go-shaped value codecs (`Cql/Value.lean`) with the specification's serialization formats
(`Cql/Spec/Value.lean`): `encode = Spec.serialize` and `decode ∘ Spec.serialize = id`, bottom-up
(big-endian numerals → varint → vints → scalars → collections → the recursion over the type tree).
-/
namespace Cql.Value
open Cql Cql.Prim Cql.Parser Cql.Vint Cql.Spec

/-! ### big-endian numerals -/

theorem be_eq_beBytes (k n : Nat) : be k n = beBytes k n := by
  induction k generalizing n with
  | zero => rfl
  | succ k ih =>
    rw [beBytes_head, ← ih, be, be, List.range_succ_eq_map, List.map_cons, List.map_map]
    have h0 : k + 1 - 1 - 0 = k := by omega
    rw [h0]
    congr 1
    apply List.map_congr_left
    intro i _
    show UInt8.ofNat (n / 256 ^ (k + 1 - 1 - (i + 1)) % 256) = UInt8.ofNat (n / 256 ^ (k - 1 - i) % 256)
    have : k + 1 - 1 - (i + 1) = k - 1 - i := by omega
    rw [this]

theorem twos_eq (k : Nat) (v : Int) : twosV k v = beBytes k (v % ((256 ^ k : Nat) : Int)).toNat := by
  rw [twosV, be_eq_beBytes]

theorem pow256' (n : Nat) : 256 ^ n = 2 ^ (8 * n) := Vint.pow256 n

/-- half of the `n`-byte range -/
theorem two_mul_half (n : Nat) (hn : 1 ≤ n) : 256 ^ n = 2 * 2 ^ (8 * n - 1) := by
  rw [pow256']
  have : 8 * n = (8 * n - 1) + 1 := by omega
  rw [this, Nat.pow_succ, Nat.mul_comm]
  congr 2

def and128Ok (x : Nat) : Bool :=
  decide (x &&& 128 > 0) == decide (128 ≤ x) && decide (x &&& 128 ≠ 0) == decide (128 ≤ x)

theorem and128_table : ∀ x, x < 128 → (and128Ok x && and128Ok (x + 128)) = true := by decide

theorem and128 (x : Nat) (h : x < 256) : ((x &&& 128 > 0) ↔ 128 ≤ x) ∧ ((x &&& 128 ≠ 0) ↔ 128 ≤ x) := by
  have key : and128Ok x = true := by
    by_cases hx : x < 128
    · have := and128_table x hx
      rw [Bool.and_eq_true] at this; exact this.1
    · have := and128_table (x - 128) (by omega)
      rw [Bool.and_eq_true] at this
      have h2 : x - 128 + 128 = x := by omega
      rw [h2] at this; exact this.2
  rw [and128Ok] at key
  simp only [Bool.and_eq_true, beq_iff_eq, decide_eq_decide] at key
  exact key

theorem ofNat_toNat_lt (x : Nat) (h : x < 256) : (UInt8.ofNat x).toNat = x := by
  rw [UInt8.toNat_ofNat']; exact Nat.mod_eq_of_lt h

/-- `b[0]&0x80 > 0` on an `n`-byte numeral: the value is in the upper half -/
theorem topBitSet_beBytes (n x : Nat) (hn : 1 ≤ n) (hx : x < 256 ^ n) :
    topBitSet (beBytes n x) = decide (2 ^ (8 * n - 1) ≤ x) := by
  obtain ⟨m, rfl⟩ : ∃ m, n = m + 1 := ⟨n - 1, by omega⟩
  have hq : x / 256 ^ m < 256 := by
    rw [Nat.div_lt_iff_lt_mul (Nat.pow_pos (by decide))]
    rw [Nat.pow_succ, Nat.mul_comm] at hx
    exact hx
  rw [beBytes_head, topBitSet, Nat.mod_eq_of_lt hq, ofNat_toNat_lt _ hq]
  have hh : 2 ^ (8 * (m + 1) - 1) = 128 * 256 ^ m := by
    rw [pow256']
    have : 8 * (m + 1) - 1 = 7 + 8 * m := by omega
    rw [this, Nat.pow_add]
  rw [hh]
  apply decide_eq_decide.mpr
  rw [(and128 _ hq).1, Nat.le_div_iff_mul_le (Nat.pow_pos (by decide))]

/-! ### varint: the least two's-complement length -/

theorem fitsTwos_iff (k : Nat) (v : Int) :
    fitsTwos k v = true ↔ -((2 ^ (8 * k - 1) : Nat) : Int) ≤ v ∧ v < ((2 ^ (8 * k - 1) : Nat) : Int) := by
  rw [fitsTwos]; exact decide_eq_true_iff

theorem fitsTwos_mono (j n : Nat) (v : Int) (hjn : j ≤ n) (h : fitsTwos j v = true) : fitsTwos n v = true := by
  rw [fitsTwos_iff] at *
  have : 2 ^ (8 * j - 1) ≤ 2 ^ (8 * n - 1) := Nat.pow_le_pow_right (by decide) (by omega)
  omega

theorem minTwosLenFrom_eq (v : Int) (n : Nat) (hfit : fitsTwos n v = true) :
    ∀ fuel k, k ≤ n → n ≤ k + fuel → (∀ j, k ≤ j → j < n → fitsTwos j v = false) → minTwosLenFrom v fuel k = n := by
  intro fuel
  induction fuel with
  | zero => intro k h1 h2 _; rw [minTwosLenFrom]; omega
  | succ fuel ih =>
    intro k h1 h2 hno
    rw [minTwosLenFrom]
    by_cases hk : fitsTwos k v = true
    · rw [if_pos hk]
      apply Nat.le_antisymm h1
      apply Nat.le_of_not_lt
      intro hlt
      have := hno k (Nat.le_refl _) hlt
      rw [this] at hk; cases hk
    · rw [if_neg hk]
      have hne : k ≠ n := by intro h; rw [h] at hk; exact hk hfit
      exact ih (k + 1) (by omega) (by omega) (fun j hj hjn => hno j (by omega) hjn)

/-- `n` bytes suffice and `n - 1` do not: `n` is the minimal length -/
theorem minTwosLen_eq (v : Int) (n : Nat) (h1 : 1 ≤ n) (hfit : fitsTwos n v = true)
    (hmin : n = 1 ∨ fitsTwos (n - 1) v = false) : minTwosLen v = n := by
  rw [minTwosLen]
  apply minTwosLenFrom_eq v n hfit _ 1 h1
  · rcases hmin with h | h
    · omega
    · have hnf : ¬ (fitsTwos (n - 1) v = true) := by rw [h]; intro h'; cases h'
      rw [fitsTwos_iff] at hnf
      have h2 : n - 1 < 2 ^ (n - 1) := Nat.lt_two_pow_self
      by_cases hn1 : n = 1
      · omega
      · have h3 : 2 ^ (n - 1) ≤ 2 ^ (8 * (n - 1) - 1) := Nat.pow_le_pow_right (by decide) (by omega)
        omega
  · intro j hj hjn
    rcases hmin with h | h
    · omega
    · cases hf : fitsTwos j v with
      | false => rfl
      | true =>
        have := fitsTwos_mono j (n - 1) v (by omega) hf
        rw [h] at this; cases this

/-! ### varint: `writeBigInt` produces the minimal two's-complement numeral -/

/-- `Bytes()` of a positive value: `L` bytes with `256^(L-1) ≤ m < 256^L` -/
theorem natBytes_pos (m : Nat) (hm : 0 < m) :
    1 ≤ (bitLen m + 7) / 8 ∧ m < 256 ^ ((bitLen m + 7) / 8) ∧ 256 ^ ((bitLen m + 7) / 8 - 1) ≤ m := by
  have hb : 1 ≤ bitLen m := by
    apply Nat.le_of_not_lt
    intro h
    have := (bitLen_le_iff m 0).mp (by omega)
    omega
  refine ⟨by omega, ?_, ?_⟩
  · rw [pow256']
    exact Nat.lt_of_lt_of_le (lt_two_pow_bitLen m) (Nat.pow_le_pow_right (by decide) (by omega))
  · rw [pow256']
    exact two_pow_le_of_lt_bitLen m _ (by omega)

theorem toNat_emod_of_lt (m M : Nat) (h : m < M) : ((m : Int) % (M : Int)).toNat = m := by
  rw [Int.emod_eq_of_lt (by omega) (by omega)]; rfl

/-- `Sign() == 1` -/
theorem writeBigInt_pos (v : Int) (hv : 0 < v) :
    ∃ n, 1 ≤ n ∧ fitsTwos n v = true ∧ (n = 1 ∨ fitsTwos (n - 1) v = false) ∧
      writeBigInt v = beBytes n (v % ((256 ^ n : Nat) : Int)).toNat := by
  obtain ⟨m, rfl⟩ : ∃ m : Nat, v = (m : Int) := ⟨v.toNat, by omega⟩
  have hm : 0 < m := by omega
  obtain ⟨hL, hlt, hge⟩ := natBytes_pos m hm
  rw [writeBigInt, if_pos hv, Int.toNat_natCast, natBytes, padSign]
  generalize (bitLen m + 7) / 8 = L at *
  have hhalf := two_mul_half L hL
  rw [topBitSet_beBytes L m hL hlt]
  by_cases htop : 2 ^ (8 * L - 1) ≤ m
  · -- a leading zero byte keeps the sign bit clear
    rw [decide_eq_true htop]
    have hlt' : m < 256 ^ (L + 1) := by rw [Nat.pow_succ]; omega
    refine ⟨L + 1, by omega, ?_, Or.inr ?_, ?_⟩
    · rw [fitsTwos_iff]
      have : 256 ^ L ≤ 2 ^ (8 * (L + 1) - 1) := by
        rw [pow256']; exact Nat.pow_le_pow_right (by decide) (by omega)
      omega
    · rw [Nat.add_sub_cancel]
      cases hf : fitsTwos L (m : Int) with
      | false => rfl
      | true => rw [fitsTwos_iff] at hf; omega
    · rw [toNat_emod_of_lt m _ hlt', beBytes_head, Nat.div_eq_of_lt hlt]; rfl
  · rw [decide_eq_false htop]
    refine ⟨L, hL, ?_, ?_, ?_⟩
    · rw [fitsTwos_iff]; omega
    · by_cases h1 : L = 1
      · exact Or.inl h1
      · refine Or.inr ?_
        cases hf : fitsTwos (L - 1) (m : Int) with
        | false => rfl
        | true =>
          rw [fitsTwos_iff] at hf
          have := two_mul_half (L - 1) (by omega)
          omega
    · rw [toNat_emod_of_lt m _ hlt]; rfl

theorem toNat_emod_of_eq (v : Int) (M c w : Nat) (hw : (w : Int) = v + (c : Int) * (M : Int)) :
    (v % (M : Int)).toNat = w % M := by
  have h : v = (w : Int) + (-(c : Int)) * (M : Int) := by
    rw [Int.neg_mul]; omega
  rw [h, Int.add_mul_emod_self_right, Int.ofNat_mod_ofNat, Int.toNat_natCast]

/-- the `k`-byte numeral of `2^(8k) - a` for `0 < a < 2^(8k-1)` (what `Add(n, Lsh(1, length)).Bytes()` yields) -/
theorem natBytes_neg (a k : Nat) (hk : 1 ≤ k) (ha : 0 < a) (hlt : a < 2 ^ (8 * k - 1)) :
    natBytes (256 ^ k - a) = beBytes k (256 ^ k - a) := by
  have hhalf := two_mul_half k hk
  have h1 : bitLen (256 ^ k - a) ≤ 8 * k := by
    rw [bitLen_le_iff, ← pow256']; omega
  have h2 : ¬ bitLen (256 ^ k - a) ≤ 8 * k - 1 := by
    rw [bitLen_le_iff]; omega
  have : (bitLen (256 ^ k - a) + 7) / 8 = k := by omega
  rw [natBytes, this]

theorem stripFF_beBytes (j w : Nat) (hw : w < 256 ^ (j + 2)) :
    stripFF (beBytes (j + 2) w) = if 65408 * 256 ^ j ≤ w then beBytes (j + 1) w else beBytes (j + 2) w := by
  have hQ : 0 < 256 ^ j := Nat.pow_pos (by decide)
  have hz : w / 256 ^ j < 65536 := by
    rw [Nat.div_lt_iff_lt_mul hQ]
    have : 256 ^ (j + 2) = 65536 * 256 ^ j := by
      rw [Nat.pow_add, Nat.mul_comm]
    omega
  have hdiv : w / 256 ^ (j + 1) = w / 256 ^ j / 256 := by
    rw [Nat.div_div_eq_div_mul, Nat.pow_succ]
  have hb1 : w / 256 ^ j % 256 < 256 := Nat.mod_lt _ (by decide)
  have hb0 : w / 256 ^ j / 256 < 256 := by omega
  rw [beBytes_head (j + 1), beBytes_head j, stripFF, hdiv, Nat.mod_eq_of_lt hb0, ofNat_toNat_lt _ hb0,
    ofNat_toNat_lt _ hb1]
  have hcond : (w / 256 ^ j / 256 = 255 ∧ w / 256 ^ j % 256 &&& 128 ≠ 0) ↔ 65408 * 256 ^ j ≤ w := by
    rw [(and128 _ hb1).2, ← Nat.le_div_iff_mul_le hQ]
    omega
  by_cases hc : 65408 * 256 ^ j ≤ w
  · rw [if_pos (hcond.mpr hc), if_pos hc]
  · rw [if_neg (fun h => hc (hcond.mp h)), if_neg hc, ← hdiv]

/-- `Sign() == -1` -/
theorem writeBigInt_neg (v : Int) (hv : v < 0) :
    ∃ n, 1 ≤ n ∧ fitsTwos n v = true ∧ (n = 1 ∨ fitsTwos (n - 1) v = false) ∧
      writeBigInt v = beBytes n (v % ((256 ^ n : Nat) : Int)).toNat := by
  obtain ⟨a, rfl, ha⟩ : ∃ a : Nat, v = -(a : Int) ∧ 0 < a := ⟨v.natAbs, by omega, by omega⟩
  have hnat : (-(a : Int)).natAbs = a := by omega
  rw [writeBigInt, if_neg (by omega), if_pos hv, negLength, hnat]
  obtain ⟨k, hk⟩ : ∃ k, bitLen a / 8 + 1 = k := ⟨_, rfl⟩
  have hk1 : 1 ≤ k := by omega
  have hk8 : (bitLen a / 8 + 1) * 8 = 8 * k := by omega
  rw [hk8, ← pow256']
  have halt : a < 2 ^ (8 * k - 1) :=
    Nat.lt_of_lt_of_le (lt_two_pow_bitLen a) (Nat.pow_le_pow_right (by decide) (by omega))
  have hhalf := two_mul_half k hk1
  have hw : (-(a : Int) + ((256 ^ k : Nat) : Int)).toNat = 256 ^ k - a := by omega
  rw [hw, natBytes_neg a k hk1 ha halt]
  have hwlt : 256 ^ k - a < 256 ^ k := by omega
  -- the `k`-byte answer
  have hfull : beBytes k (256 ^ k - a) = beBytes k (-(a : Int) % ((256 ^ k : Nat) : Int)).toNat := by
    rw [toNat_emod_of_eq (-(a : Int)) (256 ^ k) 1 (256 ^ k - a) (by omega), Nat.mod_eq_of_lt hwlt]
  have hfitk : fitsTwos k (-(a : Int)) = true := by rw [fitsTwos_iff]; omega
  by_cases hk2 : k = 1
  · subst hk2
    refine ⟨1, Nat.le_refl _, hfitk, Or.inl rfl, ?_⟩
    rw [← hfull, beBytes_head, beBytes]; rfl
  · obtain ⟨j, rfl⟩ : ∃ j, k = j + 2 := ⟨k - 2, by omega⟩
    have hP : 2 ^ (8 * (j + 1) - 1) = 128 * 256 ^ j := by
      rw [pow256']
      have : 8 * (j + 1) - 1 = 7 + 8 * j := by omega
      rw [this, Nat.pow_add]
    have hW : 256 ^ (j + 2) = 65536 * 256 ^ j := by rw [Nat.pow_add, Nat.mul_comm]
    rw [stripFF_beBytes j _ hwlt]
    by_cases hc : 65408 * 256 ^ j ≤ 256 ^ (j + 2) - a
    · rw [if_pos hc]
      refine ⟨j + 1, by omega, ?_, ?_, ?_⟩
      · rw [fitsTwos_iff, hP]; omega
      · by_cases hj : j = 0
        · exact Or.inl (by omega)
        · refine Or.inr ?_
          rw [Nat.add_sub_cancel]
          cases hf : fitsTwos j (-(a : Int)) with
          | false => rfl
          | true =>
            rw [fitsTwos_iff] at hf
            have h1 : 2 ^ (8 * j + 7) ≤ a := two_pow_le_of_lt_bitLen a _ (by omega)
            have h2 : 2 ^ (8 * j - 1) < 2 ^ (8 * j + 7) := Nat.pow_lt_pow_right (by decide) (by omega)
            omega
      · have hM : 256 ^ (j + 2) = 256 * 256 ^ (j + 1) := by rw [Nat.pow_succ, Nat.mul_comm]
        rw [toNat_emod_of_eq (-(a : Int)) (256 ^ (j + 1)) 256 (256 ^ (j + 2) - a) (by
          have : ((256 : Nat) : Int) * ((256 ^ (j + 1) : Nat) : Int) = ((256 * 256 ^ (j + 1) : Nat) : Int) := by
            rw [Int.natCast_mul]
          rw [this, ← hM]; omega)]
        exact beBytes_congr _ _ _ (Nat.mod_mod _ _).symm
    · rw [if_neg hc]
      refine ⟨j + 2, by omega, hfitk, Or.inr ?_, hfull⟩
      have : j + 2 - 1 = j + 1 := by omega
      rw [this]
      cases hf : fitsTwos (j + 1) (-(a : Int)) with
      | false => rfl
      | true => rw [fitsTwos_iff, hP] at hf; omega

theorem writeBigInt_twos (v : Int) :
    ∃ n, 1 ≤ n ∧ fitsTwos n v = true ∧ (n = 1 ∨ fitsTwos (n - 1) v = false) ∧
      writeBigInt v = beBytes n (v % ((256 ^ n : Nat) : Int)).toNat := by
  by_cases hp : 0 < v
  · exact writeBigInt_pos v hp
  · by_cases hn : v < 0
    · exact writeBigInt_neg v hn
    · have : v = 0 := by omega
      subst this
      exact ⟨1, Nat.le_refl _, by decide, Or.inl rfl, by decide⟩

/-- C12 for varint: the Go writer yields the shortest two's-complement numeral -/
theorem writeBigInt_eq_spec (v : Int) : writeBigInt v = minimalTwosComplement v := by
  obtain ⟨n, h1, hfit, hmin, hb⟩ := writeBigInt_twos v
  rw [minimalTwosComplement, minTwosLen_eq v n h1 hfit hmin, twos_eq, hb]

theorem minTwosLen_spec (v : Int) : 1 ≤ minTwosLen v ∧ fitsTwos (minTwosLen v) v = true := by
  obtain ⟨n, h1, hfit, hmin, _⟩ := writeBigInt_twos v
  rw [minTwosLen_eq v n h1 hfit hmin]; exact ⟨h1, hfit⟩

/-- reading an `n`-byte two's-complement numeral of a value it can denote -/
theorem readBigInt_twos (n : Nat) (v : Int) (hn : 1 ≤ n) (hfit : fitsTwos n v = true) :
    readBigInt (beBytes n (v % ((256 ^ n : Nat) : Int)).toNat) = some v := by
  have hhalf := two_mul_half n hn
  rw [fitsTwos_iff] at hfit
  have hM : 0 < 256 ^ n := Nat.pow_pos (by decide)
  have hxlt : (v % ((256 ^ n : Nat) : Int)).toNat < 256 ^ n := by
    have := Int.emod_lt_of_pos v (b := ((256 ^ n : Nat) : Int)) (by omega)
    have := Int.emod_nonneg v (b := ((256 ^ n : Nat) : Int)) (by omega)
    omega
  rw [readBigInt, beBytes_length, if_pos (by omega), topBitSet_beBytes n _ hn hxlt, beNat_beBytes,
    Nat.mod_eq_of_lt hxlt]
  have hpow : 2 ^ (n * 8) = 256 ^ n := by rw [pow256', Nat.mul_comm]
  rw [hpow]
  by_cases hv : 0 ≤ v
  · have hx : (v % ((256 ^ n : Nat) : Int)).toNat = v.toNat := by
      rw [Int.emod_eq_of_lt hv (by omega)]
    rw [hx, decide_eq_false (by omega)]
    show some ((v.toNat : Int)) = some v
    rw [Int.toNat_of_nonneg hv]
  · have hx : (v % ((256 ^ n : Nat) : Int)).toNat = (v + ((256 ^ n : Nat) : Int)).toNat := by
      rw [toNat_emod_of_eq v (256 ^ n) 1 (v + ((256 ^ n : Nat) : Int)).toNat (by omega), Nat.mod_eq_of_lt (by omega)]
    rw [hx, decide_eq_true (by omega)]
    show some (((v + ((256 ^ n : Nat) : Int)).toNat : Int) - ((256 ^ n : Nat) : Int)) = some v
    congr 1
    omega

theorem readBigInt_spec (v : Int) : readBigInt (minimalTwosComplement v) = some v := by
  obtain ⟨h1, hfit⟩ := minTwosLen_spec v
  rw [minimalTwosComplement, twos_eq]
  exact readBigInt_twos _ v h1 hfit

theorem minimalTwosComplement_length (v : Int) : (minimalTwosComplement v).length = minTwosLen v := by
  rw [minimalTwosComplement, twos_eq, beBytes_length]

/-! ### vints against the specification's description -/

theorem vintExtraFrom_eq (v n : Nat) :
    ∀ fuel k, k ≤ n → n ≤ k + fuel → (n < k + fuel → v < 2 ^ (7 * n + 7)) →
      (∀ j, k ≤ j → j < n → ¬ v < 2 ^ (7 * j + 7)) → vintExtraFrom v fuel k = n := by
  intro fuel
  induction fuel with
  | zero => intro k h1 h2 _ _; rw [vintExtraFrom]; omega
  | succ fuel ih =>
    intro k h1 h2 hfit hno
    rw [vintExtraFrom]
    by_cases hk : v < 2 ^ (7 * k + 7)
    · rw [if_pos hk]
      apply Nat.le_antisymm h1
      apply Nat.le_of_not_lt
      intro hlt
      exact hno k (Nat.le_refl _) hlt hk
    · rw [if_neg hk]
      have hne : k ≠ n := by
        intro h; subst h; exact hk (hfit (by omega))
      exact ih (k + 1) (by omega) (by omega) (fun h => hfit (by omega)) (fun j hj hjn => hno j (by omega) hjn)

theorem vintExtra_eq (v : Nat) (hv : v < 18446744073709551616) : vintExtra v = lengthOfUnsignedVint v - 1 := by
  obtain ⟨h1, h9, hlt, hge⟩ := vint_class v hv
  rw [vintExtra]
  apply vintExtraFrom_eq v _ 8 0 (by omega) (by omega)
  · intro h
    have := hlt (by omega)
    have he : 7 * (lengthOfUnsignedVint v - 1) + 7 = 7 * lengthOfUnsignedVint v := by omega
    rw [he]; exact this
  · intro j _ hj hlt'
    have h2 := hge (by omega)
    have : 2 ^ (7 * j + 7) ≤ 2 ^ (7 * (lengthOfUnsignedVint v - 1)) := Nat.pow_le_pow_right (by decide) (by omega)
    omega

/-- C12 for `[unsigned vint]`: the Go writer produces exactly the layout the specification describes -/
theorem writeUnsignedVint_eq_spec (v : Nat) (hv : v < 18446744073709551616) : writeUnsignedVint v = unsignedVint v := by
  have hc := vint_class v hv
  rw [writeUnsignedVint_eq v hv, unsignedVint, vintExtra_eq v hv, be_eq_beBytes]
  obtain ⟨e, he⟩ : ∃ e, lengthOfUnsignedVint v = e + 1 := ⟨lengthOfUnsignedVint v - 1, by omega⟩
  rw [he, Nat.add_sub_cancel, beBytes_head]
  have he8 : e ≤ 8 := by omega
  have hq := vint_top_lt v e he8 hv (fun h7 => by have := hc.2.2.1 (by omega); rw [he] at this; exact this)
  obtain ⟨f1, _, _, _, _, f6⟩ := firstByte_facts e _ he8 hq
  have hP : 0 < 256 ^ e := Nat.pow_pos (by decide)
  have hdiv : ((256 - 2 ^ (8 - e)) * 256 ^ e + v) / 256 ^ e = 256 - 2 ^ (8 - e) + v / 256 ^ e := by
    rw [Nat.add_comm, Nat.add_mul_div_right _ _ hP, Nat.add_comm]
  have hmod : ((256 - 2 ^ (8 - e)) * 256 ^ e + v) % 256 ^ e = v % 256 ^ e := by
    rw [Nat.add_comm, Nat.add_mul_mod_self_right]
  rw [hdiv, ← f6, Nat.mod_eq_of_lt f1, beBytes_congr e _ v hmod]

/-- zig-zag on `int64` agrees with the specification's table `0, -1, 1, -2, 2, …` -/
theorem encodeZigZag_eq_spec (n : Int) (h1 : -9223372036854775808 ≤ n) (h2 : n ≤ 9223372036854775807) :
    (encodeZigZag (BitVec.ofInt 64 n)).toNat = zigZag n := by
  rw [encodeZigZag_toNat, BitVec.toNat_ofInt, zigZag]
  show (if (n % ((2 ^ 64 : Nat) : Int)).toNat < 9223372036854775808 then _ else _) = _
  have hp : ((2 ^ 64 : Nat) : Int) = 18446744073709551616 := by decide
  rw [hp]
  by_cases hn : n ≥ 0
  · rw [if_pos hn, if_pos (by omega)]; omega
  · rw [if_neg hn, if_neg (by omega)]; omega

theorem zigZag_lt (n : Int) (h1 : -9223372036854775808 ≤ n) (h2 : n ≤ 9223372036854775807) :
    zigZag n < 18446744073709551616 := by
  rw [zigZag]
  by_cases hn : n ≥ 0
  · rw [if_pos hn]; omega
  · rw [if_neg hn]; omega

theorem writeVint_eq_spec (n : Int) (h1 : -9223372036854775808 ≤ n) (h2 : n ≤ 9223372036854775807) :
    writeVint (BitVec.ofInt 64 n) = vint n := by
  rw [writeVint, vint, encodeZigZag_eq_spec n h1 h2, writeUnsignedVint_eq_spec _ (zigZag_lt n h1 h2)]

theorem toInt_ofInt64 (n : Int) (h1 : -9223372036854775808 ≤ n) (h2 : n ≤ 9223372036854775807) :
    (BitVec.ofInt 64 n).toInt = n := by
  rw [BitVec.toInt_ofInt]
  have hp : ((2 : Nat) ^ 64) = 18446744073709551616 := by decide
  rw [hp]
  rw [Int.bmod_def]
  omega

theorem readVint_spec (n : Int) (h1 : -9223372036854775808 ≤ n) (h2 : n ≤ 9223372036854775807) (rest : Bytes) :
    readVint.run (vint n ++ rest) = .ok (BitVec.ofInt 64 n, rest) := by
  rw [← writeVint_eq_spec n h1 h2]; exact readVint_RT _ rest
/-! ### scalars -/

/-- the format each Go codec implements -/
def fmt : Codec → Format
  | .string => .bytes | .blob => .bytes | .bigint => .int 8 | .time => .int 8 | .timestamp => .int 8
  | .int => .int 4 | .smallint => .int 2 | .tinyint => .int 1 | .boolean => .boolean | .date => .date
  | .decimal => .decimal | .double => .double | .duration => .duration | .float => .float | .inet => .inet
  | .uuid => .uuid | .varint => .varint

theorem formatTable_eq : formatTable = codecTable.map (fun p => (p.1, fmt p.2)) := by decide

theorem lookup_map_snd {β γ} (g : β → γ) (c : Nat) : ∀ l : List (Nat × β),
    (l.map (fun p => (p.1, g p.2))).lookup c = (l.lookup c).map g
  | [] => rfl
  | (a, b) :: l => by
    rw [List.map_cons, List.lookup_cons, List.lookup_cons]
    cases h : (c == a) with
    | true => rfl
    | false => exact lookup_map_snd g c l

/-- the switch of `NewCodec` and the specification's table agree on every type code -/
theorem formatOf_eq (c : Nat) : formatOf c = (primCodec c).map fmt := by
  rw [formatOf, primCodec, formatTable_eq, lookup_map_snd]

theorem twos8 (v : Int) : twosV 8 v = beBytes 8 (bits64 v) := by rw [twos_eq, bits64]; rfl
theorem twos4 (v : Int) : twosV 4 v = beBytes 4 (bits32 v) := by rw [twos_eq, bits32]; rfl
theorem twos2 (v : Int) : twosV 2 v = beBytes 2 (bits16 v) := by rw [twos_eq, bits16]; rfl
theorem twos1 (v : Int) : twosV 1 v = beBytes 1 (bits8 v) := by rw [twos_eq, bits8]; rfl

theorem fits8 (v : Int) : fitsTwos 8 v = inInt64 v := by
  rw [fitsTwos, inInt64]
  have : (2 ^ (8 * 8 - 1) : Nat) = 9223372036854775808 := by decide
  rw [this]; apply decide_eq_decide.mpr; omega
theorem fits4 (v : Int) : fitsTwos 4 v = inInt32 v := by
  rw [fitsTwos, inInt32]
  have : (2 ^ (8 * 4 - 1) : Nat) = 2147483648 := by decide
  rw [this]; apply decide_eq_decide.mpr; omega
theorem fits2 (v : Int) : fitsTwos 2 v = inInt16 v := by
  rw [fitsTwos, inInt16]
  have : (2 ^ (8 * 2 - 1) : Nat) = 32768 := by decide
  rw [this]; apply decide_eq_decide.mpr; omega
theorem fits1 (v : Int) : fitsTwos 1 v = inInt8 v := by
  rw [fitsTwos, inInt8]
  have : (2 ^ (8 * 1 - 1) : Nat) = 128 := by decide
  rw [this]; apply decide_eq_decide.mpr; omega

theorem inInt32_of (v : Int) (h : -2147483648 ≤ v ∧ v ≤ 2147483647) : inInt32 v = true := by
  rw [inInt32]; exact decide_eq_true h
theorem inInt64_of (v : Int) (h : -9223372036854775808 ≤ v ∧ v ≤ 9223372036854775807) : inInt64 v = true := by
  rw [inInt64]; exact decide_eq_true h

theorem compactV4_of_hasFormat (b : Bytes) (h : b.length = 4 ∨ (b.length = 16 ∧ v4Mapped b = false)) :
    compactV4 b = b := by
  rw [compactV4, to4]
  rcases h with h | ⟨h16, hm⟩
  · rw [if_pos h]
  · rw [if_neg (by omega)]
    have : ¬ (b.length = 16 ∧ b.take 12 = v4InV6Prefix) := by
      intro ⟨_, hp⟩
      rw [v4Mapped, hp] at hm
      exact absurd hm (by decide)
    rw [if_neg this]

/-- C12, scalar codecs: `Encode` of a representable value is the specification's serialization -/
theorem encodeScalarVal_spec (k : Codec) (x : CqlVal) (h : HasFormat (fmt k) x) :
    encodeScalarVal k x = .ok (some (serializeScalar (fmt k) x)) := by
  cases k
  case string => cases x <;> first | exact False.elim h | rfl
  case blob => cases x <;> first | exact False.elim h | rfl
  case bigint =>
    cases x <;> try (exact False.elim h)
    rename_i v
    have h' : inInt64 v = true := by rw [← fits8]; exact h
    rw [encodeScalarVal, if_pos h', fmt, serializeScalar, twos8, writeInt64]
  case time =>
    cases x <;> try (exact False.elim h)
    rename_i v
    have h' : inInt64 v = true := by rw [← fits8]; exact h
    rw [encodeScalarVal, if_pos h', fmt, serializeScalar, twos8, writeInt64]
  case timestamp =>
    cases x <;> try (exact False.elim h)
    rename_i v
    have h' : inInt64 v = true := by rw [← fits8]; exact h
    rw [encodeScalarVal, if_pos h', fmt, serializeScalar, twos8, writeInt64]
  case int =>
    cases x <;> try (exact False.elim h)
    rename_i v
    have h' : inInt32 v = true := by rw [← fits4]; exact h
    rw [encodeScalarVal, if_pos h', fmt, serializeScalar, twos4, writeInt32]
  case smallint =>
    cases x <;> try (exact False.elim h)
    rename_i v
    have h' : inInt16 v = true := by rw [← fits2]; exact h
    rw [encodeScalarVal, if_pos h', fmt, serializeScalar, twos2, writeInt16]
  case tinyint =>
    cases x <;> try (exact False.elim h)
    rename_i v
    have h' : inInt8 v = true := by rw [← fits1]; exact h
    rw [encodeScalarVal, if_pos h', fmt, serializeScalar, twos1, writeInt8]
  case boolean => cases x <;> first | exact False.elim h | rfl
  case date =>
    cases x <;> try (exact False.elim h)
    rename_i v
    have hr : -2147483648 ≤ v ∧ v ≤ 2147483647 := h
    rw [encodeScalarVal, if_pos (inInt32_of v hr), fmt, serializeScalar, be_eq_beBytes, writeInt32]
    have : (bits32 v + 2147483648) % 4294967296 = (v + 2147483648).toNat := by rw [bits32]; omega
    rw [this]
  case decimal =>
    cases x <;> try (exact False.elim h)
    rename_i u s
    have hr : -2147483648 ≤ s ∧ s ≤ 2147483647 := h
    rw [encodeScalarVal, if_pos (inInt32_of s hr), fmt, serializeScalar, writeDecimal, writeBigInt_eq_spec, Spec.intV,
      twos4]
  case double =>
    cases x <;> try (exact False.elim h)
    rename_i f
    have hr : f < 18446744073709551616 := h
    rw [encodeScalarVal, if_pos hr, fmt, serializeScalar, be_eq_beBytes, writeFloat64]
  case float =>
    cases x <;> try (exact False.elim h)
    rename_i f
    have hr : f < 4294967296 := h
    rw [encodeScalarVal, if_pos hr, fmt, serializeScalar, be_eq_beBytes, writeFloat32]
  case duration =>
    cases x <;> try (exact False.elim h)
    rename_i m d n
    obtain ⟨hm, hd, hn⟩ : (-2147483648 ≤ m ∧ m ≤ 2147483647) ∧ (-2147483648 ≤ d ∧ d ≤ 2147483647) ∧
      (-9223372036854775808 ≤ n ∧ n ≤ 9223372036854775807) := h
    rw [encodeScalarVal, if_pos ⟨inInt32_of m hm, inInt32_of d hd, inInt64_of n hn⟩, fmt, serializeScalar, writeDuration,
      writeVint_eq_spec m (by omega) (by omega), writeVint_eq_spec d (by omega) (by omega),
      writeVint_eq_spec n hn.1 hn.2]
  case inet =>
    cases x <;> try (exact False.elim h)
    rename_i b
    have hr : b.length = 4 ∨ (b.length = 16 ∧ v4Mapped b = false) := h
    have hc := compactV4_of_hasFormat b hr
    rw [encodeScalarVal, hc, writeInet, if_neg (by omega), if_pos (by omega), hc, fmt, serializeScalar]
  case uuid =>
    cases x <;> try (exact False.elim h)
    rename_i b
    have hr : b.length = 16 := h
    rw [encodeScalarVal, if_neg (by omega), fmt, serializeScalar]
  case varint =>
    cases x <;> try (exact False.elim h)
    rename_i v
    rw [encodeScalarVal, writeBigInt_eq_spec, fmt, serializeScalar]
theorem readFixed_beBytes (k x : Nat) (hk : k ≠ 0) (hx : x < 256 ^ k) :
    readFixed k (beBytes k x) = .ok (some x) := by
  rw [readFixed, beBytes_length, if_neg hk, if_neg (by simp), beNat_beBytes, Nat.mod_eq_of_lt hx]

theorem bits64_lt (v : Int) : bits64 v < 256 ^ 8 := by
  rw [bits64]; have : (256 : Nat) ^ 8 = 18446744073709551616 := by decide
  rw [this]; omega
theorem bits32_lt (v : Int) : bits32 v < 256 ^ 4 := by
  rw [bits32]; have : (256 : Nat) ^ 4 = 4294967296 := by decide
  rw [this]; omega
theorem bits16_lt (v : Int) : bits16 v < 256 ^ 2 := by
  rw [bits16]; have : (256 : Nat) ^ 2 = 65536 := by decide
  rw [this]; omega
theorem bits8_lt (v : Int) : bits8 v < 256 ^ 1 := by
  rw [bits8]; have : (256 : Nat) ^ 1 = 256 := by decide
  rw [this]; omega

theorem toInt64_bits64 (v : Int) (h : inInt64 v = true) : toInt64 (bits64 v) = v := by
  rw [inInt64, decide_eq_true_iff] at h
  rw [toInt64, bits64]
  by_cases hv : 0 ≤ v
  · rw [if_neg (by omega)]; omega
  · rw [if_pos (by omega)]; omega
theorem toInt32_bits32 (v : Int) (h : inInt32 v = true) : toInt32 (bits32 v) = v := by
  rw [inInt32, decide_eq_true_iff] at h
  rw [toInt32, bits32]
  by_cases hv : 0 ≤ v
  · rw [if_neg (by omega)]; omega
  · rw [if_pos (by omega)]; omega
theorem toInt16_bits16 (v : Int) (h : inInt16 v = true) : toInt16 (bits16 v) = v := by
  rw [inInt16, decide_eq_true_iff] at h
  rw [toInt16, bits16]
  by_cases hv : 0 ≤ v
  · rw [if_neg (by omega)]; omega
  · rw [if_pos (by omega)]; omega
theorem toInt8_bits8 (v : Int) (h : inInt8 v = true) : toInt8 (bits8 v) = v := by
  rw [inInt8, decide_eq_true_iff] at h
  rw [toInt8, bits8]
  by_cases hv : 0 ≤ v
  · rw [if_neg (by omega)]; omega
  · rw [if_pos (by omega)]; omega

theorem dec_int64 (v : Int) (h : inInt64 v = true) :
    (readInt64 (beBytes 8 (bits64 v)) >>= fun r => (pure (r.map fun n => CqlVal.int (toInt64 n)) : Res (Option CqlVal))) =
      .ok (some (.int v)) := by
  rw [readInt64, readFixed_beBytes 8 _ (by decide) (bits64_lt v)]
  show Res.ok (some (CqlVal.int (toInt64 (bits64 v)))) = _
  rw [toInt64_bits64 v h]

theorem vint_ne_nil (n : Int) (h1 : -9223372036854775808 ≤ n) (h2 : n ≤ 9223372036854775807) : (vint n).length ≠ 0 := by
  rw [← writeVint_eq_spec n h1 h2, writeVint_len, lengthOfVint]
  have := (vint_class _ (encodeZigZag (BitVec.ofInt 64 n)).isLt).1
  omega

theorem int64ToInt32_ofInt (m : Int) (h : -2147483648 ≤ m ∧ m ≤ 2147483647) :
    int64ToInt32 (BitVec.ofInt 64 m) = .ok m := by
  rw [int64ToInt32, toInt_ofInt64 m (by omega) (by omega), if_neg (by omega)]

theorem readDuration_spec (m d n : Int) (hm : -2147483648 ≤ m ∧ m ≤ 2147483647)
    (hd : -2147483648 ≤ d ∧ d ≤ 2147483647) (hn : -9223372036854775808 ≤ n ∧ n ≤ 9223372036854775807) :
    readDuration (vint m ++ vint d ++ vint n) = .ok (some (m, d, n)) := by
  have hlen : (vint m ++ vint d ++ vint n).length ≠ 0 := by
    have := vint_ne_nil m (by omega) (by omega)
    rw [List.length_append, List.length_append]; omega
  have hbody : readDurationBody.run (vint m ++ vint d ++ vint n) = .ok ((m, d, n), []) := by
    rw [readDurationBody, List.append_assoc,
      bind_ok (readVint_spec m (by omega) (by omega) _),
      bind_ok (readVint_spec d (by omega) (by omega) _)]
    have h3 := readVint_spec n hn.1 hn.2 []
    rw [List.append_nil] at h3
    rw [bind_ok h3]
    have hr : remaining.run ([] : Bytes) = .ok (0, []) := rfl
    rw [bind_ok hr, if_neg (by simp)]
    have l1 : (liftR (int64ToInt32 (BitVec.ofInt 64 m))).run [] = .ok (m, []) := by
      rw [int64ToInt32_ofInt m hm]; rfl
    have l2 : (liftR (int64ToInt32 (BitVec.ofInt 64 d))).run [] = .ok (d, []) := by
      rw [int64ToInt32_ofInt d hd]; rfl
    rw [bind_ok l1, bind_ok l2, toInt_ofInt64 n hn.1 hn.2]
    rfl
  rw [readDuration, if_neg hlen, hbody]

theorem readDecimal_spec (u s : Int) :
    readDecimal (beBytes 4 (bits32 s) ++ minimalTwosComplement u) = .ok (some (bits32 s, u)) := by
  have h1 := (minTwosLen_spec u).1
  have hl : (beBytes 4 (bits32 s) ++ minimalTwosComplement u).length = 4 + minTwosLen u := by
    rw [List.length_append, beBytes_length, minimalTwosComplement_length]
  rw [readDecimal, hl, if_neg (by omega), if_neg (by omega), List.drop_left' (beBytes_length 4 _),
    List.take_left' (beBytes_length 4 _), readBigInt_spec, beNat_beBytes, Nat.mod_eq_of_lt (bits32_lt s)]

/-- C11 (decode side), scalar codecs: `Decode` of the specification's serialization returns the value -/
theorem decodeScalar_spec (k : Codec) (x : CqlVal) (h : HasFormat (fmt k) x) :
    decodeScalar k (some (serializeScalar (fmt k) x)) = .ok (some x) := by
  cases k
  case string => cases x <;> first | exact False.elim h | rfl
  case blob => cases x <;> first | exact False.elim h | rfl
  case bigint =>
    cases x <;> try (exact False.elim h)
    rename_i v
    have h' : inInt64 v = true := by rw [← fits8]; exact h
    rw [decodeScalar, fmt, serializeScalar, twos8]
    exact dec_int64 v h'
  case time =>
    cases x <;> try (exact False.elim h)
    rename_i v
    have h' : inInt64 v = true := by rw [← fits8]; exact h
    rw [decodeScalar, fmt, serializeScalar, twos8]
    exact dec_int64 v h'
  case timestamp =>
    cases x <;> try (exact False.elim h)
    rename_i v
    have h' : inInt64 v = true := by rw [← fits8]; exact h
    rw [decodeScalar, fmt, serializeScalar, twos8]
    exact dec_int64 v h'
  case int =>
    cases x <;> try (exact False.elim h)
    rename_i v
    have h' : inInt32 v = true := by rw [← fits4]; exact h
    rw [decodeScalar, fmt, serializeScalar, twos4]
    show (readInt32 (beBytes 4 (bits32 v)) >>= _) = _
    rw [readInt32, readFixed_beBytes 4 _ (by decide) (bits32_lt v)]
    show Res.ok (some (CqlVal.int (toInt32 (bits32 v)))) = _
    rw [toInt32_bits32 v h']
  case smallint =>
    cases x <;> try (exact False.elim h)
    rename_i v
    have h' : inInt16 v = true := by rw [← fits2]; exact h
    rw [decodeScalar, fmt, serializeScalar, twos2]
    show (readInt16 (beBytes 2 (bits16 v)) >>= _) = _
    rw [readInt16, readFixed_beBytes 2 _ (by decide) (bits16_lt v)]
    show Res.ok (some (CqlVal.int (toInt16 (bits16 v)))) = _
    rw [toInt16_bits16 v h']
  case tinyint =>
    cases x <;> try (exact False.elim h)
    rename_i v
    have h' : inInt8 v = true := by rw [← fits1]; exact h
    rw [decodeScalar, fmt, serializeScalar, twos1]
    show (readInt8 (beBytes 1 (bits8 v)) >>= _) = _
    rw [readInt8, readFixed_beBytes 1 _ (by decide) (bits8_lt v)]
    show Res.ok (some (CqlVal.int (toInt8 (bits8 v)))) = _
    rw [toInt8_bits8 v h']
  case boolean =>
    cases x <;> try (exact False.elim h)
    rename_i b
    cases b <;> rfl
  case date =>
    cases x <;> try (exact False.elim h)
    rename_i v
    have hr : -2147483648 ≤ v ∧ v ≤ 2147483647 := h
    rw [decodeScalar, fmt, serializeScalar, be_eq_beBytes]
    show (readInt32 (beBytes 4 (v + 2147483648).toNat) >>= _) = _
    rw [readInt32, readFixed_beBytes 4 _ (by decide) (by
      have : (256 : Nat) ^ 4 = 4294967296 := by decide
      rw [this]; omega)]
    show Res.ok (some (CqlVal.int (toInt32 (((v + 2147483648).toNat + 2147483648) % 4294967296)))) = _
    have : toInt32 (((v + 2147483648).toNat + 2147483648) % 4294967296) = v := by
      rw [toInt32]
      by_cases hv : 0 ≤ v
      · rw [if_neg (by omega)]; omega
      · rw [if_pos (by omega)]; omega
    rw [this]
  case decimal =>
    cases x <;> try (exact False.elim h)
    rename_i u s
    have hr : -2147483648 ≤ s ∧ s ≤ 2147483647 := h
    rw [decodeScalar, fmt, serializeScalar, Spec.intV, twos4]
    show (readDecimal (beBytes 4 (bits32 s) ++ minimalTwosComplement u) >>= _) = _
    rw [readDecimal_spec u s]
    show Res.ok (some (CqlVal.decimal u (toInt32 (bits32 s)))) = _
    rw [toInt32_bits32 s (inInt32_of s hr)]
  case double =>
    cases x <;> try (exact False.elim h)
    rename_i f
    have hr : f < 18446744073709551616 := h
    rw [decodeScalar, fmt, serializeScalar, be_eq_beBytes]
    show (readFloat64 (beBytes 8 f) >>= _) = _
    rw [readFloat64, readFixed_beBytes 8 _ (by decide) (by
      have : (256 : Nat) ^ 8 = 18446744073709551616 := by decide
      rw [this]; exact hr)]
    rfl
  case float =>
    cases x <;> try (exact False.elim h)
    rename_i f
    have hr : f < 4294967296 := h
    rw [decodeScalar, fmt, serializeScalar, be_eq_beBytes]
    show (readFloat32 (beBytes 4 f) >>= _) = _
    rw [readFloat32, readFixed_beBytes 4 _ (by decide) (by
      have : (256 : Nat) ^ 4 = 4294967296 := by decide
      rw [this]; exact hr)]
    rfl
  case duration =>
    cases x <;> try (exact False.elim h)
    rename_i m d n
    obtain ⟨hm, hd, hn⟩ : (-2147483648 ≤ m ∧ m ≤ 2147483647) ∧ (-2147483648 ≤ d ∧ d ≤ 2147483647) ∧
      (-9223372036854775808 ≤ n ∧ n ≤ 9223372036854775807) := h
    rw [decodeScalar, fmt, serializeScalar]
    show (readDuration (vint m ++ vint d ++ vint n) >>= _) = _
    rw [readDuration_spec m d n hm hd hn]
    rfl
  case inet =>
    cases x <;> try (exact False.elim h)
    rename_i b
    have hr : b.length = 4 ∨ (b.length = 16 ∧ v4Mapped b = false) := h
    rw [decodeScalar, fmt, serializeScalar]
    show (readInet b >>= _) = _
    rw [readInet]
    rcases hr with h4 | ⟨h16, _⟩
    · rw [if_neg (by omega), if_pos h4]; rfl
    · rw [if_neg (by omega), if_neg (by omega), if_pos h16]; rfl
  case uuid =>
    cases x <;> try (exact False.elim h)
    rename_i b
    have hr : b.length = 16 := h
    rw [decodeScalar, fmt, serializeScalar]
    show (readUuid b >>= _) = _
    rw [readUuid, if_neg (by omega), if_neg (by omega)]; rfl
  case varint =>
    cases x <;> try (exact False.elim h)
    rename_i v
    rw [decodeScalar, fmt, serializeScalar]
    show Res.ok ((readBigInt (minimalTwosComplement v)).map CqlVal.int) = _
    rw [readBigInt_spec]; rfl
/-! ### collections: counts and elements -/

theorem uses4_eq (version : Nat) : uses4 version = fourByte version := rfl

/-- what the length prefix of an element can say: NULL only with `[bytes]`; the length fits -/
def ObOk (version : Nat) (ob : Option Bytes) : Prop :=
  (fourByte version = false → ob.isSome = true) ∧
  ∀ b, ob = some b → b.length < (if fourByte version then 2147483648 else 65536)

theorem ObOk_of_ElemOk (version : Nat) (P : CqlVal → Prop) (ser : CqlVal → Bytes) (o : Option CqlVal)
    (h : ElemOk version P ser o) : ObOk version (o.map ser) := by
  cases o with
  | none =>
    refine ⟨fun hf => ?_, fun b hb => by cases hb⟩
    have : fourByte version = true := h
    rw [this] at hf; cases hf
  | some y =>
    refine ⟨fun _ => rfl, fun b hb => ?_⟩
    have h2 : (ser y).length < (if fourByte version then 2147483648 else 65536) := h.2
    have : ser y = b := by cases hb; rfl
    rw [← this]; exact h2

theorem int_natCast (n : Nat) (h : n < 4294967296) : Spec.intV (n : Int) = writeInt n := by
  rw [Spec.intV, twos4, writeInt]
  have : bits32 (n : Int) = n := by rw [bits32]; omega
  rw [this]

theorem bytesOpt_eq (ob : Option Bytes) (h : ∀ b, ob = some b → b.length < 2147483648) : bytesOpt ob = writeBytes ob := by
  cases ob with
  | none => rw [bytesOpt, writeBytes, Spec.intV, twos4, writeInt]; rfl
  | some b =>
    have hb := h b rfl
    rw [bytesOpt, writeBytes, int_natCast _ (by omega), Nat.mod_eq_of_lt (by omega)]

theorem shortBytes_eq (b : Bytes) (h : b.length < 65536) : shortBytesV b = writeShortBytes (some b) := by
  rw [shortBytesV, writeShortBytes, Spec.shortV, be_eq_beBytes]
  show _ = writeShort (b.length % 65536) ++ b
  rw [Nat.mod_eq_of_lt h, writeShort]

theorem writeCollectionSize_spec (version n : Nat) (h : CountOk version n) :
    writeCollectionSize n version = .ok (count version n) := by
  rw [writeCollectionSize, count, uses4_eq]
  rw [CountOk] at h
  cases hf : fourByte version with
  | true =>
    rw [hf, if_pos rfl] at h
    rw [if_pos rfl, if_pos rfl, if_neg (by omega), int_natCast n (by omega)]
  | false =>
    rw [hf, if_neg (by decide)] at h
    rw [if_neg (by decide), if_neg (by omega), if_neg (by decide), Spec.shortV, be_eq_beBytes, writeShort]

theorem readCollectionSize_spec (version n : Nat) (h : CountOk version n) (rest : Bytes) :
    (readCollectionSize version).run (count version n ++ rest) = .ok (n, rest) := by
  rw [readCollectionSize, count, uses4_eq]
  rw [CountOk] at h
  cases hf : fourByte version with
  | true =>
    rw [hf, if_pos rfl] at h
    rw [if_pos rfl, if_pos rfl, int_natCast n (by omega), bind_ok (readInt_RT n (by omega) rest)]
    have : isNeg32 n = false := by rw [isNeg32]; exact decide_eq_false (by omega)
    rw [this]; rfl
  | false =>
    rw [hf, if_neg (by decide)] at h
    rw [if_neg (by decide), if_neg (by decide), Spec.shortV, be_eq_beBytes]
    exact readShort_RT n h rest

theorem element_length_ge (version : Nat) (ob : Option Bytes) : 2 ≤ (element version ob).length := by
  rw [element]
  cases fourByte version with
  | true =>
    rw [if_pos rfl]
    cases ob with
    | none => rw [bytesOpt, Spec.intV, twos_eq, beBytes_length]; omega
    | some b => rw [bytesOpt, Spec.intV, twos_eq, List.length_append, beBytes_length]; omega
  | false =>
    rw [if_neg (by decide), shortBytesV, Spec.shortV, be_eq_beBytes, List.length_append, beBytes_length]; omega

theorem writeElem_spec (version : Nat) (enc : Option CqlVal → Res (Option Bytes)) (o : Option CqlVal) (ob : Option Bytes)
    (henc : enc o = .ok ob) (hob : ObOk version ob) : writeElem version enc o = .ok (element version ob) := by
  rw [writeElem, henc, element, uses4_eq]
  show (if fourByte version = true then _ else _) = _
  cases hf : fourByte version with
  | true =>
    rw [if_pos rfl, if_pos rfl, bytesOpt_eq ob (fun b hb => by have := hob.2 b hb; rw [hf, if_pos rfl] at this; exact this)]
    rfl
  | false =>
    rw [if_neg (by decide), if_neg (by decide)]
    cases ob with
    | none => have := hob.1 hf; cases this
    | some b =>
      have := hob.2 b rfl
      rw [hf, if_neg (by decide)] at this
      show (if b.length > 65535 then _ else pure (writeShortBytes (some b))) = _
      rw [if_neg (by omega), Option.getD_some, shortBytes_eq b this]; rfl

theorem readElemBytes_spec (version : Nat) (ob : Option Bytes) (hob : ObOk version ob) (rest : Bytes) :
    (readElemBytes version).run (element version ob ++ rest) = .ok (ob, rest) := by
  rw [readElemBytes, element, uses4_eq]
  cases hf : fourByte version with
  | true =>
    have hb : ∀ b, ob = some b → b.length < 2147483648 := fun b hb => by
      have := hob.2 b hb; rw [hf, if_pos rfl] at this; exact this
    rw [if_pos rfl, if_pos rfl, bytesOpt_eq ob hb]
    exact readBytes_RT ob hb rest
  | false =>
    rw [if_neg (by decide), if_neg (by decide)]
    cases ob with
    | none => have := hob.1 hf; cases this
    | some b =>
      have := hob.2 b rfl
      rw [hf, if_neg (by decide)] at this
      rw [Option.getD_some, shortBytes_eq b this]
      exact readShortBytes_RT (some b) this rest
/-! ### collections: the loops -/

theorem writeAll_map {α} (w : α → Res Bytes) (f : α → Bytes) : ∀ (l : List α), (∀ x ∈ l, w x = .ok (f x)) →
    writeAll w l = .ok ((l.map f).flatten)
  | [], _ => rfl
  | x :: xs, h => by
    rw [writeAll, h x List.mem_cons_self, writeAll_map w f xs (fun y hy => h y (List.mem_cons_of_mem _ hy))]
    rfl

theorem flatten_length_ge {α} (f : α → Bytes) (m : Nat) : ∀ (l : List α), (∀ x ∈ l, m ≤ (f x).length) →
    m * l.length ≤ ((l.map f).flatten).length
  | [], _ => by simp
  | x :: xs, h => by
    have h1 := h x List.mem_cons_self
    have h2 := flatten_length_ge f m xs (fun y hy => h y (List.mem_cons_of_mem _ hy))
    rw [List.map_cons, List.flatten_cons, List.length_append, List.length_cons, Nat.mul_succ]
    omega

theorem checkCollectionSize_ok (size k : Nat) (s : Bytes) (h : size * k ≤ s.length) :
    (checkCollectionSize size k).run s = .ok ((), s) := by
  rw [checkCollectionSize]
  have hr : remaining.run s = .ok (s.length, s) := rfl
  rw [bind_ok hr, if_neg (by omega)]
  rfl

theorem readAll_ok {α} (p : Parser α) (s : Bytes) (a : α) (h : p.run s = .ok (a, [])) : readAll p s = .ok a := by
  rw [readAll, h]; rfl

theorem liftR_ok {α} (r : Res α) (a : α) (h : r = .ok a) (s : Bytes) : (liftR r).run s = .ok (a, s) := by
  rw [h]; rfl

/-- `writeCollection` against §5.12 / v2 §6 -/
theorem writeCollection_spec (version : Nat) (enc : Option CqlVal → Res (Option Bytes)) (ser : CqlVal → Bytes)
    (xs : List (Option CqlVal)) (hc : CountOk version xs.length)
    (h : ∀ o ∈ xs, enc o = .ok (o.map ser) ∧ ObOk version (o.map ser)) :
    writeCollection version enc xs =
      .ok (count version xs.length ++ (xs.map fun o => element version (o.map ser)).flatten) := by
  rw [writeCollection, writeCollectionSize_spec version _ hc,
    writeAll_map (writeElem version enc) (fun o => element version (o.map ser)) xs
      (fun o ho => writeElem_spec version enc o _ (h o ho).1 (h o ho).2)]
  rfl

theorem readCollectionElem_spec (version : Nat) (dec : Option Bytes → Res (Option CqlVal)) (ob : Option Bytes)
    (o : Option CqlVal) (hdec : dec ob = .ok o) (hob : ObOk version ob) (rest : Bytes) :
    (readCollectionElem version dec).run (element version ob ++ rest) = .ok (o, rest) := by
  rw [readCollectionElem, bind_ok (readElemBytes_spec version ob hob rest)]
  exact liftR_ok _ _ hdec rest

theorem readCollection_spec (version : Nat) (dec : Option Bytes → Res (Option CqlVal)) (ser : CqlVal → Bytes)
    (xs : List (Option CqlVal)) (hc : CountOk version xs.length)
    (h : ∀ o ∈ xs, dec (o.map ser) = .ok o ∧ ObOk version (o.map ser)) :
    readCollection version dec (count version xs.length ++ (xs.map fun o => element version (o.map ser)).flatten) =
      .ok xs := by
  rw [readCollection]
  apply readAll_ok
  rw [bind_ok (readCollectionSize_spec version _ hc _),
    bind_ok (checkCollectionSize_ok _ 1 _ (by
      have := flatten_length_ge (fun o : Option CqlVal => element version (o.map ser)) 2 xs
        (fun o _ => element_length_ge version _)
      omega))]
  have := readN_RT_id (readCollectionElem version dec) (fun o : Option CqlVal => element version (o.map ser)) xs
    (fun o ho rest => readCollectionElem_spec version dec _ o (h o ho).1 (h o ho).2 rest) []
  rw [List.append_nil] at this
  exact this

theorem count_length_ge (version n : Nat) : 2 ≤ (count version n).length := by
  rw [count]
  cases fourByte version with
  | true => rw [if_pos rfl, Spec.intV, twos_eq, beBytes_length]; omega
  | false => rw [if_neg (by decide), Spec.shortV, be_eq_beBytes, beBytes_length]; omega

/-! maps -/

theorem writeMapEntry_spec (version : Nat) (encK encV : Option CqlVal → Res (Option Bytes)) (serK serV : CqlVal → Bytes)
    (p : Option CqlVal × Option CqlVal) (hk : encK p.1 = .ok (p.1.map serK)) (hv : encV p.2 = .ok (p.2.map serV))
    (hok : ObOk version (p.1.map serK)) (hov : ObOk version (p.2.map serV)) :
    writeMapEntry version encK encV p =
      .ok (element version (p.1.map serK) ++ element version (p.2.map serV)) := by
  have h1 := writeElem_spec version encK p.1 _ hk hok
  have h2 := writeElem_spec version encV p.2 _ hv hov
  rw [writeElem, hk] at h1
  rw [writeElem, hv] at h2
  rw [writeMapEntry, hk, hv]
  show (if uses4 version = true then _ else _) = _
  cases hf : uses4 version with
  | true =>
    rw [hf] at h1 h2
    have h1' : writeBytes (p.1.map serK) = element version (p.1.map serK) := Res.ok_inj h1
    have h2' : writeBytes (p.2.map serV) = element version (p.2.map serV) := Res.ok_inj h2
    rw [if_pos rfl, ← h1', ← h2']; rfl
  | false =>
    have hf' : fourByte version = false := by rw [← uses4_eq]; exact hf
    rw [if_neg (by decide)]
    cases hk' : p.1.map serK with
    | none => have := hok.1 hf'; rw [hk'] at this; cases this
    | some k =>
      cases hv' : p.2.map serV with
      | none => have := hov.1 hf'; rw [hv'] at this; cases this
      | some v =>
        -- the `[short]` bound of `HasType` keeps both `collectionElementTooLarge` checks silent
        have bk := hok.2 k hk'
        have bv := hov.2 v hv'
        rw [hf', if_neg (by decide)] at bk bv
        show (if k.length > 65535 then _ else if v.length > 65535 then _ else _) = _
        rw [if_neg (by omega), if_neg (by omega), element, element, hf', if_neg (by decide), if_neg (by decide),
          Option.getD_some, Option.getD_some, shortBytes_eq k bk, shortBytes_eq v bv]
        rfl

theorem readMapEntry_spec (version : Nat) (decK decV : Option Bytes → Res (Option CqlVal)) (obk obv : Option Bytes)
    (k v : Option CqlVal) (hk : decK obk = .ok k) (hv : decV obv = .ok v) (hok : ObOk version obk)
    (hov : ObOk version obv) (rest : Bytes) :
    (readMapEntry version decK decV).run (element version obk ++ element version obv ++ rest) = .ok ((k, v), rest) := by
  rw [readMapEntry, List.append_assoc, bind_ok (readElemBytes_spec version obk hok _),
    bind_ok (readElemBytes_spec version obv hov rest), bind_ok (liftR_ok _ _ hk rest), bind_ok (liftR_ok _ _ hv rest)]
  rfl

theorem writeMap_spec (version : Nat) (encK encV : Option CqlVal → Res (Option Bytes)) (serK serV : CqlVal → Bytes)
    (es : List (Option CqlVal × Option CqlVal)) (hc : CountOk version es.length)
    (h : ∀ p ∈ es, (encK p.1 = .ok (p.1.map serK) ∧ ObOk version (p.1.map serK)) ∧
      (encV p.2 = .ok (p.2.map serV) ∧ ObOk version (p.2.map serV))) :
    writeMap version encK encV es =
      .ok (count version es.length ++
        (es.map fun p => element version (p.1.map serK) ++ element version (p.2.map serV)).flatten) := by
  rw [writeMap, writeCollectionSize_spec version _ hc,
    writeAll_map (writeMapEntry version encK encV)
      (fun p => element version (p.1.map serK) ++ element version (p.2.map serV)) es
      (fun p hp => writeMapEntry_spec version encK encV serK serV p (h p hp).1.1 (h p hp).2.1 (h p hp).1.2 (h p hp).2.2)]
  rfl

theorem readMap_spec (version : Nat) (decK decV : Option Bytes → Res (Option CqlVal)) (serK serV : CqlVal → Bytes)
    (es : List (Option CqlVal × Option CqlVal)) (hc : CountOk version es.length)
    (h : ∀ p ∈ es, (decK (p.1.map serK) = .ok p.1 ∧ ObOk version (p.1.map serK)) ∧
      (decV (p.2.map serV) = .ok p.2 ∧ ObOk version (p.2.map serV))) :
    readMap version decK decV (count version es.length ++
        (es.map fun p => element version (p.1.map serK) ++ element version (p.2.map serV)).flatten) = .ok es := by
  rw [readMap]
  apply readAll_ok
  rw [bind_ok (readCollectionSize_spec version _ hc _),
    bind_ok (checkCollectionSize_ok _ 2 _ (by
      have := flatten_length_ge
        (fun p : Option CqlVal × Option CqlVal => element version (p.1.map serK) ++ element version (p.2.map serV)) 4 es
        (fun p _ => by
          have := element_length_ge version (p.1.map serK)
          have := element_length_ge version (p.2.map serV)
          rw [List.length_append]; omega)
      omega))]
  have := readN_RT_id (readMapEntry version decK decV)
    (fun p : Option CqlVal × Option CqlVal => element version (p.1.map serK) ++ element version (p.2.map serV)) es
    (fun p hp rest => readMapEntry_spec version decK decV _ _ p.1 p.2 (h p hp).1.1 (h p hp).2.1 (h p hp).1.2
      (h p hp).2.2 rest) []
  rw [List.append_nil] at this
  exact this
/-! ### the recursion over the type tree -/

theorem primCodec_of_formatOf (c : Nat) (f : Format) (h : formatOf c = some f) : ∃ k, primCodec c = some k ∧ fmt k = f := by
  rw [formatOf_eq] at h
  cases hk : primCodec c with
  | none => rw [hk] at h; cases h
  | some k => rw [hk] at h; exact ⟨k, rfl, Option.some.inj h⟩

mutual
theorem codecOk_of_supported : ∀ (t : DataType), Supported t = true → codecOk t = true
  | .prim c, h => by
    rw [Supported, formatOf_eq] at h
    rw [codecOk]
    cases hk : primCodec c with
    | none => rw [hk] at h; cases h
    | some k => rfl
  | .custom _, _ => by rw [codecOk]
  | .list e, h => by rw [Supported] at h; rw [codecOk]; exact codecOk_of_supported e h
  | .set e, h => by rw [Supported] at h; rw [codecOk]; exact codecOk_of_supported e h
  | .map k v, h => by
    rw [Supported, Bool.and_eq_true] at h
    rw [codecOk, codecOk_of_supported k h.1, codecOk_of_supported v h.2]; rfl
  | .tuple ts, h => by rw [Supported] at h; rw [codecOk]; exact codecOkList_of_supported ts h
  | .udt _ _ _ ts, h => by rw [Supported] at h; rw [codecOk]; exact codecOkList_of_supported ts h
theorem codecOkList_of_supported : ∀ (ts : List DataType), SupportedList ts = true → codecOkList ts = true
  | [], _ => by rw [codecOkList]
  | t :: ts, h => by
    rw [SupportedList, Bool.and_eq_true] at h
    rw [codecOkList, codecOk_of_supported t h.1, codecOkList_of_supported ts h.2]; rfl
end

/-- C14 at the recursion level: a nil source is NULL for every constructible codec -/
theorem encodeC_none (version : Nat) (t : DataType) (hs : Supported t = true) : encodeC version t none = .ok none := by
  cases t with
  | prim c =>
    rw [Supported] at hs
    cases hf : formatOf c with
    | none => rw [hf] at hs; cases hs
    | some f =>
      obtain ⟨k, hk, _⟩ := primCodec_of_formatOf c f hf
      rw [encodeC, hk]; rfl
  | custom _ => rfl
  | list e => rw [encodeC]; rfl
  | set e => rw [encodeC]; rfl
  | map k v => rw [encodeC]; rfl
  | tuple ts => rw [encodeC]
  | udt _ _ _ ts => rw [encodeC]

theorem decodeScalar_none (k : Codec) : decodeScalar k none = .ok none := by
  cases k <;> rfl

theorem decodeC_none (version : Nat) (t : DataType) (hs : Supported t = true) : decodeC version t none = .ok none := by
  cases t with
  | prim c =>
    rw [Supported] at hs
    cases hf : formatOf c with
    | none => rw [hf] at hs; cases hs
    | some f =>
      obtain ⟨k, hk, _⟩ := primCodec_of_formatOf c f hf
      rw [decodeC, hk]; exact decodeScalar_none k
  | custom _ => rfl
  | list e => rw [decodeC]; rfl
  | set e => rw [decodeC]; rfl
  | map k v => rw [decodeC]; rfl
  | tuple ts => rw [decodeC]; rfl
  | udt _ _ _ ts => rw [decodeC]; rfl
theorem bytesOpt_length_ge (ob : Option Bytes) : 4 ≤ (bytesOpt ob).length := by
  cases ob with
  | none => rw [bytesOpt, Spec.intV, twos_eq, beBytes_length]; omega
  | some b => rw [bytesOpt, Spec.intV, twos_eq, List.length_append, beBytes_length]; omega

theorem serializeFields_length (version : Nat) (ts : List DataType) (fs : List (Option CqlVal)) (hne : ts ≠ [])
    (h : HasFields version ts fs) : (serializeFields version ts fs).length ≠ 0 := by
  cases ts with
  | nil => exact absurd rfl hne
  | cons t ts =>
    cases fs with
    | nil => exact False.elim h
    | cons f fs =>
      rw [serializeFields, List.length_append]
      have := bytesOpt_length_ge (f.map (serialize version t))
      omega

theorem bufBytes_serializeFields (version : Nat) (ts : List DataType) (fs : List (Option CqlVal)) (hne : ts ≠ [])
    (h : HasFields version ts fs) : bufBytes (serializeFields version ts fs) = some (serializeFields version ts fs) := by
  have := serializeFields_length version ts fs hne h
  rw [bufBytes]
  cases hb : serializeFields version ts fs with
  | nil => rw [hb] at this; exact absurd rfl this
  | cons x xs => rfl

theorem enc_elem (version : Nat) (e : DataType) (hs : Supported e = true)
    (ih : ∀ y, HasType version e y → encodeC version e (some y) = .ok (some (serialize version e y)))
    (o : Option CqlVal) (h : ElemOk version (HasType version e) (serialize version e) o) :
    encodeC version e o = .ok (o.map (serialize version e)) ∧ ObOk version (o.map (serialize version e)) := by
  refine ⟨?_, ObOk_of_ElemOk _ _ _ _ h⟩
  cases o with
  | none => exact encodeC_none version e hs
  | some y => exact ih y h.1

theorem enc_field (version : Nat) (e : DataType) (hs : Supported e = true)
    (ih : ∀ y, HasType version e y → encodeC version e (some y) = .ok (some (serialize version e y)))
    (o : Option CqlVal) (h : FieldOk (HasType version e) (serialize version e) o) :
    encodeC version e o = .ok (o.map (serialize version e)) ∧
      ∀ b, o.map (serialize version e) = some b → b.length < 2147483648 := by
  cases o with
  | none => exact ⟨encodeC_none version e hs, fun b hb => by cases hb⟩
  | some y =>
    refine ⟨ih y h.1, fun b hb => ?_⟩
    have : serialize version e y = b := by cases hb; rfl
    rw [← this]; exact h.2

mutual
theorem encodeC_spec (version : Nat) : ∀ (t : DataType) (x : CqlVal), Supported t = true → HasType version t x →
    encodeC version t (some x) = .ok (some (serialize version t x))
  | .prim c, x, _, ht => by
    rw [HasType] at ht
    obtain ⟨f, hf, hx⟩ := ht
    obtain ⟨k, hk, rfl⟩ := primCodec_of_formatOf c f hf
    rw [encodeC, hk, serialize, hf]
    exact encodeScalarVal_spec k x hx
  | .custom _, x, _, ht => by
    rw [HasType] at ht
    rw [encodeC, serialize]; exact encodeScalarVal_spec .blob x ht
  | .list e, x, hs, ht => by
    cases x <;> try (exact False.elim ht)
    rename_i xs
    rw [HasType] at ht; rw [Supported] at hs
    rw [encodeC, encodeCollection, serialize,
      writeCollection_spec version (encodeC version e) (serialize version e) xs ht.1
        (fun o ho => enc_elem version e hs (fun y hy => encodeC_spec version e y hs hy) o (ht.2 o ho))]
    rfl
  | .set e, x, hs, ht => by
    cases x <;> try (exact False.elim ht)
    rename_i xs
    rw [HasType] at ht; rw [Supported] at hs
    rw [encodeC, encodeCollection, serialize,
      writeCollection_spec version (encodeC version e) (serialize version e) xs ht.1
        (fun o ho => enc_elem version e hs (fun y hy => encodeC_spec version e y hs hy) o (ht.2 o ho))]
    rfl
  | .map k v, x, hs, ht => by
    cases x <;> try (exact False.elim ht)
    rename_i es
    rw [HasType] at ht; rw [Supported, Bool.and_eq_true] at hs
    rw [encodeC, encodeMap, serialize,
      writeMap_spec version (encodeC version k) (encodeC version v) (serialize version k) (serialize version v) es ht.1
        (fun p hp => ⟨enc_elem version k hs.1 (fun y hy => encodeC_spec version k y hs.1 hy) p.1 (ht.2 p hp).1,
          enc_elem version v hs.2 (fun y hy => encodeC_spec version v y hs.2 hy) p.2 (ht.2 p hp).2⟩)]
    rfl
  | .tuple ts, x, hs, ht => by
    cases x <;> try (exact False.elim ht)
    rename_i fs
    rw [HasType] at ht; rw [Supported] at hs
    rw [encodeC, serialize, writeTuple_spec version ts fs hs ht.2]
    show Res.ok (bufBytes (serializeFields version ts fs)) = _
    rw [bufBytes_serializeFields version ts fs ht.1 ht.2]
  | .udt _ _ names ts, x, hs, ht => by
    cases x <;> try (exact False.elim ht)
    rename_i fs
    rw [HasType] at ht; rw [Supported] at hs
    rw [encodeC, serialize, writeUdt_spec version names ts fs (by omega) hs ht.2.2]
    show Res.ok (bufBytes (serializeFields version ts fs)) = _
    rw [bufBytes_serializeFields version ts fs ht.1 ht.2.2]

theorem writeTuple_spec (version : Nat) : ∀ (ts : List DataType) (fs : List (Option CqlVal)), SupportedList ts = true →
    HasFields version ts fs → writeTuple version ts fs = .ok (serializeFields version ts fs)
  | [], [], _, _ => rfl
  | [], _ :: _, _, h => False.elim h
  | _ :: _, [], _, h => False.elim h
  | t :: ts, f :: fs, hs, h => by
    rw [HasFields] at h; rw [SupportedList, Bool.and_eq_true] at hs
    obtain ⟨h1, h2⟩ := enc_field version t hs.1 (fun y hy => encodeC_spec version t y hs.1 hy) f h.1
    rw [writeTuple, h1, writeTuple_spec version ts fs hs.2 h.2, serializeFields, bytesOpt_eq _ h2]
    rfl

theorem writeUdt_spec (version : Nat) : ∀ (names : List Bytes) (ts : List DataType) (fs : List (Option CqlVal)),
    ts.length ≤ names.length → SupportedList ts = true → HasFields version ts fs →
    writeUdt version names ts fs = .ok (serializeFields version ts fs)
  | _, [], [], _, _, _ => by rw [writeUdt]; rfl
  | _, [], _ :: _, _, _, h => False.elim h
  | _, _ :: _, [], _, _, h => False.elim h
  | [], _ :: _, _ :: _, hl, _, _ => by simp at hl
  | _ :: ns, t :: ts, f :: fs, hl, hs, h => by
    rw [HasFields] at h; rw [SupportedList, Bool.and_eq_true] at hs
    obtain ⟨h1, h2⟩ := enc_field version t hs.1 (fun y hy => encodeC_spec version t y hs.1 hy) f h.1
    rw [writeUdt, h1, writeUdt_spec version ns ts fs (by simpa using hl) hs.2 h.2, serializeFields, bytesOpt_eq _ h2]
    rfl
end
/-- a UDT field that is present: the input is not exhausted (a `[bytes]` has at least its 4-byte length) -/
theorem readUdtFieldBytes_RT (b : Option Bytes) (h : ∀ c, b = some c → c.length < 2147483648) (rest : Bytes) :
    readUdtFieldBytes.run (writeBytes b ++ rest) = .ok (b, rest) := by
  have hr : remaining.run (writeBytes b ++ rest) = .ok ((writeBytes b ++ rest).length, writeBytes b ++ rest) := rfl
  have h4 : lengthOfInt = 4 := rfl
  have hl : (writeBytes b ++ rest).length > 0 := by
    rw [List.length_append, writeBytes_len]
    cases b with
    | none => rw [lengthOfBytes]; omega
    | some c => rw [lengthOfBytes]; omega
  rw [readUdtFieldBytes, bind_ok hr, if_pos hl]
  exact readBytes_RT b h rest

/-- a UDT field after the end of the input: its bytes are nil -/
theorem readUdtFieldBytes_nil : readUdtFieldBytes.run [] = .ok (none, []) := rfl

theorem dec_elem (version : Nat) (e : DataType) (hs : Supported e = true)
    (ih : ∀ y, HasType version e y → decodeC version e (some (serialize version e y)) = .ok (some y))
    (o : Option CqlVal) (h : ElemOk version (HasType version e) (serialize version e) o) :
    decodeC version e (o.map (serialize version e)) = .ok o ∧ ObOk version (o.map (serialize version e)) := by
  refine ⟨?_, ObOk_of_ElemOk _ _ _ _ h⟩
  cases o with
  | none => exact decodeC_none version e hs
  | some y => exact ih y h.1

theorem dec_field (version : Nat) (e : DataType) (hs : Supported e = true)
    (ih : ∀ y, HasType version e y → decodeC version e (some (serialize version e y)) = .ok (some y))
    (o : Option CqlVal) (h : FieldOk (HasType version e) (serialize version e) o) :
    decodeC version e (o.map (serialize version e)) = .ok o ∧
      ∀ b, o.map (serialize version e) = some b → b.length < 2147483648 := by
  cases o with
  | none => exact ⟨decodeC_none version e hs, fun b hb => by cases hb⟩
  | some y =>
    refine ⟨ih y h.1, fun b hb => ?_⟩
    have : serialize version e y = b := by cases hb; rfl
    rw [← this]; exact h.2

theorem decodeCollection_some (version : Nat) (dec : Option Bytes → Res (Option CqlVal)) (bs : Bytes)
    (xs : List (Option CqlVal)) (hne : bs.length ≠ 0) (h : readCollection version dec bs = .ok xs) :
    decodeCollection version dec (some bs) = .ok (some (.list xs)) := by
  rw [decodeCollection, Option.getD_some, if_neg hne, h]; rfl

theorem decodeMap_some (version : Nat) (decK decV : Option Bytes → Res (Option CqlVal)) (bs : Bytes)
    (es : List (Option CqlVal × Option CqlVal)) (hne : bs.length ≠ 0) (h : readMap version decK decV bs = .ok es) :
    decodeMap version decK decV (some bs) = .ok (some (.map es)) := by
  rw [decodeMap, Option.getD_some, if_neg hne, h]; rfl

theorem count_append_length (version n : Nat) (b : Bytes) : (count version n ++ b).length ≠ 0 := by
  have := count_length_ge version n
  rw [List.length_append]; omega

mutual
theorem decodeC_spec (version : Nat) : ∀ (t : DataType) (x : CqlVal), Supported t = true → HasType version t x →
    decodeC version t (some (serialize version t x)) = .ok (some x)
  | .prim c, x, _, ht => by
    rw [HasType] at ht
    obtain ⟨f, hf, hx⟩ := ht
    obtain ⟨k, hk, rfl⟩ := primCodec_of_formatOf c f hf
    rw [decodeC, hk, serialize, hf]
    exact decodeScalar_spec k x hx
  | .custom _, x, _, ht => by
    rw [HasType] at ht
    rw [decodeC, serialize]; exact decodeScalar_spec .blob x ht
  | .list e, x, hs, ht => by
    cases x <;> try (exact False.elim ht)
    rename_i xs
    rw [HasType] at ht; rw [Supported] at hs
    rw [decodeC, serialize]
    exact decodeCollection_some version _ _ xs (count_append_length _ _ _)
      (readCollection_spec version (decodeC version e) (serialize version e) xs ht.1
        (fun o ho => dec_elem version e hs (fun y hy => decodeC_spec version e y hs hy) o (ht.2 o ho)))
  | .set e, x, hs, ht => by
    cases x <;> try (exact False.elim ht)
    rename_i xs
    rw [HasType] at ht; rw [Supported] at hs
    rw [decodeC, serialize]
    exact decodeCollection_some version _ _ xs (count_append_length _ _ _)
      (readCollection_spec version (decodeC version e) (serialize version e) xs ht.1
        (fun o ho => dec_elem version e hs (fun y hy => decodeC_spec version e y hs hy) o (ht.2 o ho)))
  | .map k v, x, hs, ht => by
    cases x <;> try (exact False.elim ht)
    rename_i es
    rw [HasType] at ht; rw [Supported, Bool.and_eq_true] at hs
    rw [decodeC, serialize]
    exact decodeMap_some version _ _ _ es (count_append_length _ _ _)
      (readMap_spec version (decodeC version k) (decodeC version v) (serialize version k) (serialize version v) es ht.1
        (fun p hp => ⟨dec_elem version k hs.1 (fun y hy => decodeC_spec version k y hs.1 hy) p.1 (ht.2 p hp).1,
          dec_elem version v hs.2 (fun y hy => decodeC_spec version v y hs.2 hy) p.2 (ht.2 p hp).2⟩))
  | .tuple ts, x, hs, ht => by
    cases x <;> try (exact False.elim ht)
    rename_i fs
    rw [HasType] at ht; rw [Supported] at hs
    have h := readTuple_spec version ts fs hs ht.2 []
    rw [List.append_nil] at h
    rw [decodeC, serialize, Option.getD_some, if_neg (serializeFields_length version ts fs ht.1 ht.2),
      readAll_ok _ _ _ h]
    rfl
  | .udt _ _ names ts, x, hs, ht => by
    cases x <;> try (exact False.elim ht)
    rename_i fs
    rw [HasType] at ht; rw [Supported] at hs
    have h := readUdt_spec version names ts fs (by omega) hs ht.2.2 []
    rw [List.append_nil] at h
    rw [decodeC, serialize, Option.getD_some, if_neg (serializeFields_length version ts fs ht.1 ht.2.2),
      readAll_ok _ _ _ h]
    rfl

theorem readTuple_spec (version : Nat) : ∀ (ts : List DataType) (fs : List (Option CqlVal)), SupportedList ts = true →
    HasFields version ts fs → ∀ rest, (readTuple version ts).run (serializeFields version ts fs ++ rest) = .ok (fs, rest)
  | [], [], _, _, rest => rfl
  | [], _ :: _, _, h, _ => False.elim h
  | _ :: _, [], _, h, _ => False.elim h
  | t :: ts, f :: fs, hs, h, rest => by
    rw [HasFields] at h; rw [SupportedList, Bool.and_eq_true] at hs
    obtain ⟨h1, h2⟩ := dec_field version t hs.1 (fun y hy => decodeC_spec version t y hs.1 hy) f h.1
    rw [readTuple, serializeFields, bytesOpt_eq _ h2, List.append_assoc, bind_ok (readBytes_RT _ h2 _),
      bind_ok (liftR_ok _ _ h1 _), bind_ok (readTuple_spec version ts fs hs.2 h.2 rest)]
    rfl

theorem readUdt_spec (version : Nat) : ∀ (names : List Bytes) (ts : List DataType) (fs : List (Option CqlVal)),
    ts.length ≤ names.length → SupportedList ts = true → HasFields version ts fs →
    ∀ rest, (readUdt version names ts).run (serializeFields version ts fs ++ rest) = .ok (fs, rest)
  | _, [], [], _, _, _, rest => by rw [readUdt]; rfl
  | _, [], _ :: _, _, _, h, _ => False.elim h
  | _, _ :: _, [], _, _, h, _ => False.elim h
  | [], _ :: _, _ :: _, hl, _, _, _ => by simp at hl
  | _ :: ns, t :: ts, f :: fs, hl, hs, h, rest => by
    rw [HasFields] at h; rw [SupportedList, Bool.and_eq_true] at hs
    obtain ⟨h1, h2⟩ := dec_field version t hs.1 (fun y hy => decodeC_spec version t y hs.1 hy) f h.1
    rw [readUdt, serializeFields, bytesOpt_eq _ h2, List.append_assoc, bind_ok (readUdtFieldBytes_RT _ h2 _),
      bind_ok (liftR_ok _ _ h1 _), bind_ok (readUdt_spec version ns ts fs (by simpa using hl) hs.2 h.2 rest)]
    rfl
end

/-! ### top level: `NewCodec` then `Encode` / `Decode` -/

theorem encode_spec (version : Nat) (t : DataType) (x : CqlVal) (hs : Supported t = true) (ht : HasType version t x) :
    encode version t (some x) = .ok (some (serialize version t x)) := by
  rw [encode, if_pos (codecOk_of_supported t hs)]; exact encodeC_spec version t x hs ht

theorem decode_spec (version : Nat) (t : DataType) (x : CqlVal) (hs : Supported t = true) (ht : HasType version t x) :
    decode version t (some (serialize version t x)) = .ok (some x) := by
  rw [decode, if_pos (codecOk_of_supported t hs)]; exact decodeC_spec version t x hs ht

theorem encode_none (version : Nat) (t : DataType) (hs : Supported t = true) : encode version t none = .ok none := by
  rw [encode, if_pos (codecOk_of_supported t hs)]; exact encodeC_none version t hs

theorem decode_none (version : Nat) (t : DataType) (hs : Supported t = true) : decode version t none = .ok none := by
  rw [decode, if_pos (codecOk_of_supported t hs)]; exact decodeC_none version t hs

/-! ### no panic (C04 at value level) -/

/-- a `Res` that is not a run-time panic -/
def ResNoPanic {α} (r : Res α) : Prop := ∀ e, r ≠ .panic e

theorem ResNoPanic.ok {α} (a : α) : ResNoPanic (Res.ok a) := fun _ h => by cases h
theorem ResNoPanic.err {α} (m : String) : ResNoPanic (Res.err m : Res α) := fun _ h => by cases h

theorem ResNoPanic.bind {α β} {r : Res α} {f : α → Res β} (hr : ResNoPanic r) (hf : ∀ a, ResNoPanic (f a)) :
    ResNoPanic (r >>= f) := by
  cases r with
  | ok a => exact hf a
  | err m => exact ResNoPanic.err m
  | panic m => exact absurd rfl (hr m)

theorem ResNoPanic.ite {α} {c : Prop} [Decidable c] {a b : Res α} (ha : ResNoPanic a) (hb : ResNoPanic b) :
    ResNoPanic (if c then a else b) := by
  by_cases h : c
  · rw [if_pos h]; exact ha
  · rw [if_neg h]; exact hb

theorem NoPanic.liftR {α} {r : Res α} (hr : ResNoPanic r) : NoPanic (liftR r) := by
  intro s e h
  cases r with
  | ok a => cases h
  | err m => cases h
  | panic m => exact hr m rfl

theorem NoPanic.remaining : NoPanic remaining := fun _ _ h => by cases h

theorem readAll_noPanic {α} {p : Parser α} (hp : NoPanic p) (s : Bytes) : ResNoPanic (readAll p s) := by
  intro e h
  rw [readAll] at h
  cases hr : p.run s with
  | ok x =>
    obtain ⟨a, rest⟩ := x
    rw [hr] at h
    by_cases hl : rest.length = 0
    · simp only [hl, if_true] at h; cases h
    · simp only [hl, if_false] at h; cases h
  | err m => rw [hr] at h; cases h
  | panic m => exact hp s m hr

theorem readFixed_noPanic (k : Nat) (s : Bytes) : ResNoPanic (readFixed k s) := by
  rw [readFixed]
  exact ResNoPanic.ite (ResNoPanic.ok _) (ResNoPanic.ite (ResNoPanic.err _) (ResNoPanic.ok _))

theorem int64ToInt32_noPanic (v : BitVec 64) : ResNoPanic (int64ToInt32 v) := by
  rw [int64ToInt32]; exact ResNoPanic.ite (ResNoPanic.err _) (ResNoPanic.ok _)

theorem NoPanic.readDurationBody : NoPanic readDurationBody := by
  rw [Value.readDurationBody]
  no_panic [Vint.NoPanic.readVint, NoPanic.remaining, NoPanic.liftR (int64ToInt32_noPanic _)]

theorem readDuration_noPanic (s : Bytes) : ResNoPanic (readDuration s) := by
  intro e h
  rw [readDuration] at h
  by_cases hl : s.length = 0
  · rw [if_pos hl] at h; cases h
  · rw [if_neg hl] at h
    cases hr : readDurationBody.run s with
    | ok x => rw [hr] at h; cases h
    | err m => rw [hr] at h; cases h
    | panic m => exact NoPanic.readDurationBody s m hr

theorem readDecimal_noPanic (s : Bytes) : ResNoPanic (readDecimal s) := by
  rw [readDecimal]
  refine ResNoPanic.ite (ResNoPanic.ok _) (ResNoPanic.ite (ResNoPanic.err _) ?_)
  cases readBigInt (s.drop 4) with
  | none => exact ResNoPanic.ok _
  | some u => exact ResNoPanic.ok _

theorem readBool_noPanic (s : Bytes) : ResNoPanic (readBool s) := by
  rw [readBool]; exact ResNoPanic.bind (readFixed_noPanic 1 s) (fun _ => ResNoPanic.ok _)

theorem readUuid_noPanic (s : Bytes) : ResNoPanic (readUuid s) := by
  rw [readUuid]
  exact ResNoPanic.ite (ResNoPanic.ok _) (ResNoPanic.ite (ResNoPanic.err _) (ResNoPanic.ok _))

theorem readInet_noPanic (s : Bytes) : ResNoPanic (readInet s) := by
  rw [readInet]
  exact ResNoPanic.ite (ResNoPanic.ok _) (ResNoPanic.ite (ResNoPanic.ok _) (ResNoPanic.ite (ResNoPanic.ok _)
    (ResNoPanic.err _)))

theorem decodeScalar_noPanic (k : Codec) (s : Option Bytes) : ResNoPanic (decodeScalar k s) := by
  cases k
  case string => exact ResNoPanic.ok _
  case blob => exact ResNoPanic.ok _
  case bigint => exact ResNoPanic.bind (readFixed_noPanic 8 _) (fun _ => ResNoPanic.ok _)
  case time => exact ResNoPanic.bind (readFixed_noPanic 8 _) (fun _ => ResNoPanic.ok _)
  case timestamp => exact ResNoPanic.bind (readFixed_noPanic 8 _) (fun _ => ResNoPanic.ok _)
  case int => exact ResNoPanic.bind (readFixed_noPanic 4 _) (fun _ => ResNoPanic.ok _)
  case smallint => exact ResNoPanic.bind (readFixed_noPanic 2 _) (fun _ => ResNoPanic.ok _)
  case tinyint => exact ResNoPanic.bind (readFixed_noPanic 1 _) (fun _ => ResNoPanic.ok _)
  case date => exact ResNoPanic.bind (readFixed_noPanic 4 _) (fun _ => ResNoPanic.ok _)
  case boolean => exact ResNoPanic.bind (readBool_noPanic _) (fun _ => ResNoPanic.ok _)
  case float => exact ResNoPanic.bind (readFixed_noPanic 4 _) (fun _ => ResNoPanic.ok _)
  case double => exact ResNoPanic.bind (readFixed_noPanic 8 _) (fun _ => ResNoPanic.ok _)
  case varint => exact ResNoPanic.ok _
  case decimal => exact ResNoPanic.bind (readDecimal_noPanic _) (fun _ => ResNoPanic.ok _)
  case duration => exact ResNoPanic.bind (readDuration_noPanic _) (fun _ => ResNoPanic.ok _)
  case uuid => exact ResNoPanic.bind (readUuid_noPanic _) (fun _ => ResNoPanic.ok _)
  case inet => exact ResNoPanic.bind (readInet_noPanic _) (fun _ => ResNoPanic.ok _)

theorem NoPanic.readCollectionSize (version : Nat) : NoPanic (readCollectionSize version) := by
  rw [Value.readCollectionSize]; no_panic

theorem NoPanic.checkCollectionSize (n k : Nat) : NoPanic (checkCollectionSize n k) := by
  rw [Value.checkCollectionSize]; no_panic [NoPanic.remaining]

theorem NoPanic.readElemBytes (version : Nat) : NoPanic (readElemBytes version) := by
  rw [Value.readElemBytes]; no_panic [NoPanic.readBytes, NoPanic.readShortBytes]

theorem readCollection_noPanic (version : Nat) (dec : Option Bytes → Res (Option CqlVal))
    (hdec : ∀ ob, ResNoPanic (dec ob)) (s : Bytes) : ResNoPanic (readCollection version dec s) := by
  have h1 : NoPanic (readCollectionElem version dec) := by
    rw [readCollectionElem]; no_panic [NoPanic.readElemBytes version, NoPanic.liftR (hdec _)]
  rw [readCollection]
  apply readAll_noPanic
  no_panic [NoPanic.readCollectionSize version, NoPanic.checkCollectionSize _ _, h1]

theorem readMap_noPanic (version : Nat) (decK decV : Option Bytes → Res (Option CqlVal))
    (hk : ∀ ob, ResNoPanic (decK ob)) (hv : ∀ ob, ResNoPanic (decV ob)) (s : Bytes) :
    ResNoPanic (readMap version decK decV s) := by
  have h1 : NoPanic (readMapEntry version decK decV) := by
    rw [readMapEntry]; no_panic [NoPanic.readElemBytes version, NoPanic.liftR (hk _), NoPanic.liftR (hv _)]
  rw [readMap]
  apply readAll_noPanic
  no_panic [NoPanic.readCollectionSize version, NoPanic.checkCollectionSize _ _, h1]

theorem decodeCollection_noPanic (version : Nat) (dec : Option Bytes → Res (Option CqlVal))
    (hdec : ∀ ob, ResNoPanic (dec ob)) (s : Option Bytes) : ResNoPanic (decodeCollection version dec s) := by
  rw [decodeCollection]
  exact ResNoPanic.ite (ResNoPanic.ok _)
    (ResNoPanic.bind (readCollection_noPanic version dec hdec _) (fun _ => ResNoPanic.ok _))

theorem decodeMap_noPanic (version : Nat) (decK decV : Option Bytes → Res (Option CqlVal))
    (hk : ∀ ob, ResNoPanic (decK ob)) (hv : ∀ ob, ResNoPanic (decV ob)) (s : Option Bytes) :
    ResNoPanic (decodeMap version decK decV s) := by
  rw [decodeMap]
  exact ResNoPanic.ite (ResNoPanic.ok _)
    (ResNoPanic.bind (readMap_noPanic version decK decV hk hv _) (fun _ => ResNoPanic.ok _))

theorem NoPanic.readUdtFieldBytes : NoPanic readUdtFieldBytes := by
  rw [Value.readUdtFieldBytes]; no_panic [NoPanic.remaining, NoPanic.readBytes]

-- every UDT in the type has a name for each of its fields (what `datatype.NewUserDefined` checks and what
-- `ReadDataType` produces); `readUdt` indexes `fieldNames[i]` without a check
mutual
def NamesCover : DataType → Prop
  | .prim _ => True
  | .custom _ => True
  | .list e => NamesCover e
  | .set e => NamesCover e
  | .map k v => NamesCover k ∧ NamesCover v
  | .tuple ts => NamesCoverList ts
  | .udt _ _ names ts => ts.length ≤ names.length ∧ NamesCoverList ts
def NamesCoverList : List DataType → Prop
  | [] => True
  | t :: ts => NamesCover t ∧ NamesCoverList ts
end

mutual
theorem decodeC_noPanic (version : Nat) : ∀ (t : DataType), NamesCover t → ∀ s, ResNoPanic (decodeC version t s)
  | .prim c, _, s => by
    rw [decodeC]
    cases primCodec c with
    | none => exact ResNoPanic.err _
    | some k => exact decodeScalar_noPanic k s
  | .custom _, _, s => by rw [decodeC]; exact decodeScalar_noPanic .blob s
  | .list e, h, s => by
    rw [NamesCover] at h
    rw [decodeC]; exact decodeCollection_noPanic version _ (decodeC_noPanic version e h) s
  | .set e, h, s => by
    rw [NamesCover] at h
    rw [decodeC]; exact decodeCollection_noPanic version _ (decodeC_noPanic version e h) s
  | .map k v, h, s => by
    rw [NamesCover] at h
    rw [decodeC]
    exact decodeMap_noPanic version _ _ (decodeC_noPanic version k h.1) (decodeC_noPanic version v h.2) s
  | .tuple ts, h, s => by
    rw [NamesCover] at h
    rw [decodeC]
    exact ResNoPanic.ite (ResNoPanic.ok _)
      (ResNoPanic.bind (readAll_noPanic (readTuple_noPanic version ts h) _) (fun _ => ResNoPanic.ok _))
  | .udt _ _ names ts, h, s => by
    rw [NamesCover] at h
    rw [decodeC]
    exact ResNoPanic.ite (ResNoPanic.ok _)
      (ResNoPanic.bind (readAll_noPanic (readUdt_noPanic version names ts h.1 h.2) _) (fun _ => ResNoPanic.ok _))

theorem readTuple_noPanic (version : Nat) : ∀ (ts : List DataType), NamesCoverList ts → NoPanic (readTuple version ts)
  | [], _ => by rw [readTuple]; exact NoPanic.pure _
  | t :: ts, h => by
    rw [NamesCoverList] at h
    rw [readTuple]
    no_panic [NoPanic.readBytes, NoPanic.liftR (decodeC_noPanic version t h.1 _), readTuple_noPanic version ts h.2]

theorem readUdt_noPanic (version : Nat) : ∀ (names : List Bytes) (ts : List DataType), ts.length ≤ names.length →
    NamesCoverList ts → NoPanic (readUdt version names ts)
  | _, [], _, _ => by rw [readUdt]; exact NoPanic.pure _
  | [], _ :: _, hl, _ => by simp at hl
  | _ :: ns, t :: ts, hl, h => by
    rw [NamesCoverList] at h
    rw [readUdt]
    no_panic [NoPanic.readUdtFieldBytes, NoPanic.liftR (decodeC_noPanic version t h.1 _),
      readUdt_noPanic version ns ts (by simpa using hl) h.2]
end

theorem decode_noPanic (version : Nat) (t : DataType) (h : NamesCover t) (s : Option Bytes) :
    ResNoPanic (decode version t s) := by
  rw [decode]; exact ResNoPanic.ite (decodeC_noPanic version t h s) (ResNoPanic.err _)

/-! ### extras for C12 / C14 -/

/-- the specification's length really is the least one -/
theorem minTwosLen_least (v : Int) (k : Nat) (hk : 1 ≤ k) (hf : fitsTwos k v = true) : minTwosLen v ≤ k := by
  obtain ⟨n, h1, hfit, hmin, _⟩ := writeBigInt_twos v
  rw [minTwosLen_eq v n h1 hfit hmin]
  apply Nat.le_of_not_lt
  intro hlt
  rcases hmin with h | h
  · omega
  · have := fitsTwos_mono k (n - 1) v (by omega) hf
    rw [h] at this; cases this

/-- the codecs for which an empty non-nil byte string is a value and not NULL (`wasNull = val == nil`) -/
def emptyIsValue : DataType → Bool
  | .prim c => primCodec c == some .string || primCodec c == some .blob
  | .custom _ => true
  | _ => false

theorem decodeScalar_empty (k : Codec) :
    decodeScalar k (some []) = if k = .string ∨ k = .blob then .ok (some (.bytes [])) else .ok none := by
  cases k <;> rfl

theorem decodeC_empty (version : Nat) (t : DataType) (hs : Supported t = true) :
    decodeC version t (some []) = if emptyIsValue t then .ok (some (.bytes [])) else .ok none := by
  cases t with
  | prim c =>
    rw [Supported] at hs
    cases hf : formatOf c with
    | none => rw [hf] at hs; cases hs
    | some f =>
      obtain ⟨k, hk, _⟩ := primCodec_of_formatOf c f hf
      rw [decodeC, hk, emptyIsValue, hk]
      show decodeScalar k (some []) = _
      rw [decodeScalar_empty]
      cases k <;> rfl
  | custom _ => rfl
  | list e => rw [decodeC]; rfl
  | set e => rw [decodeC]; rfl
  | map k v => rw [decodeC]; rfl
  | tuple ts => rw [decodeC]; rfl
  | udt _ _ _ ts => rw [decodeC]; rfl

theorem decode_empty (version : Nat) (t : DataType) (hs : Supported t = true) :
    decode version t (some []) = if emptyIsValue t then .ok (some (.bytes [])) else .ok none := by
  rw [decode, if_pos (codecOk_of_supported t hs)]; exact decodeC_empty version t hs

theorem writeAll_ok_inv {α} (w : α → Res Bytes) : ∀ (l : List α) (bs : Bytes), writeAll w l = .ok bs →
    ∀ x ∈ l, ∃ b, w x = .ok b
  | [], _, _, x, hx => by cases hx
  | y :: ys, bs, h, x, hx => by
    rw [writeAll] at h
    obtain ⟨a, ha, h⟩ := Res.bind_ok_inv h
    obtain ⟨b, hb, _⟩ := Res.bind_ok_inv h
    rcases List.mem_cons.mp hx with rfl | hx'
    · exact ⟨a, ha⟩
    · exact writeAll_ok_inv w ys b hb x hx'

/-- v2: `collectionElementNil` -/
theorem writeElem_null_v2 (version : Nat) (enc : Option CqlVal → Res (Option Bytes)) (h2 : fourByte version = false)
    (henc : enc none = .ok none) : writeElem version enc none = .err "collection element is nil" := by
  rw [writeElem, henc, uses4_eq, h2]; rfl

/-- v2: a list / set with a null element is refused by `Encode` -/
theorem encode_list_null_v2 (version : Nat) (e : DataType) (hs : Supported e = true) (h2 : fourByte version = false)
    (xs : List (Option CqlVal)) (hnull : none ∈ xs) (b : Option Bytes) :
    encode version (.list e) (some (.list xs)) ≠ .ok b ∧ encode version (.set e) (some (.list xs)) ≠ .ok b := by
  have key : ∀ bs, writeCollection version (encodeC version e) xs ≠ .ok bs := by
    intro bs h
    rw [writeCollection] at h
    obtain ⟨_, _, h⟩ := Res.bind_ok_inv h
    obtain ⟨body, hbody, _⟩ := Res.bind_ok_inv h
    obtain ⟨x, hx⟩ := writeAll_ok_inv _ xs body hbody none hnull
    rw [writeElem_null_v2 version _ h2 (encodeC_none version e hs)] at hx
    cases hx
  constructor
  · intro h
    rw [encode] at h
    by_cases hc : codecOk (.list e) = true
    · rw [if_pos hc, encodeC, encodeCollection] at h
      obtain ⟨bs, hbs, _⟩ := Res.bind_ok_inv h
      exact key bs hbs
    · rw [if_neg hc] at h; cases h
  · intro h
    rw [encode] at h
    by_cases hc : codecOk (.set e) = true
    · rw [if_pos hc, encodeC, encodeCollection] at h
      obtain ⟨bs, hbs, _⟩ := Res.bind_ok_inv h
      exact key bs hbs
    · rw [if_neg hc] at h; cases h

/-- v2: a map with a null key or a null value is refused by `Encode` -/
theorem encode_map_null_v2 (version : Nat) (k v : DataType) (hk : Supported k = true) (hv : Supported v = true)
    (h2 : fourByte version = false) (es : List (Option CqlVal × Option CqlVal))
    (hnull : ∃ p ∈ es, p.1 = none ∨ p.2 = none) (b : Option Bytes) :
    encode version (.map k v) (some (.map es)) ≠ .ok b := by
  intro h
  rw [encode] at h
  by_cases hc : codecOk (.map k v) = true
  · rw [if_pos hc, encodeC, encodeMap] at h
    obtain ⟨bs, hbs, _⟩ := Res.bind_ok_inv h
    rw [writeMap] at hbs
    obtain ⟨_, _, hbs⟩ := Res.bind_ok_inv hbs
    obtain ⟨body, hbody, _⟩ := Res.bind_ok_inv hbs
    obtain ⟨p, hp, hnone⟩ := hnull
    obtain ⟨x, hx⟩ := writeAll_ok_inv _ es body hbody p hp
    rw [writeMapEntry] at hx
    obtain ⟨ek, hek, hx⟩ := Res.bind_ok_inv hx
    obtain ⟨ev, hev, hx⟩ := Res.bind_ok_inv hx
    rw [uses4_eq, h2] at hx
    rcases hnone with h1 | h1
    · rw [h1, encodeC_none version k hk] at hek
      cases Res.ok_inj hek
      cases hx
    · rw [h1, encodeC_none version v hv] at hev
      cases Res.ok_inj hev
      cases ek <;> cases hx
  · rw [if_neg hc] at h; cases h

/-! ### v2: elements longer than a `[short]` can say are refused (`collectionElementTooLarge`) -/

theorem writeElem_long_v2 (version : Nat) (enc : Option CqlVal → Res (Option Bytes)) (h2 : fourByte version = false)
    (o : Option CqlVal) (b : Bytes) (henc : enc o = .ok (some b)) (hlong : 65535 < b.length) :
    writeElem version enc o = .err "collection element too large" := by
  rw [writeElem, henc, uses4_eq, h2]
  show (if b.length > 65535 then _ else _) = _
  rw [if_pos hlong]

theorem writeCollection_long_v2 (version : Nat) (enc : Option CqlVal → Res (Option Bytes)) (h2 : fourByte version = false)
    (xs : List (Option CqlVal)) (o : Option CqlVal) (ho : o ∈ xs) (b : Bytes) (henc : enc o = .ok (some b))
    (hlong : 65535 < b.length) (bs : Bytes) : writeCollection version enc xs ≠ .ok bs := by
  intro h
  rw [writeCollection] at h
  obtain ⟨_, _, h⟩ := Res.bind_ok_inv h
  obtain ⟨body, hbody, _⟩ := Res.bind_ok_inv h
  obtain ⟨x, hx⟩ := writeAll_ok_inv _ xs body hbody o ho
  rw [writeElem_long_v2 version enc h2 o b henc hlong] at hx
  cases hx

theorem writeMapEntry_long_v2 (version : Nat) (encK encV : Option CqlVal → Res (Option Bytes))
    (h2 : fourByte version = false) (p : Option CqlVal × Option CqlVal) (b : Bytes) (hlong : 65535 < b.length)
    (henc : encK p.1 = .ok (some b) ∨ encV p.2 = .ok (some b)) (x : Bytes) : writeMapEntry version encK encV p ≠ .ok x := by
  intro hx
  rw [writeMapEntry] at hx
  obtain ⟨ek, hek, hx⟩ := Res.bind_ok_inv hx
  obtain ⟨ev, hev, hx⟩ := Res.bind_ok_inv hx
  rw [uses4_eq, h2] at hx
  rcases henc with h1 | h1
  · rw [h1] at hek
    cases Res.ok_inj hek
    cases ev with
    | none => cases hx
    | some v =>
      change (if b.length > 65535 then _ else _) = _ at hx
      rw [if_pos hlong] at hx; cases hx
  · rw [h1] at hev
    cases Res.ok_inj hev
    cases ek with
    | none => cases hx
    | some k =>
      change (if k.length > 65535 then _ else if b.length > 65535 then _ else _) = _ at hx
      by_cases hk : k.length > 65535
      · rw [if_pos hk] at hx; cases hx
      · rw [if_neg hk, if_pos hlong] at hx; cases hx

/-- v2: a list / set holding an element whose encoding is longer than 65535 bytes is refused by `Encode` -/
theorem encode_list_long_v2 (version : Nat) (e : DataType) (h2 : fourByte version = false) (xs : List (Option CqlVal))
    (o : Option CqlVal) (ho : o ∈ xs) (b : Bytes) (henc : encode version e o = .ok (some b)) (hlong : 65535 < b.length)
    (r : Option Bytes) :
    encode version (.list e) (some (.list xs)) ≠ .ok r ∧ encode version (.set e) (some (.list xs)) ≠ .ok r := by
  have key : codecOk e = true → ∀ bs, writeCollection version (encodeC version e) xs ≠ .ok bs := by
    intro hc bs
    rw [encode, if_pos hc] at henc
    exact writeCollection_long_v2 version _ h2 xs o ho b henc hlong bs
  constructor
  · intro h
    rw [encode] at h
    by_cases hc : codecOk (.list e) = true
    · rw [if_pos hc, encodeC, encodeCollection] at h
      obtain ⟨bs, hbs, _⟩ := Res.bind_ok_inv h
      rw [codecOk] at hc
      exact key hc bs hbs
    · rw [if_neg hc] at h; cases h
  · intro h
    rw [encode] at h
    by_cases hc : codecOk (.set e) = true
    · rw [if_pos hc, encodeC, encodeCollection] at h
      obtain ⟨bs, hbs, _⟩ := Res.bind_ok_inv h
      rw [codecOk] at hc
      exact key hc bs hbs
    · rw [if_neg hc] at h; cases h

/-- v2: a map holding a key or a value whose encoding is longer than 65535 bytes is refused by `Encode` -/
theorem encode_map_long_v2 (version : Nat) (k v : DataType) (h2 : fourByte version = false)
    (es : List (Option CqlVal × Option CqlVal)) (p : Option CqlVal × Option CqlVal) (hp : p ∈ es) (b : Bytes)
    (hlong : 65535 < b.length)
    (henc : encode version k p.1 = .ok (some b) ∨ encode version v p.2 = .ok (some b)) (r : Option Bytes) :
    encode version (.map k v) (some (.map es)) ≠ .ok r := by
  intro h
  rw [encode] at h
  by_cases hc : codecOk (.map k v) = true
  · rw [if_pos hc, encodeC, encodeMap] at h
    rw [codecOk, Bool.and_eq_true] at hc
    rw [encode, if_pos hc.1, encode, if_pos hc.2] at henc
    obtain ⟨bs, hbs, _⟩ := Res.bind_ok_inv h
    rw [writeMap] at hbs
    obtain ⟨_, _, hbs⟩ := Res.bind_ok_inv hbs
    obtain ⟨body, hbody, _⟩ := Res.bind_ok_inv hbs
    obtain ⟨x, hx⟩ := writeAll_ok_inv _ es body hbody p hp
    exact writeMapEntry_long_v2 version _ _ h2 p b hlong henc x hx
  · rw [if_neg hc] at h; cases h

/-! ### a UDT value with fewer fields than its type (§6): the missing trailing fields read as NULL -/

/-- no field values: nothing is written -/
theorem serializeFields_nil (version : Nat) (ts : List DataType) : serializeFields version ts [] = [] := by
  rw [serializeFields]
  intro _ _ _ _ _ h; cases h

/-- the reader on the serialization of only the leading fields `present`, when the remaining `k` fields are null -/
theorem readUdt_fewer (version : Nat) : ∀ (names : List Bytes) (ts : List DataType) (present : List (Option CqlVal))
    (k : Nat), ts.length ≤ names.length → SupportedList ts = true →
    HasFields version ts (present ++ List.replicate k none) →
    (readUdt version names ts).run (serializeFields version ts present) = .ok (present ++ List.replicate k none, [])
  | _, [], [], 0, _, _, _ => by rw [readUdt]; rfl
  | _, [], [], _ + 1, _, _, h => False.elim h
  | _, [], _ :: _, _, _, _, h => False.elim h
  | [], _ :: _, _, _, hl, _, _ => by simp at hl
  | _ :: _, _ :: _, [], 0, _, _, h => False.elim h
  | _ :: ns, t :: ts, [], k + 1, hl, hs, h => by
    have h' : HasFields version (t :: ts) (none :: ([] ++ List.replicate k none)) := h
    rw [HasFields] at h'; rw [SupportedList, Bool.and_eq_true] at hs
    have ih := readUdt_fewer version ns ts [] k (by simpa using hl) hs.2 h'.2
    rw [serializeFields_nil] at ih
    rw [readUdt, serializeFields_nil, bind_ok readUdtFieldBytes_nil, bind_ok (liftR_ok _ _ (decodeC_none version t hs.1) _), bind_ok ih]
    rfl
  | _ :: ns, t :: ts, f :: fs, k, hl, hs, h => by
    have h' : HasFields version (t :: ts) (f :: (fs ++ List.replicate k none)) := h
    rw [HasFields] at h'; rw [SupportedList, Bool.and_eq_true] at hs
    obtain ⟨h1, h2⟩ := dec_field version t hs.1 (fun y hy => decodeC_spec version t y hs.1 hy) f h'.1
    rw [readUdt, serializeFields, bytesOpt_eq _ h2, bind_ok (readUdtFieldBytes_RT _ h2 _),
      bind_ok (liftR_ok _ _ h1 _), bind_ok (readUdt_fewer version ns ts fs k (by simpa using hl) hs.2 h'.2)]
    rfl

/-- `Decode` of a UDT value that stops after the fields `present` (at least one): the `k` missing fields are NULL -/
theorem decode_udt_fewer (version : Nat) (ks nm : Bytes) (names : List Bytes) (ts : List DataType)
    (present : List (Option CqlVal)) (k : Nat) (hs : Supported (.udt ks nm names ts) = true)
    (ht : HasType version (.udt ks nm names ts) (.udt (present ++ List.replicate k none))) (hne : present ≠ []) :
    decode version (.udt ks nm names ts) (some (serialize version (.udt ks nm names ts) (.udt present))) =
      .ok (some (.udt (present ++ List.replicate k none))) := by
  rw [decode, if_pos (codecOk_of_supported _ hs)]
  rw [HasType] at ht; rw [Supported] at hs
  have hlen : (serializeFields version ts present).length ≠ 0 := by
    cases ts with
    | nil => exact absurd rfl ht.1
    | cons t ts =>
      cases present with
      | nil => exact absurd rfl hne
      | cons f fs =>
        rw [serializeFields, List.length_append]
        have := bytesOpt_length_ge (f.map (serialize version t))
        omega
  rw [decodeC, serialize, Option.getD_some, if_neg hlen,
    readAll_ok _ _ _ (readUdt_fewer version names ts present k (by omega) hs ht.2.2)]
  rfl

/-! ### type descriptors read from the wire name every UDT field -/

theorem Parser.bind_ok_inv {α β} {p : Parser α} {f : α → Parser β} {s : Bytes} {x : β × Bytes}
    (h : (p >>= f).run s = .ok x) : ∃ a r, p.run s = .ok (a, r) ∧ (f a).run r = .ok x := by
  change (Parser.bind' p f).run s = _ at h
  simp only [Parser.bind'] at h
  cases hr : p.run s with
  | ok y => obtain ⟨a, r⟩ := y; rw [hr] at h; exact ⟨a, r, rfl, h⟩
  | err m => rw [hr] at h; cases h
  | panic m => rw [hr] at h; cases h

theorem pure_ok_inv' {α} {a : α} {s : Bytes} {x : α × Bytes} (h : (pure a : Parser α).run s = .ok x) : x = (a, s) := by
  cases h; rfl

theorem readN_all {α} (P : α → Prop) (p : Parser α) (hp : ∀ s a r, p.run s = .ok (a, r) → P a) :
    ∀ n s l r, (readN n p).run s = .ok (l, r) → ∀ a ∈ l, P a
  | 0, s, l, r, h, a, ha => by
    rw [readN] at h
    have := pure_ok_inv' h
    cases this; cases ha
  | n + 1, s, l, r, h, a, ha => by
    rw [readN] at h
    obtain ⟨x, r1, hx, h⟩ := Parser.bind_ok_inv h
    obtain ⟨xs, r2, hxs, h⟩ := Parser.bind_ok_inv h
    have := pure_ok_inv' h
    cases this
    rcases List.mem_cons.mp ha with rfl | ha'
    · exact hp s a r1 hx
    · exact readN_all P p hp n r1 xs r hxs a ha'

theorem namesCoverList_of_all : ∀ (ts : List DataType), (∀ t ∈ ts, NamesCover t) → NamesCoverList ts
  | [], _ => trivial
  | t :: ts, h => ⟨h t List.mem_cons_self, namesCoverList_of_all ts (fun u hu => h u (List.mem_cons_of_mem _ hu))⟩

theorem readF_namesCover (version : Nat) : ∀ fuel s t r, (DataType.readF version fuel).run s = .ok (t, r) → NamesCover t
  | 0, s, t, r, h => by rw [DataType.readF] at h; cases h
  | fuel + 1, s, t, r, h => by
    have ih := readF_namesCover version fuel
    rw [DataType.readF] at h
    obtain ⟨c, r0, _, h⟩ := Parser.bind_ok_inv h
    split at h
    · cases h
    split at h
    · cases pure_ok_inv' h; trivial
    split at h
    · cases pure_ok_inv' h; trivial
    split at h
    · obtain ⟨cn, r1, _, h⟩ := Parser.bind_ok_inv h
      cases pure_ok_inv' h; trivial
    split at h
    · obtain ⟨e, r1, he, h⟩ := Parser.bind_ok_inv h
      cases pure_ok_inv' h
      exact ih _ e _ he
    split at h
    · obtain ⟨k, r1, hk, h⟩ := Parser.bind_ok_inv h
      obtain ⟨v, r2, hv, h⟩ := Parser.bind_ok_inv h
      cases pure_ok_inv' h
      exact ⟨ih _ _ _ hk, ih _ _ _ hv⟩
    split at h
    · obtain ⟨e, r1, he, h⟩ := Parser.bind_ok_inv h
      cases pure_ok_inv' h
      exact ih _ e _ he
    split at h
    · obtain ⟨ks, r1, _, h⟩ := Parser.bind_ok_inv h
      obtain ⟨name, r2, _, h⟩ := Parser.bind_ok_inv h
      obtain ⟨n, r3, _, h⟩ := Parser.bind_ok_inv h
      obtain ⟨fs, r4, hfs, h⟩ := Parser.bind_ok_inv h
      cases pure_ok_inv' h
      refine ⟨by rw [List.length_map, List.length_map]; exact Nat.le_refl _, ?_⟩
      apply namesCoverList_of_all
      intro t ht
      obtain ⟨p, hp, rfl⟩ := List.mem_map.mp ht
      have := readN_all (fun q : Bytes × DataType => NamesCover q.2) (DataType.readUdtField (DataType.readF version fuel))
        (fun s a r ha => by
          rw [DataType.readUdtField] at ha
          obtain ⟨nm, r1, _, ha⟩ := Parser.bind_ok_inv ha
          obtain ⟨ty, r2, hty, ha⟩ := Parser.bind_ok_inv ha
          cases pure_ok_inv' ha
          exact ih _ _ _ hty) n r3 fs _ hfs p hp
      exact this
    split at h
    · obtain ⟨n, r1, _, h⟩ := Parser.bind_ok_inv h
      obtain ⟨fs, r2, hfs, h⟩ := Parser.bind_ok_inv h
      cases pure_ok_inv' h
      apply namesCoverList_of_all
      exact readN_all NamesCover (DataType.readF version fuel) (fun s a r ha => ih _ _ _ ha) n r1 fs _ hfs
    · cases h

/-- every type descriptor `ReadDataType` returns satisfies `NamesCover` -/
theorem read_namesCover (version : Nat) (s : Bytes) (t : DataType) (r : Bytes)
    (h : (DataType.read version).run s = .ok (t, r)) : NamesCover t := by
  rw [DataType.read] at h
  exact readF_namesCover version (s.length + 1) s t r h

end Cql.Value
