import Cql.Spec.Frame
import Cql.Lemmas.SpecPrim
import Cql.Lemmas.FrameRT
/-!
# C02, frame level: the code-shaped header / body-prefix encoders refine the specification (`Cql/Spec/Frame.lean`),
the header decoder accepts exactly the specification's headers.

* constants: every mask / opcode / version number written out from the documents equals the constant regenerated
  from the Go source (`Cql.Gen.*`) — an edit of a Go constant breaks these `rfl`s;
* `encodeHeader_spec`, `encodeBodyPrefix_spec`: the bytes are the prescribed ones;
* `decodeHeader_inv`: whatever `decodeHeader` accepts IS a specification-formatted header of the returned fields, and
  the header obeys `Spec.HeaderOkAnyVersion`; `header_rejected`: a header that breaks the specification is refused
  with an error (never a panic); `decodeHeader_spec`: every specification-formatted header with `Spec.HeaderOk` is
  accepted and denotes its fields.
-/
namespace Cql.SpecFrame
open Cql Cql.Prim Cql.Parser Cql.Gen Cql.Impl

/-! ## the documents' constants are the code's constants -/

theorem flagCompression_eq : Spec.flagCompression = HeaderFlagCompressed := rfl
theorem flagTracing_eq : Spec.flagTracing = HeaderFlagTracing := rfl
theorem flagCustomPayload_eq : Spec.flagCustomPayload = HeaderFlagCustomPayload := rfl
theorem flagWarning_eq : Spec.flagWarning = HeaderFlagWarning := rfl
theorem flagUseBeta_eq : Spec.flagUseBeta = HeaderFlagUseBeta := rfl

theorem opError_eq : Spec.opError = OpCodeError := rfl
theorem opStartup_eq : Spec.opStartup = OpCodeStartup := rfl
theorem opReady_eq : Spec.opReady = OpCodeReady := rfl
theorem opAuthenticate_eq : Spec.opAuthenticate = OpCodeAuthenticate := rfl
theorem opOptions_eq : Spec.opOptions = OpCodeOptions := rfl
theorem opSupported_eq : Spec.opSupported = OpCodeSupported := rfl
theorem opQuery_eq : Spec.opQuery = OpCodeQuery := rfl
theorem opResult_eq : Spec.opResult = OpCodeResult := rfl
theorem opPrepare_eq : Spec.opPrepare = OpCodePrepare := rfl
theorem opExecute_eq : Spec.opExecute = OpCodeExecute := rfl
theorem opRegister_eq : Spec.opRegister = OpCodeRegister := rfl
theorem opEvent_eq : Spec.opEvent = OpCodeEvent := rfl
theorem opBatch_eq : Spec.opBatch = OpCodeBatch := rfl
theorem opAuthChallenge_eq : Spec.opAuthChallenge = OpCodeAuthChallenge := rfl
theorem opAuthResponse_eq : Spec.opAuthResponse = OpCodeAuthResponse := rfl
theorem opAuthSuccess_eq : Spec.opAuthSuccess = OpCodeAuthSuccess := rfl
theorem opReviseRequest_eq : Spec.opReviseRequest = OpCodeDseRevise := rfl

theorem versionV2_eq : Spec.versionV2 = ProtocolVersion2 := rfl
theorem versionV3_eq : Spec.versionV3 = ProtocolVersion3 := rfl
theorem versionV4_eq : Spec.versionV4 = ProtocolVersion4 := rfl
theorem versionV5_eq : Spec.versionV5 = ProtocolVersion5 := rfl
theorem versionDse1_eq : Spec.versionDse1 = ProtocolVersionDse1 := rfl
theorem versionDse2_eq : Spec.versionDse2 = ProtocolVersionDse2 := rfl

set_option maxRecDepth 100000 in
/-- the library supports exactly the documented versions -/
theorem knownVersions_eq : ∀ v < 256, ProtocolVersion_IsSupported v = decide (v ∈ Spec.knownVersions) := by decide

set_option maxRecDepth 100000 in
/-- the code's opcode classes are the documents' §4.1 / §4.2 (all versions together) -/
theorem opcode_classes : ∀ op < 256,
    OpCode_IsResponse op = decide (op ∈ Spec.responseOpcodes) ∧
    OpCode_IsRequest op = decide (op ∈ Spec.requestOpcodesAll ++ [Spec.opReviseRequest]) ∧
    OpCode_IsValid op = decide (op ∈ Spec.requestOpcodesAll ++ [Spec.opReviseRequest] ++ Spec.responseOpcodes) ∧
    OpCode_IsDse op = decide (op = Spec.opReviseRequest) := by decide

set_option maxRecDepth 100000 in
theorem isDse_eq : ∀ v < 256, ProtocolVersion_IsDse v = Spec.isDse v := by decide

set_option maxRecDepth 100000 in
/-- the code's flag test is the documents' "the bit corresponding to its mask is set", for each of the five masks -/
theorem hasFlag_eq : ∀ fl < 256,
    hasFlag fl HeaderFlagCompressed = Spec.flagSet fl Spec.flagCompression ∧
    hasFlag fl HeaderFlagTracing = Spec.flagSet fl Spec.flagTracing ∧
    hasFlag fl HeaderFlagCustomPayload = Spec.flagSet fl Spec.flagCustomPayload ∧
    hasFlag fl HeaderFlagWarning = Spec.flagSet fl Spec.flagWarning ∧
    hasFlag fl HeaderFlagUseBeta = Spec.flagSet fl Spec.flagUseBeta := by decide

/-! ## the header encoder -/

set_option maxRecDepth 100000 in
/-- bit operators of the code = arithmetic of the documents, on every byte -/
theorem versionByte_facts : ∀ b0 < 256,
    b0 &&& 127 = Spec.versionOf b0 ∧ decide (b0 &&& 128 > 0) = Spec.isResponseByte b0 ∧
    Spec.versionByte (Spec.versionOf b0) (Spec.isResponseByte b0) = b0 := by decide

set_option maxRecDepth 100000 in
theorem versionAndDirection_eq : ∀ v < 128, ∀ r : Bool,
    (v ||| (if r then 128 else 0)) = Spec.versionByte v r ∧ Spec.versionByte v r < 256 ∧
    Spec.versionOf (Spec.versionByte v r) = v ∧ Spec.isResponseByte (Spec.versionByte v r) = r := by decide

private theorem supported_lt (v : Nat) (h : ProtocolVersion_IsSupported v = true) : v < 128 := by
  have : ∀ x ∈ SupportedProtocolVersions, x < 128 := by decide
  exact this v (by simpa [ProtocolVersion_IsSupported] using h)

private theorem byte_mod (n : Nat) : Spec.byte (n % 256) = Spec.byte n := by
  simp [Spec.byte, Spec.byteAt]

theorem writeStreamId_spec (version id : Nat) (b : Bytes) (hw : writeStreamId version id = .ok b) :
    b = Spec.streamField version id := by
  rw [writeStreamId] at hw
  rw [Spec.streamField]
  by_cases h3 : version ≥ ProtocolVersion3
  · rw [if_pos h3] at hw
    have h2 : ¬ version ≤ Spec.versionV2 := by
      intro h; have : ProtocolVersion3 ≤ 2 := Nat.le_trans h3 h; exact absurd this (by decide)
    rw [if_neg h2, ← Res.ok_inj hw, SpecPrim.short_eq]
  · rw [if_neg h3] at hw
    have h2 : version ≤ Spec.versionV2 := by
      have : version < 3 := Nat.lt_of_not_le h3
      exact Nat.le_of_lt_succ this
    by_cases hr : toInt16 id > 127 ∨ toInt16 id < -128
    · rw [if_pos hr] at hw; cases hw
    · rw [if_neg hr] at hw
      rw [if_pos h2, ← Res.ok_inj hw, SpecPrim.byte_eq, byte_mod]

/-- **Header refinement.** The bytes `EncodeHeader` writes for a valid header are the header §1/§2 prescribe:
    version byte with the direction bit, flags byte, stream id of the version's width, opcode, `[int]` length. -/
theorem encodeHeader_spec (h : Header) (hv : ValidHeader h) (b : Bytes) (hw : encodeHeader h = .ok b) :
    b = Spec.header h.version h.isResponse h.flags h.streamId h.opCode h.bodyLength := by
  rw [encodeHeader] at hw
  obtain ⟨_, _, hw⟩ := Res.bind_ok_inv hw
  obtain ⟨_, _, hw⟩ := Res.bind_ok_inv hw
  obtain ⟨sid, hsid, hw⟩ := Res.bind_ok_inv hw
  have F := versionAndDirection_eq h.version (supported_lt _ hv.version) h.isResponse
  rw [← Res.pure_ok_inv hw, versionAndDirection, F.1, writeStreamId_spec _ _ _ hsid, SpecPrim.byte_eq, SpecPrim.byte_eq,
    SpecPrim.byte_eq, SpecPrim.int_eq, Spec.header]

theorem header_length (version : Nat) (isResponse : Bool) (flags streamId opcode bodyLength : Nat) :
    (Spec.header version isResponse flags streamId opcode bodyLength).length = Spec.headerLength version := by
  rw [Spec.header, Spec.streamField, Spec.headerLength]
  by_cases h : version ≤ Spec.versionV2
  · rw [if_pos h, if_pos h]; rfl
  · rw [if_neg h, if_neg h]; rfl

/-! ## inversion of the primitive readers: what they accept is what the notation writes -/

theorem parser_bind_ok_inv {α β} {p : Parser α} {f : α → Parser β} {s : Bytes} {x : β × Bytes}
    (h : (p >>= f).run s = .ok x) : ∃ a r, p.run s = .ok (a, r) ∧ (f a).run r = .ok x := by
  cases hp : p.run s with
  | ok y =>
    obtain ⟨a, r⟩ := y
    rw [bind_ok hp] at h
    exact ⟨a, r, rfl, h⟩
  | err e => rw [bind_err hp] at h; cases h
  | panic e => rw [bind_panic hp] at h; cases h

theorem guardP_bind_ok_inv {β} {c : Bool} {e : String} {f : Unit → Parser β} {s : Bytes} {x : β × Bytes}
    (h : (guardP c e >>= f).run s = .ok x) : c = true ∧ (f ()).run s = .ok x := by
  cases c with
  | true => rw [bind_ok (guardP_true _ _)] at h; exact ⟨rfl, h⟩
  | false =>
    have : (guardP false e).run s = .err e := rfl
    rw [bind_err this] at h; cases h

private theorem beBytes_snoc (k x t : Nat) (ht : t < 256) :
    beBytes (k + 1) (x * 256 + t) = beBytes k x ++ [UInt8.ofNat t] := by
  rw [beBytes]
  have h1 : (x * 256 + t) / 256 = x := by omega
  have h2 : (x * 256 + t) % 256 = t := by omega
  rw [h1, h2]

theorem beBytes_beNat : ∀ (k : Nat) (bs : Bytes), bs.length = k → beBytes k (beNat bs) = bs
  | 0, bs, h => by
    have : bs = [] := List.eq_nil_of_length_eq_zero h
    rw [this]; rfl
  | k + 1, bs, h => by
    have hne : bs ≠ [] := by intro h0; rw [h0] at h; cases h
    have hsplit := List.dropLast_concat_getLast hne
    have hlen : bs.dropLast.length = k := by rw [List.length_dropLast, h]; rfl
    rw [← hsplit, beNat_append_single, beBytes_snoc _ _ _ (UInt8.toNat_lt _), beBytes_beNat k _ hlen]
    simp

theorem readBE_inv (k : Nat) (s : Bytes) (n : Nat) (r : Bytes) (h : (readBE k).run s = .ok (n, r)) :
    s = beBytes k n ++ r ∧ n < 256 ^ k := by
  rw [readBE] at h
  by_cases hl : s.length < k
  · simp only [if_pos hl] at h; cases h
  · simp only [if_neg hl] at h
    have h' := Res.ok_inj h
    have hn : beNat (s.take k) = n := congrArg Prod.fst h'
    have hr : s.drop k = r := congrArg Prod.snd h'
    have hlen : (s.take k).length = k := by rw [List.length_take]; omega
    have hb := beBytes_beNat k (s.take k) hlen
    rw [hn] at hb
    refine ⟨?_, ?_⟩
    · rw [hb, ← hr, List.take_append_drop]
    · have := beNat_beBytes k n
      rw [hb, hn] at this
      have hpos : 0 < 256 ^ k := Nat.pow_pos (by decide)
      rw [this]; exact Nat.mod_lt _ hpos

theorem readByte_inv (s : Bytes) (n : Nat) (r : Bytes) (h : readByte.run s = .ok (n, r)) :
    s = Spec.byte n ++ r ∧ n < 256 := by
  rw [readByte] at h
  have := readBE_inv 1 s n r h
  rw [← SpecPrim.byte_eq, writeByte]; exact this

theorem readShort_inv (s : Bytes) (n : Nat) (r : Bytes) (h : readShort.run s = .ok (n, r)) :
    s = Spec.short n ++ r ∧ n < 65536 := by
  rw [readShort] at h
  have := readBE_inv 2 s n r h
  rw [← SpecPrim.short_eq, writeShort]; exact this

theorem readInt_inv (s : Bytes) (n : Nat) (r : Bytes) (h : readInt.run s = .ok (n, r)) :
    s = Spec.uint n ++ r ∧ n < 4294967296 := by
  rw [readInt] at h
  have := readBE_inv 4 s n r h
  rw [← SpecPrim.int_eq, writeInt]; exact this

theorem readStreamId_inv (version : Nat) (s : Bytes) (id : Nat) (r : Bytes)
    (h : (readStreamId version).run s = .ok (id, r)) :
    s = Spec.streamField version id ++ r ∧ id < 65536 := by
  rw [readStreamId] at h
  rw [Spec.streamField]
  by_cases h3 : version ≥ ProtocolVersion3
  · rw [if_pos h3] at h
    have h2 : ¬ version ≤ Spec.versionV2 := by
      intro h'; have : ProtocolVersion3 ≤ 2 := Nat.le_trans h3 h'; exact absurd this (by decide)
    rw [if_neg h2]; exact readShort_inv s id r h
  · rw [if_neg h3] at h
    have h2 : version ≤ Spec.versionV2 := Nat.le_of_lt_succ (Nat.lt_of_not_le h3)
    obtain ⟨b, r1, hb, h⟩ := parser_bind_ok_inv h
    obtain ⟨hs, hlt⟩ := readByte_inv s b r1 hb
    rw [pure_run] at h
    have h' := Res.ok_inj h
    have hid : (if b ≥ 128 then b + 65280 else b) = id := congrArg Prod.fst h'
    have hr : r1 = r := congrArg Prod.snd h'
    rw [if_pos h2, ← hid, ← hr]
    refine ⟨?_, ?_⟩
    · rw [hs]; congr 1
      by_cases hb128 : b ≥ 128
      · rw [if_pos hb128, ← byte_mod (b + 65280)]
        have : (b + 65280) % 256 = b := by omega
        rw [this]
      · rw [if_neg hb128]
    · by_cases hb128 : b ≥ 128
      · rw [if_pos hb128]; omega
      · rw [if_neg hb128]; omega

/-! ## the header decoder accepts only the specification's headers -/

set_option maxRecDepth 100000 in
/-- the decoder's header checks (supported version; valid opcode of the right direction) are the two clauses of the
    specification's `HeaderOkAnyVersion`, on every byte value -/
theorem checks_version : ∀ b0 < 256,
    CheckSupportedProtocolVersion (b0 &&& 127) = decide (Spec.versionOf b0 ∈ Spec.knownVersions) := by decide

set_option maxRecDepth 100000 in
theorem checks_opcode : ∀ op < 256, ∀ r : Bool,
    (CheckValidOpCode op && checkDirection r op) =
      decide (if r then op ∈ Spec.responseOpcodes else op ∈ Spec.requestOpcodesAll ++ [Spec.opReviseRequest]) := by
  decide

set_option maxRecDepth 100000 in
private theorem headerOk_aux (r d : Bool) : ∀ op < 256,
    ((op ∈ Spec.requestOpcodesAll ++ (if d then [Spec.opReviseRequest] else []) ++ Spec.responseOpcodes ∧
      (if r then op ∈ Spec.responseOpcodes
       else op ∈ Spec.requestOpcodesAll ++ (if d then [Spec.opReviseRequest] else []))) ↔
    ((if r then op ∈ Spec.responseOpcodes else op ∈ Spec.requestOpcodesAll ++ [Spec.opReviseRequest]) ∧
      (op = Spec.opReviseRequest → d = true))) := by
  cases r <;> cases d <;> decide

/-- what `HeaderOk` adds to `HeaderOkAnyVersion`: 0xFF (CANCEL / REVISE_REQUEST) is declared by the DSE documents only -/
theorem headerOk_iff (b0 op : Nat) (hop : op < 256) :
    (Spec.HeaderOk b0 op ↔
      Spec.HeaderOkAnyVersion b0 op ∧ (op = Spec.opReviseRequest → Spec.isDse (Spec.versionOf b0) = true)) := by
  have := headerOk_aux (Spec.isResponseByte b0) (Spec.isDse (Spec.versionOf b0)) op hop
  unfold Spec.HeaderOk Spec.HeaderOkAnyVersion Spec.declaredOpcodes Spec.requestOpcodes
  constructor
  · rintro ⟨h1, h2, h3⟩
    have := this.1 ⟨h2, h3⟩
    exact ⟨⟨h1, this.1⟩, this.2⟩
  · rintro ⟨⟨h1, h2⟩, h3⟩
    have := this.2 ⟨h2, h3⟩
    exact ⟨h1, this.1, this.2⟩

/-- **Inversion of the header decoder.** Whenever `decodeHeader` returns a header, the bytes it consumed are exactly
    the specification's header of the returned fields (so the first byte is the version byte with its direction bit,
    the opcode sits after a stream id of the version's width, …), and that header obeys the specification:
    documented version, declared opcode, direction bit matching the opcode's class. -/
theorem decodeHeader_inv (s : Bytes) (h : Header) (rest : Bytes) (hd : decodeHeader.run s = .ok (h, rest)) :
    s = Spec.header h.version h.isResponse h.flags h.streamId h.opCode h.bodyLength ++ rest ∧
    Spec.HeaderOkAnyVersion (Spec.versionByte h.version h.isResponse) h.opCode ∧
    Spec.versionByte h.version h.isResponse < 256 ∧ h.version < 128 ∧
    h.flags < 256 ∧ h.streamId < 65536 ∧ h.opCode < 256 ∧ h.bodyLength < 4294967296 := by
  rw [decodeHeader] at hd
  obtain ⟨vd, r1, h1, hd⟩ := parser_bind_ok_inv hd
  obtain ⟨fl, r2, h2, hd⟩ := parser_bind_ok_inv hd
  obtain ⟨g1, hd⟩ := guardP_bind_ok_inv hd
  obtain ⟨_, hd⟩ := guardP_bind_ok_inv hd
  obtain ⟨sid, r3, h3, hd⟩ := parser_bind_ok_inv hd
  obtain ⟨op, r4, h4, hd⟩ := parser_bind_ok_inv hd
  obtain ⟨bl, r5, h5, hd⟩ := parser_bind_ok_inv hd
  obtain ⟨g3, hd⟩ := guardP_bind_ok_inv hd
  obtain ⟨g4, hd⟩ := guardP_bind_ok_inv hd
  rw [pure_run] at hd
  have hd' := Res.ok_inj hd
  have hh := congrArg Prod.fst hd'
  have hr : r5 = rest := congrArg Prod.snd hd'
  obtain ⟨e1, l1⟩ := readByte_inv _ _ _ h1
  obtain ⟨e2, l2⟩ := readByte_inv _ _ _ h2
  obtain ⟨e3, l3⟩ := readStreamId_inv _ _ _ _ h3
  obtain ⟨e4, l4⟩ := readByte_inv _ _ _ h4
  obtain ⟨e5, l5⟩ := readInt_inv _ _ _ h5
  have F := versionByte_facts vd l1
  simp only [] at hh
  rw [← hh]
  simp only []
  rw [F.1, F.2.1, F.2.2]
  have hv128 : Spec.versionOf vd < 128 := Nat.mod_lt _ (by decide)
  refine ⟨?_, ?_, l1, hv128, l2, l3, l4, l5⟩
  · rw [Spec.header, F.2.2, e1, e2, e3, e4, e5, hr, F.1]
    simp only [List.append_assoc]
  · have hv := checks_version vd l1
    rw [g1] at hv
    have ho := checks_opcode op l4 (decide (vd &&& 128 > 0))
    rw [g3, g4, F.2.1] at ho
    refine ⟨?_, ?_⟩
    · exact of_decide_eq_true hv.symm
    · exact of_decide_eq_true ho.symm

theorem byteAt0_inj (a b : Nat) (ha : a < 256) (hb : b < 256) (h : Spec.byteAt a 0 = Spec.byteAt b 0) : a = b := by
  have := congrArg UInt8.toNat h
  simp [Spec.byteAt] at this
  omega

/-- two specification headers that agree as byte strings (whatever follows them) have the same version, direction and
    opcode: the opcode position is determined by the version byte -/
theorem header_inj (v v' : Nat) (hv : v < 128) (hv' : v' < 128) (r r' : Bool) (fl fl' sid sid' op op' bl bl' : Nat)
    (hop : op < 256) (hop' : op' < 256) (rest rest' : Bytes)
    (h : Spec.header v r fl sid op bl ++ rest = Spec.header v' r' fl' sid' op' bl' ++ rest') :
    v = v' ∧ r = r' ∧ op = op' := by
  have F := versionAndDirection_eq v hv r
  have F' := versionAndDirection_eq v' hv' r'
  rw [Spec.header, Spec.header] at h
  simp only [List.append_assoc, Spec.byte, List.cons_append, List.nil_append] at h
  have hb0 := byteAt0_inj _ _ F.2.1 F'.2.1 (List.cons.inj h).1
  have hvv : v = v' := by rw [← F.2.2.1, ← F'.2.2.1, hb0]
  have hrr : r = r' := by rw [← F.2.2.2, ← F'.2.2.2, hb0]
  refine ⟨hvv, hrr, ?_⟩
  subst hvv
  have h2 := (List.cons.inj (List.cons.inj h).2).2
  rw [Spec.streamField, Spec.streamField] at h2
  by_cases hw : v ≤ Spec.versionV2
  · rw [if_pos hw, if_pos hw] at h2
    simp only [Spec.byte, List.cons_append, List.nil_append] at h2
    exact byteAt0_inj _ _ hop hop' (List.cons.inj (List.cons.inj h2).2).1
  · rw [if_neg hw, if_neg hw] at h2
    simp only [Spec.short, List.cons_append, List.nil_append] at h2
    exact byteAt0_inj _ _ hop hop' (List.cons.inj (List.cons.inj (List.cons.inj h2).2).2).1

/-- **Rejection.** A byte string that starts with a header breaking the specification — unsupported version, opcode not
    declared, request opcode with the response bit or the reverse — is refused with an error: the decoder returns
    neither a header nor a panic. "Starts with a header" is said through the specification's own layout: any flags,
    any stream id, any length, anything after the header; the opcode position follows from the version's stream-id
    width. (Every byte string of at least 9 bytes is of this form for its own first byte.) -/
theorem header_rejected (version : Nat) (isResponse : Bool) (flags streamId opcode bodyLength : Nat)
    (hv : version < 128) (hop : opcode < 256)
    (hbad : ¬ Spec.HeaderOkAnyVersion (Spec.versionByte version isResponse) opcode) (rest : Bytes) :
    ∃ e, decodeHeader.run (Spec.header version isResponse flags streamId opcode bodyLength ++ rest) = .err e := by
  cases hres : decodeHeader.run (Spec.header version isResponse flags streamId opcode bodyLength ++ rest) with
  | err e => exact ⟨e, rfl⟩
  | panic e => exact absurd hres (decodeHeader_noPanic _ e)
  | ok x =>
    obtain ⟨h, r⟩ := x
    obtain ⟨hs, hok, _, hv', _, _, hop', _⟩ := decodeHeader_inv _ h r hres
    obtain ⟨e1, e2, e3⟩ := header_inj _ _ hv hv' _ _ _ _ _ _ _ _ _ _ hop hop' _ _ hs
    rw [e1, e2, e3] at hbad
    exact absurd hok hbad

theorem byteAt_toNat (n : Nat) (h : n < 256) : (Spec.byteAt n 0).toNat = n := by
  simp [Spec.byteAt]; omega

/-- **Rejection, on raw bytes.** Take ANY input whose first byte is `b0` and whose opcode byte — the 4th byte when the
    version bits of `b0` say v1/v2 (one-byte stream id), the 5th otherwise — is `op`: if `b0`, `op` break the
    specification (`¬ HeaderOkAnyVersion`), the header decoder returns an error. (Inputs shorter than 5 bytes are too
    short for any header and fail with "eof".) -/
theorem header_rejected_raw (b0 b1 b2 b3 b4 : UInt8) (tl : Bytes)
    (hbad : ¬ Spec.HeaderOkAnyVersion b0.toNat
      (if Spec.versionOf b0.toNat ≤ Spec.versionV2 then b3.toNat else b4.toNat)) :
    ∃ e, decodeHeader.run (b0 :: b1 :: b2 :: b3 :: b4 :: tl) = .err e := by
  cases hres : decodeHeader.run (b0 :: b1 :: b2 :: b3 :: b4 :: tl) with
  | err e => exact ⟨e, rfl⟩
  | panic e => exact absurd hres (decodeHeader_noPanic _ e)
  | ok x =>
    obtain ⟨h, r⟩ := x
    obtain ⟨hs, hok, hvb, hv, _, _, hop, _⟩ := decodeHeader_inv _ h r hres
    exfalso; apply hbad
    have F := versionAndDirection_eq h.version hv h.isResponse
    rw [Spec.header] at hs
    simp only [List.append_assoc, Spec.byte, List.cons_append, List.nil_append] at hs
    have e0 : b0.toNat = Spec.versionByte h.version h.isResponse := by
      rw [(List.cons.inj hs).1, byteAt_toNat _ hvb]
    have hs2 := (List.cons.inj (List.cons.inj hs).2).2
    rw [e0, F.2.2.1]
    rw [Spec.streamField] at hs2
    by_cases hw : h.version ≤ Spec.versionV2
    · rw [if_pos hw] at hs2 ⊢
      simp only [Spec.byte, List.cons_append, List.nil_append] at hs2
      rw [(List.cons.inj (List.cons.inj hs2).2).1, byteAt_toNat _ hop]; exact hok
    · rw [if_neg hw] at hs2 ⊢
      simp only [Spec.short, List.cons_append, List.nil_append] at hs2
      rw [(List.cons.inj (List.cons.inj (List.cons.inj hs2).2).2).1, byteAt_toNat _ hop]; exact hok

/-! ## specification-formatted headers are accepted and denote their fields -/

set_option maxRecDepth 100000 in
private theorem request_not_response : ∀ op < 256,
    op ∈ Spec.requestOpcodesAll ++ [Spec.opReviseRequest] → op ∉ Spec.responseOpcodes := by decide

private theorem declared_lt (version op : Nat) (h : op ∈ Spec.declaredOpcodes version) : op < 256 := by
  have h1 : ∀ x ∈ Spec.declaredOpcodes Spec.versionDse1, x < 256 := by decide
  have h2 : ∀ x ∈ Spec.declaredOpcodes Spec.versionV4, x < 256 := by decide
  rw [Spec.declaredOpcodes, Spec.requestOpcodes] at h
  cases hd : Spec.isDse version with
  | true => rw [hd, if_pos rfl] at h; exact h1 op h
  | false => rw [hd, if_neg (by decide)] at h; exact h2 op h

/-- a header that obeys the specification is a valid header in the sense of the round-trip theorems -/
theorem headerOk_valid (version : Nat) (isResponse : Bool) (opcode : Nat) (hv : version < 128)
    (hok : Spec.HeaderOk (Spec.versionByte version isResponse) opcode) :
    ProtocolVersion_IsSupported version = true ∧ OpCode_IsValid opcode = true ∧
    isResponse = OpCode_IsResponse opcode ∧ opcode < 256 := by
  have F := versionAndDirection_eq version hv isResponse
  have hop : opcode < 256 := declared_lt _ _ hok.2.1
  obtain ⟨⟨h1, h2⟩, _⟩ := (headerOk_iff _ _ hop).1 hok
  rw [F.2.2.1] at h1
  rw [F.2.2.2] at h2
  have C := opcode_classes opcode hop
  refine ⟨?_, ?_, ?_, hop⟩
  · rw [knownVersions_eq version (Nat.lt_trans hv (by decide))]; exact decide_eq_true h1
  · rw [C.2.2.1]; apply decide_eq_true
    cases isResponse with
    | true => exact List.mem_append_right _ (by simpa using h2)
    | false => exact List.mem_append_left _ (by simpa using h2)
  · rw [C.1]
    cases isResponse with
    | true => exact (decide_eq_true (by simpa using h2)).symm
    | false =>
      exact (decide_eq_false (request_not_response opcode hop (by simpa using h2))).symm

private theorem toInt16_fits (sid : Nat) (h : sid < 128 ∨ 65408 ≤ sid) (hs : sid < 65536) :
    ¬ (toInt16 sid > 127 ∨ toInt16 sid < -128) := by
  rw [toInt16]
  rcases h with h | h
  · rw [if_neg (by omega)]; omega
  · rw [if_pos (by omega)]; omega

/-- **Acceptance.** Every specification-formatted header that obeys `Spec.HeaderOk` — with one-byte flags, a stream id
    that fits the version's width and a 4-byte length — is accepted by `decodeHeader`, which returns exactly the fields
    the bytes denote and leaves what follows untouched. (No supported version is a beta version —
    `ProtocolVersion_IsBeta` is constantly false in the constants regenerated from the Go source — so the USE_BETA flag
    is never required.) -/
theorem decodeHeader_spec (version : Nat) (isResponse : Bool) (flags streamId opcode bodyLength : Nat)
    (hv : version < 128) (hok : Spec.HeaderOk (Spec.versionByte version isResponse) opcode)
    (hfl : flags < 256) (hsid : streamId < 65536)
    (hsid8 : version ≤ Spec.versionV2 → streamId < 128 ∨ 65408 ≤ streamId)   -- v2: the pattern of a signed byte
    (hbl : bodyLength < 4294967296) (rest : Bytes) :
    decodeHeader.run (Spec.header version isResponse flags streamId opcode bodyLength ++ rest) =
      .ok ({ isResponse := isResponse, version := version, flags := flags, streamId := streamId, opCode := opcode,
             bodyLength := bodyLength }, rest) := by
  obtain ⟨h1, h2, h3, _⟩ := headerOk_valid version isResponse opcode hv hok
  have hvalid : ValidHeader ⟨isResponse, version, flags, streamId, opcode, bodyLength⟩ :=
    { version := h1, flags := hfl, streamId := hsid, opCode := h2, direction := h3, bodyLength := hbl }
  obtain ⟨b, hb⟩ := encodeHeader_ok _ hvalid (fun hlt =>
    have hlt' : version < 3 := hlt
    toInt16_fits streamId (hsid8 (Nat.le_of_lt_succ hlt')) hsid)
  have := decodeHeader_RT _ hvalid b hb rest
  rw [encodeHeader_spec _ hvalid b hb] at this
  exact this

/-! ## the strict opcode list: 0xFF exists in the DSE documents only -/

/-- Whatever `decodeHeader` accepts obeys `Spec.HeaderOk` — provided opcode 0xFF comes with a DSE version. -/
theorem decodeHeader_headerOk (s : Bytes) (h : Header) (rest : Bytes) (hd : decodeHeader.run s = .ok (h, rest))
    -- SUSPECT: `decodeHeader` (hence `DecodeRawFrame`, `DecodeHeader`) accepts the DSE-only opcode 0xFF with an OSS
    -- version byte, e.g. `04 00 00 01 FF 00 00 00 00` (see the example at the end of this file); only the body decoder
    -- refuses it (`decodeFrame_headerOk`).
    (hdse : h.opCode = Spec.opReviseRequest → Spec.isDse h.version = true) :
    Spec.HeaderOk (Spec.versionByte h.version h.isResponse) h.opCode := by
  obtain ⟨_, hok, _, hv, _, _, hop, _⟩ := decodeHeader_inv s h rest hd
  have F := versionAndDirection_eq h.version hv h.isResponse
  exact (headerOk_iff _ _ hop).2 ⟨hok, fun e => by rw [F.2.2.1]; exact hdse e⟩

theorem decodeBodyPlain_revise (h : Header) (s : Bytes) (x : Body × Bytes) (hd : (decodeBodyPlain h).run s = .ok x)
    (hop : h.opCode = OpCodeDseRevise) : ProtocolVersion_IsDse h.version = true := by
  rw [decodeBodyPlain] at hd
  obtain ⟨_, _, _, hd⟩ := parser_bind_ok_inv hd
  obtain ⟨_, _, _, hd⟩ := parser_bind_ok_inv hd
  obtain ⟨_, _, _, hd⟩ := parser_bind_ok_inv hd
  obtain ⟨m, r, hm, _⟩ := parser_bind_ok_inv hd
  cases hdse : ProtocolVersion_IsDse h.version with
  | true => rfl
  | false =>
    exfalso
    have hck : CheckDseProtocolVersion h.version = false := by rw [CheckDseProtocolVersion, hdse]; rfl
    rw [hop, decodeMsg, if_neg (by decide), if_neg (by decide), if_neg (by decide), if_neg (by decide),
      if_neg (by decide), if_neg (by decide), if_neg (by decide), if_neg (by decide), if_pos rfl, map_run,
      decodeRevise, hck] at hm
    have : ∀ (f : Unit → Parser (Nat × Nat × Nat)) (s : Bytes),
        (guardP false "invalid DSE protocol version" >>= f).run s = .err "invalid DSE protocol version" :=
      fun f s => bind_err rfl f
    rw [this] at hm
    cases hm

/-- **Frame-level rejection of a non-DSE REVISE_REQUEST**: whatever the frame decoder accepts (any compressor, any
    input) has a header that obeys the strict `Spec.HeaderOk`. -/
theorem decodeFrame_headerOk (c : Option BodyCompressor) (s : Bytes) (f : Frame) (rest : Bytes)
    (hd : (decodeFrame c).run s = .ok (f, rest)) :
    Spec.HeaderOk (Spec.versionByte f.header.version f.header.isResponse) f.header.opCode := by
  rw [decodeFrame] at hd
  obtain ⟨h, r1, h1, hd⟩ := parser_bind_ok_inv hd
  obtain ⟨b, r2, h2, hd⟩ := parser_bind_ok_inv hd
  rw [pure_run] at hd
  have hf : ({ header := h, body := b } : Frame) = f := congrArg Prod.fst (Res.ok_inj hd)
  rw [← hf]
  refine decodeHeader_headerOk s h r1 h1 (fun hop => ?_)
  have hv128 := (decodeHeader_inv s h r1 h1).2.2.2.1
  rw [← isDse_eq h.version (Nat.lt_trans hv128 (by decide))]
  rw [decodeBody.eq_def] at h2
  by_cases hc : hasFlag h.flags HeaderFlagCompressed = true
  · rw [if_pos hc] at h2
    cases c with
    | none => cases h2
    | some comp =>
      simp only [] at h2
      cases hdc : comp.decompressWithLength (limited h.bodyLength r1).1 with
      | err e => rw [hdc] at h2; cases h2
      | panic e => rw [hdc] at h2; cases h2
      | ok y =>
        rw [hdc] at h2
        obtain ⟨raw, unread⟩ := y
        simp only [] at h2
        cases hp : (decodeBodyPlain h).run raw with
        | err e => rw [hp] at h2; cases h2
        | panic e => rw [hp] at h2; cases h2
        | ok z => exact decodeBodyPlain_revise h raw z hp hop
  · rw [if_neg hc] at h2
    exact decodeBodyPlain_revise h r1 _ h2 hop

/-! ## the body prefix -/

theorem map_stringPair (m : List (Bytes × Bytes)) :
    m.map writeStringPair = m.map (fun p => Spec.string p.1 ++ Spec.string p.2) :=
  List.map_congr_left fun p _ => by rw [writeStringPair, SpecPrim.string_eq, SpecPrim.string_eq]

theorem stringMap_eq (m : List (Bytes × Bytes)) : writeStringMap m = Spec.stringMap m := by
  rw [writeStringMap, SpecPrim.short_eq, SpecPrim.short_mod, map_stringPair]; rfl

theorem map_bytesPair (m : List (Bytes × Option Bytes)) :
    m.map writeBytesPair = m.map (fun p => Spec.string p.1 ++ Spec.bytes p.2) :=
  List.map_congr_left fun p _ => by rw [writeBytesPair, SpecPrim.string_eq, SpecPrim.bytes_eq]

theorem bytesMap_eq (m : List (Bytes × Option Bytes)) : writeBytesMap m = Spec.bytesMap m := by
  rw [writeBytesMap, SpecPrim.short_eq, SpecPrim.short_mod, map_bytesPair]; rfl

/-- `if cond { write }` against the documents' `[<x>]` -/
theorem whenW_opt (c c' : Bool) (e : Res Bytes) (w x : Bytes) (hw : whenW c e = .ok x) (hc : c = c')
    (ht : c = true → ∀ b', e = .ok b' → b' = w) : x = Spec.opt c' w := by
  subst hc
  cases c with
  | true => rw [whenW_true] at hw; rw [ht rfl x hw]; rfl
  | false => rw [whenW_false] at hw; rw [← Res.ok_inj hw]; rfl

theorem optB_opt (c : Bool) (w : Bytes) : optB c w = Spec.opt c w := rfl

/-- **Body-prefix refinement.** What the encoder writes in front of the message is what §2.2 prescribes, in the
    prescribed order: tracing id (responses), then warnings (responses, v4+), then custom payload (v4+). -/
theorem encodeBodyPrefix_spec (h : Header) (b : Body) (hfl : h.flags < 256) (hv : ValidBody h b) (bs : Bytes)
    (hw : encodeBodyPrefix h b = .ok bs) : bs = Spec.bodyPrefix h.version h.isResponse h.flags b := by
  rw [encodeBodyPrefix] at hw
  obtain ⟨tr, htr, hw⟩ := Res.bind_ok_inv hw
  obtain ⟨wa, hwa, hw⟩ := Res.bind_ok_inv hw
  obtain ⟨pa, hpa, hw⟩ := Res.bind_ok_inv hw
  have F := hasFlag_eq h.flags hfl
  rw [← Res.pure_ok_inv hw, Spec.bodyPrefix]
  have e1 := whenW_opt _ (Spec.tracingPresent h.isResponse h.flags) _ (Spec.uuid (b.tracingId.getD [])) tr htr
    (by rw [Spec.tracingPresent, ← F.2.1, ← hv.direction, Bool.and_comm])
    (fun hc b' hb' => by
      have hc' : (h.isResponse && hasFlag h.flags HeaderFlagTracing) = true := by
        rw [hv.direction, Bool.and_comm]; exact hc
      obtain ⟨u, hu, _⟩ := hv.tracing hc'
      rw [hu, writeUuid] at hb'
      rw [hu, ← Res.ok_inj hb']; rfl)
  have e2 := whenW_opt _ (Spec.warningsPresent h.version h.isResponse h.flags) _
    (Spec.stringList (b.warnings.getD [])) wa hwa
    (by
      rw [Spec.warningsPresent, ← F.2.2.2.1, ← hv.direction]
      cases hf : hasFlag h.flags HeaderFlagWarning with
      | false => simp
      | true =>
        obtain ⟨hr, h4, _⟩ := hv.warnings hf
        have : Spec.hasPayloadAndWarnings h.version = true := decide_eq_true h4
        rw [hr, this]; rfl)
    (fun hc b' hb' => by
      have hf : hasFlag h.flags HeaderFlagWarning = true := by
        cases hf : hasFlag h.flags HeaderFlagWarning with
        | true => rfl
        | false => rw [hf] at hc; cases hc
      obtain ⟨_, h4, _⟩ := hv.warnings hf
      have h4' : ¬ h.version < ProtocolVersion4 := Nat.not_lt.mpr h4
      rw [if_neg (fun hx => h4' hx.1)] at hb'
      rw [← Res.ok_inj hb', SpecPrim.stringList_eq])
  have e3 := whenW_opt _ (Spec.payloadPresent h.version h.flags) _
    (Spec.bytesMap (b.customPayload.getD [])) pa hpa
    (by
      rw [Spec.payloadPresent, ← F.2.2.1]
      cases hf : hasFlag h.flags HeaderFlagCustomPayload with
      | false => simp
      | true =>
        obtain ⟨h4, _⟩ := hv.payload hf
        have : Spec.hasPayloadAndWarnings h.version = true := decide_eq_true h4
        rw [this]; rfl)
    (fun hc b' hb' => by
      obtain ⟨h4, _⟩ := hv.payload hc
      have h4' : ¬ h.version < ProtocolVersion4 := Nat.not_lt.mpr h4
      rw [if_neg h4'] at hb'
      rw [← Res.ok_inj hb', bytesMap_eq])
  rw [e1, e2, e3]

/-! ## non-vacuity: the headers the documents print -/

/-- v4 §2.1 "0x04 Request frame", "0x84 Response frame"; DSE v1 §2.1 "0x41 (0100 0001)", "0xC1 (1100 0001)";
    v2 §2.1 "0x02", "0x82" -/
example : Spec.versionByte Spec.versionV4 false = 0x04 ∧ Spec.versionByte Spec.versionV4 true = 0x84 ∧
    Spec.versionByte Spec.versionDse1 false = 0x41 ∧ Spec.versionByte Spec.versionDse1 true = 0xC1 ∧
    Spec.versionByte Spec.versionV2 false = 0x02 ∧ Spec.versionByte Spec.versionV2 true = 0x82 := by decide

/-- a v4 QUERY request on stream 1 with a 33-byte body: 9 bytes -/
example : Spec.header 4 false 0 1 Spec.opQuery 33 = [0x04, 0x00, 0x00, 0x01, 0x07, 0x00, 0x00, 0x00, 0x21] := by decide
/-- "currently all EVENT messages have a streamId of -1": a v2 EVENT response (8-byte header, one signed byte 0xFF),
    and the same in v3 (two bytes 0xFFFF) -/
example : Spec.header 2 true 0 65535 Spec.opEvent 5 = [0x82, 0x00, 0xFF, 0x0C, 0x00, 0x00, 0x00, 0x05] := by decide
example : Spec.header 3 true 0 65535 Spec.opEvent 5 = [0x83, 0x00, 0xFF, 0xFF, 0x0C, 0x00, 0x00, 0x00, 0x05] := by decide
example : Spec.HeaderOk 0x04 Spec.opQuery ∧ Spec.HeaderOk 0x84 Spec.opResult ∧ Spec.HeaderOk 0x42 Spec.opReviseRequest := by
  decide
/-- broken headers: v1 and v6 are not supported, 0x04 is no opcode, RESULT is no request, QUERY is no response, and
    REVISE_REQUEST does not exist outside DSE -/
example : ¬ Spec.HeaderOk 0x01 Spec.opQuery ∧ ¬ Spec.HeaderOk 0x06 Spec.opQuery ∧ ¬ Spec.HeaderOk 0x04 0x04 ∧
    ¬ Spec.HeaderOk 0x04 Spec.opResult ∧ ¬ Spec.HeaderOk 0x84 Spec.opQuery ∧ ¬ Spec.HeaderOk 0x04 Spec.opReviseRequest := by
  decide
/-- the decoder run on the documents' bytes -/
example : decodeHeader.run [0x84, 0x02, 0x00, 0x01, 0x08, 0x00, 0x00, 0x00, 0x14, 0xAA] =
    .ok ({ isResponse := true, version := 4, flags := 2, streamId := 1, opCode := 8, bodyLength := 20 }, [0xAA]) := by
  decide
/-- the SUSPECT of `decodeHeader_headerOk`: a v4 header with the DSE-only opcode 0xFF breaks the v4 specification
    ("unknown opcode") and is accepted by the header decoder -/
example : ¬ Spec.HeaderOk 0x04 0xFF ∧
    decodeHeader.run [0x04, 0x00, 0x00, 0x01, 0xFF, 0x00, 0x00, 0x00, 0x00] =
      .ok ({ isResponse := false, version := 4, flags := 0, streamId := 1, opCode := 255, bodyLength := 0 }, []) := by
  decide
example : ∃ e, decodeHeader.run [0x04, 0x00, 0x00, 0x01, 0x08, 0x00, 0x00, 0x00, 0x14] = .err e :=
  header_rejected 4 false 0 1 8 20 (by decide) (by decide) (by decide) []

end Cql.SpecFrame
