/-
Decidable set comparison of lists, used to turn closure statements that quantify over a whole
code space (`∀ x : Nat`, `∀ x : List UInt8`) into finite, kernel-decidable list comparisons.
-/
namespace Cql

def subList {α} [BEq α] (a b : List α) : Bool := a.all (fun x => b.contains x)

def sameSet {α} [BEq α] (a b : List α) : Bool := subList a b && subList b a

theorem subList_sound {α} [BEq α] [LawfulBEq α] {a b : List α} (h : subList a b = true) :
    ∀ x, x ∈ a → x ∈ b := by
  intro x hx
  have := List.all_eq_true.mp h x hx
  simpa using this

theorem sameSet_sound {α} [BEq α] [LawfulBEq α] {a b : List α} (h : sameSet a b = true) :
    ∀ x, a.contains x = true ↔ x ∈ b := by
  intro x
  have h' := Bool.and_eq_true_iff.mp h
  constructor
  · intro hx
    exact subList_sound h'.1 x (by simpa using hx)
  · intro hx
    have := subList_sound h'.2 x hx
    simpa using this

/-- pairwise distinct, as a Bool -/
def distinct {α} [BEq α] : List α → Bool
  | [] => true
  | x :: xs => !xs.contains x && distinct xs

theorem distinct_sound {α} [BEq α] [LawfulBEq α] : ∀ {l : List α}, distinct l = true → l.Nodup
  | [], _ => List.nodup_nil
  | x :: xs, h => by
    have h' := Bool.and_eq_true_iff.mp h
    refine List.nodup_cons.mpr ⟨?_, distinct_sound h'.2⟩
    intro hx
    have h1 : xs.contains x = true := by simpa using hx
    have h2 := h'.1
    rw [h1] at h2
    exact absurd h2 (by decide)

end Cql
