import Cql.Impl.Frame
import Cql.Lemmas.MessageRT
/-! Header, body and frame lemmas: round trip with remainder, declared length = emitted bytes, no panic. -/
namespace Cql.Impl
open Cql Cql.Prim Cql.Parser Cql.Gen

/-! ### header -/

structure ValidHeader (h : Header) : Prop where
  version : ProtocolVersion_IsSupported h.version = true
  flags : h.flags < 256
  streamId : h.streamId < 65536
  opCode : OpCode_IsValid h.opCode = true
  direction : h.isResponse = OpCode_IsResponse h.opCode
  bodyLength : h.bodyLength < 4294967296

private theorem vd_facts : ∀ v ∈ SupportedProtocolVersions, ∀ r : Bool,
    (v ||| (if r then 128 else 0)) < 256 ∧
    decide ((v ||| (if r then 128 else 0)) &&& 128 > 0) = r ∧ (v ||| (if r then 128 else 0)) &&& 127 = v ∧
    ProtocolVersion_IsBeta v = false := by decide

private theorem op_facts : ∀ op ∈ OpCode_IsValid_cases,
    op < 256 ∧ (OpCode_IsResponse op = true → CheckResponseOpCode op = true) ∧
    (OpCode_IsResponse op = false → CheckRequestOpCode op = true) := by decide

theorem decodeHeader_RT (h : Header) (hv : ValidHeader h) (b : Bytes) (hw : encodeHeader h = .ok b) (rest : Bytes) :
    decodeHeader.run (b ++ rest) = .ok (h, rest) := by
  rw [encodeHeader] at hw
  obtain ⟨_, _, hw⟩ := Res.bind_ok_inv hw
  obtain ⟨_, _, hw⟩ := Res.bind_ok_inv hw
  obtain ⟨sid, hsid, hw⟩ := Res.bind_ok_inv hw
  have hmem : h.version ∈ SupportedProtocolVersions := by
    simpa [ProtocolVersion_IsSupported] using hv.version
  have F := vd_facts h.version hmem h.isResponse
  have hop : h.opCode ∈ OpCode_IsValid_cases := by simpa [OpCode_IsValid] using hv.opCode
  have O := op_facts h.opCode hop
  have hck : CheckSupportedProtocolVersion h.version = true := by
    rw [CheckSupportedProtocolVersion, hv.version]; rfl
  have hcv : CheckValidOpCode h.opCode = true := by rw [CheckValidOpCode, hv.opCode]; rfl
  have hdir : checkDirection h.isResponse h.opCode = true := by
    rw [checkDirection]
    cases hr : h.isResponse with
    | true => rw [if_pos rfl]; exact O.2.1 (by rw [← hv.direction, hr])
    | false => rw [if_neg (by decide)]; exact O.2.2 (by rw [← hv.direction, hr])
  rw [← Res.pure_ok_inv hw]
  simp only [List.append_assoc]
  rw [decodeHeader, versionAndDirection, bind_ok (readByte_RT _ F.1 _), bind_ok (readByte_RT _ hv.flags _)]
  rw [F.2.2.1, hck, bind_ok (guardP_true _ _), F.2.2.2]
  rw [show (!(false && !hasFlag h.flags HeaderFlagUseBeta)) = true from rfl, bind_ok (guardP_true _ _),
    bind_ok (readStreamId_RT h.version h.streamId hv.streamId sid hsid _), bind_ok (readByte_RT _ O.1 _),
    bind_ok (readInt_RT _ hv.bodyLength _), hcv, bind_ok (guardP_true _ _), F.2.1, hdir, bind_ok (guardP_true _ _)]
  rfl

def headerLength (version : Nat) : Nat := if version ≥ ProtocolVersion3 then 9 else 8

theorem encodeHeader_len (h : Header) (b : Bytes) (hw : encodeHeader h = .ok b) : b.length = headerLength h.version := by
  rw [encodeHeader] at hw
  obtain ⟨_, _, hw⟩ := Res.bind_ok_inv hw
  obtain ⟨_, _, hw⟩ := Res.bind_ok_inv hw
  obtain ⟨sid, hsid, hw⟩ := Res.bind_ok_inv hw
  have hs : sid.length = if h.version ≥ ProtocolVersion3 then 2 else 1 := by
    rw [writeStreamId] at hsid
    by_cases h3 : h.version ≥ ProtocolVersion3
    · rw [if_pos h3] at hsid; rw [← Res.ok_inj hsid, if_pos h3, writeShort_len]
    · rw [if_neg h3] at hsid
      by_cases hr : toInt16 h.streamId > 127 ∨ toInt16 h.streamId < -128
      · rw [if_pos hr] at hsid; cases hsid
      · rw [if_neg hr] at hsid; rw [← Res.ok_inj hsid, if_neg h3, writeByte_len]
  rw [← Res.pure_ok_inv hw, headerLength]
  simp only [List.length_append, writeByte_len, writeInt_len, hs]
  by_cases h3 : h.version ≥ ProtocolVersion3
  · rw [if_pos h3, if_pos h3]
  · rw [if_neg h3, if_neg h3]

/-- the header encoder refuses no valid header (v2 stream ids must fit one byte) -/
theorem encodeHeader_ok (h : Header) (hv : ValidHeader h)
    (hsid : h.version < ProtocolVersion3 → ¬ (toInt16 h.streamId > 127 ∨ toInt16 h.streamId < -128)) :
    ∃ b, encodeHeader h = .ok b := by
  have hmem : h.version ∈ SupportedProtocolVersions := by simpa [ProtocolVersion_IsSupported] using hv.version
  have F := vd_facts h.version hmem h.isResponse
  have hck : CheckSupportedProtocolVersion h.version = true := by
    rw [CheckSupportedProtocolVersion, hv.version]; rfl
  have hs : ∃ sid, writeStreamId h.version h.streamId = .ok sid := by
    rw [writeStreamId]
    by_cases h3 : h.version ≥ ProtocolVersion3
    · rw [if_pos h3]; exact ⟨_, rfl⟩
    · rw [if_neg h3, if_neg (hsid (by omega))]; exact ⟨_, rfl⟩
  obtain ⟨sid, hsid'⟩ := hs
  refine ⟨writeByte (versionAndDirection h) ++ writeByte h.flags ++ sid ++ writeByte h.opCode ++ writeInt h.bodyLength, ?_⟩
  rw [encodeHeader, hck, F.2.2.2, hsid']
  rfl

theorem decodeHeader_noPanic : NoPanic decodeHeader := by
  rw [decodeHeader]; no_panic [fun v => NoPanic.readStreamId v]

/-! ### body prefix + message -/

/-- version-validity of a frame body relative to its header: optional parts consistent with flags, direction, version -/
structure ValidBody (h : Header) (b : Body) : Prop where
  msg : ValidMsg h.version b.message
  opCode : h.opCode = b.message.opCode
  direction : h.isResponse = b.message.isResponse
  tracing : (h.isResponse && hasFlag h.flags HeaderFlagTracing) = true → ∃ u, b.tracingId = some u ∧ u.length = 16
  noTracing : (h.isResponse && hasFlag h.flags HeaderFlagTracing) = false → b.tracingId = none
  warnings : hasFlag h.flags HeaderFlagWarning = true →
    h.isResponse = true ∧ h.version ≥ ProtocolVersion4 ∧
      ∃ l, b.warnings = some l ∧ l.length < 65536 ∧ ∀ s ∈ l, s.length < 65536
  payload : hasFlag h.flags HeaderFlagCustomPayload = true →
    h.version ≥ ProtocolVersion4 ∧
      ∃ m, b.customPayload = some m ∧ m.length < 65536 ∧
        ∀ p ∈ m, p.1.length < 65536 ∧ ∀ c, p.2 = some c → c.length < 2147483648

/-- body parts whose flag is clear are not on the wire: they read back nil -/
def canonBody (h : Header) (b : Body) : Body :=
  { tracingId := b.tracingId
    customPayload := if hasFlag h.flags HeaderFlagCustomPayload then b.customPayload else none
    warnings := if hasFlag h.flags HeaderFlagWarning then b.warnings else none
    message := canonMsg h.version b.message }

theorem decodeBodyPlain_RT (h : Header) (b : Body) (hv : ValidBody h b) (bs : Bytes)
    (hw : encodeBodyUncompressed h b = .ok bs) (rest : Bytes) :
    (decodeBodyPlain h).run (bs ++ rest) = .ok (canonBody h b, rest) := by
  rw [encodeBodyUncompressed] at hw
  obtain ⟨pre, hpre, hw⟩ := Res.bind_ok_inv hw
  obtain ⟨m, hm, hw⟩ := Res.bind_ok_inv hw
  rw [encodeBodyPrefix] at hpre
  obtain ⟨tr, htr, hpre⟩ := Res.bind_ok_inv hpre
  obtain ⟨wa, hwa, hpre⟩ := Res.bind_ok_inv hpre
  obtain ⟨pa, hpa, hpre⟩ := Res.bind_ok_inv hpre
  rw [← Res.pure_ok_inv hw, ← Res.pure_ok_inv hpre]
  simp only [List.append_assoc]
  rw [← hv.direction] at htr
  have hcond : (hasFlag h.flags HeaderFlagTracing && h.isResponse) = (h.isResponse && hasFlag h.flags HeaderFlagTracing) :=
    Bool.and_comm _ _
  rw [hcond] at htr
  rw [decodeBodyPlain]
  rw [bind_ok (whenP_whenW_RT (h.isResponse && hasFlag h.flags HeaderFlagTracing) (some <$> readUuid) none b.tracingId _ tr htr _
    (fun hc b' hb' => by
      obtain ⟨u, hu, hl⟩ := hv.tracing hc
      rw [hu, writeUuid] at hb'
      have hbu : u = b' := Res.ok_inj hb'
      subst hbu
      rw [map_run, readUuid, take_RT 16 u _ hl, hu])
    (fun hc => hv.noTracing hc))]
  -- warnings
  have hwcond : (h.isResponse && hasFlag h.flags HeaderFlagWarning) = hasFlag h.flags HeaderFlagWarning := by
    cases hf : hasFlag h.flags HeaderFlagWarning with
    | false => simp
    | true => rw [(hv.warnings hf).1]; rfl
  have hwcond' : (hasFlag h.flags HeaderFlagWarning && b.message.isResponse) = hasFlag h.flags HeaderFlagWarning := by
    rw [← hv.direction, Bool.and_comm]; exact hwcond
  rw [hwcond] 
  rw [hwcond'] at hwa
  rw [bind_ok (whenP_whenW_RT (hasFlag h.flags HeaderFlagWarning) (some <$> readStringList) none
    (if hasFlag h.flags HeaderFlagWarning then b.warnings else none) _ wa hwa _
    (fun hc b' hb' => by
      obtain ⟨_, h4, l, hl, hlen, hs⟩ := hv.warnings hc
      rw [hl] at hb'
      rw [if_neg (by omega)] at hb'
      simp only [Option.getD_some] at hb'
      rw [← Res.ok_inj hb', map_run, readStringList_RT l hlen hs _, hc, if_pos rfl, hl])
    (fun hc => by rw [hc]; rfl))]
  -- custom payload
  rw [bind_ok (whenP_whenW_RT (hasFlag h.flags HeaderFlagCustomPayload) (some <$> readBytesMap) none
    (if hasFlag h.flags HeaderFlagCustomPayload then b.customPayload else none) _ pa hpa _
    (fun hc b' hb' => by
      obtain ⟨h4, m', hm', hlen, hs⟩ := hv.payload hc
      rw [hm'] at hb'
      rw [if_neg (by omega)] at hb'
      simp only [Option.getD_some] at hb'
      rw [← Res.ok_inj hb', map_run, readBytesMap_RT m' hlen hs _, hc, if_pos rfl, hm'])
    (fun hc => by rw [hc]; rfl))]
  rw [hv.opCode, bind_ok (decodeMsg_RT h.version b.message hv.msg m hm rest)]
  rfl

/-- **C03 (body)**: the calculated body length is the number of bytes the body encoder writes -/
theorem encodeBodyUncompressed_len (h : Header) (b : Body) (hv : ValidBody h b) (bs : Bytes)
    (hw : encodeBodyUncompressed h b = .ok bs) : uncompressedBodyLength h b = .ok bs.length := by
  rw [encodeBodyUncompressed] at hw
  obtain ⟨pre, hpre, hw⟩ := Res.bind_ok_inv hw
  obtain ⟨m, hm, hw⟩ := Res.bind_ok_inv hw
  rw [encodeBodyPrefix] at hpre
  obtain ⟨tr, htr, hpre⟩ := Res.bind_ok_inv hpre
  obtain ⟨wa, hwa, hpre⟩ := Res.bind_ok_inv hpre
  obtain ⟨pa, hpa, hpre⟩ := Res.bind_ok_inv hpre
  rw [uncompressedBodyLength, encodeMsg_len h.version b.message hv.msg m hm, ← Res.pure_ok_inv hw, ← Res.pure_ok_inv hpre]
  have h1 : tr.length = optN (hasFlag h.flags HeaderFlagTracing && b.message.isResponse) lengthOfUuid := by
    cases hc : (hasFlag h.flags HeaderFlagTracing && b.message.isResponse) with
    | false => rw [hc, whenW_false] at htr; rw [← Res.ok_inj htr]; rfl
    | true =>
      rw [hc, whenW_true] at htr
      have hc' : (h.isResponse && hasFlag h.flags HeaderFlagTracing) = true := by
        rw [hv.direction, Bool.and_comm]; exact hc
      obtain ⟨u, hu, hl⟩ := hv.tracing hc'
      rw [hu] at htr
      cases writeUuid_ok (some u) tr htr
      exact hl
  have hwcond' : (hasFlag h.flags HeaderFlagWarning && b.message.isResponse) = hasFlag h.flags HeaderFlagWarning := by
    cases hf : hasFlag h.flags HeaderFlagWarning with
    | false => rfl
    | true => rw [← hv.direction, (hv.warnings hf).1]; rfl
  rw [hwcond'] at hwa ⊢
  have h2 : wa.length = optN (hasFlag h.flags HeaderFlagWarning) (lengthOfStringList (b.warnings.getD [])) := by
    cases hc : hasFlag h.flags HeaderFlagWarning with
    | false => rw [hc, whenW_false] at hwa; rw [← Res.ok_inj hwa]; rfl
    | true =>
      rw [hc, whenW_true] at hwa
      obtain ⟨_, h4, l, hl, _, _⟩ := hv.warnings hc
      rw [if_neg (by omega)] at hwa
      rw [← Res.ok_inj hwa, writeStringList_len]; rfl
  have h3 : pa.length = optN (hasFlag h.flags HeaderFlagCustomPayload) (lengthOfBytesMap (b.customPayload.getD [])) := by
    cases hc : hasFlag h.flags HeaderFlagCustomPayload with
    | false => rw [hc, whenW_false] at hpa; rw [← Res.ok_inj hpa]; rfl
    | true =>
      rw [hc, whenW_true] at hpa
      obtain ⟨h4, _⟩ := hv.payload hc
      rw [if_neg (by omega)] at hpa
      rw [← Res.ok_inj hpa, writeBytesMap_len]; rfl
  show Res.ok _ = Res.ok _
  congr 1
  simp only [List.length_append, h1, h2, h3]
  omega

theorem decodeBodyPlain_noPanic (h : Header) : NoPanic (decodeBodyPlain h) := by
  rw [decodeBodyPlain]
  no_panic [NoPanic.readUuid, NoPanic.readStringList, NoPanic.readBytesMap, decodeMsg_noPanic h.version h.opCode]

end Cql.Impl
