import Cql.Crc
/-!
Lemmas on `ChecksumKoopman` (`Cql.Crc.crc24`): the result is a 24-bit value, and the eight bit steps per byte read only the
low 24 bits of the register (so the bits the Go code lets in above bit 23 — it does not mask `data` to its low byte as the
Java original does — never influence the result). Bit-level reasoning with `BitVec.getLsbD`; no `bv_decide`.
-/
namespace Cql.Crc

/-! ### `ChecksumKoopman` stays within 24 bits -/
/-! ### `ChecksumKoopman` stays within 24 bits -/


theorem iter_inv {α} (f : α → α) (P : α → Prop) (hf : ∀ x, P x → P (f x)) : ∀ n x, P x → P (iter f n x)
  | 0, _, h => h
  | n + 1, x, h => by rw [iter]; exact iter_inv f P hf n (f x) (hf x h)

/-- bits `24 … 24+k-1` are clear -/
def HighZero (k : Nat) (c : BitVec 32) : Prop := ∀ i, 24 ≤ i → i < 24 + k → c.getLsbD i = false

theorem mask24_eq : (0x1000000#32) = BitVec.twoPow 32 24 := by decide

theorem poly_bit24 : crc24Poly.getLsbD 24 = true := by decide

theorem poly_high (i : Nat) (h : 25 ≤ i) : crc24Poly.getLsbD i = false := by
  rw [crc24Poly, BitVec.getLsbD_ofNat]
  have : (0x1974F0B : Nat) < 2 ^ i :=
    Nat.lt_of_lt_of_le (by decide : (0x1974F0B : Nat) < 2 ^ 25) (Nat.pow_le_pow_right (by decide) h)
  rw [Nat.testBit_lt_two_pow this, Bool.and_false]

/-- the test `(crc & 0x1000000) != 0` reads bit 24 -/
theorem test24 (x : BitVec 32) : (x &&& 0x1000000#32 ≠ 0#32) ↔ x.getLsbD 24 = true := by
  rw [mask24_eq, BitVec.and_twoPow]
  cases hb : x.getLsbD 24 with
  | true => rw [if_pos rfl]; exact ⟨fun _ => rfl, fun _ => by decide⟩
  | false => rw [if_neg (by decide)]; exact ⟨fun h => absurd rfl h, fun h => by cases h⟩

theorem crc24Bit_of_set (c : BitVec 32) (h : (c <<< 1).getLsbD 24 = true) : crc24Bit c = (c <<< 1) ^^^ crc24Poly := by
  rw [crc24Bit]; exact if_pos ((test24 _).mpr h)

theorem crc24Bit_of_clear (c : BitVec 32) (h : (c <<< 1).getLsbD 24 = false) : crc24Bit c = c <<< 1 := by
  rw [crc24Bit]; exact if_neg (fun hh => by rw [(test24 _).mp hh] at h; cases h)

theorem crc24Bit_high (k : Nat) (c : BitVec 32) (h : HighZero k c) : HighZero (k + 1) (crc24Bit c) := by
  intro i h1 h2
  cases hb : (c <<< 1).getLsbD 24 with
  | true =>
    rw [crc24Bit_of_set c hb, BitVec.getLsbD_xor]
    by_cases hi : i = 24
    · subst hi; rw [hb, poly_bit24]; rfl
    · rw [BitVec.getLsbD_shiftLeft, h (i - 1) (by omega) (by omega), Bool.and_false, poly_high i (by omega)]; rfl
  | false =>
    rw [crc24Bit_of_clear c hb]
    by_cases hi : i = 24
    · subst hi; exact hb
    · rw [BitVec.getLsbD_shiftLeft, h (i - 1) (by omega) (by omega), Bool.and_false]

theorem iter_comm {α} (f : α → α) : ∀ n x, iter f n (f x) = f (iter f n x)
  | 0, _ => rfl
  | n + 1, x => by rw [iter, iter_comm f n (f x), iter]

theorem iter_succ' {α} (f : α → α) (n : Nat) (x : α) : iter f (n + 1) x = f (iter f n x) := by
  rw [iter, iter_comm]

theorem iter_crc24Bit_high (c : BitVec 32) : ∀ k, HighZero k (iter crc24Bit k c)
  | 0 => fun i h1 h2 => absurd h2 (by omega)
  | k + 1 => by rw [iter_succ']; exact crc24Bit_high k _ (iter_crc24Bit_high c k)

theorem lt_of_highZero (c : BitVec 32) (h : HighZero 8 c) : c.toNat < 16777216 := by
  refine Nat.lt_pow_two_of_testBit (n := 24) c.toNat (fun i hi => ?_)
  rw [BitVec.testBit_toNat]
  by_cases h32 : i < 32
  · exact h i hi h32
  · exact BitVec.getLsbD_of_ge c i (by omega)

theorem crc24Byte_lt (st : BitVec 32 × BitVec 64) : (crc24Byte st).1.toNat < 16777216 := by
  rw [crc24Byte]; exact lt_of_highZero _ (iter_crc24Bit_high _ 8)

/-- `ChecksumKoopman` returns a 24-bit value (although the Go code does not mask `data` to its low byte) -/
theorem crc24_lt (data : BitVec 64) (len : Nat) : (crc24 data len).toNat < 16777216 := by
  rw [crc24, crc24From]
  exact iter_inv crc24Byte (fun st => st.1.toNat < 16777216) (fun st _ => crc24Byte_lt st) len _ (show crc24Init.toNat < 16777216 by decide)


/-! ### the eight bit steps read only the low 24 bits of the register -/

/-- the registers agree on bits `0 … 24+k-1` -/
def Agree (k : Nat) (x y : BitVec 32) : Prop := ∀ i, i < 24 + k → x.getLsbD i = y.getLsbD i

theorem shl_agree (k : Nat) (x y : BitVec 32) (h : Agree k x y) (i : Nat) (hi : i < 24 + (k + 1)) :
    (x <<< 1).getLsbD i = (y <<< 1).getLsbD i := by
  rw [BitVec.getLsbD_shiftLeft, BitVec.getLsbD_shiftLeft]
  by_cases h0 : i < 1
  · rw [decide_eq_true h0]; simp only [Bool.not_true, Bool.and_false, Bool.false_and]
  · rw [h (i - 1) (by omega)]

theorem crc24Bit_agree (k : Nat) (x y : BitVec 32) (h : Agree k x y) : Agree (k + 1) (crc24Bit x) (crc24Bit y) := by
  intro i hi
  have h24 : (x <<< 1).getLsbD 24 = (y <<< 1).getLsbD 24 := shl_agree k x y h 24 (by omega)
  cases hb : (x <<< 1).getLsbD 24 with
  | true =>
    rw [crc24Bit_of_set x hb, crc24Bit_of_set y (by rw [← h24]; exact hb), BitVec.getLsbD_xor, BitVec.getLsbD_xor,
      shl_agree k x y h i hi]
  | false =>
    rw [crc24Bit_of_clear x hb, crc24Bit_of_clear y (by rw [← h24]; exact hb), shl_agree k x y h i hi]

theorem iter_crc24Bit_agree (x y : BitVec 32) (h : Agree 0 x y) : ∀ k, Agree k (iter crc24Bit k x) (iter crc24Bit k y)
  | 0 => h
  | k + 1 => by rw [iter_succ', iter_succ']; exact crc24Bit_agree k _ _ (iter_crc24Bit_agree x y h k)

theorem iter8_crc24Bit_congr (x y : BitVec 32) (h : Agree 0 x y) : iter crc24Bit 8 x = iter crc24Bit 8 y :=
  BitVec.eq_of_getLsbD_eq (fun i hi => iter_crc24Bit_agree x y h 8 i (by omega))


end Cql.Crc
