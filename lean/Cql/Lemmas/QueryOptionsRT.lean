import Cql.Impl.QueryOptions
import Cql.Lemmas.PrimRT
namespace Cql.Impl
open Cql Cql.Prim Cql.Parser Cql.Gen

/-- all eleven flag tests read back exactly the presence test that set them (kernel-decided over 2^11 cases) -/
theorem qflags_has : ∀ (b1 b2 b3 b4 b5 b6 b7 b8 b9 b10 b11 : Bool),
    has (qflags b1 b2 b3 b4 b5 b6 b7 b8 b9 b10 b11) QueryFlagValues = b1 ∧
    has (qflags b1 b2 b3 b4 b5 b6 b7 b8 b9 b10 b11) QueryFlagValueNames = b2 ∧
    has (qflags b1 b2 b3 b4 b5 b6 b7 b8 b9 b10 b11) QueryFlagSkipMetadata = b3 ∧
    has (qflags b1 b2 b3 b4 b5 b6 b7 b8 b9 b10 b11) QueryFlagPageSize = b4 ∧
    has (qflags b1 b2 b3 b4 b5 b6 b7 b8 b9 b10 b11) QueryFlagDsePageSizeBytes = b5 ∧
    has (qflags b1 b2 b3 b4 b5 b6 b7 b8 b9 b10 b11) QueryFlagPagingState = b6 ∧
    has (qflags b1 b2 b3 b4 b5 b6 b7 b8 b9 b10 b11) QueryFlagSerialConsistency = b7 ∧
    has (qflags b1 b2 b3 b4 b5 b6 b7 b8 b9 b10 b11) QueryFlagDefaultTimestamp = b8 ∧
    has (qflags b1 b2 b3 b4 b5 b6 b7 b8 b9 b10 b11) QueryFlagWithKeyspace = b9 ∧
    has (qflags b1 b2 b3 b4 b5 b6 b7 b8 b9 b10 b11) QueryFlagNowInSeconds = b10 ∧
    has (qflags b1 b2 b3 b4 b5 b6 b7 b8 b9 b10 b11) QueryFlagDseWithContinuousPagingOptions = b11 ∧
    qflags b1 b2 b3 b4 b5 b6 b7 b8 b9 b10 b11 < 4294967296 := by decide

theorem qflags_lt256 : ∀ (b1 b2 b3 b4 b6 b7 b8 b9 : Bool), qflags b1 b2 b3 b4 false b6 b7 b8 b9 false false < 256 := by
  decide

/-! ### continuous paging options -/

def canonCPO (version : Nat) (o : ContinuousPagingOptions) : ContinuousPagingOptions :=
  { o with nextPages := if version ≥ ProtocolVersionDse2 then o.nextPages else 0 }

def ValidCPO (o : ContinuousPagingOptions) : Prop :=
  o.maxPages < 4294967296 ∧ o.pagesPerSecond < 4294967296 ∧ o.nextPages < 4294967296

theorem decodeCPO_RT (version : Nat) (o : ContinuousPagingOptions) (hv : ValidCPO o) (b : Bytes)
    (hw : encodeContinuousPagingOptions version o = .ok b) (rest : Bytes) :
    (decodeContinuousPagingOptions version).run (b ++ rest) = .ok (canonCPO version o, rest) := by
  rw [encodeContinuousPagingOptions] at hw
  obtain ⟨_, hg, hw⟩ := Res.bind_ok_inv hw
  have hd := guard_ok_inv hg
  rw [← Res.pure_ok_inv hw, decodeContinuousPagingOptions, hd, bind_ok (guardP_true _ _),
    List.append_assoc, List.append_assoc, bind_ok (readInt_RT _ hv.1 _), bind_ok (readInt_RT _ hv.2.1 _)]
  by_cases h2 : version ≥ ProtocolVersionDse2
  · rw [if_pos h2, decide_eq_true h2, whenP_true, bind_ok (readInt_RT _ hv.2.2 _), canonCPO, if_pos h2]; rfl
  · rw [if_neg h2, decide_eq_false h2, whenP_false, canonCPO, if_neg h2]; rfl

theorem encodeCPO_len (version : Nat) (o : ContinuousPagingOptions) (b : Bytes)
    (hw : encodeContinuousPagingOptions version o = .ok b) :
    lengthOfContinuousPagingOptions version = .ok b.length := by
  rw [encodeContinuousPagingOptions] at hw
  obtain ⟨_, hg, hw⟩ := Res.bind_ok_inv hw
  rw [lengthOfContinuousPagingOptions, hg, ← Res.pure_ok_inv hw, List.length_append, List.length_append,
    writeInt_len, writeInt_len]
  by_cases h2 : version ≥ ProtocolVersionDse2
  · rw [if_pos h2, if_pos h2, writeInt_len]; rfl
  · rw [if_neg h2, if_neg h2]; rfl

/-! ### query options -/

/-- what a round trip may erase: nil-contents values become null; a non-positive page size means "no paging"
    (then `PageSizeInBytes` is irrelevant); `NextPages` does not exist before DSE v2 -/
def canonQO (version : Nat) (o : QueryOptions) : QueryOptions :=
  { o with
    positionalValues := o.positionalValues.map (List.map (Option.map canonValue))
    namedValues := o.namedValues.map (List.map fun p => (p.1, p.2.map canonValue))
    pageSize := if pos32 o.pageSize then o.pageSize else 0
    pageSizeInBytes := pos32 o.pageSize && o.pageSizeInBytes
    continuousPagingOptions := o.continuousPagingOptions.map (canonCPO version) }

/-- version-validity of query options, written from the specs' feature lists (not from the encoder) -/
structure ValidQO (version : Nat) (o : QueryOptions) : Prop where
  consistency : ConsistencyLevel_IsValid o.consistency = true
  notBoth : o.positionalValues.isSome = true → o.namedValues = none
  positional : ∀ l, o.positionalValues = some l → l.length < 65536 ∧ ∀ v ∈ l, validValue version v
  named : ∀ l, o.namedValues = some l → l.length < 65536 ∧ ∀ p ∈ l, p.1.length < 65536 ∧ validValue version p.2
  pageSize : o.pageSize < 4294967296
  pagingState : ∀ c, o.pagingState = some c → c.length < 2147483648
  serial : ∀ c, o.serialConsistency = some c → ConsistencyLevel_IsSerial c = true
  timestamp : ∀ t, o.defaultTimestamp = some t → t < 18446744073709551616
  keyspace : o.keyspace.length < 65536
  now : ∀ n, o.nowInSeconds = some n → n < 4294967296
  cont : ∀ c, o.continuousPagingOptions = some c → ValidCPO c
  -- fields that need 4-byte flags exist only where the flags are 4 bytes wide
  wide : ProtocolVersion_Uses4BytesQueryFlags version = false →
    (pos32 o.pageSize && o.pageSizeInBytes) = false ∧ o.nowInSeconds = none ∧ o.continuousPagingOptions = none

private theorem serial_valid (c : Nat) (h : ConsistencyLevel_IsSerial c = true) :
    ConsistencyLevel_IsValid c = true ∧ c < 65536 := by
  have : ∀ x ∈ ConsistencyLevel_IsSerial_cases, ConsistencyLevel_IsValid x = true ∧ x < 65536 := by decide
  exact this c (by simpa [ConsistencyLevel_IsSerial] using h)

private theorem cl_lt (c : Nat) (h : ConsistencyLevel_IsValid c = true) : c < 65536 := by
  have : ∀ x ∈ ConsistencyLevel_IsValid_cases, x < 65536 := by decide
  exact this c (by simpa [ConsistencyLevel_IsValid] using h)

theorem readQueryFlags_RT (version flags : Nat) (h : flags < 4294967296)
    (h1 : ProtocolVersion_Uses4BytesQueryFlags version = false → flags < 256) (rest : Bytes) :
    (readQueryFlags version).run (writeQueryFlags version flags ++ rest) = .ok (flags, rest) := by
  rw [readQueryFlags, writeQueryFlags]
  cases h4 : ProtocolVersion_Uses4BytesQueryFlags version with
  | true => rw [if_pos rfl, if_pos rfl]; exact readInt_RT _ h _
  | false =>
    rw [if_neg (by decide), if_neg (by decide), Nat.mod_eq_of_lt (h1 h4)]; exact readByte_RT _ (h1 h4) _

theorem writeQueryFlags_len (version flags : Nat) : (writeQueryFlags version flags).length = lengthOfQueryFlags version := by
  rw [writeQueryFlags, lengthOfQueryFlags]
  cases ProtocolVersion_Uses4BytesQueryFlags version with
  | true => rw [if_pos rfl, if_pos rfl, writeInt_len]; rfl
  | false => rw [if_neg (by decide), if_neg (by decide), writeByte_len]; rfl

theorem decodeQueryValues_RT (version : Nat) (o : QueryOptions) (hv : ValidQO version o) (b : Bytes)
    (hw : encodeQueryValues version o o.flags = .ok b) (rest : Bytes) :
    (decodeQueryValues version o.flags).run (b ++ rest) =
      .ok (((canonQO version o).positionalValues, (canonQO version o).namedValues), rest) := by
  have F := qflags_has (o.positionalValues.isSome || o.namedValues.isSome)
    (o.positionalValues.isNone && o.namedValues.isSome)
    o.skipMetadata (pos32 o.pageSize) (pos32 o.pageSize && o.pageSizeInBytes) o.pagingState.isSome
    o.serialConsistency.isSome o.defaultTimestamp.isSome (o.keyspace != []) o.nowInSeconds.isSome
    o.continuousPagingOptions.isSome
  rw [← QueryOptions.flags] at F
  rw [encodeQueryValues, F.1, F.2.1] at hw
  rw [decodeQueryValues, F.1, F.2.1, canonQO]
  cases hp : o.positionalValues with
  | some l =>
    have hn : o.namedValues = none := hv.notBoth (by rw [hp]; rfl)
    rw [hp, hn] at hw
    rw [hn]
    rw [show (((some l : Option (List (Option Value))).isSome || (none : Option (List (Bytes × Option Value))).isSome) = true) from rfl,
      whenW_true] at hw
    rw [show (((some l : Option (List (Option Value))).isNone && (none : Option (List (Bytes × Option Value))).isSome) = false) from rfl,
      if_neg (by decide)] at hw
    rw [show (((some l : Option (List (Option Value))).isSome || (none : Option (List (Bytes × Option Value))).isSome) = true) from rfl,
      if_pos rfl,
      show (((some l : Option (List (Option Value))).isNone && (none : Option (List (Bytes × Option Value))).isSome) = false) from rfl,
      if_neg (by decide), map_run]
    have := readPositionalValues_RT version l (hv.positional l hp).1 (hv.positional l hp).2 b hw rest
    rw [this]; rfl
  | none =>
    cases hn : o.namedValues with
    | some l =>
      rw [hp, hn] at hw
      rw [show (((none : Option (List (Option Value))).isSome || (some l : Option (List (Bytes × Option Value))).isSome) = true) from rfl,
        whenW_true,
        show (((none : Option (List (Option Value))).isNone && (some l : Option (List (Bytes × Option Value))).isSome) = true) from rfl,
        if_pos rfl] at hw
      rw [show (((none : Option (List (Option Value))).isSome || (some l : Option (List (Bytes × Option Value))).isSome) = true) from rfl,
        if_pos rfl,
        show (((none : Option (List (Option Value))).isNone && (some l : Option (List (Bytes × Option Value))).isSome) = true) from rfl,
        if_pos rfl, map_run]
      have := readNamedValues_RT version l (hv.named l hn).1 (hv.named l hn).2 b hw rest
      rw [this]; rfl
    | none =>
      rw [hp, hn] at hw
      rw [show (((none : Option (List (Option Value))).isSome || (none : Option (List (Bytes × Option Value))).isSome) = false) from rfl,
        whenW_false] at hw
      rw [show (((none : Option (List (Option Value))).isSome || (none : Option (List (Bytes × Option Value))).isSome) = false) from rfl,
        if_neg (by decide), ← Res.ok_inj hw]
      rfl

theorem decodeSerial_RT (o : QueryOptions) (c : Nat) (hc : o.serialConsistency = some c) (b : Bytes)
    (hw : encodeSerial o = .ok b) (rest : Bytes) : decodeSerial.run (b ++ rest) = .ok (some c, rest) := by
  rw [encodeSerial, hc] at hw
  simp only [Option.getD_some] at hw
  obtain ⟨_, hg, hw⟩ := Res.bind_ok_inv hw
  have hs : ConsistencyLevel_IsSerial c = true := by
    have := guard_ok_inv hg
    rw [CheckSerialConsistencyLevel] at this
    cases h : ConsistencyLevel_IsSerial c with
    | true => rfl
    | false => rw [h] at this; exact absurd this (by decide)
  have hv := serial_valid c hs
  have hck : CheckValidConsistencyLevel c = true := by rw [CheckValidConsistencyLevel, hv.1]; rfl
  rw [← Res.pure_ok_inv hw, decodeSerial]
  show (readShort >>= _).run (writeShort c ++ rest) = _
  rw [bind_ok (readShort_RT c hv.2 rest), hck, bind_ok (guardP_true _ _)]
  rfl

theorem decodeQO_RT_some (version : Nat) (o : QueryOptions) (hv : ValidQO version o) (b : Bytes)
    (hw : encodeQueryOptions version (some o) = .ok b) (rest : Bytes) :
    (decodeQueryOptions version).run (b ++ rest) = .ok (canonQO version o, rest) := by
  rw [encodeQueryOptions] at hw
  simp only [Option.getD_some] at hw
  obtain ⟨_, hg, hw⟩ := Res.bind_ok_inv hw
  obtain ⟨vals, hvals, hw⟩ := Res.bind_ok_inv hw
  obtain ⟨serial, hserial, hw⟩ := Res.bind_ok_inv hw
  obtain ⟨ks, hks, hw⟩ := Res.bind_ok_inv hw
  obtain ⟨cont, hcont, hw⟩ := Res.bind_ok_inv hw
  have hcl : CheckValidConsistencyLevel o.consistency = true := guard_ok_inv hg
  have F := qflags_has (o.positionalValues.isSome || o.namedValues.isSome)
    (o.positionalValues.isNone && o.namedValues.isSome)
    o.skipMetadata (pos32 o.pageSize) (pos32 o.pageSize && o.pageSizeInBytes) o.pagingState.isSome
    o.serialConsistency.isSome o.defaultTimestamp.isSome (o.keyspace != []) o.nowInSeconds.isSome
    o.continuousPagingOptions.isSome
  rw [← QueryOptions.flags] at F
  obtain ⟨f1, f2, f3, f4, f5, f6, f7, f8, f9, f10, f11, flt⟩ := F
  have hlt : ProtocolVersion_Uses4BytesQueryFlags version = false → o.flags < 256 := by
    intro h4
    obtain ⟨w1, w2, w3⟩ := hv.wide h4
    rw [QueryOptions.flags, w1, w2, w3]; exact qflags_lt256 _ _ _ _ _ _ _ _
  rw [← Res.pure_ok_inv hw]
  simp only [List.append_assoc]
  rw [decodeQueryOptions, bind_ok (readShort_RT _ (cl_lt _ hv.consistency) _), hcl, bind_ok (guardP_true _ _),
    bind_ok (readQueryFlags_RT version o.flags flt hlt _),
    bind_ok (decodeQueryValues_RT version o hv vals hvals _)]
  -- page size
  rw [bind_ok (whenP_optB_RT (has o.flags QueryFlagPageSize) readInt 0 (canonQO version o).pageSize _ _
    (fun _ => by rw [canonQO]; simp only []; rw [← f4]; rw [if_pos ‹_›]; exact readInt_RT _ hv.pageSize _)
    (fun h => by rw [canonQO]; simp only []; rw [f4] at h; rw [h]; rfl))]
  -- paging state
  rw [bind_ok (whenP_optB_RT (has o.flags QueryFlagPagingState) readBytes none o.pagingState _ _
    (fun _ => readBytes_RT _ hv.pagingState _)
    (fun h => by rw [f6] at h; cases hp : o.pagingState with
      | none => rfl
      | some x => rw [hp] at h; cases h))]
  -- serial consistency
  rw [bind_ok (whenP_whenW_RT (has o.flags QueryFlagSerialConsistency) decodeSerial none o.serialConsistency _ serial hserial _
    (fun h b' hb' => by
      rw [f7] at h
      cases hs : o.serialConsistency with
      | none => rw [hs] at h; cases h
      | some c => exact decodeSerial_RT o c hs b' hb' _)
    (fun h => by rw [f7] at h; cases hs : o.serialConsistency with
      | none => rfl
      | some x => rw [hs] at h; cases h))]
  -- default timestamp
  rw [bind_ok (whenP_optB_RT (has o.flags QueryFlagDefaultTimestamp) (some <$> readLong) none o.defaultTimestamp _ _
    (fun h => by
      rw [f8] at h
      cases ht : o.defaultTimestamp with
      | none => rw [ht] at h; cases h
      | some t => rw [map_run, Option.getD_some, readLong_RT t (hv.timestamp t ht) _])
    (fun h => by rw [f8] at h; cases ht : o.defaultTimestamp with
      | none => rfl
      | some x => rw [ht] at h; cases h))]
  -- keyspace
  rw [bind_ok (whenP_whenW_RT (has o.flags QueryFlagWithKeyspace) readString [] o.keyspace _ ks hks _
    (fun _ b' hb' => by
      rw [encodeKeyspace] at hb'
      obtain ⟨_, _, hb'⟩ := Res.bind_ok_inv hb'
      rw [← Res.pure_ok_inv hb']; exact readString_RT _ hv.keyspace _)
    (fun h => by
      rw [f9] at h
      cases hk : o.keyspace with
      | nil => rfl
      | cons x xs => rw [hk] at h; cases h))]
  -- now in seconds
  rw [bind_ok (whenP_optB_RT (has o.flags QueryFlagNowInSeconds) (some <$> readInt) none o.nowInSeconds _ _
    (fun h => by
      rw [f10] at h
      cases ht : o.nowInSeconds with
      | none => rw [ht] at h; cases h
      | some t => rw [map_run, Option.getD_some, readInt_RT t (hv.now t ht) _])
    (fun h => by rw [f10] at h; cases ht : o.nowInSeconds with
      | none => rfl
      | some x => rw [ht] at h; cases h))]
  -- continuous paging
  rw [bind_ok (whenP_whenW_RT (has o.flags QueryFlagDseWithContinuousPagingOptions)
    (some <$> decodeContinuousPagingOptions version) none (o.continuousPagingOptions.map (canonCPO version)) _ cont hcont _
    (fun h b' hb' => by
      rw [f11] at h
      cases hc : o.continuousPagingOptions with
      | none => rw [hc] at h; cases h
      | some c =>
        rw [hc, Option.getD_some] at hb'
        rw [map_run, decodeCPO_RT version c (hv.cont c hc) b' hb' _]; rfl)
    (fun h => by rw [f11] at h; cases hc : o.continuousPagingOptions with
      | none => rfl
      | some x => rw [hc] at h; cases h))]
  rw [f3, f4, f5]
  have hb : (pos32 o.pageSize && (pos32 o.pageSize && o.pageSizeInBytes)) = (pos32 o.pageSize && o.pageSizeInBytes) := by
    cases pos32 o.pageSize <;> rfl
  rw [hb]
  rfl

end Cql.Impl
