import Cql.Spec.Requests
import Cql.Lemmas.SpecPrim
import Cql.Lemmas.SpecFrame
import Cql.Lemmas.MessageRT
/-!
# C02, request messages: the code-shaped encoders refine the specification (`Cql/Spec/Requests.lean`)

One theorem per request: the bytes `Impl.encodeX` produces for a version-valid message are exactly `Spec.x`.
With the round-trip theorems (`decodeX_RT`) this also gives: specification-formatted bytes decode to the message they
denote (`decodeX_spec`).

Every hypothesis beyond the existing `Valid*` predicates is marked `-- SUSPECT:`.
-/
namespace Cql.SpecRequests
open Cql Cql.Prim Cql.Parser Cql.Gen Cql.Impl Cql.SpecFrame

/-! ## the documents' constants are the code's constants -/

theorem qfValues_eq : Spec.qfValues = QueryFlagValues := rfl
theorem qfSkipMetadata_eq : Spec.qfSkipMetadata = QueryFlagSkipMetadata := rfl
theorem qfPageSize_eq : Spec.qfPageSize = QueryFlagPageSize := rfl
theorem qfPagingState_eq : Spec.qfPagingState = QueryFlagPagingState := rfl
theorem qfSerialConsistency_eq : Spec.qfSerialConsistency = QueryFlagSerialConsistency := rfl
theorem qfDefaultTimestamp_eq : Spec.qfDefaultTimestamp = QueryFlagDefaultTimestamp := rfl
theorem qfNamesForValues_eq : Spec.qfNamesForValues = QueryFlagValueNames := rfl
theorem qfKeyspace_eq : Spec.qfKeyspace = QueryFlagWithKeyspace := rfl
theorem qfNowInSeconds_eq : Spec.qfNowInSeconds = QueryFlagNowInSeconds := rfl
theorem qfPageSizeBytes_eq : Spec.qfPageSizeBytes = QueryFlagDsePageSizeBytes := rfl
theorem qfContinuousPaging_eq : Spec.qfContinuousPaging = QueryFlagDseWithContinuousPagingOptions := rfl
theorem pfKeyspace_eq : Spec.pfKeyspace = PrepareFlagWithKeyspace := rfl
theorem reviseCancel_eq : Spec.reviseCancel = DseRevisionTypeCancelContinuousPaging := rfl
theorem reviseMorePages_eq : Spec.reviseMorePages = DseRevisionTypeMoreContinuousPages := rfl
theorem batchKinds_eq : BatchChildTypeQueryString = 0 ∧ BatchChildTypePreparedId = 1 := ⟨rfl, rfl⟩
theorem batchTypes_eq : BatchType_IsValid_cases = [0, 1, 2] := rfl

/-- the code's per-version feature predicates are the documents' feature table, on every documented version -/
theorem features : ∀ v ∈ Spec.knownVersions,
    ProtocolVersion_Uses4BytesQueryFlags v = Spec.flagsAreInt v ∧
    ProtocolVersion_SupportsPrepareFlags v = Spec.hasPrepareFlags v ∧
    ProtocolVersion_SupportsResultMetadataId v = Spec.hasResultMetadataId v ∧
    ProtocolVersion_SupportsBatchQueryFlags v = Spec.hasBatchFlags v ∧
    ProtocolVersion_SupportsQueryFlag v QueryFlagWithKeyspace = Spec.hasKeyspace v ∧
    ProtocolVersion_SupportsQueryFlag v QueryFlagNowInSeconds = Spec.hasNowInSeconds v ∧
    ProtocolVersion_SupportsQueryFlag v QueryFlagDefaultTimestamp = Spec.hasTimestampAndNames v ∧
    ProtocolVersion_SupportsQueryFlag v QueryFlagValueNames = Spec.hasTimestampAndNames v ∧
    ProtocolVersion_SupportsQueryFlag v QueryFlagSerialConsistency = true ∧
    ProtocolVersion_SupportsQueryFlag v QueryFlagDsePageSizeBytes = Spec.isDse v ∧
    ProtocolVersion_SupportsQueryFlag v QueryFlagDseWithContinuousPagingOptions = Spec.isDse v ∧
    ProtocolVersion_SupportsUnsetValues v = Spec.hasValueNotation v ∧
    ProtocolVersion_IsDse v = Spec.isDse v ∧
    decide (v ≥ ProtocolVersionDse2) = Spec.hasNextPages v ∧
    ProtocolVersion_SupportsDseRevisionType v DseRevisionTypeMoreContinuousPages = Spec.hasNextPages v := by decide

theorem supported_known (v : Nat) (h : ProtocolVersion_IsSupported v = true) : v ∈ Spec.knownVersions := by
  have : ∀ x ∈ SupportedProtocolVersions, x ∈ Spec.knownVersions := by decide
  exact this v (by simpa [ProtocolVersion_IsSupported] using h)

/-! ## helpers -/

/-- an optional element gated by a version feature that the message respects -/
theorem gate_and (g b : Bool) (h : b = true → g = true) : (g && b) = b := by
  cases b with
  | false => cases g <;> rfl
  | true => rw [h rfl]; rfl

theorem writeAll_spec {α} (w : α → Res Bytes) (f : α → Bytes) :
    ∀ (l : List α), (∀ x ∈ l, ∀ b, w x = .ok b → b = f x) → ∀ body, writeAll w l = .ok body →
      body = (l.map f).flatten
  | [], _, body, hw => by rw [writeAll] at hw; rw [← Res.ok_inj hw]; rfl
  | x :: xs, h, body, hw => by
    rw [writeAll] at hw
    obtain ⟨a, ha, hw⟩ := Res.bind_ok_inv hw
    obtain ⟨b, hb, hw⟩ := Res.bind_ok_inv hw
    rw [← Res.pure_ok_inv hw, h x (List.mem_cons_self ..) a ha,
      writeAll_spec w f xs (fun y hy => h y (List.mem_cons_of_mem _ hy)) b hb]
    rfl

/-! ## bound values -/

theorem writeValue_spec (version : Nat) (hver : version ∈ Spec.knownVersions) (v : Option Value) (b : Bytes)
    (hw : writeValue version v = .ok b) : b = Spec.boundValue version (Spec.valOf v) := by
  have hf := (features version hver).2.2.2.2.2.2.2.2.2.2.2.1
  rw [Spec.boundValue]
  cases v with
  | none => rw [writeValue] at hw; cases hw
  | some v =>
    cases v with
    | null =>
      rw [writeValue] at hw
      rw [← Res.ok_inj hw, SpecPrim.int_eq, ← SpecPrim.neg_one]
      cases Spec.hasValueNotation version <;> rfl
    | unset =>
      rw [writeValue, hf] at hw
      cases hn : Spec.hasValueNotation version with
      | false => rw [hn] at hw; cases hw
      | true =>
        rw [hn, if_pos rfl] at hw
        rw [← Res.ok_inj hw, SpecPrim.int_eq, ← SpecPrim.neg_two]; rfl
    | other t => rw [writeValue] at hw; cases hw
    | regular c =>
      cases c with
      | none =>
        rw [writeValue] at hw
        rw [← Res.ok_inj hw, SpecPrim.int_eq, ← SpecPrim.neg_one]
        cases Spec.hasValueNotation version <;> rfl
      | some c =>
        rw [writeValue] at hw
        rw [← Res.ok_inj hw, SpecPrim.int_eq, SpecPrim.uint_mod]
        cases Spec.hasValueNotation version <;> rfl

theorem writePositionalValues_spec (version : Nat) (hver : version ∈ Spec.knownVersions) (vs : List (Option Value))
    (b : Bytes) (hw : writePositionalValues version vs = .ok b) : b = Spec.positionalValues version vs := by
  rw [writePositionalValues] at hw
  obtain ⟨body, hb, hw⟩ := Res.bind_ok_inv hw
  rw [← Res.pure_ok_inv hw, SpecPrim.short_eq, SpecPrim.short_mod,
    writeAll_spec _ (fun v => Spec.boundValue version (Spec.valOf v)) vs
      (fun x _ bx hbx => writeValue_spec version hver x bx hbx) body hb]
  rfl

theorem writeNamedValues_spec (version : Nat) (hver : version ∈ Spec.knownVersions) (vs : List (Bytes × Option Value))
    (b : Bytes) (hw : writeNamedValues version vs = .ok b) : b = Spec.namedValues version vs := by
  rw [writeNamedValues] at hw
  obtain ⟨body, hb, hw⟩ := Res.bind_ok_inv hw
  rw [← Res.pure_ok_inv hw, SpecPrim.short_eq, SpecPrim.short_mod,
    writeAll_spec _ (fun p => Spec.string p.1 ++ Spec.boundValue version (Spec.valOf p.2)) vs
      (fun x _ bx hbx => by
        rw [writeNamedValue] at hbx
        obtain ⟨vb, hvb, hbx⟩ := Res.bind_ok_inv hbx
        rw [← Res.pure_ok_inv hbx, SpecPrim.string_eq, writeValue_spec version hver x.2 vb hvb]) body hb]
  rfl

/-! ## STARTUP, AUTH_RESPONSE, OPTIONS, REGISTER -/

theorem encodeStartup_spec (version : Nat) (options : Option (List (Bytes × Bytes)))
    (_hv : ValidStartup version options) (b : Bytes) (hw : encodeStartup version options = .ok b) :
    b = Spec.startup version options := by
  rw [encodeStartup] at hw
  rw [← Res.ok_inj hw, stringMap_eq]; rfl

theorem encodeAuthResponse_spec (version : Nat) (token : Option Bytes) (_hv : ValidAuthResponse version token)
    (b : Bytes) (hw : encodeAuthResponse version token = .ok b) : b = Spec.authResponse version token := by
  rw [encodeAuthResponse] at hw
  rw [← Res.ok_inj hw, SpecPrim.bytes_eq]; rfl

theorem encodeOptions_spec (version : Nat) (_hv : ValidOptions version) (b : Bytes)
    (hw : encodeOptions version = .ok b) : b = Spec.options version := by
  rw [encodeOptions] at hw
  rw [← Res.ok_inj hw]; rfl

theorem encodeRegister_spec (version : Nat) (eventTypes : Option (List Bytes))
    (_hv : ValidRegister version eventTypes) (b : Bytes) (hw : encodeRegister version eventTypes = .ok b) :
    b = Spec.register version eventTypes := by
  rw [encodeRegister] at hw
  obtain ⟨_, _, hw⟩ := Res.bind_ok_inv hw
  obtain ⟨_, _, hw⟩ := Res.bind_ok_inv hw
  rw [← Res.pure_ok_inv hw, SpecPrim.stringList_eq]; rfl

/-! ## PREPARE -/

private theorem prepare_flags (ks : Bytes) :
    PrepareFlag_Contains (Prepare.flags ⟨[], ks⟩) PrepareFlagWithKeyspace = (ks != []) ∧
    Prepare.flags ⟨[], ks⟩ = Spec.flagBits [(ks != [], Spec.pfKeyspace)] := by
  cases ks with
  | nil => decide
  | cons x xs =>
    have h1 : Prepare.flags ⟨[], x :: xs⟩ = PrepareFlag_Add 0 PrepareFlagWithKeyspace := rfl
    have h2 : ((x :: xs : Bytes) != []) = true := rfl
    rw [h1, h2]; exact ⟨by decide, by decide⟩

theorem encodePrepare_spec (version : Nat) (hver : version ∈ Spec.knownVersions) (p : Prepare)
    (_hv : ValidPrepare version p) (b : Bytes) (hw : encodePrepare version p = .ok b) :
    b = Spec.prepare version p.query p.keyspace := by
  have hf := (features version hver).2.1
  rw [encodePrepare] at hw
  obtain ⟨_, _, hw⟩ := Res.bind_ok_inv hw
  obtain ⟨tail, htail, hw⟩ := Res.bind_ok_inv hw
  have hp := prepare_flags p.keyspace
  have hfl : p.flags = Prepare.flags ⟨[], p.keyspace⟩ := rfl
  rw [← hfl] at hp
  rw [← Res.pure_ok_inv hw, SpecPrim.longString_eq, Spec.prepare]
  congr 1
  exact whenW_opt _ _ _ _ tail htail hf (fun _ b' hb' => by
    obtain ⟨ks, hks, hb'⟩ := Res.bind_ok_inv hb'
    rw [← Res.pure_ok_inv hb', SpecPrim.int_eq, hp.2]
    congr 1
    exact whenW_opt _ _ _ _ ks hks hp.1 (fun _ b'' hb'' => by
      obtain ⟨_, _, hb''⟩ := Res.bind_ok_inv hb''
      rw [← Res.pure_ok_inv hb'', SpecPrim.string_eq]))

/-! ## REVISE_REQUEST -/

theorem encodeRevise_spec (version t sid next : Nat) (hv : ValidRevise version t sid next) (b : Bytes)
    (hw : encodeRevise version t sid next = .ok b) : b = Spec.revise version t sid next := by
  have hver : version ∈ Spec.knownVersions := by
    have : ∀ v ∈ ProtocolVersion_IsDse_cases, v ∈ Spec.knownVersions := by decide
    exact this version (by simpa [ProtocolVersion_IsDse] using hv.dse)
  have hf := (features version hver).2.2.2.2.2.2.2.2.2.2.2.2.2.2
  rw [encodeRevise] at hw
  obtain ⟨_, _, hw⟩ := Res.bind_ok_inv hw
  obtain ⟨_, _, hw⟩ := Res.bind_ok_inv hw
  rw [← Res.pure_ok_inv hw, SpecPrim.int_eq, SpecPrim.int_eq, SpecPrim.int_eq, Spec.revise, optB_opt]
  congr 2
  cases ht : (t == DseRevisionTypeMoreContinuousPages) with
  | false =>
    show false = (Spec.hasNextPages version && (t == DseRevisionTypeMoreContinuousPages))
    rw [ht]; exact (Bool.and_false _).symm
  | true =>
    have : t = DseRevisionTypeMoreContinuousPages := by simpa using ht
    have htv := hv.typeVersion
    rw [this, hf] at htv
    show true = (Spec.hasNextPages version && (t == Spec.reviseMorePages))
    rw [htv, this]; rfl

/-! ## `<query_parameters>` -/

/-- the OR-accumulated bits of `QueryOptions.Flags()` are the sum of the documents' masks (kernel-decided, 2^11 cases) -/
theorem qflags_flagBits : ∀ (b1 b2 b3 b4 b5 b6 b7 b8 b9 b10 b11 : Bool),
    qflags b1 b2 b3 b4 b5 b6 b7 b8 b9 b10 b11 =
      Spec.flagBits [(b1, Spec.qfValues), (b3, Spec.qfSkipMetadata), (b4, Spec.qfPageSize), (b6, Spec.qfPagingState),
        (b7, Spec.qfSerialConsistency), (b8, Spec.qfDefaultTimestamp), (b2, Spec.qfNamesForValues),
        (b9, Spec.qfKeyspace), (b10, Spec.qfNowInSeconds), (b5, Spec.qfPageSizeBytes),
        (b11, Spec.qfContinuousPaging)] := by decide

private theorem byte_mod (n : Nat) : Spec.byte (n % 256) = Spec.byte n := by
  simp [Spec.byte, Spec.byteAt]

theorem writeQueryFlags_spec (version : Nat) (hver : version ∈ Spec.knownVersions) (flags : Nat) :
    writeQueryFlags version flags = Spec.flagsField version flags := by
  rw [writeQueryFlags, Spec.flagsField, (features version hver).1]
  cases Spec.flagsAreInt version with
  | true => rw [if_pos rfl, if_pos rfl, SpecPrim.int_eq]
  | false => rw [if_neg (by decide), if_neg (by decide), SpecPrim.byte_eq, byte_mod]

/-- for a valid message that uses only elements of its version, the documents' presence tests are the Go presence
    tests of `QueryOptions.Flags()` -/
theorem qp_gates (version : Nat) (o : QueryOptions) (hv : ValidQO version o)
    (hd : Spec.QueryFieldsDefined version o) :
    Spec.qpValues o = (o.positionalValues.isSome || o.namedValues.isSome) ∧
    Spec.qpNames version o = (o.positionalValues.isNone && o.namedValues.isSome) ∧
    Spec.qpPageSize o = pos32 o.pageSize ∧
    Spec.qpTimestamp version o = o.defaultTimestamp.isSome ∧
    Spec.qpKeyspace version o = (o.keyspace != []) ∧
    Spec.qpNow version o = o.nowInSeconds.isSome ∧
    Spec.qpPageSizeBytes version o = (pos32 o.pageSize && o.pageSizeInBytes) ∧
    Spec.qpContinuous version o = o.continuousPagingOptions.isSome := by
  refine ⟨rfl, ?_, rfl, gate_and _ _ hd.timestamp, gate_and _ _ hd.keyspace, gate_and _ _ hd.now,
    gate_and _ _ hd.pageSizeBytes, gate_and _ _ hd.continuous⟩
  rw [Spec.qpNames, gate_and _ _ hd.names]
  cases hp : o.positionalValues with
  | none => rfl
  | some l => rw [hv.notBoth (by rw [hp]; rfl)]; rfl

theorem queryFlags_eq (version : Nat) (o : QueryOptions) (hv : ValidQO version o)
    (hd : Spec.QueryFieldsDefined version o) : o.flags = Spec.queryFlags version o := by
  obtain ⟨g1, g2, g3, g4, g5, g6, g7, g8⟩ := qp_gates version o hv hd
  rw [QueryOptions.flags, qflags_flagBits, Spec.queryFlags, g1, g2, g3, g4, g5, g6, g7, g8]

theorem encodeCPO_spec (version : Nat) (hver : version ∈ Spec.knownVersions) (c : ContinuousPagingOptions) (b : Bytes)
    (hw : encodeContinuousPagingOptions version c = .ok b) : b = Spec.continuousPagingOptions version c := by
  have hf := (features version hver).2.2.2.2.2.2.2.2.2.2.2.2.2.1
  rw [encodeContinuousPagingOptions] at hw
  obtain ⟨_, _, hw⟩ := Res.bind_ok_inv hw
  rw [← Res.pure_ok_inv hw, SpecPrim.int_eq, SpecPrim.int_eq, Spec.continuousPagingOptions, ← hf]
  congr 1
  by_cases h2 : version ≥ ProtocolVersionDse2
  · rw [if_pos h2, decide_eq_true h2, SpecPrim.int_eq]; rfl
  · rw [if_neg h2, decide_eq_false h2]; rfl

theorem encodeQueryValues_spec (version : Nat) (hver : version ∈ Spec.knownVersions) (o : QueryOptions)
    (hv : ValidQO version o) (hd : Spec.QueryFieldsDefined version o) (b : Bytes)
    (hw : encodeQueryValues version o o.flags = .ok b) :
    b = Spec.opt (Spec.qpValues o) (Spec.qpValuesField version o) := by
  have F := qflags_has (o.positionalValues.isSome || o.namedValues.isSome)
    (o.positionalValues.isNone && o.namedValues.isSome)
    o.skipMetadata (pos32 o.pageSize) (pos32 o.pageSize && o.pageSizeInBytes) o.pagingState.isSome
    o.serialConsistency.isSome o.defaultTimestamp.isSome (o.keyspace != []) o.nowInSeconds.isSome
    o.continuousPagingOptions.isSome
  rw [← QueryOptions.flags] at F
  obtain ⟨g1, g2, _⟩ := qp_gates version o hv hd
  rw [encodeQueryValues, F.1, F.2.1] at hw
  refine whenW_opt _ _ _ _ b hw g1.symm (fun _ b' hb' => ?_)
  rw [Spec.qpValuesField, g2]
  cases hn : (o.positionalValues.isNone && o.namedValues.isSome) with
  | true =>
    rw [hn, if_pos rfl] at hb'
    rw [if_pos rfl]; exact writeNamedValues_spec version hver _ b' hb'
  | false =>
    rw [hn, if_neg (by decide)] at hb'
    rw [if_neg (by decide)]; exact writePositionalValues_spec version hver _ b' hb'

/-- **`<query_parameters>` refinement** (non-nil options) -/
theorem encodeQO_spec_some (version : Nat) (hver : version ∈ Spec.knownVersions) (o : QueryOptions)
    (hv : ValidQO version o)
    -- SUSPECT: `ValidQO` does not say that elements a version does not define are unset, and `EncodeQueryOptions` writes
    -- them (flag bit and field) whatever the version — see the report.
    (hd : Spec.QueryFieldsDefined version o)
    (b : Bytes) (hw : encodeQueryOptions version (some o) = .ok b) : b = Spec.queryParameters version o := by
  rw [encodeQueryOptions] at hw
  simp only [Option.getD_some] at hw
  obtain ⟨_, _, hw⟩ := Res.bind_ok_inv hw
  obtain ⟨vals, hvals, hw⟩ := Res.bind_ok_inv hw
  obtain ⟨serial, hserial, hw⟩ := Res.bind_ok_inv hw
  obtain ⟨ks, hks, hw⟩ := Res.bind_ok_inv hw
  obtain ⟨cont, hcont, hw⟩ := Res.bind_ok_inv hw
  have F := qflags_has (o.positionalValues.isSome || o.namedValues.isSome)
    (o.positionalValues.isNone && o.namedValues.isSome)
    o.skipMetadata (pos32 o.pageSize) (pos32 o.pageSize && o.pageSizeInBytes) o.pagingState.isSome
    o.serialConsistency.isSome o.defaultTimestamp.isSome (o.keyspace != []) o.nowInSeconds.isSome
    o.continuousPagingOptions.isSome
  rw [← QueryOptions.flags] at F
  obtain ⟨_, _, _, f4, _, f6, f7, f8, f9, f10, f11, _⟩ := F
  obtain ⟨_, _, g3, g4, g5, g6, _, g8⟩ := qp_gates version o hv hd
  have e1 := encodeQueryValues_spec version hver o hv hd vals hvals
  have e2 := whenW_opt _ o.serialConsistency.isSome _ (Spec.consistency (o.serialConsistency.getD 0)) serial hserial f7
    (fun _ b' hb' => by
      rw [encodeSerial] at hb'
      obtain ⟨_, _, hb'⟩ := Res.bind_ok_inv hb'
      rw [← Res.pure_ok_inv hb', SpecPrim.short_eq]; rfl)
  have e3 := whenW_opt _ (Spec.qpKeyspace version o) _ (Spec.string o.keyspace) ks hks (by rw [f9, g5])
    (fun _ b' hb' => by
      rw [encodeKeyspace] at hb'
      obtain ⟨_, _, hb'⟩ := Res.bind_ok_inv hb'
      rw [← Res.pure_ok_inv hb', SpecPrim.string_eq])
  have e4 := whenW_opt _ (Spec.qpContinuous version o) _
    (Spec.continuousPagingOptions version (o.continuousPagingOptions.getD ⟨0, 0, 0⟩)) cont hcont (by rw [f11, g8])
    (fun _ b' hb' => encodeCPO_spec version hver _ b' hb')
  rw [← Res.pure_ok_inv hw, e1, e2, e3, e4, f4, f6, f8, f10, SpecPrim.short_eq, writeQueryFlags_spec version hver,
    queryFlags_eq version o hv hd, SpecPrim.int_eq, SpecPrim.bytes_eq, SpecPrim.long_eq, SpecPrim.int_eq,
    Spec.queryParameters, g3, g4, g6]
  rfl

theorem fieldsDefined_default (version : Nat) : Spec.QueryFieldsDefined version QueryOptions.default where
  timestamp := fun h => by cases h
  names := fun h => by cases h
  keyspace := fun h => by cases h
  now := fun h => by cases h
  pageSizeBytes := fun h => by cases h
  continuous := fun h => by cases h

/-- **`<query_parameters>` refinement**: `Options == nil` stands for the zero options -/
theorem encodeQO_spec (version : Nat) (hver : version ∈ Spec.knownVersions) (o? : Option QueryOptions)
    (hv : ValidQO? version o?)
    (hd : ∀ o, o? = some o → Spec.QueryFieldsDefined version o)   -- SUSPECT: see `encodeQO_spec_some`
    (b : Bytes) (hw : encodeQueryOptions version o? = .ok b) :
    b = Spec.queryParameters version (o?.getD QueryOptions.default) := by
  cases o? with
  | some o => exact encodeQO_spec_some version hver o (hv o rfl) (hd o rfl) b hw
  | none =>
    have he : encodeQueryOptions version none = encodeQueryOptions version (some QueryOptions.default) := rfl
    rw [he] at hw
    exact encodeQO_spec_some version hver QueryOptions.default (validQO_default version)
      (fieldsDefined_default version) b hw

/-- elements of `<query_parameters>` that the message's version does not define are unset -/
def OptsFieldsDefined (version : Nat) (opts : Option QueryOptions) : Prop :=
  ∀ o, opts = some o → Spec.QueryFieldsDefined version o

/-! ## QUERY -/

theorem encodeQuery_spec (version : Nat) (hver : version ∈ Spec.knownVersions) (q : Bytes) (opts : Option QueryOptions)
    (hv : ValidQuery version q opts)
    (hd : OptsFieldsDefined version opts)   -- SUSPECT: see `encodeQO_spec_some`
    (b : Bytes) (hw : encodeQuery version q opts = .ok b) : b = Spec.query version q opts := by
  rw [encodeQuery] at hw
  obtain ⟨o, ho, hw⟩ := Res.bind_ok_inv hw
  rw [← Res.pure_ok_inv hw, SpecPrim.longString_eq, encodeQO_spec version hver opts hv.optsValid hd o ho, Spec.query]

/-! ## EXECUTE -/

theorem encodeExecuteId_spec (id : Option Bytes) (msg : String) (b : Bytes) (hw : encodeExecuteId id msg = .ok b) :
    b = Spec.shortBytes (id.getD []) := by
  rw [encodeExecuteId] at hw
  obtain ⟨_, _, hw⟩ := Res.bind_ok_inv hw
  rw [← Res.pure_ok_inv hw, SpecPrim.shortBytes_eq]

theorem encodeExecute_spec (version : Nat) (hver : version ∈ Spec.knownVersions) (qid rid : Option Bytes)
    (opts : Option QueryOptions) (hv : ValidExecute version qid rid opts)
    (hd : OptsFieldsDefined version opts)   -- SUSPECT: see `encodeQO_spec_some`
    (b : Bytes) (hw : encodeExecute version qid rid opts = .ok b) : b = Spec.execute version qid rid opts := by
  rw [encodeExecute] at hw
  obtain ⟨q, hq, hw⟩ := Res.bind_ok_inv hw
  obtain ⟨r, hr, hw⟩ := Res.bind_ok_inv hw
  obtain ⟨o, ho, hw⟩ := Res.bind_ok_inv hw
  have e2 := whenW_opt _ (Spec.hasResultMetadataId version) _ (Spec.shortBytes (rid.getD [])) r hr
    (features version hver).2.2.1 (fun _ b' hb' => encodeExecuteId_spec rid _ b' hb')
  rw [← Res.pure_ok_inv hw, encodeExecuteId_spec qid _ q hq, e2, encodeQO_spec version hver opts hv.optsValid hd o ho,
    Spec.execute]

/-! ## BATCH -/

theorem bflags_flagBits : ∀ (b1 b2 b3 b4 : Bool),
    bflags b1 b2 b3 b4 = Spec.flagBits [(b1, Spec.qfSerialConsistency), (b2, Spec.qfDefaultTimestamp),
      (b3, Spec.qfKeyspace), (b4, Spec.qfNowInSeconds)] := by decide

theorem encodeBatchChild_spec (version : Nat) (hver : version ∈ Spec.knownVersions) (c : BatchChild)
    (hv : ValidBatchChild version c) (b : Bytes) (hw : encodeBatchChild version c = .ok b) :
    b = Spec.batchChild version c := by
  rw [encodeBatchChild] at hw
  obtain ⟨head, hhead, hw⟩ := Res.bind_ok_inv hw
  obtain ⟨vals, hvals, hw⟩ := Res.bind_ok_inv hw
  rw [← Res.pure_ok_inv hw, writePositionalValues_spec version hver _ vals hvals, Spec.batchChild]
  congr 1
  rw [encodeBatchChildHead] at hhead
  rcases hv.oneOf with ⟨hq, hid⟩ | ⟨hq, hid⟩
  · have h1 : (c.query != []) = true := by simpa using hq
    have h2 : (c.id.getD [] != []) = false := by rw [hid]; rfl
    rw [h1, if_pos rfl] at hhead
    rw [h2, if_neg (by decide), ← Res.ok_inj hhead, SpecPrim.byte_eq, SpecPrim.longString_eq]; rfl
  · have h1 : (c.query != []) = false := by rw [hq]; rfl
    have h2 : (c.id.getD [] != []) = true := by simpa using hid
    rw [h1, if_neg (by decide)] at hhead
    obtain ⟨_, _, hhead⟩ := Res.bind_ok_inv hhead
    rw [h2, if_pos rfl, ← Res.pure_ok_inv hhead, SpecPrim.byte_eq, SpecPrim.shortBytes_eq]; rfl

theorem encodeBatchTail_spec (version : Nat) (hver : version ∈ Spec.knownVersions) (b : Batch)
    (hv : ValidBatch version b) (hs : ProtocolVersion_SupportsBatchQueryFlags version = true) (bs : Bytes)
    (hw : encodeBatchTail version b = .ok bs) :
    bs = Spec.flagsField version (Spec.batchFlags version b) ++
      Spec.opt b.serialConsistency.isSome (Spec.consistency (b.serialConsistency.getD 0)) ++
      Spec.opt b.defaultTimestamp.isSome (Spec.ulong (b.defaultTimestamp.getD 0)) ++
      Spec.opt (Spec.batchKeyspace version b) (Spec.string b.keyspace) ++
      Spec.opt (Spec.batchNow version b) (Spec.uint (b.nowInSeconds.getD 0)) := by
  have F := bflags_has b.serialConsistency.isSome b.defaultTimestamp.isSome (b.keyspace != []) b.nowInSeconds.isSome
  rw [← Batch.flags] at F
  obtain ⟨f1, f2, f3, f4, _, _⟩ := F
  have T := features version hver
  have k1 : bhas version b.flags QueryFlagSerialConsistency = b.serialConsistency.isSome := by
    rw [bhas, batchFlags_serial version hs, f1]; rfl
  have k2 : bhas version b.flags QueryFlagDefaultTimestamp = b.defaultTimestamp.isSome := by
    rw [bhas, batchFlags_timestamp version hs, f2]; rfl
  have k3 : bhas version b.flags QueryFlagWithKeyspace = Spec.batchKeyspace version b := by
    rw [bhas, T.2.2.2.2.1, f3]; rfl
  have k4 : bhas version b.flags QueryFlagNowInSeconds = Spec.batchNow version b := by
    rw [bhas, T.2.2.2.2.2.1, f4]; rfl
  have g3 : Spec.batchKeyspace version b = (b.keyspace != []) := gate_and _ _ (fun h => by
    rw [← T.2.2.2.2.1]; exact hv.keyspaceVersion (by simpa using h))
  have g4 : Spec.batchNow version b = b.nowInSeconds.isSome := gate_and _ _ (fun h => by
    rw [← T.2.2.2.2.2.1]; exact hv.nowVersion (by
      intro hn; rw [hn] at h; cases h))
  have hfl : b.flags = Spec.batchFlags version b := by
    rw [Batch.flags, bflags_flagBits, Spec.batchFlags, g3, g4]
  rw [encodeBatchTail] at hw
  obtain ⟨ks, hks, hw⟩ := Res.bind_ok_inv hw
  have e3 := whenW_opt _ (Spec.batchKeyspace version b) _ (Spec.string b.keyspace) ks hks k3
    (fun _ b' hb' => by
      rw [encodeKeyspace] at hb'
      obtain ⟨_, _, hb'⟩ := Res.bind_ok_inv hb'
      rw [← Res.pure_ok_inv hb', SpecPrim.string_eq])
  rw [← Res.pure_ok_inv hw, e3, k1, k2, k4, writeQueryFlags_spec version hver, hfl, SpecPrim.short_eq,
    SpecPrim.long_eq, SpecPrim.int_eq]
  rfl

theorem encodeBatch_spec (version : Nat) (hver : version ∈ Spec.knownVersions) (b : Batch)
    (hv : ValidBatch version b) (bs : Bytes) (hw : encodeBatch version b = .ok bs) : bs = Spec.batch version b := by
  rw [encodeBatch] at hw
  obtain ⟨_, _, hw⟩ := Res.bind_ok_inv hw
  obtain ⟨_, _, hw⟩ := Res.bind_ok_inv hw
  obtain ⟨cs, hcs, hw⟩ := Res.bind_ok_inv hw
  obtain ⟨tail, htail, hw⟩ := Res.bind_ok_inv hw
  have e1 := writeAll_spec _ (Spec.batchChild version) (b.children.getD [])
    (fun c hc bc hbc => encodeBatchChild_spec version hver c (hv.children c hc) bc hbc) cs hcs
  have e2 := whenW_opt _ (Spec.hasBatchFlags version) _ _ tail htail (features version hver).2.2.2.1
    (fun hs b' hb' => encodeBatchTail_spec version hver b hv hs b' hb')
  rw [← Res.pure_ok_inv hw, e1, e2, SpecPrim.byte_eq, SpecPrim.short_eq, SpecPrim.short_mod, SpecPrim.short_eq,
    Spec.batch]
  rfl

/-! ## every request message -/

/-- elements that the message's version does not define are unset (QUERY / EXECUTE parameters; the other request
    predicates already say it) -/
def MsgFieldsDefined (version : Nat) : Msg → Prop
  | .query _ o => OptsFieldsDefined version o
  | .execute _ _ o => OptsFieldsDefined version o
  | _ => True

/-- **Request refinement.** For every request message: the bytes the message encoder produces for a version-valid
    message are the body the specification of that version prescribes. -/
theorem encodeMsg_spec_request (version : Nat) (hver : version ∈ Spec.knownVersions) (m : Msg)
    (hv : ValidMsg version m)
    (hd : MsgFieldsDefined version m)   -- SUSPECT: see `encodeQO_spec_some`
    (b : Bytes) (hw : encodeMsg version m = .ok b) (sb : Bytes) (hs : Spec.requestBody version m = some sb) :
    b = sb := by
  cases m with
  | startup o => cases hs; exact encodeStartup_spec version o hv b hw
  | options => cases hs; exact encodeOptions_spec version hv b hw
  | query q o => cases hs; exact encodeQuery_spec version hver q o hv hd b hw
  | prepare q ks => cases hs; exact encodePrepare_spec version hver ⟨q, ks⟩ hv b hw
  | execute a c o => cases hs; exact encodeExecute_spec version hver a c o hv hd b hw
  | batch bt => cases hs; exact encodeBatch_spec version hver bt hv b hw
  | register l => cases hs; exact encodeRegister_spec version l hv b hw
  | authResponse t => cases hs; exact encodeAuthResponse_spec version t hv b hw
  | revise x y z => cases hs; exact encodeRevise_spec version x y z hv b hw
  | ready => cases hs
  | authChallenge t => cases hs
  | authSuccess t => cases hs
  | authenticate a => cases hs
  | supported o => cases hs
  | error e => cases hs
  | result r => cases hs
  | event e => cases hs

/-- the specification gives a body to exactly the messages the code classifies as requests, under the opcode the code
    uses -/
theorem requestBody_isSome (version : Nat) (m : Msg) : (Spec.requestBody version m).isSome = !m.isResponse := by
  cases m <;> rfl

theorem requestOpcode_eq (m : Msg) (op : Nat) (h : Spec.requestOpcode m = some op) : m.opCode = op := by
  cases m <;> first | (cases h; rfl) | cases h

/-- **Specification-formatted request bodies decode to the message they denote** (up to `canonMsg`, the distinctions
    the wire cannot carry), leaving what follows untouched. -/
theorem decodeMsg_spec_request (version : Nat) (hver : version ∈ Spec.knownVersions) (m : Msg)
    (hv : ValidMsg version m)
    (hd : MsgFieldsDefined version m)   -- SUSPECT: see `encodeQO_spec_some`
    (sb : Bytes) (hs : Spec.requestBody version m = some sb) (rest : Bytes) :
    (decodeMsg version m.opCode).run (sb ++ rest) = .ok (canonMsg version m, rest) := by
  obtain ⟨b, hb⟩ := encodeMsg_ok version m hv
  have := decodeMsg_RT version m hv b hb rest
  rw [encodeMsg_spec_request version hver m hv hd b hb sb hs] at this
  exact this

/-- **Request frame bodies**: prefix, then message, as §2.2 and §4.1 prescribe -/
theorem encodeBodyUncompressed_spec_request (h : Header) (b : Body) (hver : h.version ∈ Spec.knownVersions)
    (hfl : h.flags < 256) (hv : ValidBody h b)
    (hd : MsgFieldsDefined h.version b.message)   -- SUSPECT: see `encodeQO_spec_some`
    (bs : Bytes) (hw : encodeBodyUncompressed h b = .ok bs) (sb : Bytes)
    (hs : Spec.requestBody h.version b.message = some sb) :
    bs = Spec.bodyPrefix h.version h.isResponse h.flags b ++ sb := by
  rw [encodeBodyUncompressed] at hw
  obtain ⟨pre, hpre, hw⟩ := Res.bind_ok_inv hw
  obtain ⟨m, hm, hw⟩ := Res.bind_ok_inv hw
  rw [← Res.pure_ok_inv hw, encodeBodyPrefix_spec h b hfl hv pre hpre,
    encodeMsg_spec_request h.version hver b.message hv.msg hd m hm sb hs]

/-- a version-valid frame has a header that obeys the (strict) specification: REVISE_REQUEST only on DSE versions -/
theorem validBody_headerOk (h : Header) (b : Body) (hh : ValidHeader h) (hv : ValidBody h b) :
    Spec.HeaderOk (Spec.versionByte h.version h.isResponse) h.opCode := by
  have hmem : h.version ∈ SupportedProtocolVersions := by simpa [ProtocolVersion_IsSupported] using hh.version
  have hv128 : h.version < 128 := by
    have : ∀ x ∈ SupportedProtocolVersions, x < 128 := by decide
    exact this _ hmem
  have hopm : h.opCode ∈ OpCode_IsValid_cases := by simpa [OpCode_IsValid] using hh.opCode
  have hop : h.opCode < 256 := by
    have : ∀ x ∈ OpCode_IsValid_cases, x < 256 := by decide
    exact this _ hopm
  have F := versionAndDirection_eq h.version hv128 h.isResponse
  have C := opcode_classes h.opCode hop
  refine (headerOk_iff _ _ hop).2 ⟨⟨?_, ?_⟩, fun e => ?_⟩
  · rw [F.2.2.1]; exact supported_known _ hh.version
  · rw [F.2.2.2, hh.direction, C.1]
    cases hr : decide (h.opCode ∈ Spec.responseOpcodes) with
    | true => rw [if_pos rfl]; exact of_decide_eq_true hr
    | false =>
      rw [if_neg (by decide)]
      have h1 := C.2.2.1
      rw [hh.opCode] at h1
      have h2 := of_decide_eq_true h1.symm
      rcases List.mem_append.1 h2 with h3 | h3
      · exact h3
      · exact absurd h3 (of_decide_eq_false hr)
  · rw [F.2.2.1, ← isDse_eq h.version (Nat.lt_trans hv128 (by decide))]
    have hm := hv.msg
    have ho := hv.opCode
    rw [e] at ho
    cases hmsg : b.message with
    | revise x y z => rw [hmsg] at hm; exact hm.dse
    | startup o => rw [hmsg] at ho; cases ho
    | options => rw [hmsg] at ho; cases ho
    | ready => rw [hmsg] at ho; cases ho
    | query q o => rw [hmsg] at ho; cases ho
    | prepare q ks => rw [hmsg] at ho; cases ho
    | execute a c o => rw [hmsg] at ho; cases ho
    | batch bt => rw [hmsg] at ho; cases ho
    | register l => rw [hmsg] at ho; cases ho
    | authResponse t => rw [hmsg] at ho; cases ho
    | authChallenge t => rw [hmsg] at ho; cases ho
    | authSuccess t => rw [hmsg] at ho; cases ho
    | authenticate a => rw [hmsg] at ho; cases ho
    | supported o => rw [hmsg] at ho; cases ho
    | error er => rw [hmsg] at ho; cases ho
    | result r => rw [hmsg] at ho; cases ho
    | event ev => rw [hmsg] at ho; cases ho

/-! ## non-vacuity: concrete messages, the code's bytes and the specification's bytes -/

/-- STARTUP with the mandatory option of §4.1.1: "CQL_VERSION" … "3.0.0" -/
example : Spec.startup 4 (some [([67, 81, 76, 95, 86, 69, 82, 83, 73, 79, 78], [51, 46, 48, 46, 48])]) =
      [0x00, 0x01, 0x00, 0x0B, 67, 81, 76, 95, 86, 69, 82, 83, 73, 79, 78, 0x00, 0x05, 51, 46, 48, 46, 48] ∧
    encodeStartup 4 (some [([67, 81, 76, 95, 86, 69, 82, 83, 73, 79, 78], [51, 46, 48, 46, 48])]) =
      .ok [0x00, 0x01, 0x00, 0x0B, 67, 81, 76, 95, 86, 69, 82, 83, 73, 79, 78, 0x00, 0x05, 51, 46, 48, 46, 48] := by
  decide

/-- the options used below: consistency ONE, one positional value, page size 100, serial consistency SERIAL, timestamp 5,
    keyspace "ks", now-in-seconds 7 -/
def exOpts : QueryOptions :=
  { QueryOptions.default with
    consistency := 1, positionalValues := some [some (.regular (some [0xAB]))], pageSize := 100,
    serialConsistency := some 8, defaultTimestamp := some 5, keyspace := [107, 115], nowInSeconds := some 7 }

/-- v5 QUERY "Q": [long string], [consistency], [int] flags 0x01|0x04|0x10|0x20|0x80|0x100 = 0x1B5, <n><value>, page size,
    serial, timestamp, keyspace, now_in_seconds — in this order -/
example : Spec.query 5 [81] (some exOpts) =
      [0, 0, 0, 1, 81,  0, 1,  0, 0, 0x01, 0xB5,  0, 1, 0, 0, 0, 1, 0xAB,  0, 0, 0, 100,  0, 8,
       0, 0, 0, 0, 0, 0, 0, 5,  0, 2, 107, 115,  0, 0, 0, 7] ∧
    encodeQuery 5 [81] (some exOpts) =
      .ok [0, 0, 0, 1, 81,  0, 1,  0, 0, 0x01, 0xB5,  0, 1, 0, 0, 0, 1, 0xAB,  0, 0, 0, 100,  0, 8,
       0, 0, 0, 0, 0, 0, 0, 5,  0, 2, 107, 115,  0, 0, 0, 7] := by decide

/-- the same options in v4: [byte] flags; keyspace and now-in-seconds have no place in the v4 layout — and here the
    code DIFFERS (flags 0xB5 with the undefined bit 0x80, and the keyspace is written): the SUSPECT of
    `encodeQO_spec_some`. `exOpts` satisfies `ValidQO 4` (next example). -/
example : Spec.query 4 [81] (some exOpts) =
      [0, 0, 0, 1, 81,  0, 1,  0x35,  0, 1, 0, 0, 0, 1, 0xAB,  0, 0, 0, 100,  0, 8,  0, 0, 0, 0, 0, 0, 0, 5] ∧
    encodeQuery 4 [81] (some { exOpts with nowInSeconds := none }) =
      .ok [0, 0, 0, 1, 81,  0, 1,  0xB5,  0, 1, 0, 0, 0, 1, 0xAB,  0, 0, 0, 100,  0, 8,  0, 0, 0, 0, 0, 0, 0, 5,
        0, 2, 107, 115] := by decide

example : ValidQuery 4 [81] (some { exOpts with nowInSeconds := none }) where
  queryLen := by decide
  contDse := fun o c h hc => by cases h; cases hc
  optsValid := fun o h => by
    cases h
    exact
      { consistency := by decide, notBoth := fun _ => rfl
        positional := fun l h => by
          cases h
          exact ⟨by decide, fun v hv => by
            simp at hv; subst hv; exact (by decide : [0xAB].length < 2147483648)⟩
        named := fun l h => by cases h
        pageSize := by decide
        pagingState := fun c h => by cases h
        serial := fun c h => by cases h; decide
        timestamp := fun t h => by cases h; decide
        keyspace := by decide
        now := fun n h => by cases h
        cont := fun c h => by cases h
        wide := fun _ => ⟨rfl, rfl, rfl⟩ }

/-- PREPARE: v4 is the bare [long string]; v5 adds [int] flags and the keyspace -/
example : Spec.prepare 4 [81] [] = [0, 0, 0, 1, 81] ∧ encodePrepare 4 ⟨[81], []⟩ = .ok [0, 0, 0, 1, 81] ∧
    Spec.prepare 5 [81] [107, 115] = [0, 0, 0, 1, 81, 0, 0, 0, 1, 0, 2, 107, 115] ∧
    encodePrepare 5 ⟨[81], [107, 115]⟩ = .ok [0, 0, 0, 1, 81, 0, 0, 0, 1, 0, 2, 107, 115] ∧
    Spec.prepare 0x41 [81] [] = [0, 0, 0, 1, 81] ∧ Spec.prepare 0x42 [81] [] = [0, 0, 0, 1, 81, 0, 0, 0, 0] := by decide

/-- EXECUTE: [short bytes] id, (v5) [short bytes] result metadata id, then the query parameters -/
example : Spec.execute 4 (some [1, 2]) none none = [0, 2, 1, 2,  0, 0,  0] ∧
    encodeExecute 4 (some [1, 2]) none none = .ok [0, 2, 1, 2,  0, 0,  0] ∧
    Spec.execute 5 (some [1, 2]) (some [3]) none = [0, 2, 1, 2,  0, 1, 3,  0, 0,  0, 0, 0, 0] ∧
    encodeExecute 5 (some [1, 2]) (some [3]) none = .ok [0, 2, 1, 2,  0, 1, 3,  0, 0,  0, 0, 0, 0] := by decide

/-- BATCH: v2 ends with <consistency>; v5 continues with [int] flags 0x10|0x20|0x80|0x100 and the four elements -/
def exBatch : Batch :=
  { type := 1, children := some [⟨[73], none, some [some .null]⟩, ⟨[], some [0xCD], none⟩], consistency := 4,
    serialConsistency := some 8, defaultTimestamp := some 5, keyspace := [107, 115], nowInSeconds := some 7 }

example : Spec.batch 5 exBatch =
      [1,  0, 2,  0, 0, 0, 0, 1, 73, 0, 1, 0xFF, 0xFF, 0xFF, 0xFF,  1, 0, 1, 0xCD, 0, 0,  0, 4,  0, 0, 0x01, 0xB0,
       0, 8,  0, 0, 0, 0, 0, 0, 0, 5,  0, 2, 107, 115,  0, 0, 0, 7] ∧
    encodeBatch 5 exBatch =
      .ok [1,  0, 2,  0, 0, 0, 0, 1, 73, 0, 1, 0xFF, 0xFF, 0xFF, 0xFF,  1, 0, 1, 0xCD, 0, 0,  0, 4,  0, 0, 0x01, 0xB0,
       0, 8,  0, 0, 0, 0, 0, 0, 0, 5,  0, 2, 107, 115,  0, 0, 0, 7] := by decide

def exBatch2 : Batch :=
  { exBatch with serialConsistency := none, defaultTimestamp := none, keyspace := [], nowInSeconds := none }
def exBatch3 : Batch := { exBatch with keyspace := [], nowInSeconds := none }

example : Spec.batch 2 exBatch2 = [1,  0, 2,  0, 0, 0, 0, 1, 73, 0, 1, 0xFF, 0xFF, 0xFF, 0xFF,  1, 0, 1, 0xCD, 0, 0,  0, 4] ∧
    encodeBatch 2 exBatch2 = .ok [1,  0, 2,  0, 0, 0, 0, 1, 73, 0, 1, 0xFF, 0xFF, 0xFF, 0xFF,  1, 0, 1, 0xCD, 0, 0,  0, 4] ∧
    Spec.batch 3 exBatch3 =
      [1,  0, 2,  0, 0, 0, 0, 1, 73, 0, 1, 0xFF, 0xFF, 0xFF, 0xFF,  1, 0, 1, 0xCD, 0, 0,  0, 4,  0x30,  0, 8,
       0, 0, 0, 0, 0, 0, 0, 5] := by decide

/-- REVISE_REQUEST: DSE v1 CANCEL has two [int]s; DSE v2 "more pages" adds [next_pages] -/
example : Spec.revise 0x41 1 7 0 = [0, 0, 0, 1, 0, 0, 0, 7] ∧ encodeRevise 0x41 1 7 0 = .ok [0, 0, 0, 1, 0, 0, 0, 7] ∧
    Spec.revise 0x42 2 7 3 = [0, 0, 0, 2, 0, 0, 0, 7, 0, 0, 0, 3] ∧
    encodeRevise 0x42 2 7 3 = .ok [0, 0, 0, 2, 0, 0, 0, 7, 0, 0, 0, 3] := by decide

/-- DSE v2 QUERY with continuous paging: [int] flags 0x80000000 | 0x40000000 | 0x04, page size, then max pages, pages
    per second, next pages -/
def exContOpts : QueryOptions :=
  { QueryOptions.default with pageSize := 10, pageSizeInBytes := true, continuousPagingOptions := some ⟨1, 2, 3⟩ }

example : Spec.query 0x42 [] (some exContOpts) =
      [0, 0, 0, 0,  0, 0,  0xC0, 0, 0, 0x04,  0, 0, 0, 10,  0, 0, 0, 1,  0, 0, 0, 2,  0, 0, 0, 3] ∧
    encodeQuery 0x42 [] (some exContOpts) =
      .ok [0, 0, 0, 0,  0, 0,  0xC0, 0, 0, 0x04,  0, 0, 0, 10,  0, 0, 0, 1,  0, 0, 0, 2,  0, 0, 0, 3] ∧
    Spec.query 0x41 [] (some exContOpts) =
      [0, 0, 0, 0,  0, 0,  0xC0, 0, 0, 0x04,  0, 0, 0, 10,  0, 0, 0, 1,  0, 0, 0, 2] := by decide

end Cql.SpecRequests
