import Cql.Conn
import Cql.Props.C03
import Cql.Props.C06
import Cql.Lemmas.CompressRT
/-! Lemmas about the connection-level framing model `Cql.Conn` (used by `Cql.Props.C15`). -/
namespace Cql.Conn
open Cql Cql.Prim Cql.Parser Cql.Gen Cql.Impl Cql.Props.C01 Cql.Props.C03

/-! ### what `EncodeFrame` wrote: header bytes, then `bl` body bytes -/

theorem validHeader_of_frame (c : Option BodyCompressor) (f : Frame) (hv : ValidFrame c f) (bl : Nat) (hbl : bl < 4294967296) :
    ValidHeader { f.header with bodyLength := bl } :=
  { version := hv.version, flags := hv.flags, streamId := hv.streamId
    opCode := by
      show OpCode_IsValid f.header.opCode = true
      rw [hv.body.opCode]; cases f.body.message <;> rfl
    direction := by
      show f.header.isResponse = OpCode_IsResponse f.header.opCode
      rw [hv.body.direction, hv.body.opCode]; rfl
    bodyLength := hbl }

/-- the encoder's output is the header of the frame (with the computed body length) followed by exactly `bl` bytes -/
theorem encodeFrame_inv (c : Option BodyCompressor) (f : Frame) (hv : ValidFrame c f) (e : Bytes) (bl : Nat)
    (hw : encodeFrame c f = .ok (e, bl)) :
    ∃ hdr body, e = hdr ++ body ∧ encodeHeader { f.header with bodyLength := bl } = .ok hdr ∧ body.length = bl ∧
      bl < 2147483648 := by
  rw [encodeFrame] at hw
  cases hc : hasFlag f.header.flags HeaderFlagCompressed with
  | false =>
    rw [hc, if_neg (by decide)] at hw
    obtain ⟨n, hn, hw⟩ := Res.bind_ok_inv hw
    obtain ⟨hdr, hhdr, hw⟩ := Res.bind_ok_inv hw
    obtain ⟨body, hbody, hw⟩ := Res.bind_ok_inv hw
    have hw := Res.pure_ok_inv hw
    have hb : e = hdr ++ body := (congrArg Prod.fst hw).symm
    have hbl : bl = n % 4294967296 := (congrArg Prod.snd hw).symm
    rw [encodeBody.eq_def] at hbody
    obtain ⟨_, _, hbody⟩ := Res.bind_ok_inv hbody
    have hc' : hasFlag ({ f.header with bodyLength := n % 4294967296 } : Header).flags HeaderFlagCompressed = false := hc
    rw [hc', if_neg (by decide)] at hbody
    have hbody' : encodeBodyUncompressed f.header f.body = .ok body := hbody
    have hlen := encodeBodyUncompressed_len f.header f.body hv.body body hbody'
    rw [hn] at hlen
    have hn' : n = body.length := Res.ok_inj hlen
    have hsz := hv.size body hbody'
    have hmod : n % 4294967296 = body.length := by rw [hn']; exact Nat.mod_eq_of_lt (by omega)
    refine ⟨hdr, body, hb, ?_, ?_, ?_⟩
    · rw [hbl]; exact hhdr
    · rw [hbl, hmod]
    · rw [hbl, hmod]; exact hsz
  | true =>
    rw [hc, if_pos rfl] at hw
    obtain ⟨body, hbody, hw⟩ := Res.bind_ok_inv hw
    obtain ⟨hdr, hhdr, hw⟩ := Res.bind_ok_inv hw
    have hw := Res.pure_ok_inv hw
    have hb : e = hdr ++ body := (congrArg Prod.fst hw).symm
    have hbl : bl = body.length % 4294967296 := (congrArg Prod.snd hw).symm
    obtain ⟨comp, hcomp, hloss⟩ := hv.compression hc
    have hop : (f.header.opCode == f.body.message.opCode) = true := by rw [hv.body.opCode]; exact beq_self_eq_true _
    rw [encodeBody.eq_def, hop, hc, if_pos rfl, hcomp] at hbody
    obtain ⟨_, _, hbody⟩ := Res.bind_ok_inv hbody
    obtain ⟨_, _, hbody⟩ := Res.bind_ok_inv hbody
    obtain ⟨raw, hraw, hbody⟩ := Res.bind_ok_inv hbody
    obtain ⟨_, hlen⟩ := hloss raw hraw body hbody
    have hmod : body.length % 4294967296 = body.length := Nat.mod_eq_of_lt (by omega)
    refine ⟨hdr, body, hb, ?_, ?_, ?_⟩
    · rw [hbl]; exact hhdr
    · rw [hbl, hmod]
    · rw [hbl, hmod]; exact hlen

theorem headerLength_pos (v : Nat) : 8 ≤ headerLength v := by
  rw [headerLength]
  by_cases h : v ≥ ProtocolVersion3
  · rw [if_pos h]; decide
  · rw [if_neg h]; decide

theorem encoded_length (c : Option BodyCompressor) (f : Frame) (hv : ValidFrame c f) (e : Bytes) (bl : Nat)
    (hw : encodeFrame c f = .ok (e, bl)) : e.length = headerLength f.header.version + bl :=
  (C03_declared_body_length c f hv e bl hw).1

theorem encoded_ne_nil (c : Option BodyCompressor) (f : Frame) (hv : ValidFrame c f) (e : Bytes) (bl : Nat)
    (hw : encodeFrame c f = .ok (e, bl)) : e ≠ [] := by
  intro h
  have hl := encoded_length c f hv e bl hw
  have := headerLength_pos f.header.version
  rw [h] at hl
  simp only [List.length_nil] at hl
  omega

/-! ### `readFrames` on back-to-back encodings -/

theorem isEmpty_false_of_ne_nil {s : Bytes} (h : s ≠ []) : ¬ (s.isEmpty = true) := by
  cases s with
  | nil => exact absurd rfl h
  | cons a t => intro h'; cases h'

theorem readFrames_step (c : Option BodyCompressor) (fuel : Nat) (s rest : Bytes) (f : Frame) (hs : s ≠ [])
    (hd : (decodeFrame c).run s = .ok (f, rest)) :
    readFrames c (fuel + 1) s = (f :: (readFrames c fuel rest).1, (readFrames c fuel rest).2) := by
  rw [readFrames, if_neg (isEmpty_false_of_ne_nil hs), hd]

theorem readFrames_nil (c : Option BodyCompressor) (fuel : Nat) : readFrames c (fuel + 1) [] = ([], false) := by
  rw [readFrames]; rfl

theorem append_ne_nil_left {a b : Bytes} (h : a ≠ []) : a ++ b ≠ [] := by
  cases a with
  | nil => exact absurd rfl h
  | cons x t => intro h'; cases h'

/-- the loop of `readSelfContainedSegment` (and of the legacy `incomingLoop`) on any number of encodings written back to
    back: all frames, in order, no abort — for every amount of fuel larger than the number of frames -/
theorem readFrames_encoded (c : Option BodyCompressor) :
    ∀ (xs : List (Frame × Bytes × Nat)), (∀ x ∈ xs, ValidFrame c x.1 ∧ encodeFrame c x.1 = .ok (x.2.1, x.2.2)) →
      ∀ fuel, xs.length < fuel →
        readFrames c fuel (xs.map (·.2.1)).flatten = (xs.map (fun x => canonFrame x.1 x.2.2), false)
  | [], _, fuel, hf => by
    obtain ⟨k, rfl⟩ : ∃ k, fuel = k + 1 := ⟨fuel - 1, by simp only [List.length_nil] at hf; omega⟩
    exact readFrames_nil c k
  | x :: xs, h, fuel, hf => by
    obtain ⟨k, rfl⟩ : ∃ k, fuel = k + 1 := ⟨fuel - 1, by omega⟩
    obtain ⟨hv, hw⟩ := h x List.mem_cons_self
    have hne := encoded_ne_nil c x.1 hv x.2.1 x.2.2 hw
    rw [List.map_cons, List.flatten_cons,
      readFrames_step c k _ _ _ (append_ne_nil_left hne) (C01_frame_roundtrip c x.1 hv x.2.1 x.2.2 hw _),
      readFrames_encoded c xs (fun y hy => h y (List.mem_cons_of_mem _ hy)) k
        (by simp only [List.length_cons] at hf; omega)]
    rfl

/-- the stream of `k` encodings is at least `k` bytes long (each is at least a header) -/
theorem flatten_encoded_length (c : Option BodyCompressor) :
    ∀ (xs : List (Frame × Bytes × Nat)), (∀ x ∈ xs, ValidFrame c x.1 ∧ encodeFrame c x.1 = .ok (x.2.1, x.2.2)) →
      xs.length ≤ (xs.map (·.2.1)).flatten.length
  | [], _ => Nat.zero_le _
  | x :: xs, h => by
    obtain ⟨hv, hw⟩ := h x List.mem_cons_self
    have hl := encoded_length c x.1 hv x.2.1 x.2.2 hw
    have := headerLength_pos x.1.header.version
    have ih := flatten_encoded_length c xs (fun y hy => h y (List.mem_cons_of_mem _ hy))
    rw [List.map_cons, List.flatten_cons, List.length_append, List.length_cons]
    omega

/-! ### `addMultiSegmentPayload` -/

theorem targetLengthOf_small (bl : Nat) (h : 9 + bl < 2147483648) : targetLengthOf bl = ((9 + bl : Nat) : Int) := by
  rw [targetLengthOf, FrameHeaderLengthV3AndHigher, Nat.mod_eq_of_lt (by omega), toInt32, if_neg (by omega)]

theorem checkTarget_pending (c : Option BodyCompressor) (T : Int) (data : Bytes) (hne : T ≠ (data.length : Int)) :
    checkTarget c T data = ({ targetLength := T, accumulatedData := data }, [], false) := by
  rw [checkTarget, if_neg hne]

theorem checkTarget_complete (c : Option BodyCompressor) (T : Int) (data : Bytes) (heq : T = (data.length : Int))
    (F : Frame) (r : Bytes) (hd : (decodeFrame c).run data = .ok (F, r)) :
    checkTarget c T data = (Acc.empty, [F], false) := by
  rw [checkTarget, if_pos heq, hd]

/-- the target is known: append and compare -/
theorem addPart_known (c : Option BodyCompressor) (N : Int) (d part : Bytes) (hN : N ≠ 0) :
    addPart c { targetLength := N, accumulatedData := d } part = checkTarget c N (d ++ part) := by
  rw [addPart, if_neg hN]

/-- no target yet and not even a header's worth of bytes: wait -/
theorem addPart_wait (c : Option BodyCompressor) (d part : Bytes) (h : (d ++ part).length < FrameHeaderLengthV3AndHigher) :
    addPart c { targetLength := 0, accumulatedData := d } part =
      ({ targetLength := 0, accumulatedData := d ++ part }, [], false) := by
  rw [addPart, if_pos rfl, if_pos h]

/-- no target yet, at least 9 bytes: the header of the ACCUMULATED bytes fixes it -/
theorem addPart_header (c : Option BodyCompressor) (d part : Bytes) (h : ¬ (d ++ part).length < FrameHeaderLengthV3AndHigher)
    (hdr : Header) (r : Bytes) (hd : decodeHeader.run (d ++ part) = .ok (hdr, r)) :
    addPart c { targetLength := 0, accumulatedData := d } part =
      checkTarget c (targetLengthOf hdr.bodyLength) (d ++ part) := by
  rw [addPart, if_pos rfl, if_neg h, hd]

theorem addPart_header_err (c : Option BodyCompressor) (d part : Bytes)
    (h : ¬ (d ++ part).length < FrameHeaderLengthV3AndHigher) (e : String) (hd : decodeHeader.run (d ++ part) = .err e) :
    addPart c { targetLength := 0, accumulatedData := d } part =
      ({ targetLength := 0, accumulatedData := d ++ part }, [], true) := by
  rw [addPart, if_pos rfl, if_neg h, hd]

theorem addParts_nil (c : Option BodyCompressor) (acc : Acc) : addParts c acc [] = (acc, [], false) := by
  rw [addParts]

theorem addParts_cons_ok (c : Option BodyCompressor) (acc : Acc) (p : Bytes) (ps : List Bytes) (acc' : Acc) (fs : List Frame)
    (h : addPart c acc p = (acc', fs, false)) :
    addParts c acc (p :: ps) = ((addParts c acc' ps).1, fs ++ (addParts c acc' ps).2.1, (addParts c acc' ps).2.2) := by
  rw [addParts, h]; rfl

theorem addParts_cons_abort (c : Option BodyCompressor) (acc : Acc) (p : Bytes) (ps : List Bytes) (acc' : Acc) (fs : List Frame)
    (h : addPart c acc p = (acc', fs, true)) : addParts c acc (p :: ps) = (acc', fs, true) := by
  rw [addParts, h]; rfl

/-- a step that delivers nothing: the rest of the parts decides -/
theorem addParts_cons_silent (c : Option BodyCompressor) (acc : Acc) (p : Bytes) (ps : List Bytes) (acc' : Acc)
    (h : addPart c acc p = (acc', [], false)) : addParts c acc (p :: ps) = addParts c acc' ps := by
  rw [addParts_cons_ok c acc p ps acc' [] h]; rfl

/-- while fewer bytes than the (known) target have arrived nothing is delivered and everything is kept -/
theorem addParts_pending (c : Option BodyCompressor) (N : Nat) (hN : N ≠ 0) :
    ∀ (qs : List Bytes) (d : Bytes), d.length + qs.flatten.length < N →
      addParts c { targetLength := N, accumulatedData := d } qs =
        ({ targetLength := N, accumulatedData := d ++ qs.flatten }, [], false)
  | [], d, _ => by rw [addParts_nil, List.flatten_nil, List.append_nil]
  | q :: qs, d, h => by
    rw [List.flatten_cons, List.length_append] at h
    have hN' : (N : Int) ≠ 0 := by omega
    have hstep : addPart c { targetLength := N, accumulatedData := d } q =
        ({ targetLength := N, accumulatedData := d ++ q }, [], false) := by
      rw [addPart_known c N d q hN', checkTarget_pending c N (d ++ q) (by rw [List.length_append]; omega)]
    rw [addParts_cons_silent c _ q qs _ hstep,
      addParts_pending c N hN qs (d ++ q) (by rw [List.length_append]; omega), List.flatten_cons, List.append_assoc]

theorem flatten_length_pos : ∀ (ps : List Bytes), ps ≠ [] → (∀ p ∈ ps, p ≠ []) → 0 < ps.flatten.length
  | [], h, _ => absurd rfl h
  | p :: ps, _, hne => by
    have : p ≠ [] := hne p List.mem_cons_self
    have : 0 < p.length := List.length_pos_iff.mpr this
    rw [List.flatten_cons, List.length_append]; omega

/-- once the target is known: the part that completes it delivers the frame, and only that part -/
theorem addParts_complete (c : Option BodyCompressor) (N : Nat) (hN : N ≠ 0) (F : Frame) :
    ∀ (ps : List Bytes) (d : Bytes), ps ≠ [] → (∀ p ∈ ps, p ≠ []) → N = d.length + ps.flatten.length →
      (∃ r, (decodeFrame c).run (d ++ ps.flatten) = .ok (F, r)) →
      addParts c { targetLength := N, accumulatedData := d } ps = (Acc.empty, [F], false)
  | [], _, h, _, _, _ => absurd rfl h
  | [p], d, _, _, hlen, ⟨r, hd⟩ => by
    have hN' : (N : Int) ≠ 0 := by omega
    rw [List.flatten_cons, List.flatten_nil, List.append_nil] at hlen hd
    have hstep : addPart c { targetLength := N, accumulatedData := d } p = (Acc.empty, [F], false) := by
      rw [addPart_known c N d p hN', checkTarget_complete c N (d ++ p) (by rw [List.length_append]; omega) F r hd]
    rw [addParts_cons_ok c _ p [] _ _ hstep, addParts_nil]
    rfl
  | p :: q :: qs, d, _, hne, hlen, ⟨r, hd⟩ => by
    have hN' : (N : Int) ≠ 0 := by omega
    have hpos := flatten_length_pos (q :: qs) (by intro h; cases h) (fun x hx => hne x (List.mem_cons_of_mem _ hx))
    rw [List.flatten_cons, List.length_append] at hlen
    rw [List.flatten_cons, ← List.append_assoc] at hd
    have hstep : addPart c { targetLength := N, accumulatedData := d } p =
        ({ targetLength := N, accumulatedData := d ++ p }, [], false) := by
      rw [addPart_known c N d p hN', checkTarget_pending c N (d ++ p) (by rw [List.length_append]; omega)]
    rw [addParts_cons_silent c _ p (q :: qs) _ hstep]
    exact addParts_complete c N hN F (q :: qs) (d ++ p) (by intro h; cases h)
      (fun x hx => hne x (List.mem_cons_of_mem _ hx)) (by rw [List.length_append]; omega) ⟨r, hd⟩

theorem flatten_take_lt : ∀ (ps : List Bytes) (k : Nat), k < ps.length → (∀ p ∈ ps, p ≠ []) →
    (ps.take k).flatten.length < ps.flatten.length
  | [], _, h, _ => absurd h (Nat.not_lt_zero _)
  | p :: ps, 0, _, hne => by
    rw [List.take_zero, List.flatten_nil]
    exact flatten_length_pos (p :: ps) (by intro h; cases h) hne
  | p :: ps, k + 1, h, hne => by
    have ih := flatten_take_lt ps k (by simp only [List.length_cons] at h; omega)
      (fun x hx => hne x (List.mem_cons_of_mem _ hx))
    rw [List.take_succ_cons, List.flatten_cons, List.flatten_cons, List.length_append, List.length_append]
    omega

/-- what the accumulator needs to know about the encoded frame `e` (see `envelope_of_encoded`): it is at least a 9-byte
    header long, every prefix of at least 9 bytes decodes to a header announcing `e.length`, and `e` decodes to `F` -/
structure Envelope (c : Option BodyCompressor) (e : Bytes) (F : Frame) : Prop where
  long : 9 ≤ e.length
  header : ∀ d tail, d ++ tail = e → 9 ≤ d.length →
    ∃ h r, decodeHeader.run d = .ok (h, r) ∧ targetLengthOf h.bodyLength = ((e.length : Nat) : Int)
  decodes : (decodeFrame c).run e = .ok (F, [])

theorem envelope_of_encoded (c : Option BodyCompressor) (f : Frame) (hv : ValidFrame c f) (e : Bytes) (bl : Nat)
    (hw : encodeFrame c f = .ok (e, bl)) (h3 : f.header.version ≥ ProtocolVersion3) (hsz : e.length < 2147483648) :
    Envelope c e (canonFrame f bl) := by
  obtain ⟨hdr, body, he, hhdr, hbody, hbl⟩ := encodeFrame_inv c f hv e bl hw
  have hl : hdr.length = 9 := by
    have := encodeHeader_len _ hdr hhdr
    rw [this, headerLength]
    show (if f.header.version ≥ ProtocolVersion3 then 9 else 8) = 9
    rw [if_pos h3]
  have hlen : e.length = 9 + bl := by rw [he, List.length_append, hl, hbody]
  have hdec := C01_frame_roundtrip c f hv e bl hw []
  rw [List.append_nil] at hdec
  refine ⟨by omega, fun d tail hcat hd9 => ?_, hdec⟩
  have hp1 : d = hdr ++ d.drop 9 := by
    have h1 : d.take 9 = hdr := by
      have : (d ++ tail).take 9 = d.take 9 := List.take_append_of_le_length hd9
      rw [← this, hcat, he, List.take_left' hl]
    rw [← h1, List.take_append_drop]
  have hvh := validHeader_of_frame c f hv bl (by omega)
  have hd := decodeHeader_RT _ hvh hdr hhdr (d.drop 9)
  rw [← hp1] at hd
  refine ⟨_, _, hd, ?_⟩
  show targetLengthOf bl = _
  rw [targetLengthOf_small bl (by omega), hlen]

/-- from "no target yet, fewer than 9 bytes so far": the remaining non-empty parts complete the envelope at the last one -/
theorem addParts_from_short (c : Option BodyCompressor) (e : Bytes) (F : Frame) (E : Envelope c e F) :
    ∀ (ps : List Bytes) (d : Bytes), ps ≠ [] → (∀ p ∈ ps, p ≠ []) → d ++ ps.flatten = e → d.length < 9 →
      addParts c { targetLength := 0, accumulatedData := d } ps = (Acc.empty, [F], false)
  | [], _, h, _, _, _ => absurd rfl h
  | [p], d, _, _, hcat, _ => by
    rw [List.flatten_cons, List.flatten_nil, List.append_nil] at hcat
    obtain ⟨h, r, hd, ht⟩ := E.header (d ++ p) [] (by rw [List.append_nil, hcat]) (by rw [hcat]; exact E.long)
    have hstep : addPart c { targetLength := 0, accumulatedData := d } p = (Acc.empty, [F], false) := by
      rw [addPart_header c d p (by rw [hcat, FrameHeaderLengthV3AndHigher]; have := E.long; omega) h r hd, ht,
        checkTarget_complete c _ (d ++ p) (by rw [hcat]) F [] (by rw [hcat]; exact E.decodes)]
    rw [addParts_cons_ok c _ p [] _ _ hstep, addParts_nil]
    rfl
  | p :: q :: qs, d, _, hne, hcat, hshort => by
    have hne' : ∀ x ∈ q :: qs, x ≠ [] := fun x hx => hne x (List.mem_cons_of_mem _ hx)
    have hpos := flatten_length_pos (q :: qs) (by intro h; cases h) hne'
    rw [List.flatten_cons, ← List.append_assoc] at hcat
    have hlen : e.length = (d ++ p).length + (q :: qs).flatten.length := by rw [← hcat, List.length_append]
    by_cases h9 : (d ++ p).length < FrameHeaderLengthV3AndHigher
    · rw [addParts_cons_silent c _ p (q :: qs) _ (addPart_wait c d p h9)]
      exact addParts_from_short c e F E (q :: qs) (d ++ p) (by intro h; cases h) hne' hcat h9
    · have h9' : 9 ≤ (d ++ p).length := by rw [FrameHeaderLengthV3AndHigher] at h9; omega
      obtain ⟨h, r, hd, ht⟩ := E.header (d ++ p) (q :: qs).flatten hcat h9'
      have hstep : addPart c { targetLength := 0, accumulatedData := d } p =
          ({ targetLength := (e.length : Nat), accumulatedData := d ++ p }, [], false) := by
        rw [addPart_header c d p h9 h r hd, ht, checkTarget_pending c _ (d ++ p) (by omega)]
      rw [addParts_cons_silent c _ p (q :: qs) _ hstep]
      exact addParts_complete c e.length (by have := E.long; omega) F (q :: qs) (d ++ p) (by intro h; cases h) hne' hlen
        ⟨[], by rw [hcat]; exact E.decodes⟩

/-- … and any parts that leave the envelope incomplete deliver nothing, abort nothing and keep everything -/
theorem addParts_prefix (c : Option BodyCompressor) (e : Bytes) (F : Frame) (E : Envelope c e F) :
    ∀ (qs : List Bytes) (d tail : Bytes), d ++ qs.flatten ++ tail = e → tail ≠ [] → d.length < 9 →
      addParts c { targetLength := 0, accumulatedData := d } qs =
        ({ targetLength := if (d ++ qs.flatten).length < 9 then 0 else (e.length : Nat),
           accumulatedData := d ++ qs.flatten }, [], false)
  | [], d, _, _, _, hshort => by
    rw [addParts_nil, List.flatten_nil, List.append_nil, if_pos hshort]
  | q :: qs, d, tail, hcat, htail, hshort => by
    have htl : 0 < tail.length := List.length_pos_iff.mpr htail
    rw [List.flatten_cons, ← List.append_assoc] at hcat
    have hlen : e.length = (d ++ q).length + qs.flatten.length + tail.length := by
      rw [← hcat, List.length_append, List.length_append]
    rw [List.flatten_cons, ← List.append_assoc]
    by_cases h9 : (d ++ q).length < FrameHeaderLengthV3AndHigher
    · rw [addParts_cons_silent c _ q qs _ (addPart_wait c d q h9)]
      exact addParts_prefix c e F E qs (d ++ q) tail hcat htail h9
    · have h9' : 9 ≤ (d ++ q).length := by rw [FrameHeaderLengthV3AndHigher] at h9; omega
      obtain ⟨h, r, hd, ht⟩ := E.header (d ++ q) (qs.flatten ++ tail) (by rw [← List.append_assoc]; exact hcat) h9'
      have hstep : addPart c { targetLength := 0, accumulatedData := d } q =
          ({ targetLength := (e.length : Nat), accumulatedData := d ++ q }, [], false) := by
        rw [addPart_header c d q h9 h r hd, ht, checkTarget_pending c _ (d ++ q) (by omega)]
      rw [addParts_cons_silent c _ q qs _ hstep,
        addParts_pending c e.length (by have := E.long; omega) qs (d ++ q) (by omega),
        if_neg (by rw [List.length_append]; omega)]

/-- **reassembly**: ANY split of the encoded frame into non-empty parts -/
theorem reassembly (c : Option BodyCompressor) (e : Bytes) (F : Frame) (E : Envelope c e F)
    (parts : List Bytes) (hflat : parts.flatten = e) (hne : ∀ p ∈ parts, p ≠ []) :
    addParts c Acc.empty parts = (Acc.empty, [F], false) ∧
    ∀ k, k < parts.length → addParts c Acc.empty (parts.take k) =
      ({ targetLength := if (parts.take k).flatten.length < 9 then 0 else (e.length : Nat),
         accumulatedData := (parts.take k).flatten }, [], false) := by
  have hparts : parts ≠ [] := by
    intro h; rw [h, List.flatten_nil] at hflat
    have := E.long; rw [← hflat] at this; simp only [List.length_nil] at this; omega
  constructor
  · exact addParts_from_short c e F E parts [] hparts hne (by rw [List.nil_append]; exact hflat) (by decide)
  · intro k hk
    have hlt := flatten_take_lt parts k hk hne
    have hsplit : (parts.take k).flatten ++ (parts.drop k).flatten = e := by
      rw [← List.flatten_append, List.take_append_drop, hflat]
    have htail : (parts.drop k).flatten ≠ [] := by
      intro h
      rw [h, List.append_nil] at hsplit
      rw [hsplit, hflat] at hlt
      exact Nat.lt_irrefl _ hlt
    have := addParts_prefix c e F E (parts.take k) [] (parts.drop k).flatten
      (by rw [List.nil_append]; exact hsplit) htail (by decide)
    rw [List.nil_append] at this
    exact this

/-- after the repair of `addMultiSegmentPayload` the only way a multi-segment envelope aborts before its frame is decoded
    is a header that `DecodeHeader` refuses once 9 bytes are there -/
theorem addPart_abort_inv (c : Option BodyCompressor) (d part : Bytes)
    (h : (addPart c { targetLength := 0, accumulatedData := d } part).2.2 = true) :
    9 ≤ (d ++ part).length := by
  by_cases h9 : (d ++ part).length < FrameHeaderLengthV3AndHigher
  · rw [addPart_wait c d part h9] at h; cases h
  · rw [FrameHeaderLengthV3AndHigher] at h9; omega

/-! ### the frame that goes into a segment: COMPRESSED flag cleared -/

theorem encodeBodyUncompressed_congr (h h' : Header) (b : Body) (hver : h'.version = h.version)
    (ht : hasFlag h'.flags HeaderFlagTracing = hasFlag h.flags HeaderFlagTracing)
    (hwa : hasFlag h'.flags HeaderFlagWarning = hasFlag h.flags HeaderFlagWarning)
    (hp : hasFlag h'.flags HeaderFlagCustomPayload = hasFlag h.flags HeaderFlagCustomPayload) :
    encodeBodyUncompressed h' b = encodeBodyUncompressed h b := by
  rw [encodeBodyUncompressed, encodeBodyUncompressed, encodeBodyPrefix, encodeBodyPrefix, hver, ht, hwa, hp]

theorem validBody_congr (h h' : Header) (b : Body) (hv : ValidBody h b) (hver : h'.version = h.version)
    (hop : h'.opCode = h.opCode) (hresp : h'.isResponse = h.isResponse)
    (ht : hasFlag h'.flags HeaderFlagTracing = hasFlag h.flags HeaderFlagTracing)
    (hwa : hasFlag h'.flags HeaderFlagWarning = hasFlag h.flags HeaderFlagWarning)
    (hp : hasFlag h'.flags HeaderFlagCustomPayload = hasFlag h.flags HeaderFlagCustomPayload) : ValidBody h' b :=
  { msg := by rw [hver]; exact hv.msg
    opCode := by rw [hop]; exact hv.opCode
    direction := by rw [hresp]; exact hv.direction
    tracing := by rw [hresp, ht]; exact hv.tracing
    noTracing := by rw [hresp, ht]; exact hv.noTracing
    warnings := by rw [hwa, hresp, hver]; exact hv.warnings
    payload := by rw [hp, hver]; exact hv.payload }

theorem clearCompressed_flag (f : Frame) (hfl : f.header.flags < 256) :
    hasFlag (clearCompressed f).header.flags HeaderFlagCompressed = false :=
  (Cql.Compress.remove_compressed_flags f.header.flags hfl).1

/-- clearing the COMPRESSED flag of a valid frame leaves a frame that is valid without any compressor -/
theorem validFrame_clearCompressed (c : Option BodyCompressor) (f : Frame) (hv : ValidFrame c f) :
    ValidFrame none (clearCompressed f) := by
  obtain ⟨h1, h2, h3, h4, _, h6⟩ := Cql.Compress.remove_compressed_flags f.header.flags hv.flags
  have hcong : encodeBodyUncompressed (clearCompressed f).header f.body = encodeBodyUncompressed f.header f.body :=
    encodeBodyUncompressed_congr f.header (clearCompressed f).header f.body rfl h2 h4 h3
  exact
    { version := hv.version, flags := h6, streamId := hv.streamId
      body := validBody_congr f.header (clearCompressed f).header f.body hv.body rfl rfl rfl h2 h4 h3
      size := fun bs h => hv.size bs (by rw [← hcong]; exact h)
      compression := fun h => by
        have h' : hasFlag (clearCompressed f).header.flags HeaderFlagCompressed = true := h
        rw [clearCompressed_flag f hv.flags] at h'
        cases h' }

/-- a frame without the COMPRESSED flag is valid whatever compressor the codec has -/
theorem validFrame_of_flag_clear (c c' : Option BodyCompressor) (f : Frame) (hv : ValidFrame c f)
    (hcl : hasFlag f.header.flags HeaderFlagCompressed = false) : ValidFrame c' f :=
  { version := hv.version, flags := hv.flags, streamId := hv.streamId, body := hv.body, size := hv.size
    compression := fun h => by rw [hcl] at h; cases h }

/-- `ValidFrame none` already says the flag is clear -/
theorem flag_clear_of_validFrame_none (f : Frame) (hv : ValidFrame none f) :
    hasFlag f.header.flags HeaderFlagCompressed = false := by
  cases h : hasFlag f.header.flags HeaderFlagCompressed with
  | false => rfl
  | true =>
    obtain ⟨comp, hcomp, _⟩ := hv.compression h
    cases hcomp

theorem encodeBody_flag_clear (c : Option BodyCompressor) (h : Header) (b : Body)
    (hcl : hasFlag h.flags HeaderFlagCompressed = false) : encodeBody c h b = encodeBody none h b := by
  rw [encodeBody.eq_def, encodeBody.eq_def, hcl]
  rfl

/-- without the COMPRESSED flag the codec's compressor plays no part in `EncodeFrame` -/
theorem encodeFrame_flag_clear (c : Option BodyCompressor) (f : Frame)
    (hcl : hasFlag f.header.flags HeaderFlagCompressed = false) : encodeFrame c f = encodeFrame none f := by
  rw [encodeFrame, encodeFrame, hcl, if_neg (by decide), if_neg (by decide)]
  have : ∀ bl, encodeBody c ({ f.header with bodyLength := bl } : Header) f.body =
      encodeBody none ({ f.header with bodyLength := bl } : Header) f.body :=
    fun bl => encodeBody_flag_clear c _ f.body hcl
  simp only [this]

theorem clearCompressed_markCompressed_flags : ∀ fl, fl < 256 →
    HeaderFlag_Remove (HeaderFlag_Add fl HeaderFlagCompressed) HeaderFlagCompressed =
      HeaderFlag_Remove fl HeaderFlagCompressed := by
  decide +kernel

/-- the server's `Flags.Add(COMPRESSED)` is undone by `writeSegment` -/
theorem clearCompressed_markCompressed (compression : Bytes) (f : Frame) (hfl : f.header.flags < 256) :
    clearCompressed (markCompressed compression f) = clearCompressed f := by
  rw [markCompressed]
  by_cases h : compression ≠ CompressionNone ∧ ProtocolVersion_SupportsModernFramingLayout f.header.version = false
  · have key := clearCompressed_markCompressed_flags f.header.flags hfl
    rw [if_pos h, clearCompressed, clearCompressed]
    simp only [key]
  · rw [if_neg h]

/-! ### sending into a segment, receiving from it -/

theorem writeSegment_inv (c : Option BodyCompressor) (sc : Option Segment.PayloadCompressor) (f : Frame) (bs : Bytes)
    (hw : writeSegment c sc f = .ok bs) :
    ∃ p bl, encodeFrame c (clearCompressed f) = .ok (p, bl) ∧ Segment.encodeSegment sc true p = .ok bs := by
  rw [writeSegment] at hw
  obtain ⟨p, hp, hseg⟩ := Res.bind_ok_inv hw
  rw [writeLegacy] at hp
  obtain ⟨r, hr, hp⟩ := Res.bind_ok_inv hp
  have hp := Res.pure_ok_inv hp
  refine ⟨p, r.2, ?_, hseg⟩
  rw [hr, ← hp]

theorem encodeSegment_ok_length (sc : Option Segment.PayloadCompressor) (b : Bool) (p bs : Bytes)
    (h : Segment.encodeSegment sc b p = .ok bs) : p.length ≤ 131071 := by
  by_cases hp : p.length > Segment.maxPayloadLength
  · rw [Segment.encodeSegment.eq_def, if_pos hp] at h; cases h
  · rw [Segment.maxPayloadLength] at hp; omega

/-- C06 in the form the connection needs: whatever `EncodeSegment` wrote comes back as the same payload and flag -/
theorem segment_delivery (sc : Option Segment.PayloadCompressor) (b : Bool) (p bs : Bytes)
    (hl : ∀ comp, sc = some comp → Cql.Props.C06.LosslessOn comp p)
    (h : Segment.encodeSegment sc b p = .ok bs) (rest : Bytes) :
    ∃ seg, (Segment.decodeSegment sc).run (bs ++ rest) = .ok (seg, rest) ∧ seg.payload = p ∧
      seg.header.isSelfContained = b := by
  have hp := encodeSegment_ok_length sc b p bs h
  cases sc with
  | none => exact ⟨_, Cql.Props.C06.C06_segment_roundtrip b p rest hp bs h, rfl, rfl⟩
  | some comp =>
    obtain ⟨seg, hseg, h1, h2, _⟩ :=
      Cql.Props.C06.C06_segment_roundtrip_compressed comp b p rest hp (hl comp rfl) bs h
    exact ⟨seg, hseg, h1, h2⟩

theorem onSegment_selfContained (c : Option BodyCompressor) (st : St) (p : Bytes) :
    onSegment c st true p = (st, readFrames c (p.length + 1) p) := by
  rw [onSegment, if_pos rfl]

theorem onSegment_part (c : Option BodyCompressor) (st : St) (p : Bytes) :
    onSegment c st false p = ({ st with acc := (addPart c st.acc p).1 }, (addPart c st.acc p).2) := by
  rw [onSegment, if_neg (by decide)]

/-- a self-contained segment whose payload is `k` encodings back to back delivers the `k` frames -/
theorem onSegment_encoded (c : Option BodyCompressor) (st : St) (xs : List (Frame × Bytes × Nat))
    (h : ∀ x ∈ xs, ValidFrame c x.1 ∧ encodeFrame c x.1 = .ok (x.2.1, x.2.2)) :
    onSegment c st true (xs.map (·.2.1)).flatten = (st, xs.map (fun x => canonFrame x.1 x.2.2), false) := by
  rw [onSegment_selfContained, readFrames_encoded c xs h _ (by have := flatten_encoded_length c xs h; omega)]

theorem onSegment_single (c : Option BodyCompressor) (st : St) (f : Frame) (hv : ValidFrame c f) (p : Bytes) (bl : Nat)
    (hw : encodeFrame c f = .ok (p, bl)) : onSegment c st true p = (st, [canonFrame f bl], false) := by
  have := onSegment_encoded c st [(f, p, bl)] (fun x hx => by
    rw [List.mem_singleton] at hx; rw [hx]; exact ⟨hv, hw⟩)
  rw [List.map_cons, List.map_nil, List.flatten_cons, List.flatten_nil, List.append_nil] at this
  exact this

/-! ### the layout switch -/

theorem maybeSwitch_true (f : Frame) : maybeSwitch true f = true := by
  rw [maybeSwitch]; rfl

theorem maybeSwitch_false (f : Frame) : maybeSwitch false f = switches f.header.version f.body.message := by
  rw [maybeSwitch]
  cases switches f.header.version f.body.message <;> rfl

theorem maybeSwitch_unsupported (b : Bool) (f : Frame)
    (h : ProtocolVersion_SupportsModernFramingLayout f.header.version = false) : maybeSwitch b f = b := by
  rw [maybeSwitch, switches, h]
  cases b <;> rfl

theorem switches_iff (v : Nat) (m : Msg) :
    switches v m = true ↔
      ProtocolVersion_SupportsModernFramingLayout v = true ∧ (m = .ready ∨ ∃ a, m = .authenticate a) := by
  rw [switches]
  cases ProtocolVersion_SupportsModernFramingLayout v <;> cases m <;> simp [isReady, isAuthenticate]

theorem foldl_maybeSwitch_true : ∀ fs : List Frame, fs.foldl maybeSwitch true = true
  | [] => rfl
  | f :: fs => by rw [List.foldl_cons, maybeSwitch_true, foldl_maybeSwitch_true fs]

/-- among the supported versions exactly v5 has the modern layout -/
theorem supportsModern_iff : ∀ v ∈ SupportedProtocolVersions,
    (ProtocolVersion_SupportsModernFramingLayout v = true ↔ v = ProtocolVersion5) := by
  decide

theorem isReady_canon (v : Nat) (m : Msg) : isReady (canonMsg v m) = isReady m := by cases m <;> rfl
theorem isAuthenticate_canon (v : Nat) (m : Msg) : isAuthenticate (canonMsg v m) = isAuthenticate m := by cases m <;> rfl

theorem switches_canon (f : Frame) (bl : Nat) :
    switches (canonFrame f bl).header.version (canonFrame f bl).body.message =
      switches f.header.version f.body.message := by
  show switches f.header.version (canonMsg f.header.version f.body.message) = _
  rw [switches, switches, isReady_canon, isAuthenticate_canon]

theorem maybeSwitch_canon (b : Bool) (f : Frame) (bl : Nat) : maybeSwitch b (canonFrame f bl) = maybeSwitch b f := by
  rw [maybeSwitch, maybeSwitch, switches_canon]

theorem canonError_code (v : Nat) (e : ErrorMsg) : (canonError v e).code = e.code := by cases e <;> rfl

theorem isFatal_canon (f : Frame) (bl : Nat) : isFatal (canonFrame f bl) = isFatal f := by
  have key : ∀ (v : Nat) (m : Msg),
      (match canonMsg v m with | .error e => ErrorCode_IsFatalError e.code | _ => false) =
      (match m with | .error e => ErrorCode_IsFatalError e.code | _ => false) := by
    intro v m
    cases m with
    | error e => show ErrorCode_IsFatalError (canonError v e).code = _; rw [canonError_code]
    | _ => rfl
  exact key f.header.version f.body.message

theorem adopt_canon (compression : Bytes) (f : Frame) (bl : Nat) :
    adopt compression (canonFrame f bl) = adopt compression f := by
  have key : ∀ (v : Nat) (m : Msg),
      (match canonMsg v m with | .startup o => startupCompression o | _ => compression) =
      (match m with | .startup o => startupCompression o | _ => compression) := by
    intro v m
    cases m <;> rfl
  exact key f.header.version f.body.message

/-! ### the client's fatal-ERROR cut -/

theorem cutFatal_none : ∀ (fs : List Frame) (a : Bool), (∀ f ∈ fs, isFatal f = false) → cutFatal fs a = (fs, a)
  | [], _, _ => rfl
  | f :: fs, a, h => by
    rw [cutFatal, h f List.mem_cons_self, if_neg (by decide),
      cutFatal_none fs a (fun g hg => h g (List.mem_cons_of_mem _ hg))]

theorem cutFatal_single (f : Frame) : cutFatal [f] false = ([f], isFatal f) := by
  rw [cutFatal]
  cases isFatal f <;> rfl

theorem onSegment_modernLayout (c : Option BodyCompressor) (st : St) (b : Bool) (p : Bytes) :
    (onSegment c st b p).1.modernLayout = st.modernLayout := by
  cases b with
  | true => rw [onSegment_selfContained]
  | false => rw [onSegment_part]

/-- in the modern layout the client differs from `onSegment` only by the fatal-ERROR cut -/
theorem onSegmentClient_modern (c : Option BodyCompressor) (st : St) (b : Bool) (p : Bytes) (hm : st.modernLayout = true) :
    onSegmentClient c st b p =
      ((onSegment c st b p).1, cutFatal (onSegment c st b p).2.1 (onSegment c st b p).2.2) := by
  have h1 := onSegment_modernLayout c st b p
  rw [hm] at h1
  rw [onSegmentClient]
  show (({ modernLayout := List.foldl maybeSwitch (onSegment c st b p).1.modernLayout
              (cutFatal (onSegment c st b p).2.1 (onSegment c st b p).2.2).1,
           acc := (onSegment c st b p).1.acc } : St), cutFatal (onSegment c st b p).2.1 (onSegment c st b p).2.2) = _
  rw [h1, foldl_maybeSwitch_true]
  have : ∀ s : St, s.modernLayout = true → ({ modernLayout := true, acc := s.acc } : St) = s := by
    intro s hs; cases s; cases hs; rfl
  rw [this _ h1]

/-! ### one turn of the receiving loops -/

theorem clientRecv_legacy (c : Option BodyCompressor) (sc : Option Segment.PayloadCompressor) (st : St) (s rest : Bytes)
    (F : Frame) (hm : st.modernLayout = false) (hd : (decodeFrame c).run s = .ok (F, rest)) :
    clientRecv c sc st s =
      { frames := [F], st := { st with modernLayout := maybeSwitch false F }, rest := rest, abort := isFatal F } := by
  rw [clientRecv, hm, if_neg (by decide), hd]

theorem clientRecv_modern (c : Option BodyCompressor) (sc : Option Segment.PayloadCompressor) (st : St) (s rest : Bytes)
    (seg : Segment.Segment) (hm : st.modernLayout = true) (hd : (Segment.decodeSegment sc).run s = .ok (seg, rest)) :
    clientRecv c sc st s =
      { frames := (onSegmentClient c st seg.header.isSelfContained seg.payload).2.1,
        st := (onSegmentClient c st seg.header.isSelfContained seg.payload).1, rest := rest,
        abort := (onSegmentClient c st seg.header.isSelfContained seg.payload).2.2 } := by
  rw [clientRecv, hm, if_pos rfl, hd]

theorem serverRecv_legacy (k : Compressors) (srv : Srv) (s rest : Bytes) (F : Frame) (hm : srv.st.modernLayout = false)
    (hd : (decodeFrame (newBodyCompressor k srv.compression)).run s = .ok (F, rest)) :
    serverRecv k srv s =
      { frames := [F], srv := { srv with compression := adopt srv.compression F }, rest := rest, abort := false } := by
  rw [serverRecv, hm, if_neg (by decide), hd]

theorem serverRecv_modern (k : Compressors) (srv : Srv) (s rest : Bytes) (seg : Segment.Segment)
    (hm : srv.st.modernLayout = true)
    (hd : (Segment.decodeSegment (newPayloadCompressor k srv.compression)).run s = .ok (seg, rest)) :
    serverRecv k srv s =
      { frames := (onSegmentServer k srv seg.header.isSelfContained seg.payload).2.1,
        srv := (onSegmentServer k srv seg.header.isSelfContained seg.payload).1, rest := rest,
        abort := (onSegmentServer k srv seg.header.isSelfContained seg.payload).2.2 } := by
  rw [serverRecv, hm, if_pos rfl, hd]

/-- the client never leaves the modern layout -/
theorem clientRecv_stays_modern (c : Option BodyCompressor) (sc : Option Segment.PayloadCompressor) (st : St) (s : Bytes)
    (hm : st.modernLayout = true) : (clientRecv c sc st s).st.modernLayout = true := by
  rw [clientRecv, hm, if_pos rfl]
  cases hd : (Segment.decodeSegment sc).run s with
  | ok x =>
    obtain ⟨seg, rest⟩ := x
    show (onSegmentClient c st seg.header.isSelfContained seg.payload).1.modernLayout = true
    rw [onSegmentClient_modern c st _ _ hm]
    show (onSegment c st seg.header.isSelfContained seg.payload).1.modernLayout = true
    rw [onSegment_modernLayout, hm]
  | err e => exact hm
  | panic e => exact hm

/-- reading never changes the server's layout -/
theorem serverRecv_layout (k : Compressors) (srv : Srv) (s : Bytes) :
    (serverRecv k srv s).srv.st.modernLayout = srv.st.modernLayout := by
  rw [serverRecv]
  by_cases hm : srv.st.modernLayout = true
  · rw [if_pos hm]
    cases hd : (Segment.decodeSegment (newPayloadCompressor k srv.compression)).run s with
    | ok x =>
      obtain ⟨seg, rest⟩ := x
      show (onSegmentServer k srv seg.header.isSelfContained seg.payload).1.st.modernLayout = _
      rw [onSegmentServer]
      cases seg.header.isSelfContained <;> rfl
    | err e => rfl
    | panic e => rfl
  · rw [if_neg hm]
    cases hd : (decodeFrame (newBodyCompressor k srv.compression)).run s with
    | ok x => obtain ⟨f, rest⟩ := x; rfl
    | err e => rfl
    | panic e => rfl

/-! ### whole streams -/

theorem clientRecvAll_step (c : Option BodyCompressor) (sc : Option Segment.PayloadCompressor) (fuel : Nat) (st : St)
    (s : Bytes) (hs : s ≠ []) (r : Recv) (hr : clientRecv c sc st s = r) (ha : r.abort = false) :
    clientRecvAll c sc (fuel + 1) st s =
      (r.frames ++ (clientRecvAll c sc fuel r.st r.rest).1, (clientRecvAll c sc fuel r.st r.rest).2) := by
  rw [clientRecvAll, if_neg (isEmpty_false_of_ne_nil hs), hr, ha, if_neg (by decide)]

theorem serverRecvAll_step (k : Compressors) (fuel : Nat) (srv : Srv) (s : Bytes) (hs : s ≠ []) (r : RecvS)
    (hr : serverRecv k srv s = r) (ha : r.abort = false) :
    serverRecvAll k (fuel + 1) srv s =
      (r.frames ++ (serverRecvAll k fuel r.srv r.rest).1, (serverRecvAll k fuel r.srv r.rest).2) := by
  rw [serverRecvAll, if_neg (isEmpty_false_of_ne_nil hs), hr, ha, if_neg (by decide)]

theorem st_eq_of_legacy (st : St) (hm : st.modernLayout = false) : ({ st with modernLayout := false } : St) = st := by
  cases st; cases hm; rfl

/-- the client's `incomingLoop` in the legacy layout on a stream of frames none of which triggers the switch or is a fatal
    ERROR: every frame is delivered, in order, and the layout stays legacy -/
theorem clientRecvAll_legacy (c : Option BodyCompressor) (sc : Option Segment.PayloadCompressor) :
    ∀ (xs : List (Frame × Bytes × Nat)), (∀ x ∈ xs, ValidFrame c x.1 ∧ encodeFrame c x.1 = .ok (x.2.1, x.2.2)) →
      (∀ x ∈ xs, switches x.1.header.version x.1.body.message = false ∧ isFatal x.1 = false) →
      ∀ fuel, xs.length < fuel → ∀ st : St, st.modernLayout = false →
        clientRecvAll c sc fuel st (xs.map (·.2.1)).flatten = (xs.map (fun x => canonFrame x.1 x.2.2), st, false)
  | [], _, _, fuel, hf, st, _ => by
    obtain ⟨k, rfl⟩ : ∃ k, fuel = k + 1 := ⟨fuel - 1, by simp only [List.length_nil] at hf; omega⟩
    rw [clientRecvAll]; rfl
  | x :: xs, h, hq, fuel, hf, st, hm => by
    obtain ⟨k, rfl⟩ : ∃ k, fuel = k + 1 := ⟨fuel - 1, by omega⟩
    obtain ⟨hv, hw⟩ := h x List.mem_cons_self
    obtain ⟨hsw, hfa⟩ := hq x List.mem_cons_self
    have hne := encoded_ne_nil c x.1 hv x.2.1 x.2.2 hw
    have hrecv := clientRecv_legacy c sc st _ _ _ hm (C01_frame_roundtrip c x.1 hv x.2.1 x.2.2 hw (xs.map (·.2.1)).flatten)
    rw [maybeSwitch_false, switches_canon, hsw, isFatal_canon, hfa, st_eq_of_legacy st hm] at hrecv
    rw [List.map_cons, List.flatten_cons, clientRecvAll_step c sc k st _ (append_ne_nil_left hne) _ hrecv rfl]
    show ([canonFrame x.1 x.2.2] ++ (clientRecvAll c sc k st (xs.map (·.2.1)).flatten).1,
      (clientRecvAll c sc k st (xs.map (·.2.1)).flatten).2) = _
    rw [clientRecvAll_legacy c sc xs (fun y hy => h y (List.mem_cons_of_mem _ hy))
      (fun y hy => hq y (List.mem_cons_of_mem _ hy)) k (by simp only [List.length_cons] at hf; omega) st hm]
    rfl

/-- the server's `incomingLoop` in the legacy layout on a stream of frames none of which changes the compression -/
theorem serverRecvAll_legacy (k : Compressors) :
    ∀ (xs : List (Frame × Bytes × Nat)) (srv : Srv), srv.st.modernLayout = false →
      (∀ x ∈ xs, ValidFrame (newBodyCompressor k srv.compression) x.1 ∧
        encodeFrame (newBodyCompressor k srv.compression) x.1 = .ok (x.2.1, x.2.2)) →
      (∀ x ∈ xs, adopt srv.compression x.1 = srv.compression) →
      ∀ fuel, xs.length < fuel →
        serverRecvAll k fuel srv (xs.map (·.2.1)).flatten = (xs.map (fun x => canonFrame x.1 x.2.2), srv, false)
  | [], srv, _, _, _, fuel, hf => by
    obtain ⟨n, rfl⟩ : ∃ n, fuel = n + 1 := ⟨fuel - 1, by simp only [List.length_nil] at hf; omega⟩
    rw [serverRecvAll]; rfl
  | x :: xs, srv, hm, h, hq, fuel, hf => by
    obtain ⟨n, rfl⟩ : ∃ n, fuel = n + 1 := ⟨fuel - 1, by omega⟩
    obtain ⟨hv, hw⟩ := h x List.mem_cons_self
    have hne := encoded_ne_nil _ x.1 hv x.2.1 x.2.2 hw
    have hrecv := serverRecv_legacy k srv _ _ _ hm (C01_frame_roundtrip _ x.1 hv x.2.1 x.2.2 hw (xs.map (·.2.1)).flatten)
    rw [adopt_canon, hq x List.mem_cons_self] at hrecv
    rw [List.map_cons, List.flatten_cons, serverRecvAll_step k n srv _ (append_ne_nil_left hne) _ hrecv rfl]
    show ([canonFrame x.1 x.2.2] ++ (serverRecvAll k n srv (xs.map (·.2.1)).flatten).1,
      (serverRecvAll k n srv (xs.map (·.2.1)).flatten).2) = _
    rw [serverRecvAll_legacy k xs srv hm (fun y hy => h y (List.mem_cons_of_mem _ hy))
      (fun y hy => hq y (List.mem_cons_of_mem _ hy)) n (by simp only [List.length_cons] at hf; omega)]
    rfl

/-- the server's loop over a self-contained segment: the frames inside carry no COMPRESSED flag, so they decode under whatever
    compression is current; the compression follows the STARTUP frames among them (there are none after the handshake) -/
theorem readFramesServer_encoded (k : Compressors) :
    ∀ (xs : List (Frame × Bytes × Nat)), (∀ x ∈ xs, ValidFrame none x.1 ∧ encodeFrame none x.1 = .ok (x.2.1, x.2.2)) →
      ∀ fuel, xs.length < fuel → ∀ compression,
        readFramesServer k fuel compression (xs.map (·.2.1)).flatten =
          (xs.map (fun x => canonFrame x.1 x.2.2), (xs.map (·.1)).foldl adopt compression, false)
  | [], _, fuel, hf, compression => by
    obtain ⟨n, rfl⟩ : ∃ n, fuel = n + 1 := ⟨fuel - 1, by simp only [List.length_nil] at hf; omega⟩
    rw [readFramesServer]; rfl
  | x :: xs, h, fuel, hf, compression => by
    obtain ⟨n, rfl⟩ : ∃ n, fuel = n + 1 := ⟨fuel - 1, by omega⟩
    obtain ⟨hv, hw⟩ := h x List.mem_cons_self
    have hcl := flag_clear_of_validFrame_none x.1 hv
    have hne := encoded_ne_nil none x.1 hv x.2.1 x.2.2 hw
    have hd := C01_frame_roundtrip (newBodyCompressor k compression) x.1
      (validFrame_of_flag_clear none _ x.1 hv hcl) x.2.1 x.2.2 (by rw [encodeFrame_flag_clear _ x.1 hcl]; exact hw)
      (xs.map (·.2.1)).flatten
    rw [List.map_cons, List.flatten_cons, readFramesServer, if_neg (isEmpty_false_of_ne_nil (append_ne_nil_left hne)), hd]
    show (canonFrame x.1 x.2.2 :: (readFramesServer k n (adopt compression (canonFrame x.1 x.2.2)) _).1,
      (readFramesServer k n (adopt compression (canonFrame x.1 x.2.2)) _).2) = _
    rw [adopt_canon, readFramesServer_encoded k xs (fun y hy => h y (List.mem_cons_of_mem _ hy)) n
      (by simp only [List.length_cons] at hf; omega)]
    rfl

/-! ### sending -/

theorem markCompressed_version (compression : Bytes) (f : Frame) :
    (markCompressed compression f).header.version = f.header.version := by
  rw [markCompressed]
  by_cases h : compression ≠ CompressionNone ∧ ProtocolVersion_SupportsModernFramingLayout f.header.version = false
  · rw [if_pos h]
  · rw [if_neg h]

theorem markCompressed_message (compression : Bytes) (f : Frame) :
    (markCompressed compression f).body.message = f.body.message := by
  rw [markCompressed]
  by_cases h : compression ≠ CompressionNone ∧ ProtocolVersion_SupportsModernFramingLayout f.header.version = false
  · rw [if_pos h]
  · rw [if_neg h]

theorem switches_supports (v : Nat) (m : Msg) (h : switches v m = true) :
    ProtocolVersion_SupportsModernFramingLayout v = true := ((switches_iff v m).mp h).1

/-- responses of a modern-layout version are never flagged -/
theorem markCompressed_modern (compression : Bytes) (f : Frame)
    (h : ProtocolVersion_SupportsModernFramingLayout f.header.version = true) : markCompressed compression f = f := by
  rw [markCompressed, if_neg (by rw [h]; intro h'; cases h'.2)]

theorem serverSend_legacy (k : Compressors) (srv : Srv) (f : Frame) (hm : srv.st.modernLayout = false) :
    serverSend k srv f =
      (writeLegacy (newBodyCompressor k srv.compression) (markCompressed srv.compression f),
       { srv with st := { srv.st with modernLayout := switches f.header.version f.body.message } }) := by
  rw [serverSend, hm, if_neg (by decide), maybeSwitch_false, markCompressed_version, markCompressed_message]

theorem serverSend_modern (k : Compressors) (srv : Srv) (f : Frame) (hm : srv.st.modernLayout = true) :
    serverSend k srv f =
      (writeSegment (newBodyCompressor k srv.compression) (newPayloadCompressor k srv.compression)
        (markCompressed srv.compression f), srv) := by
  rw [serverSend, hm, if_pos rfl]

/-! ### a split envelope on the wire: non-self-contained segments through the client's `incomingLoop` -/

theorem decodeSegment_nil (sc : Option Segment.PayloadCompressor) : ∃ e, (Segment.decodeSegment sc).run [] = .err e := by
  cases sc <;> exact ⟨_, rfl⟩

theorem encodeSegment_ne_nil (sc : Option Segment.PayloadCompressor) (b : Bool) (p bs : Bytes)
    (hl : ∀ comp, sc = some comp → Cql.Props.C06.LosslessOn comp p)
    (h : Segment.encodeSegment sc b p = .ok bs) : bs ≠ [] := by
  intro hb
  obtain ⟨seg, hdec, _, _⟩ := segment_delivery sc b p bs hl h []
  obtain ⟨e, he⟩ := decodeSegment_nil sc
  rw [hb, List.append_nil, he] at hdec
  cases hdec

/-- one non-self-contained segment through the client's loop, when `addMultiSegmentPayload` does not abort and delivers no
    fatal ERROR: exactly what `addPart` says -/
theorem clientRecv_part (c : Option BodyCompressor) (sc : Option Segment.PayloadCompressor) (st : St)
    (hm : st.modernLayout = true) (p bs rest : Bytes) (hl : ∀ comp, sc = some comp → Cql.Props.C06.LosslessOn comp p)
    (h : Segment.encodeSegment sc false p = .ok bs) (hab : (addPart c st.acc p).2.2 = false)
    (hnf : ∀ F ∈ (addPart c st.acc p).2.1, isFatal F = false) :
    clientRecv c sc st (bs ++ rest) =
      { frames := (addPart c st.acc p).2.1, st := { st with acc := (addPart c st.acc p).1 }, rest := rest, abort := false } := by
  obtain ⟨seg, hdec, hpay, hself⟩ := segment_delivery sc false p bs hl h rest
  rw [clientRecv_modern c sc st _ rest seg hm hdec, hself, hpay, onSegmentClient_modern c st false p hm, onSegment_part]
  show ({ frames := (cutFatal (addPart c st.acc p).2.1 (addPart c st.acc p).2.2).1, st := _, rest := rest,
          abort := (cutFatal (addPart c st.acc p).2.1 (addPart c st.acc p).2.2).2 } : Recv) = _
  rw [cutFatal_none _ _ hnf, hab]

theorem st_acc_eta (st : St) : ({ st with acc := st.acc } : St) = st := rfl

/-- the client's loop over the segments that carry the parts `ps` does what `addParts` does -/
theorem clientRecvAll_parts (c : Option BodyCompressor) (sc : Option Segment.PayloadCompressor) :
    ∀ (xs : List (Bytes × Bytes)) (st : St), st.modernLayout = true →
      (∀ x ∈ xs, Segment.encodeSegment sc false x.1 = .ok x.2 ∧ ∀ comp, sc = some comp → Cql.Props.C06.LosslessOn comp x.1) →
      (addParts c st.acc (xs.map (·.1))).2.2 = false →
      (∀ F ∈ (addParts c st.acc (xs.map (·.1))).2.1, isFatal F = false) →
      ∀ fuel, xs.length < fuel →
        clientRecvAll c sc fuel st (xs.map (·.2)).flatten =
          ((addParts c st.acc (xs.map (·.1))).2.1, { st with acc := (addParts c st.acc (xs.map (·.1))).1 }, false)
  | [], st, _, _, _, _, fuel, hf => by
    obtain ⟨k, rfl⟩ : ∃ k, fuel = k + 1 := ⟨fuel - 1, by simp only [List.length_nil] at hf; omega⟩
    rw [clientRecvAll]; rfl
  | x :: xs, st, hm, h, hab, hnf, fuel, hf => by
    obtain ⟨k, rfl⟩ : ∃ k, fuel = k + 1 := ⟨fuel - 1, by omega⟩
    obtain ⟨henc, hl⟩ := h x List.mem_cons_self
    simp only [List.map_cons] at hab hnf ⊢
    cases hstep : (addPart c st.acc x.1).2.2 with
    | true =>
      have : addPart c st.acc x.1 = ((addPart c st.acc x.1).1, (addPart c st.acc x.1).2.1, true) := by rw [← hstep]
      rw [addParts_cons_abort c st.acc x.1 _ _ _ this] at hab
      cases hab
    | false =>
      have hpair : addPart c st.acc x.1 = ((addPart c st.acc x.1).1, (addPart c st.acc x.1).2.1, false) := by rw [← hstep]
      rw [addParts_cons_ok c st.acc x.1 _ _ _ hpair] at hab hnf ⊢
      have hnf1 : ∀ F ∈ (addPart c st.acc x.1).2.1, isFatal F = false :=
        fun F hF => hnf F (List.mem_append_left _ hF)
      have hrecv := clientRecv_part c sc st hm x.1 x.2 (xs.map (·.2)).flatten hl henc hstep hnf1
      rw [List.flatten_cons,
        clientRecvAll_step c sc k st _ (append_ne_nil_left (encodeSegment_ne_nil sc false x.1 x.2 hl henc)) _ hrecv rfl]
      show ((addPart c st.acc x.1).2.1 ++
        (clientRecvAll c sc k { st with acc := (addPart c st.acc x.1).1 } (xs.map (·.2)).flatten).1,
        (clientRecvAll c sc k { st with acc := (addPart c st.acc x.1).1 } (xs.map (·.2)).flatten).2) = _
      rw [clientRecvAll_parts c sc xs { st with acc := (addPart c st.acc x.1).1 } hm
        (fun y hy => h y (List.mem_cons_of_mem _ hy)) hab (fun F hF => hnf F (List.mem_append_right _ hF)) k
        (by simp only [List.length_cons] at hf; omega)]

theorem flatten_segments_length (sc : Option Segment.PayloadCompressor) :
    ∀ (xs : List (Bytes × Bytes)),
      (∀ x ∈ xs, Segment.encodeSegment sc false x.1 = .ok x.2 ∧ ∀ comp, sc = some comp → Cql.Props.C06.LosslessOn comp x.1) →
      xs.length ≤ (xs.map (·.2)).flatten.length
  | [], _ => Nat.zero_le _
  | x :: xs, h => by
    obtain ⟨henc, hl⟩ := h x List.mem_cons_self
    have := List.length_pos_iff.mpr (encodeSegment_ne_nil sc false x.1 x.2 hl henc)
    have ih := flatten_segments_length sc xs (fun y hy => h y (List.mem_cons_of_mem _ hy))
    rw [List.map_cons, List.flatten_cons, List.length_append, List.length_cons]
    omega

end Cql.Conn
