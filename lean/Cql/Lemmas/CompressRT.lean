import Cql.Compress
import Cql.Lemmas.PrimRT
/-!
Helper lemmas for C08 (compression wrappers): the buffer-growing loop of `decompress` (fuel bound, success under the LZ4
contract, no panic), and the length-prefixed forms. The property theorems are in `Cql/Props/C08.lean`.
-/
namespace Cql.Compress
open Cql Cql.Prim

/-! ### the growing loop -/

/-- once `i · 2^fuel` exceeds `255 · len(src)`, `fuel + 1` iterations are enough: more fuel changes nothing -/
theorem growLoop_extra (codec : BlockCodec) (src : Bytes) :
    ∀ fuel i extra, i * 2 ^ fuel > src.length * maxCompressionRatio →
      growLoop codec src (fuel + extra + 1) i = growLoop codec src (fuel + 1) i := by
  intro fuel
  induction fuel with
  | zero =>
    intro i extra h
    rw [Nat.pow_zero, Nat.mul_one] at h
    rw [growLoop, growLoop]
    cases codec.uncompressBlock src i with
    | ok d => rfl
    | err e => simp only []; rw [if_pos h, if_pos h]
    | panic e => rfl
  | succ fuel ih =>
    intro i extra h
    rw [growLoop, growLoop]
    cases codec.uncompressBlock src i with
    | ok d => rfl
    | err e =>
      simp only []
      by_cases hi : i > src.length * maxCompressionRatio
      · rw [if_pos hi, if_pos hi]
      · rw [if_neg hi, if_neg hi, Nat.add_right_comm fuel 1 extra]
        exact ih (i * 2) extra (by rw [Nat.pow_succ] at h; rw [Nat.mul_assoc, Nat.mul_comm 2]; exact h)
    | panic e => rfl

/-- the loop does not run out of fuel: with `i · 2^fuel > 255 · len(src)` it panics only if `UncompressBlock` does -/
theorem growLoop_noPanic (codec : BlockCodec) (hc : ∀ c d e, codec.uncompressBlock c d ≠ .panic e) (src : Bytes) :
    ∀ fuel i, i * 2 ^ fuel > src.length * maxCompressionRatio → ∀ e, growLoop codec src (fuel + 1) i ≠ .panic e := by
  intro fuel
  induction fuel with
  | zero =>
    intro i h e
    rw [Nat.pow_zero, Nat.mul_one] at h
    rw [growLoop]
    cases hu : codec.uncompressBlock src i with
    | ok d => intro hh; cases hh
    | err m => simp only []; rw [if_pos h]; intro hh; cases hh
    | panic m => exact absurd hu (hc _ _ _)
  | succ fuel ih =>
    intro i h e
    rw [growLoop]
    cases hu : codec.uncompressBlock src i with
    | ok d => intro hh; cases hh
    | err m =>
      simp only []
      by_cases hi : i > src.length * maxCompressionRatio
      · rw [if_pos hi]; intro hh; cases hh
      · rw [if_neg hi]
        exact ih (i * 2) (by rw [Nat.pow_succ] at h; rw [Nat.mul_assoc, Nat.mul_comm 2]; exact h) e
    | panic m => exact absurd hu (hc _ _ _)

/-- the starting size and `growFuel` satisfy the premise of the two lemmas above for every non-empty source -/
theorem growFuel_enough (src : Bytes) (h : src.length ≠ 0) :
    src.length * 2 * 2 ^ 8 > src.length * maxCompressionRatio := by
  rw [maxCompressionRatio]
  have : (2 : Nat) ^ 8 = 256 := by decide
  rw [this]; omega

/-- under the LZ4 contract the loop finds the input: the sizes tried before the first one that is large enough are all
    below `len(x) ≤ 255 · len(c)`, so the loop keeps doubling until `UncompressBlock` succeeds -/
theorem growLoop_ok (codec : BlockCodec) (law : Lz4Law codec) (x c : Bytes) (hx : x ≠ []) (hc : codec.compressBlock x = .ok c) :
    ∀ fuel i, x.length ≤ i * 2 ^ fuel → growLoop codec c (fuel + 1) i = .ok x := by
  intro fuel
  induction fuel with
  | zero =>
    intro i h
    rw [Nat.pow_zero, Nat.mul_one] at h
    rw [growLoop, law.uncompress_fits x c i hx hc h]
  | succ fuel ih =>
    intro i h
    rw [growLoop]
    by_cases hfit : x.length ≤ i
    · rw [law.uncompress_fits x c i hx hc hfit]
    · obtain ⟨e, he⟩ := law.uncompress_short x c i hx hc (by omega)
      rw [he]
      simp only []
      have hr := law.ratio x c hx hc
      rw [if_neg (by rw [maxCompressionRatio]; omega)]
      exact ih (i * 2) (by rw [Nat.pow_succ] at h; rw [Nat.mul_assoc, Nat.mul_comm 2]; exact h)

/-! ### `decompress` -/

theorem decompress_nil (codec : BlockCodec) : decompress codec [] = .ok [] := by
  rw [decompress]; exact if_pos (Or.inl rfl)

theorem decompress_zero (codec : BlockCodec) : decompress codec [0] = .ok [] := by
  rw [decompress]; exact if_pos (Or.inr rfl)

/-- the block of a non-empty input is neither empty nor `00` -/
theorem block_proper (codec : BlockCodec) (law : Lz4Law codec) (x c : Bytes) (hx : x ≠ []) (hc : codec.compressBlock x = .ok c) :
    ¬ (c.length = 0 ∨ c = [0]) := by
  intro h
  rcases h with h | h
  · have hr := law.ratio x c hx hc
    rw [h] at hr
    exact hx (List.length_eq_zero_iff.mp (by omega))
  · exact law.block_ne_zero x c hx hc h

theorem decompress_block (codec : BlockCodec) (law : Lz4Law codec) (x c : Bytes) (hx : x ≠ []) (hc : codec.compressBlock x = .ok c) :
    decompress codec c = .ok x := by
  rw [decompress, if_neg (block_proper codec law x c hx hc), growFuel]
  refine growLoop_ok codec law x c hx hc 8 (c.length * 2) ?_
  have hr := law.ratio x c hx hc
  have : (2 : Nat) ^ 8 = 256 := by decide
  rw [this]; omega

/-- `decompress` of the block `CompressBlock` produced, for every input including the empty one -/
theorem decompress_compressBlock (codec : BlockCodec) (law : Lz4Law codec) (x c : Bytes) (hc : codec.compressBlock x = .ok c) :
    decompress codec c = .ok x := by
  by_cases hx : x = []
  · subst hx
    rw [law.compress_nil] at hc
    rw [← Res.ok_inj hc]; exact decompress_zero codec
  · exact decompress_block codec law x c hx hc

theorem decompress_noPanic (codec : BlockCodec) (hc : ∀ c d e, codec.uncompressBlock c d ≠ .panic e) (src : Bytes) (e : String) :
    decompress codec src ≠ .panic e := by
  rw [decompress]
  by_cases h : src.length = 0 ∨ src = [0]
  · rw [if_pos h]; intro hh; cases hh
  · rw [if_neg h, growFuel]
    exact growLoop_noPanic codec hc src 8 (src.length * 2) (growFuel_enough src (fun h0 => h (Or.inl h0))) e

/-! ### the length-prefixed form -/

theorem beNat_take4_writeInt (n : Nat) (h : n < 4294967296) (tail : Bytes) : beNat ((writeInt n ++ tail).take 4) = n := by
  rw [List.take_left' (writeInt_len n), writeInt, beNat_beBytes]
  exact Nat.mod_eq_of_lt h

theorem lz4DecompressWithLengthRest_prefixed (codec : BlockCodec) (n : Nat) (h : n < 4294967296) (tail : Bytes) :
    lz4DecompressWithLengthRest codec (writeInt n ++ tail) =
      if n = 0 then
        (match tail with
          | [] => .err "cannot read empty message"
          | _ :: unread => .ok ([], unread))
      else (lz4Decompress codec tail >>= fun d => pure (d, [])) := by
  rw [lz4DecompressWithLengthRest, if_neg (by rw [List.length_append, writeInt_len]; omega)]
  simp only []
  rw [beNat_take4_writeInt n h, List.drop_left' (writeInt_len n)]
  rfl

/-! ### the literal codec; header flags -/

theorem literal_block (x : Bytes) (hx : x ≠ []) : literalCodec.compressBlock x = .ok (1 :: x) := by
  have h0 : x.length ≠ 0 := fun h => hx (List.length_eq_zero_iff.mp h)
  show (if x.length = 0 then Res.ok [0] else Res.ok (1 :: x)) = _
  rw [if_neg h0]

open Cql.Gen Cql.Impl in
/-- removing the COMPRESSED flag leaves the other flags alone -/
theorem remove_compressed_flags : ∀ fl, fl < 256 →
    hasFlag (HeaderFlag_Remove fl HeaderFlagCompressed) HeaderFlagCompressed = false ∧
    hasFlag (HeaderFlag_Remove fl HeaderFlagCompressed) HeaderFlagTracing = hasFlag fl HeaderFlagTracing ∧
    hasFlag (HeaderFlag_Remove fl HeaderFlagCompressed) HeaderFlagCustomPayload = hasFlag fl HeaderFlagCustomPayload ∧
    hasFlag (HeaderFlag_Remove fl HeaderFlagCompressed) HeaderFlagWarning = hasFlag fl HeaderFlagWarning ∧
    hasFlag (HeaderFlag_Remove fl HeaderFlagCompressed) HeaderFlagUseBeta = hasFlag fl HeaderFlagUseBeta ∧
    HeaderFlag_Remove fl HeaderFlagCompressed < 256 := by
  decide +kernel

end Cql.Compress
