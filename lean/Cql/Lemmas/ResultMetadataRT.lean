import Cql.Impl.ResultMetadata
import Cql.Lemmas.PrimRT
import Cql.Lemmas.DataTypeRT
import Cql.Lemmas.NoPanic
/-!
Round trip, length, totality-on-valid-input and no-panic lemmas for `message/result_metadata.go` and the
Prepared / Rows branches of `resultCodec` (`Cql/Impl/ResultMetadata.lean`).
-/
namespace Cql.DataType
open Cql Cql.Prim Cql.Parser Cql.Gen

/-! ### two facts about type descriptors that `DataTypeRT` does not provide -/

theorem readF_noPanic (version : Nat) : ∀ fuel, NoPanic (readF version fuel)
  | 0 => by rw [readF]; no_panic
  | fuel + 1 => by
    have ih := readF_noPanic version fuel
    have hs := NoPanic.readString
    have hu : NoPanic (readUdtField (readF version fuel)) := by rw [readUdtField]; no_panic
    rw [readF]; no_panic

theorem read_noPanic (version : Nat) : NoPanic (read version) := by
  intro s e h
  rw [read] at h
  exact readF_noPanic version (s.length + 1) s e h

private theorem prim_check (c : Nat) (h : c ∈ primCodes) (version : Nat) : CheckValidDataTypeCode c version = true := by
  have : ∀ x ∈ primCodes, DataTypeCode_IsValid x = true := by decide
  rw [CheckValidDataTypeCode, this c h]; rfl

-- `WriteDataType` refuses no well-formed descriptor
mutual
theorem write_ok (version : Nat) : ∀ (t : DataType), Wf t → ∃ b, write version t = .ok b
  | prim c, hwf => by
    rw [write, prim_check c hwf version, if_pos rfl]; exact ⟨_, rfl⟩
  | custom cn, _ => by rw [write]; exact ⟨_, rfl⟩
  | list e, hwf => by
    rw [Wf] at hwf
    obtain ⟨b, hb⟩ := write_ok version e hwf
    rw [write, hb]; exact ⟨_, rfl⟩
  | set e, hwf => by
    rw [Wf] at hwf
    obtain ⟨b, hb⟩ := write_ok version e hwf
    rw [write, hb]; exact ⟨_, rfl⟩
  | map k v, hwf => by
    rw [Wf] at hwf
    obtain ⟨a, ha⟩ := write_ok version k hwf.1
    obtain ⟨b, hb⟩ := write_ok version v hwf.2
    rw [write, ha, hb]; exact ⟨_, rfl⟩
  | tuple fs, hwf => by
    rw [Wf] at hwf
    obtain ⟨b, hb⟩ := writeList_ok version fs hwf.2
    rw [write, hb]; exact ⟨_, rfl⟩
  | udt ks name names types, hwf => by
    rw [Wf] at hwf
    obtain ⟨_, _, h3, _, _, h6⟩ := hwf
    obtain ⟨b, hb⟩ := writeUdtFields_ok version names types h6
    rw [write, if_neg (by simpa using h3), hb]; exact ⟨_, rfl⟩

theorem writeList_ok (version : Nat) : ∀ (ts : List DataType), WfList ts → ∃ b, writeList version ts = .ok b
  | [], _ => by rw [writeList]; exact ⟨_, rfl⟩
  | t :: ts, hwf => by
    rw [WfList] at hwf
    obtain ⟨a, ha⟩ := write_ok version t hwf.1
    obtain ⟨b, hb⟩ := writeList_ok version ts hwf.2
    rw [writeList, ha, hb]; exact ⟨_, rfl⟩

theorem writeUdtFields_ok (version : Nat) : ∀ (names : List Bytes) (ts : List DataType), WfList ts →
    ∃ b, writeUdtFields version names ts = .ok b
  | [], _, _ => by rw [writeUdtFields]; exact ⟨_, rfl⟩
  | _ :: _, [], _ => by rw [writeUdtFields]; exact ⟨_, rfl⟩
  | n :: ns, t :: ts, hwf => by
    rw [WfList] at hwf
    obtain ⟨a, ha⟩ := write_ok version t hwf.1
    obtain ⟨b, hb⟩ := writeUdtFields_ok version ns ts hwf.2
    rw [writeUdtFields, ha, hb]; exact ⟨_, rfl⟩
end

end Cql.DataType

namespace Cql.Impl
open Cql Cql.Prim Cql.Parser Cql.Gen

/-! ### flags -/

/-- the variables flag reads back the test that set it -/
theorem vflags_has : ∀ (g : Bool),
    VariablesFlag_Contains (vflags g) VariablesFlagGlobalTablesSpec = g ∧ vflags g < 4294967296 := by decide

/-- every rows flag reads back the test that set it (GLOBAL_TABLES_SPEC only without NO_METADATA; the last-page flag
    only with the continuous-paging flag) -/
theorem rflags_has : ∀ (b1 b2 b3 b4 b5 b6 : Bool),
    RowsFlag_Contains (rflags b1 b2 b3 b4 b5 b6) RowsFlagNoMetadata = b1 ∧
    RowsFlag_Contains (rflags b1 b2 b3 b4 b5 b6) RowsFlagGlobalTablesSpec = (!b1 && b2) ∧
    RowsFlag_Contains (rflags b1 b2 b3 b4 b5 b6) RowsFlagHasMorePages = b3 ∧
    RowsFlag_Contains (rflags b1 b2 b3 b4 b5 b6) RowsFlagMetadataChanged = b4 ∧
    RowsFlag_Contains (rflags b1 b2 b3 b4 b5 b6) RowsFlagDseContinuousPaging = b5 ∧
    RowsFlag_Contains (rflags b1 b2 b3 b4 b5 b6) RowsFlagDseLastContinuousPage = (b5 && b6) ∧
    rflags b1 b2 b3 b4 b5 b6 < 4294967296 := by decide

/-- what `haveSameTable` establishes -/
theorem haveSameTable_spec (c : ColumnMetadata) (cs : List ColumnMetadata) (h : haveSameTable (c :: cs) = true) :
    ∀ d ∈ c :: cs, d.keyspace = c.keyspace ∧ d.table = c.table := by
  intro d hd
  rcases List.mem_cons.mp hd with rfl | hd
  · exact ⟨rfl, rfl⟩
  · rw [haveSameTable] at h
    exact of_decide_eq_true (List.all_eq_true.mp h d hd)

/-! ### columns metadata -/

theorem writeAll_ok {α} (w : α → Res Bytes) (l : List α) (h : ∀ x ∈ l, ∃ b, w x = .ok b) :
    ∃ bs, writeAll w l = .ok bs := by
  induction l with
  | nil => exact ⟨[], rfl⟩
  | cons x xs ih =>
    obtain ⟨a, ha⟩ := h x List.mem_cons_self
    obtain ⟨b, hb⟩ := ih (fun y hy => h y (List.mem_cons_of_mem _ hy))
    rw [writeAll, ha, hb]; exact ⟨_, rfl⟩

/-- a column specification as the specs define it: three `[string]`s and a well-formed `[option]` -/
structure ValidColumn (c : ColumnMetadata) : Prop where
  keyspace : c.keyspace.length < 65536
  table : c.table.length < 65536
  name : c.name.length < 65536
  type : ∃ t, c.type = some t ∧ DataType.Wf t

/-- `Index` is never on the wire: the decoder leaves it 0 -/
def canonColumn (c : ColumnMetadata) : ColumnMetadata := { c with index := 0 }

theorem decodeColumn_RT (version : Nat) (global : Bool) (gks gtb : Bytes) (c : ColumnMetadata) (hv : ValidColumn c)
    (hg : global = true → c.keyspace = gks ∧ c.table = gtb) (b : Bytes)
    (hw : encodeColumn version global c = .ok b) (rest : Bytes) :
    (decodeColumn version global gks gtb).run (b ++ rest) = .ok (canonColumn c, rest) := by
  rw [encodeColumn] at hw
  obtain ⟨t, ht, hw⟩ := Res.bind_ok_inv hw
  obtain ⟨ty, hty, hwf⟩ := hv.type
  rw [hty, writeDataTypeOpt] at ht
  have hg' : (!global) = false → c.keyspace = gks ∧ c.table = gtb := by
    intro h; cases global with
    | true => exact hg rfl
    | false => cases h
  rw [← Res.pure_ok_inv hw]
  simp only [List.append_assoc]
  rw [decodeColumn,
    bind_ok (whenP_optB_RT (!global) readString gks c.keyspace _ _ (fun _ => readString_RT _ hv.keyspace _)
      (fun h => (hg' h).1)),
    bind_ok (whenP_optB_RT (!global) readString gtb c.table _ _ (fun _ => readString_RT _ hv.table _)
      (fun h => (hg' h).2)),
    bind_ok (readString_RT _ hv.name _), bind_ok (DataType.read_RT version ty hwf t ht rest), canonColumn, hty]
  rfl

theorem encodeColumn_len (version : Nat) (global : Bool) (c : ColumnMetadata) (b : Bytes)
    (hw : encodeColumn version global c = .ok b) : lengthOfColumn version global c = .ok b.length := by
  rw [encodeColumn] at hw
  obtain ⟨t, ht, hw⟩ := Res.bind_ok_inv hw
  cases hty : c.type with
  | none => rw [hty, writeDataTypeOpt] at ht; cases ht
  | some ty =>
    rw [hty, writeDataTypeOpt] at ht
    rw [lengthOfColumn, hty, lengthOfDataTypeOpt, DataType.write_len version ty t ht, ← Res.pure_ok_inv hw,
      List.length_append, List.length_append, List.length_append,
      optB_len _ _ _ (writeString_len c.keyspace), optB_len _ _ _ (writeString_len c.table), writeString_len]
    rfl

theorem encodeColumn_ok (version : Nat) (global : Bool) (c : ColumnMetadata) (hv : ValidColumn c) :
    ∃ b, encodeColumn version global c = .ok b := by
  obtain ⟨ty, hty, hwf⟩ := hv.type
  obtain ⟨t, ht⟩ := DataType.write_ok version ty hwf
  rw [encodeColumn, hty, writeDataTypeOpt, ht]; exact ⟨_, rfl⟩

theorem decodeColumn_noPanic (version : Nat) (global : Bool) (gks gtb : Bytes) :
    NoPanic (decodeColumn version global gks gtb) := by
  rw [decodeColumn]; no_panic [NoPanic.readString, DataType.read_noPanic version]

/-- a column list for one `<global_table_spec>?<col_spec_1>…<col_spec_n>` block: an `[int]` count, valid columns, and
    the global form only when all columns do share keyspace and table -/
structure ValidColumns (global : Bool) (cols : List ColumnMetadata) : Prop where
  count : cols.length < 2147483648
  each : ∀ c ∈ cols, ValidColumn c
  global : global = true → haveSameTable cols = true

def canonColumns (cols : List ColumnMetadata) : List ColumnMetadata := cols.map canonColumn

theorem decodeColumnsMetadata_RT (version : Nat) (global : Bool) (cols : List ColumnMetadata)
    (hv : ValidColumns global cols) (b : Bytes) (hw : encodeColumnsMetadata version global cols = .ok b)
    (rest : Bytes) :
    (decodeColumnsMetadata version global cols.length).run (b ++ rest) = .ok (canonColumns cols, rest) := by
  rw [encodeColumnsMetadata] at hw
  obtain ⟨g, hg, hw⟩ := Res.bind_ok_inv hw
  obtain ⟨body, hbody, hw⟩ := Res.bind_ok_inv hw
  have hn : isNeg32 cols.length = false := by rw [isNeg32]; exact decide_eq_false (by have := hv.count; omega)
  rw [← Res.pure_ok_inv hw, canonColumns]
  cases global with
  | false =>
    rw [encodeGlobalSpec] at hg
    rw [← Res.ok_inj hg, decodeColumnsMetadata, whenP_false, bind_ok (pure_run _ _), bind_ok (pure_run _ _), hn,
      if_neg (by decide)]
    exact readN_writeAll_RT _ (encodeColumn version false) canonColumn cols
      (fun x hx bx hbx r => decodeColumn_RT version false [] [] x (hv.each x hx) (fun h => by cases h) bx hbx r)
      body hbody rest
  | true =>
    cases cols with
    | nil => have := hv.global rfl; rw [haveSameTable] at this; cases this
    | cons c cs =>
      have hs := haveSameTable_spec c cs (hv.global rfl)
      rw [encodeGlobalSpec] at hg
      rw [← Res.ok_inj hg, decodeColumnsMetadata, whenP_true, List.append_assoc, List.append_assoc,
        bind_ok (readString_RT _ (hv.each c List.mem_cons_self).keyspace _),
        bind_ok (readString_RT _ (hv.each c List.mem_cons_self).table _), hn, if_neg (by decide)]
      exact readN_writeAll_RT _ (encodeColumn version true) canonColumn (c :: cs)
        (fun x hx bx hbx r => decodeColumn_RT version true c.keyspace c.table x (hv.each x hx) (fun _ => hs x hx) bx hbx r)
        body hbody rest

/-- `cols[0]` is in range at both call sites: they guard the call with `len(Columns) > 0` -/
theorem encodeGlobalSpec_noPanic (global : Bool) (cols : List ColumnMetadata) (h : cols.length > 0) (e : String) :
    encodeGlobalSpec global cols ≠ .panic e := by
  cases global with
  | false => rw [encodeGlobalSpec]; intro h'; cases h'
  | true =>
    cases cols with
    | nil => cases h
    | cons c cs => rw [encodeGlobalSpec]; intro h'; cases h'

theorem encodeGlobalSpec_len (global : Bool) (cols : List ColumnMetadata) (g : Bytes)
    (hg : encodeGlobalSpec global cols = .ok g) : lengthOfGlobalSpec global cols = .ok g.length := by
  cases global with
  | false =>
    rw [encodeGlobalSpec] at hg
    rw [← Res.ok_inj hg, lengthOfGlobalSpec]; rfl
  | true =>
    cases cols with
    | nil => rw [encodeGlobalSpec] at hg; cases hg
    | cons c cs =>
      rw [encodeGlobalSpec] at hg
      rw [← Res.ok_inj hg, lengthOfGlobalSpec, List.length_append, writeString_len, writeString_len]

theorem encodeColumnsMetadata_len (version : Nat) (global : Bool) (cols : List ColumnMetadata) (b : Bytes)
    (hw : encodeColumnsMetadata version global cols = .ok b) :
    lengthOfColumnsMetadata version global cols = .ok b.length := by
  rw [encodeColumnsMetadata] at hw
  obtain ⟨g, hg, hw⟩ := Res.bind_ok_inv hw
  obtain ⟨body, hbody, hw⟩ := Res.bind_ok_inv hw
  rw [lengthOfColumnsMetadata, encodeGlobalSpec_len global cols g hg,
    sumAll_writeAll_len (encodeColumn version global) (lengthOfColumn version global) cols
      (fun x _ bx hbx => encodeColumn_len version global x bx hbx) body hbody,
    ← Res.pure_ok_inv hw, List.length_append]
  rfl

theorem encodeColumnsMetadata_ok (version : Nat) (global : Bool) (cols : List ColumnMetadata)
    (hv : ValidColumns global cols) : ∃ b, encodeColumnsMetadata version global cols = .ok b := by
  obtain ⟨body, hbody⟩ := writeAll_ok (encodeColumn version global) cols
    (fun x hx => encodeColumn_ok version global x (hv.each x hx))
  have hg : ∃ g, encodeGlobalSpec global cols = .ok g := by
    cases global with
    | false => rw [encodeGlobalSpec]; exact ⟨_, rfl⟩
    | true =>
      cases cols with
      | nil => have := hv.global rfl; rw [haveSameTable] at this; cases this
      | cons c cs => rw [encodeGlobalSpec]; exact ⟨_, rfl⟩
  obtain ⟨g, hg⟩ := hg
  rw [encodeColumnsMetadata, hg, hbody]; exact ⟨_, rfl⟩

theorem decodeColumnsMetadata_noPanic (version : Nat) (global : Bool) (count : Nat) :
    NoPanic (decodeColumnsMetadata version global count) := by
  rw [decodeColumnsMetadata]
  no_panic [NoPanic.readString, decodeColumn_noPanic version global]

/-! ### variables metadata -/

/-- a nil and an empty slice are both written as count 0, and the decoders allocate only for a positive count -/
def nonEmptyOpt {α} (o : Option (List α)) : Option (List α) :=
  if (o.getD []).length > 0 then some (o.getD []) else none

theorem sum_const_length {α} (l : List α) (k : Nat) : (l.map fun _ => k).sum = k * l.length := by
  induction l with
  | nil => rfl
  | cons x xs ih => rw [List.map_cons, List.sum_cons, ih, List.length_cons, Nat.mul_succ, Nat.add_comm]

theorem pos32_length {α} (l : List α) (h : l.length < 2147483648) : pos32 l.length = decide (l.length > 0) := by
  rw [pos32]
  by_cases h0 : l.length > 0
  · rw [decide_eq_true h0, decide_eq_true ⟨h0, h⟩]
  · rw [decide_eq_false h0, decide_eq_false (fun h' => h0 h'.1)]

theorem decodePkIndices_RT (l : List Nat) (h1 : l.length < 2147483648) (h2 : ∀ i ∈ l, i < 65536) (rest : Bytes) :
    decodePkIndices.run (encodePkIndices l ++ rest) = .ok (nonEmptyOpt (some l), rest) := by
  have h' : l.length < 4294967296 := by omega
  rw [decodePkIndices, encodePkIndices, Nat.mod_eq_of_lt h', List.append_assoc, bind_ok (readInt_RT _ h' _),
    pos32_length l h1, nonEmptyOpt, Option.getD_some]
  by_cases h0 : l.length > 0
  · rw [decide_eq_true h0, if_pos rfl, if_pos h0, map_run,
      readN_RT_id readShort writeShort l (fun i hi r => readShort_RT i (h2 i hi) r) rest]
  · rw [decide_eq_false h0, if_neg (by decide), if_neg h0]
    have : l = [] := List.length_eq_zero_iff.mp (by omega)
    subst this; rfl

theorem encodePkIndices_len (l : List Nat) : (encodePkIndices l).length = lengthOfPkIndices l := by
  rw [encodePkIndices, List.length_append, writeInt_len,
    flatten_map_length writeShort (fun _ => lengthOfShort) l (fun i _ => writeShort_len i), sum_const_length,
    lengthOfPkIndices]
  rfl

theorem decodePkIndices_noPanic : NoPanic decodePkIndices := by rw [decodePkIndices]; no_panic

/-- version-validity of the bind-variable metadata of a Prepared result (spec §4.2.5.4): counts are `[int]`s, the
    partition-key indices are `[short]`s (`[]uint16` in Go), every column specification is valid. Nothing is asked
    about `PkIndices` before v4, where the field does not exist: `canonVariablesMetadata'` says it is dropped. -/
structure ValidVariablesMetadata (version : Nat) (m : VariablesMetadata) : Prop where
  columns : ∀ cols, m.columns = some cols → cols.length < 2147483648 ∧ ∀ c ∈ cols, ValidColumn c
  pkIndices : ∀ l, m.pkIndices = some l → l.length < 2147483648 ∧ ∀ i ∈ l, i < 65536

/-- what the wire cannot carry:
    * `PkIndices` is not encoded before v4 (the Go doc: "will be nil for protocol versions lesser than 4");
    * nil and empty `PkIndices` / `Columns` are both count 0, and the decoder allocates only for a count > 0, so
      both read back nil;
    * `ColumnMetadata.Index` is never encoded. -/
def canonVariablesMetadata' (version : Nat) (m : VariablesMetadata) : VariablesMetadata :=
  { pkIndices := if version ≥ ProtocolVersion4 then nonEmptyOpt m.pkIndices else none
    columns := (nonEmptyOpt m.columns).map canonColumns }

/-- a nil `*VariablesMetadata` is encoded as `&VariablesMetadata{}`; the decoder always returns a struct -/
def canonVariablesMetadata (version : Nat) (m? : Option VariablesMetadata) : VariablesMetadata :=
  canonVariablesMetadata' version (m?.getD VariablesMetadata.zero)

theorem validVariablesMetadata_zero (version : Nat) : ValidVariablesMetadata version VariablesMetadata.zero :=
  ⟨fun _ h => (by cases h), fun _ h => (by cases h)⟩

theorem ValidVariablesMetadata.getD {version : Nat} {m? : Option VariablesMetadata}
    (hv : ∀ m, m? = some m → ValidVariablesMetadata version m) :
    ValidVariablesMetadata version (m?.getD VariablesMetadata.zero) := by
  cases m? with
  | none => exact validVariablesMetadata_zero version
  | some m => exact hv m rfl

theorem validColumns_getD (o : Option (List ColumnMetadata))
    (h : ∀ cols, o = some cols → cols.length < 2147483648 ∧ ∀ c ∈ cols, ValidColumn c) :
    (o.getD []).length < 2147483648 ∧ ∀ c ∈ o.getD [], ValidColumn c := by
  cases o with
  | none => exact ⟨by decide, fun c hc => by cases hc⟩
  | some cols => exact h cols rfl

theorem decodeVariablesMetadata'_RT (version : Nat) (m : VariablesMetadata) (hv : ValidVariablesMetadata version m)
    (b : Bytes) (hw : encodeVariablesMetadata' version m = .ok b) (rest : Bytes) :
    (decodeVariablesMetadata version).run (b ++ rest) = .ok (canonVariablesMetadata' version m, rest) := by
  rw [encodeVariablesMetadata'] at hw
  obtain ⟨colsB, hcols, hw⟩ := Res.bind_ok_inv hw
  obtain ⟨hcl, hce⟩ := validColumns_getD m.columns hv.columns
  have hpk : ((m.pkIndices.getD []).length < 2147483648 ∧ ∀ i ∈ m.pkIndices.getD [], i < 65536) ∧
      nonEmptyOpt (some (m.pkIndices.getD [])) = nonEmptyOpt m.pkIndices := by
    cases hp : m.pkIndices with
    | none => exact ⟨⟨by decide, fun i hi => by cases hi⟩, rfl⟩
    | some l => exact ⟨hv.pkIndices l hp, rfl⟩
  have F := vflags_has (decide ((m.columns.getD []).length > 0) && haveSameTable (m.columns.getD []))
  rw [← VariablesMetadata.flags] at F
  have hcl' : (m.columns.getD []).length < 4294967296 := by omega
  rw [← Res.pure_ok_inv hw]
  simp only [List.append_assoc]
  rw [decodeVariablesMetadata, bind_ok (readInt_RT _ F.2 _), Nat.mod_eq_of_lt hcl', bind_ok (readInt_RT _ hcl' _)]
  -- partition-key indices
  rw [bind_ok (whenP_optB_RT (decide (version ≥ ProtocolVersion4)) decodePkIndices none
    (if version ≥ ProtocolVersion4 then nonEmptyOpt m.pkIndices else none) _ _
    (fun h => by
      rw [if_pos (of_decide_eq_true h), ← hpk.2]
      exact decodePkIndices_RT _ hpk.1.1 hpk.1.2 _)
    (fun h => by rw [if_neg (of_decide_eq_false h)]))]
  -- columns
  rw [pos32_length _ hcl]
  rw [bind_ok (whenP_whenW_RT (decide ((m.columns.getD []).length > 0)) _ none
    ((nonEmptyOpt m.columns).map canonColumns) _ colsB hcols rest
    (fun h b' hb' => by
      have hvc : ValidColumns (VariablesFlag_Contains m.flags VariablesFlagGlobalTablesSpec) (m.columns.getD []) :=
        ⟨hcl, hce, fun hg => by
          rw [F.1, h] at hg; exact hg⟩
      rw [map_run, decodeColumnsMetadata_RT version _ _ hvc b' hb' rest, nonEmptyOpt, if_pos (of_decide_eq_true h)]
      rfl)
    (fun h => by rw [nonEmptyOpt, if_neg (of_decide_eq_false h)]; rfl))]
  rfl

theorem decodeVariablesMetadata_RT (version : Nat) (m? : Option VariablesMetadata)
    (hv : ∀ m, m? = some m → ValidVariablesMetadata version m) (b : Bytes)
    (hw : encodeVariablesMetadata version m? = .ok b) (rest : Bytes) :
    (decodeVariablesMetadata version).run (b ++ rest) = .ok (canonVariablesMetadata version m?, rest) := by
  rw [encodeVariablesMetadata] at hw
  rw [canonVariablesMetadata]
  exact decodeVariablesMetadata'_RT version _ (ValidVariablesMetadata.getD hv) b hw rest

theorem encodeVariablesMetadata'_len (version : Nat) (m : VariablesMetadata) (b : Bytes)
    (hw : encodeVariablesMetadata' version m = .ok b) : lengthOfVariablesMetadata' version m = .ok b.length := by
  rw [encodeVariablesMetadata'] at hw
  obtain ⟨colsB, hcols, hw⟩ := Res.bind_ok_inv hw
  rw [lengthOfVariablesMetadata', whenL_whenW_len _ _ _ colsB hcols
      (fun _ b' hb' => encodeColumnsMetadata_len version _ _ b' hb'),
    ← Res.pure_ok_inv hw, List.length_append, List.length_append, List.length_append, writeInt_len, writeInt_len,
    optB_len _ _ _ (encodePkIndices_len _)]
  rfl

theorem encodeVariablesMetadata_len (version : Nat) (m? : Option VariablesMetadata) (b : Bytes)
    (hw : encodeVariablesMetadata version m? = .ok b) : lengthOfVariablesMetadata version m? = .ok b.length := by
  rw [encodeVariablesMetadata] at hw
  rw [lengthOfVariablesMetadata]
  exact encodeVariablesMetadata'_len version _ b hw

theorem encodeVariablesMetadata'_ok (version : Nat) (m : VariablesMetadata) (hv : ValidVariablesMetadata version m) :
    ∃ b, encodeVariablesMetadata' version m = .ok b := by
  obtain ⟨hcl, hce⟩ := validColumns_getD m.columns hv.columns
  have F := vflags_has (decide ((m.columns.getD []).length > 0) && haveSameTable (m.columns.getD []))
  rw [← VariablesMetadata.flags] at F
  have hc : ∃ colsB, whenW (decide ((m.columns.getD []).length > 0))
      (encodeColumnsMetadata version (VariablesFlag_Contains m.flags VariablesFlagGlobalTablesSpec)
        (m.columns.getD [])) = .ok colsB := by
    cases h : decide ((m.columns.getD []).length > 0) with
    | false => exact ⟨[], rfl⟩
    | true =>
      rw [whenW_true]
      exact encodeColumnsMetadata_ok version _ _ ⟨hcl, hce, fun hg => by rw [F.1, h] at hg; exact hg⟩
  obtain ⟨colsB, hc⟩ := hc
  rw [encodeVariablesMetadata']
  exact ⟨_, Res.bind_eq_ok hc _⟩

theorem encodeVariablesMetadata_ok (version : Nat) (m? : Option VariablesMetadata)
    (hv : ∀ m, m? = some m → ValidVariablesMetadata version m) : ∃ b, encodeVariablesMetadata version m? = .ok b := by
  rw [encodeVariablesMetadata]
  exact encodeVariablesMetadata'_ok version _ (ValidVariablesMetadata.getD hv)

theorem decodeVariablesMetadata_noPanic (version : Nat) : NoPanic (decodeVariablesMetadata version) := by
  rw [decodeVariablesMetadata]
  no_panic [decodePkIndices_noPanic, decodeColumnsMetadata_noPanic version]

/-! ### rows metadata -/

/-- version-validity of `<metadata>` of a Rows result / `<result_metadata>` of a Prepared result (spec §4.2.5.2):
    `<columns_count>` is a non-negative `[int]` and, when column specifications are given, it is their number;
    `<paging_state>` is `[bytes]`, `<new_metadata_id>` is `[short bytes]` and exists from v5 / DSE v2 only; the
    continuous-paging fields exist in the DSE versions only. (`newIdVersion` and `dse` come from the specs; the round
    trip itself does not need them: the codec writes and reads those fields whatever the version.) -/
structure ValidRowsMetadata (version : Nat) (m : RowsMetadata) : Prop where
  columnCount : m.columnCount < 2147483648
  columns : ∀ cols, m.columns = some cols → cols ≠ [] → m.columnCount = cols.length ∧ ∀ c ∈ cols, ValidColumn c
  pagingState : ∀ c, m.pagingState = some c → c.length < 2147483648
  newId : ∀ c, m.newResultMetadataId = some c → c.length < 65536
  newIdVersion : m.newResultMetadataId.isSome = true → ProtocolVersion_SupportsResultMetadataId version = true
  page : m.continuousPageNumber < 4294967296
  dse : ProtocolVersion_IsDse version = false → m.continuousPageNumber = 0 ∧ m.lastContinuousPage = false

/-- what the wire cannot carry:
    * a `ContinuousPageNumber ≤ 0` sets no flag and is not written: it reads back 0, and `LastContinuousPage`
      (a sub-flag of continuous paging) reads back false;
    * nil and empty `Columns` both mean NO_METADATA, under which the decoder leaves `Columns` nil;
    * `ColumnMetadata.Index` is never encoded.
    `PagingState` (`[bytes]` under a presence flag) and `NewResultMetadataId` (nil = flag clear, empty = flag set
    with length 0) keep their nil / empty distinction. -/
def canonRowsMetadata' (_version : Nat) (m : RowsMetadata) : RowsMetadata :=
  { columnCount := m.columnCount
    pagingState := m.pagingState
    newResultMetadataId := m.newResultMetadataId
    continuousPageNumber := if pos32 m.continuousPageNumber then m.continuousPageNumber else 0
    lastContinuousPage := pos32 m.continuousPageNumber && m.lastContinuousPage
    columns := (nonEmptyOpt m.columns).map canonColumns }

/-- a nil `*RowsMetadata` is encoded as `&RowsMetadata{}`; the decoder always returns a struct -/
def canonRowsMetadata (version : Nat) (m? : Option RowsMetadata) : RowsMetadata :=
  canonRowsMetadata' version (m?.getD RowsMetadata.zero)

theorem validRowsMetadata_zero (version : Nat) : ValidRowsMetadata version RowsMetadata.zero :=
  ⟨by decide, fun _ h => (by cases h), fun _ h => (by cases h), fun _ h => (by cases h), fun h => (by cases h),
    by decide, fun _ => ⟨rfl, rfl⟩⟩

theorem ValidRowsMetadata.getD {version : Nat} {m? : Option RowsMetadata}
    (hv : ∀ m, m? = some m → ValidRowsMetadata version m) :
    ValidRowsMetadata version (m?.getD RowsMetadata.zero) := by
  cases m? with
  | none => exact validRowsMetadata_zero version
  | some m => exact hv m rfl

/-- with column specifications present, ColumnCount is their number and each is valid -/
theorem ValidRowsMetadata.cols {version : Nat} {m : RowsMetadata} (hv : ValidRowsMetadata version m)
    (h : (m.columns.getD []).length > 0) :
    m.columnCount = (m.columns.getD []).length ∧ ∀ c ∈ m.columns.getD [], ValidColumn c := by
  cases hc : m.columns with
  | none => rw [hc] at h; cases h
  | some cols =>
    rw [hc] at h
    exact hv.columns cols hc (by intro h'; rw [h'] at h; cases h)

theorem countMismatch_valid {version : Nat} {m : RowsMetadata} (hv : ValidRowsMetadata version m) :
    countMismatch m.columnCount (m.columns.getD []).length = false := by
  rw [countMismatch]
  by_cases h : (m.columns.getD []).length > 0
  · have hc := (hv.cols h).1
    have hlt := hv.columnCount
    rw [toInt32, if_neg (by omega), decide_eq_true h, hc, decide_eq_false (by intro h'; exact h' rfl)]; rfl
  · rw [decide_eq_false h]; rfl

/-- the encoder writes column specifications exactly when NO_METADATA is clear -/
theorem writesColumns_eq (m : RowsMetadata) :
    writesColumns m.flags (m.columns.getD []).length = !(RowsFlag_Contains m.flags RowsFlagNoMetadata) ∧
    (!(RowsFlag_Contains m.flags RowsFlagNoMetadata)) = decide ((m.columns.getD []).length > 0) := by
  have F := rflags_has (decide ((m.columns.getD []).length = 0)) (haveSameTable (m.columns.getD []))
    m.pagingState.isSome m.newResultMetadataId.isSome (pos32 m.continuousPageNumber) m.lastContinuousPage
  rw [← RowsMetadata.flags] at F
  rw [writesColumns, F.1]
  by_cases h : (m.columns.getD []).length = 0
  · rw [decide_eq_true h, decide_eq_false (by omega)]; exact ⟨rfl, rfl⟩
  · rw [decide_eq_false h, decide_eq_true (by omega)]; exact ⟨rfl, rfl⟩

theorem validColumns_rows {version : Nat} {m : RowsMetadata} (hv : ValidRowsMetadata version m)
    (h : (m.columns.getD []).length > 0) :
    ValidColumns (RowsFlag_Contains m.flags RowsFlagGlobalTablesSpec) (m.columns.getD []) := by
  have F := rflags_has (decide ((m.columns.getD []).length = 0)) (haveSameTable (m.columns.getD []))
    m.pagingState.isSome m.newResultMetadataId.isSome (pos32 m.continuousPageNumber) m.lastContinuousPage
  rw [← RowsMetadata.flags] at F
  obtain ⟨hcc, hce⟩ := hv.cols h
  refine ⟨by rw [← hcc]; exact hv.columnCount, hce, fun hg => ?_⟩
  rw [F.2.1, decide_eq_false (by omega)] at hg
  exact hg

theorem decodeRowsMetadata'_RT (version : Nat) (m : RowsMetadata) (hv : ValidRowsMetadata version m)
    (b : Bytes) (hw : encodeRowsMetadata' version m = .ok b) (rest : Bytes) :
    (decodeRowsMetadata version).run (b ++ rest) = .ok (canonRowsMetadata' version m, rest) := by
  rw [encodeRowsMetadata'] at hw
  obtain ⟨_, _, hw⟩ := Res.bind_ok_inv hw
  obtain ⟨colsB, hcols, hw⟩ := Res.bind_ok_inv hw
  have F := rflags_has (decide ((m.columns.getD []).length = 0)) (haveSameTable (m.columns.getD []))
    m.pagingState.isSome m.newResultMetadataId.isSome (pos32 m.continuousPageNumber) m.lastContinuousPage
  rw [← RowsMetadata.flags] at F
  obtain ⟨_, _, f3, f4, f5, f6, flt⟩ := F
  obtain ⟨hwc, hnm⟩ := writesColumns_eq m
  rw [hwc] at hcols
  have hcc : m.columnCount < 4294967296 := by have := hv.columnCount; omega
  rw [← Res.pure_ok_inv hw]
  simp only [List.append_assoc]
  rw [decodeRowsMetadata, bind_ok (readInt_RT _ flt _), bind_ok (readInt_RT _ hcc _)]
  -- paging state
  rw [bind_ok (whenP_optB_RT (RowsFlag_Contains m.flags RowsFlagHasMorePages) readBytes none m.pagingState _ _
    (fun _ => readBytes_RT _ hv.pagingState _)
    (fun h => by rw [f3] at h; cases hp : m.pagingState with
      | none => rfl
      | some x => rw [hp] at h; cases h))]
  -- new result metadata id
  rw [bind_ok (whenP_optB_RT (RowsFlag_Contains m.flags RowsFlagMetadataChanged) readShortBytes none
    m.newResultMetadataId _ _
    (fun h => by
      rw [f4] at h
      cases hp : m.newResultMetadataId with
      | none => rw [hp] at h; cases h
      | some x => exact readShortBytes_RT (some x) (hv.newId x hp) _)
    (fun h => by rw [f4] at h; cases hp : m.newResultMetadataId with
      | none => rfl
      | some x => rw [hp] at h; cases h))]
  -- continuous page number
  rw [bind_ok (whenP_optB_RT (RowsFlag_Contains m.flags RowsFlagDseContinuousPaging) readInt 0
    (if pos32 m.continuousPageNumber then m.continuousPageNumber else 0) _ _
    (fun h => by rw [f5] at h; rw [if_pos h]; exact readInt_RT _ hv.page _)
    (fun h => by rw [f5] at h; rw [h]; rfl))]
  -- column specifications
  rw [bind_ok (whenP_whenW_RT (!(RowsFlag_Contains m.flags RowsFlagNoMetadata)) _ none
    ((nonEmptyOpt m.columns).map canonColumns) _ colsB hcols rest
    (fun h b' hb' => by
      rw [hnm] at h
      have hpos := of_decide_eq_true h
      rw [map_run, (hv.cols hpos).1, decodeColumnsMetadata_RT version _ _ (validColumns_rows hv hpos) b' hb' rest,
        nonEmptyOpt, if_pos hpos]
      rfl)
    (fun h => by rw [hnm] at h; rw [nonEmptyOpt, if_neg (of_decide_eq_false h)]; rfl))]
  rw [f5, f6]
  have hb : (pos32 m.continuousPageNumber && (pos32 m.continuousPageNumber && m.lastContinuousPage)) =
      (pos32 m.continuousPageNumber && m.lastContinuousPage) := by
    cases pos32 m.continuousPageNumber <;> rfl
  rw [hb]
  rfl

theorem decodeRowsMetadata_RT (version : Nat) (m? : Option RowsMetadata)
    (hv : ∀ m, m? = some m → ValidRowsMetadata version m) (b : Bytes)
    (hw : encodeRowsMetadata version m? = .ok b) (rest : Bytes) :
    (decodeRowsMetadata version).run (b ++ rest) = .ok (canonRowsMetadata version m?, rest) := by
  rw [encodeRowsMetadata] at hw
  rw [canonRowsMetadata]
  exact decodeRowsMetadata'_RT version _ (ValidRowsMetadata.getD hv) b hw rest

theorem encodeRowsMetadata'_len (version : Nat) (m : RowsMetadata) (b : Bytes)
    (hw : encodeRowsMetadata' version m = .ok b) : lengthOfRowsMetadata' version m = .ok b.length := by
  rw [encodeRowsMetadata'] at hw
  obtain ⟨_, _, hw⟩ := Res.bind_ok_inv hw
  obtain ⟨colsB, hcols, hw⟩ := Res.bind_ok_inv hw
  rw [lengthOfRowsMetadata', whenL_whenW_len _ _ _ colsB hcols
      (fun _ b' hb' => encodeColumnsMetadata_len version _ _ b' hb'),
    ← Res.pure_ok_inv hw, List.length_append, List.length_append, List.length_append, List.length_append,
    List.length_append, writeInt_len, writeInt_len, optB_len _ _ _ (writeBytes_len _),
    optB_len _ _ _ (writeShortBytes_len _), optB_len _ _ _ (writeInt_len _)]
  rfl

theorem encodeRowsMetadata_len (version : Nat) (m? : Option RowsMetadata) (b : Bytes)
    (hw : encodeRowsMetadata version m? = .ok b) : lengthOfRowsMetadata version m? = .ok b.length := by
  rw [encodeRowsMetadata] at hw
  rw [lengthOfRowsMetadata]
  exact encodeRowsMetadata'_len version _ b hw

theorem encodeRowsMetadata'_ok (version : Nat) (m : RowsMetadata) (hv : ValidRowsMetadata version m) :
    ∃ b, encodeRowsMetadata' version m = .ok b := by
  obtain ⟨hwc, hnm⟩ := writesColumns_eq m
  have hc : ∃ colsB, whenW (writesColumns m.flags (m.columns.getD []).length)
      (encodeColumnsMetadata version (RowsFlag_Contains m.flags RowsFlagGlobalTablesSpec)
        (m.columns.getD [])) = .ok colsB := by
    rw [hwc, hnm]
    cases h : decide ((m.columns.getD []).length > 0) with
    | false => exact ⟨[], rfl⟩
    | true =>
      rw [whenW_true]
      exact encodeColumnsMetadata_ok version _ _ (validColumns_rows hv (of_decide_eq_true h))
  obtain ⟨colsB, hc⟩ := hc
  have hg : guard (!(countMismatch m.columnCount (m.columns.getD []).length))
      "invalid RESULT Rows metadata: ColumnCount != len(Columns)" = .ok () := by
    rw [countMismatch_valid hv]; rfl
  rw [encodeRowsMetadata']
  exact ⟨_, (Res.bind_eq_ok hg _).trans (Res.bind_eq_ok hc _)⟩

theorem encodeRowsMetadata_ok (version : Nat) (m? : Option RowsMetadata)
    (hv : ∀ m, m? = some m → ValidRowsMetadata version m) : ∃ b, encodeRowsMetadata version m? = .ok b := by
  rw [encodeRowsMetadata]
  exact encodeRowsMetadata'_ok version _ (ValidRowsMetadata.getD hv)

theorem decodeRowsMetadata_noPanic (version : Nat) : NoPanic (decodeRowsMetadata version) := by
  rw [decodeRowsMetadata]
  no_panic [NoPanic.readBytes, NoPanic.readShortBytes, decodeColumnsMetadata_noPanic version]

/-! ### RESULT Prepared -/

/-- version-validity of a Prepared result (spec §4.2.5.4): `<id>` is a mandatory `[short bytes]`;
    `<result_metadata_id>` is a mandatory `[short bytes]` from v5 / DSE v2 on (nothing is asked where the field does
    not exist: `canonPreparedBody` says it is dropped); both metadata blocks are valid. The specs do not say in so
    many words that the ids are non-empty; the encoder refuses empty ones, so `encodePreparedBody_ok` needs it. -/
structure ValidPreparedBody (version : Nat) (p : PreparedResult) : Prop where
  id : ∃ b, p.preparedQueryId = some b ∧ b ≠ [] ∧ b.length < 65536
  resultId : ProtocolVersion_SupportsResultMetadataId version = true →
    ∃ b, p.resultMetadataId = some b ∧ b ≠ [] ∧ b.length < 65536
  variables : ∀ m, p.variables = some m → ValidVariablesMetadata version m
  result : ∀ m, p.result = some m → ValidRowsMetadata version m

/-- what the wire cannot carry:
    * `ResultMetadataId` is not encoded where the version has no result metadata id: it reads back nil;
    * nil metadata pointers are encoded as the zero structs and the decoder always returns structs (see
      `canonVariablesMetadata`, `canonRowsMetadata` for what is erased inside them).
    The two `[short bytes]` ids read back as they are: nil / empty ones (which `[short bytes]` would conflate) are
    refused by the encoder. -/
def canonPreparedBody (version : Nat) (p : PreparedResult) : PreparedResult :=
  { preparedQueryId := p.preparedQueryId
    resultMetadataId := if ProtocolVersion_SupportsResultMetadataId version then p.resultMetadataId else none
    variables := some (canonVariablesMetadata version p.variables)
    result := some (canonRowsMetadata version p.result) }

theorem decodePreparedBody_RT (version : Nat) (p : PreparedResult) (hv : ValidPreparedBody version p) (b : Bytes)
    (hw : encodePreparedBody version p = .ok b) (rest : Bytes) :
    (decodePreparedBody version).run (b ++ rest) = .ok (canonPreparedBody version p, rest) := by
  rw [encodePreparedBody] at hw
  obtain ⟨_, _, hw⟩ := Res.bind_ok_inv hw
  obtain ⟨_, _, hw⟩ := Res.bind_ok_inv hw
  obtain ⟨vars, hvars, hw⟩ := Res.bind_ok_inv hw
  obtain ⟨res, hres, hw⟩ := Res.bind_ok_inv hw
  obtain ⟨idb, hid, _, hlt⟩ := hv.id
  rw [← Res.pure_ok_inv hw]
  simp only [List.append_assoc]
  rw [decodePreparedBody, hid, bind_ok (readShortBytes_RT (some idb) hlt _)]
  rw [bind_ok (whenP_optB_RT (ProtocolVersion_SupportsResultMetadataId version) readShortBytes none
    (if ProtocolVersion_SupportsResultMetadataId version then p.resultMetadataId else none) _ _
    (fun h => by
      obtain ⟨r, hr, _, hrl⟩ := hv.resultId h
      rw [if_pos h, hr]; exact readShortBytes_RT (some r) hrl _)
    (fun h => by rw [h]; rfl))]
  rw [bind_ok (decodeVariablesMetadata_RT version p.variables hv.variables vars hvars _),
    bind_ok (decodeRowsMetadata_RT version p.result hv.result res hres rest), canonPreparedBody, hid]
  rfl

theorem encodePreparedBody_len (version : Nat) (p : PreparedResult) (b : Bytes)
    (hw : encodePreparedBody version p = .ok b) : lengthOfPreparedBody version p = .ok b.length := by
  rw [encodePreparedBody] at hw
  obtain ⟨_, _, hw⟩ := Res.bind_ok_inv hw
  obtain ⟨_, _, hw⟩ := Res.bind_ok_inv hw
  obtain ⟨vars, hvars, hw⟩ := Res.bind_ok_inv hw
  obtain ⟨res, hres, hw⟩ := Res.bind_ok_inv hw
  rw [lengthOfPreparedBody, encodeVariablesMetadata_len version p.variables vars hvars,
    encodeRowsMetadata_len version p.result res hres, ← Res.pure_ok_inv hw, List.length_append, List.length_append,
    List.length_append, writeShortBytes_len, optB_len _ _ _ (writeShortBytes_len _)]
  rfl

theorem nonempty_length_bne (b : Bytes) (h : b ≠ []) : (b.length != 0) = true := by
  cases b with
  | nil => exact absurd rfl h
  | cons x xs => rfl

theorem encodePreparedBody_ok (version : Nat) (p : PreparedResult) (hv : ValidPreparedBody version p) :
    ∃ b, encodePreparedBody version p = .ok b := by
  obtain ⟨idb, hid, hne, _⟩ := hv.id
  have g1 : guard ((p.preparedQueryId.getD []).length != 0) "cannot write empty RESULT Prepared query id" = .ok () := by
    rw [hid, Option.getD_some, nonempty_length_bne idb hne]; rfl
  have g2 : guard (!(ProtocolVersion_SupportsResultMetadataId version) || (p.resultMetadataId.getD []).length != 0)
      "cannot write empty RESULT Prepared result metadata id" = .ok () := by
    cases hs : ProtocolVersion_SupportsResultMetadataId version with
    | false => rfl
    | true =>
      obtain ⟨r, hr, hrne, _⟩ := hv.resultId hs
      rw [hr, Option.getD_some, nonempty_length_bne r hrne]; rfl
  obtain ⟨vars, hvars⟩ := encodeVariablesMetadata_ok version p.variables hv.variables
  obtain ⟨res, hres⟩ := encodeRowsMetadata_ok version p.result hv.result
  rw [encodePreparedBody]
  exact ⟨_, (Res.bind_eq_ok g1 _).trans ((Res.bind_eq_ok g2 _).trans
    ((Res.bind_eq_ok hvars _).trans (Res.bind_eq_ok hres _)))⟩

theorem decodePreparedBody_noPanic (version : Nat) : NoPanic (decodePreparedBody version) := by
  rw [decodePreparedBody]
  no_panic [NoPanic.readShortBytes, decodeVariablesMetadata_noPanic version, decodeRowsMetadata_noPanic version]

/-! ### RESULT Rows -/

/-- one row of `<rows_content>`: `ColumnCount` cells, each a `[bytes]` -/
def ValidRow (columnCount : Nat) (row : Option (List (Option Bytes))) : Prop :=
  (row.getD []).length = columnCount ∧ ∀ cell ∈ row.getD [], ∀ c, cell = some c → c.length < 2147483648

/-- a nil row reads back as an empty row (`ValidRow` allows a nil row only when ColumnCount = 0) -/
def canonRow (row : Option (List (Option Bytes))) : Option (List (Option Bytes)) := some (row.getD [])

theorem decodeRow_RT (columnCount : Nat) (row : Option (List (Option Bytes))) (hv : ValidRow columnCount row)
    (rest : Bytes) :
    (some <$> readN columnCount readBytes).run (encodeRow row ++ rest) = .ok (canonRow row, rest) := by
  rw [map_run, encodeRow, ← hv.1,
    readN_RT_id readBytes writeBytes (row.getD []) (fun cell hc r => readBytes_RT cell (hv.2 cell hc) r) rest,
    canonRow]

theorem decodeRowsData_RT (columnCount : Nat) (data : List (Option (List (Option Bytes))))
    (hc : columnCount < 2147483648) (hl : data.length < 2147483648) (hv : ∀ row ∈ data, ValidRow columnCount row)
    (hz : data ≠ [] → columnCount ≠ 0) (rest : Bytes) :
    (decodeRowsData columnCount).run (encodeRowsData data ++ rest) = .ok (data.map canonRow, rest) := by
  have hl' : data.length < 4294967296 := by omega
  have hn1 : isNeg32 data.length = false := by rw [isNeg32]; exact decide_eq_false (by omega)
  have hn2 : isNeg32 columnCount = false := by rw [isNeg32]; exact decide_eq_false (by omega)
  rw [decodeRowsData, encodeRowsData, Nat.mod_eq_of_lt hl', List.append_assoc, bind_ok (readInt_RT _ hl' _), hn1, hn2,
    if_neg (by decide), if_neg (by decide),
    if_neg (by
      intro h
      exact hz (List.ne_nil_of_length_pos h.1) h.2)]
  exact readN_RT _ encodeRow canonRow data (fun row hr r => decodeRow_RT columnCount row (hv row hr) r) rest

theorem encodeRow_len (row : Option (List (Option Bytes))) : (encodeRow row).length = lengthOfRow row := by
  rw [encodeRow, lengthOfRow, flatten_map_length writeBytes lengthOfBytes _ (fun c _ => writeBytes_len c)]

theorem encodeRowsData_len (data : List (Option (List (Option Bytes)))) :
    (encodeRowsData data).length = lengthOfRowsData data := by
  rw [encodeRowsData, lengthOfRowsData, List.length_append, writeInt_len,
    flatten_map_length encodeRow lengthOfRow data (fun r _ => encodeRow_len r)]
  rfl

theorem decodeRowsData_noPanic (columnCount : Nat) : NoPanic (decodeRowsData columnCount) := by
  rw [decodeRowsData]; no_panic [NoPanic.readBytes]

/-- version-validity of a Rows result (spec §4.2.5.2): valid `<metadata>`; `<rows_count>` is a non-negative `[int]`;
    every row has `<columns_count>` cells (that of the metadata, which for a nil `Metadata` pointer is 0), each a
    `[bytes]`. Rows and cells may be nil (a nil cell is the null value). -/
structure ValidRowsBody (version : Nat) (r : RowsResult) : Prop where
  metadata : ∀ m, r.metadata = some m → ValidRowsMetadata version m
  rowCount : ∀ d, r.data = some d → d.length < 2147483648
  rows : ∀ d, r.data = some d → ∀ row ∈ d, ValidRow (r.metadata.getD RowsMetadata.zero).columnCount row
  /-- a row has at least one column (`<columns_count>` is the number of columns the query selected) -/
  someColumn : ∀ d, r.data = some d → d ≠ [] → (r.metadata.getD RowsMetadata.zero).columnCount ≠ 0

/-- what the wire cannot carry:
    * a nil `Metadata` pointer is encoded as `&RowsMetadata{}`; the decoder always returns a struct;
    * a nil and an empty `Data` are both row count 0 and the decoder always allocates `Data`: both read back empty;
    * a row contributes only its cells, and the decoder allocates every row: a nil row (valid only when
      ColumnCount = 0) reads back as an empty row.
    Cells are `[bytes]`: nil (null) and empty cells stay distinct. -/
def canonRowsBody (version : Nat) (r : RowsResult) : RowsResult :=
  { metadata := some (canonRowsMetadata version r.metadata)
    data := some ((r.data.getD []).map canonRow) }

theorem validRowsData {version : Nat} {r : RowsResult} (hv : ValidRowsBody version r) :
    (r.data.getD []).length < 2147483648 ∧
    ∀ row ∈ r.data.getD [], ValidRow (r.metadata.getD RowsMetadata.zero).columnCount row := by
  cases hd : r.data with
  | none => exact ⟨by decide, fun row h => by cases h⟩
  | some d => exact ⟨hv.rowCount d hd, hv.rows d hd⟩

theorem decodeRowsBody_RT (version : Nat) (r : RowsResult) (hv : ValidRowsBody version r) (b : Bytes)
    (hw : encodeRowsBody version r = .ok b) (rest : Bytes) :
    (decodeRowsBody version).run (b ++ rest) = .ok (canonRowsBody version r, rest) := by
  rw [encodeRowsBody] at hw
  obtain ⟨mb, hm, hw⟩ := Res.bind_ok_inv hw
  obtain ⟨hl, hrows⟩ := validRowsData hv
  have hcc : (canonRowsMetadata version r.metadata).columnCount = (r.metadata.getD RowsMetadata.zero).columnCount := rfl
  rw [← Res.pure_ok_inv hw, List.append_assoc, decodeRowsBody,
    bind_ok (decodeRowsMetadata_RT version r.metadata hv.metadata mb hm _), hcc,
    bind_ok (decodeRowsData_RT _ _ (ValidRowsMetadata.getD hv.metadata).columnCount hl hrows
      (by
        cases hd : r.data with
        | none => intro h; exact absurd rfl h
        | some d => intro h; exact hv.someColumn d hd h) rest)]
  rfl

-- SUSPECT: the hypothesis `hm` is forced. `EncodedLength` refuses a nil `Metadata` although `Encode` accepts it (it
-- writes the zero struct), so for `&RowsResult{}` the two disagree: Encode gives `00000004 00000000 00000000`,
-- EncodedLength gives "cannot compute length of nil RESULT Rows metadata". Nothing is lost on the wire; the frame
-- codec calls EncodedLength first, so such a message cannot be sent uncompressed although its encoding is defined.
theorem encodeRowsBody_len (version : Nat) (r : RowsResult) (hm : r.metadata ≠ none) (b : Bytes)
    (hw : encodeRowsBody version r = .ok b) : lengthOfRowsBody version r = .ok b.length := by
  rw [encodeRowsBody] at hw
  obtain ⟨mb, hmb, hw⟩ := Res.bind_ok_inv hw
  cases hmd : r.metadata with
  | none => exact absurd hmd hm
  | some m =>
    rw [hmd] at hmb
    rw [lengthOfRowsBody, hmd, lengthOfRowsMetadataNonNil, encodeRowsMetadata_len version (some m) mb hmb,
      ← Res.pure_ok_inv hw, List.length_append, encodeRowsData_len]
    rfl

theorem encodeRowsBody_ok (version : Nat) (r : RowsResult) (hv : ValidRowsBody version r) :
    ∃ b, encodeRowsBody version r = .ok b := by
  obtain ⟨mb, hm⟩ := encodeRowsMetadata_ok version r.metadata hv.metadata
  rw [encodeRowsBody]
  exact ⟨_, Res.bind_eq_ok hm _⟩

theorem decodeRowsBody_noPanic (version : Nat) : NoPanic (decodeRowsBody version) := by
  rw [decodeRowsBody]
  no_panic [decodeRowsMetadata_noPanic version, decodeRowsData_noPanic]

/-! ### non-vacuity: concrete valid messages -/

/-- a checkable sufficient condition for `ValidRow` -/
theorem validRow_of (columnCount : Nat) (row : Option (List (Option Bytes)))
    (h1 : (row.getD []).length = columnCount)
    (h2 : (row.getD []).all (fun cell => decide ((cell.getD []).length < 2147483648)) = true) :
    ValidRow columnCount row := by
  refine ⟨h1, fun cell hc c hcell => ?_⟩
  have := of_decide_eq_true (List.all_eq_true.mp h2 cell hc)
  rw [hcell] at this
  exact this

/-- ks "k", table "t", column "a" : list<int> -/
def exColA : ColumnMetadata := ⟨[107], [116], [97], 0, some (.list (.prim DataTypeCodeInt))⟩
/-- ks "k", table "u", column "b" : varchar (and a non-zero `Index`, which `canonColumn` erases) -/
def exColB : ColumnMetadata := ⟨[107], [117], [98], 7, some (.prim DataTypeCodeVarchar)⟩
/-- ks "k", table "t", column "c" : map<varchar, int> -/
def exColC : ColumnMetadata := ⟨[107], [116], [99], 0, some (.map (.prim DataTypeCodeVarchar) (.prim DataTypeCodeInt))⟩

theorem validColumn_exA : ValidColumn exColA :=
  ⟨by decide, by decide, by decide, _, rfl, by rw [DataType.Wf, DataType.Wf]; decide⟩
theorem validColumn_exB : ValidColumn exColB :=
  ⟨by decide, by decide, by decide, _, rfl, by rw [DataType.Wf]; decide⟩
theorem validColumn_exC : ValidColumn exColC :=
  ⟨by decide, by decide, by decide, _, rfl, by rw [DataType.Wf, DataType.Wf, DataType.Wf]; decide⟩

/-- rows metadata with two columns of different tables (so no global table spec), a list<int> column, a paging state -/
def exRowsMetadata : RowsMetadata :=
  { columnCount := 2, pagingState := some [1, 2], newResultMetadataId := none, continuousPageNumber := 0,
    lastContinuousPage := false, columns := some [exColA, exColB] }

theorem validRowsMetadata_ex : ValidRowsMetadata 4 exRowsMetadata where
  columnCount := by decide
  columns := by
    intro cols h _
    cases h
    refine ⟨rfl, fun c hc => ?_⟩
    simp only [List.mem_cons, List.mem_nil_iff, or_false] at hc
    rcases hc with rfl | rfl
    · exact validColumn_exA
    · exact validColumn_exB
  pagingState := by intro c h; cases h; decide
  newId := by intro c h; cases h
  newIdVersion := by intro h; cases h
  page := by decide
  dse := fun _ => ⟨rfl, rfl⟩

example : ValidRowsMetadata 4 exRowsMetadata := validRowsMetadata_ex
example : haveSameTable [exColA, exColB] = false := by decide
example : RowsFlag_Contains exRowsMetadata.flags RowsFlagGlobalTablesSpec = false ∧
    RowsFlag_Contains exRowsMetadata.flags RowsFlagHasMorePages = true := by decide

/-- a NO_METADATA rows result: 2 columns × 3 rows, with null cells and an empty cell -/
def exRowsResult : RowsResult :=
  { metadata := some { RowsMetadata.zero with columnCount := 2 }
    data := some [some [some [1], none], some [some [], some [2, 3]], some [none, none]] }

example : ValidRowsBody 4 exRowsResult where
  metadata := by
    intro m h; cases h
    exact ⟨by decide, fun _ h => (by cases h), fun _ h => (by cases h), fun _ h => (by cases h),
      fun h => (by cases h), by decide, fun _ => ⟨rfl, rfl⟩⟩
  rowCount := by intro d h; cases h; decide
  rows := by
    intro d h row hr
    cases h
    simp only [List.mem_cons, List.mem_nil_iff, or_false] at hr
    rcases hr with rfl | rfl | rfl <;> exact validRow_of _ _ rfl (by decide)
  someColumn := by intro d h _; cases h; decide

/-- a rows result with full metadata (the two-column example above) and one row -/
example : ValidRowsBody 4 ⟨some exRowsMetadata, some [some [some [0, 0, 0, 1, 0, 0, 0, 0], some [120]]]⟩ where
  metadata := by intro m h; cases h; exact validRowsMetadata_ex
  rowCount := by intro d h; cases h; decide
  rows := by
    intro d h row hr
    cases h
    simp only [List.mem_cons, List.mem_nil_iff, or_false] at hr
    rcases hr with rfl
    exact validRow_of _ _ rfl (by decide)
  someColumn := by intro d h _; cases h; decide

/-- bind variables "a", "c" of table k.t (global table spec), partition key = second variable -/
def exVariables : VariablesMetadata := { pkIndices := some [1], columns := some [exColA, exColC] }

theorem validVariables_ex (version : Nat) : ValidVariablesMetadata version exVariables where
  columns := by
    intro cols h
    cases h
    refine ⟨by decide, fun c hc => ?_⟩
    simp only [List.mem_cons, List.mem_nil_iff, or_false] at hc
    rcases hc with rfl | rfl
    · exact validColumn_exA
    · exact validColumn_exC
  pkIndices := by intro l h; cases h; exact ⟨by decide, by decide⟩

example : VariablesFlag_Contains exVariables.flags VariablesFlagGlobalTablesSpec = true := by decide

/-- Prepared on v4: partition-key indices, no result metadata id -/
example : ValidPreparedBody 4 ⟨some [1, 2, 3, 4], none, some exVariables, some exRowsMetadata⟩ where
  id := ⟨_, rfl, by decide, by decide⟩
  resultId := fun h => absurd h (by decide)
  variables := by intro m h; cases h; exact validVariables_ex 4
  result := by intro m h; cases h; exact validRowsMetadata_ex

/-- Prepared on v5: result metadata id; nil result metadata (encoded as the zero struct: NO_METADATA, 0 columns) -/
example : ValidPreparedBody 5 ⟨some [1, 2, 3, 4], some [5, 6, 7, 8], some exVariables, none⟩ where
  id := ⟨_, rfl, by decide, by decide⟩
  resultId := fun _ => ⟨_, rfl, by decide, by decide⟩
  variables := by intro m h; cases h; exact validVariables_ex 5
  result := by intro m h; cases h

end Cql.Impl
