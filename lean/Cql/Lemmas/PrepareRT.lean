import Cql.Impl.Prepare
import Cql.Lemmas.PrimRT
import Cql.Lemmas.NoPanic
namespace Cql.Impl
open Cql Cql.Prim Cql.Parser Cql.Gen

/-- version-validity, from the specs: a non-empty query that fits `[long string]`; a keyspace only where PREPARE has
    flags (v5, DSE v2) -/
structure ValidPrepare (version : Nat) (p : Prepare) : Prop where
  query : p.query ≠ [] ∧ p.query.length < 2147483648
  keyspace : p.keyspace.length < 65536
  keyspaceVersion : p.keyspace ≠ [] → ProtocolVersion_SupportsPrepareFlags version = true

/-- nothing is erased -/
def canonPrepare (_version : Nat) (p : Prepare) : Prepare := p

private theorem flags_facts (ks : Bytes) :
    (PrepareFlag_Contains (Prepare.flags ⟨[], ks⟩) PrepareFlagWithKeyspace = (ks != [])) ∧
    Prepare.flags ⟨[], ks⟩ < 4294967296 := by
  cases ks with
  | nil => decide
  | cons x xs =>
    have h1 : Prepare.flags ⟨[], x :: xs⟩ = PrepareFlag_Add 0 PrepareFlagWithKeyspace := rfl
    have h2 : ((x :: xs : Bytes) != []) = true := rfl
    rw [h1, h2]; exact ⟨by decide, by decide⟩

private theorem flags_eq (p : Prepare) : p.flags = Prepare.flags ⟨[], p.keyspace⟩ := rfl

theorem decodePrepare_RT (version : Nat) (p : Prepare) (hv : ValidPrepare version p) (b : Bytes)
    (hw : encodePrepare version p = .ok b) (rest : Bytes) :
    (decodePrepare version).run (b ++ rest) = .ok (canonPrepare version p, rest) := by
  rw [encodePrepare] at hw
  obtain ⟨_, _, hw⟩ := Res.bind_ok_inv hw
  obtain ⟨tail, htail, hw⟩ := Res.bind_ok_inv hw
  rw [← Res.pure_ok_inv hw, List.append_assoc, decodePrepare, bind_ok (readLongString_RT _ hv.query.2 _)]
  have hf := flags_facts p.keyspace
  rw [← flags_eq] at hf
  rw [bind_ok (whenP_whenW_RT (ProtocolVersion_SupportsPrepareFlags version) decodePrepareTail [] p.keyspace _ tail htail rest
    (fun _ b' hb' => by
      obtain ⟨ks, hks, hb'⟩ := Res.bind_ok_inv hb'
      rw [← Res.pure_ok_inv hb', decodePrepareTail, List.append_assoc, bind_ok (readInt_RT _ hf.2 _)]
      exact whenP_whenW_RT _ readString [] p.keyspace _ ks hks rest
        (fun _ b'' hb'' => by
          obtain ⟨_, _, hb''⟩ := Res.bind_ok_inv hb''
          rw [← Res.pure_ok_inv hb'']; exact readString_RT _ hv.keyspace _)
        (fun h => by
          rw [hf.1] at h
          cases hk : p.keyspace with
          | nil => rfl
          | cons x xs => rw [hk] at h; cases h))
    (fun h => by
      cases hk : p.keyspace with
      | nil => rfl
      | cons x xs =>
        have := hv.keyspaceVersion (by rw [hk]; intro h'; cases h')
        rw [this] at h; cases h))]
  rfl

theorem encodePrepare_len (version : Nat) (p : Prepare) (b : Bytes) (hw : encodePrepare version p = .ok b) :
    lengthOfPrepare version p = .ok b.length := by
  rw [encodePrepare] at hw
  obtain ⟨_, _, hw⟩ := Res.bind_ok_inv hw
  obtain ⟨tail, htail, hw⟩ := Res.bind_ok_inv hw
  rw [← Res.pure_ok_inv hw, lengthOfPrepare, List.length_append, writeLongString_len]
  have hf := flags_facts p.keyspace
  rw [← flags_eq] at hf
  cases hs : ProtocolVersion_SupportsPrepareFlags version with
  | false =>
    rw [hs, whenW_false] at htail
    rw [← Res.ok_inj htail]; rfl
  | true =>
    rw [hs, whenW_true] at htail
    obtain ⟨ks, hks, htail⟩ := Res.bind_ok_inv htail
    rw [← Res.pure_ok_inv htail, List.length_append, writeInt_len]
    rw [hf.1] at hks
    cases hk : (p.keyspace != []) with
    | false => rw [hk, whenW_false] at hks; rw [← Res.ok_inj hks]; rfl
    | true =>
      rw [hk, whenW_true] at hks
      obtain ⟨_, _, hks⟩ := Res.bind_ok_inv hks
      rw [← Res.pure_ok_inv hks, writeString_len]; rfl

/-- the encoder refuses no valid message -/
theorem encodePrepare_ok (version : Nat) (p : Prepare) (hv : ValidPrepare version p) :
    ∃ b, encodePrepare version p = .ok b := by
  have hq : (p.query != []) = true := by simpa using hv.query.1
  rw [encodePrepare, hq]
  cases hs : ProtocolVersion_SupportsPrepareFlags version with
  | false => exact ⟨_, rfl⟩
  | true =>
    have hf := flags_facts p.keyspace
    rw [← flags_eq] at hf
    cases hk : (p.keyspace != []) with
    | false =>
      refine ⟨writeLongString p.query ++ (writeInt p.flags ++ []), ?_⟩
      show (guard true _ >>= fun _ => whenW true (whenW _ _ >>= _) >>= _) = _
      rw [hf.1, hk]; rfl
    | true =>
      refine ⟨writeLongString p.query ++ (writeInt p.flags ++ writeString p.keyspace), ?_⟩
      show (guard true _ >>= fun _ => whenW true (whenW _ _ >>= _) >>= _) = _
      rw [hf.1, hk]; rfl

theorem decodePrepare_noPanic (version : Nat) : NoPanic (decodePrepare version) := by
  have h1 : NoPanic decodePrepareTail := by rw [decodePrepareTail]; no_panic [NoPanic.readString]
  rw [decodePrepare]; no_panic [NoPanic.readLongString, h1]

/-- non-vacuity -/
example : ValidPrepare 5 ⟨[81], [107]⟩ := ⟨⟨by decide, by decide⟩, by decide, fun _ => by decide⟩

end Cql.Impl
