import Cql.Bytes
/-! State spaces for the regenerated accessor/mutator functions (`Cql.Gen.Startup_*`, `Cql.Gen.Frame_*`). -/
namespace Cql

/-- a Go `map[string]string` seen through its lookups -/
abbrev OptMap := Bytes → Option Bytes

def OptMap.empty : OptMap := fun _ => none
def OptMap.set (m : OptMap) (k v : Bytes) : OptMap := fun k' => if k' = k then some v else m k'
def OptMap.del (m : OptMap) (k : Bytes) : OptMap := fun k' => if k' = k then none else m k'

theorem OptMap.set_same (m : OptMap) (k v : Bytes) : (m.set k v) k = some v := by simp [OptMap.set]
theorem OptMap.set_other (m : OptMap) (k v k' : Bytes) (h : k' ≠ k) : (m.set k v) k' = m k' := by simp [OptMap.set, h]
theorem OptMap.del_same (m : OptMap) (k : Bytes) : (m.del k) k = none := by simp [OptMap.del]
theorem OptMap.del_other (m : OptMap) (k k' : Bytes) (h : k' ≠ k) : (m.del k) k' = m k' := by simp [OptMap.del, h]

/-- `len` of a possibly-nil slice or map -/
def optLen {α} : Option (List α) → Nat
  | none => 0
  | some l => l.length

/-- the parts of a `frame.Frame` the mutators read or write -/
structure MutFrame where
  flags : Nat
  tracingId : Option Bytes
  customPayload : Option (List (Bytes × Option Bytes))
  warnings : Option (List Bytes)
  opcode : Nat
  deriving Repr, DecidableEq

end Cql
