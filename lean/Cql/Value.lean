import Cql.DataType
import Cql.Vint
/-!
# CQL value codecs, byte level (mirrors `datacodec/*.go`)

Each Go codec is (a) a conversion between Go representations and one canonical intermediate, and (b) `write*`/`read*`
of that intermediate plus the recursion of the collection / map / tuple / UDT codecs over their element codecs. This
file models (b). A decoded value is a representation-independent `CqlVal`; `none` is NULL (`[]byte(nil)` on the wire
side, `wasNull` on the value side). The only part of (a) kept here is what decides between "value", "NULL" and
"error" for the canonical intermediates themselves (integer ranges of the fixed-width types, the 16-byte check on
uuids, `To4()` on addresses).

Fixed-width Go integers are unsigned bit patterns (`Nat`); `*big.Int` is `Int`; `float32`/`float64` are their IEEE
bit patterns.
-/
namespace Cql.Value
open Cql Cql.Prim Cql.Gen Cql.Vint

/-- a decoded, representation-independent CQL value -/
inductive CqlVal where
  | int (v : Int)              -- bigint counter int smallint tinyint varint date (the int32 days value) time timestamp
  | bool (b : Bool)
  | float (bits : Nat)
  | double (bits : Nat)
  | bytes (b : Bytes)          -- blob custom varchar ascii uuid timeuuid inet (4 or 16 bytes)
  | decimal (unscaled : Int) (scale : Int)
  | duration (months days nanos : Int)
  | list (elems : List (Option CqlVal))        -- list and set; `none` = null element
  | map (entries : List (Option CqlVal × Option CqlVal))
  | tuple (fields : List (Option CqlVal))
  | udt (fields : List (Option CqlVal))
  deriving Repr

/-! ## Res / Parser glue -/

/-- run a fallible step inside a reader -/
def liftR {α} (r : Res α) : Parser α :=
  ⟨fun s => match r with
    | .ok a => .ok (a, s)
    | .err e => .err e
    | .panic e => .panic e⟩

/-- `reader.Len()` -/
def remaining : Parser Nat := ⟨fun s => .ok (s.length, s)⟩

/-- run a reader over the whole of `source`, then `if remaining := reader.Len(); remaining != 0 { errBytesRemaining }` -/
def readAll {α} (p : Parser α) (source : Bytes) : Res α :=
  match p.run source with
  | .ok (a, rest) => if rest.length = 0 then .ok a else .err "bytes remaining"
  | .err e => .err e
  | .panic e => .panic e

/-! ## fixed-width scalars: `writeIntN` / `readIntN`, `writeBool` / `readBool`, `writeFloatN` / `readFloatN` -/

/-- common shape of every fixed-length `read*`: `length == 0` is NULL, any other wrong length is an error -/
def readFixed (k : Nat) (source : Bytes) : Res (Option Nat) :=
  if source.length = 0 then .ok none
  else if source.length ≠ k then .err "wrong fixed length"
  else .ok (some (beNat source))

def writeInt64 (val : Nat) : Bytes := beBytes 8 val
def readInt64 (source : Bytes) : Res (Option Nat) := readFixed 8 source
def writeInt32 (val : Nat) : Bytes := beBytes 4 val
def readInt32 (source : Bytes) : Res (Option Nat) := readFixed 4 source
def writeInt16 (val : Nat) : Bytes := beBytes 2 val
def readInt16 (source : Bytes) : Res (Option Nat) := readFixed 2 source
def writeInt8 (val : Nat) : Bytes := beBytes 1 val
def readInt8 (source : Bytes) : Res (Option Nat) := readFixed 1 source
def writeFloat32 (bits : Nat) : Bytes := beBytes 4 bits
def readFloat32 (source : Bytes) : Res (Option Nat) := readFixed 4 source
def writeFloat64 (bits : Nat) : Bytes := beBytes 8 bits
def readFloat64 (source : Bytes) : Res (Option Nat) := readFixed 8 source

def writeBool (val : Bool) : Bytes := if val then [1] else [0]

/-- `val = source[0] != 0` -/
def readBool (source : Bytes) : Res (Option Bool) := do
  let r ← readFixed 1 source
  pure (r.map fun n => decide (n ≠ 0))

/-! ## varint: `writeBigInt` / `readBigInt` over `math/big` -/

/-- `(*big.Int).Bytes()` of a non-negative value: big-endian magnitude without leading zero bytes (empty for 0) -/
def natBytes (n : Nat) : Bytes := beBytes ((bitLen n + 7) / 8) n

/-- `b[0]&0x80 > 0` (`b` non-empty at every use) -/
def topBitSet : Bytes → Bool
  | [] => false
  | b :: _ => decide (b.toNat &&& 128 > 0)

/-- `if len(b) >= 2 && b[0] == 0xff && b[1]&0x80 != 0 { b = b[1:] }` -/
def stripFF : Bytes → Bytes
  | b0 :: b1 :: tl => if b0.toNat = 255 ∧ b1.toNat &&& 128 ≠ 0 then b1 :: tl else b0 :: b1 :: tl
  | b => b

/-- `if b[0]&0x80 > 0 { b = append([]byte{0}, b...) }` -/
def padSign (b : Bytes) : Bytes := if topBitSet b then 0 :: b else b

/-- `length := uint(n.BitLen()/8+1) * 8` -/
def negLength (n : Int) : Nat := (bitLen n.natAbs / 8 + 1) * 8

/-- `writeBigInt` of a non-nil `*big.Int` -/
def writeBigInt (n : Int) : Bytes :=
  if n > 0 then padSign (natBytes n.toNat)                                      -- `n.Sign() == 1`: `n.Bytes()`
  else if n < 0 then                                                            -- `n.Sign() == -1`
    stripFF (natBytes (n + ((2 ^ negLength n : Nat) : Int)).toNat)              -- `Add(n, Lsh(1, length)).Bytes()`
  else [0]

/-- `readBigInt`: nil for an empty source -/
def readBigInt (source : Bytes) : Option Int :=
  if source.length > 0 then
    if topBitSet source then some ((beNat source : Int) - ((2 ^ (source.length * 8) : Nat) : Int))
    else some (beNat source : Int)
  else none

/-! ## decimal -/

/-- `writeDecimal` (`Unscaled == nil` is treated as zero by the caller of this model: `unscaled` is an `Int`) -/
def writeDecimal (unscaled : Int) (scale : Nat) : Bytes := beBytes 4 scale ++ writeBigInt unscaled

/-- `readDecimal`: (scale bit pattern, unscaled) -/
def readDecimal (source : Bytes) : Res (Option (Nat × Int)) :=
  if source.length = 0 then .ok none
  else if source.length ≤ 4 then .err "wrong minimum length"
  else match readBigInt (source.drop 4) with
    | some u => .ok (some (beNat (source.take 4), u))
    | none => .ok (some (beNat (source.take 4), 0))    -- unreachable: the remainder is non-empty

/-! ## duration -/

/-- `writeDuration`: the three fields as `int64` patterns -/
def writeDuration (months days nanos : BitVec 64) : Bytes :=
  writeVint months ++ writeVint days ++ writeVint nanos

/-- `int64ToInt32` -/
def int64ToInt32 (v : BitVec 64) : Res Int :=
  if v.toInt < -2147483648 ∨ v.toInt > 2147483647 then .err "value out of range" else .ok v.toInt

/-- the body of `readDuration` after the NULL test -/
def readDurationBody : Parser (Int × Int × Int) := do
  let months ← readVint
  let days ← readVint
  let nanos ← readVint
  let rem ← remaining
  if rem ≠ 0 then Parser.fail "bytes remaining"          -- `length == read` fails
  else do
    let m ← liftR (int64ToInt32 months)
    let d ← liftR (int64ToInt32 days)
    pure (m, d, nanos.toInt)

def readDuration (source : Bytes) : Res (Option (Int × Int × Int)) :=
  if source.length = 0 then .ok none
  else match readDurationBody.run source with
    | .ok (v, _) => .ok (some v)
    | .err e => .err e
    | .panic e => .panic e

/-! ## uuid, inet -/

def readUuid (source : Bytes) : Res (Option Bytes) :=
  if source.length = 0 then .ok none
  else if source.length ≠ 16 then .err "wrong fixed length"
  else .ok (some source)

/-- `compactV4` of a non-nil address -/
def compactV4 (val : Bytes) : Bytes :=
  match to4 val with
  | some v4 => v4
  | none => val

/-- `writeInet`: an empty address is written as NULL -/
def writeInet (val : Bytes) : Res (Option Bytes) :=
  if val.length = 0 then .ok none
  else if val.length = 4 ∨ val.length = 16 then .ok (some (compactV4 val))
  else .err "wrong fixed lengths"

/-- `readInet`: `net.IPv4(a,b,c,d).To4()` is the same four bytes -/
def readInet (source : Bytes) : Res (Option Bytes) :=
  if source.length = 0 then .ok none
  else if source.length = 4 then .ok (some source)
  else if source.length = 16 then .ok (some source)
  else .err "wrong fixed lengths"

/-! ## which codec a primitive type gets (`NewCodec`) -/

inductive Codec where
  | string | bigint | blob | boolean | date | decimal | double | duration | float | inet | int | smallint
  | time | timestamp | uuid | tinyint | varint
  deriving Repr, DecidableEq

/-- the `switch dt.Code()` of `NewCodec`, primitive cases (`DataTypeCodeText` has no case) -/
def codecTable : List (Nat × Codec) :=
  [(DataTypeCodeAscii, .string), (DataTypeCodeBigint, .bigint), (DataTypeCodeBlob, .blob),
   (DataTypeCodeBoolean, .boolean), (DataTypeCodeCounter, .bigint), (DataTypeCodeDate, .date),
   (DataTypeCodeDecimal, .decimal), (DataTypeCodeDouble, .double), (DataTypeCodeDuration, .duration),
   (DataTypeCodeFloat, .float), (DataTypeCodeInet, .inet), (DataTypeCodeInt, .int),
   (DataTypeCodeSmallint, .smallint), (DataTypeCodeTime, .time), (DataTypeCodeTimestamp, .timestamp),
   (DataTypeCodeTimeuuid, .uuid), (DataTypeCodeTinyint, .tinyint), (DataTypeCodeUuid, .uuid),
   (DataTypeCodeVarchar, .string), (DataTypeCodeVarint, .varint)]

def primCodec (c : Nat) : Option Codec := codecTable.lookup c

/-! ## scalar `Encode` / `Decode` -/

/-- two's-complement bit pattern of width 64 / 32 / 16 / 8 of an integer in range -/
def bits64 (v : Int) : Nat := (v % 18446744073709551616).toNat
def bits32 (v : Int) : Nat := (v % 4294967296).toNat
def bits16 (v : Int) : Nat := (v % 65536).toNat
def bits8 (v : Int) : Nat := (v % 256).toNat

def inInt64 (v : Int) : Bool := decide (-9223372036854775808 ≤ v ∧ v ≤ 9223372036854775807)
def inInt32 (v : Int) : Bool := decide (-2147483648 ≤ v ∧ v ≤ 2147483647)
def inInt16 (v : Int) : Bool := decide (-32768 ≤ v ∧ v ≤ 32767)
def inInt8 (v : Int) : Bool := decide (-128 ≤ v ∧ v ≤ 127)

/-- `Encode` of a scalar codec applied to a non-nil source -/
def encodeScalarVal : Codec → CqlVal → Res (Option Bytes)
  | .string, .bytes b => .ok (some b)
  | .blob, .bytes b => .ok (some b)
  | .bigint, .int v => if inInt64 v then .ok (some (writeInt64 (bits64 v))) else .err "value out of range"
  | .time, .int v => if inInt64 v then .ok (some (writeInt64 (bits64 v))) else .err "value out of range"
  | .timestamp, .int v => if inInt64 v then .ok (some (writeInt64 (bits64 v))) else .err "value out of range"
  | .int, .int v => if inInt32 v then .ok (some (writeInt32 (bits32 v))) else .err "value out of range"
  | .smallint, .int v => if inInt16 v then .ok (some (writeInt16 (bits16 v))) else .err "value out of range"
  | .tinyint, .int v => if inInt8 v then .ok (some (writeInt8 (bits8 v))) else .err "value out of range"
  -- `writeInt32(val - math.MinInt32)`: int32 subtraction wraps
  | .date, .int v =>
    if inInt32 v then .ok (some (writeInt32 ((bits32 v + 2147483648) % 4294967296))) else .err "value out of range"
  | .boolean, .bool b => .ok (some (writeBool b))
  | .float, .float f => if f < 4294967296 then .ok (some (writeFloat32 f)) else .err "not a float32"
  | .double, .double f => if f < 18446744073709551616 then .ok (some (writeFloat64 f)) else .err "not a float64"
  | .varint, .int v => .ok (some (writeBigInt v))
  | .decimal, .decimal u s =>
    if inInt32 s then .ok (some (writeDecimal u (bits32 s))) else .err "value out of range"
  | .duration, .duration m d n =>
    if inInt32 m ∧ inInt32 d ∧ inInt64 n then
      .ok (some (writeDuration (BitVec.ofInt 64 m) (BitVec.ofInt 64 d) (BitVec.ofInt 64 n)))
    else .err "value out of range"
  | .uuid, .bytes b => if b.length ≠ 16 then .err "wrong fixed length" else .ok (some b)
  | .inet, .bytes b => writeInet (compactV4 b)     -- `convertToIP` already applies `To4()`
  | _, _ => .err "conversion not supported"

/-- `Codec.Encode` for the scalar codecs: nil source = NULL -/
def encodeScalar (k : Codec) : Option CqlVal → Res (Option Bytes)
  | none => .ok none
  | some x => encodeScalarVal k x

/-- `Codec.Decode` for the scalar codecs. `source = none` is a nil slice; `some []` an empty non-nil slice: only the
    string and blob codecs tell them apart (`wasNull = val == nil`). -/
def decodeScalar (k : Codec) (source : Option Bytes) : Res (Option CqlVal) :=
  match k with
  | .string => .ok (source.map .bytes)
  | .blob => .ok (source.map .bytes)
  | .bigint => do let r ← readInt64 (source.getD []); pure (r.map fun n => .int (toInt64 n))
  | .time => do let r ← readInt64 (source.getD []); pure (r.map fun n => .int (toInt64 n))
  | .timestamp => do let r ← readInt64 (source.getD []); pure (r.map fun n => .int (toInt64 n))
  | .int => do let r ← readInt32 (source.getD []); pure (r.map fun n => .int (toInt32 n))
  | .smallint => do let r ← readInt16 (source.getD []); pure (r.map fun n => .int (toInt16 n))
  | .tinyint => do let r ← readInt8 (source.getD []); pure (r.map fun n => .int (toInt8 n))
  -- `val + math.MinInt32`: int32 addition wraps
  | .date => do
    let r ← readInt32 (source.getD [])
    pure (r.map fun n => .int (toInt32 ((n + 2147483648) % 4294967296)))
  | .boolean => do let r ← readBool (source.getD []); pure (r.map .bool)
  | .float => do let r ← readFloat32 (source.getD []); pure (r.map .float)
  | .double => do let r ← readFloat64 (source.getD []); pure (r.map .double)
  | .varint => .ok ((readBigInt (source.getD [])).map .int)
  | .decimal => do
    let r ← readDecimal (source.getD [])
    pure (r.map fun p => .decimal p.2 (toInt32 p.1))
  | .duration => do
    let r ← readDuration (source.getD [])
    pure (r.map fun p => .duration p.1 p.2.1 p.2.2)
  | .uuid => do let r ← readUuid (source.getD []); pure (r.map .bytes)
  | .inet => do let r ← readInet (source.getD []); pure (r.map .bytes)

/-! ## collections -/

def uses4 (version : Nat) : Bool := ProtocolVersion_Uses4BytesCollectionLength version

/-- `writeCollectionSize` (`size` is a Go `int`, here a list length: never negative) -/
def writeCollectionSize (size : Nat) (version : Nat) : Res Bytes :=
  if uses4 version then
    if size > 2147483647 then .err "collection too large" else .ok (writeInt size)
  else
    if size > 65535 then .err "collection too large" else .ok (writeShort size)

/-- `readCollectionSize`: a negative `[int]` is refused -/
def readCollectionSize (version : Nat) : Parser Nat :=
  if uses4 version then do
    let n ← readInt
    if isNeg32 n then Parser.fail "negative collection size" else pure n
  else readShort

/-- `checkCollectionSize` -/
def checkCollectionSize (size lengthsPerElement : Nat) : Parser Unit := do
  let rem ← remaining
  if size * lengthsPerElement > rem ∧ size > 1024 then Parser.fail "collection size exceeds remaining bytes"
  else pure ()

/-- one element of `writeCollection`: encode, then `WriteBytes` (errors ignored, the length is `int32(len)`) or, for
    v2, refuse NULL (`collectionElementNil`), then refuse `len(encodedElem) > math.MaxUint16`
    (`collectionElementTooLarge`), then `WriteShortBytes` (so the `uint16(len)` cast never truncates) -/
def writeElem (version : Nat) (enc : Option CqlVal → Res (Option Bytes)) (x : Option CqlVal) : Res Bytes := do
  let encodedElem ← enc x
  if uses4 version then pure (writeBytes encodedElem)
  else match encodedElem with
    | none => .err "collection element is nil"
    | some b =>
      if b.length > 65535 then .err "collection element too large"
      else pure (writeShortBytes (some b))

/-- one element of `readCollection` / `readMap`: `ReadBytes` or `ReadShortBytes` -/
def readElemBytes (version : Nat) : Parser (Option Bytes) :=
  if uses4 version then readBytes else readShortBytes

def writeCollection (version : Nat) (enc : Option CqlVal → Res (Option Bytes)) (elems : List (Option CqlVal)) :
    Res Bytes := do
  let sz ← writeCollectionSize elems.length version
  let body ← writeAll (writeElem version enc) elems
  pure (sz ++ body)

def readCollectionElem (version : Nat) (dec : Option Bytes → Res (Option CqlVal)) : Parser (Option CqlVal) := do
  let encodedElem ← readElemBytes version
  liftR (dec encodedElem)

def readCollection (version : Nat) (dec : Option Bytes → Res (Option CqlVal)) (source : Bytes) :
    Res (List (Option CqlVal)) :=
  readAll (do
    let size ← readCollectionSize version
    checkCollectionSize size 1
    readN size (readCollectionElem version dec)) source

/-- one entry of `writeMap`: key and value are both encoded first; v2 refuses a nil key, a nil value, a key and a
    value longer than `math.MaxUint16` (`collectionElementTooLarge`), in that order, before anything is written -/
def writeMapEntry (version : Nat) (encK encV : Option CqlVal → Res (Option Bytes))
    (e : Option CqlVal × Option CqlVal) : Res Bytes := do
  let encodedKey ← encK e.1
  let encodedValue ← encV e.2
  if uses4 version then pure (writeBytes encodedKey ++ writeBytes encodedValue)
  else match encodedKey, encodedValue with
    | none, _ => .err "map key is nil"
    | some _, none => .err "map value is nil"
    | some k, some v =>
      -- both nil checks come first, then the two `len(...) > math.MaxUint16` checks, key before value
      if k.length > 65535 then .err "map key too large"
      else if v.length > 65535 then .err "map value too large"
      else pure (writeShortBytes (some k) ++ writeShortBytes (some v))

def writeMap (version : Nat) (encK encV : Option CqlVal → Res (Option Bytes))
    (entries : List (Option CqlVal × Option CqlVal)) : Res Bytes := do
  let sz ← writeCollectionSize entries.length version
  let body ← writeAll (writeMapEntry version encK encV) entries
  pure (sz ++ body)

def readMapEntry (version : Nat) (decK decV : Option Bytes → Res (Option CqlVal)) :
    Parser (Option CqlVal × Option CqlVal) := do
  let encodedKey ← readElemBytes version
  let encodedValue ← readElemBytes version
  let k ← liftR (decK encodedKey)
  let v ← liftR (decV encodedValue)
  pure (k, v)

def readMap (version : Nat) (decK decV : Option Bytes → Res (Option CqlVal)) (source : Bytes) :
    Res (List (Option CqlVal × Option CqlVal)) :=
  readAll (do
    let size ← readCollectionSize version
    checkCollectionSize size 2
    readN size (readMapEntry version decK decV)) source

/-- `collectionCodec.Encode`: a nil slice is NULL -/
def encodeCollection (version : Nat) (enc : Option CqlVal → Res (Option Bytes)) : Option CqlVal → Res (Option Bytes)
  | none => .ok none
  | some (.list xs) => do
    let b ← writeCollection version enc xs
    pure (some b)
  | some _ => .err "source type not supported"

/-- `collectionCodec.Decode`: `wasNull = len(source) == 0` -/
def decodeCollection (version : Nat) (dec : Option Bytes → Res (Option CqlVal)) (source : Option Bytes) :
    Res (Option CqlVal) :=
  if (source.getD []).length = 0 then .ok none
  else do
    let xs ← readCollection version dec (source.getD [])
    pure (some (.list xs))

def encodeMap (version : Nat) (encK encV : Option CqlVal → Res (Option Bytes)) : Option CqlVal → Res (Option Bytes)
  | none => .ok none
  | some (.map es) => do
    let b ← writeMap version encK encV es
    pure (some b)
  | some _ => .err "source type not supported"

def decodeMap (version : Nat) (decK decV : Option Bytes → Res (Option CqlVal)) (source : Option Bytes) :
    Res (Option CqlVal) :=
  if (source.getD []).length = 0 then .ok none
  else do
    let es ← readMap version decK decV (source.getD [])
    pure (some (.map es))

/-! ## the recursion over the type tree -/

/-- `buf.Bytes()` of a `bytes.Buffer` that was never written to is a nil slice. (`writeTuple` / `writeUdt` write nothing
    when the type has no fields; `writeCollection` / `writeMap` always write the size first.) -/
def bufBytes (b : Bytes) : Option Bytes := if b.isEmpty then none else some b

-- `NewCodec` succeeds: every primitive leaf has a case in the switch
mutual
def codecOk : DataType → Bool
  | .prim c => (primCodec c).isSome
  | .custom _ => true
  | .list e => codecOk e
  | .set e => codecOk e
  | .map k v => codecOk k && codecOk v
  | .tuple ts => codecOkList ts
  | .udt _ _ _ ts => codecOkList ts
def codecOkList : List DataType → Bool
  | [] => true
  | t :: ts => codecOk t && codecOkList ts
end

-- `Codec.Encode` of the codec built for a type (`writeTuple`, `writeUdt` are the field loops)
mutual
def encodeC (version : Nat) : DataType → Option CqlVal → Res (Option Bytes)
  | .prim c, x =>
    match primCodec c with
    | some k => encodeScalar k x
    | none => .err "cannot create codec"
  | .custom _, x => encodeScalar .blob x
  | .list e, x => encodeCollection version (encodeC version e) x
  | .set e, x => encodeCollection version (encodeC version e) x
  | .map k v, x => encodeMap version (encodeC version k) (encodeC version v) x
  | .tuple ts, x =>
    match x with
    | none => .ok none
    | some (.tuple fs) => do
      let b ← writeTuple version ts fs
      pure (bufBytes b)
    | some _ => .err "source type not supported"
  | .udt _ _ names ts, x =>
    match x with
    | none => .ok none
    | some (.udt fs) => do
      let b ← writeUdt version names ts fs
      pure (bufBytes b)
    | some _ => .err "source type not supported"

/-- `writeTuple`: one `[bytes]` per element codec; a source with too few elements is an extraction error -/
def writeTuple (version : Nat) : List DataType → List (Option CqlVal) → Res Bytes
  | [], _ => .ok []
  | _ :: _, [] => .err "slice index out of range"
  | t :: ts, f :: fs => do
    let encodedElement ← encodeC version t f
    let rest ← writeTuple version ts fs
    pure (writeBytes encodedElement ++ rest)

/-- `writeUdt`: `name := fieldNames[i]` comes first and panics when there are fewer names than field types -/
def writeUdt (version : Nat) : List Bytes → List DataType → List (Option CqlVal) → Res Bytes
  | _, [], _ => .ok []
  | [], _ :: _, _ => .panic "writeUdt: fieldNames index out of range"
  | _ :: _, _ :: _, [] => .err "slice index out of range"
  | _ :: ns, t :: ts, f :: fs => do
    let encodedField ← encodeC version t f
    let rest ← writeUdt version ns ts fs
    pure (writeBytes encodedField ++ rest)
end

/-- one field of `readUdt`: `var encodedField []byte; if reader.Len() > 0 { encodedField, err = ReadBytes(reader) }` —
    once the input is exhausted the field's bytes stay nil (native_protocol_v5.spec §6: a UDT value "is allowed to have
    less values than the type has fields") -/
def readUdtFieldBytes : Parser (Option Bytes) := do
  let rem ← remaining
  if rem > 0 then readBytes else pure none

-- `Codec.Decode` of the codec built for a type
mutual
def decodeC (version : Nat) : DataType → Option Bytes → Res (Option CqlVal)
  | .prim c, s =>
    match primCodec c with
    | some k => decodeScalar k s
    | none => .err "cannot create codec"
  | .custom _, s => decodeScalar .blob s
  | .list e, s => decodeCollection version (decodeC version e) s
  | .set e, s => decodeCollection version (decodeC version e) s
  | .map k v, s => decodeMap version (decodeC version k) (decodeC version v) s
  | .tuple ts, s =>
    if (s.getD []).length = 0 then .ok none
    else do
      let fs ← readAll (readTuple version ts) (s.getD [])
      pure (some (.tuple fs))
  | .udt _ _ names ts, s =>
    if (s.getD []).length = 0 then .ok none
    else do
      let fs ← readAll (readUdt version names ts) (s.getD [])
      pure (some (.udt fs))

/-- `readTuple`: exactly one `[bytes]` per element codec -/
def readTuple (version : Nat) : List DataType → Parser (List (Option CqlVal))
  | [] => pure []
  | t :: ts => do
    let encodedElement ← readBytes
    let f ← liftR (decodeC version t encodedElement)
    let fs ← readTuple version ts
    pure (f :: fs)

/-- `readUdt`: `name := fieldNames[i]` first; then one `[bytes]` per field codec while input remains, nil (NULL) for
    every field after the input is exhausted. (`readTuple` above is unchanged: it requires every field.) -/
def readUdt (version : Nat) : List Bytes → List DataType → Parser (List (Option CqlVal))
  | _, [] => pure []
  | [], _ :: _ => Parser.panic "readUdt: fieldNames index out of range"
  | _ :: ns, t :: ts => do
    let encodedField ← readUdtFieldBytes
    let f ← liftR (decodeC version t encodedField)
    let fs ← readUdt version ns ts
    pure (f :: fs)
end

/-- `NewCodec(t)` then `Encode`: `none` is a nil source, the result `none` is NULL (`[]byte(nil)`) -/
def encode (version : Nat) (t : DataType) (x : Option CqlVal) : Res (Option Bytes) :=
  if codecOk t then encodeC version t x else .err "cannot create codec"

/-- `NewCodec(t)` then `Decode`: `none` is a nil source, the result `none` is `wasNull` -/
def decode (version : Nat) (t : DataType) (source : Option Bytes) : Res (Option CqlVal) :=
  if codecOk t then decodeC version t source else .err "cannot create codec"

end Cql.Value
