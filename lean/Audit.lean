import Audit.C09
import Audit.C10
import Audit.C19
import Audit.C20
