import Audit.C19
