import Audit.C01
import Audit.C03
import Audit.C04
import Audit.C05
import Audit.C09
import Audit.C10
import Audit.C19
import Audit.C20
