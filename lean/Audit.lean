import Audit.C19
import Audit.C20
