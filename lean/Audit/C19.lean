import Cql.Audit
import Cql.Props.C19
#audit_namespace Cql.Props.C19
