import Cql.Audit
import Cql.Props.C09
import Cql.Props.C09Concurrent
import Cql.Props.C09Managed
#audit_namespace Cql.Props.C09
#audit_namespace Cql.Props.C09Concurrent
#audit_namespace Cql.Props.C09Managed
