import Cql.Audit
import Cql.Props.C14
#audit_namespace Cql.Props.C14
