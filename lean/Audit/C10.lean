import Cql.Audit
import Cql.Props.C10
import Cql.Props.C10Dispatch
import Cql.Props.C16AsWritten
#audit_namespace Cql.Props.C10
#audit_namespace Cql.Props.C10Dispatch
#audit_namespace Cql.Props.C16AsWritten
