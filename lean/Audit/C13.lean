import Cql.Audit
import Cql.Props.C13
import Cql.Props.C13Time
import Cql.Props.C13AsWritten
#audit_namespace Cql.Props.C13
#audit_namespace Cql.Props.C13Time
#audit_namespace Cql.Props.C13AsWritten
