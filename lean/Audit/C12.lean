import Cql.Audit
import Cql.Props.C12
#audit_namespace Cql.Props.C12
