import Cql.Audit
import Cql.Props.C17
#audit_namespace Cql.Props.C17
