import Cql.Audit
import Cql.Props.C04
import Cql.Props.C04Value
#audit_namespace Cql.Props.C04
#audit_namespace Cql.Props.C04Value
