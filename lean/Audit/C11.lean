import Cql.Audit
import Cql.Props.C11
import Cql.Props.C13AsWritten
import Cql.Props.C03AsWritten
#audit_namespace Cql.Props.C11
#audit_namespace Cql.Props.C13AsWritten
#audit_namespace Cql.Props.C03AsWritten
