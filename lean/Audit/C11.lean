import Cql.Audit
import Cql.Props.C11
#audit_namespace Cql.Props.C11
