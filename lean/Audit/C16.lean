import Cql.Audit
import Cql.Props.C16
import Cql.Props.C16Close
import Cql.Props.C16AsWritten
#audit_namespace Cql.Props.C16
#audit_namespace Cql.Props.C16Close
#audit_namespace Cql.Props.C16AsWritten
