import Cql.Audit
import Cql.Props.C16
#audit_namespace Cql.Props.C16
