import Cql.Audit
import Cql.Props.C18
#audit_namespace Cql.Props.C18
