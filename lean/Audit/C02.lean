import Cql.Audit
import Cql.Props.C02
#audit_namespace Cql.Props.C02
