import Cql.Audit
import Cql.Props.C03
#audit_namespace Cql.Props.C03
