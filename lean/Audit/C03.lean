import Cql.Audit
import Cql.Props.C03
import Cql.Props.C03Vint
import Cql.Props.C03AsWritten
#audit_namespace Cql.Props.C03
#audit_namespace Cql.Props.C03Vint
#audit_namespace Cql.Props.C03AsWritten
