import Cql.Audit
import Cql.Props.C20
#audit_namespace Cql.Props.C20
