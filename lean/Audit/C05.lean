import Cql.Audit
import Cql.Props.C05
#audit_namespace Cql.Props.C05
