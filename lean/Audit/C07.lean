import Cql.Audit
import Cql.Props.C07
import Cql.Props.C06AsWritten
import Cql.Props.C07AsWritten
#audit_namespace Cql.Props.C07
#audit_namespace Cql.Props.C06AsWritten
#audit_namespace Cql.Props.C07AsWritten
