import Cql.Audit
import Cql.Props.C07
#audit_namespace Cql.Props.C07
