import Cql.Audit
import Cql.Props.C01
#audit_namespace Cql.Props.C01
