import Cql.Audit
import Cql.Props.C06
import Cql.Props.C06AsWritten
#audit_namespace Cql.Props.C06
#audit_namespace Cql.Props.C06AsWritten
