import Cql.Audit
import Cql.Props.C08
#audit_namespace Cql.Props.C08
