import Cql.Audit
import Cql.Props.C15
#audit_namespace Cql.Props.C15
