#!/bin/sh
# refresh lean/GenBaseline from the generated files of the CURRENT /repo tree (run only on the unchanged tree, after a fix: commit)
set -e
cd "$(dirname "$0")"
./bin/verif-extract -repo "${VERIF_REPO:-/repo}" -out lean/Cql/Gen
test "$(cat lean/Cql/Gen/failed.json)" = "{}"
rm -f lean/GenBaseline/*
for f in lean/Cql/Gen/*; do case "$f" in */failed.json) ;; *) cp "$f" lean/GenBaseline/;; esac; done
