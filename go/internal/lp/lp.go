// Package lp: the line protocol to the Lean model driver, a deterministic PRNG, and result bookkeeping
// shared by all harness modes.
package lp

import (
	"bufio"
	"encoding/json"
	"fmt"
	"io"
	"os"
	"os/exec"
	"sort"
	"strings"
)

// Ask sends all lines to the driver and returns its answers (one per line).
func Ask(driver string, lines []string) ([]string, error) {
	if dump := os.Getenv("VERIF_DUMP_LINES"); dump != "" {
		os.WriteFile(dump, []byte(strings.Join(lines, "\n")+"\n"), 0o644)
	}
	cmd := exec.Command(driver)
	stdin, err := cmd.StdinPipe()
	if err != nil {
		return nil, err
	}
	stdout, err := cmd.StdoutPipe()
	if err != nil {
		return nil, err
	}
	cmd.Stderr = os.Stderr
	if err := cmd.Start(); err != nil {
		return nil, err
	}
	go func() {
		w := bufio.NewWriterSize(stdin, 1<<20)
		for _, l := range lines {
			w.WriteString(l)
			w.WriteByte('\n')
		}
		w.Flush()
		stdin.Close()
	}()
	res := make([]string, 0, len(lines))
	r := bufio.NewReaderSize(stdout, 1<<20)
	for {
		line, err := r.ReadString('\n')
		if len(line) > 0 {
			res = append(res, strings.TrimRight(line, "\n"))
		}
		if err == io.EOF {
			break
		}
		if err != nil {
			return nil, err
		}
	}
	if err := cmd.Wait(); err != nil {
		return res, fmt.Errorf("driver exited: %v (answers %d of %d)", err, len(res), len(lines))
	}
	if len(res) != len(lines) {
		return res, fmt.Errorf("driver returned %d answers for %d lines", len(res), len(lines))
	}
	return res, nil
}

// Rng is splitmix64; every random choice in the harness derives from one seeded state.
type Rng struct{ s uint64 }

func NewRng(seed uint64) *Rng { return &Rng{s: seed*0x9E3779B97F4A7C15 + 0x1234567} }
func (r *Rng) U64() uint64 {
	r.s += 0x9E3779B97F4A7C15
	z := r.s
	z = (z ^ (z >> 30)) * 0xBF58476D1CE4E5B9
	z = (z ^ (z >> 27)) * 0x94D049BB133111EB
	return z ^ (z >> 31)
}
func (r *Rng) Intn(n int) int {
	if n <= 0 {
		return 0
	}
	return int(r.U64() % uint64(n))
}
func (r *Rng) Bool() bool { return r.U64()&1 == 1 }
func (r *Rng) Bytes(n int) []byte {
	b := make([]byte, n)
	for i := range b {
		b[i] = byte(r.U64())
	}
	return b
}

// Finding: one disagreement or property violation with its replayable input.
type Finding struct {
	Kind   string `json:"kind"`   // "violation" (property fails on the implementation) | "disagreement" (model ≠ implementation)
	What   string `json:"what"`   // stable, human-readable identification (used to match known findings)
	Input  string `json:"input"`  // the line-protocol op or input that replays it
	Impl   string `json:"impl"`   // what the implementation did
	Model  string `json:"model"`  // what the model did (if applicable)
	Detail string `json:"detail,omitempty"`
}

// Result is what a harness mode hands back to ./check.
type Result struct {
	Property     string         `json:"property"`
	Evaluations  int            `json:"evaluations"`
	Nontrivial   int            `json:"distinct_nontrivial"`
	Rule         string         `json:"rule"`
	Samples      []string       `json:"samples"`
	Distribution map[string]int `json:"distribution"`
	Exhaustive   bool           `json:"exhaustive"`
	Findings     []Finding      `json:"findings"`
	Notes        []string       `json:"notes,omitempty"`
	distinct     map[string]bool
	perClass     map[string]int
}

func NewResult(prop string) *Result {
	return &Result{Property: prop, Distribution: map[string]int{}, distinct: map[string]bool{}}
}

func (r *Result) Count(key string) { r.Distribution[key]++ }

// Case records one evaluated case; `nontrivial` by the mode's stated rule; `canon` identifies it for distinctness.
func (r *Result) Case(canon string, nontrivial bool) {
	r.Evaluations++
	if nontrivial && !r.distinct[canon] {
		r.distinct[canon] = true
		r.Nontrivial++
	}
	if len(r.Samples) < 12 && nontrivial && r.Evaluations%7 == 1 {
		s := canon
		if len(s) > 300 {
			s = s[:300] + "…"
		}
		r.Samples = append(r.Samples, s)
	}
}

// Add records a finding. At most 12 findings with the same (kind, what) are kept and 400 in all, so that one failure that
// shows on hundreds of inputs does not crowd out a different one found later in the same run.
func (r *Result) Add(f Finding) {
	if r.perClass == nil {
		r.perClass = map[string]int{}
	}
	k := f.Kind + "\x00" + f.What
	if r.perClass[k] >= 12 || len(r.Findings) >= 400 {
		return
	}
	r.perClass[k]++
	r.Findings = append(r.Findings, f)
}

func (r *Result) Write(path string) error {
	if len(r.Samples) == 0 {
		keys := make([]string, 0, len(r.distinct))
		for k := range r.distinct {
			keys = append(keys, k)
		}
		sort.Strings(keys)
		for i := 0; i < len(keys) && i < 5; i++ {
			r.Samples = append(r.Samples, keys[i])
		}
	}
	b, err := json.MarshalIndent(r, "", " ")
	if err != nil {
		return err
	}
	return os.WriteFile(path, b, 0o644)
}
