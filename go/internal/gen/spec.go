package gen

import "github.com/datastax/go-cassandra-native-protocol/primitive"

// Per-version feature table of the generator, written from the specification documents (the same table as
// /verif/lean/Cql/Spec/Features.lean). The generator deliberately does NOT consult the library's own capability predicates
// (ProtocolVersion.Supports*): a change to one of those must not change what counts as a version-valid frame.
// Columns: v2 v3 v4 v5 DSE1 DSE2.
func row(v primitive.ProtocolVersion, r [6]bool) bool {
	switch v {
	case primitive.ProtocolVersion2:
		return r[0]
	case primitive.ProtocolVersion3:
		return r[1]
	case primitive.ProtocolVersion4:
		return r[2]
	case primitive.ProtocolVersion5:
		return r[3]
	case primitive.ProtocolVersionDse1:
		return r[4]
	case primitive.ProtocolVersionDse2:
		return r[5]
	}
	return false
}

const T, F = true, false

func SpecIsDse(v primitive.ProtocolVersion) bool            { return row(v, [6]bool{F, F, F, F, T, T}) }
func SpecBatchFlags(v primitive.ProtocolVersion) bool       { return row(v, [6]bool{F, T, T, T, T, T}) }
func SpecPrepareFlags(v primitive.ProtocolVersion) bool     { return row(v, [6]bool{F, F, F, T, F, T}) }
func SpecResultMetadataId(v primitive.ProtocolVersion) bool { return row(v, [6]bool{F, F, F, T, F, T}) }
func SpecReasonMap(v primitive.ProtocolVersion) bool        { return row(v, [6]bool{F, F, F, T, T, T}) }
func SpecContentions(v primitive.ProtocolVersion) bool      { return row(v, [6]bool{F, F, F, T, F, F}) }
func SpecQueryKeyspace(v primitive.ProtocolVersion) bool    { return row(v, [6]bool{F, F, F, T, F, T}) }
func SpecNowInSeconds(v primitive.ProtocolVersion) bool     { return row(v, [6]bool{F, F, F, T, F, F}) }
