// Package gen: structure-aware generator of version-valid frames built from the library's own types.
// Every random choice derives from one lp.Rng.
package gen

import (
	"fmt"
	"net"

	"github.com/datastax/go-cassandra-native-protocol/datatype"
	"github.com/datastax/go-cassandra-native-protocol/frame"
	"github.com/datastax/go-cassandra-native-protocol/message"
	"github.com/datastax/go-cassandra-native-protocol/primitive"
	"verif/internal/lp"
)

var Versions = []primitive.ProtocolVersion{
	primitive.ProtocolVersion2, primitive.ProtocolVersion3, primitive.ProtocolVersion4,
	primitive.ProtocolVersion5, primitive.ProtocolVersionDse1, primitive.ProtocolVersionDse2,
}

// Kinds: every message kind (every ERROR, RESULT and EVENT variant separately).
var Kinds = []string{
	"Startup", "Options", "Ready", "Query", "Prepare", "Execute", "Batch", "Register", "AuthResponse", "AuthChallenge",
	"AuthSuccess", "Authenticate", "Supported", "Revise",
	"ServerError", "ProtocolError", "AuthenticationError", "Overloaded", "IsBootstrapping", "TruncateError", "SyntaxError",
	"Unauthorized", "Invalid", "ConfigError", "Unavailable", "ReadTimeout", "WriteTimeout", "ReadFailure", "WriteFailure",
	"FunctionFailure", "Unprepared", "AlreadyExists",
	"VoidResult", "SetKeyspaceResult", "SchemaChangeResult", "PreparedResult", "RowsResult",
	"SchemaChangeEvent", "StatusChangeEvent", "TopologyChangeEvent",
}

type G struct {
	R *lp.Rng
	V primitive.ProtocolVersion
	// Big raises the probability of boundary-sized strings / lists
	Big bool
}

func (g *G) chance(n int) bool { return g.R.Intn(n) == 0 }

// Str: mostly short, sometimes at the 1-byte / 2-byte length boundaries
func (g *G) Str() string {
	var n int
	switch k := g.R.Intn(40); {
	case k < 4:
		n = 0
	case k < 30:
		n = 1 + g.R.Intn(12)
	case k < 36:
		n = []int{127, 128, 255, 256, 257}[g.R.Intn(5)]
	case k < 38 && g.Big:
		n = []int{65534, 65535}[g.R.Intn(2)]
	default:
		n = 20 + g.R.Intn(300)
	}
	return g.strN(n)
}

func (g *G) NonEmptyStr() string {
	for {
		if s := g.Str(); s != "" {
			return s
		}
	}
}

func (g *G) strN(n int) string {
	b := make([]byte, n)
	mode := g.R.Intn(3)
	for i := range b {
		switch mode {
		case 0:
			b[i] = byte('a' + g.R.Intn(26))
		case 1:
			b[i] = byte(g.R.U64())
		default:
			b[i] = "abc_XYZ019 é\x00\xff"[g.R.Intn(13)]
		}
	}
	return string(b)
}

// Bytes: nil, empty, or content
func (g *G) Bytes() []byte {
	switch k := g.R.Intn(10); {
	case k == 0:
		return nil
	case k == 1:
		return []byte{}
	default:
		return []byte(g.Str())
	}
}

func (g *G) NonEmptyBytes() []byte { return []byte(g.NonEmptyStr()) }

func (g *G) I32() int32 {
	switch g.R.Intn(8) {
	case 0:
		return 0
	case 1:
		return -1
	case 2:
		return 2147483647
	case 3:
		return -2147483648
	case 4:
		return int32(g.R.Intn(100))
	}
	return int32(g.R.U64())
}

func (g *G) I64() int64 {
	switch g.R.Intn(6) {
	case 0:
		return 0
	case 1:
		return -1
	case 2:
		return 9223372036854775807
	case 3:
		return -9223372036854775808
	}
	return int64(g.R.U64())
}

func (g *G) Count(max int) int {
	switch k := g.R.Intn(10); {
	case k < 2:
		return 0
	case k < 7:
		return 1 + g.R.Intn(3)
	default:
		return g.R.Intn(max + 1)
	}
}

var consistencies = []primitive.ConsistencyLevel{
	primitive.ConsistencyLevelAny, primitive.ConsistencyLevelOne, primitive.ConsistencyLevelTwo, primitive.ConsistencyLevelThree,
	primitive.ConsistencyLevelQuorum, primitive.ConsistencyLevelAll, primitive.ConsistencyLevelLocalQuorum,
	primitive.ConsistencyLevelEachQuorum, primitive.ConsistencyLevelSerial, primitive.ConsistencyLevelLocalSerial,
	primitive.ConsistencyLevelLocalOne,
}

func (g *G) Consistency() primitive.ConsistencyLevel { return consistencies[g.R.Intn(len(consistencies))] }
func (g *G) SerialConsistency() *primitive.ConsistencyLevel {
	c := []primitive.ConsistencyLevel{primitive.ConsistencyLevelSerial, primitive.ConsistencyLevelLocalSerial}[g.R.Intn(2)]
	return &c
}

func (g *G) Value() *primitive.Value {
	switch k := g.R.Intn(10); {
	case k == 0:
		return primitive.NewNullValue()
	case k == 1 && g.V >= primitive.ProtocolVersion4:
		return primitive.NewUnsetValue()
	case k == 2:
		return primitive.NewValue([]byte{})
	case k == 3:
		return &primitive.Value{Type: primitive.ValueTypeRegular} // nil contents
	default:
		return primitive.NewValue([]byte(g.Str()))
	}
}

func (g *G) Values() []*primitive.Value {
	if g.chance(6) {
		return nil
	}
	n := g.Count(6)
	vs := make([]*primitive.Value, n)
	for i := range vs {
		vs[i] = g.Value()
	}
	return vs
}

func (g *G) IP() net.IP {
	switch g.R.Intn(3) {
	case 0:
		return net.IP(g.R.Bytes(4))
	case 1:
		return net.IPv4(byte(g.R.U64()), byte(g.R.U64()), byte(g.R.U64()), byte(g.R.U64())) // 16-byte form
	}
	return net.IP(g.R.Bytes(16))
}

func (g *G) Inet() *primitive.Inet { return &primitive.Inet{Addr: g.IP(), Port: g.I32()} }

func (g *G) StrList() []string {
	if g.chance(6) {
		return nil
	}
	n := g.Count(5)
	l := make([]string, n)
	for i := range l {
		l[i] = g.Str()
	}
	return l
}

var primTypes = []datatype.DataType{
	datatype.Ascii, datatype.Bigint, datatype.Blob, datatype.Boolean, datatype.Counter, datatype.Decimal, datatype.Double,
	datatype.Float, datatype.Int, datatype.Timestamp, datatype.Uuid, datatype.Varchar, datatype.Varint, datatype.Timeuuid,
	datatype.Inet, datatype.Date, datatype.Time, datatype.Smallint, datatype.Tinyint, datatype.Duration,
}

func (g *G) DataType(depth int) datatype.DataType {
	k := g.R.Intn(10)
	if depth <= 0 && k >= 5 {
		k = g.R.Intn(5)
	}
	switch k {
	case 0, 1, 2, 3:
		return primTypes[g.R.Intn(len(primTypes))]
	case 4:
		return datatype.NewCustom(g.Str())
	case 5:
		return datatype.NewList(g.DataType(depth - 1))
	case 6:
		return datatype.NewSet(g.DataType(depth - 1))
	case 7:
		return datatype.NewMap(g.DataType(depth-1), g.DataType(depth-1))
	case 8:
		n := g.Count(4)
		if g.Big && g.R.Intn(3) == 0 {
			// wide and shallow: dozens of fields (more type nodes in one column than any nesting depth reaches)
			n, depth = 33+g.R.Intn(40), 0
		}
		fs := make([]datatype.DataType, n)
		for i := range fs {
			fs[i] = g.DataType(depth - 1)
		}
		return datatype.NewTuple(fs...)
	default:
		n := g.Count(4)
		if g.Big && g.R.Intn(3) == 0 {
			n, depth = 33+g.R.Intn(40), 0
		}
		names := make([]string, n)
		fs := make([]datatype.DataType, n)
		for i := range fs {
			names[i] = g.Str()
			fs[i] = g.DataType(depth - 1)
		}
		t, _ := datatype.NewUserDefined(g.Str(), g.Str(), names, fs)
		return t
	}
}

func (g *G) QueryOptions() *message.QueryOptions {
	if g.chance(8) {
		return nil
	}
	v := g.V
	o := &message.QueryOptions{Consistency: g.Consistency()}
	switch g.R.Intn(3) {
	case 0:
		o.PositionalValues = g.Values()
	case 1:
		if v >= primitive.ProtocolVersion3 {
			if !g.chance(6) {
				n := g.Count(4)
				o.NamedValues = map[string]*primitive.Value{}
				for i := 0; i < n; i++ {
					o.NamedValues[g.Str()] = g.Value()
				}
			}
		}
	}
	if o.PositionalValues != nil && v >= primitive.ProtocolVersion3 && g.chance(5) {
		// both kinds of values given: "prefer positional values, if provided, and ignore named ones" (QueryOptions.Flags)
		o.NamedValues = map[string]*primitive.Value{g.Str(): g.Value(), g.Str() + "2": g.Value()}
	}
	o.SkipMetadata = g.R.Bool()
	if g.R.Bool() {
		o.PageSize = g.I32()
		if SpecIsDse(v) {
			o.PageSizeInBytes = g.R.Bool()
		}
	}
	if g.R.Bool() {
		o.PagingState = g.Bytes()
	}
	if g.R.Bool() {
		o.SerialConsistency = g.SerialConsistency()
	}
	if g.R.Bool() && v >= primitive.ProtocolVersion3 {
		t := g.I64()
		o.DefaultTimestamp = &t
	}
	if g.R.Bool() && SpecQueryKeyspace(v) {
		o.Keyspace = g.Str()
	}
	if g.R.Bool() && SpecNowInSeconds(v) {
		n := g.I32()
		o.NowInSeconds = &n
	}
	if g.R.Bool() && SpecIsDse(v) {
		o.ContinuousPagingOptions = &message.ContinuousPagingOptions{MaxPages: g.I32(), PagesPerSecond: g.I32(), NextPages: g.I32()}
	}
	return o
}

func (g *G) Column(sameKs, sameTable string) *message.ColumnMetadata {
	c := &message.ColumnMetadata{Keyspace: g.Str(), Table: g.Str(), Name: g.Str(), Index: g.I32(), Type: g.DataType(2)}
	if sameKs != "\x00none" {
		c.Keyspace, c.Table = sameKs, sameTable
	}
	return c
}

func (g *G) Columns() []*message.ColumnMetadata {
	n := g.Count(4)
	if n == 0 {
		if g.R.Bool() {
			return nil
		}
		return []*message.ColumnMetadata{}
	}
	ks, tb := "\x00none", ""
	mode := g.R.Intn(6)
	if mode < 3 {
		ks, tb = g.Str(), g.Str()
	}
	cols := make([]*message.ColumnMetadata, n)
	for i := range cols {
		cols[i] = g.Column(ks, tb)
	}
	// near misses of "all columns in one table": the same table name in different keyspaces, the same keyspace with
	// different tables, and a single odd column at the end
	if n > 1 {
		switch mode {
		case 3:
			t := g.NonEmptyStr()
			for i, c := range cols {
				c.Keyspace, c.Table = fmt.Sprintf("ks%d", i), t
			}
		case 4:
			k := g.NonEmptyStr()
			for i, c := range cols {
				c.Keyspace, c.Table = k, fmt.Sprintf("t%d", i)
			}
		case 2:
			cols[n-1].Keyspace = "other_" + fmt.Sprint(n) // (never longer than a [string] can be)
		}
	}
	return cols
}

func (g *G) RowsMetadata(withCols bool) *message.RowsMetadata {
	v := g.V
	m := &message.RowsMetadata{}
	if withCols {
		m.Columns = g.Columns()
	}
	if len(m.Columns) > 0 {
		m.ColumnCount = int32(len(m.Columns))
	} else {
		m.ColumnCount = int32(g.Count(4))
	}
	if g.R.Bool() {
		m.PagingState = g.Bytes()
	}
	if g.R.Bool() && SpecResultMetadataId(v) {
		m.NewResultMetadataId = g.Bytes()
	}
	if g.R.Bool() && SpecIsDse(v) {
		m.ContinuousPageNumber = g.I32()
		m.LastContinuousPage = g.R.Bool()
	}
	return m
}

var writeTypes = []primitive.WriteType{
	primitive.WriteTypeSimple, primitive.WriteTypeBatch, primitive.WriteTypeUnloggedBatch, primitive.WriteTypeCounter,
	primitive.WriteTypeBatchLog, primitive.WriteTypeCas, primitive.WriteTypeView, primitive.WriteTypeCdc,
}

func (g *G) ReasonMap() []*primitive.FailureReason {
	if g.chance(6) {
		return nil
	}
	n := g.Count(4)
	m := make([]*primitive.FailureReason, n)
	for i := range m {
		m[i] = &primitive.FailureReason{Endpoint: g.IP(), Code: primitive.FailureCode(g.R.Intn(7))}
	}
	return m
}

func (g *G) schemaChange() (ct primitive.SchemaChangeType, target primitive.SchemaChangeTarget, ks, obj string, args []string) {
	v := g.V
	ct = []primitive.SchemaChangeType{primitive.SchemaChangeTypeCreated, primitive.SchemaChangeTypeUpdated, primitive.SchemaChangeTypeDropped}[g.R.Intn(3)]
	targets := []primitive.SchemaChangeTarget{primitive.SchemaChangeTargetKeyspace, primitive.SchemaChangeTargetTable}
	if v >= primitive.ProtocolVersion3 {
		targets = append(targets, primitive.SchemaChangeTargetType)
	}
	if v >= primitive.ProtocolVersion4 {
		targets = append(targets, primitive.SchemaChangeTargetFunction, primitive.SchemaChangeTargetAggregate)
	}
	target = targets[g.R.Intn(len(targets))]
	ks = g.NonEmptyStr()
	switch target {
	case primitive.SchemaChangeTargetKeyspace:
	case primitive.SchemaChangeTargetTable, primitive.SchemaChangeTargetType:
		obj = g.NonEmptyStr()
	default:
		obj = g.NonEmptyStr()
		args = g.StrList()
	}
	return
}

// Message generates a version-valid message of the given kind, or nil when the kind does not exist in g.V.
func (g *G) Message(kind string) message.Message {
	v := g.V
	switch kind {
	case "Startup":
		m := message.NewStartup()
		if g.chance(8) {
			m.Options = nil
		}
		n := g.Count(4)
		for i := 0; i < n && m.Options != nil; i++ {
			m.Options[g.Str()] = g.Str()
		}
		return m
	case "Options":
		return &message.Options{}
	case "Ready":
		return &message.Ready{}
	case "Query":
		return &message.Query{Query: g.Str(), Options: g.QueryOptions()}
	case "Prepare":
		p := &message.Prepare{Query: g.NonEmptyStr()}
		if SpecPrepareFlags(v) && g.R.Bool() {
			p.Keyspace = g.Str()
		}
		return p
	case "Execute":
		e := &message.Execute{QueryId: g.NonEmptyBytes(), Options: g.QueryOptions()}
		if SpecResultMetadataId(v) {
			e.ResultMetadataId = g.NonEmptyBytes()
		}
		return e
	case "Batch":
		b := &message.Batch{Type: primitive.BatchType(g.R.Intn(3)), Consistency: g.Consistency()}
		if !g.chance(8) {
			n := g.Count(5)
			b.Children = make([]*message.BatchChild, n)
			for i := range b.Children {
				c := &message.BatchChild{Values: g.Values()}
				if g.R.Bool() {
					c.Query = g.NonEmptyStr()
				} else {
					c.Id = g.NonEmptyBytes()
				}
				b.Children[i] = c
			}
		}
		if SpecBatchFlags(v) {
			if g.R.Bool() {
				b.SerialConsistency = g.SerialConsistency()
				if g.R.Bool() { // the codec does not insist on a serial level for batches
					c := g.Consistency()
					b.SerialConsistency = &c
				}
			}
			if g.R.Bool() {
				t := g.I64()
				b.DefaultTimestamp = &t
			}
			if g.R.Bool() && SpecQueryKeyspace(v) {
				b.Keyspace = g.Str()
			}
			if g.R.Bool() && SpecNowInSeconds(v) {
				n := g.I32()
				b.NowInSeconds = &n
			}
		}
		return b
	case "Register":
		all := []primitive.EventType{primitive.EventTypeSchemaChange, primitive.EventTypeStatusChange, primitive.EventTypeTopologyChange}
		n := 1 + g.R.Intn(4)
		r := &message.Register{}
		for i := 0; i < n; i++ {
			r.EventTypes = append(r.EventTypes, all[g.R.Intn(3)])
		}
		return r
	case "AuthResponse":
		return &message.AuthResponse{Token: g.Bytes()}
	case "AuthChallenge":
		return &message.AuthChallenge{Token: g.Bytes()}
	case "AuthSuccess":
		return &message.AuthSuccess{Token: g.Bytes()}
	case "Authenticate":
		return &message.Authenticate{Authenticator: g.NonEmptyStr()}
	case "Supported":
		s := &message.Supported{}
		if !g.chance(8) {
			s.Options = map[string][]string{}
			n := g.Count(4)
			for i := 0; i < n; i++ {
				s.Options[g.Str()] = g.StrList()
			}
		}
		return s
	case "Revise":
		if !SpecIsDse(v) {
			return nil
		}
		r := &message.Revise{RevisionType: primitive.DseRevisionTypeCancelContinuousPaging, TargetStreamId: g.I32()}
		if v >= primitive.ProtocolVersionDse2 && g.R.Bool() {
			r.RevisionType = primitive.DseRevisionTypeMoreContinuousPages
			r.NextPages = g.I32()
		}
		return r
	case "ServerError":
		return &message.ServerError{ErrorMessage: g.Str()}
	case "ProtocolError":
		return &message.ProtocolError{ErrorMessage: g.Str()}
	case "AuthenticationError":
		return &message.AuthenticationError{ErrorMessage: g.Str()}
	case "Overloaded":
		return &message.Overloaded{ErrorMessage: g.Str()}
	case "IsBootstrapping":
		return &message.IsBootstrapping{ErrorMessage: g.Str()}
	case "TruncateError":
		return &message.TruncateError{ErrorMessage: g.Str()}
	case "SyntaxError":
		return &message.SyntaxError{ErrorMessage: g.Str()}
	case "Unauthorized":
		return &message.Unauthorized{ErrorMessage: g.Str()}
	case "Invalid":
		return &message.Invalid{ErrorMessage: g.Str()}
	case "ConfigError":
		return &message.ConfigError{ErrorMessage: g.Str()}
	case "Unavailable":
		return &message.Unavailable{ErrorMessage: g.Str(), Consistency: g.Consistency(), Required: g.I32(), Alive: g.I32()}
	case "ReadTimeout":
		return &message.ReadTimeout{ErrorMessage: g.Str(), Consistency: g.Consistency(), Received: g.I32(), BlockFor: g.I32(), DataPresent: g.R.Bool()}
	case "WriteTimeout":
		m := &message.WriteTimeout{ErrorMessage: g.Str(), Consistency: g.Consistency(), Received: g.I32(), BlockFor: g.I32(),
			WriteType: writeTypes[g.R.Intn(len(writeTypes))]}
		if g.R.Bool() {
			m.WriteType = primitive.WriteTypeCas
		}
		if SpecContentions(v) && m.WriteType == primitive.WriteTypeCas {
			m.Contentions = uint16(g.R.U64())
		}
		return m
	case "ReadFailure":
		if v < primitive.ProtocolVersion4 {
			return nil
		}
		m := &message.ReadFailure{ErrorMessage: g.Str(), Consistency: g.Consistency(), Received: g.I32(), BlockFor: g.I32(), DataPresent: g.R.Bool()}
		if SpecReasonMap(v) {
			m.FailureReasons = g.ReasonMap()
		} else {
			m.NumFailures = g.I32()
		}
		return m
	case "WriteFailure":
		if v < primitive.ProtocolVersion4 {
			return nil
		}
		m := &message.WriteFailure{ErrorMessage: g.Str(), Consistency: g.Consistency(), Received: g.I32(), BlockFor: g.I32(),
			WriteType: writeTypes[g.R.Intn(len(writeTypes))]}
		if SpecReasonMap(v) {
			m.FailureReasons = g.ReasonMap()
		} else {
			m.NumFailures = g.I32()
		}
		return m
	case "FunctionFailure":
		if v < primitive.ProtocolVersion4 {
			return nil
		}
		return &message.FunctionFailure{ErrorMessage: g.Str(), Keyspace: g.Str(), Function: g.Str(), Arguments: g.StrList()}
	case "Unprepared":
		return &message.Unprepared{ErrorMessage: g.Str(), Id: g.Bytes()}
	case "AlreadyExists":
		return &message.AlreadyExists{ErrorMessage: g.Str(), Keyspace: g.Str(), Table: g.Str()}
	case "VoidResult":
		return &message.VoidResult{}
	case "SetKeyspaceResult":
		return &message.SetKeyspaceResult{Keyspace: g.NonEmptyStr()}
	case "SchemaChangeResult":
		ct, t, ks, obj, args := g.schemaChange()
		return &message.SchemaChangeResult{ChangeType: ct, Target: t, Keyspace: ks, Object: obj, Arguments: args}
	case "SchemaChangeEvent":
		ct, t, ks, obj, args := g.schemaChange()
		return &message.SchemaChangeEvent{ChangeType: ct, Target: t, Keyspace: ks, Object: obj, Arguments: args}
	case "StatusChangeEvent":
		return &message.StatusChangeEvent{ChangeType: []primitive.StatusChangeType{primitive.StatusChangeTypeUp, primitive.StatusChangeTypeDown}[g.R.Intn(2)], Address: g.Inet()}
	case "TopologyChangeEvent":
		ts := []primitive.TopologyChangeType{primitive.TopologyChangeTypeNewNode, primitive.TopologyChangeTypeRemovedNode}
		if v >= primitive.ProtocolVersion3 {
			ts = append(ts, primitive.TopologyChangeTypeMovedNode)
		}
		return &message.TopologyChangeEvent{ChangeType: ts[g.R.Intn(len(ts))], Address: g.Inet()}
	case "PreparedResult":
		p := &message.PreparedResult{PreparedQueryId: g.NonEmptyBytes()}
		if SpecResultMetadataId(v) {
			p.ResultMetadataId = g.NonEmptyBytes()
		}
		if !g.chance(6) {
			vm := &message.VariablesMetadata{Columns: g.Columns()}
			if v >= primitive.ProtocolVersion4 && g.R.Bool() {
				n := g.Count(4)
				vm.PkIndices = make([]uint16, n)
				for i := range vm.PkIndices {
					vm.PkIndices[i] = uint16(g.R.U64())
				}
			}
			p.VariablesMetadata = vm
		}
		if !g.chance(6) {
			p.ResultMetadata = g.RowsMetadata(true)
		}
		return p
	case "RowsResult":
		r := &message.RowsResult{Metadata: g.RowsMetadata(g.R.Bool())}
		if !g.chance(8) {
			n := g.Count(5)
			if r.Metadata.ColumnCount == 0 {
				n = 0 // a row has at least one column
			}
			r.Data = make(message.RowSet, n)
			for i := range r.Data {
				row := make(message.Row, r.Metadata.ColumnCount)
				for j := range row {
					row[j] = g.Bytes()
				}
				r.Data[i] = row
			}
		}
		return r
	}
	panic(fmt.Sprintf("unknown kind %s", kind))
}

// Frame wraps a message in a frame with header flags and body parts legal for the direction and version.
func (g *G) Frame(kind string) *frame.Frame {
	m := g.Message(kind)
	if m == nil {
		return nil
	}
	v := g.V
	var sid int16
	if v >= primitive.ProtocolVersion3 {
		sid = int16(g.R.U64())
	} else {
		sid = int16(int8(g.R.U64()))
	}
	f := frame.NewFrame(v, sid, m)
	if m.IsResponse() {
		if g.R.Bool() {
			var u primitive.UUID
			copy(u[:], g.R.Bytes(16))
			f.SetTracingId(&u)
		}
		if v >= primitive.ProtocolVersion4 && g.R.Bool() {
			w := g.StrList()
			f.SetWarnings(w)
		}
	} else if g.R.Bool() {
		f.RequestTracingId(true)
	}
	if v >= primitive.ProtocolVersion4 && g.R.Bool() {
		var p map[string][]byte
		if !g.chance(5) {
			p = map[string][]byte{}
			n := g.Count(3)
			for i := 0; i < n; i++ {
				p[g.Str()] = g.Bytes()
			}
		}
		f.SetCustomPayload(p)
		if len(p) == 0 && g.chance(2) {
			// the flag with a payload of zero entries: what the decoder yields for the bytes `0000` under the flag
			f.Header.Flags = f.Header.Flags.Add(primitive.HeaderFlagCustomPayload)
			f.Body.CustomPayload = map[string][]byte{}
		}
	}
	return f
}

// Enlarge grows the lists of a message beyond 1024 entries (the size up to which decoders allocate up front): many columns,
// rows, values, batch children, options, failure reasons, bound-variable indices. Messages without lists are left alone.
// Returns whether anything was enlarged.
func (g *G) Enlarge(f *frame.Frame) bool {
	n := 1025 + g.R.Intn(200)
	switch m := f.Body.Message.(type) {
	case *message.RowsResult:
		if g.R.Bool() {
			cols := make([]*message.ColumnMetadata, n)
			for i := range cols {
				cols[i] = &message.ColumnMetadata{Keyspace: "ks", Table: "t", Name: fmt.Sprintf("c%d", i), Type: primTypes[i%len(primTypes)]}
			}
			m.Metadata = &message.RowsMetadata{ColumnCount: int32(n), Columns: cols}
			m.Data = message.RowSet{}
		} else {
			m.Metadata = &message.RowsMetadata{ColumnCount: 2}
			m.Data = make(message.RowSet, n)
			for i := range m.Data {
				m.Data[i] = message.Row{[]byte{byte(i)}, nil}
			}
		}
	case *message.PreparedResult:
		cols := make([]*message.ColumnMetadata, n)
		for i := range cols {
			cols[i] = &message.ColumnMetadata{Keyspace: "ks", Table: "t", Name: fmt.Sprintf("v%d", i), Type: primTypes[i%len(primTypes)]}
		}
		m.VariablesMetadata = &message.VariablesMetadata{Columns: cols}
		if g.V >= primitive.ProtocolVersion4 {
			pk := make([]uint16, n)
			for i := range pk {
				pk[i] = uint16(i)
			}
			m.VariablesMetadata.PkIndices = pk
		}
	case *message.Supported:
		m.Options = map[string][]string{}
		for i := 0; i < n; i++ {
			m.Options[fmt.Sprintf("OPT%d", i)] = []string{"a", fmt.Sprint(i)}
		}
	case *message.Batch:
		m.Children = make([]*message.BatchChild, n)
		for i := range m.Children {
			m.Children[i] = &message.BatchChild{Query: fmt.Sprintf("INSERT %d", i), Values: []*primitive.Value{primitive.NewValue([]byte{byte(i)})}}
		}
	case *message.Execute:
		if m.Options == nil {
			m.Options = &message.QueryOptions{Consistency: primitive.ConsistencyLevelOne}
		}
		m.Options.NamedValues = nil
		m.Options.PositionalValues = make([]*primitive.Value, n)
		for i := range m.Options.PositionalValues {
			m.Options.PositionalValues[i] = primitive.NewValue([]byte{byte(i), 1})
		}
	case *message.ReadFailure:
		if SpecReasonMap(g.V) {
			m.FailureReasons = make([]*primitive.FailureReason, n)
			for i := range m.FailureReasons {
				m.FailureReasons[i] = &primitive.FailureReason{Endpoint: []byte{10, byte(i >> 16), byte(i >> 8), byte(i)}, Code: primitive.FailureCodeTooManyTombstonesRead}
			}
		} else {
			return false
		}
	case *message.Register:
		m.EventTypes = make([]primitive.EventType, n)
		for i := range m.EventTypes {
			m.EventTypes[i] = primitive.EventTypeStatusChange
		}
	default:
		return false
	}
	return true
}
