// Package show renders decoded frames in the canonical text grammar of /verif/lean/Cql/Show.lean, so that equality of the
// two strings is equality of the decoded structures (nil-vs-empty included). Maps are sorted by key.
package show

import (
	"encoding/hex"
	"fmt"
	"net"
	"sort"
	"strings"

	"github.com/datastax/go-cassandra-native-protocol/datatype"
	"github.com/datastax/go-cassandra-native-protocol/frame"
	"github.com/datastax/go-cassandra-native-protocol/message"
	"github.com/datastax/go-cassandra-native-protocol/primitive"
)

func B(b []byte) string {
	if len(b) == 0 {
		return "-"
	}
	return hex.EncodeToString(b)
}
func S(s string) string { return B([]byte(s)) }
func OB(b []byte) string {
	if b == nil {
		return "~"
	}
	return B(b)
}
func N(n uint64) string { return fmt.Sprint(n) }
func T(b bool) string {
	if b {
		return "T"
	}
	return "F"
}
func join(parts ...string) string { return strings.Join(parts, ",") }
func list(items []string) string  { return "[" + strings.Join(items, ",") + "]" }

func strList(l []string) string {
	if l == nil {
		return "~"
	}
	items := make([]string, len(l))
	for i, s := range l {
		items[i] = S(s)
	}
	return list(items)
}

func sortedMap(m map[string]string) string {
	keys := make([]string, 0, len(m))
	for k := range m {
		keys = append(keys, k)
	}
	sort.Strings(keys) // byte-wise
	items := make([]string, len(keys))
	for i, k := range keys {
		items[i] = S(k) + ":" + m[k]
	}
	return "{" + strings.Join(items, ",") + "}"
}

func Value(v *primitive.Value) string {
	if v == nil {
		return "~"
	}
	switch v.Type {
	case primitive.ValueTypeRegular:
		return "r" + OB(v.Contents)
	case primitive.ValueTypeNull:
		return "null"
	case primitive.ValueTypeUnset:
		return "unset"
	}
	return fmt.Sprintf("other%d", v.Type)
}

func values(vs []*primitive.Value) string {
	if vs == nil {
		return "~"
	}
	items := make([]string, len(vs))
	for i, v := range vs {
		items[i] = Value(v)
	}
	return list(items)
}

func IP(ip net.IP) string { return OB(ip) }
func Inet(i *primitive.Inet) string {
	if i == nil {
		return "~"
	}
	return IP(i.Addr) + "/" + N(uint64(uint32(i.Port)))
}

func QO(o *message.QueryOptions) string {
	if o == nil {
		return "~"
	}
	named := "~"
	if o.NamedValues != nil {
		m := map[string]string{}
		for k, v := range o.NamedValues {
			m[k] = Value(v)
		}
		named = sortedMap(m)
	}
	serial, ts, now, cpo := "~", "~", "~", "~"
	if o.SerialConsistency != nil {
		serial = N(uint64(*o.SerialConsistency))
	}
	if o.DefaultTimestamp != nil {
		ts = N(uint64(*o.DefaultTimestamp))
	}
	if o.NowInSeconds != nil {
		now = N(uint64(uint32(*o.NowInSeconds)))
	}
	if c := o.ContinuousPagingOptions; c != nil {
		cpo = fmt.Sprintf("%d/%d/%d", uint32(c.MaxPages), uint32(c.PagesPerSecond), uint32(c.NextPages))
	}
	return "QO(" + join(N(uint64(o.Consistency)), values(o.PositionalValues), named, T(o.SkipMetadata),
		N(uint64(uint32(o.PageSize))), T(o.PageSizeInBytes), OB(o.PagingState), serial, ts, S(o.Keyspace), now, cpo) + ")"
}

func DataType(t datatype.DataType) string {
	switch x := t.(type) {
	case nil:
		return "~"
	case *datatype.PrimitiveType:
		return "p" + N(uint64(x.Code()))
	case *datatype.Custom:
		return "custom(" + S(x.ClassName) + ")"
	case *datatype.List:
		return "list(" + DataType(x.ElementType) + ")"
	case *datatype.Set:
		return "set(" + DataType(x.ElementType) + ")"
	case *datatype.Map:
		return "map(" + DataType(x.KeyType) + "," + DataType(x.ValueType) + ")"
	case *datatype.Tuple:
		return "tuple(" + dataTypes(x.FieldTypes) + ")"
	case *datatype.UserDefined:
		names := make([]string, len(x.FieldNames))
		for i, n := range x.FieldNames {
			names[i] = S(n)
		}
		return "udt(" + S(x.Keyspace) + "," + S(x.Name) + "," + list(names) + "," + dataTypes(x.FieldTypes) + ")"
	}
	return fmt.Sprintf("?%T", t)
}

func dataTypes(ts []datatype.DataType) string {
	items := make([]string, len(ts))
	for i, t := range ts {
		items[i] = DataType(t)
	}
	return strings.Join(items, ";")
}

func columns(cols []*message.ColumnMetadata) string {
	if cols == nil {
		return "~"
	}
	items := make([]string, len(cols))
	for i, c := range cols {
		items[i] = "C(" + join(S(c.Keyspace), S(c.Table), S(c.Name), N(uint64(uint32(c.Index))), DataType(c.Type)) + ")"
	}
	return list(items)
}

func VarsMeta(m *message.VariablesMetadata) string {
	if m == nil {
		return "~"
	}
	pk := "~"
	if m.PkIndices != nil {
		items := make([]string, len(m.PkIndices))
		for i, x := range m.PkIndices {
			items[i] = N(uint64(x))
		}
		pk = list(items)
	}
	return "VM(" + pk + "," + columns(m.Columns) + ")"
}

func RowsMeta(m *message.RowsMetadata) string {
	if m == nil {
		return "~"
	}
	return "RM(" + join(N(uint64(uint32(m.ColumnCount))), OB(m.PagingState), OB(m.NewResultMetadataId),
		N(uint64(uint32(m.ContinuousPageNumber))), T(m.LastContinuousPage), columns(m.Columns)) + ")"
}

func reasons(rs []*primitive.FailureReason) string {
	if rs == nil {
		return "~"
	}
	items := make([]string, len(rs))
	for i, r := range rs {
		items[i] = IP(r.Endpoint) + "=" + N(uint64(r.Code))
	}
	return list(items)
}

func schemaChange(ct primitive.SchemaChangeType, t primitive.SchemaChangeTarget, ks, obj string, args []string) string {
	return join(S(string(ct)), S(string(t)), S(ks), S(obj), strList(args))
}

func Message(m message.Message) string {
	u := func(x int32) string { return N(uint64(uint32(x))) }
	switch x := m.(type) {
	case *message.Startup:
		if x.Options == nil {
			return "Startup(~)"
		}
		mm := map[string]string{}
		for k, v := range x.Options {
			mm[k] = S(v)
		}
		return "Startup(" + sortedMap(mm) + ")"
	case *message.Options:
		return "Options()"
	case *message.Ready:
		return "Ready()"
	case *message.Query:
		return "Query(" + S(x.Query) + "," + QO(x.Options) + ")"
	case *message.Prepare:
		return "Prepare(" + S(x.Query) + "," + S(x.Keyspace) + ")"
	case *message.Execute:
		return "Execute(" + join(OB(x.QueryId), OB(x.ResultMetadataId), QO(x.Options)) + ")"
	case *message.Batch:
		ch := "~"
		if x.Children != nil {
			items := make([]string, len(x.Children))
			for i, c := range x.Children {
				items[i] = "BC(" + S(c.Query) + "," + OB(c.Id) + "," + values(c.Values) + ")"
			}
			ch = list(items)
		}
		serial, ts, now := "~", "~", "~"
		if x.SerialConsistency != nil {
			serial = N(uint64(*x.SerialConsistency))
		}
		if x.DefaultTimestamp != nil {
			ts = N(uint64(*x.DefaultTimestamp))
		}
		if x.NowInSeconds != nil {
			now = u(*x.NowInSeconds)
		}
		return "Batch(" + join(N(uint64(x.Type)), ch, N(uint64(x.Consistency)), serial, ts, S(x.Keyspace), now) + ")"
	case *message.Register:
		if x.EventTypes == nil {
			return "Register(~)"
		}
		items := make([]string, len(x.EventTypes))
		for i, e := range x.EventTypes {
			items[i] = S(string(e))
		}
		return "Register(" + list(items) + ")"
	case *message.AuthResponse:
		return "AuthResponse(" + OB(x.Token) + ")"
	case *message.AuthChallenge:
		return "AuthChallenge(" + OB(x.Token) + ")"
	case *message.AuthSuccess:
		return "AuthSuccess(" + OB(x.Token) + ")"
	case *message.Authenticate:
		return "Authenticate(" + S(x.Authenticator) + ")"
	case *message.Supported:
		if x.Options == nil {
			return "Supported(~)"
		}
		mm := map[string]string{}
		for k, v := range x.Options {
			items := make([]string, len(v))
			for i, s := range v {
				items[i] = S(s)
			}
			mm[k] = list(items)
		}
		return "Supported(" + sortedMap(mm) + ")"
	case *message.Revise:
		return fmt.Sprintf("Revise(%d,%d,%d)", uint32(x.RevisionType), uint32(x.TargetStreamId), uint32(x.NextPages))
	case *message.Unavailable:
		return "Unavailable(" + join(S(x.ErrorMessage), N(uint64(x.Consistency)), u(x.Required), u(x.Alive)) + ")"
	case *message.ReadTimeout:
		return "ReadTimeout(" + join(S(x.ErrorMessage), N(uint64(x.Consistency)), u(x.Received), u(x.BlockFor), T(x.DataPresent)) + ")"
	case *message.WriteTimeout:
		return "WriteTimeout(" + join(S(x.ErrorMessage), N(uint64(x.Consistency)), u(x.Received), u(x.BlockFor), S(string(x.WriteType)),
			N(uint64(x.Contentions))) + ")"
	case *message.ReadFailure:
		return "ReadFailure(" + join(S(x.ErrorMessage), N(uint64(x.Consistency)), u(x.Received), u(x.BlockFor), u(x.NumFailures),
			reasons(x.FailureReasons), T(x.DataPresent)) + ")"
	case *message.WriteFailure:
		return "WriteFailure(" + join(S(x.ErrorMessage), N(uint64(x.Consistency)), u(x.Received), u(x.BlockFor), u(x.NumFailures),
			reasons(x.FailureReasons), S(string(x.WriteType))) + ")"
	case *message.FunctionFailure:
		return "FunctionFailure(" + join(S(x.ErrorMessage), S(x.Keyspace), S(x.Function), strList(x.Arguments)) + ")"
	case *message.Unprepared:
		return "Unprepared(" + S(x.ErrorMessage) + "," + OB(x.Id) + ")"
	case *message.AlreadyExists:
		return "AlreadyExists(" + join(S(x.ErrorMessage), S(x.Keyspace), S(x.Table)) + ")"
	case message.Error: // the ten code+message-only errors
		return fmt.Sprintf("Error%d(%s)", uint32(x.GetErrorCode()), S(x.GetErrorMessage()))
	case *message.VoidResult:
		return "Void()"
	case *message.SetKeyspaceResult:
		return "SetKeyspace(" + S(x.Keyspace) + ")"
	case *message.SchemaChangeResult:
		return "SchemaChangeResult(" + schemaChange(x.ChangeType, x.Target, x.Keyspace, x.Object, x.Arguments) + ")"
	case *message.PreparedResult:
		return "Prepared(" + join(OB(x.PreparedQueryId), OB(x.ResultMetadataId), VarsMeta(x.VariablesMetadata), RowsMeta(x.ResultMetadata)) + ")"
	case *message.RowsResult:
		data := "~"
		if x.Data != nil {
			rows := make([]string, len(x.Data))
			for i, r := range x.Data {
				if r == nil {
					rows[i] = "~"
					continue
				}
				cells := make([]string, len(r))
				for j, c := range r {
					cells[j] = OB(c)
				}
				rows[i] = list(cells)
			}
			data = list(rows)
		}
		return "Rows(" + RowsMeta(x.Metadata) + "," + data + ")"
	case *message.SchemaChangeEvent:
		return "SchemaChangeEvent(" + schemaChange(x.ChangeType, x.Target, x.Keyspace, x.Object, x.Arguments) + ")"
	case *message.StatusChangeEvent:
		return "StatusChange(" + S(string(x.ChangeType)) + "," + Inet(x.Address) + ")"
	case *message.TopologyChangeEvent:
		return "TopologyChange(" + S(string(x.ChangeType)) + "," + Inet(x.Address) + ")"
	}
	return fmt.Sprintf("?%T", m)
}

func Header(h *frame.Header) string {
	return "H(" + join(T(h.IsResponse), N(uint64(h.Version)), N(uint64(h.Flags)), N(uint64(uint16(h.StreamId))), N(uint64(h.OpCode)),
		N(uint64(uint32(h.BodyLength)))) + ")"
}

func Body(b *frame.Body) string {
	tr := "~"
	if b.TracingId != nil {
		tr = B(b.TracingId[:])
	}
	payload := "~"
	if b.CustomPayload != nil {
		m := map[string]string{}
		for k, v := range b.CustomPayload {
			m[k] = OB(v)
		}
		payload = sortedMap(m)
	}
	return "Y(" + join(tr, payload, strList(b.Warnings), Message(b.Message)) + ")"
}

func Frame(f *frame.Frame) string { return "F(" + Header(f.Header) + "," + Body(f.Body) + ")" }
