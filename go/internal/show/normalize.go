package show

import (
	"net"

	"github.com/datastax/go-cassandra-native-protocol/frame"
	"github.com/datastax/go-cassandra-native-protocol/message"
	"github.com/datastax/go-cassandra-native-protocol/primitive"
)

// Normalize returns a deep copy of f in which every distinction the wire format cannot carry has been erased (the Go-side
// statement of the `canon*` functions of the Lean model): nil vs empty for collections without a null encoding, nil
// option/metadata structs vs their zero value, IPv4 held in 4 or 16 bytes, fields that do not exist in the version.
// [bytes]-typed fields (tokens, paging state, values, cells, payload values) are left alone: null and empty differ on the wire.
func Normalize(f *frame.Frame) *frame.Frame {
	c := f.DeepCopy()
	v := c.Header.Version
	c.Header.BodyLength = 0
	if c.Body.Warnings == nil {
		c.Body.Warnings = []string{}
	}
	if c.Body.CustomPayload == nil {
		c.Body.CustomPayload = map[string][]byte{}
	}
	if !c.Header.Flags.Contains(primitive.HeaderFlagWarning) {
		c.Body.Warnings = []string{}
	}
	if !c.Header.Flags.Contains(primitive.HeaderFlagCustomPayload) {
		c.Body.CustomPayload = map[string][]byte{}
	}
	c.Body.Message = normMsg(c.Body.Message, v)
	return c
}

func normIP(ip net.IP) net.IP {
	if v4 := ip.To4(); v4 != nil {
		return v4
	}
	return ip
}

func normValues(vs []*primitive.Value) []*primitive.Value {
	if vs == nil {
		return []*primitive.Value{}
	}
	for i, x := range vs {
		vs[i] = normValue(x)
	}
	return vs
}

func normValue(x *primitive.Value) *primitive.Value {
	if x != nil && x.Type == primitive.ValueTypeRegular && x.Contents == nil {
		return primitive.NewNullValue()
	}
	return x
}

func normQO(o *message.QueryOptions, v primitive.ProtocolVersion) *message.QueryOptions {
	if o == nil {
		o = &message.QueryOptions{}
	}
	if o.PositionalValues != nil {
		o.PositionalValues = normValues(o.PositionalValues)
		o.NamedValues = nil // positional values are preferred and named ones ignored (documented on QueryOptions)
	}
	for k, x := range o.NamedValues {
		o.NamedValues[k] = normValue(x)
	}
	if o.PageSize <= 0 {
		o.PageSize = 0
		o.PageSizeInBytes = false
	}
	if c := o.ContinuousPagingOptions; c != nil && v < primitive.ProtocolVersionDse2 {
		c.NextPages = 0
	}
	return o
}

func normStrList(l []string) []string {
	if l == nil {
		return []string{}
	}
	return l
}

func normCols(cols []*message.ColumnMetadata) []*message.ColumnMetadata {
	if len(cols) == 0 {
		return nil
	}
	for _, c := range cols {
		c.Index = 0
	}
	return cols
}

func normRowsMeta(m *message.RowsMetadata) *message.RowsMetadata {
	if m == nil {
		m = &message.RowsMetadata{}
	}
	m.Columns = normCols(m.Columns)
	if m.ContinuousPageNumber <= 0 {
		m.ContinuousPageNumber = 0
		m.LastContinuousPage = false
	}
	return m
}

func normReasons(rs []*primitive.FailureReason) []*primitive.FailureReason {
	if rs == nil {
		rs = []*primitive.FailureReason{}
	}
	for _, r := range rs {
		r.Endpoint = normIP(r.Endpoint)
	}
	return rs
}

func normMsg(m message.Message, v primitive.ProtocolVersion) message.Message {
	switch x := m.(type) {
	case *message.Startup:
		if x.Options == nil {
			x.Options = map[string]string{}
		}
	case *message.Supported:
		if x.Options == nil {
			x.Options = map[string][]string{}
		}
	case *message.Query:
		x.Options = normQO(x.Options, v)
	case *message.Execute:
		x.Options = normQO(x.Options, v)
	case *message.Batch:
		if x.Children == nil {
			x.Children = []*message.BatchChild{}
		}
		for _, c := range x.Children {
			c.Values = normValues(c.Values)
			if c.Query != "" {
				c.Id = nil
			}
		}
	case *message.Revise:
		if x.RevisionType != primitive.DseRevisionTypeMoreContinuousPages {
			x.NextPages = 0
		}
	case *message.WriteTimeout:
		if !(v.SupportsWriteTimeoutContentions() && x.WriteType == primitive.WriteTypeCas) {
			x.Contentions = 0
		}
	case *message.ReadFailure:
		if v.SupportsReadWriteFailureReasonMap() {
			x.NumFailures = 0
			x.FailureReasons = normReasons(x.FailureReasons)
		} else {
			x.FailureReasons = nil
		}
	case *message.WriteFailure:
		if v.SupportsReadWriteFailureReasonMap() {
			x.NumFailures = 0
			x.FailureReasons = normReasons(x.FailureReasons)
		} else {
			x.FailureReasons = nil
		}
	case *message.FunctionFailure:
		x.Arguments = normStrList(x.Arguments)
	case *message.Unprepared:
		if x.Id == nil {
			x.Id = []byte{}
		}
	case *message.SchemaChangeResult:
		if x.Target == primitive.SchemaChangeTargetFunction || x.Target == primitive.SchemaChangeTargetAggregate {
			x.Arguments = normStrList(x.Arguments)
		}
	case *message.SchemaChangeEvent:
		if x.Target == primitive.SchemaChangeTargetFunction || x.Target == primitive.SchemaChangeTargetAggregate {
			x.Arguments = normStrList(x.Arguments)
		}
	case *message.StatusChangeEvent:
		x.Address.Addr = normIP(x.Address.Addr)
	case *message.TopologyChangeEvent:
		x.Address.Addr = normIP(x.Address.Addr)
	case *message.PreparedResult:
		if !v.SupportsResultMetadataId() {
			x.ResultMetadataId = nil
		}
		if x.VariablesMetadata == nil {
			x.VariablesMetadata = &message.VariablesMetadata{}
		}
		x.VariablesMetadata.Columns = normCols(x.VariablesMetadata.Columns)
		if v < primitive.ProtocolVersion4 || len(x.VariablesMetadata.PkIndices) == 0 {
			x.VariablesMetadata.PkIndices = nil
		}
		x.ResultMetadata = normRowsMeta(x.ResultMetadata)
	case *message.RowsResult:
		x.Metadata = normRowsMeta(x.Metadata)
		if x.Data == nil {
			x.Data = message.RowSet{}
		}
		for i, r := range x.Data {
			if r == nil {
				x.Data[i] = message.Row{}
			}
		}
	}
	return m
}
