package main

import (
	"fmt"
	"go/ast"
	"go/constant"
	"go/token"
	"go/types"
	"math/big"
	"sort"
	"strings"

	"golang.org/x/tools/go/packages"
)

// ---------------------------------------------------------------------------------------------
// gofn: a small Go → Lean translator for the library's pure integer code  →  Gen/GoFn.lean
//
// Each whitelisted function is translated STATEMENT BY STATEMENT into a Lean definition over bit vectors of the width
// of the Go type (`int64`/`int`/`uint64` → `BitVec 64`, `int32`/`uint32` → `BitVec 32`, `byte` → `BitVec 8`), so that
// wrap-around, truncating division, arithmetic vs logical shifts, sign vs zero extension in conversions and the
// bit-twiddling sign tests of the source are all carried into the model as written, not as intended:
//
//   x + y, x - y, x * y        BitVec + - *                    (two's-complement wrap-around)
//   x / y, x % y               BitVec.sdiv / srem (signed), udiv / umod (unsigned)
//   x & y, x | y, x ^ y, ^x    &&&  |||  ^^^  ~~~
//   x << k                     <<< ;   x >> k   BitVec.sshiftRight (signed operand), >>> (unsigned operand)
//   x < y …                    BitVec.slt / sle (signed), ult / ule (unsigned)
//   T(x)                       truncation, or sign/zero extension according to the SOURCE type
//   v, ok = f(a, b)            projections of the translated callee
//   if init; cond {…} else {…}, x := e, x = e, x op= e, x++, var x T, return …, counted for loops
//   t.Unix(), t.Nanosecond()   (on a time.Time parameter) become parameters of the Lean function
//   header.Field               (on a struct pointer parameter) becomes a parameter of the Lean function
//   error results              a Bool: the error is non-nil
//
// Anything else is rejected. The hand-written models these functions correspond to (Cql/TimeConv, Cql/Vint, Cql/Crc,
// Cql/Segment) are proved equal to the regenerated definitions in Cql/Lemmas/GoFnTie.lean, and the property theorems
// are restated for the regenerated definitions (`…_as_written`).
// ---------------------------------------------------------------------------------------------

type gty struct {
	kind   string // "bv", "bool", "err", "time", "tuple"
	width  int
	signed bool
	elems  []gty
}

func (t gty) lean() string {
	switch t.kind {
	case "bv":
		return fmt.Sprintf("BitVec %d", t.width)
	case "bool", "err":
		return "Bool"
	case "time":
		return "BitVec 64 × BitVec 64"
	case "tuple":
		var p []string
		for _, e := range t.elems {
			s := e.lean()
			if e.kind == "time" {
				s = "(" + s + ")"
			}
			p = append(p, s)
		}
		return strings.Join(p, " × ")
	}
	return "?"
}

type fnSpec struct {
	group     string // generated file: GoFn<group>.lean (one generator per group, so that a change in one area does not touch the others)
	pkg, name string // name: Func or Type.Method
	// tailCall: the function ends in `return recv.<tailCall>(args…, dest)`; the translated function returns the integer args
	tailCall string
	// startAfter: translate only the statements that follow the top-level `if <startAfter> {…}`; the integer variables they
	// use from before become parameters (for functions whose first part does I/O)
	startAfter string
	leanName   string
}

var goFnList = []fnSpec{
	{"Time", "datacodec", "addExact", "", "", ""}, {"Time", "datacodec", "multiplyExact", "", "", ""}, {"Time", "datacodec", "floorDiv", "", "", ""}, {"Time", "datacodec", "floorMod", "", "", ""},
	{"Time", "datacodec", "ConvertTimeToEpochMillis", "", "", ""}, {"Time", "datacodec", "ConvertEpochMillisToTime", "", "", ""},
	{"Time", "datacodec", "ConvertTimeToEpochDays", "", "", ""}, {"Time", "datacodec", "ConvertEpochDaysToTime", "", "", ""},
	{"Time", "datacodec", "ConvertDurationToNanosOfDay", "", "", ""}, {"Time", "datacodec", "ConvertNanosOfDayToDuration", "", "", ""},
	{"Time", "datacodec", "ConvertTimeToNanosOfDay", "", "", ""},
	{"Vint", "primitive", "encodeZigZag", "", "", ""}, {"Vint", "primitive", "decodeZigZag", "", "", ""},
	{"Vint", "primitive", "LengthOfUnsignedVint", "", "", ""}, {"Vint", "primitive", "LengthOfVint", "", "", ""},
	{"Crc", "crc", "ChecksumKoopman", "", "", ""},
	{"Crc", "segment", "codec.encodeHeaderUncompressed", "writeHeaderDataAndCrc", "", ""},
	{"Crc", "segment", "codec.encodeHeaderCompressed", "writeHeaderDataAndCrc", "", ""},
	{"Crc", "segment", "codec.decodeSegmentHeader", "", "actualHeaderCrc != expectedHeaderCrc", "decodeSegmentHeaderFields"},
	{"Crc", "segment", "codec.headerLength", "", "", ""},
}

type fnGen struct {
	pkg     *packages.Package
	spec    fnSpec
	fd      *ast.FuncDecl
	known   map[string]string // Go function name → Lean name (already translated, callable)
	extra   []string          // extra parameters (accessor results), in order of first use
	extraTy map[string]gty
	opaque  map[string]string // parameter name → "time" | "struct" | "ignore"
	utc     map[string]bool   // time.Time parameter has been replaced by its UTC() form (`t = t.UTC()`)
	structs map[string][]string // local `x := &T{…}`: field names in declaration order (each field is the Lean variable x_Field)
	recv    string              // receiver name
	named   []string          // named results
	namedTy []gty
	results []gty
	scope   map[string]gty // variables in scope → type
	fresh   int
}

func (g *fnGen) fail(n ast.Node, msg string) {
	fatalf("gofn: %s.%s: %s at %v", g.spec.pkg, g.spec.name, msg, g.pkg.Fset.Position(n.Pos()))
}

func basicTy(t types.Type) (gty, bool) {
	if b, ok := t.Underlying().(*types.Basic); ok {
		switch b.Kind() {
		case types.Int, types.Int64:
			return gty{kind: "bv", width: 64, signed: true}, true
		case types.Uint, types.Uint64, types.Uintptr:
			return gty{kind: "bv", width: 64}, true
		case types.Int32:
			return gty{kind: "bv", width: 32, signed: true}, true
		case types.Uint32:
			return gty{kind: "bv", width: 32}, true
		case types.Int16:
			return gty{kind: "bv", width: 16, signed: true}, true
		case types.Uint16:
			return gty{kind: "bv", width: 16}, true
		case types.Int8:
			return gty{kind: "bv", width: 8, signed: true}, true
		case types.Uint8:
			return gty{kind: "bv", width: 8}, true
		case types.Bool, types.UntypedBool:
			return gty{kind: "bool"}, true
		}
	}
	return gty{}, false
}

func isNamed(t types.Type, pkg, name string) bool {
	n, ok := t.(*types.Named)
	return ok && n.Obj().Pkg() != nil && n.Obj().Pkg().Path() == pkg && n.Obj().Name() == name
}

func (g *fnGen) tyOf(t types.Type, at ast.Node) gty {
	if bt, ok := basicTy(t); ok {
		return bt
	}
	if isNamed(t, "time", "Time") {
		return gty{kind: "time"}
	}
	if n, ok := t.(*types.Named); ok && n.Obj().Name() == "error" {
		return gty{kind: "err"}
	}
	if types.Identical(t, types.Universe.Lookup("error").Type()) {
		return gty{kind: "err"}
	}
	if tup, ok := t.(*types.Tuple); ok {
		r := gty{kind: "tuple"}
		for i := 0; i < tup.Len(); i++ {
			r.elems = append(r.elems, g.tyOf(tup.At(i).Type(), at))
		}
		return r
	}
	g.fail(at, fmt.Sprintf("unsupported type %v", t))
	return gty{}
}

func lit(v *big.Int, w int) string {
	m := new(big.Int).Lsh(big.NewInt(1), uint(w))
	r := new(big.Int).Mod(v, m)
	return fmt.Sprintf("%s#%d", r.String(), w)
}

func leanName(s string) string {
	switch s {
	case "len", "from", "at", "end", "then", "else", "do", "fun", "let", "in", "if", "match", "with", "open", "def", "theorem":
		return s + "'"
	}
	return s
}

// constant value of an expression of integer type, as a literal of the expression's type
func (g *fnGen) constLit(e ast.Expr) (string, bool) {
	tv, ok := g.pkg.TypesInfo.Types[e]
	if !ok || tv.Value == nil {
		return "", false
	}
	switch tv.Value.Kind() {
	case constant.Int:
		t := tv.Type
		bt, ok := basicTy(t)
		if !ok || bt.kind != "bv" {
			// untyped constant: the caller decides the width
			return "", false
		}
		bi, ok2 := new(big.Int).SetString(tv.Value.ExactString(), 10)
		if !ok2 {
			return "", false
		}
		return lit(bi, bt.width), true
	case constant.Bool:
		if constant.BoolVal(tv.Value) {
			return "true", true
		}
		return "false", true
	}
	return "", false
}

// untyped integer constant rendered at a given width
func (g *fnGen) constAt(e ast.Expr, w int) (string, bool) {
	tv, ok := g.pkg.TypesInfo.Types[e]
	if !ok || tv.Value == nil || tv.Value.Kind() != constant.Int {
		return "", false
	}
	bi, ok2 := new(big.Int).SetString(tv.Value.ExactString(), 10)
	if !ok2 {
		return "", false
	}
	return lit(bi, w), true
}

func (g *fnGen) exprTy(e ast.Expr) gty {
	tv, ok := g.pkg.TypesInfo.Types[e]
	if !ok {
		g.fail(e, "expression without type")
	}
	return g.tyOf(tv.Type, e)
}

func (g *fnGen) addExtra(name string, t gty) string {
	if _, ok := g.extraTy[name]; !ok {
		g.extra = append(g.extra, name)
		g.extraTy[name] = t
	}
	return name
}

// accessor on an opaque parameter: t.Unix(), t.UTC().Unix(), t.Nanosecond(), header.Field
func (g *fnGen) accessor(e ast.Expr) (string, bool) {
	switch x := e.(type) {
	case *ast.CallExpr:
		sel, ok := x.Fun.(*ast.SelectorExpr)
		if !ok || len(x.Args) != 0 {
			return "", false
		}
		recv := sel.X
		// t.UTC().M() reads the same instant as t.M() for Unix; for calendar fields it does not
		if c2, ok := recv.(*ast.CallExpr); ok {
			if s2, ok := c2.Fun.(*ast.SelectorExpr); ok && s2.Sel.Name == "UTC" && len(c2.Args) == 0 && sel.Sel.Name == "Unix" {
				recv = s2.X
			}
		}
		id, ok := recv.(*ast.Ident)
		if !ok || g.opaque[id.Name] != "time" {
			return "", false
		}
		switch sel.Sel.Name {
		case "Unix", "Nanosecond":
			// the same in every location
			return g.addExtra(id.Name+"_"+sel.Sel.Name, g.exprTy(e)), true
		case "Hour", "Minute", "Second":
			// wall-clock fields depend on the location: the parameter says which clock is read
			clock := "_local_"
			if g.utc[id.Name] {
				clock = "_UTC_"
			}
			return g.addExtra(id.Name+clock+sel.Sel.Name, g.exprTy(e)), true
		}
	case *ast.SelectorExpr:
		id, ok := x.X.(*ast.Ident)
		if !ok {
			return "", false
		}
		if _, isLocal := g.structs[id.Name]; isLocal {
			n := id.Name + "_" + x.Sel.Name
			if _, ok := g.scope[n]; !ok {
				g.fail(e, "unknown field of local struct")
			}
			return n, true
		}
		if g.opaque[id.Name] != "struct" {
			return "", false
		}
		return g.addExtra(id.Name+"_"+x.Sel.Name, g.exprTy(e)), true
	}
	return "", false
}

func (g *fnGen) expr(e ast.Expr) string {
	info := g.pkg.TypesInfo
	if s, ok := g.constLit(e); ok {
		return s
	}
	if s, ok := g.accessor(e); ok {
		return s
	}
	switch x := e.(type) {
	case *ast.ParenExpr:
		return g.expr(x.X)
	case *ast.Ident:
		if x.Name == "nil" {
			return "false"
		}
		if _, ok := info.Uses[x].(*types.Var); ok {
			if _, in := g.scope[x.Name]; !in {
				g.fail(x, "variable "+x.Name+" is not a local of the translated function")
			}
			return leanName(x.Name)
		}
	case *ast.UnaryExpr:
		t := g.exprTy(e)
		switch x.Op {
		case token.SUB:
			return fmt.Sprintf("(-%s)", g.expr(x.X))
		case token.XOR:
			return fmt.Sprintf("(~~~%s)", g.expr(x.X))
		case token.NOT:
			return fmt.Sprintf("(!%s)", g.expr(x.X))
		case token.ADD:
			return g.expr(x.X)
		}
		_ = t
	case *ast.BinaryExpr:
		return g.binary(x)
	case *ast.CallExpr:
		return g.call(x)
	}
	g.fail(e, fmt.Sprintf("unsupported expression %T", e))
	return ""
}

// operand of a binary operation whose other operand has type t (untyped constants take that type)
func (g *fnGen) operand(e ast.Expr, t gty) string {
	if tv, ok := g.pkg.TypesInfo.Types[e]; ok && tv.Value != nil && tv.Value.Kind() == constant.Int && t.kind == "bv" {
		if s, ok := g.constAt(e, t.width); ok {
			return s
		}
	}
	return g.expr(e)
}

func (g *fnGen) shiftCount(e ast.Expr) string {
	if tv, ok := g.pkg.TypesInfo.Types[e]; ok && tv.Value != nil && tv.Value.Kind() == constant.Int {
		return "(" + tv.Value.ExactString() + " : Nat)"
	}
	// a variable count: Go panics for a negative signed count; the translated functions only shift by unsigned values or
	// by values the theorems bound
	return "(" + g.expr(e) + ").toNat"
}

func (g *fnGen) binary(x *ast.BinaryExpr) string {
	// c.field == nil / != nil on the receiver: a Boolean parameter
	if x.Op == token.EQL || x.Op == token.NEQ {
		if nl, ok := x.Y.(*ast.Ident); ok && nl.Name == "nil" {
			if sel, ok := x.X.(*ast.SelectorExpr); ok {
				if id, ok := sel.X.(*ast.Ident); ok && g.recv != "" && id.Name == g.recv {
					n := g.addExtra(id.Name+"_"+sel.Sel.Name+"_isNil", gty{kind: "bool"})
					if x.Op == token.NEQ {
						return "(!" + n + ")"
					}
					return n
				}
			}
		}
	}
	switch x.Op {
	case token.LAND:
		return fmt.Sprintf("(%s && %s)", g.expr(x.X), g.expr(x.Y))
	case token.LOR:
		return fmt.Sprintf("(%s || %s)", g.expr(x.X), g.expr(x.Y))
	}
	// type of the operands
	var ot gty
	if tv, ok := g.pkg.TypesInfo.Types[x.X]; ok {
		if bt, ok := basicTy(tv.Type); ok && (tv.Value == nil || !isUntyped(tv.Type)) {
			ot = bt
		}
	}
	if ot.kind == "" {
		if tv, ok := g.pkg.TypesInfo.Types[x.Y]; ok {
			if bt, ok := basicTy(tv.Type); ok && !isUntyped(tv.Type) {
				ot = bt
			}
		}
	}
	if x.Op == token.SHL || x.Op == token.SHR {
		ot = g.exprTy(x.X)
		a := g.expr(x.X)
		if x.Op == token.SHL {
			return fmt.Sprintf("(%s <<< %s)", a, g.shiftCount(x.Y))
		}
		if ot.signed {
			return fmt.Sprintf("(BitVec.sshiftRight %s %s)", a, g.shiftCount(x.Y))
		}
		return fmt.Sprintf("(%s >>> %s)", a, g.shiftCount(x.Y))
	}
	if ot.kind == "" {
		g.fail(x, "operands without a sized type")
	}
	if ot.kind == "bool" {
		a, b := g.expr(x.X), g.expr(x.Y)
		switch x.Op {
		case token.EQL:
			return fmt.Sprintf("(%s == %s)", a, b)
		case token.NEQ:
			return fmt.Sprintf("(%s != %s)", a, b)
		}
		g.fail(x, "unsupported boolean operator "+x.Op.String())
	}
	a, b := g.operand(x.X, ot), g.operand(x.Y, ot)
	sg := ot.signed
	pick := func(s, u string) string {
		if sg {
			return s
		}
		return u
	}
	switch x.Op {
	case token.ADD:
		return fmt.Sprintf("(%s + %s)", a, b)
	case token.SUB:
		return fmt.Sprintf("(%s - %s)", a, b)
	case token.MUL:
		return fmt.Sprintf("(%s * %s)", a, b)
	case token.QUO:
		return fmt.Sprintf("(%s %s %s)", pick("BitVec.sdiv", "BitVec.udiv"), a, b)
	case token.REM:
		return fmt.Sprintf("(%s %s %s)", pick("BitVec.srem", "BitVec.umod"), a, b)
	case token.AND:
		return fmt.Sprintf("(%s &&& %s)", a, b)
	case token.OR:
		return fmt.Sprintf("(%s ||| %s)", a, b)
	case token.XOR:
		return fmt.Sprintf("(%s ^^^ %s)", a, b)
	case token.AND_NOT:
		return fmt.Sprintf("(%s &&& ~~~%s)", a, b)
	case token.EQL:
		return fmt.Sprintf("(%s == %s)", a, b)
	case token.NEQ:
		return fmt.Sprintf("(%s != %s)", a, b)
	case token.LSS:
		return fmt.Sprintf("(%s %s %s)", pick("BitVec.slt", "BitVec.ult"), a, b)
	case token.LEQ:
		return fmt.Sprintf("(%s %s %s)", pick("BitVec.sle", "BitVec.ule"), a, b)
	case token.GTR:
		return fmt.Sprintf("(%s %s %s)", pick("BitVec.slt", "BitVec.ult"), b, a)
	case token.GEQ:
		return fmt.Sprintf("(%s %s %s)", pick("BitVec.sle", "BitVec.ule"), b, a)
	}
	g.fail(x, "unsupported operator "+x.Op.String())
	return ""
}

func isUntyped(t types.Type) bool {
	b, ok := t.(*types.Basic)
	return ok && b.Info()&types.IsUntyped != 0
}

func (g *fnGen) convert(to gty, arg ast.Expr) string {
	// a constant argument takes the target type directly
	if s, ok := g.constAt(arg, to.width); ok {
		return s
	}
	from := g.exprTy(arg)
	if from.kind != "bv" || to.kind != "bv" {
		g.fail(arg, "unsupported conversion")
	}
	a := g.expr(arg)
	switch {
	case from.width == to.width:
		return a
	case to.width < from.width:
		return fmt.Sprintf("(BitVec.setWidth %d %s)", to.width, a)
	case from.signed:
		return fmt.Sprintf("(BitVec.signExtend %d %s)", to.width, a)
	default:
		return fmt.Sprintf("(BitVec.setWidth %d %s)", to.width, a)
	}
}

func (g *fnGen) call(x *ast.CallExpr) string {
	info := g.pkg.TypesInfo
	// conversion
	if tv, ok := info.Types[x.Fun]; ok && tv.IsType() && len(x.Args) == 1 {
		// (uint32)(data): parenthesised type
		to := g.tyOf(tv.Type, x)
		return g.convert(to, x.Args[0])
	}
	if p, ok := x.Fun.(*ast.ParenExpr); ok {
		if tv, ok := info.Types[p.X]; ok && tv.IsType() && len(x.Args) == 1 {
			return g.convert(g.tyOf(tv.Type, x), x.Args[0])
		}
	}
	// an error constructor: the result is a non-nil error
	if t, ok := info.Types[x]; ok && g.isErr(t.Type) {
		return "true"
	}
	switch f := x.Fun.(type) {
	case *ast.Ident:
		if ln, ok := g.known[g.spec.pkg+"."+f.Name]; ok {
			var args []string
			sig := info.Uses[f].Type().(*types.Signature)
			for i, a := range x.Args {
				args = append(args, g.operand(a, g.tyOf(sig.Params().At(i).Type(), a)))
			}
			return fmt.Sprintf("(%s %s)", ln, strings.Join(args, " "))
		}
	case *ast.SelectorExpr:
		if id, ok := f.X.(*ast.Ident); ok {
			if pn, ok := info.Uses[id].(*types.PkgName); ok {
				full := pn.Imported().Path() + "." + f.Sel.Name
				switch full {
				case "math/bits.LeadingZeros64":
					return fmt.Sprintf("(GoRt.lz64 %s)", g.expr(x.Args[0]))
				case "math/bits.LeadingZeros32":
					return fmt.Sprintf("(GoRt.lz32 %s)", g.expr(x.Args[0]))
				}
			}
		}
		// d.Nanoseconds() on a time.Duration is int64(d)
		if f.Sel.Name == "Nanoseconds" && len(x.Args) == 0 {
			if tv, ok := info.Types[f.X]; ok && isNamed(tv.Type, "time", "Duration") {
				return g.expr(f.X)
			}
		}
		// time.Unix(s, ns).UTC(): the pair handed to time.Unix
		if f.Sel.Name == "UTC" && len(x.Args) == 0 {
			if inner, ok := f.X.(*ast.CallExpr); ok {
				if s2, ok := inner.Fun.(*ast.SelectorExpr); ok && s2.Sel.Name == "Unix" {
					if id, ok := s2.X.(*ast.Ident); ok {
						if pn, ok := info.Uses[id].(*types.PkgName); ok && pn.Imported().Path() == "time" && len(inner.Args) == 2 {
							i64 := gty{kind: "bv", width: 64, signed: true}
							return fmt.Sprintf("(%s, %s)", g.operand(inner.Args[0], i64), g.operand(inner.Args[1], i64))
						}
					}
				}
			}
		}
	}
	g.fail(x, "unsupported call")
	return ""
}

func (g *fnGen) isErr(t types.Type) bool {
	return types.Identical(t, types.Universe.Lookup("error").Type())
}

// ---- statements ------------------------------------------------------------------------------------------------

func alwaysReturns(stmts []ast.Stmt) bool {
	if len(stmts) == 0 {
		return false
	}
	switch s := stmts[len(stmts)-1].(type) {
	case *ast.ReturnStmt:
		return true
	case *ast.BlockStmt:
		return alwaysReturns(s.List)
	case *ast.IfStmt:
		if s.Else == nil {
			return false
		}
		return alwaysReturns(s.Body.List) && alwaysReturns(elseList(s.Else))
	}
	return false
}

func containsReturn(stmts []ast.Stmt) bool {
	found := false
	for _, s := range stmts {
		ast.Inspect(s, func(n ast.Node) bool {
			if _, ok := n.(*ast.ReturnStmt); ok {
				found = true
			}
			return !found
		})
	}
	return found
}

func elseList(s ast.Stmt) []ast.Stmt {
	switch e := s.(type) {
	case nil:
		return nil
	case *ast.BlockStmt:
		return e.List
	default:
		return []ast.Stmt{e}
	}
}

// variables assigned (not declared) in stmts that are in scope outside
func (g *fnGen) assigned(stmts []ast.Stmt) []string {
	set := map[string]bool{}
	declared := map[string]bool{}
	var walk func(n ast.Node) bool
	walk = func(n ast.Node) bool {
		switch s := n.(type) {
		case *ast.AssignStmt:
			for _, l := range s.Lhs {
				if sel, ok := l.(*ast.SelectorExpr); ok {
					if id, ok := sel.X.(*ast.Ident); ok {
						if _, isLocal := g.structs[id.Name]; isLocal {
							set[id.Name+"_"+sel.Sel.Name] = true
						}
					}
				}
				if id, ok := l.(*ast.Ident); ok && id.Name != "_" {
					if s.Tok == token.DEFINE {
						declared[id.Name] = true
					} else if !declared[id.Name] {
						set[id.Name] = true
					}
				}
			}
		case *ast.IncDecStmt:
			if id, ok := s.X.(*ast.Ident); ok && !declared[id.Name] {
				set[id.Name] = true
			}
		case *ast.DeclStmt:
			if gd, ok := s.Decl.(*ast.GenDecl); ok {
				for _, sp := range gd.Specs {
					if vs, ok := sp.(*ast.ValueSpec); ok {
						for _, n := range vs.Names {
							declared[n.Name] = true
						}
					}
				}
			}
		}
		return true
	}
	for _, s := range stmts {
		ast.Inspect(s, walk)
	}
	var res []string
	for v := range set {
		if _, ok := g.scope[v]; ok {
			res = append(res, v)
		}
	}
	sort.Strings(res)
	return res
}

func tupleOf(vs []string) string {
	var p []string
	for _, v := range vs {
		p = append(p, leanName(v))
	}
	if len(p) == 1 {
		return p[0]
	}
	return "(" + strings.Join(p, ", ") + ")"
}

func indent(s, pad string) string {
	return pad + strings.ReplaceAll(s, "\n", "\n"+pad)
}

// bindTuple: `let p := e; let a := p.1; let b := p.2.1 …`
func (g *fnGen) bindTuple(names []string, e string) string {
	if len(names) == 1 {
		return fmt.Sprintf("let %s := %s\n", leanName(names[0]), e)
	}
	g.fresh++
	p := fmt.Sprintf("p%d", g.fresh)
	var w strings.Builder
	fmt.Fprintf(&w, "let %s := %s\n", p, e)
	for i, n := range names {
		proj := p + strings.Repeat(".2", i)
		if i < len(names)-1 {
			proj += ".1"
		}
		if n == "_" {
			continue
		}
		fmt.Fprintf(&w, "let %s := %s\n", leanName(n), proj)
	}
	return w.String()
}

// seq translates a statement list; `tail` is the Lean term for "control falls off the end"
func (g *fnGen) seq(stmts []ast.Stmt, tail string) string {
	if len(stmts) == 0 {
		if tail == "" {
			fatalf("gofn: %s.%s: control reaches the end of a block without a value", g.spec.pkg, g.spec.name)
		}
		return tail
	}
	s, rest := stmts[0], stmts[1:]
	switch x := s.(type) {
	case *ast.BlockStmt:
		return g.seq(append(append([]ast.Stmt{}, x.List...), rest...), tail)
	case *ast.EmptyStmt:
		return g.seq(rest, tail)
	case *ast.ReturnStmt:
		return g.ret(x)
	case *ast.DeclStmt:
		gd, ok := x.Decl.(*ast.GenDecl)
		if !ok {
			g.fail(x, "unsupported declaration")
		}
		var w strings.Builder
		if gd.Tok == token.CONST {
			// local constants are folded into their uses by go/types
			return g.seq(rest, tail)
		}
		for _, sp := range gd.Specs {
			vs := sp.(*ast.ValueSpec)
			for i, n := range vs.Names {
				t := g.tyOf(g.pkg.TypesInfo.Defs[n].Type(), n)
				var val string
				if len(vs.Values) > i {
					val = g.operand(vs.Values[i], t)
				} else {
					switch t.kind {
					case "bv":
						val = fmt.Sprintf("0#%d", t.width)
					case "bool", "err":
						val = "false"
					default:
						g.fail(n, "zero value of unsupported type")
					}
				}
				g.scope[n.Name] = t
				fmt.Fprintf(&w, "let %s : %s := %s\n", leanName(n.Name), t.lean(), val)
			}
		}
		return w.String() + g.seq(rest, tail)
	case *ast.IncDecStmt:
		id, ok := x.X.(*ast.Ident)
		if !ok {
			g.fail(x, "unsupported ++/--")
		}
		t := g.scope[id.Name]
		op := "+"
		if x.Tok == token.DEC {
			op = "-"
		}
		return fmt.Sprintf("let %s := %s %s 1#%d\n", leanName(id.Name), leanName(id.Name), op, t.width) + g.seq(rest, tail)
	case *ast.AssignStmt:
		return g.assign(x) + g.seq(rest, tail)
	case *ast.IfStmt:
		if x.Init != nil {
			cp := *x
			cp.Init = nil
			if as, ok := x.Init.(*ast.AssignStmt); ok && as.Tok == token.DEFINE {
				for _, l := range as.Lhs {
					if id, ok := l.(*ast.Ident); ok {
						if _, clash := g.scope[id.Name]; clash {
							g.fail(x, "if-scoped variable shadows "+id.Name)
						}
					}
				}
			}
			return g.seq(append([]ast.Stmt{x.Init, &cp}, rest...), tail)
		}
		c := g.expr(x.Cond)
		thenL, elseL := x.Body.List, elseList(x.Else)
		tr, er := alwaysReturns(thenL), alwaysReturns(elseL)
		switch {
		case tr && er:
			return fmt.Sprintf("if %s then\n%s\nelse\n%s", c, indent(g.sub(thenL, ""), "  "), indent(g.sub(elseL, ""), "  "))
		case tr:
			return fmt.Sprintf("if %s then\n%s\nelse\n%s", c, indent(g.sub(thenL, ""), "  "), indent(g.sub(append(append([]ast.Stmt{}, elseL...), rest...), tail), "  "))
		case er:
			return fmt.Sprintf("if %s then\n%s\nelse\n%s", c, indent(g.sub(append(append([]ast.Stmt{}, thenL...), rest...), tail), "  "), indent(g.sub(elseL, ""), "  "))
		case !containsReturn(thenL) && !containsReturn(elseL):
			vs := g.assigned(append(append([]ast.Stmt{}, thenL...), elseL...))
			if len(vs) == 0 {
				return g.seq(rest, tail)
			}
			t := tupleOf(vs)
			join := fmt.Sprintf("if %s then\n%s\nelse\n%s", c, indent(g.sub(thenL, t), "  "), indent(g.sub(elseL, t), "  "))
			return g.bindTuple(vs, "(\n"+indent(join, "  ")+")") + g.seq(rest, tail)
		default:
			return fmt.Sprintf("if %s then\n%s\nelse\n%s", c,
				indent(g.sub(append(append([]ast.Stmt{}, thenL...), rest...), tail), "  "),
				indent(g.sub(append(append([]ast.Stmt{}, elseL...), rest...), tail), "  "))
		}
	case *ast.ForStmt:
		return g.forLoop(x) + g.seq(rest, tail)
	}
	g.fail(s, fmt.Sprintf("unsupported statement %T", s))
	return ""
}

// sub translates a nested block with its own scope
func (g *fnGen) sub(stmts []ast.Stmt, tail string) string {
	saved := map[string]gty{}
	for k, v := range g.scope {
		saved[k] = v
	}
	r := g.seq(stmts, tail)
	g.scope = saved
	return r
}

func (g *fnGen) assign(x *ast.AssignStmt) string {
	info := g.pkg.TypesInfo
	// t = t.UTC() on a time.Time parameter
	if x.Tok == token.ASSIGN && len(x.Lhs) == 1 && len(x.Rhs) == 1 {
		if id, ok := x.Lhs[0].(*ast.Ident); ok && g.opaque[id.Name] == "time" {
			if c, ok := x.Rhs[0].(*ast.CallExpr); ok && len(c.Args) == 0 {
				if sel, ok := c.Fun.(*ast.SelectorExpr); ok && sel.Sel.Name == "UTC" {
					if r, ok := sel.X.(*ast.Ident); ok && r.Name == id.Name {
						g.utc[id.Name] = true
						return ""
					}
				}
			}
			g.fail(x, "unsupported assignment to a time.Time parameter")
		}
	}
	names := func() []string {
		var ns []string
		for _, l := range x.Lhs {
			id, ok := l.(*ast.Ident)
			if !ok {
				g.fail(x, "assignment to something other than a local variable")
			}
			ns = append(ns, id.Name)
		}
		return ns
	}
	declare := func(id *ast.Ident) {
		if id.Name == "_" {
			return
		}
		if x.Tok == token.DEFINE {
			if obj := info.Defs[id]; obj != nil {
				g.scope[id.Name] = g.tyOf(obj.Type(), id)
				return
			}
		}
		if _, ok := g.scope[id.Name]; !ok {
			g.fail(id, "assignment to a variable that is not a local of the translated function: "+id.Name)
		}
	}
	// x := &T{F: e, …}: every field becomes a variable x_F
	if x.Tok == token.DEFINE && len(x.Lhs) == 1 && len(x.Rhs) == 1 {
		if u, ok := x.Rhs[0].(*ast.UnaryExpr); ok && u.Op == token.AND {
			if cl, ok := u.X.(*ast.CompositeLit); ok {
				id := x.Lhs[0].(*ast.Ident)
				st, ok := info.Types[cl].Type.Underlying().(*types.Struct)
				if !ok {
					g.fail(x, "composite literal of a non-struct type")
				}
				given := map[string]ast.Expr{}
				for _, el := range cl.Elts {
					kv, ok := el.(*ast.KeyValueExpr)
					if !ok {
						g.fail(x, "unkeyed struct literal")
					}
					given[kv.Key.(*ast.Ident).Name] = kv.Value
				}
				var w strings.Builder
				var fields []string
				for i := 0; i < st.NumFields(); i++ {
					f := st.Field(i)
					ft := g.tyOf(f.Type(), x)
					n := id.Name + "_" + f.Name()
					var val string
					if e, ok := given[f.Name()]; ok {
						val = g.operand(e, ft)
					} else if ft.kind == "bv" {
						val = fmt.Sprintf("0#%d", ft.width)
					} else {
						val = "false"
					}
					fmt.Fprintf(&w, "let %s : %s := %s\n", n, ft.lean(), val)
					fields = append(fields, f.Name())
					g.scope[n] = ft
				}
				g.structs[id.Name] = fields
				return w.String()
			}
		}
	}
	// x.F = e on a local struct
	if x.Tok == token.ASSIGN && len(x.Lhs) == 1 && len(x.Rhs) == 1 {
		if sel, ok := x.Lhs[0].(*ast.SelectorExpr); ok {
			if id, ok := sel.X.(*ast.Ident); ok {
				if _, isLocal := g.structs[id.Name]; isLocal {
					n := id.Name + "_" + sel.Sel.Name
					return fmt.Sprintf("let %s := %s\n", n, g.operand(x.Rhs[0], g.scope[n]))
				}
			}
		}
	}
	switch x.Tok {
	case token.ASSIGN, token.DEFINE:
		if len(x.Rhs) == 1 && len(x.Lhs) > 1 {
			e := g.expr(x.Rhs[0])
			ns := names()
			for _, l := range x.Lhs {
				declare(l.(*ast.Ident))
			}
			return g.bindTuple(ns, e)
		}
		if len(x.Rhs) != len(x.Lhs) {
			g.fail(x, "unsupported assignment")
		}
		// parallel assignment evaluates every right-hand side first
		ns := names()
		var vals []string
		for i := range x.Lhs {
			id := x.Lhs[i].(*ast.Ident)
			var t gty
			if x.Tok == token.DEFINE && info.Defs[id] != nil {
				t = g.tyOf(info.Defs[id].Type(), id)
			} else {
				t = g.scope[id.Name]
			}
			vals = append(vals, g.operand(x.Rhs[i], t))
		}
		for _, l := range x.Lhs {
			declare(l.(*ast.Ident))
		}
		if len(ns) == 1 {
			return fmt.Sprintf("let %s := %s\n", leanName(ns[0]), vals[0])
		}
		return g.bindTuple(ns, "("+strings.Join(vals, ", ")+")")
	default:
		// x op= e
		opTok, ok := map[token.Token]token.Token{token.ADD_ASSIGN: token.ADD, token.SUB_ASSIGN: token.SUB, token.MUL_ASSIGN: token.MUL,
			token.QUO_ASSIGN: token.QUO, token.REM_ASSIGN: token.REM, token.AND_ASSIGN: token.AND, token.OR_ASSIGN: token.OR,
			token.XOR_ASSIGN: token.XOR, token.SHL_ASSIGN: token.SHL, token.SHR_ASSIGN: token.SHR, token.AND_NOT_ASSIGN: token.AND_NOT}[x.Tok]
		if !ok || len(x.Lhs) != 1 || len(x.Rhs) != 1 {
			g.fail(x, "unsupported assignment operator")
		}
		id, ok := x.Lhs[0].(*ast.Ident)
		if !ok {
			g.fail(x, "assignment to something other than a local variable")
		}
		declare(id)
		be := &ast.BinaryExpr{X: x.Lhs[0], Op: opTok, Y: x.Rhs[0], OpPos: x.TokPos}
		// the synthetic node has no entry in TypesInfo: give it the type of its left operand
		info.Types[be] = types.TypeAndValue{Type: info.Types[x.Lhs[0]].Type}
		if _, ok := info.Types[x.Lhs[0]]; !ok {
			info.Types[be] = types.TypeAndValue{Type: info.Uses[id].Type()}
			info.Types[x.Lhs[0]] = types.TypeAndValue{Type: info.Uses[id].Type()}
		}
		return fmt.Sprintf("let %s := %s\n", leanName(id.Name), g.binary(be))
	}
}

func (g *fnGen) ret(x *ast.ReturnStmt) string {
	if len(x.Results) == 0 {
		if len(g.named) == 0 {
			g.fail(x, "bare return without named results")
		}
		return tupleOf(g.named)
	}
	// tail call whose integer arguments are the result
	if g.spec.tailCall != "" && len(x.Results) == 1 {
		if c, ok := x.Results[0].(*ast.CallExpr); ok {
			if sel, ok := c.Fun.(*ast.SelectorExpr); ok && sel.Sel.Name == g.spec.tailCall {
				var vals []string
				for _, a := range c.Args {
					tv := g.pkg.TypesInfo.Types[a]
					if bt, ok := basicTy(tv.Type); ok && bt.kind == "bv" {
						vals = append(vals, g.operand(a, bt))
					}
				}
				return "(" + strings.Join(vals, ", ") + ")"
			}
		}
		g.fail(x, "return is not the expected call of "+g.spec.tailCall)
	}
	if len(x.Results) != len(g.results) {
		g.fail(x, "unsupported return")
	}
	var vals []string
	for i, r := range x.Results {
		if id, ok := r.(*ast.Ident); ok {
			if fields, isLocal := g.structs[id.Name]; isLocal {
				for _, f := range fields {
					vals = append(vals, id.Name+"_"+f)
				}
				continue
			}
		}
		vals = append(vals, g.operand(r, g.results[i]))
	}
	if len(vals) == 1 {
		return vals[0]
	}
	return "(" + strings.Join(vals, ", ") + ")"
}

// for i := 0; i < n; i++ { body }  →  GoRt.forUp (count n) state (fun i state => body; state)
func (g *fnGen) forLoop(x *ast.ForStmt) string {
	init, ok := x.Init.(*ast.AssignStmt)
	if !ok || init.Tok != token.DEFINE || len(init.Lhs) != 1 || len(init.Rhs) != 1 {
		g.fail(x, "unsupported loop header")
	}
	iv := init.Lhs[0].(*ast.Ident)
	if tv := g.pkg.TypesInfo.Types[init.Rhs[0]]; tv.Value == nil || tv.Value.ExactString() != "0" {
		g.fail(x, "loop does not start at 0")
	}
	cond, ok := x.Cond.(*ast.BinaryExpr)
	if !ok || cond.Op != token.LSS {
		g.fail(x, "unsupported loop condition")
	}
	if id, ok := cond.X.(*ast.Ident); !ok || id.Name != iv.Name {
		g.fail(x, "unsupported loop condition")
	}
	post, ok := x.Post.(*ast.IncDecStmt)
	if !ok || post.Tok != token.INC {
		g.fail(x, "unsupported loop step")
	}
	if id, ok := post.X.(*ast.Ident); !ok || id.Name != iv.Name {
		g.fail(x, "unsupported loop step")
	}
	if containsReturn(x.Body.List) {
		g.fail(x, "return inside a loop")
	}
	ivT := g.tyOf(g.pkg.TypesInfo.Defs[iv].Type(), iv)
	bound := g.operand(cond.Y, ivT)
	// the bound must not change in the body, nor the loop variable
	vs := g.assigned(x.Body.List)
	for _, v := range vs {
		if v == iv.Name {
			g.fail(x, "loop variable assigned in the body")
		}
		if id, ok := cond.Y.(*ast.Ident); ok && id.Name == v {
			g.fail(x, "loop bound assigned in the body")
		}
	}
	if len(vs) == 0 {
		return ""
	}
	st := tupleOf(vs)
	saved := map[string]gty{}
	for k, v := range g.scope {
		saved[k] = v
	}
	g.scope[iv.Name] = ivT
	g.fresh++
	ni := fmt.Sprintf("i%d", g.fresh)
	var pat string
	if len(vs) == 1 {
		pat = leanName(vs[0])
	} else {
		pat = "st"
	}
	var w strings.Builder
	fmt.Fprintf(&w, "fun (%s : Nat) %s =>\n", ni, pat)
	body := ""
	if len(vs) > 1 {
		for i, v := range vs {
			proj := "st" + strings.Repeat(".2", i)
			if i < len(vs)-1 {
				proj += ".1"
			}
			body += fmt.Sprintf("let %s := %s\n", leanName(v), proj)
		}
	}
	body += fmt.Sprintf("let %s : %s := BitVec.ofNat %d %s\n", leanName(iv.Name), ivT.lean(), ivT.width, ni)
	body += g.seq(x.Body.List, st)
	g.scope = saved
	w.WriteString(indent(body, "  "))
	return g.bindTuple(vs, fmt.Sprintf("GoRt.forUp (GoRt.count %s) %s (%s)", bound, st, w.String()))
}

// ---- functions -------------------------------------------------------------------------------------------------

func findFn(p *packages.Package, name string) *ast.FuncDecl {
	recv := ""
	if i := strings.Index(name, "."); i >= 0 {
		recv, name = name[:i], name[i+1:]
	}
	for _, f := range p.Syntax {
		for _, d := range f.Decls {
			fd, ok := d.(*ast.FuncDecl)
			if !ok || fd.Name.Name != name || fd.Body == nil {
				continue
			}
			if recv == "" && fd.Recv == nil {
				return fd
			}
			if recv != "" && fd.Recv != nil && len(fd.Recv.List) == 1 {
				t := fd.Recv.List[0].Type
				if st, ok := t.(*ast.StarExpr); ok {
					t = st.X
				}
				if id, ok := t.(*ast.Ident); ok && id.Name == recv {
					return fd
				}
			}
		}
	}
	return nil
}

func genGoFn(pkgs map[string]*packages.Package, group string) {
	var w strings.Builder
	w.WriteString("-- GENERATED by verif-extract (gofn, group " + group + ") by a statement-by-statement translation of the Go functions named below.\n-- DO NOT EDIT.\nimport Cql.GoRt\nset_option linter.unusedVariables false\nnamespace Cql.Gen.GoFn\nopen Cql\n\n")
	known := map[string]string{}
	for _, spec := range goFnList {
		if spec.group != group {
			continue
		}
		p := pkgs[spec.pkg]
		if p == nil {
			fatalf("gofn: package %s not loaded", spec.pkg)
		}
		fd := findFn(p, spec.name)
		if fd == nil {
			fatalf("gofn: function %s.%s not found", spec.pkg, spec.name)
		}
		g := &fnGen{pkg: p, spec: spec, fd: fd, known: known, extraTy: map[string]gty{}, opaque: map[string]string{}, utc: map[string]bool{}, structs: map[string][]string{}, scope: map[string]gty{}}
		lname := spec.name
		if i := strings.Index(lname, "."); i >= 0 {
			lname = lname[i+1:]
		}
		if spec.leanName != "" {
			lname = spec.leanName
		}
		var params []string
		sig := p.TypesInfo.Defs[fd.Name].Type().(*types.Signature)
		if fd.Recv != nil {
			for _, f := range fd.Recv.List {
				for _, n := range f.Names {
					g.opaque[n.Name] = "ignore"
					g.recv = n.Name
				}
			}
		}
		for i := 0; i < sig.Params().Len(); i++ {
			v := sig.Params().At(i)
			t := v.Type()
			if bt, ok := basicTy(t); ok {
				g.scope[v.Name()] = bt
				params = append(params, fmt.Sprintf("(%s : %s)", leanName(v.Name()), bt.lean()))
				continue
			}
			if isNamed(t, "time", "Time") {
				g.opaque[v.Name()] = "time"
				continue
			}
			if pt, ok := t.(*types.Pointer); ok {
				if _, ok := pt.Elem().Underlying().(*types.Struct); ok {
					g.opaque[v.Name()] = "struct"
					continue
				}
			}
			if isNamed(t, "io", "Writer") || isNamed(t, "io", "Reader") {
				g.opaque[v.Name()] = "ignore"
				continue
			}
			g.fail(fd, fmt.Sprintf("unsupported parameter type %v", t))
		}
		// results
		if spec.tailCall == "" {
			for i := 0; i < sig.Results().Len(); i++ {
				r := sig.Results().At(i)
				if pt, ok := r.Type().(*types.Pointer); ok {
					if st, ok := pt.Elem().Underlying().(*types.Struct); ok {
						// a returned *struct is the tuple of its fields
						tup := gty{kind: "tuple"}
						for j := 0; j < st.NumFields(); j++ {
							tup.elems = append(tup.elems, g.tyOf(st.Field(j).Type(), fd))
						}
						g.results = append(g.results, tup)
						continue
					}
				}
				rt := g.tyOf(r.Type(), fd)
				g.results = append(g.results, rt)
				if r.Name() != "" {
					g.named = append(g.named, r.Name())
					g.scope[r.Name()] = rt
				}
			}
		}
		stmts := fd.Body.List
		if spec.startAfter != "" {
			at := -1
			for i, st := range stmts {
				if is, ok := st.(*ast.IfStmt); ok && types.ExprString(is.Cond) == spec.startAfter {
					at = i
				}
			}
			if at < 0 {
				g.fail(fd, "no top-level `if "+spec.startAfter+"` to start after")
			}
			// integer variables declared before the starting point and used after it become parameters, in order of first use
			later := stmts[at+1:]
			seen := map[string]bool{}
			for _, st := range later {
				ast.Inspect(st, func(n ast.Node) bool {
					id, ok := n.(*ast.Ident)
					if !ok || seen[id.Name] {
						return true
					}
					v, ok := p.TypesInfo.Uses[id].(*types.Var)
					if !ok || v.IsField() || v.Pos() >= later[0].Pos() || v.Pos() < fd.Body.Pos() {
						return true
					}
					if bt, ok := basicTy(v.Type()); ok {
						seen[id.Name] = true
						g.scope[id.Name] = bt
						params = append(params, fmt.Sprintf("(%s : %s)", leanName(id.Name), bt.lean()))
					}
					return true
				})
			}
			stmts = later
		}
		body := g.seq(stmts, func() string {
			if len(g.named) > 0 {
				return tupleOf(g.named)
			}
			return ""
		}())
		var resTy string
		if spec.tailCall != "" {
			resTy = "BitVec 64 × BitVec 64"
		} else {
			resTy = gty{kind: "tuple", elems: g.results}.lean()
		}
		for _, e := range g.extra {
			params = append(params, fmt.Sprintf("(%s : %s)", e, g.extraTy[e].lean()))
		}
		var pre string
		for i, n := range g.named {
			switch g.results[i].kind {
			case "bv":
				pre += fmt.Sprintf("let %s : %s := 0#%d\n", leanName(n), g.results[i].lean(), g.results[i].width)
			default:
				pre += fmt.Sprintf("let %s : Bool := false\n", leanName(n))
			}
		}
		pos := p.Fset.Position(fd.Pos())
		file := pos.Filename
		if i := strings.Index(file, spec.pkg+"/"); i >= 0 {
			file = file[i:]
		}
		fmt.Fprintf(&w, "/-- `%s` (%s) -/\ndef %s %s : %s :=\n%s\n\n", spec.name, file, lname, strings.Join(params, " "), resTy, indent(pre+body, "  "))
		if len(g.extra) > 0 {
			var q []string
			for _, e := range g.extra {
				q = append(q, fmt.Sprintf("%q", e))
			}
			fmt.Fprintf(&w, "/-- what `%s` reads of its non-integer parameters, in the order of the parameters above -/\ndef %s_reads : List String := [%s]\n\n", spec.name, lname, strings.Join(q, ", "))
		}
		known[spec.pkg+"."+lname] = lname
	}
	w.WriteString("end Cql.Gen.GoFn\n")
	writeFile("GoFn"+group+".lean", w.String())
}
