package main

import (
	"fmt"
	"go/ast"
	"go/constant"
	"go/token"
	"go/types"
	"sort"
	"strings"

	"golang.org/x/tools/go/packages"
)

// ---------------------------------------------------------------------------------------------
// message/startup.go accessors and frame/frame.go mutators  →  Gen/Accessors.lean
//
// A method is translated to a pure Lean function on a small state:
//   * Startup: the option map itself (`OptMap := Bytes → Option Bytes`), for getters a value is returned,
//     for setters the new map;
//   * Frame: the record `MutFrame` (flags, tracingId, customPayload, warnings, opcode).
// Statement forms recognised: field / map-entry assignment, delete(map,key), if/else, `v, found := m[K]`,
// `if x, found := m[K]; cond {..} else {..}`, return. Anything else aborts the translation.
// ---------------------------------------------------------------------------------------------

type agen struct {
	pkg   *packages.Package
	out   *strings.Builder
	fname string
	// state description
	stateVar  string            // Lean name of the threaded state
	recvName  string            // Go receiver identifier
	mapPath   string            // Go selector path that denotes the option map ("Options"), or ""
	fieldPath map[string]string // Go selector path (without receiver) → Lean field
	found     map[string]string // comma-ok variables in scope → Lean expr (true/false)
}

func selPath(e ast.Expr) (string, string, bool) {
	// returns (root identifier, dotted path, ok)
	switch x := e.(type) {
	case *ast.Ident:
		return x.Name, "", true
	case *ast.SelectorExpr:
		root, p, ok := selPath(x.X)
		if !ok {
			return "", "", false
		}
		if p == "" {
			return root, x.Sel.Name, true
		}
		return root, p + "." + x.Sel.Name, true
	case *ast.CallExpr:
		if len(x.Args) == 0 {
			root, p, ok := selPath(x.Fun)
			if ok {
				return root, p + "()", true
			}
		}
	}
	return "", "", false
}

func (g *agen) fail(n ast.Node, msg string) {
	fatalf("accessors: %s: %s at %v", g.fname, msg, g.pkg.Fset.Position(n.Pos()))
}

func (g *agen) constName(o *types.Const) string {
	if o.Pkg().Name() == "primitive" {
		return "Cql.Gen." + o.Name()
	}
	return o.Name()
}

func (g *agen) expr(e ast.Expr) string {
	info := g.pkg.TypesInfo
	switch x := e.(type) {
	case *ast.ParenExpr:
		return "(" + g.expr(x.X) + ")"
	case *ast.BasicLit:
		if tv, ok := info.Types[e]; ok && tv.Value != nil {
			switch tv.Value.Kind() {
			case constant.String:
				return leanBytes(constant.StringVal(tv.Value))
			case constant.Int:
				return tv.Value.ExactString()
			}
		}
	case *ast.Ident:
		if x.Name == "true" || x.Name == "false" {
			return x.Name
		}
		if x.Name == "nil" {
			return "none"
		}
		if v, ok := g.found[x.Name]; ok {
			return v
		}
		switch o := info.Uses[x].(type) {
		case *types.Const:
			return g.constName(o)
		case *types.Var:
			return o.Name()
		}
	case *ast.SelectorExpr:
		if o, ok := info.Uses[x.Sel].(*types.Const); ok {
			return g.constName(o)
		}
		if root, p, ok := selPath(x); ok && root == g.recvName {
			if f, ok := g.fieldPath[p]; ok {
				return g.stateVar + "." + f
			}
		}
	case *ast.IndexExpr:
		if root, p, ok := selPath(x.X); ok && root == g.recvName && p == g.mapPath && g.mapPath != "" {
			// m.Options[K] as a value: zero value "" when missing
			return fmt.Sprintf("((%s %s).getD [])", g.stateVar, g.expr(x.Index))
		}
	case *ast.UnaryExpr:
		if x.Op == token.NOT {
			return "(!" + g.expr(x.X) + ")"
		}
	case *ast.BinaryExpr:
		// x != nil / x == nil on optional (pointer, slice, map) values
		if isIdent(x.Y, "nil") {
			if x.Op == token.NEQ {
				return "(" + g.expr(x.X) + ").isSome"
			}
			if x.Op == token.EQL {
				return "(" + g.expr(x.X) + ").isNone"
			}
		}
		l, r := g.expr(x.X), g.expr(x.Y)
		switch x.Op {
		case token.LAND:
			return fmt.Sprintf("(%s && %s)", l, r)
		case token.LOR:
			return fmt.Sprintf("(%s || %s)", l, r)
		case token.EQL:
			return fmt.Sprintf("(%s == %s)", l, r)
		case token.NEQ:
			return fmt.Sprintf("(%s != %s)", l, r)
		case token.GTR:
			return fmt.Sprintf("decide (%s > %s)", l, r)
		case token.LSS:
			return fmt.Sprintf("decide (%s < %s)", l, r)
		case token.GEQ:
			return fmt.Sprintf("decide (%s ≥ %s)", l, r)
		case token.LEQ:
			return fmt.Sprintf("decide (%s ≤ %s)", l, r)
		}
	case *ast.CallExpr:
		// len(x)
		if id, ok := x.Fun.(*ast.Ident); ok && id.Name == "len" && len(x.Args) == 1 {
			return fmt.Sprintf("(Cql.optLen %s)", g.expr(x.Args[0]))
		}
		// conversion: identity on the byte-string / Nat representation
		if tv, ok := info.Types[x.Fun]; ok && tv.IsType() && len(x.Args) == 1 {
			return g.expr(x.Args[0])
		}
		// receiver field accessed through a nullary method chain, e.g. f.Body.Message.GetOpCode()
		if root, p, ok := selPath(x); ok && root == g.recvName {
			if f, ok := g.fieldPath[p]; ok {
				return g.stateVar + "." + f
			}
		}
		// method of a primitive code type (flags.Add(x), flags.Contains(x))
		if sel, ok := x.Fun.(*ast.SelectorExpr); ok {
			if fn, ok := info.Uses[sel.Sel].(*types.Func); ok {
				sig := fn.Type().(*types.Signature)
				if sig.Recv() != nil {
					if named, ok := sig.Recv().Type().(*types.Named); ok && named.Obj().Pkg().Name() == "primitive" {
						args := []string{g.expr(sel.X)}
						for _, a := range x.Args {
							args = append(args, g.expr(a))
						}
						return fmt.Sprintf("(Cql.Gen.%s_%s %s)", named.Obj().Name(), fn.Name(), strings.Join(args, " "))
					}
				}
			}
		}
		// package-level helper of the same package (isCompressible)
		if id, ok := x.Fun.(*ast.Ident); ok {
			if fn, ok := info.Uses[id].(*types.Func); ok && fn.Pkg() == g.pkg.Types {
				var args []string
				for _, a := range x.Args {
					args = append(args, g.expr(a))
				}
				return fmt.Sprintf("(%s %s)", fn.Name(), strings.Join(args, " "))
			}
		}
	}
	g.fail(e, fmt.Sprintf("unsupported expression %T", e))
	return ""
}

// mapLookup recognises `m.Options[K]` and returns the Lean key
func (g *agen) mapLookup(e ast.Expr) (string, bool) {
	ix, ok := e.(*ast.IndexExpr)
	if !ok || g.mapPath == "" {
		return "", false
	}
	root, p, ok := selPath(ix.X)
	if !ok || root != g.recvName || p != g.mapPath {
		return "", false
	}
	return g.expr(ix.Index), true
}

// commaOk translates `v, found := m.Options[K]` and runs body under both outcomes
func (g *agen) commaOk(as *ast.AssignStmt, body func() string) (string, bool) {
	if as.Tok != token.DEFINE || len(as.Lhs) != 2 || len(as.Rhs) != 1 {
		return "", false
	}
	key, ok := g.mapLookup(as.Rhs[0])
	if !ok {
		return "", false
	}
	v := as.Lhs[0].(*ast.Ident).Name
	f := as.Lhs[1].(*ast.Ident).Name
	g.found[f] = "true"
	someB := body()
	g.found[f] = "false"
	noneB := body()
	delete(g.found, f)
	return fmt.Sprintf("(match %s %s with\n    | some %s => %s\n    | none => (fun (%s : List UInt8) => %s) [])", g.stateVar, key, v, someB, v, noneB), true
}

// block translates statements; `setter` = the function returns the state, otherwise a value.
func (g *agen) block(stmts []ast.Stmt, setter bool) string {
	if len(stmts) == 0 {
		if setter {
			return g.stateVar
		}
		fatalf("accessors: %s: getter falls off the end", g.fname)
	}
	rest := stmts[1:]
	sv := g.stateVar
	switch s := stmts[0].(type) {
	case *ast.ReturnStmt:
		if setter {
			if len(s.Results) != 0 {
				g.fail(s, "setter returns a value")
			}
			return sv
		}
		if len(s.Results) != 1 {
			g.fail(s, "return arity")
		}
		return g.expr(s.Results[0])
	case *ast.AssignStmt:
		if r, ok := g.commaOk(s, func() string { return g.block(rest, setter) }); ok {
			return r
		}
		if s.Tok == token.ASSIGN && len(s.Lhs) == 1 && len(s.Rhs) == 1 {
			if key, ok := g.mapLookup(s.Lhs[0]); ok {
				return fmt.Sprintf("(let %s := Cql.OptMap.set %s %s %s\n  %s)", sv, sv, key, g.expr(s.Rhs[0]), g.block(rest, setter))
			}
			if root, p, ok := selPath(s.Lhs[0]); ok && root == g.recvName {
				if f, ok := g.fieldPath[p]; ok {
					return fmt.Sprintf("(let %s := { %s with %s := %s }\n  %s)", sv, sv, f, g.expr(s.Rhs[0]), g.block(rest, setter))
				}
			}
		}
		g.fail(s, "unsupported assignment")
	case *ast.ExprStmt:
		if call, ok := s.X.(*ast.CallExpr); ok {
			if id, ok := call.Fun.(*ast.Ident); ok && id.Name == "delete" && len(call.Args) == 2 {
				if root, p, ok := selPath(call.Args[0]); ok && root == g.recvName && p == g.mapPath {
					return fmt.Sprintf("(let %s := Cql.OptMap.del %s %s\n  %s)", sv, sv, g.expr(call.Args[1]), g.block(rest, setter))
				}
			}
		}
		g.fail(s, "unsupported expression statement")
	case *ast.IfStmt:
		elseStmts := []ast.Stmt{}
		switch e := s.Else.(type) {
		case nil:
		case *ast.BlockStmt:
			elseStmts = e.List
		case *ast.IfStmt:
			elseStmts = []ast.Stmt{e}
		}
		mk := func() string {
			thenB := g.block(append(append([]ast.Stmt{}, s.Body.List...), rest...), setter)
			elseB := g.block(append(append([]ast.Stmt{}, elseStmts...), rest...), setter)
			return fmt.Sprintf("(if %s then %s else %s)", g.expr(s.Cond), thenB, elseB)
		}
		if s.Init != nil {
			as, ok := s.Init.(*ast.AssignStmt)
			if !ok {
				g.fail(s, "unsupported if-init")
			}
			if r, ok := g.commaOk(as, mk); ok {
				return r
			}
			g.fail(s, "unsupported if-init")
		}
		return mk()
	}
	g.fail(stmts[0], fmt.Sprintf("unsupported statement %T", stmts[0]))
	return ""
}

func (g *agen) paramType(t types.Type) string {
	switch u := t.Underlying().(type) {
	case *types.Basic:
		switch {
		case u.Info()&types.IsBoolean != 0:
			return "Bool"
		case u.Info()&types.IsString != 0:
			return "List UInt8"
		case u.Info()&types.IsInteger != 0:
			return "Nat"
		}
	case *types.Map:
		return "Option (List (List UInt8 × Option (List UInt8)))"
	case *types.Slice:
		return "Option (List (List UInt8))"
	case *types.Pointer:
		return "Option (List UInt8)"
	}
	fatalf("accessors: %s: unsupported parameter type %v", g.fname, t)
	return ""
}

func genAccessors(msg, frame *packages.Package) {
	var w strings.Builder
	w.WriteString("-- GENERATED by verif-extract from message/startup.go and frame/frame.go. DO NOT EDIT.\n")
	w.WriteString("import Cql.Gen.Constants\nimport Cql.Mut\nset_option linter.unusedVariables false\nnamespace Cql.Gen\n\n")

	// --- message/startup.go: option keys + accessors
	scope := msg.Types.Scope()
	var keys []string
	for _, name := range scope.Names() {
		if c, ok := scope.Lookup(name).(*types.Const); ok && strings.HasPrefix(name, "StartupOption") {
			keys = append(keys, name)
			fmt.Fprintf(&w, "def %s : List UInt8 := %s\n", name, leanBytes(constant.StringVal(c.Val())))
		}
	}
	sort.Strings(keys)
	fmt.Fprintf(&w, "def startupOptionKeys : List (List UInt8) := [%s]\n\n", strings.Join(keys, ", "))
	var getters, setters []string
	for _, f := range msg.Syntax {
		if !strings.HasSuffix(msg.Fset.Position(f.Pos()).Filename, "/startup.go") {
			continue
		}
		for _, d := range f.Decls {
			fd, ok := d.(*ast.FuncDecl)
			if !ok || fd.Recv == nil || len(fd.Recv.List[0].Names) == 0 {
				continue
			}
			rt := msg.TypesInfo.TypeOf(fd.Recv.List[0].Type)
			if p, ok := rt.(*types.Pointer); !ok || p.Elem().(*types.Named).Obj().Name() != "Startup" {
				continue
			}
			name := fd.Name.Name
			isGetter := strings.HasPrefix(name, "Get") || (strings.HasPrefix(name, "Is") && name != "IsResponse")
			isSetter := strings.HasPrefix(name, "Set")
			if name == "GetOpCode" || !(isGetter || isSetter) {
				continue
			}
			g := &agen{pkg: msg, out: &w, fname: "Startup." + name, stateVar: "m", recvName: fd.Recv.List[0].Names[0].Name,
				mapPath: "Options", fieldPath: map[string]string{}, found: map[string]string{}}
			sig := msg.TypesInfo.Defs[fd.Name].Type().(*types.Signature)
			params := []string{"(m : Cql.OptMap)"}
			for i := 0; i < sig.Params().Len(); i++ {
				p := sig.Params().At(i)
				params = append(params, fmt.Sprintf("(%s : %s)", p.Name(), g.paramType(p.Type())))
			}
			if isSetter {
				fmt.Fprintf(&w, "def Startup_%s %s : Cql.OptMap :=\n  %s\n\n", name, strings.Join(params, " "), g.block(fd.Body.List, true))
				setters = append(setters, name)
			} else {
				fmt.Fprintf(&w, "def Startup_%s %s : %s :=\n  %s\n\n", name, strings.Join(params, " "),
					g.paramType(sig.Results().At(0).Type()), g.block(fd.Body.List, false))
				getters = append(getters, name)
			}
		}
	}
	q := func(l []string) string {
		r := make([]string, len(l))
		for i, s := range l {
			r[i] = fmt.Sprintf("%q", s)
		}
		return strings.Join(r, ", ")
	}
	fmt.Fprintf(&w, "def startupGetters : List String := [%s]\ndef startupSetters : List String := [%s]\n\n", q(getters), q(setters))

	// --- frame/frame.go: mutators
	fieldPath := map[string]string{
		"Header.Flags": "flags", "Body.TracingId": "tracingId", "Body.CustomPayload": "customPayload",
		"Body.Warnings": "warnings", "Body.Message.GetOpCode()": "opcode",
	}
	var muts []string
	for _, f := range frame.Syntax {
		if !strings.HasSuffix(frame.Fset.Position(f.Pos()).Filename, "/frame.go") {
			continue
		}
		// helpers first (isCompressible)
		for _, d := range f.Decls {
			fd, ok := d.(*ast.FuncDecl)
			if !ok || fd.Recv != nil || fd.Name.Name != "isCompressible" {
				continue
			}
			g := &agen{pkg: frame, out: &w, fname: fd.Name.Name, stateVar: "_s", recvName: "\x00", fieldPath: map[string]string{}, found: map[string]string{}}
			sig := frame.TypesInfo.Defs[fd.Name].Type().(*types.Signature)
			fmt.Fprintf(&w, "def isCompressible (%s : Nat) : Bool :=\n  %s\n\n", sig.Params().At(0).Name(), g.block(fd.Body.List, false))
		}
		for _, d := range f.Decls {
			fd, ok := d.(*ast.FuncDecl)
			if !ok || fd.Recv == nil || len(fd.Recv.List[0].Names) == 0 {
				continue
			}
			rt := frame.TypesInfo.TypeOf(fd.Recv.List[0].Type)
			p, ok := rt.(*types.Pointer)
			if !ok || p.Elem().(*types.Named).Obj().Name() != "Frame" {
				continue
			}
			name := fd.Name.Name
			if !(strings.HasPrefix(name, "Set") || name == "RequestTracingId") {
				continue
			}
			g := &agen{pkg: frame, out: &w, fname: "Frame." + name, stateVar: "f", recvName: fd.Recv.List[0].Names[0].Name,
				fieldPath: fieldPath, found: map[string]string{}}
			sig := frame.TypesInfo.Defs[fd.Name].Type().(*types.Signature)
			params := []string{"(f : Cql.MutFrame)"}
			for i := 0; i < sig.Params().Len(); i++ {
				p := sig.Params().At(i)
				params = append(params, fmt.Sprintf("(%s : %s)", p.Name(), g.paramType(p.Type())))
			}
			fmt.Fprintf(&w, "def Frame_%s %s : Cql.MutFrame :=\n  %s\n\n", name, strings.Join(params, " "), g.block(fd.Body.List, true))
			muts = append(muts, name)
		}
	}
	sort.Strings(muts)
	fmt.Fprintf(&w, "def frameMutators : List String := [%s]\n", q(muts))
	w.WriteString("\nend Cql.Gen\n")
	writeFile("Accessors.lean", w.String())
}
