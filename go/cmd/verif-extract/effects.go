package main

import (
	"encoding/json"
	"fmt"
	"go/token"
	"go/types"
	"sort"
	"strings"

	"golang.org/x/tools/go/packages"
	"golang.org/x/tools/go/ssa"
	"golang.org/x/tools/go/ssa/ssautil"
)

// SSA of the codec packages  →  Gen/Effects.lean (+ effects.json)
//
// For every function and method declared in the codec packages (anonymous functions included): the package-level variables
// it writes and reads, the writes it makes through a receiver or parameter of a *shared type* (a type that implements one of
// the codec/compressor interfaces, or that a package-level variable holds), its callees inside the module (class-hierarchy
// call graph: an interface call may reach every implementation), and whether it is an entry point of a codec. The analysis is
// conservative: a store whose address cannot be traced to a fresh allocation, a local or a non-shared parameter counts as a
// write to whatever it is traced to; handing a pointer into shared memory to a function outside the module counts as a write.

var fxPackages = []string{"primitive", "datatype", "message", "frame", "segment", "crc", "datacodec", "lz4", "snappy"}

type fxFunc struct {
	Name          string
	WritesGlobals []string
	ReadsGlobals  []string
	WritesShared  []string
	Callees       []int
	Entry         bool
	Config        bool // constructors / configuration operations: not meant to run concurrently with the codec
	Init          bool
}

type fxRoot struct {
	kind   string // global shared local
	detail string
}

func genEffects(pkgs map[string]*packages.Package) {
	var initial []*packages.Package
	inModule := map[*types.Package]bool{}
	for _, n := range fxPackages {
		p, ok := pkgs[n]
		if !ok {
			fatalf("effects: package %s not loaded", n)
		}
		initial = append(initial, p)
		inModule[p.Types] = true
	}
	prog, spkgs := ssautil.AllPackages(initial, ssa.InstantiateGenerics)
	prog.Build()
	modPkgs := map[*ssa.Package]bool{}
	for _, sp := range spkgs {
		if sp == nil {
			fatalf("effects: SSA package missing")
		}
		modPkgs[sp] = true
	}

	// 1. shared types
	shared := map[string]bool{} // type string of the named type
	var ifaces []*types.Interface
	ifaceNames := [][2]string{{"frame", "Codec"}, {"frame", "RawCodec"}, {"frame", "Encoder"}, {"frame", "Decoder"}, {"frame", "RawEncoder"},
		{"frame", "RawDecoder"}, {"frame", "RawConverter"}, {"frame", "BodyCompressor"}, {"segment", "Codec"}, {"segment", "Encoder"},
		{"segment", "Decoder"}, {"segment", "PayloadCompressor"}, {"message", "Codec"}, {"message", "Encoder"}, {"message", "Decoder"},
		{"datacodec", "Codec"}, {"datacodec", "Encoder"}, {"datacodec", "Decoder"}}
	for _, in := range ifaceNames {
		obj := pkgs[in[0]].Types.Scope().Lookup(in[1])
		if obj == nil {
			continue // an interface of that name need not exist
		}
		if it, ok := obj.Type().Underlying().(*types.Interface); ok {
			ifaces = append(ifaces, it)
		}
	}
	if len(ifaces) < 6 {
		fatalf("effects: codec interfaces not found")
	}
	var addShared func(t types.Type)
	addShared = func(t types.Type) {
		t = types.Unalias(t)
		switch u := t.(type) {
		case *types.Named:
			if u.Obj().Pkg() != nil && inModule[u.Obj().Pkg()] {
				if _, isIface := u.Underlying().(*types.Interface); !isIface {
					if _, isStruct := u.Underlying().(*types.Struct); isStruct {
						shared[u.String()] = true
					}
				}
			}
		case *types.Pointer:
			addShared(u.Elem())
		case *types.Slice:
			addShared(u.Elem())
		case *types.Map:
			addShared(u.Elem())
		}
	}
	for _, n := range fxPackages {
		scope := pkgs[n].Types.Scope()
		for _, name := range scope.Names() {
			switch o := scope.Lookup(name).(type) {
			case *types.Var:
				addShared(o.Type())
			case *types.TypeName:
				named, ok := o.Type().(*types.Named)
				if !ok {
					continue
				}
				if _, isIface := named.Underlying().(*types.Interface); isIface {
					continue
				}
				for _, it := range ifaces {
					if types.Implements(named, it) || types.Implements(types.NewPointer(named), it) {
						if _, isStruct := named.Underlying().(*types.Struct); isStruct {
							shared[named.String()] = true
						}
					}
				}
			}
		}
	}
	isSharedType := func(t types.Type) bool {
		t = types.Unalias(t)
		if p, ok := t.(*types.Pointer); ok {
			t = types.Unalias(p.Elem())
		}
		if n, ok := t.(*types.Named); ok {
			return shared[n.String()]
		}
		return false
	}

	// 2. functions of the module
	var funcs []*ssa.Function
	for f := range ssautil.AllFunctions(prog) {
		if f.Pkg != nil && modPkgs[f.Pkg] && f.Blocks != nil {
			funcs = append(funcs, f)
		}
	}
	fname := func(f *ssa.Function) string { return f.String() }
	sort.Slice(funcs, func(i, j int) bool { return fname(funcs[i]) < fname(funcs[j]) })
	ids := map[*ssa.Function]int{}
	for i, f := range funcs {
		ids[f] = i
	}
	// methods by name, for interface calls (class-hierarchy approximation over the module's functions)
	byMethod := map[string][]*ssa.Function{}
	for _, f := range funcs {
		if f.Signature.Recv() != nil {
			byMethod[f.Name()] = append(byMethod[f.Name()], f)
		}
	}

	var rootOf func(v ssa.Value, seen map[ssa.Value]bool) []fxRoot
	rootOf = func(v ssa.Value, seen map[ssa.Value]bool) []fxRoot {
		if seen[v] {
			return nil
		}
		seen[v] = true
		switch x := v.(type) {
		case *ssa.Global:
			if x.Pkg != nil && modPkgs[x.Pkg] {
				return []fxRoot{{"global", x.Pkg.Pkg.Name() + "." + x.Name()}}
			}
			return []fxRoot{{"global", x.String()}}
		case *ssa.FieldAddr:
			rs := rootOf(x.X, seen)
			for i := range rs {
				if rs[i].kind == "shared" {
					st := x.X.Type().Underlying().(*types.Pointer).Elem().Underlying().(*types.Struct)
					rs[i].detail += "." + st.Field(x.Field).Name()
				}
			}
			return rs
		case *ssa.Field:
			return rootOf(x.X, seen)
		case *ssa.IndexAddr:
			return rootOf(x.X, seen)
		case *ssa.Index:
			return rootOf(x.X, seen)
		case *ssa.Lookup:
			return rootOf(x.X, seen)
		case *ssa.UnOp:
			if x.Op == token.MUL {
				return rootOf(x.X, seen)
			}
			return []fxRoot{{"local", ""}}
		case *ssa.Slice:
			return rootOf(x.X, seen)
		case *ssa.ChangeType:
			return rootOf(x.X, seen)
		case *ssa.Convert:
			return rootOf(x.X, seen)
		case *ssa.ChangeInterface:
			return rootOf(x.X, seen)
		case *ssa.MakeInterface:
			return rootOf(x.X, seen)
		case *ssa.TypeAssert:
			return rootOf(x.X, seen)
		case *ssa.Phi:
			var rs []fxRoot
			for _, e := range x.Edges {
				rs = append(rs, rootOf(e, seen)...)
			}
			return rs
		case *ssa.Parameter:
			// the receiver of a method of a shared type is the shared object; other parameters are the caller's own
			// values (frames, buffers, destinations, the `out` of DeepCopyInto)
			fn := x.Parent()
			if fn.Signature.Recv() != nil && len(fn.Params) > 0 && fn.Params[0] == x && isSharedType(x.Type()) {
				return []fxRoot{{"shared", types.TypeString(x.Type(), func(p *types.Package) string { return p.Name() })}}
			}
			return []fxRoot{{"local", ""}}
		case *ssa.FreeVar:
			if isSharedType(x.Type()) {
				return []fxRoot{{"shared", types.TypeString(x.Type(), func(p *types.Package) string { return p.Name() })}}
			}
			if p, ok := x.Type().(*types.Pointer); ok && isSharedType(p.Elem()) {
				return []fxRoot{{"shared", "captured " + p.Elem().String()}}
			}
			return []fxRoot{{"local", ""}}
		case *ssa.Alloc, *ssa.MakeSlice, *ssa.MakeMap, *ssa.MakeChan, *ssa.MakeClosure, *ssa.Const, *ssa.BinOp, *ssa.Call, *ssa.Extract,
			*ssa.Next, *ssa.Range, *ssa.Function, *ssa.Builtin, *ssa.Select, *ssa.SliceToArrayPointer, *ssa.MultiConvert:
			// fresh memory, values, or results of calls (a call that returns a pointer into shared memory is not traced: the
			// accessor functions of the codecs return interfaces and maps that are only read; recorded in the trusted base)
			return []fxRoot{{"local", ""}}
		}
		fatalf("effects: value %T not handled in root analysis", v)
		return nil
	}

	out := make([]*fxFunc, len(funcs))
	for i, f := range funcs {
		ff := &fxFunc{Name: fname(f)}
		out[i] = ff
		wg, rg, ws := map[string]bool{}, map[string]bool{}, map[string]bool{}
		callees := map[int]bool{}
		write := func(addr ssa.Value, what string) {
			for _, r := range rootOf(addr, map[ssa.Value]bool{}) {
				switch r.kind {
				case "global":
					wg[r.detail] = true
				case "shared":
					ws[r.detail+" ("+what+")"] = true
				}
			}
		}
		for _, b := range f.Blocks {
			for _, ins := range b.Instrs {
				// reads of globals: any operand that is a global
				for _, op := range ins.Operands(nil) {
					if g, ok := (*op).(*ssa.Global); ok && g.Pkg != nil && modPkgs[g.Pkg] {
						rg[g.Pkg.Pkg.Name()+"."+g.Name()] = true
					}
				}
				switch x := ins.(type) {
				case *ssa.Store:
					write(x.Addr, "store")
				case *ssa.MapUpdate:
					write(x.Map, "map update")
				case *ssa.Send:
					write(x.Chan, "channel send")
				case *ssa.Go, *ssa.Defer, *ssa.Call:
					cc := x.(ssa.CallInstruction).Common()
					if cc.IsInvoke() {
						// interface call: every module method of that name (class hierarchy, by name and arity)
						for _, m := range byMethod[cc.Method.Name()] {
							if m.Signature.Params().Len() == cc.Method.Type().(*types.Signature).Params().Len() {
								callees[ids[m]] = true
							}
						}
						continue
					}
					switch cv := cc.Value.(type) {
					case *ssa.Builtin:
						switch cv.Name() {
						case "copy", "delete", "clear":
							write(cc.Args[0], "builtin "+cv.Name())
						case "append":
							// append may write into the backing array of its first argument
							write(cc.Args[0], "builtin append")
						}
					case *ssa.Function:
						if id, ok := ids[cv]; ok {
							callees[id] = true
						} else {
							// a function outside the module: handing it a pointer into shared memory counts as a write
							for ai, a := range cc.Args {
								if _, isPtrLike := a.Type().Underlying().(*types.Pointer); isPtrLike || isSliceOrMap(a.Type()) {
									for _, r := range rootOf(a, map[ssa.Value]bool{}) {
										if r.kind == "global" && !readOnlyExternal(cv, ai) {
											wg[r.detail] = true
										}
										if r.kind == "shared" && !readOnlyExternal(cv, ai) {
											ws[r.detail+" (passed to "+cv.String()+")"] = true
										}
									}
								}
							}
						}
					case *ssa.MakeClosure:
						if fn, ok := cv.Fn.(*ssa.Function); ok {
							if id, ok := ids[fn]; ok {
								callees[id] = true
							}
						}
					default:
						// call of a function value: any module function with that signature (anonymous functions included)
						sig, _ := cc.Value.Type().Underlying().(*types.Signature)
						for _, g := range funcs {
							if sig != nil && types.Identical(g.Signature, sig) {
								callees[ids[g]] = true
							}
						}
					}
				case *ssa.MakeClosure:
					if fn, ok := x.Fn.(*ssa.Function); ok {
						if id, ok := ids[fn]; ok {
							callees[id] = true // conservatively: a closure that is created may be called
						}
					}
				}
			}
		}
		ff.WritesGlobals, ff.ReadsGlobals, ff.WritesShared = keys(wg), keys(rg), keys(ws)
		for c := range callees {
			ff.Callees = append(ff.Callees, c)
		}
		sort.Ints(ff.Callees)
		ff.Init = f.Name() == "init" || strings.HasPrefix(f.Name(), "init#") || (f.Parent() != nil && strings.HasPrefix(f.Parent().Name(), "init"))
		ff.Config = isConfig(f)
		ff.Entry = !ff.Init && !ff.Config && f.Parent() == nil && isEntry(f, isSharedType)
	}

	var w strings.Builder
	w.WriteString("-- GENERATED by verif-extract from the SSA form of the codec packages. DO NOT EDIT.\nnamespace Cql.Gen.Effects\n\n")
	w.WriteString("structure Fn where\n  name : String\n  writesGlobals : List String\n  readsGlobals : List String\n  writesShared : List String\n" +
		"  callees : List Nat\n  entry : Bool\n  config : Bool\n  init : Bool\n\n")
	strs := func(l []string) string {
		q := make([]string, len(l))
		for i, s := range l {
			q[i] = fmt.Sprintf("%q", s)
		}
		return "[" + strings.Join(q, ", ") + "]"
	}
	nats := func(l []int) string {
		q := make([]string, len(l))
		for i, s := range l {
			q[i] = fmt.Sprint(s)
		}
		return "[" + strings.Join(q, ", ") + "]"
	}
	const chunk = 40
	nchunks := 0
	for i := 0; i < len(out); i += chunk {
		fmt.Fprintf(&w, "def fns%d : List Fn :=\n", nchunks)
		for j := i; j < i+chunk && j < len(out); j++ {
			f := out[j]
			fmt.Fprintf(&w, "  ⟨%q, %s, %s, %s, %s, %v, %v, %v⟩ ::\n", f.Name, strs(f.WritesGlobals), strs(f.ReadsGlobals), strs(f.WritesShared),
				nats(f.Callees), f.Entry, f.Config, f.Init)
		}
		w.WriteString("  []\n\n")
		nchunks++
	}
	w.WriteString("def fns : List Fn :=\n")
	for i := 0; i < nchunks; i++ {
		fmt.Fprintf(&w, "  fns%d ++\n", i)
	}
	w.WriteString("  []\n\n")
	var sh []string
	for s := range shared {
		sh = append(sh, s)
	}
	sort.Strings(sh)
	fmt.Fprintf(&w, "/-- the types whose instances goroutines share -/\ndef sharedTypes : List String := %s\n\nend Cql.Gen.Effects\n", strs(sh))
	writeFile("Effects.lean", w.String())
	js, _ := json.MarshalIndent(map[string]interface{}{"functions": out, "sharedTypes": sh}, "", " ")
	writeFile("effects.json", string(js)+"\n")
}

func isSliceOrMap(t types.Type) bool {
	switch t.Underlying().(type) {
	case *types.Slice, *types.Map:
		return true
	}
	return false
}

func keys(m map[string]bool) []string {
	l := make([]string, 0, len(m))
	for k := range m {
		l = append(l, k)
	}
	sort.Strings(l)
	return l
}

// readOnlyExternal: functions outside the module that are known not to write through the given argument (trusted list)
func readOnlyExternal(f *ssa.Function, arg int) bool {
	name := f.String()
	switch name {
	case "fmt.Errorf", "fmt.Sprintf", "fmt.Sprint", "errors.New", "errors.Is", "errors.As", "bytes.Equal",
		"bytes.NewReader", "bytes.NewBuffer", "encoding/hex.EncodeToString", "reflect.TypeOf", "reflect.ValueOf", "reflect.DeepEqual",
		"strings.Join", "fmt.Fprintf", "fmt.Sprintln", "time.Date":
		return true
	case "hash/crc32.Update", "hash/crc32.Checksum":
		return arg == 1 || name == "hash/crc32.Checksum" // the table (and the data) are only read
	}
	// math/big: `z.Op(x, y)` writes its receiver only
	if strings.HasPrefix(name, "(*math/big.Int).") || strings.HasPrefix(name, "(*math/big.Float).") {
		return arg >= 1
	}
	return false
}

// isConfig: constructors and configuration operations, excluded from the concurrent-use claim and reported
func isConfig(f *ssa.Function) bool {
	n := f.Name()
	if f.Signature.Recv() == nil {
		return strings.HasPrefix(n, "New") || strings.HasPrefix(n, "With")
	}
	return strings.HasPrefix(n, "Set") && strings.Contains(n, "Compressor")
}

// isEntry: exported methods of shared types (the codec operations) and exported package-level functions of the codec packages
func isEntry(f *ssa.Function, isSharedType func(types.Type) bool) bool {
	if f.Object() == nil || !f.Object().Exported() {
		return false
	}
	if recv := f.Signature.Recv(); recv != nil {
		return isSharedType(recv.Type())
	}
	return true
}
