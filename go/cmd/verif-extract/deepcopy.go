package main

import (
	"bytes"
	"encoding/json"
	"fmt"
	"go/ast"
	"go/printer"
	"go/types"
	"regexp"
	"sort"
	"strings"

	"golang.org/x/tools/go/packages"
)

// */deepcopy_generated.go + primitive/uuid.go  →  Gen/DeepCopy.lean (+ deepcopy.json)
//
// For every named struct type with a DeepCopyInto method: the *shape* of each field (from go/types, i.e. from the struct
// declaration) and the *plan* its DeepCopyInto body carries out for that field (from the AST of the method). The two are
// extracted independently: a field added to a struct without regenerating the deep-copy code has a shape but no plan.
// The statement forms of deepcopy-gen are matched literally; anything else is a hard error.

type dcShape struct {
	Kind   string     // scalar ptr slice map struct named iface
	Elem   *dcShape   // ptr slice map
	Fields []*dcShape // struct
	Name   string     // named iface
}

type dcPlan struct {
	Kind   string    // assign newPtr makeSlice makeMap call dispatch
	Elem   *dcPlan   // newPtr makeSlice makeMap
	Name   string    // call dispatch
}

type dcType struct {
	Name       string
	FieldNames []string
	Shapes     []*dcShape
	Plans      []*dcPlan
}

type dcCtx struct {
	pkgs    map[string]*packages.Package
	ids     map[string]int // qualified type / interface name → index
	names   []string
	structs map[string]*types.Named
	ifaces  map[string]*types.Named
}

func qname(n *types.Named) string { return n.Obj().Pkg().Name() + "." + n.Obj().Name() }

func hasMethod(n *types.Named, name string) bool {
	ms := types.NewMethodSet(types.NewPointer(n))
	for i := 0; i < ms.Len(); i++ {
		if ms.At(i).Obj().Name() == name {
			return true
		}
	}
	return false
}

func (c *dcCtx) id(name string) int {
	if i, ok := c.ids[name]; ok {
		return i
	}
	fatalf("deepcopy: reference to unknown type %s", name)
	return -1
}

func (c *dcCtx) shapeOf(t types.Type, where string) *dcShape {
	t = types.Unalias(t)
	switch u := t.(type) {
	case *types.Basic:
		if u.Kind() == types.UnsafePointer {
			fatalf("deepcopy: unsafe.Pointer in %s", where)
		}
		return &dcShape{Kind: "scalar"}
	case *types.Named:
		switch uu := u.Underlying().(type) {
		case *types.Struct:
			if hasMethod(u, "DeepCopyInto") {
				return &dcShape{Kind: "named", Name: qname(u)}
			}
			return c.shapeOf(uu, where)
		case *types.Interface:
			if u.Obj().Pkg() != nil {
				if _, ok := c.ifaces[qname(u)]; ok {
					return &dcShape{Kind: "iface", Name: qname(u)}
				}
			}
			fatalf("deepcopy: interface type %s without a DeepCopy method in %s", u.String(), where)
		default:
			return c.shapeOf(uu, where)
		}
	case *types.Pointer:
		return &dcShape{Kind: "ptr", Elem: c.shapeOf(u.Elem(), where)}
	case *types.Slice:
		return &dcShape{Kind: "slice", Elem: c.shapeOf(u.Elem(), where)}
	case *types.Array:
		e := c.shapeOf(u.Elem(), where)
		if e.Kind != "scalar" {
			fatalf("deepcopy: array of non-scalar elements in %s", where)
		}
		return &dcShape{Kind: "scalar"}
	case *types.Map:
		if k := c.shapeOf(u.Key(), where); k.Kind != "scalar" {
			fatalf("deepcopy: map with non-scalar key in %s", where)
		}
		return &dcShape{Kind: "map", Elem: c.shapeOf(u.Elem(), where)}
	case *types.Struct:
		s := &dcShape{Kind: "struct"}
		for i := 0; i < u.NumFields(); i++ {
			s.Fields = append(s.Fields, c.shapeOf(u.Field(i).Type(), where+"."+u.Field(i).Name()))
		}
		return s
	}
	fatalf("deepcopy: unsupported type %s in %s", t.String(), where)
	return nil
}

func src(p *packages.Package, n ast.Node) string {
	var b bytes.Buffer
	printer.Fprint(&b, p.Fset, n)
	return strings.Join(strings.Fields(b.String()), " ")
}

var (
	reMake      = regexp.MustCompile(`^\*out = make\((.+), len\(\*in\)\)$`)
	reNew       = regexp.MustCompile(`^\*out = new\((.+)\)$`)
	reFieldNil  = regexp.MustCompile(`^in\.(\w+) != nil$`)
	reFieldAddr = regexp.MustCompile(`^in, out := &in\.(\w+), &out\.(\w+)$`)
	reDispatchF = regexp.MustCompile(`^out\.(\w+) = in\.(\w+)\.DeepCopy(\w+)\(\)$`)
	reCallF     = regexp.MustCompile(`^in\.(\w+)\.DeepCopyInto\(&out\.(\w+)\)$`)
	reDispatchE = regexp.MustCompile(`^\(\*out\)\[i\] = \(\*in\)\[i\]\.DeepCopy(\w+)\(\)$`)
	reVarOutVal = regexp.MustCompile(`^var outVal (.+)$`)
)

// blockPlan: the statements that follow `in, out := &X, &Y` for a location of type t
func (c *dcCtx) blockPlan(p *packages.Package, stmts []ast.Stmt, t types.Type, where string) *dcPlan {
	if len(stmts) == 0 {
		fatalf("deepcopy: empty copy block in %s", where)
	}
	first := src(p, stmts[0])
	t = types.Unalias(t)
	under := t.Underlying()
	switch {
	case reMake.MatchString(first):
		switch u := under.(type) {
		case *types.Slice:
			if len(stmts) != 2 {
				fatalf("deepcopy: unexpected statements after make in %s", where)
			}
			second := src(p, stmts[1])
			if second == "copy(*out, *in)" {
				return &dcPlan{Kind: "makeSlice", Elem: &dcPlan{Kind: "assign"}}
			}
			rs, ok := stmts[1].(*ast.RangeStmt)
			if !ok || src(p, rs.Key) != "i" || rs.Value != nil || src(p, rs.X) != "*in" {
				fatalf("deepcopy: unrecognised slice loop in %s: %s", where, second)
			}
			return &dcPlan{Kind: "makeSlice", Elem: c.elemPlan(p, rs.Body.List, u.Elem(), where+"[]")}
		case *types.Map:
			if len(stmts) != 2 {
				fatalf("deepcopy: unexpected statements after make in %s", where)
			}
			rs, ok := stmts[1].(*ast.RangeStmt)
			if !ok || src(p, rs.Key) != "key" || rs.Value == nil || src(p, rs.Value) != "val" || src(p, rs.X) != "*in" {
				fatalf("deepcopy: unrecognised map loop in %s", where)
			}
			return &dcPlan{Kind: "makeMap", Elem: c.valPlan(p, rs.Body.List, u.Elem(), where+"{}")}
		}
		fatalf("deepcopy: make of a non-slice/map in %s", where)
	case reNew.MatchString(first):
		pt, ok := under.(*types.Pointer)
		if !ok || len(stmts) != 2 {
			fatalf("deepcopy: unexpected new() in %s", where)
		}
		second := src(p, stmts[1])
		switch second {
		case "**out = **in":
			return &dcPlan{Kind: "newPtr", Elem: &dcPlan{Kind: "assign"}}
		case "(*in).DeepCopyInto(*out)":
			n, ok := pt.Elem().(*types.Named)
			if !ok {
				fatalf("deepcopy: DeepCopyInto on unnamed type in %s", where)
			}
			return &dcPlan{Kind: "newPtr", Elem: &dcPlan{Kind: "call", Name: qname(n)}}
		}
		fatalf("deepcopy: unrecognised statement after new() in %s: %s", where, second)
	case first == "*out = (*in).DeepCopy()" && len(stmts) == 1:
		pt, ok := under.(*types.Pointer)
		if !ok {
			fatalf("deepcopy: DeepCopy() on non-pointer in %s", where)
		}
		n, ok := pt.Elem().(*types.Named)
		if !ok {
			fatalf("deepcopy: DeepCopy() on unnamed type in %s", where)
		}
		if _, isStruct := c.structs[qname(n)]; isStruct {
			return &dcPlan{Kind: "newPtr", Elem: &dcPlan{Kind: "call", Name: qname(n)}}
		}
		// hand-written DeepCopy of a value type: its body must be the value-copy idiom
		c.checkValueDeepCopy(n)
		return &dcPlan{Kind: "newPtr", Elem: &dcPlan{Kind: "assign"}}
	}
	fatalf("deepcopy: unrecognised copy block in %s: %s", where, first)
	return nil
}

// checkValueDeepCopy: `func (u *T) DeepCopy() *T { if u == nil { return nil }; x := *u; return &x }`
func (c *dcCtx) checkValueDeepCopy(n *types.Named) {
	p := c.pkgs[n.Obj().Pkg().Name()]
	for _, f := range p.Syntax {
		for _, d := range f.Decls {
			fd, ok := d.(*ast.FuncDecl)
			if !ok || fd.Name.Name != "DeepCopy" || fd.Recv == nil || len(fd.Recv.List) != 1 {
				continue
			}
			if src(p, fd.Recv.List[0].Type) != "*"+n.Obj().Name() {
				continue
			}
			recv := fd.Recv.List[0].Names[0].Name
			body := src(p, fd.Body)
			re := regexp.MustCompile(`^\{ if ` + recv + ` == nil \{ return nil \} (\w+) := \*` + recv + ` return &(\w+) \}$`)
			m := re.FindStringSubmatch(body)
			if m == nil || m[1] != m[2] {
				fatalf("deepcopy: hand-written %s.DeepCopy is not the value-copy idiom: %s", qname(n), body)
			}
			if sh := c.shapeOf(n, qname(n)); sh.Kind != "scalar" {
				fatalf("deepcopy: hand-written %s.DeepCopy copies a non-flat value shallowly", qname(n))
			}
			return
		}
	}
	fatalf("deepcopy: no DeepCopy method found for %s", qname(n))
}

func (c *dcCtx) elemPlan(p *packages.Package, stmts []ast.Stmt, t types.Type, where string) *dcPlan {
	if len(stmts) != 1 {
		fatalf("deepcopy: unrecognised element loop body in %s", where)
	}
	if is, ok := stmts[0].(*ast.IfStmt); ok && is.Else == nil && is.Init == nil && src(p, is.Cond) == "(*in)[i] != nil" {
		body := is.Body.List
		first := src(p, body[0])
		if first == "in, out := &(*in)[i], &(*out)[i]" {
			return c.blockPlan(p, body[1:], t, where)
		}
		if m := reDispatchE.FindStringSubmatch(first); m != nil && len(body) == 1 {
			n, ok := t.(*types.Named)
			if !ok || n.Obj().Name() != m[1] {
				fatalf("deepcopy: DeepCopy%s on element of type %s in %s", m[1], t.String(), where)
			}
			return &dcPlan{Kind: "dispatch", Name: qname(n)}
		}
		fatalf("deepcopy: unrecognised element copy in %s: %s", where, first)
	}
	if s := src(p, stmts[0]); s == "(*in)[i].DeepCopyInto(&(*out)[i])" {
		n, ok := t.(*types.Named)
		if !ok {
			fatalf("deepcopy: DeepCopyInto on unnamed element in %s", where)
		}
		return &dcPlan{Kind: "call", Name: qname(n)}
	}
	fatalf("deepcopy: unrecognised element loop body in %s: %s", where, src(p, stmts[0]))
	return nil
}

func (c *dcCtx) valPlan(p *packages.Package, stmts []ast.Stmt, t types.Type, where string) *dcPlan {
	if len(stmts) == 1 && src(p, stmts[0]) == "(*out)[key] = val" {
		return &dcPlan{Kind: "assign"}
	}
	if len(stmts) == 3 && reVarOutVal.MatchString(src(p, stmts[0])) && src(p, stmts[2]) == "(*out)[key] = outVal" {
		is, ok := stmts[1].(*ast.IfStmt)
		if ok && is.Init == nil && src(p, is.Cond) == "val == nil" && len(is.Body.List) == 1 && src(p, is.Body.List[0]) == "(*out)[key] = nil" {
			if eb, ok := is.Else.(*ast.BlockStmt); ok && len(eb.List) >= 2 && src(p, eb.List[0]) == "in, out := &val, &outVal" {
				return c.blockPlan(p, eb.List[1:], t, where)
			}
		}
	}
	fatalf("deepcopy: unrecognised map value copy in %s", where)
	return nil
}

func leanShape(c *dcCtx, s *dcShape) string {
	switch s.Kind {
	case "scalar":
		return ".scalar"
	case "ptr", "slice", "map":
		return "(." + s.Kind + " " + leanShape(c, s.Elem) + ")"
	case "struct":
		var fs []string
		for _, f := range s.Fields {
			fs = append(fs, leanShape(c, f))
		}
		return "(.struct [" + strings.Join(fs, ", ") + "])"
	case "named", "iface":
		return fmt.Sprintf("(.%s %d)", s.Kind, c.id(s.Name))
	}
	fatalf("deepcopy: bad shape kind %s", s.Kind)
	return ""
}

func leanPlan(c *dcCtx, p *dcPlan) string {
	switch p.Kind {
	case "assign":
		return ".assign"
	case "newPtr", "makeSlice", "makeMap":
		return "(." + p.Kind + " " + leanPlan(c, p.Elem) + ")"
	case "call", "dispatch":
		return fmt.Sprintf("(.%s %d)", p.Kind, c.id(p.Name))
	}
	fatalf("deepcopy: bad plan kind %s", p.Kind)
	return ""
}

var dcPackages = []string{"primitive", "datatype", "message", "frame", "segment"}

func genDeepCopy(pkgs map[string]*packages.Package) {
	c := &dcCtx{pkgs: pkgs, ids: map[string]int{}, structs: map[string]*types.Named{}, ifaces: map[string]*types.Named{}}
	// 1. named struct types with DeepCopyInto; interfaces with a DeepCopy<Name> method
	for _, pn := range dcPackages {
		p := pkgs[pn]
		scope := p.Types.Scope()
		names := scope.Names()
		sort.Strings(names)
		for _, n := range names {
			tn, ok := scope.Lookup(n).(*types.TypeName)
			if !ok || tn.IsAlias() {
				continue
			}
			named, ok := tn.Type().(*types.Named)
			if !ok {
				continue
			}
			switch u := named.Underlying().(type) {
			case *types.Struct:
				if hasMethod(named, "DeepCopyInto") {
					c.structs[qname(named)] = named
				}
			case *types.Interface:
				for i := 0; i < u.NumMethods(); i++ {
					if u.Method(i).Name() == "DeepCopy"+n {
						c.ifaces[qname(named)] = named
					}
				}
			}
		}
	}
	for n := range c.structs {
		c.names = append(c.names, n)
	}
	for n := range c.ifaces {
		c.names = append(c.names, n)
	}
	sort.Strings(c.names)
	for i, n := range c.names {
		c.ids[n] = i
	}
	// 2. per struct type: shapes from the declaration, plans from DeepCopyInto; DeepCopy / DeepCopy<Iface> must be the templates
	var infos []*dcType
	impls := map[string][]string{}
	roots := []string{}
	for _, name := range c.names {
		named, ok := c.structs[name]
		if !ok {
			continue
		}
		p := pkgs[named.Obj().Pkg().Name()]
		st := named.Underlying().(*types.Struct)
		info := &dcType{Name: name}
		fieldIdx := map[string]int{}
		for i := 0; i < st.NumFields(); i++ {
			f := st.Field(i)
			fieldIdx[f.Name()] = i
			info.FieldNames = append(info.FieldNames, f.Name())
			info.Shapes = append(info.Shapes, c.shapeOf(f.Type(), name+"."+f.Name()))
			info.Plans = append(info.Plans, &dcPlan{Kind: "assign"})
		}
		var into, dc *ast.FuncDecl
		others := map[string]*ast.FuncDecl{}
		for _, f := range p.Syntax {
			for _, d := range f.Decls {
				fd, ok := d.(*ast.FuncDecl)
				if !ok || fd.Recv == nil || len(fd.Recv.List) != 1 || src(p, fd.Recv.List[0].Type) != "*"+named.Obj().Name() {
					continue
				}
				switch {
				case fd.Name.Name == "DeepCopyInto":
					into = fd
				case fd.Name.Name == "DeepCopy":
					dc = fd
				case strings.HasPrefix(fd.Name.Name, "DeepCopy"):
					others[fd.Name.Name] = fd
				}
			}
		}
		if into == nil || dc == nil {
			fatalf("deepcopy: %s lacks DeepCopyInto or DeepCopy", name)
		}
		tn := named.Obj().Name()
		if got, want := src(p, dc.Body), "{ if in == nil { return nil } out := new("+tn+") in.DeepCopyInto(out) return out }"; got != want ||
			dc.Recv.List[0].Names[0].Name != "in" {
			fatalf("deepcopy: %s.DeepCopy is not the generated template: %s", name, got)
		}
		roots = append(roots, name)
		for mn, fd := range others {
			if got, want := src(p, fd.Body), "{ if c := in.DeepCopy(); c != nil { return c } return nil }"; got != want || fd.Recv.List[0].Names[0].Name != "in" {
				fatalf("deepcopy: %s.%s is not the generated template: %s", name, mn, got)
			}
			iname := named.Obj().Pkg().Name() + "." + strings.TrimPrefix(mn, "DeepCopy")
			if _, ok := c.ifaces[iname]; !ok {
				fatalf("deepcopy: %s.%s does not correspond to an interface", name, mn)
			}
			impls[iname] = append(impls[iname], name)
		}
		// DeepCopyInto body
		if into.Recv.List[0].Names[0].Name != "in" || len(into.Type.Params.List) != 1 || into.Type.Params.List[0].Names[0].Name != "out" ||
			src(p, into.Type.Params.List[0].Type) != "*"+tn {
			fatalf("deepcopy: unexpected signature of %s.DeepCopyInto", name)
		}
		body := into.Body.List
		if len(body) < 2 || src(p, body[0]) != "*out = *in" || src(p, body[len(body)-1]) != "return" {
			fatalf("deepcopy: %s.DeepCopyInto does not start with *out = *in and end with return", name)
		}
		seen := map[string]bool{}
		setPlan := func(field string, pl *dcPlan) {
			i, ok := fieldIdx[field]
			if !ok {
				fatalf("deepcopy: %s.DeepCopyInto copies unknown field %s", name, field)
			}
			if seen[field] {
				fatalf("deepcopy: %s.DeepCopyInto copies field %s twice", name, field)
			}
			seen[field] = true
			info.Plans[i] = pl
		}
		for _, s := range body[1 : len(body)-1] {
			where := name + "." + "DeepCopyInto"
			if is, ok := s.(*ast.IfStmt); ok && is.Else == nil && is.Init == nil {
				m := reFieldNil.FindStringSubmatch(src(p, is.Cond))
				if m == nil || len(is.Body.List) == 0 {
					fatalf("deepcopy: unrecognised condition in %s: %s", where, src(p, is.Cond))
				}
				field := m[1]
				ft := st.Field(fieldIdx[field]).Type()
				first := src(p, is.Body.List[0])
				if a := reFieldAddr.FindStringSubmatch(first); a != nil {
					if a[1] != field || a[2] != field {
						fatalf("deepcopy: %s: block for field %s addresses %s/%s", where, field, a[1], a[2])
					}
					setPlan(field, c.blockPlan(p, is.Body.List[1:], ft, name+"."+field))
					continue
				}
				if d := reDispatchF.FindStringSubmatch(first); d != nil && len(is.Body.List) == 1 {
					n, ok := ft.(*types.Named)
					if d[1] != field || d[2] != field || !ok || n.Obj().Name() != d[3] {
						fatalf("deepcopy: %s: dispatch for field %s is %s", where, field, first)
					}
					setPlan(field, &dcPlan{Kind: "dispatch", Name: qname(n)})
					continue
				}
				fatalf("deepcopy: unrecognised field copy in %s: %s", where, first)
			}
			if m := reCallF.FindStringSubmatch(src(p, s)); m != nil && m[1] == m[2] {
				n, ok := st.Field(fieldIdx[m[1]]).Type().(*types.Named)
				if !ok {
					fatalf("deepcopy: %s: DeepCopyInto on unnamed field %s", where, m[1])
				}
				setPlan(m[1], &dcPlan{Kind: "call", Name: qname(n)})
				continue
			}
			fatalf("deepcopy: unrecognised statement in %s: %s", where, src(p, s))
		}
		infos = append(infos, info)
	}
	// 3. every implementation of an interface (by the type checker) must have the DeepCopy<Iface> method found above
	for iname, in := range c.ifaces {
		iface := in.Underlying().(*types.Interface)
		for _, pn := range dcPackages {
			scope := pkgs[pn].Types.Scope()
			for _, n := range scope.Names() {
				tn, ok := scope.Lookup(n).(*types.TypeName)
				if !ok {
					continue
				}
				named, ok := tn.Type().(*types.Named)
				if !ok {
					continue
				}
				if _, isIface := named.Underlying().(*types.Interface); isIface {
					continue
				}
				if types.Implements(types.NewPointer(named), iface) || types.Implements(named, iface) {
					found := false
					for _, x := range impls[iname] {
						if x == qname(named) {
							found = true
						}
					}
					if !found {
						fatalf("deepcopy: %s implements %s but has no generated DeepCopy%s", qname(named), iname, in.Obj().Name())
					}
				}
			}
		}
	}
	// 4. emit
	var w strings.Builder
	w.WriteString("import Cql.DeepCopy\n-- GENERATED by verif-extract from */deepcopy_generated.go, the struct declarations and primitive/uuid.go. DO NOT EDIT.\n")
	w.WriteString("namespace Cql.Gen.DeepCopy\nopen Cql.DeepCopy\n\n")
	w.WriteString("def typeNames : List String :=\n")
	for _, n := range c.names {
		fmt.Fprintf(&w, "  %q ::\n", n)
	}
	w.WriteString("  []\n\n")
	var tnames []string
	for _, info := range infos {
		id := c.id(info.Name)
		var fn, sh, pl []string
		for i := range info.FieldNames {
			fn = append(fn, fmt.Sprintf("%q", info.FieldNames[i]))
			sh = append(sh, leanShape(c, info.Shapes[i]))
			pl = append(pl, leanPlan(c, info.Plans[i]))
		}
		fmt.Fprintf(&w, "-- %s\ndef t%d : TypeInfo :=\n  { name := %d, label := %q,\n    fieldNames := [%s],\n    shapes := [%s],\n    plans := [%s] }\n\n",
			info.Name, id, id, info.Name, strings.Join(fn, ", "), strings.Join(sh, ", "), strings.Join(pl, ", "))
		tnames = append(tnames, fmt.Sprintf("t%d", id))
	}
	var ifs []string
	inames := []string{}
	for n := range c.ifaces {
		inames = append(inames, n)
	}
	sort.Strings(inames)
	for _, n := range inames {
		sort.Strings(impls[n])
		var ids []string
		for _, x := range impls[n] {
			ids = append(ids, fmt.Sprint(c.id(x)))
		}
		ifs = append(ifs, fmt.Sprintf("(%d, [%s])", c.id(n), strings.Join(ids, ", ")))
	}
	fmt.Fprintf(&w, "def env : Env :=\n  { types := %s :: [],\n    ifaces := [%s] }\n\n", strings.Join(tnames, " :: "), strings.Join(ifs, ", "))
	// roots: T.DeepCopy() on *T for every struct type; DeepCopy<I>() on every interface; UUID.DeepCopy
	w.WriteString("/-- the public deep-copy operations: (label, shape of the receiver, plan) -/\ndef roots : List (String × Shape × Plan) :=\n")
	for _, r := range roots {
		fmt.Fprintf(&w, "  (%q, .ptr (.named %d), .newPtr (.call %d)) ::\n", r+".DeepCopy", c.id(r), c.id(r))
	}
	for _, n := range inames {
		fmt.Fprintf(&w, "  (%q, .iface %d, .dispatch %d) ::\n", n+".DeepCopy"+c.ifaces[n].Obj().Name(), c.id(n), c.id(n))
	}
	// hand-written value-type DeepCopy methods (UUID)
	handwritten := []string{}
	for _, pn := range dcPackages {
		p := pkgs[pn]
		for _, f := range p.Syntax {
			for _, d := range f.Decls {
				fd, ok := d.(*ast.FuncDecl)
				if !ok || fd.Name.Name != "DeepCopy" || fd.Recv == nil {
					continue
				}
				tn := strings.TrimPrefix(src(p, fd.Recv.List[0].Type), "*")
				if _, ok := c.structs[pn+"."+tn]; ok {
					continue
				}
				named, ok := p.Types.Scope().Lookup(tn).Type().(*types.Named)
				if !ok {
					fatalf("deepcopy: DeepCopy on unknown receiver %s", tn)
				}
				c.checkValueDeepCopy(named)
				handwritten = append(handwritten, pn+"."+tn)
				fmt.Fprintf(&w, "  (%q, .ptr .scalar, .newPtr .assign) ::\n", pn+"."+tn+".DeepCopy")
			}
		}
	}
	w.WriteString("  []\n\nend Cql.Gen.DeepCopy\n")
	writeFile("DeepCopy.lean", w.String())
	js, _ := json.MarshalIndent(map[string]interface{}{"types": roots, "interfaces": impls, "handwritten": handwritten}, "", " ")
	writeFile("deepcopy.json", string(js)+"\n")
}
