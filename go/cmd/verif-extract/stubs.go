package main

import "golang.org/x/tools/go/packages"

func genVint(p *packages.Package)                      {}
func genDeepCopy(pkgs map[string]*packages.Package)    {}
func genEffects(pkgs map[string]*packages.Package)     {}
