// verif-extract: translator from the Go source of /repo to the regenerated Lean modules
// under /verif/lean/Cql/Gen. It is deliberately small and pattern based: a construct it
// does not recognise is a hard error, never a guess.
package main

import (
	"flag"
	"fmt"
	"os"
	"path/filepath"

	"golang.org/x/tools/go/packages"
)

var repoDir = flag.String("repo", "/repo", "repository working tree")
var outDir = flag.String("out", "/verif/lean/Cql/Gen", "output directory for generated Lean files")

func fatalf(format string, args ...interface{}) {
	fmt.Fprintf(os.Stderr, "verif-extract: "+format+"\n", args...)
	os.Exit(2)
}

func loadPkgs(patterns ...string) map[string]*packages.Package {
	cfg := &packages.Config{
		Mode: packages.NeedName | packages.NeedTypes | packages.NeedSyntax | packages.NeedTypesInfo |
			packages.NeedFiles | packages.NeedImports | packages.NeedDeps,
		Dir: *repoDir,
	}
	pkgs, err := packages.Load(cfg, patterns...)
	if err != nil {
		fatalf("load: %v", err)
	}
	res := map[string]*packages.Package{}
	for _, p := range pkgs {
		if len(p.Errors) > 0 {
			fatalf("package %s has errors: %v", p.PkgPath, p.Errors)
		}
		res[p.Name] = p
	}
	return res
}

var written = map[string]bool{}

// writeFile (re)writes a generated file; an unchanged file keeps its modification time so that lake does not rebuild
func writeFile(name, content string) {
	path := filepath.Join(*outDir, name)
	written[path] = true
	if old, err := os.ReadFile(path); err == nil && string(old) == content {
		return
	}
	if err := os.WriteFile(path, []byte(content), 0o644); err != nil {
		fatalf("write %s: %v", path, err)
	}
}

func main() {
	flag.Parse()
	// stale generated files are removed first
	if err := os.MkdirAll(*outDir, 0o755); err != nil {
		fatalf("mkdir: %v", err)
	}
	pkgs := loadPkgs("./primitive", "./message", "./frame", "./datacodec", "./crc", "./segment", "./client",
		"./datatype", "./compression/lz4", "./compression/snappy")
	genConstants(pkgs["primitive"])
	genAccessors(pkgs["message"], pkgs["frame"])
	genConversions(pkgs["datacodec"])
	genVint(pkgs["primitive"])
	genCrcFacts(pkgs["crc"], pkgs["segment"])
	genDeepCopy(pkgs)
	genEffects(pkgs)
	// stale generated files (not produced by this run) are removed
	old, _ := filepath.Glob(filepath.Join(*outDir, "*"))
	for _, f := range old {
		if !written[f] {
			os.Remove(f)
		}
	}
}
