// verif-extract: translator from the Go source of /repo to the regenerated Lean modules
// under /verif/lean/Cql/Gen. It is deliberately small and pattern based: a construct it
// does not recognise is a hard error, never a guess.
package main

import (
	"encoding/json"
	"flag"
	"fmt"
	"os"
	"path/filepath"
	"strings"

	"golang.org/x/tools/go/packages"
)

var repoDir = flag.String("repo", "/repo", "repository working tree")
var outDir = flag.String("out", "/verif/lean/Cql/Gen", "output directory for generated Lean files")

var skip = flag.String("skip", "", "comma-separated generators to skip (their files are kept)")
var baselineDir = flag.String("baseline", "/verif/lean/GenBaseline", "generated files of the unchanged tree, used in place of a generator that fails")

type genFailure struct{ msg string }

var inGenerator bool

// fatalf: inside a generator the failure is confined to that generator (see runGen); elsewhere it ends the run
func fatalf(format string, args ...interface{}) {
	msg := fmt.Sprintf(format, args...)
	if inGenerator {
		panic(genFailure{msg})
	}
	fmt.Fprintf(os.Stderr, "verif-extract: %s\n", msg)
	os.Exit(2)
}

var failed = map[string]string{}

// runGen runs one generator. When it rejects the source, the files it is responsible for are taken from the committed
// baseline (so that the models of unrelated properties still build) and the failure is recorded in failed.json: the checks
// of the properties that depend on this generator then report the tie as broken.
func runGen(name string, files []string, f func()) {
	for _, sk := range strings.Split(*skip, ",") {
		if sk == name {
			// not needed by this check: the baseline copy stands in (the check of the property that needs this generator
			// does not skip it)
			for _, fn := range files {
				if b, err := os.ReadFile(filepath.Join(*baselineDir, fn)); err == nil {
					writeFile(fn, string(b))
				} else {
					written[filepath.Join(*outDir, fn)] = true
				}
			}
			return
		}
	}
	defer func() {
		inGenerator = false
		if r := recover(); r != nil {
			gf, ok := r.(genFailure)
			if !ok {
				panic(r)
			}
			failed[name] = gf.msg
			fmt.Fprintf(os.Stderr, "verif-extract: GEN-FAILED %s: %s\n", name, gf.msg)
			for _, fn := range files {
				b, err := os.ReadFile(filepath.Join(*baselineDir, fn))
				if err != nil {
					fmt.Fprintf(os.Stderr, "verif-extract: no baseline for %s: %v\n", fn, err)
					os.Exit(2)
				}
				writeFile(fn, string(b))
			}
		}
	}()
	inGenerator = true
	f()
}

func loadPkgs(patterns ...string) map[string]*packages.Package {
	cfg := &packages.Config{
		Mode: packages.NeedName | packages.NeedTypes | packages.NeedSyntax | packages.NeedTypesInfo |
			packages.NeedFiles | packages.NeedImports | packages.NeedDeps,
		Dir: *repoDir,
	}
	pkgs, err := packages.Load(cfg, patterns...)
	if err != nil {
		fatalf("load: %v", err)
	}
	res := map[string]*packages.Package{}
	for _, p := range pkgs {
		if len(p.Errors) > 0 {
			fatalf("package %s has errors: %v", p.PkgPath, p.Errors)
		}
		res[p.Name] = p
	}
	return res
}

var written = map[string]bool{}

// writeFile (re)writes a generated file; an unchanged file keeps its modification time so that lake does not rebuild
func writeFile(name, content string) {
	path := filepath.Join(*outDir, name)
	written[path] = true
	if old, err := os.ReadFile(path); err == nil && string(old) == content {
		return
	}
	if err := os.WriteFile(path, []byte(content), 0o644); err != nil {
		fatalf("write %s: %v", path, err)
	}
}

func main() {
	flag.Parse()
	// stale generated files are removed first
	if err := os.MkdirAll(*outDir, 0o755); err != nil {
		fatalf("mkdir: %v", err)
	}
	pkgs := loadPkgs("./primitive", "./message", "./frame", "./datacodec", "./crc", "./segment", "./client",
		"./datatype", "./compression/lz4", "./compression/snappy")
	runGen("constants", []string{"Constants.lean", "constants.json"}, func() { genConstants(pkgs["primitive"]) })
	runGen("accessors", []string{"Accessors.lean"}, func() { genAccessors(pkgs["message"], pkgs["frame"]) })
	runGen("conversions", []string{"Conversions.lean", "conversions.json"}, func() { genConversions(pkgs["datacodec"]) })
	runGen("crcfacts", []string{"CrcFacts.lean"}, func() { genCrcFacts(pkgs["crc"], pkgs["segment"]) })
	runGen("gofn_time", []string{"GoFnTime.lean"}, func() { genGoFn(pkgs, "Time") })
	runGen("gofn_vint", []string{"GoFnVint.lean"}, func() { genGoFn(pkgs, "Vint") })
	runGen("gofn_crc", []string{"GoFnCrc.lean"}, func() { genGoFn(pkgs, "Crc") })
	runGen("inflight", []string{"InflightFacts.lean", "ConnFacts.lean", "DispatchFacts.lean", "TimerFacts.lean"}, func() { genInflightFacts(pkgs["client"]); genConnFacts(pkgs["client"]); genDispatchFacts(pkgs["client"]); genTimerFacts(pkgs["client"]) })
	runGen("deepcopy", []string{"DeepCopy.lean", "deepcopy.json"}, func() { genDeepCopy(pkgs) })
	runGen("effects", []string{"Effects.lean", "effects.json"}, func() { genEffects(pkgs) })
	fj, _ := json.MarshalIndent(failed, "", " ")
	writeFile("failed.json", string(fj)+"\n")
	// stale generated files (not produced by this run) are removed
	old, _ := filepath.Glob(filepath.Join(*outDir, "*"))
	for _, f := range old {
		if !written[f] {
			os.Remove(f)
		}
	}
}
