package main

import (
	"bytes"
	"context"
	"encoding/binary"
	"fmt"
	"io"
	"net"
	"strings"
	"time"

	"github.com/datastax/go-cassandra-native-protocol/client"
	"github.com/datastax/go-cassandra-native-protocol/frame"
	"github.com/datastax/go-cassandra-native-protocol/message"
	"github.com/datastax/go-cassandra-native-protocol/primitive"
	golz4 "github.com/pierrec/lz4/v4"

	"verif/internal/gen"
	"verif/internal/lp"
	"verif/internal/show"
)

// C15: frames through real connections.
//   lib-lib   : the library's client and server, every version x compression x auth: generated request frames must arrive
//               equal at the server, generated responses equal at the matching client request.
//   raw-client: an independent raw TCP peer (own v5 framing written from the specification: reference CRCs and segment layout
//               of seg.go, LZ4 blocks from the third-party library directly) plays the client against the library's server:
//               unframed handshake, 1..k envelopes per self-contained segment, a large envelope split at chosen points.
//   raw-server: the raw peer plays the server against the library's client: checks the bytes the client puts on the wire
//               (unframed handshake, one self-contained segment per envelope, CRCs, envelope not individually compressed) and
//               answers with several envelopes in one segment and with envelopes split over segments.
// Every scenario runs in a child process (see connlab.go).

func init() {
	modes["C15"] = runC15
	modes["C15CONN"] = runC15Child
}

type c15Scn struct {
	kind    string // lib-lib raw-client raw-server
	version primitive.ProtocolVersion
	comp    primitive.Compression
	auth    bool
	variant int
}

func (s c15Scn) String() string {
	return fmt.Sprintf("%s version=%v compression=%s auth=%v variant=%d", s.kind, s.version, s.comp, s.auth, s.variant)
}

func c15Scenarios() []c15Scn {
	var l []c15Scn
	for _, v := range gen.Versions {
		for _, c := range []primitive.Compression{primitive.CompressionNone, primitive.CompressionLz4, primitive.CompressionSnappy} {
			if c == primitive.CompressionSnappy && v == primitive.ProtocolVersion5 {
				continue
			}
			for _, a := range []bool{false, true} {
				l = append(l, c15Scn{"lib-lib", v, c, a, 0})
			}
		}
	}
	nv := 3
	if thorough() {
		nv = 12
	}
	for _, c := range []primitive.Compression{primitive.CompressionNone, primitive.CompressionLz4} {
		for _, a := range []bool{false, true} {
			for k := 0; k < nv; k++ {
				l = append(l, c15Scn{"raw-client", primitive.ProtocolVersion5, c, a, k})
				l = append(l, c15Scn{"raw-server", primitive.ProtocolVersion5, c, a, k})
			}
		}
	}
	return l
}

func runC15(res *lp.Result) {
	res.Rule = "lib-lib: versions {2,3,4,5,DSE1,DSE2} x {none, LZ4, Snappy where allowed} x auth on/off, generated request and response frames of " +
		"every applicable kind, compared structurally at the receiving side; raw-client / raw-server (v5, none and LZ4, auth on/off): an " +
		"independent raw TCP peer with its own segment framing: unframed handshake, 1..k envelopes per self-contained segment, envelopes of " +
		"up to ~300 KiB (quick) / ~1 MB (thorough) split over segments at several split points (segment-size boundaries, just after the envelope header, random), " +
		"wire format of what the library sends checked against the reference layout. Non-trivial = every scenario (each exchanges frames)."
	scns := c15Scenarios()
	runScenarios(res, "C15CONN", len(scns), func(i int) string { return scns[i].String() })
}

func runC15Child(res *lp.Result) {
	scns := c15Scenarios()
	i := scenarioIndex()
	if i >= len(scns) {
		return
	}
	s := scns[i]
	res.Case(s.String(), true)
	res.Count("kind/" + s.kind)
	res.Count(fmt.Sprintf("version/%d", s.version))
	res.Count("compression/" + string(s.comp))
	switch s.kind {
	case "lib-lib":
		c15LibLib(res, s)
	case "raw-client":
		c15RawClient(res, s)
	case "raw-server":
		c15RawServer(res, s)
	}
}

var c15Creds = &client.AuthCredentials{Username: "cassandra", Password: "cassandra"}

func credsFor(s c15Scn) *client.AuthCredentials {
	if s.auth {
		return c15Creds
	}
	return nil
}

// frames are compared as rendered text, with what the transport may legitimately change masked out
func wireText(f *frame.Frame) string {
	g := show.Normalize(f.DeepCopy())
	g.Header.Flags = g.Header.Flags.Remove(primitive.HeaderFlagCompressed)
	g.Header.BodyLength = 0
	return show.Frame(g)
}

var c15RequestKinds = []string{"Options", "Query", "Prepare", "Execute", "Batch", "Register", "AuthResponse"}
var c15ResponseKinds = []string{"Ready", "Authenticate", "Supported", "AuthChallenge", "AuthSuccess", "Unavailable", "ReadTimeout", "WriteTimeout",
	"ReadFailure", "WriteFailure", "FunctionFailure", "Unprepared", "AlreadyExists", "Invalid", "Unauthorized", "SyntaxError", "ConfigError",
	"VoidResult", "SetKeyspaceResult", "SchemaChangeResult", "PreparedResult", "RowsResult"}

func genFrame(g *gen.G, kinds []string, streamId int16) *frame.Frame {
	for try := 0; try < 50; try++ {
		f := g.Frame(kinds[g.R.Intn(len(kinds))])
		if f == nil {
			continue
		}
		if rows, ok := f.Body.Message.(*message.RowsResult); ok && rows.Metadata != nil &&
			rows.Metadata.Flags()&primitive.RowsFlagDseContinuousPaging != 0 && !rows.Metadata.LastContinuousPage {
			continue // a non-final page would leave the request open; paging is exercised by C09/C16
		}
		if e, ok := f.Body.Message.(message.Error); ok && e.GetErrorCode().IsFatalError() {
			continue // fatal error codes make the client close the connection by design
		}
		f.Header.StreamId = streamId
		return f
	}
	return frame.NewFrame(g.V, streamId, &message.Options{})
}

func c15LibLib(res *lp.Result, s c15Scn) {
	id := s.String()
	viol := func(what, impl, model string) {
		res.Add(lp.Finding{Kind: "violation", What: what, Input: id, Impl: trunc(impl), Model: trunc(model)})
	}
	srv, addr, cancel := startServer(credsFor(s))
	defer cancel()
	defer srv.Close()
	cl := newClient(addr, credsFor(s), s.comp, 10*time.Second)
	clientConn, serverConn, err := srv.BindAndInit(cl, context.Background(), s.version, 1)
	if err != nil {
		viol("handshake fails between the library's client and server", err.Error(), "")
		return
	}
	defer clientConn.Close()
	rng := lp.NewRng(*seed*1000 + uint64(scenarioIndex()))
	n := 25
	if thorough() {
		n = 150
	}
	for i := 0; i < n; i++ {
		g := &gen.G{R: rng, V: s.version, Big: rng.Intn(10) == 0}
		sid := int16(1 + i%100) // (protocol v2 has one-byte stream ids; every request is answered before the next one is sent)
		req := genFrame(g, c15RequestKinds, sid)
		// the first exchanges of a connection with the v5 framing carry envelopes of exactly the largest payload a segment holds
		// (131071 bytes), one byte less, and half of it
		exact := 0
		if s.version.SupportsModernFramingLayout() && i < 3 {
			exact = []int{131071, 131070, 65536}[i]
			req = sizedEnvelope(exact, func(n int) *frame.Frame { return bigQuery(s.version, sid, n, rng) })
		}
		if s.comp != primitive.CompressionNone && rng.Bool() {
			req.SetCompress(true)
		}
		// one exchange per connection whose bodies compress extremely well (ratios far beyond 100:1)
		squeezed := s.comp != primitive.CompressionNone && i == 3
		if squeezed {
			req = frame.NewFrame(s.version, sid, &message.Query{Query: strings.Repeat("a", 100000)})
			req.SetCompress(true)
		}
		if s.version.SupportsModernFramingLayout() && len(encodeEnvelope(req)) > 131071 {
			res.Count("skipped/envelope-larger-than-a-segment") // the library does not split outgoing envelopes (out of C15's quantifier)
			continue
		}
		want := wireText(req)
		inflight, err := clientConn.Send(req)
		if err != nil {
			viol("client refuses to send a version-valid request", err.Error(), want)
			return
		}
		var got *frame.Frame
		if !within(5*time.Second, func() { got, err = serverConn.Receive() }) || err != nil || got == nil {
			viol("request sent by the client does not reach the server", fmt.Sprint(err), want)
			return
		}
		res.Count("frames/request")
		if t := wireText(got); t != want {
			viol("request received by the server differs from what the client sent", t, want)
		}
		resp := genFrame(g, c15ResponseKinds, sid)
		if squeezed {
			resp = frame.NewFrame(s.version, sid, &message.RowsResult{Metadata: &message.RowsMetadata{ColumnCount: 1}, Data: message.RowSet{message.Row{make([]byte, 120000)}}})
			resp.SetCompress(true)
			res.Count("squeezed-bodies")
		}
		if exact > 0 {
			resp = sizedEnvelope(exact, func(n int) *frame.Frame {
				return frame.NewFrame(s.version, sid, &message.RowsResult{Metadata: &message.RowsMetadata{ColumnCount: 1}, Data: message.RowSet{message.Row{rng.Bytes(n)}}})
			})
			res.Count(fmt.Sprintf("envelope-size/%d", exact))
		}
		for s.version.SupportsModernFramingLayout() && len(encodeEnvelope(resp)) > 131071 {
			res.Count("skipped/envelope-larger-than-a-segment")
			resp = genFrame(&gen.G{R: rng, V: s.version}, c15ResponseKinds, sid)
		}
		wantR := wireText(resp)
		if err := serverConn.Send(resp); err != nil {
			viol("server refuses to send a version-valid response", err.Error(), wantR)
			return
		}
		var gotR *frame.Frame
		if !within(5*time.Second, func() { gotR, err = clientConn.Receive(inflight) }) || err != nil || gotR == nil {
			viol("response sent by the server does not reach the matching request", fmt.Sprint(err), wantR)
			return
		}
		res.Count("frames/response")
		if t := wireText(gotR); t != wantR {
			viol("response received by the client differs from what the server sent", t, wantR)
		}
	}
}

// ---- the raw peer ---------------------------------------------------------------------------------------------------

var rawCodec = frame.NewRawCodec() // frame (envelope) bytes: the frame codec is covered by C01/C02; segments are the peer's own

func encodeEnvelope(f *frame.Frame) []byte {
	var b bytes.Buffer
	g := f.DeepCopy()
	g.Header.Flags = g.Header.Flags.Remove(primitive.HeaderFlagCompressed)
	must(rawCodec.EncodeFrame(g, &b))
	return b.Bytes()
}

func readLegacyFrame(c net.Conn) (*frame.Frame, []byte, error) {
	c.SetReadDeadline(time.Now().Add(5 * time.Second))
	hdr := make([]byte, 9)
	if _, err := io.ReadFull(c, hdr); err != nil {
		return nil, nil, err
	}
	n := binary.BigEndian.Uint32(hdr[5:])
	body := make([]byte, n)
	if _, err := io.ReadFull(c, body); err != nil {
		return nil, nil, err
	}
	all := append(hdr, body...)
	f, err := rawCodec.DecodeFrame(bytes.NewReader(all))
	return f, all, err
}

// rawSegment: the peer's own encoder (reference layout of seg.go); with LZ4 the compressed form is used when it is smaller
func rawSegment(lz4 bool, selfContained bool, payload []byte) []byte {
	if !lz4 {
		return refSegment(false, selfContained, payload, 0)
	}
	dst := make([]byte, golz4.CompressBlockBound(len(payload)))
	n, err := golz4.CompressBlock(payload, dst, nil)
	if err == nil && n > 0 && n < len(payload) {
		return refSegment(true, selfContained, dst[:n], len(payload))
	}
	return refSegment(true, selfContained, payload, 0)
}

type rawSeg struct {
	selfContained bool
	payload       []byte
	compressed    bool // the wire carried the compressed form
}

// readRawSegment: the peer's own decoder; every deviation from the specification's layout is an error
func readRawSegment(c net.Conn, lz4 bool) (*rawSeg, error) {
	c.SetReadDeadline(time.Now().Add(5 * time.Second))
	hl := 3
	if lz4 {
		hl = 5
	}
	hdr := make([]byte, hl+3)
	if _, err := io.ReadFull(c, hdr); err != nil {
		return nil, err
	}
	var h uint64
	for i := 0; i < hl; i++ {
		h |= uint64(hdr[i]) << (8 * uint(i))
	}
	crc := uint32(hdr[hl]) | uint32(hdr[hl+1])<<8 | uint32(hdr[hl+2])<<16
	if refCrc24(h, hl) != crc {
		return nil, fmt.Errorf("header CRC-24 mismatch (header bytes %x)", hdr)
	}
	s := &rawSeg{}
	var wireLen, uncompressedLen int
	if !lz4 {
		wireLen = int(h & 0x1ffff)
		s.selfContained = h&(1<<17) != 0
		if h>>18 != 0 {
			return nil, fmt.Errorf("header padding bits are not zero")
		}
	} else {
		wireLen = int(h & 0x1ffff)
		uncompressedLen = int(h >> 17 & 0x1ffff)
		s.selfContained = h&(1<<34) != 0
		if h>>35 != 0 {
			return nil, fmt.Errorf("header padding bits are not zero")
		}
	}
	wire := make([]byte, wireLen+4)
	if _, err := io.ReadFull(c, wire); err != nil {
		return nil, err
	}
	if binary.LittleEndian.Uint32(wire[wireLen:]) != refPayloadCrc(wire[:wireLen]) {
		return nil, fmt.Errorf("payload CRC-32 mismatch")
	}
	if lz4 && uncompressedLen > 0 {
		out := make([]byte, uncompressedLen)
		n, err := golz4.UncompressBlock(wire[:wireLen], out)
		if err != nil || n != uncompressedLen {
			return nil, fmt.Errorf("payload is not an LZ4 block of the declared uncompressed length: %v", err)
		}
		s.payload, s.compressed = out, true
	} else {
		s.payload = wire[:wireLen]
	}
	return s, nil
}

// splits of an envelope of length n into parts of at most 131071 bytes
func c15Splits(n int, variant int, rng *lp.Rng) [][]int {
	const max = 131071
	fill := func(first int) []int {
		parts := []int{first}
		rest := n - first
		for rest > 0 {
			p := rest
			if p > max {
				p = max
			}
			parts = append(parts, p)
			rest -= p
		}
		return parts
	}
	var out [][]int
	out = append(out, fill(max)) // what Cassandra does: full segments, then the remainder
	if n-9 <= 3*max {
		out = append(out, fill(9)) // exactly the envelope header first
	}
	out = append(out, fill(max-variant*1000-1))
	if n-5 <= 3*max {
		out = append(out, fill(1+variant%8)) // the first segment ends inside the envelope header
	}
	// random split
	var r []int
	rest := n
	for rest > 0 {
		p := 9 + rng.Intn(max-9)
		if p > rest {
			p = rest
		}
		r = append(r, p)
		rest -= p
	}
	out = append(out, r)
	return out
}

func bigQuery(v primitive.ProtocolVersion, streamId int16, size int, rng *lp.Rng) *frame.Frame {
	q := make([]byte, size)
	for i := range q {
		q[i] = byte('a' + rng.Intn(26))
	}
	return frame.NewFrame(v, streamId, &message.Query{Query: string(q)})
}

// sizedEnvelope: a frame whose envelope (header + uncompressed body) is exactly target bytes long
func sizedEnvelope(target int, mk func(n int) *frame.Frame) *frame.Frame {
	l := len(encodeEnvelope(mk(1000)))
	return mk(1000 + target - l)
}

func bigRows(v primitive.ProtocolVersion, streamId int16, size int, rng *lp.Rng) *frame.Frame {
	row := [][]byte{rng.Bytes(size / 4), bytes.Repeat([]byte("xy"), size/8), rng.Bytes(size / 2)}
	m := &message.RowsResult{Metadata: &message.RowsMetadata{ColumnCount: 3}, Data: message.RowSet{row}}
	return frame.NewFrame(v, streamId, m)
}

func c15RawClient(res *lp.Result, s c15Scn) {
	id := s.String()
	viol := func(what, impl, model string) {
		res.Add(lp.Finding{Kind: "violation", What: what, Input: id, Impl: trunc(impl), Model: trunc(model)})
	}
	lz := s.comp == primitive.CompressionLz4
	srv, addr, cancel := startServer(credsFor(s))
	defer cancel()
	defer srv.Close()
	conn, err := net.Dial("tcp", addr)
	must(err)
	defer conn.Close()
	serverConn, err := srv.AcceptAny()
	if err != nil {
		res.Add(lp.Finding{Kind: "harness", What: "server did not accept the raw peer", Input: id, Impl: err.Error()})
		return
	}
	hsDone := make(chan error, 1)
	go func() { hsDone <- serverConn.AcceptHandshake() }()
	// handshake: STARTUP unframed and uncompressed
	startup := message.NewStartup()
	if lz {
		startup.SetCompression(primitive.CompressionLz4)
	}
	conn.Write(encodeEnvelope(frame.NewFrame(s.version, 1, startup)))
	first, raw, err := readLegacyFrame(conn)
	if err != nil {
		viol("server does not answer STARTUP with an unframed READY/AUTHENTICATE", fmt.Sprintf("%v %x", err, raw), "")
		return
	}
	switch first.Body.Message.(type) {
	case *message.Ready:
		if s.auth {
			viol("server answers STARTUP with READY although authentication is configured", show.Frame(first), "")
		}
	case *message.Authenticate:
		if !s.auth {
			viol("server answers STARTUP with AUTHENTICATE although no authentication is configured", show.Frame(first), "")
		}
		// from here on: segments
		tok := []byte("\x00cassandra\x00cassandra")
		conn.Write(rawSegment(lz, true, encodeEnvelope(frame.NewFrame(s.version, 1, &message.AuthResponse{Token: tok}))))
		seg, err := readRawSegment(conn, lz)
		if err != nil {
			viol("server does not answer AUTH_RESPONSE with a well-formed segment", fmt.Sprint(err), "")
			return
		}
		if f, err := rawCodec.DecodeFrame(bytes.NewReader(seg.payload)); err != nil {
			viol("segment sent by the server does not hold a well-formed envelope", fmt.Sprintf("%v payload=%x", err, seg.payload[:minInt(len(seg.payload), 64)]), "")
			return
		} else if _, ok := f.Body.Message.(*message.AuthSuccess); !ok {
			viol("server does not answer AUTH_RESPONSE with AUTH_SUCCESS", show.Frame(f), "")
			return
		}
	default:
		viol("server answers STARTUP with an unexpected message", show.Frame(first), "")
		return
	}
	select {
	case err := <-hsDone:
		if err != nil {
			viol("server-side handshake fails with a specification-conformant raw peer", err.Error(), "")
			return
		}
	case <-time.After(5 * time.Second):
		viol("server-side handshake does not complete with a specification-conformant raw peer", "", "")
		return
	}
	rng := lp.NewRng(*seed*1000 + uint64(scenarioIndex()))
	// for the correspondence with the connection model (Cql/Conn.lean): the segment payloads as sent, the frames as delivered
	var modelItems, delivered []string
	sendSeg := func(selfContained bool, payload []byte) {
		tag := "mp:"
		if selfContained {
			tag = "sc:"
		}
		modelItems = append(modelItems, tag+hx(payload))
		conn.Write(rawSegment(lz, selfContained, payload))
	}
	defer func() {
		if len(modelItems) == 0 {
			return
		}
		answers, err := lp.Ask(*driverPath, []string{"conn recv " + strings.Join(modelItems, " ")})
		if err != nil || len(answers) != 1 {
			res.Add(lp.Finding{Kind: "disagreement", What: "driver failure on conn recv", Input: id})
			return
		}
		want := strings.Join(delivered, " | ")
		if want == "" {
			want = "-"
		}
		if answers[0] != want {
			res.Add(lp.Finding{Kind: "disagreement", What: "frames delivered by the server connection differ from the connection model", Input: id,
				Impl: trunc(firstDiff(want, answers[0])), Model: trunc(answers[0])})
		}
		res.Count("model/conn-recv")
	}()
	expectFrames := func(what string, want []*frame.Frame) bool {
		for k, w := range want {
			var got *frame.Frame
			var err error
			if !within(5*time.Second, func() { got, err = serverConn.Receive() }) || err != nil || got == nil {
				viol(what+": envelope does not reach the server", fmt.Sprintf("envelope %d of %d: %v", k+1, len(want), err), wireText(w))
				return false
			}
			delivered = append(delivered, show.Frame(got))
			res.Count("frames/raw-to-server")
			if t := wireText(got); t != wireText(w) {
				viol(what+": envelope received by the server differs from what was sent", t, wireText(w))
			}
		}
		return true
	}
	// (1) k envelopes in one self-contained segment
	for k := 1; k <= 4; k++ {
		var fs []*frame.Frame
		var payload []byte
		for j := 0; j < k; j++ {
			g := &gen.G{R: rng, V: s.version}
			f := genFrame(g, c15RequestKinds, int16(200+10*k+j))
			if j == k-1 && k%2 == 0 {
				// an envelope with an empty body (9 bytes in all) as the last one of the segment
				f = frame.NewFrame(s.version, int16(200+10*k+j), &message.Options{})
			}
			fs = append(fs, f)
			payload = append(payload, encodeEnvelope(f)...)
		}
		if len(payload) > 131071 {
			continue
		}
		sendSeg(true, payload)
		if !expectFrames(fmt.Sprintf("%d envelopes in one self-contained segment", k), fs) {
			return
		}
	}
	// (2) a large envelope over several segments, several split points
	size := 140000 + s.variant*80000 // 140000, 220000, 300000 at the quick tier; up to ~1 MB
	for si := 0; si < 5; si++ {
		// a different envelope size for every split, so that nothing left over from the previous reassembly can fit
		f := bigQuery(s.version, 300, size+si*1237, rng)
		env := encodeEnvelope(f)
		all := c15Splits(len(env), s.variant, rng)
		if si >= len(all) {
			break
		}
		parts := all[si]
		off := 0
		for _, p := range parts {
			sendSeg(false, env[off:off+p])
			off += p
		}
		if !expectFrames(fmt.Sprintf("envelope split over %d segments (first part %s)", len(parts), firstPartClass(parts[0])), []*frame.Frame{f}) {
			return
		}
	}
	// (3) what the server sends to a raw peer
	resp := genFrame(&gen.G{R: rng, V: s.version}, c15ResponseKinds, 300)
	if err := serverConn.Send(resp); err != nil {
		viol("server refuses to send a version-valid response", err.Error(), "")
		return
	}
	seg, err := readRawSegment(conn, lz)
	if err != nil {
		viol("bytes sent by the server are not a well-formed v5 segment", err.Error(), "")
		return
	}
	if !seg.selfContained {
		viol("server sends a small envelope in a non-self-contained segment", "", "")
	}
	if len(seg.payload) > 1 && seg.payload[1]&byte(primitive.HeaderFlagCompressed) != 0 {
		viol("envelope inside a v5 segment is individually compressed (COMPRESSED flag set)", fmt.Sprintf("envelope header %x", seg.payload[:minInt(9, len(seg.payload))]), "")
	} else if got, err := rawCodec.DecodeFrame(bytes.NewReader(seg.payload)); err != nil {
		viol("segment sent by the server does not hold a well-formed envelope", err.Error(), "")
	} else if t := wireText(got); t != wireText(resp) {
		viol("response read by the raw peer differs from what the server sent", t, wireText(resp))
	}
	res.Count("frames/server-to-raw")
}

func c15RawServer(res *lp.Result, s c15Scn) {
	id := s.String()
	viol := func(what, impl, model string) {
		res.Add(lp.Finding{Kind: "violation", What: what, Input: id, Impl: trunc(impl), Model: trunc(model)})
	}
	lz := s.comp == primitive.CompressionLz4
	l, err := net.Listen("tcp", "127.0.0.1:0")
	must(err)
	defer l.Close()
	cl := newClient(l.Addr().String(), credsFor(s), s.comp, 10*time.Second)
	clientConn, err := cl.Connect(context.Background())
	must(err)
	defer clientConn.Close()
	conn, err := l.Accept()
	must(err)
	defer conn.Close()
	hs := make(chan error, 1)
	go func() { hs <- clientConn.InitiateHandshake(s.version, 1) }()
	// STARTUP must come unframed
	st, raw, err := readLegacyFrame(conn)
	if err != nil {
		viol("client does not open with an unframed STARTUP", fmt.Sprintf("%v %x", err, raw), "")
		return
	}
	startup, ok := st.Body.Message.(*message.Startup)
	if !ok {
		viol("client does not open with STARTUP", show.Frame(st), "")
		return
	}
	if lz != (startup.GetCompression() == primitive.CompressionLz4) {
		viol("STARTUP does not announce the configured compression", fmt.Sprint(startup.Options), "")
	}
	if st.Header.Flags.Contains(primitive.HeaderFlagCompressed) {
		viol("STARTUP is compressed", "", "")
	}
	if !s.auth {
		conn.Write(encodeEnvelope(frame.NewFrame(s.version, st.Header.StreamId, &message.Ready{})))
	} else {
		conn.Write(encodeEnvelope(frame.NewFrame(s.version, st.Header.StreamId, &message.Authenticate{Authenticator: "org.apache.cassandra.auth.PasswordAuthenticator"})))
		seg, err := readRawSegment(conn, lz)
		if err != nil {
			viol("client does not send AUTH_RESPONSE as a well-formed segment after AUTHENTICATE", err.Error(), "")
			return
		}
		f, err := rawCodec.DecodeFrame(bytes.NewReader(seg.payload))
		if err != nil {
			viol("segment sent by the client does not hold a well-formed envelope", err.Error(), "")
			return
		}
		if _, ok := f.Body.Message.(*message.AuthResponse); !ok {
			viol("client does not answer AUTHENTICATE with AUTH_RESPONSE", show.Frame(f), "")
			return
		}
		conn.Write(rawSegment(lz, true, encodeEnvelope(frame.NewFrame(s.version, f.Header.StreamId, &message.AuthSuccess{}))))
	}
	select {
	case err := <-hs:
		if err != nil {
			viol("client-side handshake fails with a specification-conformant raw peer", err.Error(), "")
			return
		}
	case <-time.After(5 * time.Second):
		viol("client-side handshake does not complete with a specification-conformant raw peer", "", "")
		return
	}
	rng := lp.NewRng(*seed*1000 + uint64(scenarioIndex()))
	// (1) what the client puts on the wire
	var inflight []client.InFlightRequest
	var sent []*frame.Frame
	for k := 0; k < 4; k++ {
		g := &gen.G{R: rng, V: s.version}
		f := genFrame(g, c15RequestKinds, int16(400+k))
		if lz && rng.Bool() {
			f.SetCompress(true) // the connection must clear it: envelopes in segments are not individually compressed
		}
		want := wireText(f)
		r, err := clientConn.Send(f)
		if err != nil {
			viol("client refuses to send a version-valid request", err.Error(), want)
			return
		}
		inflight = append(inflight, r)
		sent = append(sent, f)
		seg, err := readRawSegment(conn, lz)
		if err != nil {
			viol("bytes sent by the client are not a well-formed v5 segment", err.Error(), "")
			return
		}
		res.Count("frames/client-to-raw")
		if !seg.selfContained {
			viol("client sends a small envelope in a non-self-contained segment", "", "")
		}
		if len(seg.payload) > 1 && seg.payload[1]&byte(primitive.HeaderFlagCompressed) != 0 {
			viol("envelope inside a v5 segment is individually compressed (COMPRESSED flag set)", fmt.Sprintf("envelope header %x", seg.payload[:minInt(9, len(seg.payload))]), "")
			return
		}
		got, err := rawCodec.DecodeFrame(bytes.NewReader(seg.payload))
		if err != nil {
			viol("segment sent by the client does not hold a well-formed envelope", err.Error(), "")
			return
		}
		if t := wireText(got); t != want {
			viol("request read by the raw peer differs from what the client sent", t, want)
		}
	}
	// (1b) a burst: several requests of tens of kilobytes enqueued one after the other while the peer reads nothing, so that they
	// wait in the outgoing queue TOGETHER; then the peer reads whatever segments come (one envelope per segment or several) and
	// must find every request, whole and in order
	{
		var burst []*frame.Frame
		for k := 0; k < 5; k++ {
			f := bigQuery(s.version, int16(500+k), 30000+rng.Intn(65000), rng)
			if _, err := clientConn.Send(f); err != nil {
				viol("client refuses to send a version-valid request while others are queued", err.Error(), "")
				return
			}
			burst = append(burst, f)
		}
		got := 0
		deadline := time.Now().Add(10 * time.Second)
		for got < len(burst) && time.Now().Before(deadline) {
			conn.SetReadDeadline(time.Now().Add(5 * time.Second))
			seg, err := readRawSegment(conn, lz)
			if err != nil {
				viol(fmt.Sprintf("of %d requests queued together only %d reach the peer: the bytes that follow are not a well-formed v5 segment", len(burst), got), err.Error(), "")
				return
			}
			if !seg.selfContained {
				viol("client sends an envelope that fits one segment in a non-self-contained segment", "", "")
				return
			}
			rd := bytes.NewReader(seg.payload)
			for rd.Len() > 0 && got < len(burst) {
				f, err := rawCodec.DecodeFrame(rd)
				if err != nil {
					viol("segment sent by the client does not hold well-formed envelopes", err.Error(), "")
					return
				}
				if t, want := wireText(f), wireText(burst[got]); t != want {
					viol(fmt.Sprintf("request %d of a burst read by the raw peer differs from what the client sent", got+1), t, want)
					return
				}
				got++
				res.Count("frames/client-to-raw-burst")
			}
		}
		conn.SetReadDeadline(time.Time{})
		if got < len(burst) {
			viol(fmt.Sprintf("of %d requests queued together only %d reach the peer", len(burst), got), "", "")
			return
		}
	}
	expect := func(what string, r client.InFlightRequest, w *frame.Frame) bool {
		var got *frame.Frame
		var err error
		if !within(5*time.Second, func() { got, err = clientConn.Receive(r) }) || err != nil || got == nil {
			viol(what+": response does not reach the matching request", fmt.Sprint(err), wireText(w))
			return false
		}
		res.Count("frames/raw-to-client")
		if t := wireText(got); t != wireText(w) {
			viol(what+": response received by the client differs from what was sent", t, wireText(w))
		}
		return true
	}
	// (2) several envelopes for different requests in one segment, in an order different from the requests'
	var resps []*frame.Frame
	var payload []byte
	order := []int{2, 0, 3}
	for _, k := range order {
		f := genFrame(&gen.G{R: rng, V: s.version}, c15ResponseKinds, sent[k].Header.StreamId)
		resps = append(resps, f)
		payload = append(payload, encodeEnvelope(f)...)
	}
	conn.Write(rawSegment(lz, true, payload))
	for j, k := range order {
		if !expect("3 envelopes in one self-contained segment", inflight[k], resps[j]) {
			return
		}
	}
	// (3) a large response split over segments
	size := 150000 + s.variant*41000
	big := bigRows(s.version, sent[1].Header.StreamId, size, rng)
	env := encodeEnvelope(big)
	splits := c15Splits(len(env), s.variant, rng)
	parts := splits[s.variant%len(splits)]
	off := 0
	for _, p := range parts {
		conn.Write(rawSegment(lz, false, env[off:off+p]))
		off += p
	}
	if !expect(fmt.Sprintf("envelope split over %d segments (first part %s)", len(parts), firstPartClass(parts[0])), inflight[1], big) {
		return
	}
	// a second multi-segment response, of a different size, on the same connection
	{
		f2 := frame.NewFrame(s.version, 451, &message.Options{})
		r2, err := clientConn.Send(f2)
		if err != nil {
			viol("client connection unusable after a multi-segment response", err.Error(), "")
			return
		}
		if _, err := readRawSegment(conn, lz); err != nil {
			viol("bytes sent by the client are not a well-formed v5 segment", err.Error(), "")
			return
		}
		big2 := bigRows(s.version, 451, size-47000+s.variant*13, rng)
		env2 := encodeEnvelope(big2)
		sp2 := c15Splits(len(env2), s.variant+1, rng)
		parts2 := sp2[(s.variant+1)%len(sp2)]
		off2 := 0
		for _, p := range parts2 {
			conn.Write(rawSegment(lz, false, env2[off2:off2+p]))
			off2 += p
		}
		if !expect("second multi-segment envelope of a different size on the same connection", r2, big2) {
			return
		}
	}
	// the connection is still usable afterwards
	f := frame.NewFrame(s.version, 450, &message.Options{})
	r, err := clientConn.Send(f)
	if err != nil {
		viol("client connection unusable after a multi-segment response", err.Error(), "")
		return
	}
	if _, err := readRawSegment(conn, lz); err != nil {
		viol("bytes sent by the client are not a well-formed v5 segment", err.Error(), "")
		return
	}
	sup := frame.NewFrame(s.version, 450, &message.Supported{Options: map[string][]string{"CQL_VERSION": {"3.4.5"}}})
	conn.Write(rawSegment(lz, true, encodeEnvelope(sup)))
	expect("response after a multi-segment response", r, sup)
}

func firstPartClass(n int) string {
	switch {
	case n < 9:
		return "shorter than the envelope header"
	case n == 9:
		return "exactly the envelope header"
	case n == 131071:
		return "a full segment"
	}
	return "of intermediate size"
}
