package main

import (
	"context"
	"crypto/tls"
	"fmt"
	"runtime"
	"sync"
	"sync/atomic"
	"time"

	"github.com/datastax/go-cassandra-native-protocol/client"
	"github.com/datastax/go-cassandra-native-protocol/frame"
	"github.com/datastax/go-cassandra-native-protocol/message"
	"github.com/datastax/go-cassandra-native-protocol/primitive"

	"verif/internal/lp"
)

// C16, part B: scripted sessions between the real client and server over loopback TCP (through a killable proxy) with a
// close / loss injected at every step boundary, from every side, optionally while a sender and a receiver are active.

func init() { modes["C16CONN"] = runC16ConnChild }

var c16Points = []string{"before-connect", "accept-pending", "after-connect", "mid-handshake", "after-handshake", "requests-in-flight", "mid-response", "mid-paging"}
var c16Actors = []string{"client-close", "server-conn-close", "server-close", "network-loss", "client-context-cancel", "client-close-silent-peer"}
var c16Versions = []primitive.ProtocolVersion{primitive.ProtocolVersion4, primitive.ProtocolVersion5, primitive.ProtocolVersionDse2}

type c16Scn struct {
	point, actor string
	version      primitive.ProtocolVersion
	busy         bool // a sender and a receiver are active while the fault is injected
	tls          bool // the connection is a TLS connection (closing it after a reset reports an error)
}

func c16Scenarios() []c16Scn {
	var l []c16Scn
	for _, v := range c16Versions {
		for _, p := range c16Points {
			for _, a := range c16Actors {
				if p == "before-connect" && a != "server-close" {
					continue
				}
				if p == "mid-paging" && v != primitive.ProtocolVersionDse2 {
					continue
				}
				for _, busy := range []bool{false, true} {
					if busy && (p == "before-connect" || p == "accept-pending" || p == "after-connect" || p == "mid-handshake") {
						continue
					}
					l = append(l, c16Scn{p, a, v, busy, false})
				}
				if v == primitive.ProtocolVersion4 && (p == "requests-in-flight" || p == "mid-response") {
					l = append(l, c16Scn{p, a, v, false, true})
				}
			}
		}
	}
	return l
}

func (s c16Scn) String() string {
	t := ""
	if s.tls {
		t = " tls=true"
	}
	return fmt.Sprintf("version=%v fault=%s at=%s busy=%v%s", s.version, s.actor, s.point, s.busy, t)
}

// c16Select: thorough = every scenario; quick = every (point, fault, busy) combination once, versions alternating
func c16Select() []c16Scn {
	scns := c16Scenarios()
	if thorough() {
		return scns
	}
	var q []c16Scn
	seen := map[string]bool{}
	key := func(s c16Scn) string { return s.point + "/" + s.actor + fmt.Sprint(s.busy, s.tls) }
	for _, s := range scns {
		if !seen[key(s)] && ((s.version == primitive.ProtocolVersion5) == (len(q)%2 == 0) || s.point == "mid-paging") {
			seen[key(s)] = true
			q = append(q, s)
		}
	}
	for _, s := range scns {
		if !seen[key(s)] {
			seen[key(s)] = true
			q = append(q, s)
		}
	}
	return q
}

func runC16Conn(res *lp.Result) {
	scns := c16Select()
	runScenarios(res, "C16CONN", len(scns), func(i int) string { return scns[i].String() })
}

func runC16ConnChild(res *lp.Result) {
	scns := c16Select()
	if i := scenarioIndex(); i < len(scns) {
		runC16Scenario(res, scns[i])
	}
}

func pagingFrame(v primitive.ProtocolVersion, streamId int16, page int32, last bool) *frame.Frame {
	m := &message.RowsResult{Metadata: &message.RowsMetadata{ContinuousPageNumber: page, LastContinuousPage: last, ColumnCount: 0}}
	return frame.NewFrame(v, streamId, m)
}

func runC16Scenario(res *lp.Result, s c16Scn) {
	id := s.String()
	res.Case(id, true)
	res.Count("point/" + s.point)
	res.Count("fault/" + s.actor)
	viol := func(what string, detail string) {
		res.Add(lp.Finding{Kind: "violation", What: what, Input: id, Impl: detail})
	}
	runtime.GC()
	base := runtime.NumGoroutine()

	var srvTLS, clTLS *tls.Config
	if s.tls {
		srvTLS, clTLS = selfSignedTLS()
	}
	srv, addr, srvCancel := startServerTLS(srvTLS, nil)
	defer srvCancel()
	px, paddr := startProxy(addr)
	defer px.stop()

	var clientConn *client.CqlClientConnection
	var serverConn *client.CqlServerConnection
	clientCtx, clientCancel := context.WithCancel(context.Background())
	defer clientCancel()
	var pending []client.InFlightRequest
	var stopBusy int32
	var busyWG sync.WaitGroup
	var sendPanics, recvStuck int32

	inject := func() {
		switch s.actor {
		case "client-close":
			if clientConn != nil {
				if !within(5*time.Second, func() { clientConn.Close() }) {
					viol("Close does not return: client connection", goroutineDump())
				}
			}
		case "client-close-silent-peer":
			// the peer neither answers nor closes (a hung server, a peer lost without FIN or RST): nothing the client sends from now
			// on is even read. Close must not wait for the peer.
			if clientConn != nil {
				px.hold()
				if !within(5*time.Second, func() { clientConn.Close() }) {
					viol("Close does not return: client connection whose peer has gone silent", goroutineDump())
				}
				px.release()
			}
		case "server-conn-close":
			if serverConn != nil {
				if !within(5*time.Second, func() { serverConn.Close() }) {
					viol("Close does not return: server connection", goroutineDump())
				}
			}
		case "server-close":
			if !within(5*time.Second, func() { srv.Close() }) {
				viol("Close does not return: server", goroutineDump())
			}
		case "network-loss":
			px.kill()
		case "client-context-cancel":
			clientCancel()
		}
	}

	// --- the scripted session, with the fault at the chosen point
	if s.point == "before-connect" {
		inject()
	} else {
		cl := newClient(paddr, nil, primitive.CompressionNone, 20*time.Second)
		cl.MaxInFlight = 2048
		cl.TLSConfig = clTLS
		var err error
		clientConn, err = cl.Connect(clientCtx)
		if err != nil {
			res.Add(lp.Finding{Kind: "harness", What: "cannot connect", Input: id, Impl: err.Error()})
			return
		}
		if s.point == "accept-pending" {
			// the application waits in Accept for THIS client's connection (which the server knows under another address — the proxy
			// stands between them — so the wait is still going on) when the fault comes
			acc := make(chan error, 1)
			go func() { _, err := srv.Accept(clientConn); acc <- err }()
			time.Sleep(100 * time.Millisecond)
			inject()
			select {
			case <-acc:
			case <-time.After(8 * time.Second):
				viol("blocked caller does not return after the fault: Accept", goroutineDump())
			}
			if s.actor != "server-close" {
				if !within(5*time.Second, func() { srv.Close() }) {
					viol("Close does not return: server", goroutineDump())
				}
			}
			clientConn.Close()
			return
		}
		serverConn, err = srv.AcceptAny()
		if err != nil {
			res.Add(lp.Finding{Kind: "harness", What: "server did not accept", Input: id, Impl: err.Error()})
			return
		}
		switch s.point {
		case "after-connect":
			inject()
		case "mid-handshake":
			hs := make(chan error, 1)
			go func() { hs <- clientConn.InitiateHandshake(s.version, 1) }()
			// the server has the STARTUP but does not answer
			if !within(3*time.Second, func() { serverConn.Receive() }) {
				viol("server does not receive STARTUP", "")
			}
			inject()
			select {
			case err := <-hs:
				if err == nil {
					viol("handshake reports success although the connection was closed before any reply", "")
				}
			case <-time.After(5 * time.Second):
				viol("blocked caller does not return after the fault: InitiateHandshake", goroutineDump())
			}
		default:
			if err := client.PerformHandshake(clientConn, serverConn, s.version, 1); err != nil {
				res.Add(lp.Finding{Kind: "harness", What: "handshake failed", Input: id, Impl: err.Error()})
				return
			}
			if s.busy {
				// a sender that keeps sending and a receiver blocked on a request that is never answered
				busyWG.Add(1)
				go func() {
					defer busyWG.Done()
					defer func() {
						if r := recover(); r != nil {
							atomic.AddInt32(&sendPanics, 1)
							viol("Send panics during close: "+firstWords(fmt.Sprint(r)), "")
						}
					}()
					for k := 0; atomic.LoadInt32(&stopBusy) == 0 && k < 100000; k++ {
						f := frame.NewFrame(s.version, int16(1000+k%20000), &message.Options{})
						clientConn.Send(f)
						if k%8 == 0 {
							time.Sleep(time.Millisecond)
						}
					}
				}()
				blocked, err := clientConn.Send(frame.NewFrame(s.version, 77, &message.Options{}))
				if err == nil {
					busyWG.Add(1)
					go func() {
						defer busyWG.Done()
						done := make(chan struct{})
						go func() { clientConn.Receive(blocked); close(done) }()
						select {
						case <-done:
						case <-time.After(12 * time.Second):
							atomic.AddInt32(&recvStuck, 1)
						}
					}()
				}
				// the server drains what it gets so that the sender is not throttled by the server's queue only
				busyWG.Add(1)
				go func() {
					defer busyWG.Done()
					for atomic.LoadInt32(&stopBusy) == 0 {
						f, err := serverConn.Receive()
						if err != nil || f == nil {
							return
						}
						if f.Header.StreamId >= 1000 {
							// the busy sender's requests are answered so that they do not fill the in-flight table
							serverConn.Send(frame.NewFrame(s.version, f.Header.StreamId, &message.Supported{}))
						}
					}
				}()
				time.Sleep(30 * time.Millisecond)
			}
			if s.point != "after-handshake" {
				// three requests in flight
				for k := 0; k < 3; k++ {
					f := frame.NewFrame(s.version, int16(10+k), &message.Query{Query: fmt.Sprintf("SELECT %d", k)})
					req, err := clientConn.Send(f)
					if err != nil {
						res.Add(lp.Finding{Kind: "harness", What: "send failed", Input: id, Impl: err.Error()})
						return
					}
					pending = append(pending, req)
				}
				if !s.busy {
					for k := 0; k < 3; k++ {
						if !within(3*time.Second, func() { serverConn.Receive() }) {
							viol("request frame does not reach the server", "")
						}
					}
				} else {
					time.Sleep(50 * time.Millisecond)
				}
			}
			switch s.point {
			case "mid-response":
				serverConn.Send(frame.NewFrame(s.version, 10, &message.VoidResult{}))
				if f, err := clientConn.Receive(pending[0]); err != nil || f == nil {
					viol("response does not reach its request", fmt.Sprint(err))
				}
				pending = pending[1:]
			case "mid-paging":
				serverConn.Send(pagingFrame(s.version, 10, 1, false))
				serverConn.Send(pagingFrame(s.version, 10, 2, false))
				if f, err := clientConn.Receive(pending[0]); err != nil || f == nil {
					viol("first page does not reach its request", fmt.Sprint(err))
				}
			}
			inject()
		}
	}

	// --- after the fault
	// every request still awaiting a response completes: channel closed, non-nil error
	deadline := time.Now().Add(4 * time.Second)
	for _, r := range pending {
		for !r.IsDone() && time.Now().Before(deadline) {
			time.Sleep(10 * time.Millisecond)
		}
		if !r.IsDone() {
			viol("request still awaiting a response is not completed after the fault", fmt.Sprintf("stream id %d", r.StreamId()))
			continue
		}
		if r.Err() == nil {
			viol("request completed without an error after the fault", fmt.Sprintf("stream id %d", r.StreamId()))
		}
		// the channel is closed: draining it ends
		if !within(2*time.Second, func() {
			for range r.Incoming() {
			}
		}) {
			viol("request channel is not closed after the fault", fmt.Sprintf("stream id %d", r.StreamId()))
		}
	}
	atomic.StoreInt32(&stopBusy, 1)
	// the client connection notices (its own close, or the loss of the peer) and refuses later sends
	if clientConn != nil {
		for !clientConn.IsClosed() && time.Now().Before(deadline) {
			time.Sleep(10 * time.Millisecond)
		}
		if !clientConn.IsClosed() {
			viol("client connection is not closed after the fault", goroutineDump())
		} else {
			func() {
				defer func() {
					if r := recover(); r != nil {
						viol("Send panics on a closed connection: "+firstWords(fmt.Sprint(r)), "")
					}
				}()
				if _, err := clientConn.Send(frame.NewFrame(s.version, 99, &message.Options{})); err == nil {
					viol("send on a closed client connection is not refused", "")
				}
			}()
		}
	}
	// everything closes, in bounded time, any number of times
	if clientConn != nil && !within(5*time.Second, func() { clientConn.Close(); clientConn.Close() }) {
		viol("Close does not return: client connection", goroutineDump())
	}
	if serverConn != nil && !within(5*time.Second, func() { serverConn.Close(); serverConn.Close() }) {
		viol("Close does not return: server connection", goroutineDump())
	}
	if !within(5*time.Second, func() { srv.Close(); srv.Close() }) {
		viol("Close does not return: server", goroutineDump())
	}
	if !within(15*time.Second, func() { busyWG.Wait() }) || atomic.LoadInt32(&recvStuck) > 0 {
		viol("blocked caller does not return after the fault: Receive", goroutineDump())
	}
	px.stop()
	clientCancel()
	srvCancel()
	if n := goroutinesSettle(base, 4*time.Second); n > base {
		viol("goroutines of the connection survive the close", fmt.Sprintf("%d goroutines before, %d after: %s", base, n, goroutineDump()))
	}
}
