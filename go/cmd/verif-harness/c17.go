package main

import (
	"encoding/json"
	"fmt"
	"os"
	"path/filepath"
	"reflect"
	"sort"
	"strings"
	"unsafe"

	"github.com/datastax/go-cassandra-native-protocol/datatype"
	"github.com/datastax/go-cassandra-native-protocol/frame"
	"github.com/datastax/go-cassandra-native-protocol/message"
	"github.com/datastax/go-cassandra-native-protocol/primitive"
	"github.com/datastax/go-cassandra-native-protocol/segment"

	"verif/internal/lp"
)

// C17: reflective walk over the real DeepCopy methods. For every type with a deep-copy operation a value is populated
// (every field, nested pointers, slices of slices, maps of slices; variants with nils, empty containers and other interface
// implementations), copied, and
//   (1) the copy must be reflect.DeepEqual to the original;
//   (2) no pointer, slice backing array or map reachable from the copy may be reachable from the original — the positions at
//       which they are shared, as type-level paths, are compared with the paths the Lean model predicts from the regenerated
//       shapes and plans (`dc aliased`; none on a correct tree);
//   (3) every settable location reachable from the copy is changed and the original must still equal a pristine twin, and the
//       reverse.

func init() { modes["C17"] = runC17 }

var c17Types = []interface{}{
	&datatype.Custom{}, &datatype.List{}, &datatype.Map{}, &datatype.PrimitiveType{}, &datatype.Set{}, &datatype.Tuple{}, &datatype.UserDefined{},
	&frame.Body{}, &frame.Frame{}, &frame.Header{}, &frame.RawFrame{},
	&message.AlreadyExists{}, &message.AuthChallenge{}, &message.AuthResponse{}, &message.AuthSuccess{}, &message.Authenticate{},
	&message.AuthenticationError{}, &message.Batch{}, &message.BatchChild{}, &message.ColumnMetadata{}, &message.ConfigError{},
	&message.ContinuousPagingOptions{}, &message.Execute{}, &message.FunctionFailure{}, &message.Invalid{}, &message.IsBootstrapping{},
	&message.Options{}, &message.Overloaded{}, &message.Prepare{}, &message.PreparedResult{}, &message.ProtocolError{}, &message.Query{},
	&message.QueryOptions{}, &message.ReadFailure{}, &message.ReadTimeout{}, &message.Ready{}, &message.Register{}, &message.Revise{},
	&message.RowsMetadata{}, &message.RowsResult{}, &message.SchemaChangeEvent{}, &message.SchemaChangeResult{}, &message.ServerError{},
	&message.SetKeyspaceResult{}, &message.Startup{}, &message.StatusChangeEvent{}, &message.Supported{}, &message.SyntaxError{},
	&message.TopologyChangeEvent{}, &message.TruncateError{}, &message.Unauthorized{}, &message.Unavailable{}, &message.Unprepared{},
	&message.VariablesMetadata{}, &message.VoidResult{}, &message.WriteFailure{}, &message.WriteTimeout{},
	&primitive.FailureReason{}, &primitive.Inet{}, &primitive.Value{}, &primitive.UUID{},
	&segment.Header{}, &segment.Payload{}, &segment.Segment{},
}

var (
	messageIface  = reflect.TypeOf((*message.Message)(nil)).Elem()
	dataTypeIface = reflect.TypeOf((*datatype.DataType)(nil)).Elem()
)

type populator struct {
	rng     *lp.Rng
	full    bool // every pointer non-nil, every container with 2 elements
	counter int
	msgs    []reflect.Type
	dts     []reflect.Type
}

func settable(v reflect.Value) reflect.Value {
	if v.CanSet() {
		return v
	}
	return reflect.NewAt(v.Type(), unsafe.Pointer(v.UnsafeAddr())).Elem()
}

func (p *populator) fill(v reflect.Value, depth int) {
	v = settable(v)
	p.counter++
	switch v.Kind() {
	case reflect.Bool:
		v.SetBool(p.counter%2 == 0)
	case reflect.Int, reflect.Int8, reflect.Int16, reflect.Int32, reflect.Int64:
		if p.counter%3 != 0 {
			// an integer field is often a code (value type −2/−1/0, consistency, …): the small numbers around zero are the declared
			// ones — a copy routine that treats some code specially is only exercised when that code occurs
			v.SetInt([]int64{-2, -1, 0, 1, 2, 3}[p.rng.Intn(6)])
			break
		}
		v.SetInt(int64(p.counter%100 + 1))
	case reflect.Uint, reflect.Uint8, reflect.Uint16, reflect.Uint32, reflect.Uint64:
		v.SetUint(uint64(p.counter%100 + 1))
	case reflect.String:
		v.SetString(fmt.Sprintf("s%d", p.counter))
	case reflect.Array:
		for i := 0; i < v.Len(); i++ {
			p.fill(v.Index(i), depth)
		}
	case reflect.Ptr:
		if !p.full && p.rng.Intn(4) == 0 {
			return
		}
		n := reflect.New(v.Type().Elem())
		p.fill(n.Elem(), depth+1)
		v.Set(n)
	case reflect.Slice:
		n := 2
		if !p.full {
			n = p.rng.Intn(4) - 1 // -1 = nil, 0 = empty
		}
		if n < 0 {
			return
		}
		s := reflect.MakeSlice(v.Type(), n, n+p.counter%2)
		for i := 0; i < n; i++ {
			p.fill(s.Index(i), depth+1)
		}
		v.Set(s)
	case reflect.Map:
		n := 2
		if !p.full {
			n = p.rng.Intn(4) - 1
		}
		if n < 0 {
			return
		}
		m := reflect.MakeMap(v.Type())
		for i := 0; i < n; i++ {
			k := reflect.New(v.Type().Key()).Elem()
			p.fill(k, depth+1)
			e := reflect.New(v.Type().Elem()).Elem()
			if p.full || p.rng.Intn(4) != 0 {
				p.fill(e, depth+1)
			}
			m.SetMapIndex(k, e)
		}
		v.Set(m)
	case reflect.Struct:
		for i := 0; i < v.NumField(); i++ {
			p.fill(v.Field(i), depth)
		}
	case reflect.Interface:
		var impls []reflect.Type
		switch v.Type() {
		case messageIface:
			impls = p.msgs
		case dataTypeIface:
			impls = p.dts
			if depth > 6 {
				impls = []reflect.Type{reflect.TypeOf(datatype.PrimitiveType{})}
			}
		default:
			panic("C17 harness: unknown interface type " + v.Type().String())
		}
		if !p.full && p.rng.Intn(5) == 0 {
			return
		}
		t := impls[p.rng.Intn(len(impls))]
		n := reflect.New(t)
		p.fill(n.Elem(), depth+2)
		v.Set(n)
	default:
		panic("C17 harness: unsupported kind " + v.Kind().String() + " in " + v.Type().String())
	}
}

// hasDeepCopyInto: the named struct types at which the model's type-level paths restart
func hasDeepCopyInto(t reflect.Type) bool {
	if t.Kind() != reflect.Struct || t.Name() == "" {
		return false
	}
	_, ok := reflect.PtrTo(t).MethodByName("DeepCopyInto")
	return ok
}

func typeLabel(t reflect.Type) string {
	pk := t.PkgPath()
	return pk[strings.LastIndex(pk, "/")+1:] + "." + t.Name()
}

func refAddr(v reflect.Value) uintptr {
	switch v.Kind() {
	case reflect.Ptr, reflect.Map:
		return v.Pointer()
	case reflect.Slice:
		if v.Cap() == 0 {
			return 0 // zero-capacity slices own no memory
		}
		return v.Pointer()
	}
	return 0
}

// sharedPaths walks original and copy in parallel and reports the type-level positions whose reference is the same in both
func sharedPaths(o, c reflect.Value, path string, out map[string]bool) {
	if o.Kind() != c.Kind() {
		out[path+"!shape"] = true
		return
	}
	switch o.Kind() {
	case reflect.Ptr:
		if o.IsNil() || c.IsNil() {
			return
		}
		if o.Pointer() == c.Pointer() && o.Type().Elem().Size() > 0 {
			// (all pointers to zero-size values, e.g. &message.Ready{}, are equal in Go: they refer to no memory)
			out[path] = true
			return
		}
		if hasDeepCopyInto(o.Type().Elem()) {
			sharedPaths(o.Elem(), c.Elem(), "", out)
		} else {
			sharedPaths(o.Elem(), c.Elem(), path+"*", out)
		}
	case reflect.Slice:
		if o.IsNil() || c.IsNil() || o.Len() != c.Len() {
			return
		}
		if o.Cap() > 0 && c.Cap() > 0 && o.Pointer() == c.Pointer() {
			out[path] = true
			return
		}
		for i := 0; i < o.Len(); i++ {
			sharedPaths(o.Index(i), c.Index(i), path+"[]", out)
		}
	case reflect.Map:
		if o.IsNil() || c.IsNil() {
			return
		}
		if o.Pointer() == c.Pointer() {
			out[path] = true
			return
		}
		for _, k := range o.MapKeys() {
			cv := c.MapIndex(k)
			if cv.IsValid() {
				sharedPaths(o.MapIndex(k), cv, path+"{}", out)
			}
		}
	case reflect.Interface:
		if o.IsNil() || c.IsNil() {
			return
		}
		oe, ce := o.Elem(), c.Elem()
		if oe.Kind() == reflect.Ptr && ce.Kind() == reflect.Ptr {
			if oe.Pointer() == ce.Pointer() && oe.Type().Elem().Size() > 0 {
				out[path] = true
				return
			}
			if oe.Type() == ce.Type() {
				sharedPaths(oe.Elem(), ce.Elem(), "", out)
			}
		}
	case reflect.Struct:
		named := hasDeepCopyInto(o.Type())
		for i := 0; i < o.NumField(); i++ {
			if named {
				sharedPaths(o.Field(i), c.Field(i), typeLabel(o.Type())+"."+o.Type().Field(i).Name, out)
			} else {
				sharedPaths(o.Field(i), c.Field(i), fmt.Sprintf("%s.%d", path, i), out)
			}
		}
	}
}

// allRefs collects every owned memory reference reachable from v
func allRefs(v reflect.Value, out map[uintptr]bool) {
	switch v.Kind() {
	case reflect.Ptr:
		if !v.IsNil() {
			if v.Type().Elem().Size() > 0 {
				out[v.Pointer()] = true
			}
			allRefs(v.Elem(), out)
		}
	case reflect.Slice:
		if a := refAddr(v); a != 0 {
			out[a] = true
		}
		for i := 0; i < v.Len(); i++ {
			allRefs(v.Index(i), out)
		}
	case reflect.Map:
		if !v.IsNil() {
			out[v.Pointer()] = true
			for _, k := range v.MapKeys() {
				allRefs(v.MapIndex(k), out)
			}
		}
	case reflect.Interface:
		if !v.IsNil() {
			allRefs(v.Elem(), out)
		}
	case reflect.Struct:
		for i := 0; i < v.NumField(); i++ {
			allRefs(v.Field(i), out)
		}
	}
}

// mutateAll changes every settable scalar reachable from v (bytes, slice elements, map entries, fields of nested structures)
func mutateAll(v reflect.Value) int {
	n := 0
	switch v.Kind() {
	case reflect.Bool:
		if v.CanAddr() {
			settable(v).SetBool(!v.Bool())
			n++
		}
	case reflect.Int, reflect.Int8, reflect.Int16, reflect.Int32, reflect.Int64:
		if v.CanAddr() {
			settable(v).SetInt(v.Int() ^ 0x55)
			n++
		}
	case reflect.Uint, reflect.Uint8, reflect.Uint16, reflect.Uint32, reflect.Uint64:
		if v.CanAddr() {
			settable(v).SetUint(v.Uint() ^ 0x55)
			n++
		}
	case reflect.String:
		if v.CanAddr() {
			settable(v).SetString(v.String() + "!")
			n++
		}
	case reflect.Array:
		for i := 0; i < v.Len(); i++ {
			n += mutateAll(v.Index(i))
		}
	case reflect.Ptr:
		if !v.IsNil() {
			n += mutateAll(v.Elem())
		}
	case reflect.Slice:
		for i := 0; i < v.Len(); i++ {
			n += mutateAll(v.Index(i))
		}
	case reflect.Map:
		if !v.IsNil() {
			for _, k := range v.MapKeys() {
				e := v.MapIndex(k)
				// map values are not addressable: replace the entry by a mutated shallow copy and mutate what it refers to
				ne := reflect.New(e.Type()).Elem()
				ne.Set(e)
				n += mutateAll(ne)
				v.SetMapIndex(k, ne)
			}
			// and add an entry
			k := reflect.New(v.Type().Key()).Elem()
			if k.Kind() == reflect.String {
				k.SetString("added-by-C17")
				v.SetMapIndex(k, reflect.New(v.Type().Elem()).Elem())
				n++
			}
		}
	case reflect.Interface:
		if !v.IsNil() {
			n += mutateAll(v.Elem())
		}
	case reflect.Struct:
		for i := 0; i < v.NumField(); i++ {
			n += mutateAll(v.Field(i))
		}
	}
	return n
}

func deepCopyOf(v reflect.Value) (res reflect.Value, perr string) {
	defer func() {
		if r := recover(); r != nil {
			perr = fmt.Sprint(r)
		}
	}()
	m := v.MethodByName("DeepCopy")
	out := m.Call(nil)
	return out[0], ""
}

func runC17(res *lp.Result) {
	res.Rule = "every type with a DeepCopy method (all messages, frame/raw frame/header/body, segment parts, data types, Value, Inet, " +
		"FailureReason, UUID) x populated values (one fully populated variant + random variants with nil pointers, nil/empty slices and " +
		"maps, nil map values, varying interface implementations); per value: DeepEqual, parallel walk for shared references, global " +
		"reference-set intersection, mutation of every reachable scalar in copy/original. Non-trivial = the value owns at least one reference."
	rng := lp.NewRng(*seed)
	var msgs, dts []reflect.Type
	known := map[string]bool{}
	for _, x := range c17Types {
		t := reflect.TypeOf(x).Elem()
		known[typeLabel(t)] = true
		if reflect.PtrTo(t).Implements(messageIface) {
			msgs = append(msgs, t)
		}
		if reflect.PtrTo(t).Implements(dataTypeIface) {
			dts = append(dts, t)
		}
	}
	// the translator's list of types: report types this harness does not know (they are still covered by the theorem)
	if js, err := os.ReadFile(filepath.Join(filepath.Dir(filepath.Dir(*driverPath)), "..", "..", "Cql", "Gen", "deepcopy.json")); err == nil {
		var side struct {
			Types       []string `json:"types"`
			Handwritten []string `json:"handwritten"`
		}
		if json.Unmarshal(js, &side) == nil {
			for _, t := range append(side.Types, side.Handwritten...) {
				if !known[t] {
					res.Notes = append(res.Notes, "type "+t+" has a deep copy but is not in the harness registry (covered by the theorem only)")
				}
			}
		}
	}
	variants := 12
	if thorough() {
		variants = 300
	}
	shared := map[string]bool{}
	sharedExample := map[string]string{}
	for _, x := range c17Types {
		t := reflect.TypeOf(x).Elem()
		for k := 0; k < variants; k++ {
			sub := rng.U64()
			build := func() reflect.Value {
				p := &populator{rng: lp.NewRng(sub), full: k == 0, msgs: msgs, dts: dts}
				v := reflect.New(t)
				p.fill(v.Elem(), 0)
				return v
			}
			orig, pristine := build(), build()
			id := fmt.Sprintf("%s variant=%d sub=%d", typeLabel(t), k, sub)
			refs := map[uintptr]bool{}
			allRefs(orig.Elem(), refs)
			res.Case(fmt.Sprintf("%s/%d/%d", typeLabel(t), k, len(refs)), len(refs) > 0)
			res.Count("type/" + typeLabel(t))
			if !reflect.DeepEqual(orig.Interface(), pristine.Interface()) {
				res.Add(lp.Finding{Kind: "harness", What: "populator is not deterministic", Input: id})
				continue
			}
			cp, perr := deepCopyOf(orig)
			if perr != "" {
				res.Add(lp.Finding{Kind: "violation", What: "DeepCopy panics: " + firstWords(perr), Input: id})
				continue
			}
			if !reflect.DeepEqual(cp.Interface(), orig.Interface()) {
				res.Add(lp.Finding{Kind: "violation", What: "deep copy of " + typeLabel(t) + " is not equal to its original", Input: id,
					Impl: trunc(fmt.Sprintf("%+v", cp.Interface())), Model: trunc(fmt.Sprintf("%+v", orig.Interface()))})
				continue
			}
			// DeepCopyInto a target that is in use (a pooled object that holds an earlier value with every field set): afterwards it
			// must equal the original — nothing of the earlier value may show through
			if m := orig.MethodByName("DeepCopyInto"); m.IsValid() && m.Type().NumIn() == 1 && m.Type().In(0) == orig.Type() {
				tp := &populator{rng: lp.NewRng(sub ^ 0x9e3779b97f4a7c15), full: true, msgs: msgs, dts: dts}
				target := reflect.New(t)
				tp.fill(target.Elem(), 0)
				perr := ""
				func() {
					defer func() {
						if r := recover(); r != nil {
							perr = fmt.Sprint(r)
						}
					}()
					m.Call([]reflect.Value{target})
				}()
				res.Count("deep-copy-into-used-target")
				if perr != "" {
					res.Add(lp.Finding{Kind: "violation", What: "DeepCopyInto panics: " + firstWords(perr), Input: id})
				} else if !reflect.DeepEqual(target.Interface(), orig.Interface()) {
					res.Add(lp.Finding{Kind: "violation", What: "DeepCopyInto a " + typeLabel(t) + " that already holds a value does not make it equal to the original (parts of the old value remain)", Input: id,
						Impl: trunc(fmt.Sprintf("%+v", target.Interface())), Model: trunc(fmt.Sprintf("%+v", orig.Interface()))})
				}
			}
			// shared references, position by position
			here := map[string]bool{}
			sharedPaths(orig.Elem(), cp.Elem(), "", here)
			for pth := range here {
				if !shared[pth] {
					shared[pth] = true
					sharedExample[pth] = id
				}
			}
			// … and anywhere
			crefs := map[uintptr]bool{}
			allRefs(cp.Elem(), crefs)
			if cp.Pointer() == orig.Pointer() {
				here["(the receiver itself)"] = true
			}
			nshared := 0
			for a := range crefs {
				if refs[a] {
					nshared++
				}
			}
			if nshared > 0 && len(here) == 0 {
				res.Add(lp.Finding{Kind: "violation", What: "deep copy of " + typeLabel(t) + " shares memory with its original (at different positions)", Input: id})
			}
			// writes through the copy are not seen by the original, and the reverse
			nm := mutateAll(cp.Elem())
			res.Count(fmt.Sprintf("mutated-locations/%d", minInt(nm/10*10, 200)))
			if !reflect.DeepEqual(orig.Interface(), pristine.Interface()) {
				res.Add(lp.Finding{Kind: "violation", What: "changing the deep copy of " + typeLabel(t) + " changes the original (" + pathList(here) + ")", Input: id})
				continue
			}
			cp2, _ := deepCopyOf(orig)
			mutateAll(orig.Elem())
			if !reflect.DeepEqual(cp2.Interface(), pristine.Interface()) {
				res.Add(lp.Finding{Kind: "violation", What: "changing the original of " + typeLabel(t) + " changes its deep copy (" + pathList(here) + ")", Input: id})
			}
		}
	}
	// model: predicted shared positions
	answers, err := lp.Ask(*driverPath, []string{"dc aliased", "dc covered"})
	if err != nil || len(answers) != 2 {
		res.Add(lp.Finding{Kind: "disagreement", What: "driver failure on dc aliased"})
		return
	}
	predicted := map[string]bool{}
	if answers[0] != "-" {
		for _, p := range strings.Split(answers[0], ",") {
			predicted[p] = true
		}
	}
	for p := range shared {
		what := "deep copy shares memory with its original at " + p
		if predicted[p] {
			res.Add(lp.Finding{Kind: "violation", What: what + " (as the model predicts from the copy code)", Input: sharedExample[p]})
		} else {
			res.Add(lp.Finding{Kind: "violation", What: what + " (NOT predicted by the model: translator or model wrong as well)", Input: sharedExample[p]})
		}
	}
	for p := range predicted {
		if !shared[p] {
			res.Add(lp.Finding{Kind: "disagreement", What: "model predicts shared memory at " + p + " but no populated value exhibits it", Model: answers[0]})
		}
	}
	if (answers[1] == "true") != (len(predicted) == 0) {
		res.Add(lp.Finding{Kind: "disagreement", What: "model: coverage check and predicted paths disagree", Model: strings.Join(answers, " / ")})
	}
}

func pathList(m map[string]bool) string {
	var l []string
	for p := range m {
		l = append(l, p)
	}
	sort.Strings(l)
	if len(l) == 0 {
		return "no shared position found by the parallel walk"
	}
	return "shared: " + strings.Join(l, ", ")
}
