package main

import (
	"bytes"
	"encoding/hex"
	"fmt"
	"strings"

	"github.com/datastax/go-cassandra-native-protocol/frame"
	"github.com/datastax/go-cassandra-native-protocol/message"
	"github.com/datastax/go-cassandra-native-protocol/primitive"

	"verif/internal/gen"
	"verif/internal/lp"
	"verif/internal/show"
)

// C02: the bytes the real encoder emits are compared with the bytes the specification-shaped Lean functions
// (Cql/Spec/*.lean, written from specs/*.spec) lay out for the same frame; all 2^16 (version byte, opcode) header
// combinations are decoded by the real decoder and judged against the documents' opcode tables; a few hand-written
// specification-formatted frames (taken from the documents) must decode.

func init() { modes["C02"] = runC02 }

func be16(n int) []byte { return []byte{byte(n >> 8), byte(n)} }
func be32(n int) []byte { return []byte{byte(n >> 24), byte(n >> 16), byte(n >> 8), byte(n)} }
func specString(s string) []byte { return append(be16(len(s)), s...) }

func specFrame(versionByte byte, v primitive.ProtocolVersion, opcode byte, body []byte) []byte {
	var b []byte
	b = append(b, versionByte, 0)
	if v >= primitive.ProtocolVersion3 {
		b = append(b, 0, 1)
	} else {
		b = append(b, 1)
	}
	b = append(b, opcode)
	b = append(b, be32(len(body))...)
	return append(b, body...)
}

func runC02(res *lp.Result) {
	res.Rule = "generated version-valid frames (every message kind x 6 versions, uncompressed, random optional-field subsets and sizes): " +
		"bytes of the real encoder = bytes the specification-shaped model lays out for the decoded frame; all 65536 (version byte, opcode) " +
		"pairs through DecodeHeader/DecodeFrame against the documents' version and opcode tables; hand-written specification-formatted " +
		"frames must decode. Non-trivial = frame with a non-empty body; distinct by encoded bytes."
	rng := lp.NewRng(*seed)
	per := 8
	if thorough() {
		per = 150
	}
	codec := frame.NewRawCodec()
	var lines, expect, descr []string
	ask := func(l, want, d string) { lines = append(lines, l); expect = append(expect, want); descr = append(descr, d) }
	for _, v := range gen.Versions {
		for _, kind := range gen.Kinds {
			for i := 0; i < per+1; i++ {
				g := &gen.G{R: rng, V: v, Big: rng.Intn(8) == 0}
				f := g.Frame(kind)
				if f == nil {
					continue
				}
				if i == per && !g.Enlarge(f) { // one frame per kind whose lists have more than 1024 entries
					continue
				}
				id := fmt.Sprintf("v=%d kind=%s seed=%d i=%d", v, kind, *seed, i)
				orig := f.DeepCopy()
				var buf bytes.Buffer
				if err := codec.EncodeFrame(f, &buf); err != nil {
					res.Add(lp.Finding{Kind: "violation", What: "version-valid frame refused by the encoder: " + firstWords(err.Error()), Input: id + " " + show.Frame(f)})
					continue
				}
				enc := append([]byte{}, buf.Bytes()...)
				// the bytes must denote THIS frame: what they denote is read off by the decoder (the model reads them the same way —
				// the `frame dec` line below — and its reading is the specification's by C02_spec_bytes_decode)
				if dec, err := codec.DecodeFrame(bytes.NewReader(enc)); err == nil {
					if want, got := show.Frame(show.Normalize(orig)), show.Frame(show.Normalize(dec)); want != got {
						res.Add(lp.Finding{Kind: "violation", What: "emitted bytes denote a different message than the frame that was encoded (" + kind + ")",
							Input: id + " bytes=" + hx(enc), Impl: "bytes denote: " + trunc(got), Model: "frame encoded: " + trunc(want)})
					}
					ask("frame dec none "+hx(enc), fmt.Sprintf("ok %d %s", len(enc), show.Frame(dec)), id+" "+show.Frame(f))
					// what the bytes denote does not depend on how the source hands them over (piecewise, several frames in one buffer)
					otherSources(res, rng, compSettings()[0], enc, nil, show.Frame(dec), id)
				} else {
					res.Add(lp.Finding{Kind: "violation", What: "emitted bytes are not decoded back: " + firstWords(err.Error()), Input: id + " bytes=" + hx(enc)})
				}
				res.Case(hx(enc), len(enc) > headerLen(v))
				res.Count("kind/" + kind)
				res.Count(fmt.Sprintf("version/%d", v))
				ask("spec frame "+hx(enc), "ok "+hx(enc), id+" "+show.Frame(f))
			}
		}
	}
	// model answers: a difference is a violation of C02 with the frame as the failing input (the specification-shaped
	// function is the oracle), unless the model cannot even decode the bytes (then it is a correspondence failure)
	answers, err := lp.Ask(*driverPath, lines)
	if err != nil {
		res.Add(lp.Finding{Kind: "disagreement", What: "driver failure: " + err.Error()})
		return
	}
	nd := 0
	for i, a := range answers {
		if a == expect[i] || nd >= 25 {
			continue
		}
		nd++
		if strings.HasPrefix(lines[i], "frame dec ") {
			res.Add(lp.Finding{Kind: "disagreement", What: "model and implementation read the emitted bytes differently (" + firstWord(descr[i]) + ")",
				Input: descr[i], Impl: trunc(expect[i]), Model: trunc(a)})
			continue
		}
		if !strings.HasPrefix(a, "ok ") {
			res.Add(lp.Finding{Kind: "disagreement", What: "model cannot decode a frame the implementation emitted (" + firstWord(descr[i]) + ")",
				Input: descr[i], Impl: trunc(expect[i]), Model: trunc(a)})
			continue
		}
		res.Add(lp.Finding{Kind: "violation", What: "emitted bytes differ from the specification's layout (" + kindOf(descr[i]) + ")",
			Input: descr[i], Impl: trunc(firstDiff(expect[i][3:], a[3:])), Model: "specification: " + trunc(a[3:])})
	}

	// header rejection: all 2^16 combinations
	lines, expect, descr = nil, nil, nil
	hdrCodec := frame.NewRawCodec()
	type hres struct{ hdrOk, frameOk bool }
	results := make([]hres, 65536)
	for b0 := 0; b0 < 256; b0++ {
		for op := 0; op < 256; op++ {
			v := primitive.ProtocolVersion(b0 & 0x7f)
			var h []byte
			if v <= primitive.ProtocolVersion2 { // 1-byte stream id (also what the decoder assumes for unknown low versions)
				h = []byte{byte(b0), 0, 1, byte(op), 0, 0, 0, 0}
			} else {
				h = []byte{byte(b0), 0, 0, 1, byte(op), 0, 0, 0, 0}
			}
			// enough zero bytes for any decoder to read a header, whatever width it assumes
			in := append(append([]byte{}, h...), make([]byte, 4)...)
			_, e1 := hdrCodec.DecodeHeader(bytes.NewReader(in))
			// a frame with an empty body: message decoding may fail for other reasons, so only the header judgement is compared,
			// but the error must come (for bad headers) no later than DecodeFrame
			_, e2 := hdrCodec.DecodeFrame(bytes.NewReader(in))
			results[b0<<8|op] = hres{e1 == nil, e2 == nil}
			ask(fmt.Sprintf("spec hdr %d %d", b0, op), "", fmt.Sprintf("version byte 0x%02x opcode 0x%02x", b0, op))
			res.Count("header-combinations")
		}
	}
	answers, err = lp.Ask(*driverPath, lines)
	if err != nil || len(answers) != 65536 {
		res.Add(lp.Finding{Kind: "disagreement", What: "driver failure on spec hdr"})
		return
	}
	nbad := 0
	for k, a := range answers {
		strict, anyv := a[0] == 'T', a[2] == 'T'
		r := results[k]
		switch {
		case !anyv && r.hdrOk:
			// unsupported version, unknown opcode or wrong direction, accepted
			if nbad < 10 {
				res.Add(lp.Finding{Kind: "violation", What: "header that breaks the specification is accepted by DecodeHeader", Input: descr[k] + " bytes=" + hexHeader(k)})
			}
			nbad++
		case !strict && r.frameOk:
			if nbad < 10 {
				res.Add(lp.Finding{Kind: "violation", What: "frame whose header breaks the specification of its version is accepted by DecodeFrame", Input: descr[k]})
			}
			nbad++
		case strict && !r.hdrOk:
			if nbad < 10 {
				res.Add(lp.Finding{Kind: "violation", What: "header allowed by the specification is rejected by DecodeHeader", Input: descr[k] + " bytes=" + hexHeader(k)})
			}
			nbad++
		}
		if strict {
			res.Count("header-ok")
		} else {
			res.Count("header-bad")
		}
	}

	// specification-formatted frames taken from the documents
	type vec struct {
		what string
		data []byte
	}
	rowsWithType := func(versionByte byte, v primitive.ProtocolVersion, typeId int) []byte {
		// RESULT Rows: kind 2, flags 0x0001 global_tables_spec, 1 column, ks "k", table "t", column "c" of the given type, 0 rows
		body := be32(2)
		body = append(body, be32(1)...)
		body = append(body, be32(1)...)
		body = append(body, specString("k")...)
		body = append(body, specString("t")...)
		body = append(body, specString("c")...)
		body = append(body, be16(typeId)...)
		body = append(body, be32(0)...)
		return specFrame(versionByte, v, 0x08, body)
	}
	errBody := func(code int, rest ...[]byte) []byte {
		b := append(be32(code), specString("m")...)
		for _, r := range rest {
			b = append(b, r...)
		}
		return b
	}
	vectors := []vec{
		{"v2 RESULT Rows with a column of type 0x000A Text (native_protocol_v2.spec §4.2.5.2)", rowsWithType(0x82, 2, 0x000A)},
		{"v2 RESULT Rows with a column of type 0x000D Varchar", rowsWithType(0x82, 2, 0x000D)},
		{"v4 RESULT Rows with a column of type 0x0014 Tinyint", rowsWithType(0x84, 4, 0x0014)},
		{"v5 ERROR 0x1700 CAS_WRITE_UNKNOWN <cl><received><blockfor> (native_protocol_v5.spec §9)",
			specFrame(0x85, 5, 0x00, errBody(0x1700, be16(1), be32(1), be32(2)))},
		{"v5 ERROR 0x1600 CDC_WRITE_FAILURE (native_protocol_v5.spec §9)", specFrame(0x85, 5, 0x00, errBody(0x1600))},
		{"v4 ERROR 0x1000 Unavailable <cl><required><alive>", specFrame(0x84, 4, 0x00, errBody(0x1000, be16(1), be32(3), be32(2)))},
		{"DSE v1 ERROR 0x8000 Client_write_failure (dse_protocol_v1.spec §9)", specFrame(0xC1, 0x41, 0x00, errBody(0x8000))},
		{"v4 READY (empty body)", specFrame(0x84, 4, 0x02, nil)},
		{"v3 EVENT STATUS_CHANGE UP 127.0.0.1:9042", specFrame(0x83, 3, 0x0C,
			append(append(specString("STATUS_CHANGE"), specString("UP")...), append([]byte{4, 127, 0, 0, 1}, be32(9042)...)...))},
	}
	// "<data_present> … 0 means that the replica that was asked for data has not responded, otherwise the value is != 0": any non-zero
	// byte denotes true (the specification does not say 1)
	for _, dp := range []byte{0x00, 0x01, 0x02, 0x80, 0xff} {
		for _, code := range []int{0x1200, 0x1300} {
			rest := [][]byte{be16(1), be32(1), be32(2)}
			if code == 0x1300 {
				rest = append(rest, be32(1)) // <numfailures> (v4)
			}
			rest = append(rest, []byte{dp})
			data := specFrame(0x84, 4, 0x00, errBody(code, rest...))
			what := fmt.Sprintf("v4 ERROR 0x%04x with <data_present> = 0x%02x", code, dp)
			res.Count("spec-vectors")
			res.Case("vector "+what, true)
			f, err := codec.DecodeFrame(bytes.NewReader(data))
			if err != nil {
				res.Add(lp.Finding{Kind: "violation", What: "specification-formatted frame is not decoded: " + what, Input: hex.EncodeToString(data), Impl: firstWords(err.Error())})
				continue
			}
			got := false
			switch m := f.Body.Message.(type) {
			case *message.ReadTimeout:
				got = m.DataPresent
			case *message.ReadFailure:
				got = m.DataPresent
			}
			if got != (dp != 0) {
				res.Add(lp.Finding{Kind: "violation", What: "specification-formatted bytes decode to another message than they denote: " + what + fmt.Sprintf(" decodes with DataPresent=%v", got),
					Input: hex.EncodeToString(data)})
			}
		}
	}
	for _, vc := range vectors {
		res.Count("spec-vectors")
		res.Case("vector "+vc.what, true)
		if dv, err := codec.DecodeFrame(bytes.NewReader(vc.data)); err != nil {
			res.Add(lp.Finding{Kind: "violation", What: "specification-formatted frame is not decoded: " + vc.what,
				Input: hex.EncodeToString(vc.data), Impl: firstWords(err.Error())})
		} else {
			otherSources(res, rng, compSettings()[0], vc.data, nil, show.Frame(dv), "spec vector "+vc.what)
		}
	}
}

func hexHeader(k int) string { return fmt.Sprintf("%02x..%02x", k>>8, k&0xff) }

func kindOf(d string) string {
	for _, f := range strings.Fields(d) {
		if strings.HasPrefix(f, "kind=") || strings.HasPrefix(f, "v=") {
			return f
		}
	}
	return ""
}

func firstDiff(a, b string) string {
	n := 0
	for n < len(a) && n < len(b) && a[n] == b[n] {
		n++
	}
	n -= n % 2
	end := func(s string) string {
		if len(s) > n+40 {
			return s[n : n+40]
		}
		return s[n:]
	}
	return fmt.Sprintf("at byte %d: implementation …%s, specification …%s", n/2, end(a), end(b))
}
