// verif-harness: correspondence check between the Lean model (through the compiled driver) and the real
// library, plus the property oracles evaluated directly on the implementation (failing-input search).
package main

import (
	"flag"
	"github.com/rs/zerolog"
	"fmt"
	"os"

	"verif/internal/lp"
)

var (
	driverPath = flag.String("driver", "/verif/lean/.lake/build/bin/driver", "compiled Lean model driver")
	tier       = flag.String("tier", "quick", "quick|thorough")
	seed       = flag.Uint64("seed", 1, "PRNG seed")
	outPath    = flag.String("out", "", "result JSON path")
	genDir     = flag.String("gen", "/verif/lean/Cql/Gen", "directory with translator output (json side files)")
	replay     = flag.String("replay", "", "replay file")
)

type mode func(res *lp.Result)

var modes = map[string]mode{}

func main() {
	flag.Parse()
	zerolog.SetGlobalLevel(zerolog.Disabled)
	if flag.NArg() != 1 {
		fmt.Fprintln(os.Stderr, "usage: verif-harness [flags] <property>")
		os.Exit(2)
	}
	prop := flag.Arg(0)
	m, ok := modes[prop]
	if !ok {
		fmt.Fprintf(os.Stderr, "unknown mode %s\n", prop)
		os.Exit(2)
	}
	res := lp.NewResult(prop)
	m(res)
	if *outPath != "" {
		if err := res.Write(*outPath); err != nil {
			fmt.Fprintln(os.Stderr, err)
			os.Exit(2)
		}
	}
	fmt.Printf("%s: evaluations=%d nontrivial=%d findings=%d\n", prop, res.Evaluations, res.Nontrivial, len(res.Findings))
}

func thorough() bool { return *tier == "thorough" }

func must(err error) {
	if err != nil {
		fmt.Fprintln(os.Stderr, "harness:", err)
		os.Exit(2)
	}
}
