// verif-harness: correspondence check between the Lean model (through the compiled driver) and the real
// library, plus the property oracles evaluated directly on the implementation (failing-input search).
package main

import (
	"flag"
	"runtime"
	"sync/atomic"
	"time"
	"github.com/rs/zerolog"
	"fmt"
	"os"

	"verif/internal/lp"
)

var (
	driverPath = flag.String("driver", "/verif/lean/.lake/build/bin/driver", "compiled Lean model driver")
	tier       = flag.String("tier", "quick", "quick|thorough")
	seed       = flag.Uint64("seed", 1, "PRNG seed")
	outPath    = flag.String("out", "", "result JSON path")
	genDir     = flag.String("gen", "/verif/lean/Cql/Gen", "directory with translator output (json side files)")
	replay     = flag.String("replay", "", "replay file")
)

type mode func(res *lp.Result)

var modes = map[string]mode{}

func main() {
	flag.Parse()
	zerolog.SetGlobalLevel(zerolog.Disabled)
	if flag.NArg() != 1 {
		fmt.Fprintln(os.Stderr, "usage: verif-harness [flags] <property>")
		os.Exit(2)
	}
	prop := flag.Arg(0)
	m, ok := modes[prop]
	if !ok {
		fmt.Fprintf(os.Stderr, "unknown mode %s\n", prop)
		os.Exit(2)
	}
	res := lp.NewResult(prop)
	watchdog(res, prop)
	m(res)
	if *outPath != "" {
		if err := res.Write(*outPath); err != nil {
			fmt.Fprintln(os.Stderr, err)
			os.Exit(2)
		}
	}
	fmt.Printf("%s: evaluations=%d nontrivial=%d findings=%d\n", prop, res.Evaluations, res.Nontrivial, len(res.Findings))
}

// current input of a guarded decode, for the memory watchdog
var currentInput atomic.Value

// watchdog: a decode that blows the heap up cannot be cancelled; record the input as a violation, write the result and stop.
func watchdog(res *lp.Result, prop string) {
	go func() {
		var ms runtime.MemStats
		for {
			time.Sleep(100 * time.Millisecond)
			runtime.ReadMemStats(&ms)
			if ms.HeapAlloc > 6<<30 {
				in, _ := currentInput.Load().(string)
				if in == "" {
					continue // not a decoding mode: the harness' own bookkeeping, not a decoder, holds the memory
				}
				res.Add(lp.Finding{Kind: "violation", What: "decoder allocates more than 6 GiB for a small input", Input: in})
				if *outPath != "" {
					res.Write(*outPath)
				}
				fmt.Printf("%s: aborted by the memory watchdog on input %s\n", prop, in)
				os.Exit(0)
			}
		}
	}()
}

func thorough() bool { return *tier == "thorough" }

func must(err error) {
	if err != nil {
		fmt.Fprintln(os.Stderr, "harness:", err)
		os.Exit(2)
	}
}
