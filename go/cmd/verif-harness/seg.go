package main

import (
	"bufio"
	"bytes"
	"crypto/tls"
	"encoding/binary"
	"fmt"
	"hash/adler32"
	"hash/crc32"
	"io"
	"math/bits"
	"net"
	"strings"
	"sync"

	"github.com/datastax/go-cassandra-native-protocol/compression/lz4"
	"github.com/datastax/go-cassandra-native-protocol/compression/snappy"
	"github.com/datastax/go-cassandra-native-protocol/crc"
	"github.com/datastax/go-cassandra-native-protocol/frame"
	"github.com/datastax/go-cassandra-native-protocol/message"
	"github.com/datastax/go-cassandra-native-protocol/primitive"
	"github.com/datastax/go-cassandra-native-protocol/segment"
	"verif/internal/gen"
	"verif/internal/lp"
	"verif/internal/show"
)

func init() {
	modes["C06"] = runC06
	modes["C07"] = runC07
	modes["C08"] = runC08
}

// ---- independent implementations (written from the v5 spec §2 and Cassandra's Crc.java, not from the library) ----

func refCrc24(data uint64, n int) uint32 {
	crc := uint32(0x875060)
	for i := 0; i < n; i++ {
		b := uint32(data>>(8*uint(i))) & 0xff
		crc ^= b << 16
		for j := 0; j < 8; j++ {
			crc <<= 1
			if crc&0x1000000 != 0 {
				crc ^= 0x1974F0B
			}
		}
	}
	return crc & 0xFFFFFF
}

func refCrc32(seed uint32, p []byte) uint32 {
	c := ^seed
	for _, b := range p {
		c ^= uint32(b)
		for j := 0; j < 8; j++ {
			if c&1 == 1 {
				c = c>>1 ^ 0xEDB88320
			} else {
				c >>= 1
			}
		}
	}
	return ^c
}

func refPayloadCrc(p []byte) uint32 { return refCrc32(refCrc32(0, []byte{0xFA, 0x2D, 0x55, 0xCA}), p) }

func le(x uint64, n int) []byte {
	b := make([]byte, n)
	for i := range b {
		b[i] = byte(x >> (8 * uint(i)))
	}
	return b
}

// refSegment: the bytes the v5 framing prescribes for a payload sent as `wire` (compressed or not)
func refSegment(compressedFormat bool, selfContained bool, wire []byte, uncompressedLen int) []byte {
	var hdr []byte
	if !compressedFormat {
		h := uint64(len(wire))
		if selfContained {
			h |= 1 << 17
		}
		hdr = append(le(h, 3), le(uint64(refCrc24(h, 3)), 3)...)
	} else {
		h := uint64(len(wire)) | uint64(uncompressedLen)<<17
		if selfContained {
			h |= 1 << 34
		}
		hdr = append(le(h, 5), le(uint64(refCrc24(h, 5)), 3)...)
	}
	out := append(hdr, wire...)
	return append(out, le(uint64(refPayloadCrc(wire)), 4)...)
}

func contentClasses(r *lp.Rng, n int) [][]byte {
	zero := make([]byte, n)
	rep := bytes.Repeat([]byte("abcdefgh"), n/8+1)[:n]
	cls := [][]byte{zero, rep, r.Bytes(n)}
	if n >= 96 {
		// mixed contents: noise followed by a short run, a run followed by noise, noise with one repeated stretch in the middle —
		// a compressor meets its first match only after a long literal, or ends on literals
		k := 16 + r.Intn(64)
		a := r.Bytes(n)
		copy(a[n-k:], make([]byte, k))
		b := r.Bytes(n)
		copy(b[:k], make([]byte, k))
		c := r.Bytes(n)
		copy(c[n/2:n/2+k/2], c[n/2-k/2:n/2])
		cls = append(cls, a, b, c)
	}
	if n > 65600 {
		// a random block repeated with a period of about 64 KiB (the reach of an LZ4 match offset)
		for _, period := range []int{65536, 65537} {
			blk := r.Bytes(period)
			cls = append(cls, bytes.Repeat(blk, n/period+1)[:n])
		}
	}
	return cls
}

func segLengths(r *lp.Rng) []int {
	ls := []int{0, 1, 2, 3, 15, 16, 17, 255, 256, 257, 4095, 4096, 65535, 65536, 65555, 65560, 131070, 131071}
	n := 12
	if thorough() {
		n = 200
	}
	for i := 0; i < n; i++ {
		ls = append(ls, r.Intn(131072))
	}
	return ls
}

func lz4Raw(p []byte) ([]byte, error) {
	var out bytes.Buffer
	err := lz4.Compressor{}.Compress(bytes.NewBuffer(append([]byte{}, p...)), &out)
	return out.Bytes(), err
}

func runC06(res *lp.Result) {
	res.Rule = "payload lengths at every boundary (0,1,…,131070,131071) plus random ones, contents all-zero / repetitive / random, " +
		"self-contained true/false, no compressor and LZ4; lengths above 131071 for the refusal clause. Implementation oracles: decode(" +
		"encode) returns the payload, flag and consistent header lengths and leaves trailing bytes; the emitted bytes equal an independent " +
		"implementation of the v5 framing (LE header packing, CRC-24 of the header, payload as transmitted, seeded CRC-32, uncompressed " +
		"fallback signalled by a zero uncompressed-length field). Correspondence: model encode/decode give the same bytes / fields. " +
		"Thorough: every length 0..131071 once on the implementation. Non-trivial = non-empty payload; distinct by (length, class, flags)."
	rng := lp.NewRng(*seed)
	var lines, expect, descr []string
	ask := func(l, want, d string) {
		lines = append(lines, l)
		expect = append(expect, want)
		descr = append(descr, d)
	}
	codecs := map[string]segment.Codec{"none": segment.NewCodec(), "lz4": segment.NewCodecWithCompression(lz4.Compressor{})}
	check := func(cname string, sc bool, p []byte, askModel bool) {
		id := fmt.Sprintf("comp=%s selfContained=%v len=%d", cname, sc, len(p))
		seg := &segment.Segment{Header: &segment.Header{IsSelfContained: sc}, Payload: &segment.Payload{UncompressedData: p}}
		var buf bytes.Buffer
		err := codecs[cname].EncodeSegment(seg, &buf)
		res.Case(fmt.Sprintf("%s/%v/%d/%x", cname, sc, len(p), refCrc32(0, p)), len(p) > 0)
		res.Count("comp/" + cname)
		if len(p) > 131071 {
			if err == nil {
				res.Add(lp.Finding{Kind: "violation", What: "payload larger than 131071 bytes was not refused", Input: id})
			}
			if askModel {
				ask(fmt.Sprintf("seg enc %s %v %s", map[string]string{"none": "none", "lz4": "z"}[cname], sc, hx(p)), "err", id)
			}
			return
		}
		if err != nil {
			res.Add(lp.Finding{Kind: "violation", What: "segment with a legal payload refused: " + err.Error(), Input: id})
			return
		}
		enc := append([]byte{}, buf.Bytes()...)
		// independent layout
		var want []byte
		if cname == "none" {
			want = refSegment(false, sc, p, 0)
		} else {
			c, cerr := lz4Raw(p)
			if cerr != nil {
				return
			}
			if len(c) <= len(p) {
				want = refSegment(true, sc, c, len(p))
			} else {
				want = refSegment(true, sc, p, 0)
			}
			if askModel {
				ask("zs clear", "ok", "")
				ask("zs c "+hx(p)+" "+hx(c), "ok", "")
				ask("zs d "+hx(c)+" "+hx(p), "ok", "")
			}
		}
		if !bytes.Equal(enc, want) {
			res.Add(lp.Finding{Kind: "violation", What: "emitted segment bytes differ from the v5 framing layout (" + cname + ")", Input: id + " payload=" + hx(p[:minInt(len(p), 64)]),
				Impl: hx(enc[:minInt(len(enc), 80)]), Model: hx(want[:minInt(len(want), 80)])})
		}
		if cname == "lz4" && len(p) > 60000 && lz4LibraryFails(p) {
			// the third-party block functions alone do not restore this payload (they fail, or restore other bytes without an
			// error): nothing the segment codec does can be judged on it
			res.Add(lp.Finding{Kind: "violation", What: lz4LibraryWhat + ": encoded segment does not decode", Input: id + " payload=" + hx(p[:minInt(len(p), 64)])})
			return
		}
		trailer := rng.Bytes(rng.Intn(4))
		all := append(append([]byte{}, enc...), trailer...)
		rd := bytes.NewReader(all)
		dec, err := codecs[cname].DecodeSegment(rd)
		if err != nil {
			if cname == "lz4" && lz4LibraryFails(p) {
				res.Add(lp.Finding{Kind: "violation", What: lz4LibraryWhat + ": encoded segment does not decode", Input: id + " payload=" + hx(p[:minInt(len(p), 64)])})
				return
			}
			res.Add(lp.Finding{Kind: "violation", What: "encoded segment does not decode: " + firstWords(err.Error()), Input: id + " payload=" + hx(p[:minInt(len(p), 64)])})
			return
		}
		if !bytes.Equal(dec.Payload.UncompressedData, p) || dec.Header.IsSelfContained != sc || rd.Len() != len(trailer) ||
			int(dec.Header.UncompressedPayloadLength) != len(p) {
			res.Add(lp.Finding{Kind: "violation", What: "segment round trip lost payload, flag, lengths or consumed the wrong number of bytes", Input: id})
		}
		// the decoded segment owns its payload: a source buffer that is reused afterwards (the next segment is written into the same
		// *bytes.Buffer, the backing array is overwritten) must not change a payload that has been handed out
		{
			backing := append(append([]byte{}, enc...), enc...)
			bb := bytes.NewBuffer(backing)
			d1, e1 := codecs[cname].DecodeSegment(bb)
			if e1 == nil {
				for i := range backing {
					backing[i] ^= 0x5a
				}
				bb.Reset()
				bb.Write(bytes.Repeat([]byte{0xee}, len(enc)))
				if !bytes.Equal(d1.Payload.UncompressedData, p) {
					res.Add(lp.Finding{Kind: "violation", What: "payload of a decoded segment changes when the source buffer it was read from is reused (" + cname + ")",
						Input: id + " payload=" + hx(p[:minInt(len(p), 64)])})
				}
			} else {
				res.Add(lp.Finding{Kind: "violation", What: "segment does not decode from a *bytes.Buffer holding two segments (" + cname + "): " + firstWords(e1.Error()), Input: id})
			}
			res.Count("source-reuse")
		}
		// the same bytes from sources that deliver them piecewise (a connection does): one byte per Read, a few bytes, TCP-sized
		// pieces, and a cut chosen inside the trailing CRC-32; two segments back to back, nothing left over
		two := append(append([]byte{}, enc...), enc...)
		for _, piece := range []int{1, 2 + rng.Intn(9), 1460, len(enc) - 1 - rng.Intn(minInt(4, len(enc)-1))} {
			if piece < 1 {
				piece = 1
			}
			if piece == 1 && len(enc) > 8192 && len(p)%1024 != 0 {
				continue // one byte per Read over long segments: for a sample of the lengths only
			}
			br := bytes.NewReader(two)
			src := &chunkedReader{r: br, n: piece}
			d1, e1 := codecs[cname].DecodeSegment(src)
			used := len(two) - br.Len()
			d2, e2 := codecs[cname].DecodeSegment(src)
			if e1 != nil || e2 != nil || used != len(enc) || br.Len() != 0 || !bytes.Equal(d1.Payload.UncompressedData, p) || !bytes.Equal(d2.Payload.UncompressedData, p) {
				res.Add(lp.Finding{Kind: "violation", What: fmt.Sprintf("segment does not decode from a source delivering %d byte(s) per Read (%s)", piece, cname),
					Input: id + " payload=" + hx(p[:minInt(len(p), 64)]), Impl: fmt.Sprintf("first: err=%v consumed %d of %d; second: err=%v, %d left", e1, used, len(enc), e2, br.Len())})
				break
			}
			res.Count("piecewise-sources")
		}
		if askModel {
			flag := map[string]string{"none": "none", "lz4": "z"}[cname]
			ask(fmt.Sprintf("seg enc %s %v %s", flag, sc, hx(p)), "ok "+hx(enc), id)
			ask(fmt.Sprintf("seg dec %s %s", flag, hx(all)), fmt.Sprintf("ok %d %v %d %d %d %d %s", len(enc), dec.Header.IsSelfContained,
				dec.Header.UncompressedPayloadLength, dec.Header.CompressedPayloadLength, dec.Header.Crc24, dec.Payload.Crc32, hx(dec.Payload.UncompressedData)), id)
		}
	}
	// the header checksum itself, against the independent bit-by-bit reference, over many header words of both layouts (a payload
	// length reaches only a few thousand of the 2^17 words per run)
	for i := 0; i < 60000; i++ {
		w3 := rng.U64() & 0x3ffff
		w5 := rng.U64() & 0x7ffffffff
		if i < 4096 {
			w3, w5 = uint64(i)*64+63, uint64(i)*64+63 // every value of the low bytes
		}
		if got, want := crc.ChecksumKoopman(w3, 3), refCrc24(w3, 3); got != want {
			res.Add(lp.Finding{Kind: "violation", What: "header CRC-24 differs from the v5 framing's (3 header bytes)", Input: fmt.Sprintf("header word %#x", w3), Impl: fmt.Sprintf("%06x", got), Model: fmt.Sprintf("%06x", want)})
			break
		}
		if got, want := crc.ChecksumKoopman(w5, 5), refCrc24(w5, 5); got != want {
			res.Add(lp.Finding{Kind: "violation", What: "header CRC-24 differs from the v5 framing's (5 header bytes)", Input: fmt.Sprintf("header word %#x", w5), Impl: fmt.Sprintf("%06x", got), Model: fmt.Sprintf("%06x", want)})
			break
		}
	}
	res.Count("header-crc-differential")
	for _, n := range segLengths(rng) {
		for ci, p := range contentClasses(rng, n) {
			for _, sc := range []bool{true, false} {
				for _, cname := range []string{"none", "lz4"} {
					// the model is consulted for small and boundary sizes (its bit-at-a-time CRC-32 is slow on 128 KiB)
					askModel := n <= 4096 || (ci == 0 && sc && (n == 65535 || n == 131071))
					check(cname, sc, p, askModel)
				}
			}
		}
	}
	// payloads whose LZ4 block is EXACTLY as long as the payload (the boundary between "sent compressed" and "sent as it is"):
	// found by search over short texts with one repetition and a tail of distinct bytes
	{
		found := 0
		distinct := []byte("uvwxyzABCDEFGHIJKLMNOPQRSTabcdefghijklmnopqrst456789")
		for rep := 2; rep <= 8 && found < 6; rep++ {
			for tail := 0; tail <= len(distinct) && found < 6; tail++ {
				p := append(bytes.Repeat([]byte("0123"), rep), distinct[:tail]...)
				if c, err := lz4Raw(p); err == nil && len(c) == len(p) {
					found++
					res.Count("lz4-block-as-long-as-the-payload")
					check("lz4", found%2 == 0, p, true)
				}
			}
		}
	}
	for _, n := range []int{131072, 131073, 200000} {
		check("none", true, make([]byte, n), n == 131072)
		check("lz4", false, make([]byte, n), false)
	}
	if thorough() {
		for n := 0; n <= 131071; n++ {
			check("none", n%2 == 0, rng.Bytes(n), false)
			if n%8 == 0 {
				check("lz4", n%16 == 0, contentClasses(rng, n)[1], false)
			}
		}
		res.Exhaustive = true
	}
	// CRC functions against the independent ones and the model
	for i := 0; i < 300; i++ {
		d := rng.U64()
		n := 1 + rng.Intn(8)
		d &= (1<<(8*uint(n)) - 1) | (uint64(1)<<63)>>uint(63-8*n+1)*0
		if n < 8 {
			d &= 1<<(8*uint(n)) - 1
		}
		got := crc.ChecksumKoopman(d, n)
		if got != refCrc24(d, n) {
			res.Add(lp.Finding{Kind: "violation", What: "ChecksumKoopman differs from the reference CRC-24", Input: fmt.Sprintf("crc 24 %d %d", d, n), Impl: fmt.Sprint(got)})
		}
		ask(fmt.Sprintf("crc 24 %d %d", d, n), fmt.Sprint(got), "crc24")
		p := rng.Bytes(rng.Intn(200))
		g32 := crc.ChecksumIEEE(p)
		if g32 != refPayloadCrc(p) {
			res.Add(lp.Finding{Kind: "violation", What: "ChecksumIEEE differs from the reference seeded CRC-32", Input: "crc 32 " + hx(p), Impl: fmt.Sprint(g32)})
		}
		ask("crc 32 "+hx(p), fmt.Sprint(g32), "crc32")
		res.Count("crc")
	}
	finishAsk(res, lines, expect, descr)
}

func finishAsk(res *lp.Result, lines, expect, descr []string) {
	answers, err := lp.Ask(*driverPath, lines)
	if err != nil {
		res.Add(lp.Finding{Kind: "disagreement", What: "driver failure: " + err.Error()})
		return
	}
	nd := 0
	for i, a := range answers {
		if a != expect[i] && nd < 20 {
			nd++
			l := lines[i]
			if len(l) > 200 {
				l = l[:200] + "…"
			}
			res.Add(lp.Finding{Kind: "disagreement", What: "model/implementation differ on " + strings.Join(strings.Fields(l)[:2], " ") + " (" + descr[i] + ")",
				Input: l, Impl: trunc(expect[i]), Model: trunc(a)})
		}
	}
}

func trunc(s string) string {
	if len(s) > 300 {
		return s[:300] + "…"
	}
	return s
}

type srcKind struct {
	name string
	r    io.Reader
	done func()
}

var c07TLS struct {
	once     sync.Once
	srv, cli *tls.Config
}

// corruptSources: the same bytes behind several kinds of io.Reader
func corruptSources(in []byte, rng *lp.Rng) []srcKind {
	nop := func() {}
	ks := []srcKind{
		{"a *bytes.Buffer", bytes.NewBuffer(append([]byte{}, in...)), nop},
		{"a source delivering a few bytes per Read", &chunkedReader{r: bytes.NewReader(in), n: 1 + rng.Intn(7)}, nop},
		{"a bufio.Reader", bufio.NewReaderSize(bytes.NewReader(in), 16), nop},
	}
	pipe := func(wrap func(a, b net.Conn) (io.Reader, io.Writer, func())) srcKind {
		a, b := net.Pipe()
		r, w, closeAll := wrap(a, b)
		go func() { w.Write(in); closeAll() }()
		return srcKind{"", r, func() { a.Close(); b.Close() }}
	}
	k := pipe(func(a, b net.Conn) (io.Reader, io.Writer, func()) { return a, b, func() { b.Close() } })
	k.name = "a network connection"
	ks = append(ks, k)
	c07TLS.once.Do(func() { c07TLS.srv, c07TLS.cli = selfSignedTLS() })
	k = pipe(func(a, b net.Conn) (io.Reader, io.Writer, func()) {
		cl := tls.Client(a, c07TLS.cli)
		sv := tls.Server(b, c07TLS.srv)
		return cl, sv, func() { sv.Close() }
	})
	k.name = "a TLS connection"
	ks = append(ks, k)
	return ks
}

func runC07(res *lp.Result) {
	res.Rule = "fault enumeration on the real segment decoder: every flip pattern of weight 1..3 over the 48 (no compressor) or 64 (LZ4 " +
		"format) header+CRC-24 bits exhaustively and sampled patterns of weight 4..7, for several header values; for payloads of several " +
		"sizes every single-bit flip, sampled pairs of flips and every burst of 1..32 bits at every offset of payload+CRC-32 (sampled " +
		"burst contents). Each corrupted segment must be rejected with an error and no payload. Non-trivial = every pattern; distinct by pattern."
	rng := lp.NewRng(*seed)
	codecs := map[string]segment.Codec{"none": segment.NewCodec(), "lz4": segment.NewCodecWithCompression(lz4.Compressor{})}
	// every second corrupted segment is followed, in the same source, by a pristine one (as on a connection): the corrupted one
	// must still be reported — a decoder that quietly moves on to the next segment has accepted the stream
	followers := map[string][]byte{}
	for cname, c := range codecs {
		var b bytes.Buffer
		c.EncodeSegment(&segment.Segment{Header: &segment.Header{IsSelfContained: true}, Payload: &segment.Payload{UncompressedData: []byte("the segment that follows")}}, &b)
		followers[cname] = append([]byte{}, b.Bytes()...)
	}
	tries := 0
	var pristineOf []byte // the intact encoding the current corrupted segments are derived from
	try := func(cname string, corrupted []byte, what string) {
		res.Case(cname+"/"+what, true)
		tries++
		in := corrupted
		if tries%2 == 0 {
			in = append(append([]byte{}, corrupted...), followers[cname]...)
			what += ", followed by a pristine segment"
		}
		if tries%3 == 0 && pristineOf != nil {
			// … and every third one is preceded, on the same codec, by the decode of the INTACT segment it was made from (what the
			// codec has just seen must not make it trust the altered copy)
			codecs[cname].DecodeSegment(bytes.NewReader(pristineOf))
			what += ", after the intact segment was decoded by the same codec"
		}
		s, err := codecs[cname].DecodeSegment(bytes.NewReader(in))
		if err == nil {
			res.Add(lp.Finding{Kind: "violation", What: "corrupted segment accepted (" + what + ")", Input: "seg dec " + cname + " " + hx(in),
				Impl: fmt.Sprintf("payload %d bytes", len(s.Payload.UncompressedData))})
		}
		// what is rejected from a byte slice is rejected from every other kind of source: a *bytes.Buffer, a source that delivers a
		// few bytes per Read, a network connection, a TLS connection (the checks are the decoder's, not the transport's)
		if tries%7 == 0 {
			for _, sk := range corruptSources(in, rng) {
				s2, err2 := codecs[cname].DecodeSegment(sk.r)
				sk.done()
				res.Count("corrupted-from/" + sk.name)
				if err2 == nil {
					res.Add(lp.Finding{Kind: "violation", What: "corrupted segment accepted when it is read from " + sk.name + " (" + what + ")", Input: "seg dec " + cname + " " + hx(in),
						Impl: fmt.Sprintf("payload %d bytes", len(s2.Payload.UncompressedData))})
				}
			}
		}
	}
	// Near-collisions between the two header layouts. A codec with a compressor expects 5 header bytes + CRC-24; the first six
	// bytes of such a header can lie within a few bit flips of a valid 3-byte header + CRC-24 announcing another length. Flipping
	// exactly those bits is a corruption of weight 1..7 like any other and must be rejected — also by a decoder that would try the
	// other layout when the first does not check. The search is directed: lengths l that differ from the real length n in one bit,
	// and a payload that carries, where a reader of the other layout would look for it, the CRC-32 that reader would compute.
	{
		lz := codecs["lz4"]
		found := 0
		for n := 40; n < 2600 && found < 40; n++ {
			for _, sc := range []bool{true, false} {
				payload := rng.Bytes(n)
				var b0 bytes.Buffer
				if lz.EncodeSegment(&segment.Segment{Header: &segment.Header{IsSelfContained: sc}, Payload: &segment.Payload{UncompressedData: payload}}, &b0) != nil {
					continue
				}
				enc := b0.Bytes()
				if len(enc) != 8+n+4 { // travels compressed: another shape, not searched
					continue
				}
				for bit := -1; bit < 17; bit++ {
					l := n
					if bit >= 0 {
						l = n ^ (1 << uint(bit))
					}
					if l < 2 || l+2 > n {
						continue
					}
					for _, sc3 := range []uint64{0, 1} {
						d3 := uint64(l) | sc3<<17
						target := append(le(d3, 3), le(uint64(refCrc24(d3, 3)), 3)...)
						w := 0
						for i := 0; i < 6; i++ {
							for x := target[i] ^ enc[i]; x != 0; x &= x - 1 {
								w++
							}
						}
						if w < 1 || w > 7 {
							continue
						}
						// the payload a reader of the 3-byte layout would check: the two left-over header bytes, then l-2 payload bytes
						p2 := append([]byte{}, payload...)
						seen := append(append([]byte{}, enc[6:8]...), p2[:l-2]...)
						copy(p2[l-2:], le(uint64(refPayloadCrc(seen)), 4))
						var b1 bytes.Buffer
						if lz.EncodeSegment(&segment.Segment{Header: &segment.Header{IsSelfContained: sc}, Payload: &segment.Payload{UncompressedData: p2}}, &b1) != nil {
							continue
						}
						e1 := b1.Bytes()
						if len(e1) != len(enc) || !bytes.Equal(e1[:8], enc[:8]) {
							continue
						}
						corrupted := append(append([]byte{}, target...), e1[6:]...)
						found++
						res.Count("layout-near-collisions")
						pristineOf = append([]byte{}, e1...)
						try("lz4", corrupted, fmt.Sprintf("header weight %d: the first six bytes turned into a 3-byte header announcing %d bytes, real length %d", w, l, n))
					}
				}
			}
		}
	}
	flip := func(b []byte, bit int) { b[bit/8] ^= 1 << uint(bit%8) }
	// the last two really travel compressed through the LZ4 codec (the random ones do not compress and are sent as they are)
	// (… and a run of one byte value, as in zero-filled blobs: every stretch of it looks like every other)
	payloads := [][]byte{{}, {0x42}, rng.Bytes(17), rng.Bytes(300), bytes.Repeat([]byte("SELECT * FROM t "), 12), append(rng.Bytes(40), make([]byte, 90)...),
		bytes.Repeat([]byte{7}, 640)}
	if thorough() {
		payloads = append(payloads, rng.Bytes(5000), make([]byte, 2000))
	}
	for _, cname := range []string{"none", "lz4"} {
		hbits := 48
		if cname == "lz4" {
			hbits = 64
		}
		for pi, p := range payloads {
			seg := &segment.Segment{Header: &segment.Header{IsSelfContained: pi%2 == 0}, Payload: &segment.Payload{UncompressedData: p}}
			var buf bytes.Buffer
			if err := codecs[cname].EncodeSegment(seg, &buf); err != nil {
				continue
			}
			enc := buf.Bytes()
			pristineOf = append([]byte{}, enc...)
			// header: weight 1..3 exhaustive (first two payloads), weight 4..7 sampled
			if pi < 2 || thorough() {
				for a := 0; a < hbits; a++ {
					c := append([]byte{}, enc...)
					flip(c, a)
					try(cname, c, fmt.Sprintf("header weight 1 bit %d", a))
					res.Count("header/w1")
					for b := a + 1; b < hbits; b++ {
						c2 := append([]byte{}, c...)
						flip(c2, b)
						try(cname, c2, fmt.Sprintf("header weight 2 bits %d,%d", a, b))
						res.Count("header/w2")
						if pi == 0 || thorough() {
							for d := b + 1; d < hbits; d++ {
								c3 := append([]byte{}, c2...)
								flip(c3, d)
								try(cname, c3, fmt.Sprintf("header weight 3 bits %d,%d,%d", a, b, d))
								res.Count("header/w3")
							}
						}
					}
				}
			}
			ns := 3000
			if thorough() {
				ns = 200000
			}
			for i := 0; i < ns; i++ {
				w := 4 + rng.Intn(4)
				c := append([]byte{}, enc...)
				seen := map[int]bool{}
				var bits []string
				for len(seen) < w {
					b := rng.Intn(hbits)
					if !seen[b] {
						seen[b] = true
						flip(c, b)
						bits = append(bits, fmt.Sprint(b))
					}
				}
				try(cname, c, fmt.Sprintf("header weight %d bits %s", w, strings.Join(bits, ",")))
				res.Count(fmt.Sprintf("header/w%d", w))
			}
			// payload + CRC-32: single flips, pairs, bursts
			off := hbits
			pbits := len(enc)*8 - off
			for a := 0; a < pbits; a++ {
				c := append([]byte{}, enc...)
				flip(c, off+a)
				try(cname, c, fmt.Sprintf("payload single flip at %d (len %d)", a, len(p)))
				res.Count("payload/single")
			}
			np := 4000
			if thorough() {
				np = 100000
			}
			for i := 0; i < np && pbits > 1; i++ {
				a, b := rng.Intn(pbits), rng.Intn(pbits)
				if a == b {
					continue
				}
				c := append([]byte{}, enc...)
				flip(c, off+a)
				flip(c, off+b)
				try(cname, c, fmt.Sprintf("payload flips at %d,%d (len %d)", a, b, len(p)))
				res.Count("payload/pair")
			}
			for a := 0; a < pbits; a++ {
				for _, l := range []int{2, 3, 8, 17, 31, 32} {
					if a+l > pbits {
						continue
					}
					if !thorough() && rng.Intn(4) != 0 {
						continue
					}
					c := append([]byte{}, enc...)
					// a burst: first and last bit flipped, random in between
					flip(c, off+a)
					flip(c, off+a+l-1)
					for k := 1; k < l-1; k++ {
						if rng.Bool() {
							flip(c, off+a+k)
						}
					}
					try(cname, c, fmt.Sprintf("payload burst of %d at %d (len %d)", l, a, len(p)))
					res.Count("payload/burst")
				}
			}
		}
	}
	// the trailer replaced by what OTHER checksum conventions would put there (each differs from the right trailer by one burst of
	// at most 32 bits): the plain IEEE CRC-32 without the protocol's four initial bytes, CRC-32C with and without them, the right
	// value in big-endian order, its complement, Adler-32, zeros, ones
	for _, cname := range []string{"none", "lz4"} {
		for pi, p := range payloads {
			var buf bytes.Buffer
			if codecs[cname].EncodeSegment(&segment.Segment{Header: &segment.Header{IsSelfContained: pi%2 == 0}, Payload: &segment.Payload{UncompressedData: p}}, &buf) != nil || buf.Len() < 4 {
				continue
			}
			enc := buf.Bytes()
			hl := 6
			if cname == "lz4" {
				hl = 8
			}
			wire := enc[hl : len(enc)-4]
			right := binary.LittleEndian.Uint32(enc[len(enc)-4:])
			seed := []byte{0xFA, 0x2D, 0x55, 0xCA}
			cast := crc32.MakeTable(crc32.Castagnoli)
			alts := map[string]uint32{
				"IEEE CRC-32 without the initial bytes": crc32.ChecksumIEEE(wire),
				"CRC-32C with the initial bytes":        crc32.Update(crc32.Update(0, cast, seed), cast, wire),
				"CRC-32C without the initial bytes":     crc32.Checksum(wire, cast),
				"the right CRC-32 in big-endian order":  bits.ReverseBytes32(right),
				"the complement of the right CRC-32":    ^right,
				"Adler-32":                              adler32.Checksum(wire),
				"zeros":                                 0,
				"ones":                                  0xffffffff,
			}
			for name, v := range alts {
				if v == right {
					continue
				}
				c := append([]byte{}, enc...)
				binary.LittleEndian.PutUint32(c[len(c)-4:], v)
				res.Count("payload/alternative-checksum")
				try(cname, c, fmt.Sprintf("trailer replaced by %s (len %d)", name, len(p)))
			}
		}
	}
	// a decode that is interrupted — its source, after delivering the first k bytes, lets ANOTHER segment be decoded by the
	// same codec before it delivers the rest (what two connections sharing a codec do) — must still judge its own bytes:
	// corrupted → refused, pristine → its own payload
	for _, cname := range []string{"none", "lz4"} {
		for pi, p := range payloads {
			other := append([]byte("the other segment "), rng.Bytes(20)...)
			var a, b bytes.Buffer
			if codecs[cname].EncodeSegment(&segment.Segment{Header: &segment.Header{IsSelfContained: true}, Payload: &segment.Payload{UncompressedData: p}}, &a) != nil ||
				codecs[cname].EncodeSegment(&segment.Segment{Header: &segment.Header{IsSelfContained: pi%2 == 0}, Payload: &segment.Payload{UncompressedData: other}}, &b) != nil {
				continue
			}
			for cut := 1; cut < a.Len(); cut++ {
				if cut > 12 && cut < a.Len()-6 && rng.Intn(8) != 0 {
					continue
				}
				for _, bit := range []int{-1, rng.Intn(8 * cut), 8*cut + rng.Intn(8*(a.Len()-cut))} {
					in := append([]byte{}, a.Bytes()...)
					what := fmt.Sprintf("pristine segment, source interrupted after %d bytes by another decode on the same codec", cut)
					if bit >= 0 {
						flip(in, bit)
						what = fmt.Sprintf("bit %d flipped, source interrupted after %d bytes by another decode on the same codec", bit, cut)
					}
					src := &interruptedReader{data: in, cut: cut, hook: func() { codecs[cname].DecodeSegment(bytes.NewReader(b.Bytes())) }}
					res.Case(cname+"/"+what+fmt.Sprint(pi), true)
					res.Count("interrupted-decodes")
					sg, err := codecs[cname].DecodeSegment(src)
					if bit >= 0 && err == nil {
						res.Add(lp.Finding{Kind: "violation", What: "corrupted segment accepted (" + what + ")", Input: "seg dec " + cname + " " + hx(in) + " interrupting segment " + hx(b.Bytes())})
					} else if bit < 0 && (err != nil || !bytes.Equal(sg.Payload.UncompressedData, p)) {
						res.Add(lp.Finding{Kind: "violation", What: "segment not decoded to its own payload (" + what + ")", Input: "seg dec " + cname + " " + hx(in) + " interrupting segment " + hx(b.Bytes()),
							Impl: fmt.Sprintf("err=%v", err)})
					}
				}
			}
		}
	}
	// targeted search for low-weight codewords of the CRC-24 AS IMPLEMENTED: for many real headers, every change of up to three
	// header bits that leaves the transmitted length alone (flag, padding, and for the LZ4 layout the uncompressed-length
	// field), combined with the change of the CRC field that the implementation's own CRC makes of it; if together they flip
	// at most 7 bits, the corrupted segment carries a matching CRC and is handed to the real decoder
	{
		popcount := func(x uint32) int {
			n := 0
			for ; x != 0; x &= x - 1 {
				n++
			}
			return n
		}
		bases := 400
		if thorough() {
			bases = 6000
		}
		for _, cname := range []string{"none", "lz4"} {
			hl, lo, hi := 3, 17, 24
			if cname == "lz4" {
				hl, lo, hi = 5, 17, 40
			}
			for b := 0; b < bases; b++ {
				var p []byte
				if b%2 == 0 {
					p = rng.Bytes(rng.Intn(3000))
				} else {
					p = bytes.Repeat([]byte{byte(b)}, 1+rng.Intn(40000))
				}
				seg := &segment.Segment{Header: &segment.Header{IsSelfContained: b%3 == 0}, Payload: &segment.Payload{UncompressedData: p}}
				var buf bytes.Buffer
				if err := codecs[cname].EncodeSegment(seg, &buf); err != nil {
					continue
				}
				enc := buf.Bytes()
				var d uint64
				for i := 0; i < hl; i++ {
					d |= uint64(enc[i]) << (8 * uint(i))
				}
				old := crc.ChecksumKoopman(d, hl)
				res.Count("crc24-collision-search/bases")
				var bits []int
				for x := lo; x < hi; x++ {
					bits = append(bits, x)
				}
				tryPattern := func(sel []int) {
					e := uint64(0)
					for _, x := range sel {
						e |= 1 << uint(x)
					}
					nc := crc.ChecksumKoopman(d^e, hl)
					if w := popcount(nc ^ old); len(sel)+w <= 7 {
						c := append([]byte{}, enc...)
						for _, x := range sel {
							flip(c, x)
						}
						for k := 0; k < 24; k++ {
							if (nc^old)>>uint(k)&1 == 1 {
								flip(c, 8*hl+k)
							}
						}
						try(cname, c, fmt.Sprintf("header bits %v and %d CRC-24 bits: %d flips in all", sel, w, len(sel)+w))
						res.Count("crc24-collision-search/candidates")
					}
				}
				for i := 0; i < len(bits); i++ {
					tryPattern([]int{bits[i]})
					for j := i + 1; j < len(bits); j++ {
						tryPattern([]int{bits[i], bits[j]})
						if cname == "none" || thorough() {
							for k := j + 1; k < len(bits); k++ {
								tryPattern([]int{bits[i], bits[j], bits[k]})
							}
						}
					}
				}
			}
		}
	}
	// the CRC functions themselves against the model (and an independent reference): the detection theorems are about
	// exactly these functions
	{
		var lines, expect, descr []string
		n := 4000
		if thorough() {
			n = 60000
		}
		for i := 0; i < n; i++ {
			d := rng.U64()
			k := 1 + rng.Intn(8)
			if k < 8 {
				d &= 1<<(8*uint(k)) - 1
			}
			got := crc.ChecksumKoopman(d, k)
			lines = append(lines, fmt.Sprintf("crc 24 %d %d", d, k))
			expect = append(expect, fmt.Sprint(got))
			descr = append(descr, "crc24")
			if got != refCrc24(d, k) {
				res.Add(lp.Finding{Kind: "disagreement", What: "ChecksumKoopman differs from the reference CRC-24 (the proved detection guarantees are about the reference function)",
					Input: fmt.Sprintf("crc 24 %d %d", d, k), Impl: fmt.Sprint(got), Model: fmt.Sprint(refCrc24(d, k))})
			}
			if i%8 == 0 {
				p := rng.Bytes(rng.Intn(120))
				g32 := crc.ChecksumIEEE(p)
				lines = append(lines, "crc 32 "+hx(p))
				expect = append(expect, fmt.Sprint(g32))
				descr = append(descr, "crc32")
			}
			res.Count("crc-differential")
		}
		finishAsk(res, lines, expect, descr)
	}
}

// interruptingWriter runs `during` inside its first Write, before it takes the bytes it was given
type interruptingWriter struct {
	buf    bytes.Buffer
	during func()
	done   bool
}

func (w *interruptingWriter) Write(p []byte) (int, error) {
	if !w.done {
		w.done = true
		w.during()
	}
	return w.buf.Write(p)
}

func runC08(res *lp.Result) {
	res.Rule = "byte strings of 0 .. 131071 bytes (raw segment-payload format) and up to several MiB (length-prefixed frame-body format): " +
		"empty, single byte, all-equal, long repeats (ratios up to ~250:1), text-like, random; LZ4 and Snappy; compress then decompress " +
		"must return the input exactly. The wrapper logic of the model is compared on the same inputs (block codecs as oracles). " +
		"Non-trivial = non-empty input; distinct by (algorithm, format, length, class)."
	rng := lp.NewRng(*seed)
	sizes := []int{0, 1, 2, 3, 7, 8, 9, 15, 16, 17, 63, 64, 65, 255, 256, 1000, 4095, 4096, 65535, 65536, 65555, 65560, 131071}
	n := 20
	if thorough() {
		n = 400
		sizes = append(sizes, 1<<20, 3<<20+17, 8<<20)
	}
	for i := 0; i < n; i++ {
		sizes = append(sizes, rng.Intn(200000))
	}
	text := func(n int) []byte {
		words := []string{"SELECT ", "FROM ", "system.local ", "WHERE ", "key='local' ", "AND ", "token(id) > ? ", "LIMIT 5000 "}
		var b bytes.Buffer
		for b.Len() < n {
			b.WriteString(words[rng.Intn(len(words))])
		}
		return b.Bytes()[:n]
	}
	type comp struct {
		name string
		wl   func(in []byte) ([]byte, error)
		dwl  func(in []byte) ([]byte, error)
		raw  func(in []byte) ([]byte, error)
		draw func(in []byte) ([]byte, error)
	}
	l, s := lz4.Compressor{}, snappy.Compressor{}
	// the source a compressor reads from is any io.Reader: the kinds callers use are rotated (a *bytes.Buffer, a *bytes.Reader,
	// a LimitedReader in front of more data, a source delivering a few bytes per Read)
	srcKind := 0
	src := func(in []byte) io.Reader {
		srcKind++
		res.Count(fmt.Sprintf("source-kind/%d", srcKind%6))
		switch srcKind % 6 {
		case 4:
			// a LimitedReader in front of a source that delivers a few bytes per Read and has more to give (a frame body on a connection)
			more := append(append([]byte{}, in...), "what follows is not part of the input"...)
			return io.LimitReader(&chunkedReader{r: bytes.NewReader(more), n: 1 + rng.Intn(700)}, int64(len(in)))
		case 5:
			return bufio.NewReaderSize(bytes.NewReader(in), 16+rng.Intn(4096))
		case 0:
			return bytes.NewBuffer(append([]byte{}, in...))
		case 1:
			return bytes.NewReader(in)
		case 2:
			return io.LimitReader(bytes.NewReader(append(append([]byte{}, in...), "what follows is not part of the input"...)), int64(len(in)))
		default:
			return &chunkedReader{r: bytes.NewReader(in), n: 1 + rng.Intn(1500)}
		}
	}
	type rw = func(io.Reader, io.Writer) error
	via := func(f rw) func(in []byte) ([]byte, error) {
		return func(in []byte) ([]byte, error) {
			var o bytes.Buffer
			e := f(src(in), &o)
			return append([]byte{}, o.Bytes()...), e
		}
	}
	comps := []comp{
		{"lz4", via(l.CompressWithLength), via(l.DecompressWithLength), via(l.Compress), via(l.Decompress)},
		{"snappy", via(s.CompressWithLength), via(s.DecompressWithLength), nil, nil},
	}
	var modelInputs [][]byte
	for _, sz := range sizes {
		classes := map[string][]byte{"zero": make([]byte, sz), "ones": bytes.Repeat([]byte{0xff}, sz), "repeat": bytes.Repeat([]byte("abcdefgh"), sz/8+1)[:sz],
			"text": text(sz), "random": rng.Bytes(sz)}
		if sz >= 96 {
			// noise that ends in a short run (the first match comes after a long literal), and a run that ends in noise
			k := 16 + rng.Intn(64)
			a := rng.Bytes(sz)
			copy(a[sz-k:], make([]byte, k))
			b := rng.Bytes(sz)
			copy(b[:k], make([]byte, k))
			classes["noise-then-run"], classes["run-then-noise"] = a, b
		}
		if sz > 65600 {
			blk := rng.Bytes(65537)
			classes["period-65537"] = bytes.Repeat(blk, sz/65537+1)[:sz]
			classes["period-65536"] = bytes.Repeat(blk[:65536], sz/65536+1)[:sz]
		}
		for cl, in := range classes {
			if sz <= 20000 && (sz <= 4096 || len(modelInputs) < 400) {
				modelInputs = append(modelInputs, in)
			}
			for _, c := range comps {
				for _, format := range []string{"with-length", "raw"} {
					var enc, dec func([]byte) ([]byte, error)
					if format == "with-length" {
						enc, dec = c.wl, c.dwl
					} else {
						if c.raw == nil || sz > 131071 {
							continue
						}
						enc, dec = c.raw, c.draw
					}
					id := fmt.Sprintf("%s %s len=%d class=%s", c.name, format, sz, cl)
					res.Case(id, sz > 0)
					res.Count(c.name + "/" + format)
					z, err := enc(in)
					if err != nil {
						res.Add(lp.Finding{Kind: "violation", What: c.name + " " + format + " compression fails: " + firstWords(err.Error()), Input: id})
						continue
					}
					out, err := dec(z)
					if c.name == "lz4" && (err != nil || !bytes.Equal(out, in)) && lz4LibraryFails(in) {
						// (the library alone, on the same bytes, fails or — worse — restores OTHER bytes without an error)
						res.Add(lp.Finding{Kind: "violation", What: lz4LibraryWhat + ": " + format + " round trip fails", Input: id})
						continue
					}
					if err != nil {
						res.Add(lp.Finding{Kind: "violation", What: c.name + " " + format + ": decompress(compress(x)) fails: " + firstWords(err.Error()), Input: id,
							Impl: fmt.Sprintf("compressed to %d bytes", len(z))})
						continue
					}
					if !bytes.Equal(out, in) {
						res.Add(lp.Finding{Kind: "violation", What: c.name + " " + format + ": decompress(compress(x)) differs from x", Input: id})
					}
					// the destination is any io.Writer, and a Write may take its time: while the restored message is being handed over,
					// the compressor is used for ANOTHER message (here from inside the destination's first Write — what a second
					// goroutine does at that moment, made deterministic); the first message must arrive unharmed
					if sz > 0 && sz <= 70000 && format == "with-length" {
						other := bytes.Repeat([]byte("ANOTHER MESSAGE "), sz/16+2)
						var cz bytes.Buffer
						comp := map[string]frame.BodyCompressor{"lz4": l, "snappy": s}[c.name]
						if comp.CompressWithLength(bytes.NewReader(other), &cz) == nil {
							w := &interruptingWriter{during: func() { comp.DecompressWithLength(bytes.NewReader(cz.Bytes()), io.Discard) }}
							if err := comp.DecompressWithLength(bytes.NewReader(z), w); err == nil && !bytes.Equal(w.buf.Bytes(), in) {
								res.Add(lp.Finding{Kind: "violation", What: c.name + ": a message being written to its destination is changed by the decompression of another message in the meantime", Input: id})
							}
							res.Count("interrupted-destination")
						}
					}
					if sz > 0 {
						res.Count(fmt.Sprintf("ratio/%s/%d", c.name, minInt(len(in)/maxInt(len(z), 1), 300)/25*25))
					}
				}
			}
		}
	}
	// "a frame encoded with compression decodes to the same content as one encoded without": two compressed frames back to
	// back in ONE source of each kind; each must decode to the frame it was made from and nothing may be left
	for _, v := range gen.Versions {
		for _, cs := range compSettings() {
			if cs.comp == nil || (cs.name == "snappy" && v == primitive.ProtocolVersion5) {
				continue
			}
			for _, kind := range []string{"Query", "RowsResult", "Startup", "Batch", "Supported"} {
				var all bytes.Buffer
				var want []string
				for k := 0; k < 2; k++ {
					g := &gen.G{R: rng, V: v}
					f := g.Frame(kind)
					if f == nil {
						continue
					}
					f.SetCompress(true)
					want = append(want, show.Frame(show.Normalize(f.DeepCopy())))
					if err := cs.codec.EncodeFrame(f, &all); err != nil {
						want = want[:len(want)-1]
					}
				}
				data := append([]byte{}, all.Bytes()...)
				for sk, source := range []io.Reader{bytes.NewBuffer(append([]byte{}, data...)), bytes.NewReader(data), &chunkedReader{r: bytes.NewReader(data), n: 1 + rng.Intn(700)}} {
					id := fmt.Sprintf("two %s frames v=%d comp=%s back to back in source kind %d bytes=%s", kind, v, cs.name, sk, hx(data))
					res.Count("frames-back-to-back")
					res.Case(id, true)
					for k, w := range want {
						d, err := cs.codec.DecodeFrame(source)
						if err != nil {
							res.Add(lp.Finding{Kind: "violation", What: fmt.Sprintf("compressed frame %d of two back to back does not decode: %s", k, firstWords(err.Error())), Input: id})
							break
						}
						if got := show.Frame(show.Normalize(d)); got != w {
							res.Add(lp.Finding{Kind: "violation", What: fmt.Sprintf("compressed frame %d of two back to back decodes to other content", k), Input: id, Impl: trunc(got), Model: trunc(w)})
							break
						}
					}
				}
			}
		}
	}
	// segments decoded one after the other by ONE codec (what a connection does): what an earlier decode returned must still be
	// the earlier payload after the later decode — compressible and incompressible payloads, with and without a compressor
	for _, cname := range []string{"none", "lz4"} {
		var codec segment.Codec
		if cname == "none" {
			codec = segment.NewCodec()
		} else {
			codec = segment.NewCodecWithCompression(lz4.Compressor{})
		}
		ps := [][]byte{rng.Bytes(64), text(300), rng.Bytes(48), bytes.Repeat([]byte{7}, 500), rng.Bytes(200), {}}
		// … and payloads at the boundary between "sent compressed" and "sent as it is": the LZ4 block one byte shorter than, exactly
		// as long as, and one byte longer than the payload (found by search over short texts with one repetition and a distinct tail)
		{
			distinct := []byte("uvwxyzABCDEFGHIJKLMNOPQRSTabcdefghijklmnopqrst456789")
			hit := map[int]int{}
			for rep := 2; rep <= 8; rep++ {
				for tail := 0; tail <= len(distinct); tail++ {
					p := append(bytes.Repeat([]byte("0123"), rep), distinct[:tail]...)
					if c, err := lz4Raw(p); err == nil && len(c)-len(p) >= -1 && len(c)-len(p) <= 1 && hit[len(c)-len(p)] < 3 {
						hit[len(c)-len(p)]++
						ps = append(ps, p)
						res.Count(fmt.Sprintf("segment-payload/lz4-block-length-minus-payload-length=%d", len(c)-len(p)))
					}
				}
			}
		}
		var stream bytes.Buffer
		for i, p := range ps {
			codec.EncodeSegment(&segment.Segment{Header: &segment.Header{IsSelfContained: i%2 == 0}, Payload: &segment.Payload{UncompressedData: append([]byte{}, p...)}}, &stream)
		}
		var got [][]byte
		rd := bytes.NewReader(stream.Bytes())
		for range ps {
			sg, err := codec.DecodeSegment(rd)
			if err != nil {
				res.Add(lp.Finding{Kind: "violation", What: "segment of a sequence does not decode (" + cname + "): " + firstWords(err.Error()), Input: "segments " + hx(stream.Bytes())})
				break
			}
			got = append(got, sg.Payload.UncompressedData) // kept, not copied
		}
		res.Count("segment-sequences")
		res.Case("segment sequence "+cname, true)
		for i := range got {
			if !bytes.Equal(got[i], ps[i]) {
				res.Add(lp.Finding{Kind: "violation", What: fmt.Sprintf("payload returned for segment %d of a sequence is changed by decoding the following segments with the same codec (%s)", i, cname),
					Input: "segments " + hx(stream.Bytes()), Impl: hx(got[i][:minInt(len(got[i]), 64)]), Model: hx(ps[i][:minInt(len(ps[i]), 64)])})
				break
			}
		}
	}
	// compressed frames with TINY bodies (0 … 6 bytes before compression): the compressed form of an empty body is one byte with Snappy,
	// five with LZ4
	for _, v := range gen.Versions {
		for _, cs := range compSettings() {
			if cs.comp == nil || (cs.name == "snappy" && v == primitive.ProtocolVersion5) {
				continue
			}
			for k, m := range []message.Message{&message.Options{}, &message.Ready{}, &message.Supported{Options: map[string][]string{}}, &message.VoidResult{},
				&message.AuthSuccess{}, &message.SetKeyspaceResult{Keyspace: "k"}, &message.AuthChallenge{Token: []byte{1}}} {
				f := frame.NewFrame(v, int16(k+1), m)
				f.Header.Flags = f.Header.Flags.Add(primitive.HeaderFlagCompressed)
				id := fmt.Sprintf("compressed %T frame with a tiny body v=%d comp=%s", m, v, cs.name)
				res.Case(id, true)
				res.Count("tiny-compressed-bodies")
				want := show.Frame(show.Normalize(f.DeepCopy()))
				var b bytes.Buffer
				if err := cs.codec.EncodeFrame(f, &b); err != nil {
					res.Add(lp.Finding{Kind: "violation", What: "a frame with a tiny body is refused by the encoder when compression is on: " + firstWords(err.Error()), Input: id})
					continue
				}
				d, err := cs.codec.DecodeFrame(bytes.NewReader(b.Bytes()))
				if err != nil {
					res.Add(lp.Finding{Kind: "violation", What: "a compressed frame with a tiny body does not decode: " + firstWords(err.Error()), Input: id + " bytes=" + hx(b.Bytes())})
					continue
				}
				if got := show.Frame(show.Normalize(d)); got != want {
					res.Add(lp.Finding{Kind: "violation", What: "a compressed frame with a tiny body decodes to other content", Input: id + " bytes=" + hx(b.Bytes()), Impl: trunc(got), Model: trunc(want)})
				}
			}
		}
	}
	// compressed frames through the raw-frame path (ConvertToRawFrame / EncodeRawFrame / DecodeRawFrame / ConvertFromRawFrame): bodies
	// that shrink and bodies that do not (random tokens), the declared length must be that of the compressed body
	for _, v := range gen.Versions {
		for _, cs := range compSettings() {
			if cs.comp == nil || (cs.name == "snappy" && v == primitive.ProtocolVersion5) {
				continue
			}
			for k, m := range []message.Message{&message.AuthResponse{Token: rng.Bytes(300)}, &message.Query{Query: strings.Repeat("SELECT * FROM t ", 40)},
				&message.AuthResponse{Token: rng.Bytes(17)}, &message.Query{Query: "q"}} {
				f := frame.NewFrame(v, int16(k+1), m)
				f.SetCompress(true)
				id := fmt.Sprintf("raw path of a compressed %T frame v=%d comp=%s", m, v, cs.name)
				res.Case(id+fmt.Sprint(k), true)
				res.Count("compressed-raw-path")
				want := show.Frame(show.Normalize(f.DeepCopy()))
				raw, err := cs.codec.ConvertToRawFrame(f)
				if err != nil {
					res.Add(lp.Finding{Kind: "violation", What: "ConvertToRawFrame fails on a compressed frame: " + firstWords(err.Error()), Input: id})
					continue
				}
				if int(raw.Header.BodyLength) != len(raw.Body) {
					res.Add(lp.Finding{Kind: "violation", What: fmt.Sprintf("raw frame of a compressed frame declares %d body bytes and carries %d", raw.Header.BodyLength, len(raw.Body)), Input: id})
				}
				back, err := cs.codec.ConvertFromRawFrame(raw)
				if err != nil {
					res.Add(lp.Finding{Kind: "violation", What: "a compressed frame converted to a raw frame does not convert back: " + firstWords(err.Error()), Input: id})
					continue
				}
				if got := show.Frame(show.Normalize(back)); got != want {
					res.Add(lp.Finding{Kind: "violation", What: "a compressed frame converted to a raw frame and back has other content", Input: id, Impl: trunc(got), Model: trunc(want)})
				}
				var wire bytes.Buffer
				if err := cs.codec.EncodeRawFrame(raw, &wire); err == nil {
					if d, err := cs.codec.DecodeFrame(bytes.NewReader(wire.Bytes())); err != nil || show.Frame(show.Normalize(d)) != want {
						res.Add(lp.Finding{Kind: "violation", What: "the bytes of a raw frame made from a compressed frame do not decode to the frame", Input: id + " bytes=" + hx(wire.Bytes()), Impl: fmt.Sprint(err)})
					}
				}
			}
		}
	}
	runC08Model(res, modelInputs)
}

func maxInt(a, b int) int {
	if a > b {
		return a
	}
	return b
}

// interruptedReader delivers data[:cut], then calls hook once, then delivers the rest.
type interruptedReader struct {
	data []byte
	pos  int
	cut  int
	done bool
	hook func()
}

func (r *interruptedReader) Read(p []byte) (int, error) {
	if r.pos >= len(r.data) {
		return 0, io.EOF
	}
	end := len(r.data)
	if r.pos < r.cut {
		end = r.cut
	} else if !r.done {
		r.done = true
		r.hook()
	}
	n := copy(p, r.data[r.pos:end])
	r.pos += n
	return n, nil
}
