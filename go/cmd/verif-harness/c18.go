package main

import (
	"bytes"
	"fmt"
	"io"
	"math/big"
	"reflect"
	"runtime"
	"sort"
	"sync"
	"time"

	"github.com/datastax/go-cassandra-native-protocol/compression/lz4"
	"github.com/datastax/go-cassandra-native-protocol/compression/snappy"
	"github.com/datastax/go-cassandra-native-protocol/datacodec"
	"github.com/datastax/go-cassandra-native-protocol/datatype"
	"github.com/datastax/go-cassandra-native-protocol/frame"
	"github.com/datastax/go-cassandra-native-protocol/message"
	"github.com/datastax/go-cassandra-native-protocol/primitive"
	"github.com/datastax/go-cassandra-native-protocol/segment"

	"verif/internal/gen"
	"verif/internal/lp"
	"verif/internal/show"
)

// C18: M goroutines share codec instances (frame codecs with and without compressors, raw codec, segment codecs, the
// package-level datacodec singletons and composite value codecs, the compressors) and each performs encode/decode of its own
// generated frames, segments and values. Every result is compared with the result of the same call made sequentially
// beforehand. The binary used for this mode is built with the race detector: a reported race ends the process with exit
// code 66 and the report in the log.

func init() { modes["C18"] = runC18 }

type c18Job struct {
	descr string
	run   func() string // the canonical result of the job (deterministic for a correct, thread-safe codec)
}

func frameJob(codec frame.RawCodec, name string, f *frame.Frame) c18Job {
	return c18Job{descr: name + " " + show.Header(f.Header), run: func() string {
		var buf bytes.Buffer
		if err := codec.EncodeFrame(f, &buf); err != nil {
			return "encode-err " + firstWords(err.Error())
		}
		enc := append([]byte{}, buf.Bytes()...)
		// full decode
		d, err := codec.DecodeFrame(bytes.NewReader(enc))
		if err != nil {
			return "decode-err " + firstWords(err.Error())
		}
		// raw path
		raw, err := codec.DecodeRawFrame(bytes.NewReader(enc))
		if err != nil {
			return "raw-decode-err " + firstWords(err.Error())
		}
		d2, err := codec.ConvertFromRawFrame(raw)
		if err != nil {
			return "convert-err " + firstWords(err.Error())
		}
		// (the encoded bytes themselves depend on Go's map iteration order and are not compared)
		return fmt.Sprintf("%s | %s", show.Frame(show.Normalize(d)), show.Frame(show.Normalize(d2)))
	}}
}

func segmentJob(codec segment.Codec, name string, payload []byte, sc bool) c18Job {
	return c18Job{descr: fmt.Sprintf("%s payload=%d selfContained=%v", name, len(payload), sc), run: func() string {
		var buf bytes.Buffer
		seg := &segment.Segment{Header: &segment.Header{IsSelfContained: sc}, Payload: &segment.Payload{UncompressedData: payload}}
		if err := codec.EncodeSegment(seg, &buf); err != nil {
			return "encode-err " + firstWords(err.Error())
		}
		enc := buf.Bytes()
		d, err := codec.DecodeSegment(bytes.NewReader(enc))
		if err != nil {
			return "decode-err " + firstWords(err.Error())
		}
		return fmt.Sprintf("%x | %v %x", enc, d.Header.IsSelfContained, d.Payload.UncompressedData)
	}}
}

func valueJob(codec datacodec.Codec, name string, v interface{}, version primitive.ProtocolVersion) c18Job {
	return c18Job{descr: fmt.Sprintf("%s %v", name, version), run: func() string {
		enc, err := codec.Encode(v, version)
		if err != nil {
			return "encode-err " + firstWords(err.Error())
		}
		var out interface{}
		wasNull, err := codec.Decode(enc, &out, version)
		if err != nil {
			return "decode-err " + firstWords(err.Error())
		}
		if reflect.ValueOf(v).Kind() == reflect.Map {
			// the byte order of map entries follows Go's map iteration order
			return fmt.Sprintf("%d bytes | %v %s", len(enc), wasNull, canonValue(reflect.ValueOf(out)))
		}
		return fmt.Sprintf("%x | %v %s", enc, wasNull, canonValue(reflect.ValueOf(out)))
	}}
}

// slowWriter copies what it is given in small pieces, yielding in between: a destination like a pipe or a socket, during whose
// Write the codec's caller is still reading the codec's output buffer
type slowWriter struct {
	buf   bytes.Buffer
	piece int           // bytes taken at a time (64 when zero)
	nap   time.Duration // pause between pieces (a yield when zero)
}

func (w *slowWriter) Write(p []byte) (int, error) {
	piece := w.piece
	if piece == 0 {
		piece = 64
	}
	for i := 0; i < len(p); i += piece {
		j := i + piece
		if j > len(p) {
			j = len(p)
		}
		w.buf.Write(p[i:j])
		if w.nap > 0 {
			time.Sleep(w.nap)
		} else {
			runtime.Gosched()
		}
	}
	return len(p), nil
}

// rawLz4Job: Compress / Decompress (the segment payload format) into a slow destination
func rawLz4Job(in []byte) c18Job {
	return c18Job{descr: fmt.Sprintf("lz4-raw %d bytes", len(in)), run: func() string {
		c := lz4.Compressor{}
		var z bytes.Buffer
		if err := c.Compress(bytes.NewReader(in), &z); err != nil {
			return "compress-err " + firstWords(err.Error())
		}
		out := &slowWriter{}
		if err := c.Decompress(bytes.NewReader(z.Bytes()), out); err != nil {
			return "decompress-err " + firstWords(err.Error())
		}
		return fmt.Sprintf("%x | %v", z.Bytes(), bytes.Equal(out.buf.Bytes(), in))
	}}
}

func compressJob(name string, c frame.BodyCompressor, in []byte) c18Job {
	return c18Job{descr: fmt.Sprintf("%s %d bytes", name, len(in)), run: func() string {
		var z, out bytes.Buffer
		if err := c.CompressWithLength(bytes.NewReader(in), &z); err != nil {
			return "compress-err " + firstWords(err.Error())
		}
		if err := c.DecompressWithLength(bytes.NewReader(z.Bytes()), &out); err != nil {
			return "decompress-err " + firstWords(err.Error())
		}
		return fmt.Sprintf("%x | %v", z.Bytes(), bytes.Equal(out.Bytes(), in))
	}}
}

func runC18(res *lp.Result) {
	res.Rule = "M goroutines x shared codec instances (frame/raw codecs without compressor, with LZ4, with Snappy; segment codecs without " +
		"and with LZ4; datacodec singletons and composite codecs; compressors) x per-goroutine generated frames of every message kind and " +
		"version, segments and CQL values; each call's canonical result compared with the same call made sequentially first; run under the " +
		"Go race detector when the binary is built with -race. Non-trivial = a job whose sequential result is not an error."
	rng := lp.NewRng(*seed)
	goroutines, perG, rounds := 8, 60, 2
	if thorough() {
		goroutines, perG, rounds = 16, 400, 6
	}
	frameCodecs := []struct {
		name  string
		codec frame.RawCodec
	}{
		{"frame/none", frame.NewRawCodec()},
		{"frame/lz4", frame.NewRawCodecWithCompression(lz4.Compressor{})},
		{"frame/snappy", frame.NewRawCodecWithCompression(snappy.Compressor{})},
	}
	segCodecs := []struct {
		name  string
		codec segment.Codec
	}{{"segment/none", segment.NewCodec()}, {"segment/lz4", segment.NewCodecWithCompression(lz4.Compressor{})}}
	listOfVarint, _ := datacodec.NewList(datatype.NewList(datatype.Varint))
	mapCodec, _ := datacodec.NewMap(datatype.NewMap(datatype.Varchar, datatype.NewList(datatype.Int)))
	tupleCodec, _ := datacodec.NewTuple(datatype.NewTuple(datatype.Int, datatype.Varchar, datatype.Double))
	udt, _ := datatype.NewUserDefined("ks", "t", []string{"a", "b"}, []datatype.DataType{datatype.Bigint, datatype.Blob})
	udtCodec, _ := datacodec.NewUserDefined(udt)

	jobs := make([][]c18Job, goroutines)
	for g := 0; g < goroutines; g++ {
		r := lp.NewRng(rng.U64())
		for k := 0; k < perG; k++ {
			switch k % 4 {
			case 0, 1:
				v := gen.Versions[r.Intn(len(gen.Versions))]
				gg := &gen.G{R: r, V: v}
				f := gg.Frame(gen.Kinds[r.Intn(len(gen.Kinds))])
				if f == nil {
					continue
				}
				fc := frameCodecs[r.Intn(len(frameCodecs))]
				if fc.name != "frame/none" && (v != primitive.ProtocolVersion5 || true) {
					// the COMPRESSED flag is legal for every message except STARTUP/OPTIONS/READY: SetCompress ignores those
					f.SetCompress(true)
				}
				jobs[g] = append(jobs[g], frameJob(fc.codec, fc.name, f))
			case 2:
				sc := segCodecs[r.Intn(len(segCodecs))]
				var p []byte
				if r.Bool() {
					p = bytes.Repeat([]byte{byte(r.U64())}, r.Intn(5000))
				} else {
					p = r.Bytes(r.Intn(2000))
				}
				jobs[g] = append(jobs[g], segmentJob(sc.codec, sc.name, p, r.Bool()))
			case 3:
				ver := primitive.ProtocolVersion4
				if r.Bool() {
					ver = primitive.ProtocolVersion2
				}
				switch r.Intn(10) {
				case 0:
					jobs[g] = append(jobs[g], valueJob(datacodec.Bigint, "bigint", int64(r.U64()), ver))
				case 1:
					b := new(big.Int).SetUint64(r.U64())
					b.Lsh(b, uint(r.Intn(200)))
					if r.Bool() {
						b.Neg(b)
					}
					jobs[g] = append(jobs[g], valueJob(datacodec.Varint, "varint", b, ver))
				case 2:
					jobs[g] = append(jobs[g], valueJob(datacodec.Varchar, "varchar", (&gen.G{R: r, V: ver}).Str(), ver))
				case 3:
					jobs[g] = append(jobs[g], valueJob(listOfVarint, "list<varint>", []*big.Int{big.NewInt(int64(r.U64())), big.NewInt(-int64(r.Intn(1000)))}, ver))
				case 4:
					jobs[g] = append(jobs[g], valueJob(mapCodec, "map<varchar,list<int>>", map[string][]int32{"a": {int32(r.U64()), 2}, "b": {}}, ver))
				case 5:
					jobs[g] = append(jobs[g], valueJob(tupleCodec, "tuple", []interface{}{int32(r.U64()), "x", float64(r.Intn(1000)) / 7}, ver))
				case 6:
					jobs[g] = append(jobs[g], valueJob(udtCodec, "udt", map[string]interface{}{"a": int64(r.U64()), "b": r.Bytes(r.Intn(20))}, ver))
				case 7:
					jobs[g] = append(jobs[g], valueJob(datacodec.Decimal, "decimal", datacodec.CqlDecimal{Unscaled: big.NewInt(int64(r.U64())), Scale: int32(r.Intn(40))}, ver))
				case 8:
					jobs[g] = append(jobs[g], compressJob("lz4", lz4.Compressor{}, bytes.Repeat(r.Bytes(7), r.Intn(3000))))
					jobs[g] = append(jobs[g], rawLz4Job(bytes.Repeat(r.Bytes(5), 200+r.Intn(3000))))
				case 9:
					jobs[g] = append(jobs[g], compressJob("snappy", snappy.Compressor{}, bytes.Repeat(r.Bytes(5), r.Intn(3000))))
				}
			}
		}
	}
	// calls that FAIL are calls too: headers with versions the library does not support (a different one per goroutine), decoded and
	// encoded through the shared frame codecs — each call must report ITS version, not another goroutine's
	for g := 0; g < goroutines; g++ {
		for k := 0; k < perG/6+1; k++ {
			vb := byte(0x10 + (g*7+k)%40) // 0x10 … 0x37: none of them supported
			fc := frameCodecs[(g+k)%len(frameCodecs)]
			in := []byte{vb, 0, 0, 1, 5, 0, 0, 0, 0}
			jobs[g] = append(jobs[g], c18Job{descr: fmt.Sprintf("header-error %s version byte 0x%02x", fc.name, vb), run: func() string {
				_, err := fc.codec.DecodeHeader(bytes.NewReader(in))
				if err == nil {
					return "accepted"
				}
				runtime.Gosched()
				e1 := err.Error()
				f := frame.NewFrame(primitive.ProtocolVersion(vb&0x7f), 1, &message.Options{})
				err2 := fc.codec.EncodeFrame(f, io.Discard)
				runtime.Gosched()
				if err2 == nil {
					return "decode: " + e1 + " | encode accepted"
				}
				return "decode: " + e1 + " | encode: " + err2.Error() + " | decode again: " + err.Error()
			}})
		}
	}
	// segments of several KiB, incompressible ones first (they travel as they are) and compressible ones after them — the sizes and the
	// branches small test payloads never reach
	for g := 0; g < goroutines; g++ {
		r := lp.NewRng(*seed*77 + uint64(g))
		for _, sc := range segCodecs {
			jobs[g] = append(jobs[g], segmentJob(sc.codec, sc.name, r.Bytes(8192+g), true))
			jobs[g] = append(jobs[g], segmentJob(sc.codec, sc.name, r.Bytes(5000+g), false))
			jobs[g] = append(jobs[g], segmentJob(sc.codec, sc.name, bytes.Repeat([]byte(fmt.Sprintf("row %d of goroutine %d;", g*31, g)), 900), true))
			jobs[g] = append(jobs[g], segmentJob(sc.codec, sc.name, bytes.Repeat([]byte(fmt.Sprintf("another row %d;", g)), 1500), false))
		}
	}
	// big bodies: every goroutine compresses and restores several MiB through the shared compressors, into a destination that is slow
	// to take them, so that the calls overlap in time — what one call may use must not depend on what the others hold at that moment
	for g := 0; g < goroutines && g < 5; g++ {
		n := 6<<20 + g*4096
		in := bytes.Repeat([]byte(fmt.Sprintf("goroutine %d row %d |", g, n)), n/24+1)[:n]
		for _, cj := range []struct {
			name string
			c    frame.BodyCompressor
		}{{"snappy", snappy.Compressor{}}, {"lz4", lz4.Compressor{}}}[g%2 : g%2+1] {
			cj := cj
			jobs[g] = append(jobs[g], c18Job{descr: fmt.Sprintf("%s big body %d bytes", cj.name, n), run: func() string {
				var z bytes.Buffer
				if err := cj.c.CompressWithLength(bytes.NewReader(in), &z); err != nil {
					return "compress-err " + firstWords(err.Error())
				}
				out := &slowWriter{piece: 64 << 10, nap: time.Millisecond}
				if err := cj.c.DecompressWithLength(bytes.NewReader(z.Bytes()), out); err != nil {
					return "decompress-err " + firstWords(err.Error())
				}
				return fmt.Sprintf("%d compressed bytes | restored=%v", z.Len(), bytes.Equal(out.buf.Bytes(), in))
			}})
		}
	}
	// sequential reference
	expected := make([][]string, goroutines)
	for g := range jobs {
		for _, j := range jobs[g] {
			out := safeRun(j)
			expected[g] = append(expected[g], out)
			res.Case(j.descr+"|"+fmt.Sprint(len(out)), len(out) > 12 && !bytes.Contains([]byte(out[:12]), []byte("err")))
			res.Count("job/" + firstWord(j.descr))
		}
	}
	// concurrent rounds
	for round := 0; round < rounds; round++ {
		got := make([][]string, goroutines)
		var wg sync.WaitGroup
		start := make(chan struct{})
		for g := range jobs {
			wg.Add(1)
			go func(g int) {
				defer wg.Done()
				<-start
				for _, j := range jobs[g] {
					got[g] = append(got[g], safeRun(j))
				}
			}(g)
		}
		close(start)
		wg.Wait()
		for g := range jobs {
			for k := range jobs[g] {
				if got[g][k] != expected[g][k] {
					res.Add(lp.Finding{Kind: "violation", What: "concurrent call returns a different result than the same call made sequentially: " + firstWord(jobs[g][k].descr),
						Input: fmt.Sprintf("seed=%d round=%d goroutine=%d job=%d %s", *seed, round, g, k, jobs[g][k].descr),
						Impl:  trunc(got[g][k]), Model: trunc(expected[g][k])})
				}
			}
		}
		res.Count("rounds")
	}
	runC18First(res)
	if raceEnabled {
		res.Notes = append(res.Notes, "race detector enabled in this run")
	} else {
		res.Notes = append(res.Notes, "race detector NOT enabled in this binary (results compared only)")
	}
}

func safeRun(j c18Job) (out string) {
	defer func() {
		if r := recover(); r != nil {
			out = "panic " + firstWords(fmt.Sprint(r))
		}
	}()
	return j.run()
}

func firstWord(s string) string {
	for i, c := range s {
		if c == ' ' {
			return s[:i]
		}
	}
	return s
}

// canonValue renders a decoded CQL value deterministically (maps sorted by rendered key)
func canonValue(v reflect.Value) string {
	if !v.IsValid() {
		return "nil"
	}
	switch v.Kind() {
	case reflect.Interface, reflect.Ptr:
		if v.IsNil() {
			return "nil"
		}
		if b, ok := v.Interface().(*big.Int); ok {
			return b.String()
		}
		return canonValue(v.Elem())
	case reflect.Slice, reflect.Array:
		if v.Kind() == reflect.Slice && v.IsNil() {
			return "nil"
		}
		s := "["
		for i := 0; i < v.Len(); i++ {
			s += canonValue(v.Index(i)) + ","
		}
		return s + "]"
	case reflect.Map:
		var items []string
		for _, k := range v.MapKeys() {
			items = append(items, canonValue(k)+":"+canonValue(v.MapIndex(k)))
		}
		sort.Strings(items)
		return fmt.Sprint(items)
	case reflect.Struct:
		s := "{"
		for i := 0; i < v.NumField(); i++ {
			if v.Type().Field(i).IsExported() {
				s += canonValue(v.Field(i)) + ","
			}
		}
		return s + "}"
	}
	return fmt.Sprint(v.Interface())
}
