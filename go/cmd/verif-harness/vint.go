package main

import (
	"bytes"
	"fmt"

	"github.com/datastax/go-cassandra-native-protocol/primitive"
	"verif/internal/lp"
)

// vintChecks (C03: "the length each notation reports for itself equals the number of bytes its encoder writes"; C12/C13:
// the layout of [unsigned vint]/[vint]): every power of two of the 64-bit range ±1 — the length boundaries 2^(7k) among
// them —, random values of every bit length, and reads of arbitrary byte strings. Implementation oracles: written =
// LengthOf… = len(bytes); the bytes read back to the value and nothing more is consumed. Correspondence: the model's
// writeUnsignedVint/lengthOfUnsignedVint/readUnsignedVint (and the zig-zag ones), which the C03Vint theorems are about.
func vintChecks(res *lp.Result, rng *lp.Rng, ask func(l, want, d string)) {
	var vals []uint64
	for k := 0; k < 64; k++ {
		p := uint64(1) << uint(k)
		vals = append(vals, p-1, p, p+1)
	}
	vals = append(vals, ^uint64(0), ^uint64(0)-1, 1<<63+1)
	n := 300
	if thorough() {
		n = 20000
	}
	for i := 0; i < n; i++ {
		v := rng.U64() >> uint(rng.Intn(64))
		if rng.Intn(2) == 0 {
			v = ^v
		}
		vals = append(vals, v)
	}
	for _, v := range vals {
		res.Count("vint/values")
		res.Case(fmt.Sprintf("vint %d", v), v > 127)
		// unsigned
		var b bytes.Buffer
		w, err := primitive.WriteUnsignedVint(v, &b)
		l := primitive.LengthOfUnsignedVint(v)
		id := fmt.Sprintf("unsigned vint %d (0x%x)", v, v)
		if err != nil {
			res.Add(lp.Finding{Kind: "violation", What: "WriteUnsignedVint refuses a 64-bit value", Input: id, Impl: err.Error()})
			continue
		}
		if w != b.Len() || l != b.Len() {
			res.Add(lp.Finding{Kind: "violation", What: fmt.Sprintf("LengthOfUnsignedVint = %d, WriteUnsignedVint reports %d written, %d bytes emitted", l, w, b.Len()),
				Input: id, Impl: hx(b.Bytes())})
		}
		enc := append([]byte{}, b.Bytes()...)
		rd := bytes.NewReader(append(append([]byte{}, enc...), 0xAA, 0x55))
		back, used, rerr := primitive.ReadUnsignedVint(rd)
		if rerr != nil || back != v || used != len(enc) || rd.Len() != 2 {
			res.Add(lp.Finding{Kind: "violation", What: "an [unsigned vint] does not read back to the value written, or the reader consumes more or less than was written",
				Input: id + " bytes=" + hx(enc), Impl: fmt.Sprintf("value %d, read %d, %d bytes left of 2, err %v", back, used, rd.Len(), rerr)})
		}
		ask(fmt.Sprintf("val vint u %d", v), fmt.Sprintf("%s %d", hx(enc), l), id)
		// signed (zig-zag) with the same bit pattern
		s := int64(v)
		b.Reset()
		w, err = primitive.WriteVint(s, &b)
		l = primitive.LengthOfVint(s)
		id = fmt.Sprintf("vint %d", s)
		if err != nil {
			res.Add(lp.Finding{Kind: "violation", What: "WriteVint refuses a 64-bit value", Input: id, Impl: err.Error()})
			continue
		}
		if w != b.Len() || l != b.Len() {
			res.Add(lp.Finding{Kind: "violation", What: fmt.Sprintf("LengthOfVint = %d, WriteVint reports %d written, %d bytes emitted", l, w, b.Len()),
				Input: id, Impl: hx(b.Bytes())})
		}
		enc = append([]byte{}, b.Bytes()...)
		rd = bytes.NewReader(append(append([]byte{}, enc...), 0xAA))
		sback, used, rerr := primitive.ReadVint(rd)
		if rerr != nil || sback != s || used != len(enc) || rd.Len() != 1 {
			res.Add(lp.Finding{Kind: "violation", What: "a [vint] does not read back to the value written, or the reader consumes more or less than was written",
				Input: id + " bytes=" + hx(enc), Impl: fmt.Sprintf("value %d, read %d, %d bytes left of 1, err %v", sback, used, rd.Len(), rerr)})
		}
		ask(fmt.Sprintf("val vint s %d", v), fmt.Sprintf("%s %d", hx(enc), l), id)
	}
	// reads of arbitrary bytes (any first byte, short and long tails)
	m := 200
	if thorough() {
		m = 5000
	}
	for i := 0; i < m; i++ {
		in := rng.Bytes(rng.Intn(12))
		if len(in) > 0 && rng.Intn(2) == 0 {
			in[0] = byte(0xff << uint(rng.Intn(9)))
		}
		res.Count("vint/reads")
		one := func(signed bool) string {
			rd := bytes.NewReader(in)
			var v uint64
			var used int
			var err error
			if signed {
				var s int64
				s, used, err = primitive.ReadVint(rd)
				v = uint64(s)
			} else {
				v, used, err = primitive.ReadUnsignedVint(rd)
			}
			if err != nil {
				return "err"
			}
			if used != len(in)-rd.Len() {
				res.Add(lp.Finding{Kind: "violation", What: fmt.Sprintf("vint reader reports %d bytes read but consumed %d", used, len(in)-rd.Len()), Input: "vint bytes " + hx(in)})
			}
			return fmt.Sprintf("ok %d %d", v, used)
		}
		ask("val vint r "+hx(in), one(false)+" | "+one(true), "read vint bytes "+hx(in))
	}
}
