package main

import (
	"fmt"
	"strings"
	"time"

	"github.com/datastax/go-cassandra-native-protocol/client"
	"github.com/datastax/go-cassandra-native-protocol/frame"
	"github.com/datastax/go-cassandra-native-protocol/message"
	"github.com/datastax/go-cassandra-native-protocol/primitive"
	"verif/internal/lp"
)

func init() {
	modes["C09"] = func(res *lp.Result) { runInflight(res, "C09"); runInflightConcurrent(res); runInflightSendVsDeliver(res); runInflightConnection(res); runInflightExplicitConnection(res); runInflightTimedOut(res) }
	modes["C10"] = func(res *lp.Result) { runInflight(res, "C10"); runRoutingConnection(res); runRoutingEventFlood(res); runRoutingTimedPages(res); runRoutingRawPeer(res) }
}

type infOp struct {
	kind string // send | deliver | consume | close
	id   int    // stream id (send/deliver) or handle (consume)
	last bool
	tag  int
}

func (o infOp) line() string {
	switch o.kind {
	case "send":
		return fmt.Sprintf("inf send %d", o.id)
	case "deliver":
		return fmt.Sprintf("inf deliver %d %v %d", o.id, o.last, o.tag)
	case "consume":
		return fmt.Sprintf("inf consume %d", o.id)
	}
	return "inf close"
}

// responseFrame: a page of a continuous-paging result (not the last one), or a FINAL response of one of several kinds — the last
// page, an ERROR ending the paging session, a SUPPORTED, a SET_KEYSPACE result. What the handler does with a frame must depend
// only on its stream id and on whether it is final; the tag travels in a field of each kind.
func responseFrame(id int, last bool, tag int) *frame.Frame {
	var m message.Message = &message.RowsResult{Metadata: &message.RowsMetadata{ContinuousPageNumber: int32(tag + 1), LastContinuousPage: last}}
	if last {
		switch (tag + id) % 4 {
		case 1:
			m = &message.ServerError{ErrorMessage: fmt.Sprint(tag)}
		case 2:
			m = &message.Supported{Options: map[string][]string{"tag": {fmt.Sprint(tag)}}}
		case 3:
			m = &message.SetKeyspaceResult{Keyspace: fmt.Sprint(tag)}
		}
	}
	return frame.NewFrame(primitive.ProtocolVersionDse2, int16(id), m)
}

func tagOf(f *frame.Frame) int {
	n := 0
	switch m := f.Body.Message.(type) {
	case *message.RowsResult:
		return int(m.Metadata.ContinuousPageNumber) - 1
	case *message.ServerError:
		fmt.Sscan(m.ErrorMessage, &n)
	case *message.Supported:
		fmt.Sscan(m.Options["tag"][0], &n)
	case *message.SetKeyspaceResult:
		fmt.Sscan(m.Keyspace, &n)
	}
	return n
}

// requestFrame: requests of several kinds, among them the DSE REVISE_REQUEST that cancels (or asks for more pages of) the
// continuous-paging session of ANOTHER stream id: it is a request like any other as far as stream ids are concerned
func requestFrame(i, id int, target int) *frame.Frame {
	var m message.Message
	v := primitive.ProtocolVersionDse2
	switch (i*7 + id*3) % 6 {
	case 0:
		m = &message.Options{}
	case 1:
		m = &message.Query{Query: "SELECT 1", Options: &message.QueryOptions{ContinuousPagingOptions: &message.ContinuousPagingOptions{MaxPages: 3}}}
	case 2:
		m = &message.Revise{RevisionType: primitive.DseRevisionTypeCancelContinuousPaging, TargetStreamId: int32(target)}
	case 3:
		m = &message.Revise{RevisionType: primitive.DseRevisionTypeMoreContinuousPages, TargetStreamId: int32(target), NextPages: 2}
	case 4:
		m = &message.Register{EventTypes: []primitive.EventType{primitive.EventTypeStatusChange}}
	default:
		m = &message.Prepare{Query: "SELECT 2"}
	}
	return frame.NewFrame(v, int16(id), m)
}

// runHistory executes one history on the real handler, returns the canonical outputs and evaluates the oracles.
var handlerNeverCreated = map[int]bool{}

func runHistory(n, pending int, ops []infOp, res *lp.Result, prop string) []string {
	// (creating the handler fills the pool with the ids 1..N: it must come back, also for the largest N a 16-bit id allows)
	var h *client.VerifHandler
	if handlerNeverCreated[n] {
		return nil
	}
	if !within(10*time.Second, func() { h = client.VerifNewHandler(n, pending, time.Hour) }) || h == nil {
		handlerNeverCreated[n] = true
		res.Add(lp.Finding{Kind: "violation", What: fmt.Sprintf("no request can be sent with a limit of N=%d: the in-flight handler is not created within 10 s", n),
			Input: fmt.Sprintf("N=%d P=%d: create the handler", n, pending)})
		return nil
	}
	defer func() { h.Close(); h.CancelContext() }()
	var outs []string
	var handles []client.InFlightRequest
	handleId := []int{}           // stream id of each handle
	registered := map[int]int{}   // stream id -> handle currently registered (unanswered)
	managed := map[int]bool{}     // handle -> managed
	expectPerHandle := map[int][]int{}
	gotPerHandle := map[int][]int{}
	overflowed := map[int]bool{}
	closed := false
	managedOnly := true
	trace := func(i int) string {
		var b []string
		for _, o := range ops[:i+1] {
			b = append(b, strings.TrimPrefix(o.line(), "inf "))
		}
		return fmt.Sprintf("N=%d P=%d: %s", n, pending, strings.Join(b, "; "))
	}
	viol := func(i int, what string) {
		res.Add(lp.Finding{Kind: "violation", What: what, Input: trace(i)})
	}
	for i, o := range ops {
		switch o.kind {
		case "send":
			if o.id != 0 {
				managedOnly = false
			}
			target := 1
			for rid := range registered {
				if rid > target || target == 1 {
					target = rid
				}
			}
			f := requestFrame(i, o.id, target)
			req, err := h.Send(f)
			if err != nil {
				outs = append(outs, "err")
				if prop == "C09" && managedOnly && !closed && o.id == 0 && len(registered) < n {
					viol(i, fmt.Sprintf("managed send refused although only %d of %d requests are unanswered", len(registered), n))
				}
				break
			}
			id := int(req.StreamId())
			hd := len(handles)
			handles = append(handles, req)
			handleId = append(handleId, id)
			managed[hd] = o.id == 0
			outs = append(outs, fmt.Sprintf("sent %d %d", id, hd))
			if prop == "C09" {
				if closed {
					viol(i, "send accepted after close")
				}
				if o.id == 0 && (id < 1 || id > n) {
					viol(i, fmt.Sprintf("managed send got stream id %d outside 1..%d", id, n))
				}
				if _, dup := registered[id]; dup {
					viol(i, fmt.Sprintf("send accepted with stream id %d, which an unanswered request still carries", id))
				}
				if len(registered) >= n {
					viol(i, fmt.Sprintf("send accepted although %d requests are unanswered (limit %d)", len(registered), n))
				}
			}
			if prev, dup := registered[id]; dup && prop == "C10" {
				// the pages still to come for the earlier request will now reach this one
				viol(i, fmt.Sprintf("a request is accepted under stream id %d while request %d, sent with that id, still awaits its final response: its remaining pages will be delivered to the wrong request", id, prev))
			}
			registered[id] = hd
		case "deliver":
			f := responseFrame(o.id, o.last, o.tag)
			hd, known := registered[o.id]
			err := h.Deliver(f)
			if err != nil {
				outs = append(outs, "err")
				if known && len(expectPerHandle[hd])-len(gotPerHandle[hd]) >= pending {
					overflowed[hd] = true // the request's channel was full: the request is failed and closed from now on
				}
				if known && !closed && prop == "C10" && !overflowed[hd] && len(expectPerHandle[hd])-len(gotPerHandle[hd]) < pending {
					// the request is registered, unanswered and its channel has room: the page must reach it
					viol(i, fmt.Sprintf("a page for stream id %d, whose request still awaits its final response, is not delivered: %s", o.id, firstWords(err.Error())))
				}
			} else {
				outs = append(outs, "delivered")
				if known {
					expectPerHandle[hd] = append(expectPerHandle[hd], o.tag)
				} else if prop == "C10" {
					viol(i, fmt.Sprintf("response for unknown stream id %d was accepted", o.id))
				}
			}
			if known && o.last && !closed {
				delete(registered, o.id)
			}
		case "consume":
			if o.id >= len(handles) {
				outs = append(outs, "err")
				break
			}
			select {
			case f, ok := <-handles[o.id].Incoming():
				if !ok {
					outs = append(outs, "closed")
				} else {
					t := tagOf(f)
					outs = append(outs, fmt.Sprintf("got %d", t))
					gotPerHandle[o.id] = append(gotPerHandle[o.id], t)
					if int(f.Header.StreamId) != handleId[o.id] && prop == "C10" {
						viol(i, fmt.Sprintf("request with stream id %d received a frame with stream id %d", handleId[o.id], f.Header.StreamId))
					}
				}
			default:
				outs = append(outs, "empty")
			}
		case "close":
			h.Close()
			closed = true
			outs = append(outs, "ok")
			if prop == "C09" {
				for id, hd := range registered {
					if !handles[hd].IsDone() {
						viol(i, fmt.Sprintf("request %d (stream id %d) not completed by close", hd, id))
					}
				}
			}
			registered = map[int]int{}
		}
	}
	// drain every handle: what each request received must be exactly what was delivered for it, in order
	if prop == "C10" {
		for hd, req := range handles {
		drain:
			for {
				select {
				case f, ok := <-req.Incoming():
					if !ok {
						break drain
					}
					gotPerHandle[hd] = append(gotPerHandle[hd], tagOf(f))
				default:
					break drain
				}
			}
			if fmt.Sprint(gotPerHandle[hd]) != fmt.Sprint(expectPerHandle[hd]) {
				viol(len(ops)-1, fmt.Sprintf("request %d (stream id %d) received pages %v but pages %v were delivered for it",
					hd, handleId[hd], gotPerHandle[hd], expectPerHandle[hd]))
			}
		}
	}
	// recycling: after everything is answered, N new managed sends succeed with distinct ids (managed-only histories)
	if prop == "C09" && managedOnly && !closed {
		for id := range registered {
			h.Deliver(responseFrame(id, true, 0))
		}
		seen := map[int]bool{}
		for j := 0; j < n; j++ {
			req, err := h.Send(frame.NewFrame(primitive.ProtocolVersion4, 0, &message.Options{}))
			if err != nil {
				viol(len(ops)-1, fmt.Sprintf("after all requests were answered only %d of %d new sends succeeded: %v", j, n, err))
				break
			}
			if seen[int(req.StreamId())] {
				viol(len(ops)-1, fmt.Sprintf("duplicate stream id %d handed out after recycling", req.StreamId()))
			}
			seen[int(req.StreamId())] = true
		}
		if _, err := h.Send(frame.NewFrame(primitive.ProtocolVersion4, 0, &message.Options{})); err == nil && n > 0 {
			viol(len(ops)-1, "a send beyond the limit was accepted after recycling")
		}
	}
	return outs
}

func runInflight(res *lp.Result, prop string) {
	res.Rule = "operation histories over {managed send, send with explicit id, deliver final/non-final page for id k, deliver for an unknown id, " +
		"consume, close} executed on the real in-flight handler (through the verif export shim) and on the model, compared output by output; " +
		"exhaustive for N ≤ 3 up to a depth bound, random long histories for N up to 32767. Oracles on the implementation: id range, " +
		"uniqueness among unanswered requests, refusal at the limit, recycling after final responses, explicit-id reuse refused (C09); " +
		"each request receives exactly the pages delivered for its id while registered, in order, unknown ids dropped (C10). " +
		"Non-trivial = history with at least one accepted send and one delivery; distinct by history text."
	rng := lp.NewRng(*seed)
	var lines, expect []string
	runOne := func(n, p int, ops []infOp) {
		outs := runHistory(n, p, ops, res, prop)
		if outs == nil {
			return // the handler could not even be created (reported)
		}
		lines = append(lines, fmt.Sprintf("inf new %d %d", n, p))
		expect = append(expect, "ok")
		nt := false
		var key []string
		for i, o := range ops {
			lines = append(lines, o.line())
			expect = append(expect, outs[i])
			key = append(key, strings.TrimPrefix(o.line(), "inf "))
			if strings.HasPrefix(outs[i], "delivered") {
				nt = true
			}
		}
		res.Case(fmt.Sprintf("N=%d P=%d %s", n, p, strings.Join(key, ";")), nt)
		res.Count(fmt.Sprintf("history/len%02d", len(ops)/5*5))
	}
	// exhaustive small histories
	depth := 4
	if thorough() {
		depth = 6
	}
	for n := 1; n <= 3; n++ {
		alpha := []infOp{{kind: "send", id: 0}, {kind: "close"}, {kind: "consume", id: 0}, {kind: "consume", id: 1}}
		if prop == "C09" || thorough() {
			alpha = append(alpha, infOp{kind: "send", id: 2}, infOp{kind: "send", id: 7})
		}
		for k := 1; k <= n; k++ {
			alpha = append(alpha, infOp{kind: "deliver", id: k, last: true, tag: k}, infOp{kind: "deliver", id: k, last: false, tag: 10 + k})
		}
		alpha = append(alpha, infOp{kind: "deliver", id: 9, last: true, tag: 99})
		var rec func(prefix []infOp, d int)
		rec = func(prefix []infOp, d int) {
			if d == 0 {
				runOne(n, 2, prefix)
				return
			}
			for _, a := range alpha {
				rec(append(append([]infOp{}, prefix...), a), d-1)
			}
		}
		rec(nil, depth)
	}
	// random long histories
	nh := 300
	if thorough() {
		nh = 5000
	}
	for i := 0; i < nh; i++ {
		n := []int{1, 2, 3, 8, 64, 1024, 32767}[rng.Intn(7)]
		p := 1 + rng.Intn(4)
		length := 20 + rng.Intn(200)
		if n >= 1024 {
			length = 200 + rng.Intn(3000)
		}
		var ops []infOp
		var live []int // ids believed in flight
		handles := 0
		tag := 0
		for j := 0; j < length; j++ {
			r := rng.Intn(100)
			switch {
			case r < 40:
				id := 0
				if rng.Intn(10) == 0 { // a caller-chosen id now and then (C10: also the id of a request that failed but is not answered yet)
					id = 1 + rng.Intn(n+3)
					if id > 32767 {
						id = 32767 // stream ids are int16
					}
				}
				ops = append(ops, infOp{kind: "send", id: id})
				handles++
				// we do not know the id the real code will assign; deliveries pick ids from 1..n anyway
			case r < 80:
				id := 1 + rng.Intn(minInt(n, 12)+1)
				if len(live) > 0 && rng.Bool() {
					id = live[rng.Intn(len(live))]
				}
				tag++
				ops = append(ops, infOp{kind: "deliver", id: id, last: rng.Intn(3) != 0, tag: tag})
			case r < 97:
				if handles > 0 {
					ops = append(ops, infOp{kind: "consume", id: rng.Intn(handles)})
				}
			case r < 98 && rng.Intn(4) == 0:
				ops = append(ops, infOp{kind: "close"})
			default:
				tag++
				ops = append(ops, infOp{kind: "deliver", id: -1 - rng.Intn(3), last: true, tag: tag})
			}
			if len(live) < 12 {
				live = append(live, 1+rng.Intn(minInt(n, 12)))
			}
		}
		// exhaustion phase for small N: more sends than ids
		if n <= 8 && rng.Bool() {
			for j := 0; j < n+2; j++ {
				ops = append(ops, infOp{kind: "send", id: 0})
			}
			for j := 1; j <= n; j++ {
				ops = append(ops, infOp{kind: "deliver", id: j, last: true, tag: 1000 + j})
			}
		}
		runOne(n, p, ops)
	}
	// C10: all permutations of the response order for k outstanding requests, with multi-page responses
	if prop == "C10" {
		kmax := 5
		if thorough() {
			kmax = 6
		}
		for k := 1; k <= kmax; k++ {
			perm := make([]int, k)
			for i := range perm {
				perm[i] = i + 1
			}
			var rec func(i int)
			rec = func(i int) {
				if i == k {
					var ops []infOp
					for j := 0; j < k; j++ {
						ops = append(ops, infOp{kind: "send", id: 0})
					}
					tag := 0
					for _, id := range perm {
						pages := 1 + (id % 3)
						for pg := 0; pg < pages; pg++ {
							tag++
							ops = append(ops, infOp{kind: "deliver", id: id, last: pg == pages-1, tag: tag})
						}
					}
					runOne(k, 4, ops)
					return
				}
				for j := i; j < k; j++ {
					perm[i], perm[j] = perm[j], perm[i]
					rec(i + 1)
					perm[i], perm[j] = perm[j], perm[i]
				}
			}
			rec(0)
		}
	}
	answers, err := lp.Ask(*driverPath, lines)
	if err != nil {
		res.Add(lp.Finding{Kind: "disagreement", What: "driver failure: " + err.Error()})
		return
	}
	// report the first disagreement of each history only
	cur := ""
	reported := false
	for i, a := range answers {
		if strings.HasPrefix(lines[i], "inf new") {
			cur = lines[i]
			reported = false
			continue
		}
		if a != expect[i] && !reported {
			reported = true
			res.Add(lp.Finding{Kind: "disagreement", What: "model/implementation differ in history (" + cur + ") at: " + lines[i],
				Input: lines[i], Impl: expect[i], Model: a})
		}
	}
}

func minInt(a, b int) int {
	if a < b {
		return a
	}
	return b
}

// "a multi-page response delivers all its pages in arrival order to that one request and completes it on the last page" — also
// when the pages are spread over more than one read timeout (each page restarts the clock): the scripted timed histories of C16
// (pages at gaps shorter than the timeout, a page early in the timeout followed by one after the old deadline), each in a child
// process against the timed model.
func runRoutingTimedPages(res *lp.Result) {
	hist := c16Histories()
	var idx []int
	for i, h := range hist {
		if i < 10 && i < len(hist) {
			_ = h
			idx = append(idx, i)
		}
	}
	runScenariosAt(res, "C16LIFE", idx, func(i int) string {
		return fmt.Sprintf("timeout=%d units of 50ms; history: %s", hist[i].t, strings.TrimPrefix(lifeLine(hist[i]), fmt.Sprintf("life %d ", hist[i].t)))
	})
}
