package main

import (
	"encoding/hex"
	"encoding/json"
	"fmt"
	"os"
	"path/filepath"
	"strconv"
	"strings"

	"github.com/datastax/go-cassandra-native-protocol/primitive"
	"verif/internal/lp"
)

type c19Const struct {
	Name  string `json:"name"`
	Value string `json:"value"`
}
type c19Type struct {
	Name     string     `json:"name"`
	IsString bool       `json:"is_string"`
	Bits     int        `json:"bits"`
	Consts   []c19Const `json:"consts"`
}

// real predicates, by code-type name
var c19NatValid = map[string]func(uint64) bool{
	"OpCode":           func(x uint64) bool { return primitive.OpCode(x).IsValid() },
	"ConsistencyLevel": func(x uint64) bool { return primitive.ConsistencyLevel(x).IsValid() },
	"ErrorCode":        func(x uint64) bool { return primitive.ErrorCode(x).IsValid() },
	"ResultType":       func(x uint64) bool { return primitive.ResultType(x).IsValid() },
	"DataTypeCode":     func(x uint64) bool { return primitive.DataTypeCode(x).IsValid() },
	"BatchType":        func(x uint64) bool { return primitive.BatchType(x).IsValid() },
	"BatchChildType":   func(x uint64) bool { return primitive.BatchChildType(x).IsValid() },
	"FailureCode":      func(x uint64) bool { return primitive.FailureCode(x).IsValid() },
	"DseRevisionType":  func(x uint64) bool { return primitive.DseRevisionType(x).IsValid() },
}
var c19NatString = map[string]func(uint64) string{
	"ProtocolVersion":  func(x uint64) string { return primitive.ProtocolVersion(x).String() },
	"OpCode":           func(x uint64) string { return primitive.OpCode(x).String() },
	"ConsistencyLevel": func(x uint64) string { return primitive.ConsistencyLevel(x).String() },
	"ErrorCode":        func(x uint64) string { return primitive.ErrorCode(x).String() },
	"ResultType":       func(x uint64) string { return primitive.ResultType(x).String() },
	"DataTypeCode":     func(x uint64) string { return primitive.DataTypeCode(x).String() },
	"BatchType":        func(x uint64) string { return primitive.BatchType(x).String() },
	"BatchChildType":   func(x uint64) string { return primitive.BatchChildType(x).String() },
	"FailureCode":      func(x uint64) string { return primitive.FailureCode(x).String() },
	"DseRevisionType":  func(x uint64) string { return primitive.DseRevisionType(x).String() },
	"HeaderFlag":       func(x uint64) string { return primitive.HeaderFlag(x).String() },
	"QueryFlag":        func(x uint64) string { return primitive.QueryFlag(x).String() },
	"RowsFlag":         func(x uint64) string { return primitive.RowsFlag(x).String() },
	"VariablesFlag":    func(x uint64) string { return primitive.VariablesFlag(x).String() },
	"PrepareFlag":      func(x uint64) string { return primitive.PrepareFlag(x).String() },
}
var c19StrValid = map[string]func(string) bool{
	"WriteType":          func(x string) bool { return primitive.WriteType(x).IsValid() },
	"EventType":          func(x string) bool { return primitive.EventType(x).IsValid() },
	"SchemaChangeType":   func(x string) bool { return primitive.SchemaChangeType(x).IsValid() },
	"SchemaChangeTarget": func(x string) bool { return primitive.SchemaChangeTarget(x).IsValid() },
	"TopologyChangeType": func(x string) bool { return primitive.TopologyChangeType(x).IsValid() },
	"StatusChangeType":   func(x string) bool { return primitive.StatusChangeType(x).IsValid() },
	"Compression":        func(x string) bool { return primitive.Compression(x).IsValid() },
}

type c19Feat struct {
	name string
	f    func(v primitive.ProtocolVersion) bool
}

var c19Feats = []c19Feat{
	{"collLen4", func(v primitive.ProtocolVersion) bool { return v.Uses4BytesCollectionLength() }},
	{"queryFlags4", func(v primitive.ProtocolVersion) bool { return v.Uses4BytesQueryFlags() }},
	{"batchFlags", func(v primitive.ProtocolVersion) bool { return v.SupportsBatchQueryFlags() }},
	{"prepareFlags", func(v primitive.ProtocolVersion) bool { return v.SupportsPrepareFlags() }},
	{"resultMetadataId", func(v primitive.ProtocolVersion) bool { return v.SupportsResultMetadataId() }},
	{"reasonMap", func(v primitive.ProtocolVersion) bool { return v.SupportsReadWriteFailureReasonMap() }},
	{"contentions", func(v primitive.ProtocolVersion) bool { return v.SupportsWriteTimeoutContentions() }},
	{"modernFraming", func(v primitive.ProtocolVersion) bool { return v.SupportsModernFramingLayout() }},
	{"unsetValues", func(v primitive.ProtocolVersion) bool { return v.SupportsUnsetValues() }},
	{"snappy", func(v primitive.ProtocolVersion) bool { return v.SupportsCompression(primitive.CompressionSnappy) }},
	{"lz4", func(v primitive.ProtocolVersion) bool { return v.SupportsCompression(primitive.CompressionLz4) }},
	{"noCompression", func(v primitive.ProtocolVersion) bool { return v.SupportsCompression(primitive.CompressionNone) }},
	{"qfValues", func(v primitive.ProtocolVersion) bool { return v.SupportsQueryFlag(primitive.QueryFlagValues) }},
	{"qfSkipMetadata", func(v primitive.ProtocolVersion) bool { return v.SupportsQueryFlag(primitive.QueryFlagSkipMetadata) }},
	{"qfPageSize", func(v primitive.ProtocolVersion) bool { return v.SupportsQueryFlag(primitive.QueryFlagPageSize) }},
	{"qfPagingState", func(v primitive.ProtocolVersion) bool { return v.SupportsQueryFlag(primitive.QueryFlagPagingState) }},
	{"qfSerialConsistency", func(v primitive.ProtocolVersion) bool { return v.SupportsQueryFlag(primitive.QueryFlagSerialConsistency) }},
	{"qfDefaultTimestamp", func(v primitive.ProtocolVersion) bool { return v.SupportsQueryFlag(primitive.QueryFlagDefaultTimestamp) }},
	{"qfValueNames", func(v primitive.ProtocolVersion) bool { return v.SupportsQueryFlag(primitive.QueryFlagValueNames) }},
	{"qfKeyspace", func(v primitive.ProtocolVersion) bool { return v.SupportsQueryFlag(primitive.QueryFlagWithKeyspace) }},
	{"qfNowInSeconds", func(v primitive.ProtocolVersion) bool { return v.SupportsQueryFlag(primitive.QueryFlagNowInSeconds) }},
	{"qfDsePageSizeBytes", func(v primitive.ProtocolVersion) bool { return v.SupportsQueryFlag(primitive.QueryFlagDsePageSizeBytes) }},
	{"qfDseContinuousPaging", func(v primitive.ProtocolVersion) bool {
		return v.SupportsQueryFlag(primitive.QueryFlagDseWithContinuousPagingOptions)
	}},
	{"sctKeyspace", func(v primitive.ProtocolVersion) bool { return v.SupportsSchemaChangeTarget(primitive.SchemaChangeTargetKeyspace) }},
	{"sctTable", func(v primitive.ProtocolVersion) bool { return v.SupportsSchemaChangeTarget(primitive.SchemaChangeTargetTable) }},
	{"sctType", func(v primitive.ProtocolVersion) bool { return v.SupportsSchemaChangeTarget(primitive.SchemaChangeTargetType) }},
	{"sctFunction", func(v primitive.ProtocolVersion) bool { return v.SupportsSchemaChangeTarget(primitive.SchemaChangeTargetFunction) }},
	{"sctAggregate", func(v primitive.ProtocolVersion) bool { return v.SupportsSchemaChangeTarget(primitive.SchemaChangeTargetAggregate) }},
	{"tcNewNode", func(v primitive.ProtocolVersion) bool { return v.SupportsTopologyChangeType(primitive.TopologyChangeTypeNewNode) }},
	{"tcRemovedNode", func(v primitive.ProtocolVersion) bool { return v.SupportsTopologyChangeType(primitive.TopologyChangeTypeRemovedNode) }},
	{"tcMovedNode", func(v primitive.ProtocolVersion) bool { return v.SupportsTopologyChangeType(primitive.TopologyChangeTypeMovedNode) }},
	{"reviseCancel", func(v primitive.ProtocolVersion) bool {
		return v.SupportsDseRevisionType(primitive.DseRevisionTypeCancelContinuousPaging)
	}},
	{"reviseMorePages", func(v primitive.ProtocolVersion) bool {
		return v.SupportsDseRevisionType(primitive.DseRevisionTypeMoreContinuousPages)
	}},
	{"header9", func(v primitive.ProtocolVersion) bool { return v.FrameHeaderLengthInBytes() == 9 }},
}

// spec table (same content as Cql/Spec/Features.lean; the harness uses it only to look for a failing input on the
// implementation once the Lean obligation has broken). Rows: v2 v3 v4 v5 dse1 dse2; '-' = not judged.
var c19Spec = map[string]string{
	"collLen4": "FTTTTT", "queryFlags4": "FFFTTT", "batchFlags": "FTTTTT", "prepareFlags": "FFFTFT",
	"resultMetadataId": "FFFTFT", "reasonMap": "FFFTTT", "contentions": "FFFTFF", "modernFraming": "FFFTFF",
	"unsetValues": "FFTTTT", "snappy": "TTTFTT", "lz4": "TTTTTT", "noCompression": "TTTTTT",
	"qfValues": "TTTTTT", "qfSkipMetadata": "TTTTTT", "qfPageSize": "TTTTTT", "qfPagingState": "TTTTTT",
	"qfSerialConsistency": "TTTTTT", "qfDefaultTimestamp": "FTTTTT", "qfValueNames": "FTTTTT",
	"qfKeyspace": "FFFTFT", "qfNowInSeconds": "FFFTFF", "qfDsePageSizeBytes": "FFFFTT",
	"qfDseContinuousPaging": "FFFFTT", "sctKeyspace": "TTTTTT", "sctTable": "TTTTTT", "sctType": "FTTTTT",
	"sctFunction": "FFTTTT", "sctAggregate": "FFTTTT", "tcNewNode": "TTTTTT", "tcRemovedNode": "TTTTTT",
	"tcMovedNode": "FT----", "reviseCancel": "FFFFTT", "reviseMorePages": "FFFFFT", "header9": "FTTTTT",
}

func init() { modes["C19"] = runC19 }

func runC19(res *lp.Result) {
	res.Rule = "every constant extracted from primitive/constants.go; the complete 8- and 16-bit domains and boundary/random " +
		"32-bit values of every integer code type; every declared string constant plus mutations; all 256 version bytes × " +
		"every capability predicate. Non-trivial = a declared constant, or a value on which model and implementation were both consulted; " +
		"distinct by (type, value)."
	raw, err := os.ReadFile(filepath.Join(*genDir, "constants.json"))
	must(err)
	var typs []c19Type
	must(json.Unmarshal(raw, &typs))
	rng := lp.NewRng(*seed)
	var lines []string
	var expect []string
	var descr []string
	ask := func(line, want, d string) {
		lines = append(lines, line)
		expect = append(expect, want)
		descr = append(descr, d)
	}
	seenTypes := map[string]bool{}
	for _, t := range typs {
		seenTypes[t.Name] = true
		declared := map[string]bool{}
		for _, c := range t.Consts {
			declared[c.Value] = true
		}
		if t.IsString {
			valid, ok := c19StrValid[t.Name]
			if !ok {
				res.Notes = append(res.Notes, "string code type without validity check in harness table: "+t.Name)
				continue
			}
			var cands []string
			for _, c := range t.Consts {
				cands = append(cands, c.Value, strings.ToLower(c.Value), c.Value+"X", c.Value[1:], " "+c.Value)
			}
			cands = append(cands, "", "?", "UNKNOWN")
			for _, x := range cands {
				got := valid(x)
				res.Case(t.Name+":"+x, true)
				res.Count("strvalid/" + t.Name)
				if got != declared[x] {
					what := fmt.Sprintf("%s(%q).IsValid() = %v but declared = %v", t.Name, x, got, declared[x])
					res.Add(lp.Finding{Kind: "violation", What: what, Input: "validstr " + t.Name + " " + hexOrDash(x), Impl: fmt.Sprint(got)})
				}
				ask("c19 validstr "+t.Name+" "+hexOrDash(x), fmt.Sprint(got), t.Name+" "+x)
			}
			continue
		}
		// integer type
		var domain []uint64
		switch {
		case t.Bits <= 16:
			for x := uint64(0); x < 1<<uint(t.Bits); x++ {
				domain = append(domain, x)
			}
		default:
			for x := uint64(0); x < 0x3000; x++ {
				domain = append(domain, x)
			}
			for _, c := range t.Consts {
				v, _ := strconv.ParseUint(c.Value, 10, 64)
				for d := -2; d <= 2; d++ {
					domain = append(domain, (v+uint64(d))&0xFFFFFFFF)
				}
				for b := 0; b < 32; b++ {
					domain = append(domain, v^(1<<uint(b)))
				}
			}
			n := 20000
			if thorough() {
				n = 400000
			}
			for i := 0; i < n; i++ {
				domain = append(domain, rng.U64()&0xFFFFFFFF)
			}
			domain = append(domain, 0xFFFFFFFF, 0x80000000, 0x7FFFFFFF)
		}
		valid, hasValid := c19NatValid[t.Name]
		str, hasStr := c19NatString[t.Name]
		if !hasValid && !hasStr {
			res.Notes = append(res.Notes, "integer code type without validity/String in harness table: "+t.Name)
			continue
		}
		for _, x := range domain {
			xs := strconv.FormatUint(x, 10)
			if hasValid {
				got := valid(x)
				res.Case(t.Name+":"+xs, declared[xs] || got)
				res.Count("valid/" + t.Name)
				if got != declared[xs] {
					what := fmt.Sprintf("%s(%d).IsValid() = %v but declared = %v", t.Name, x, got, declared[xs])
					res.Add(lp.Finding{Kind: "violation", What: what, Input: "valid " + t.Name + " " + xs, Impl: fmt.Sprint(got)})
				}
				ask("c19 valid "+t.Name+" "+xs, fmt.Sprint(got), "")
			}
			if hasStr && (declared[xs] || x < 0x200) {
				s := str(x)
				specific := !strings.Contains(s, " ? ")
				res.Count("string/" + t.Name)
				if declared[xs] && !specific {
					what := fmt.Sprintf("%s(%d).String() = %q: declared constant printed with the fallback name", t.Name, x, s)
					res.Add(lp.Finding{Kind: "violation", What: what, Input: "named " + t.Name + " " + xs, Impl: s})
				}
				ask("c19 named "+t.Name+" "+xs, fmt.Sprint(specific), "")
			}
		}
	}
	for name := range c19NatValid {
		if !seenTypes[name] {
			res.Add(lp.Finding{Kind: "disagreement", What: "code type " + name + " not found by the translator", Input: name})
		}
	}
	// opcode classification over the full byte domain; versions
	for x := 0; x < 256; x++ {
		op := primitive.OpCode(x)
		res.Case(fmt.Sprintf("opclass:%d", x), op.IsValid())
		if op.IsValid() && op.IsRequest() == op.IsResponse() {
			res.Add(lp.Finding{Kind: "violation", What: fmt.Sprintf("opcode %d is not exactly one of request/response", x), Input: fmt.Sprintf("req %d", x)})
		}
		if !op.IsValid() && (op.IsRequest() || op.IsResponse()) {
			res.Add(lp.Finding{Kind: "violation", What: fmt.Sprintf("undeclared opcode %d classified as request/response", x), Input: fmt.Sprintf("req %d", x)})
		}
		ask(fmt.Sprintf("c19 req %d", x), fmt.Sprint(op.IsRequest()), "")
		ask(fmt.Sprintf("c19 resp %d", x), fmt.Sprint(op.IsResponse()), "")
		ask(fmt.Sprintf("c19 supported %d", x), fmt.Sprint(primitive.ProtocolVersion(x).IsSupported()), "")
	}
	// capability predicates: all 256 version bytes (model vs implementation); supported versions vs spec table
	versions := []int{2, 3, 4, 5, 65, 66}
	for _, f := range c19Feats {
		for v := 0; v < 256; v++ {
			got := f.f(primitive.ProtocolVersion(v))
			res.Case(fmt.Sprintf("feat:%s:%d", f.name, v), got)
			res.Count("feat/" + f.name)
			ask(fmt.Sprintf("c19 feat %d %s", v, f.name), fmt.Sprint(got), "")
		}
		row := c19Spec[f.name]
		for i, v := range versions {
			got := f.f(primitive.ProtocolVersion(v))
			if row[i] == '-' {
				continue
			}
			if got != (row[i] == 'T') {
				what := fmt.Sprintf("capability %s for version %d is %v; the specification says %v", f.name, v, got, row[i] == 'T')
				res.Add(lp.Finding{Kind: "violation", What: what, Input: fmt.Sprintf("feat %d %s", v, f.name), Impl: fmt.Sprint(got)})
			}
		}
	}
	answers, err := lp.Ask(*driverPath, lines)
	if err != nil {
		res.Add(lp.Finding{Kind: "disagreement", What: "driver failure: " + err.Error(), Input: ""})
		return
	}
	for i, a := range answers {
		if a != expect[i] {
			res.Add(lp.Finding{Kind: "disagreement", What: "model/implementation differ on: " + lines[i], Input: lines[i], Impl: expect[i], Model: a, Detail: descr[i]})
		}
	}
	c19VersionedChecks(res)
	c19CallerModifiesLists(res)
}

// c19VersionedChecks: the Check helpers that take a version accept exactly the values that are declared AND that the version's
// capability predicate allows — all 256 versions × declared and undeclared values
func c19VersionedChecks(res *lp.Result) {
	for v := 0; v < 256; v++ {
		pv := primitive.ProtocolVersion(v)
		for _, t := range []primitive.SchemaChangeTarget{"KEYSPACE", "TABLE", "TYPE", "FUNCTION", "AGGREGATE", "", "keyspace", "VIEW"} {
			want := t.IsValid() && pv.SupportsSchemaChangeTarget(t)
			res.Count("versioned-checks")
			if got := primitive.CheckValidSchemaChangeTarget(t, pv) == nil; got != want {
				res.Add(lp.Finding{Kind: "violation", What: fmt.Sprintf("CheckValidSchemaChangeTarget(%q, version %d) accepts=%v; declared=%v, capability for that version=%v", string(t), v, got, t.IsValid(), pv.SupportsSchemaChangeTarget(t)),
					Input: fmt.Sprintf("check SchemaChangeTarget %q version %d", string(t), v)})
			}
		}
		for _, t := range []primitive.TopologyChangeType{"NEW_NODE", "REMOVED_NODE", "MOVED_NODE", "", "new_node", "DOWN"} {
			want := t.IsValid() && pv.SupportsTopologyChangeType(t)
			res.Count("versioned-checks")
			if got := primitive.CheckValidTopologyChangeType(t, pv) == nil; got != want {
				res.Add(lp.Finding{Kind: "violation", What: fmt.Sprintf("CheckValidTopologyChangeType(%q, version %d) accepts=%v; declared=%v, capability for that version=%v", string(t), v, got, t.IsValid(), pv.SupportsTopologyChangeType(t)),
					Input: fmt.Sprintf("check TopologyChangeType %q version %d", string(t), v)})
			}
		}
		for _, t := range []primitive.DseRevisionType{0, 1, 2, 3, 99, 0xffffffff} {
			want := t.IsValid() && pv.SupportsDseRevisionType(t)
			res.Count("versioned-checks")
			if got := primitive.CheckValidDseRevisionType(t, pv) == nil; got != want {
				res.Add(lp.Finding{Kind: "violation", What: fmt.Sprintf("CheckValidDseRevisionType(%d, version %d) accepts=%v; declared=%v, capability for that version=%v", uint32(t), v, got, t.IsValid(), pv.SupportsDseRevisionType(t)),
					Input: fmt.Sprintf("check DseRevisionType %d version %d", uint32(t), v)})
			}
		}
	}
}

// c19CallerModifiesLists: the version checks must answer by the declared constants whatever callers did before — in
// particular after a caller has modified a list of versions it was handed (filtering in place is ordinary Go). Every
// list-returning function is called, the returned slice overwritten, and every version predicate and every list is
// compared with what it was before; the slice is put back as it was afterwards. Runs last.
func c19CallerModifiesLists(res *lp.Result) {
	type listFn struct {
		name string
		f    func() []primitive.ProtocolVersion
	}
	v4 := primitive.ProtocolVersion4
	fns := []listFn{
		{"SupportedProtocolVersions", primitive.SupportedProtocolVersions},
		{"SupportedOssProtocolVersions", primitive.SupportedOssProtocolVersions},
		{"SupportedDseProtocolVersions", primitive.SupportedDseProtocolVersions},
		{"SupportedBetaProtocolVersions", primitive.SupportedBetaProtocolVersions},
		{"SupportedNonBetaProtocolVersions", primitive.SupportedNonBetaProtocolVersions},
		{"SupportedProtocolVersionsGreaterThanOrEqualTo(4)", func() []primitive.ProtocolVersion { return primitive.SupportedProtocolVersionsGreaterThanOrEqualTo(v4) }},
		{"SupportedProtocolVersionsGreaterThan(4)", func() []primitive.ProtocolVersion { return primitive.SupportedProtocolVersionsGreaterThan(v4) }},
		{"SupportedProtocolVersionsLesserThanOrEqualTo(4)", func() []primitive.ProtocolVersion { return primitive.SupportedProtocolVersionsLesserThanOrEqualTo(v4) }},
		{"SupportedProtocolVersionsLesserThan(4)", func() []primitive.ProtocolVersion { return primitive.SupportedProtocolVersionsLesserThan(v4) }},
	}
	snapshot := func() string {
		var b strings.Builder
		for v := 0; v < 256; v++ {
			pv := primitive.ProtocolVersion(v)
			fmt.Fprintf(&b, "%d:%v%v%v%v%v ", v, pv.IsSupported(), pv.IsOss(), pv.IsDse(), pv.IsBeta(), primitive.CheckSupportedProtocolVersion(pv) == nil)
		}
		for _, fn := range fns {
			fmt.Fprintf(&b, "| %s=%v ", fn.name, fn.f())
		}
		return b.String()
	}
	before := snapshot()
	for _, fn := range fns {
		res.Case("caller overwrites the slice returned by "+fn.name, true)
		res.Count("caller-modifies-list")
		got := fn.f()
		saved := append([]primitive.ProtocolVersion{}, got...)
		for i := range got {
			got[i] = primitive.ProtocolVersion(0xEE)
		}
		got = got[:0]
		after := snapshot()
		copy(got[:len(saved)], saved) // put it back as it was
		if after != before {
			diff := ""
			bf, af := strings.Fields(before), strings.Fields(after)
			for i := range bf {
				if i < len(af) && bf[i] != af[i] {
					diff = "was " + bf[i] + ", now " + af[i]
					break
				}
			}
			res.Add(lp.Finding{Kind: "violation", What: "after a caller overwrote the slice returned by " + fn.name + ", the version checks answer differently for declared constants",
				Input: "call " + fn.name + "(); overwrite every element of the result; ask IsSupported/IsOss/IsDse/IsBeta/CheckSupportedProtocolVersion for all 256 versions and the lists again", Impl: diff})
		}
	}
}

func hexOrDash(s string) string {
	if len(s) == 0 {
		return "-"
	}
	return hex.EncodeToString([]byte(s))
}
