package main

import (
	"bytes"
	"encoding/binary"
	"encoding/hex"
	"fmt"
	"math"
	"math/big"
	"reflect"
	"sort"
	"strings"
	"time"

	"github.com/datastax/go-cassandra-native-protocol/datacodec"
	"github.com/datastax/go-cassandra-native-protocol/datatype"
	"github.com/datastax/go-cassandra-native-protocol/primitive"
	"verif/internal/lp"
)

const emptyCompositeWhat = "value of a tuple/UDT type without fields is encoded as NULL"

type valRunner struct {
	res  *lp.Result
	rep  *reporter
	q    *modelQueue
	mode string
	// what earlier calls handed out (the bytes of the previous Encode, the value of the previous Decode): they belong to the
	// caller and must stay what they were when the codecs are used again
	prev struct {
		id      string
		enc     []byte // as returned (live)
		encCopy []byte
		dec     reflect.Value
		decText string
		dt      datatype.DataType
	}
}

func newValRunner(res *lp.Result, mode string) *valRunner {
	return &valRunner{res: res, rep: newReporter(res), q: &modelQueue{}, mode: mode}
}

func (r *valRunner) finish() { r.q.finish(r.rep) }

func (r *valRunner) codec(dt datatype.DataType, id string) datacodec.Codec {
	var c datacodec.Codec
	var err error
	if p := guard(func() { c, err = datacodec.NewCodec(dt) }); p != nil {
		r.rep.violation("codec panics: NewCodec: "+p.words, id, p.full+" @ "+p.frame)
		return nil
	}
	if err != nil {
		r.rep.violation("no codec for a valid type: "+shortType(dt), id, err.Error())
		return nil
	}
	return c
}

type goOutcome struct {
	status string // ok | err | panic
	text   string // canonical text when ok
	err    string
	dup    bool // the decoded value has maps with two keys that render alike (pointer keys)
	value  reflect.Value
}

// decodeInto: Decode under recover into a fresh destination of Go type t; the decoded value as canonical text
func decodeInto(codec datacodec.Codec, dt datatype.DataType, version primitive.ProtocolVersion, input []byte, t reflect.Type) (o goOutcome, p *panicInfo) {
	dest, result := destFor(t)
	var wasNull bool
	var err error
	currentInput.Store(fmt.Sprintf("decode %s %s %s", verName(version), typeName(dt), hexOrMark(input)))
	if p = guard(func() { wasNull, err = codec.Decode(input, dest, version) }); p != nil {
		return goOutcome{status: "panic", err: p.full}, p
	}
	if err != nil {
		return goOutcome{status: "err", err: err.Error()}, nil
	}
	o.status, o.value = "ok", result()
	if wasNull {
		o.text = "~"
		return
	}
	c, ferr := fromGo(o.value, dt)
	if ferr != nil {
		return goOutcome{status: "unreadable", err: ferr.Error()}, nil
	}
	o.text, o.dup = render(c), hasDupKeys(c)
	return
}

type vcase struct {
	dt      datatype.DataType
	version primitive.ProtocolVersion
	c       *cv
}

func (vc vcase) id(mode string, via string) string {
	return fmt.Sprintf("%s %s %s via %s value %s", mode, verName(vc.version), typeName(vc.dt), via, render(vc.c))
}

// roundTrip: Encode the value given in one representation, decode into the same representation (and, with ifaceCheck, into
// *interface{}), queue the model line for the encoding. Returns the encoding (nil, false when there is none).
func (r *valRunner) roundTrip(vc vcase, rp rep, ifaceCheck bool) ([]byte, bool) {
	dt, ver, c := vc.dt, vc.version, vc.c
	want := render(c)
	via := rp.label
	id := vc.id(r.mode, rp.t.String())
	gv, ok := toGo(c, dt, rp.t)
	if !ok {
		r.res.Count("not-representable/" + via)
		if via == "preferred" && !hasUnhashableKey(dt) {
			r.res.Notes = append(r.res.Notes, "not representable in the preferred type: "+id)
		}
		return nil, false
	}
	if back, err := fromGo(gv, dt); err != nil || render(back) != want {
		r.rep.add("disagreement", "harness self-check failed: the Go value built for a case does not read back as the case", id, fmt.Sprint(render(back), " ", err), want)
		return nil, false
	}
	r.res.Case(fmt.Sprintf("%s|%s|%s|%s", typeName(dt), verName(ver), rp.t, want), isNontrivialValue(c))
	r.res.Count("type/" + kindName(dt))
	r.res.Count("version/" + verName(ver))
	if isScalar(dt) {
		r.res.Count("rep/scalar/" + via)
	} else {
		r.res.Count("rep/" + via)
	}
	codec := r.codec(dt, id)
	if codec == nil {
		return nil, false
	}
	var enc []byte
	var err error
	if p := guard(func() { enc, err = codec.Encode(gv.Interface(), ver) }); p != nil {
		r.rep.violation("codec panics: Encode: "+p.words, id, p.full+" @ "+p.frame)
		return nil, false
	}
	refused := ver < primitive.ProtocolVersion3 && v2Refused(c, dt)
	if err != nil {
		if refused {
			r.res.Count("outcome/v2-null-element-refused")
		} else {
			r.res.Count("outcome/encode-error")
			r.rep.violation("valid value refused by the encoder: "+shortType(dt)+" via "+via, id, err.Error())
		}
		return nil, false
	}
	if refused {
		r.res.Count("outcome/v2-null-element-not-refused")
	}
	emptyComp := hasEmptyComposite(dt)
	// same representation
	same, p := decodeInto(codec, dt, ver, enc, rp.t)
	switch {
	case p != nil:
		r.rep.violation("codec panics: Decode: "+p.words, id+" bytes "+hexOrMark(enc), p.full+" @ "+p.frame)
	case same.status == "err":
		r.rep.violation("encoded value refused by the decoder: "+shortType(dt)+" via "+via, id+" bytes "+hexOrMark(enc), same.err)
	case same.status == "unreadable":
		r.rep.violation("value does not round-trip: "+shortType(dt)+" via "+via, id+" bytes "+hexOrMark(enc), same.err)
	case same.text != want:
		what := "value does not round-trip: " + shortType(dt) + " via " + via
		if emptyComp {
			what = emptyCompositeWhat
		}
		r.rep.violation(what, id+" bytes "+hexOrMark(enc), same.text)
	default:
		r.res.Count("outcome/round-trip-ok")
		if a, b := nilSig(gv, 0), nilSig(same.value, 0); a != b {
			r.res.Count("nil-vs-empty-change/" + kindName(dt))
		}
	}
	// earlier results are still what they were
	if r.prev.id != "" {
		if !bytes.Equal(r.prev.enc, r.prev.encCopy) {
			r.rep.violation("bytes returned by an earlier Encode change when the codecs are used again", r.prev.id+"; then "+id, hexOrMark(r.prev.enc)+" was "+hexOrMark(r.prev.encCopy))
		}
		if r.prev.dec.IsValid() {
			now := "not readable any more"
			if p := guard(func() {
				if back, err := fromGo(r.prev.dec, r.prev.dt); err == nil {
					now = render(back)
				}
			}); p != nil {
				now = "not a well-formed value any more: " + p.words
			}
			if now != r.prev.decText {
				r.rep.violation("value handed out by an earlier Decode changes when the codecs are used again", r.prev.id+"; then "+id, now+" was "+r.prev.decText)
			}
		}
		r.res.Count("earlier-results-rechecked")
	}
	r.prev.id, r.prev.enc, r.prev.encCopy, r.prev.dt = id, enc, append([]byte{}, enc...), dt
	r.prev.dec, r.prev.decText = reflect.Value{}, ""
	if same.status == "ok" && same.text == want && same.text != "~" && same.value.IsValid() {
		r.prev.dec, r.prev.decText = same.value, same.text
	}
	// *interface{}
	goText := same.text
	if ifaceCheck {
		ifc, p := decodeInto(codec, dt, ver, enc, tIface)
		switch {
		case p != nil:
			r.rep.violationG("codec panics: Decode into *interface{}: "+p.words, typeName(dt), id+" bytes "+hexOrMark(enc), p.full+" @ "+p.frame)
		case ifc.status == "err" && noPreferredGoType(dt):
			// a map keyed by blob, inet or a collection has no Go map representation (slices are not comparable):
			// PreferredGoType says so with an error and the untyped destination is refused, without a panic
			r.res.Count("tolerated/no-preferred-go-type")
		case ifc.status == "err":
			r.rep.violation("encoded value refused by the decoder: "+shortType(dt)+" into *interface{}", id+" bytes "+hexOrMark(enc), ifc.err)
		default:
			var pt reflect.Type
			var pp *panicInfo
			var perr error
			if want != "~" {
				pt, pp, perr = preferredType(dt)
			}
			var dyn reflect.Type
			if ifc.value.IsValid() { // (an outcome the harness could not read back carries no value)
				dyn = reflect.TypeOf(ifc.value.Interface())
			}
			switch {
			case ifc.status == "unreadable" || pp != nil || perr != nil:
				r.rep.violation("decoding into interface{} does not give the preferred representation: "+shortType(dt), id+" bytes "+hexOrMark(enc), ifc.err)
			case ifc.text != want && emptyComp:
				r.rep.violation(emptyCompositeWhat, id+" bytes "+hexOrMark(enc), ifc.text)
			case ifc.text != want:
				r.rep.violation("decoding into interface{} does not give the preferred representation: "+shortType(dt), id+" bytes "+hexOrMark(enc), ifc.text)
			case want == "~" && dyn != nil:
				r.rep.violation("decoding into interface{} does not give the preferred representation: "+shortType(dt), id, "NULL decoded as "+dyn.String())
			case want != "~" && dyn != pt:
				r.rep.violation("decoding into interface{} does not give the preferred representation: "+shortType(dt), id, fmt.Sprint(dyn, " instead of ", pt))
			default:
				r.res.Count("outcome/interface-ok")
			}
			goText = ifc.text
		}
	}
	// the model on the same bytes
	multi := hasMultiEntryMap(c)
	r.q.val(ver, dt, enc, func(line string, a modelAnswer) {
		switch {
		case a.status != "ok":
			r.rep.add("disagreement", "model/implementation differ on val: the model does not accept an encoding produced by the implementation", line, "ok "+want, a.raw)
		case a.text != want && a.text == goText:
			r.res.Count("model/agrees-with-changed-value") // the implementation's own round trip already reports it
		case a.text != want && emptyComp:
			// decoded into a struct{} the NULL reads as the empty value again; the model shows what the bytes say
			r.rep.violation(emptyCompositeWhat, id+" bytes "+hexOrMark(enc), a.text)
		case a.text != want:
			r.rep.add("disagreement", "model/implementation differ on val: decoded value", line, goText, a.text)
		case !sameEncoding(enc, a.rehex, multi):
			if r.mode == "C12" {
				r.rep.violation("encoded bytes differ from the specification's format: "+shortType(dt), id, hexOrMark(enc)+" instead of "+a.rehex)
			} else {
				r.rep.add("disagreement", "model/implementation differ on val: re-encoding of the decoded value", line, hexOrMark(enc), a.rehex)
			}
		default:
			r.res.Count("model/agree")
		}
	})
	return enc, true
}

var valueRule = "Values: canonical value trees rendered to the text shared with the Lean driver. Types: all 20 scalar types and custom; " +
	"list/set/map/tuple/UDT nested to depth 3, width ≤ 3 (tuples/UDTs without fields 1 in 40); map keys are scalars whose preferred Go " +
	"type can be a Go map key, and 1 in 12 maps is keyed by blob, inet or list<int> (tagged oddkey). Scalar values: zero, ±1, min, max, " +
	"every power-of-two boundary ±1 of the width, varint up to 300 bits with the sign-byte boundaries, NaN (quiet, signalling, with " +
	"payload)/±Inf/denormals/−0, empty/long/non-ASCII text, 0/1/16/300-byte blobs, IPv4/IPv6 addresses incl. the 16-byte form of " +
	"::ffff:1.2.3.4 (an address is rendered through To4() when that applies, as net.IP.Equal judges), decimal scales 0/±1/min/max int32, " +
	"durations with negative parts and int32/int64 extremes; time within 0..86399999999999; collections of 0..4 elements with null " +
	"elements (1 in 5; in v2 1 in 40, where the encoder must refuse), tuples/UDTs with null fields. "

func versionFor(i int) primitive.ProtocolVersion { return cqlVersions[i%len(cqlVersions)] }

func pickReps(all []rep, i int, fixed, extra int) []rep {
	if thorough() || len(all) <= fixed+extra {
		return all
	}
	out := append([]rep{}, all[:fixed]...)
	rest := all[fixed:]
	for k := 0; k < extra; k++ {
		out = append(out, rest[(i*extra+k)%len(rest)])
	}
	return out
}

func runC11(res *lp.Result) {
	res.Rule = valueRule + "Representations (Go types handed to Encode and used as Decode destination): for scalars every accepted type " +
		"of the doc.go table that holds the value exactly and the pointer to it; for other types the preferred type, a pointer to it, " +
		"typed slices/maps/structs with value or pointer leaves, pointer or plain map keys, []interface{} / map[interface{}]interface{}, " +
		"alternative leaf types, arrays; every encoding is also decoded into *interface{} (dynamic type must be PreferredGoType). " +
		"Quick tier: preferred type, pointer and two (scalars) or three (others) rotating alternatives per value; thorough: all. " +
		"Judged by equality of the canonical text of the value before and after. Non-trivial = value is not NULL, zero or empty; " +
		"distinct by (type, version, Go type, value)."
	rng := lp.NewRng(*seed)
	r := newValRunner(res, "C11")
	inexactFloats(res)
	largeCollections(res, "C11")
	usedDestinationsAndExtremes(res, "C11")
	res.Notes = append(res.Notes,
		"NULL is handed to a scalar codec as a nil pointer or nil interface, and as a nil slice only where the slice is the preferred type "+
			"(blob, custom, inet); a nil []byte given for a uuid is refused and a nil []rune given for a varchar is written as the empty string (recorded by C14)",
		"not covered: big.Float by value; map<varchar,…> given as a struct; tuples as typed slices of one element type; UDTs as typed map[string]T; "+
			"date/timestamp as strings outside the years 1..9999; custom layouts (NewDate, NewTime, NewTimestamp); *interface{} as a source",
		"time.Time sources are generated at the precision of the CQL type (whole days for date, milliseconds for timestamp); a float is given as float64 "+
			"only when it is not a NaN, a double as float32 only when that is exact; map keys that a plain Go key type would identify or lose (0 and −0, NaN) "+
			"are used with pointer keys only")
	n := 0
	for _, dt := range allScalarTypes() {
		reps := repsFor(dt, nil, rng)
		for _, c := range scalarSpecials(dt) {
			n++
			for j, rp := range pickReps(reps, n, 2, 2) {
				r.roundTrip(vcase{dt, versionFor(n), c}, rp, j == 0)
			}
		}
		for j, rp := range reps { // NULL through every nillable representation
			r.roundTrip(vcase{dt, versionFor(j), nil}, rp, j == 0)
		}
		// every integer Go representation at ITS OWN extremes (and next to them), where the CQL type holds them
		if intWidth(dt.Code()) > 0 || dt.Code() == primitive.DataTypeCodeVarint {
			for j, rp := range reps {
				for _, e := range goIntExtremes(rp.t) {
					if w := intWidth(dt.Code()); w > 0 && (e.Cmp(new(big.Int).Neg(pow2(w-1))) < 0 || e.Cmp(pow2(w-1)) >= 0) {
						continue
					}
					r.roundTrip(vcase{dt, versionFor(j), cvI(e)}, rp, false)
				}
			}
		}
	}
	cases := 400
	if thorough() {
		cases = 8000
	}
	for i := 0; i < cases; i++ {
		dt := genType(rng, 1+rng.Intn(3))
		for isScalar(dt) {
			dt = genType(rng, 1+rng.Intn(3))
		}
		ver := versionFor(int(rng.U64() % 6))
		g := &valueGen{rng: rng, version: ver, nullProb: 5, fixedKey: 2}
		c := g.value(dt)
		if rng.Intn(25) == 0 {
			c = nil
		}
		if hasUnhashableKey(dt) {
			res.Count("tag/oddkey")
		}
		if hasEmptyComposite(dt) {
			res.Count("tag/empty-composite")
		}
		reps := repsFor(dt, c, rng)
		fixed := 2
		if hasUnhashableKey(dt) {
			fixed = 0
		}
		for j, rp := range pickReps(reps, i, fixed, 3) {
			r.roundTrip(vcase{dt, ver, c}, rp, j == 0)
		}
	}
	r.finish()
}

// ---------------------------------------------------------------------------------------------------------------------
// C12: wire formats

type specVector struct {
	name    string
	dt      datatype.DataType
	version primitive.ProtocolVersion
	c       *cv
	hex     string
	decOnly bool   // the bytes are not what an encoder should produce, only what a decoder must accept
	text    string // expected text when decOnly
}

func mustUdt(names []string, types ...datatype.DataType) datatype.DataType {
	u, err := datatype.NewUserDefined("ks", "t", names, types)
	must(err)
	return u
}

func cvList_(xs ...*cv) *cv  { return &cv{k: cvList, elems: append([]*cv{}, xs...)} }
func cvTuple_(xs ...*cv) *cv { return &cv{k: cvTuple, elems: append([]*cv{}, xs...)} }
func cvUdt_(xs ...*cv) *cv   { return &cv{k: cvUdt, elems: append([]*cv{}, xs...)} }
func cvText(s string) *cv    { return cvB([]byte(s)) }

func specVectors() []specVector {
	v2, v3, v4, v5 := primitive.ProtocolVersion2, primitive.ProtocolVersion3, primitive.ProtocolVersion4, primitive.ProtocolVersion5
	var out []specVector
	add := func(name string, dt datatype.DataType, v primitive.ProtocolVersion, c *cv, hx string) {
		out = append(out, specVector{name: name, dt: dt, version: v, c: c, hex: strings.ReplaceAll(hx, " ", "")})
	}
	// §5.24 varint examples
	for _, e := range []struct {
		v  int64
		hx string
	}{{0, "00"}, {1, "01"}, {127, "7f"}, {128, "0080"}, {129, "0081"}, {-1, "ff"}, {-128, "80"}, {-129, "ff7f"}} {
		add("varint table", datatype.Varint, v4, cvI64(e.v), e.hx)
	}
	// §5.5 date: days with the epoch centered at 2^31
	add("date", datatype.Date, v4, cvI64(math.MinInt32), "00000000")
	add("date", datatype.Date, v4, cvI64(0), "80000000")
	add("date", datatype.Date, v4, cvI64(1), "80000001")
	add("date", datatype.Date, v4, cvI64(-1), "7fffffff")
	add("date", datatype.Date, v4, cvI64(math.MaxInt32), "ffffffff")
	// §5.4 boolean
	add("boolean", datatype.Boolean, v3, &cv{k: cvBool, b: false}, "00")
	add("boolean", datatype.Boolean, v3, &cv{k: cvBool, b: true}, "01")
	// fixed-width integers, floats
	add("bigint", datatype.Bigint, v3, cvI64(1), "0000000000000001")
	add("bigint", datatype.Bigint, v3, cvI64(-1), "ffffffffffffffff")
	add("counter", datatype.Counter, v3, cvI64(math.MinInt64), "8000000000000000")
	add("int", datatype.Int, v2, cvI64(-2), "fffffffe")
	add("smallint", datatype.Smallint, v4, cvI64(256), "0100")
	add("tinyint", datatype.Tinyint, v4, cvI64(-128), "80")
	add("timestamp", datatype.Timestamp, v3, cvI64(-1), "ffffffffffffffff")
	add("time", datatype.Time, v4, cvI64(1), "0000000000000001")
	add("time", datatype.Time, v4, cvI64(timeMaxNanos), "00004e94914effff")
	add("float", datatype.Float, v3, mkFloat(0x3f800000), "3f800000")
	add("double", datatype.Double, v3, mkDouble(0x3ff0000000000000), "3ff0000000000000")
	// §3 [vint] (zig-zag: 0=0, -1=1, 1=2, -2=3, 2=4; 256000 unsigned = c3 e8 00), §5.8 duration
	add("duration vint", datatype.Duration, v5, &cv{k: cvDuration}, "000000")
	add("duration vint", datatype.Duration, v5, &cv{k: cvDuration, months: 1, days: 2, nanos: 3}, "020406")
	add("duration vint", datatype.Duration, v5, &cv{k: cvDuration, months: -1, days: -2, nanos: -3}, "010305")
	add("duration vint", datatype.Duration, v5, &cv{k: cvDuration, months: 128000}, "c3e800 00 00")
	add("duration vint", datatype.Duration, v5, &cv{k: cvDuration, months: 64, days: -65, nanos: 8192}, "8080 8081 c04000")
	add("duration vint", datatype.Duration, v5, &cv{k: cvDuration, nanos: math.MaxInt64}, "00 00 fffffffffffffffffe")
	add("duration vint", datatype.Duration, v5, &cv{k: cvDuration, nanos: math.MinInt64}, "00 00 ffffffffffffffffff")
	add("duration vint", datatype.Duration, v5, &cv{k: cvDuration, months: math.MaxInt32, days: math.MinInt32}, "f0fffffffe f0ffffffff 00")
	// §5.6 decimal: [int] scale, varint unscaled
	add("decimal", datatype.Decimal, v3, &cv{k: cvDecimal, i: big.NewInt(1), scale: 0}, "00000000 01")
	add("decimal", datatype.Decimal, v3, &cv{k: cvDecimal, i: big.NewInt(128), scale: -1}, "ffffffff 0080")
	add("decimal", datatype.Decimal, v3, &cv{k: cvDecimal, i: big.NewInt(-129), scale: 2}, "00000002 ff7f")
	add("decimal", datatype.Decimal, v3, &cv{k: cvDecimal, i: big.NewInt(0), scale: math.MinInt32}, "80000000 00")
	// §5.10 inet, §5.22 uuid, text
	add("inet", datatype.Inet, v3, mkInet([]byte{1, 2, 3, 4}), "01020304")
	add("inet", datatype.Inet, v3, mkInet(append(make([]byte, 15), 1)), "00000000000000000000000000000001")
	add("uuid", datatype.Uuid, v3, cvB(uuidSpecials()[2]), "123e4567e89b12d3a456426614174000")
	add("varchar", datatype.Varchar, v3, cvText("é"), "c3a9")
	add("ascii", datatype.Ascii, v3, cvText("abc"), "616263")
	add("blob", datatype.Blob, v3, cvB([]byte{0, 0xff}), "00ff")
	// §5.12–5.14 collections: [int] count and [bytes] elements; v2: [short] count and [short bytes] elements
	li := datatype.NewList(datatype.Int)
	add("list<int> v2", li, v2, cvList_(cvI64(1), cvI64(2)), "0002 0004 00000001 0004 00000002")
	add("list<int> v3", li, v3, cvList_(cvI64(1), cvI64(2)), "00000002 00000004 00000001 00000004 00000002")
	add("list<int> v5", li, v5, cvList_(cvI64(1), cvI64(2)), "00000002 00000004 00000001 00000004 00000002")
	add("list<int> dse2", li, primitive.ProtocolVersionDse2, cvList_(cvI64(1), cvI64(2)), "00000002 00000004 00000001 00000004 00000002")
	add("list<int> v2 empty", li, v2, cvList_(), "0000")
	add("list<int> v3 empty", li, v3, cvList_(), "00000000")
	add("list<int> v3 null element", li, v3, cvList_(cvI64(1), nil), "00000002 00000004 00000001 ffffffff")
	st := datatype.NewSet(datatype.Varchar)
	add("set<varchar> v2", st, v2, cvList_(cvText("a"), cvText("bc")), "0002 0001 61 0002 6263")
	add("set<varchar> v4", st, v4, cvList_(cvText("a"), cvText("bc")), "00000002 00000001 61 00000002 6263")
	add("set<varchar> v4 empty element", st, v4, cvList_(cvText("")), "00000001 00000000")
	mp := datatype.NewMap(datatype.Varchar, datatype.Int)
	one := &cv{k: cvMap, keys: []*cv{cvText("a")}, vals: []*cv{cvI64(1)}}
	add("map<varchar,int> v2", mp, v2, one, "0001 0001 61 0004 00000001")
	add("map<varchar,int> v3", mp, v3, one, "00000001 00000001 61 00000004 00000001")
	add("map<varchar,int> v3 null value", mp, v3, &cv{k: cvMap, keys: []*cv{cvText("a")}, vals: []*cv{nil}}, "00000001 00000001 61 ffffffff")
	ll := datatype.NewList(li)
	add("list<list<int>> v2", ll, v2, cvList_(cvList_(cvI64(1))), "0001 0008 0001 0004 00000001")
	add("list<list<int>> v3", ll, v3, cvList_(cvList_(cvI64(1))), "00000001 0000000c 00000001 00000004 00000001")
	// §5.21 tuple, §6 UDT: [bytes] per field in every version
	tp := datatype.NewTuple(datatype.Int, datatype.Varchar)
	for _, v := range []primitive.ProtocolVersion{v2, v3, v5} {
		add("tuple<int,varchar>", tp, v, cvTuple_(cvI64(1), cvText("a")), "00000004 00000001 00000001 61")
		add("tuple<int,varchar> null field", tp, v, cvTuple_(nil, cvText("a")), "ffffffff 00000001 61")
	}
	ud := mustUdt([]string{"a", "b"}, datatype.Int, datatype.Varchar)
	add("udt<int,varchar>", ud, v3, cvUdt_(cvI64(1), cvText("a")), "00000004 00000001 00000001 61")
	add("udt<int,varchar> null field", ud, v2, cvUdt_(cvI64(1), nil), "00000004 00000001 ffffffff")
	tl := datatype.NewTuple(li)
	add("tuple<list<int>> v2", tl, v2, cvTuple_(cvList_(cvI64(7))), "00000008 0001 0004 00000007")
	add("tuple<list<int>> v3", tl, v3, cvTuple_(cvList_(cvI64(7))), "0000000c 00000001 00000004 00000007")
	// decoder-only vectors
	dec := func(name string, dt datatype.DataType, v primitive.ProtocolVersion, hx, text string) {
		out = append(out, specVector{name: name, dt: dt, version: v, hex: strings.ReplaceAll(hx, " ", ""), decOnly: true, text: text})
	}
	dec("boolean: any other value denotes true", datatype.Boolean, v3, "02", "T")
	dec("boolean: any other value denotes true", datatype.Boolean, v3, "ff", "T")
	dec("UDT value with fewer fields than the type", ud, v3, "00000004 00000001", "<1,~>")
	dec("varint with redundant sign bytes", datatype.Varint, v3, "000001", "1")
	dec("varint with redundant sign bytes", datatype.Varint, v3, "ffff", "-1")
	return out
}

func runC12(res *lp.Result) {
	res.Rule = valueRule + "Formats: (1) the specification's own vectors (§5.24 varint table, §5.5 date, §5.4 boolean, §3 vint through " +
		"duration, §5.6 decimal, hand-built list/set/map bytes for v2 ([short] count, [short bytes] elements) and v3+, tuples, UDTs) " +
		"fed to the real codec both ways; (2) generated values with emphasis on varint/decimal/duration/date and collections in v2 " +
		"vs v3+, encoded from the preferred representation; the bytes must equal the output of a serializer written in the harness " +
		"from §3/§5/§6 of the specification and the Lean model's re-encoding (which a theorem ties to the Spec serializer); with a " +
		"map of more than one entry only the length is compared; (3) sizes that v2 cannot express (elements above 65535 bytes, more " +
		"than 65535 elements). Non-trivial = value is not NULL, zero or empty; distinct by (type, version, value)."
	rng := lp.NewRng(*seed)
	largeCollections(res, "C12")
	usedDestinationsAndExtremes(res, "C12")
	r := newValRunner(res, "C12")
	// (1) vectors
	for _, sv := range specVectors() {
		raw, err := hex.DecodeString(sv.hex)
		must(err)
		id := fmt.Sprintf("C12 vector %s: %s %s bytes %s", sv.name, verName(sv.version), typeName(sv.dt), sv.hex)
		res.Count("vector/" + strings.TrimSuffix(strings.Fields(sv.name)[0], ":"))
		codec := r.codec(sv.dt, id)
		if codec == nil {
			continue
		}
		want := sv.text
		if !sv.decOnly {
			want = render(sv.c)
			pt, _, _ := preferredType(sv.dt)
			gv, ok := toGo(sv.c, sv.dt, pt)
			if !ok {
				panic("harness: vector not representable: " + sv.name)
			}
			var enc []byte
			var eerr error
			if p := guard(func() { enc, eerr = codec.Encode(gv.Interface(), sv.version) }); p != nil {
				r.rep.violation("codec panics: Encode: "+p.words, id, p.full)
			} else if eerr != nil {
				r.rep.violation("spec vector: value refused by the encoder: "+sv.name, id, eerr.Error())
			} else if !bytes.Equal(enc, raw) {
				r.rep.violation("spec vector: encoded bytes differ from the specification's format: "+sv.name, id, hexOrMark(enc))
			}
			if sb, _, ok := specEncode(sv.c, sv.dt, sv.version); !ok || !bytes.Equal(sb, raw) {
				r.rep.add("disagreement", "harness self-check failed: the harness serializer does not reproduce a spec vector", id, hexOrMark(sb), sv.hex)
			}
		}
		res.Case("vector|"+id, true)
		var goStatus string
		for _, t := range []reflect.Type{tIface, mustPref(sv.dt)} {
			o, p := decodeInto(codec, sv.dt, sv.version, raw, t)
			goStatus = o.status
			switch {
			case p != nil:
				r.rep.violation("codec panics: Decode: "+p.words, id, p.full)
			case o.status != "ok":
				r.rep.violation("spec vector: bytes in the specification's format refused by the decoder: "+sv.name, id+" into "+t.String(), o.err)
			case o.text != want:
				r.rep.violation("spec vector: bytes in the specification's format decoded to another value: "+sv.name, id+" into "+t.String(), o.text+" instead of "+want)
			}
		}
		r.q.val(sv.version, sv.dt, raw, func(line string, a modelAnswer) {
			switch {
			case a.status != goStatus:
				r.rep.add("disagreement", "model/implementation differ on val: status on a spec vector", line, goStatus, a.raw)
			case a.status == "ok" && a.text != want:
				r.rep.add("disagreement", "model/implementation differ on val: decoded value", line, want, a.text)
			case a.status == "ok" && !sv.decOnly && a.rehex != sv.hex:
				r.rep.add("disagreement", "model/implementation differ on val: re-encoding of the decoded value", line, sv.hex, a.rehex)
			default:
				res.Count("model/agree")
			}
		})
	}
	// the date examples of §5.5 as calendar dates
	for _, e := range []struct {
		y    int
		m    time.Month
		d    int
		hx   string
		days int64
	}{{1970, 1, 1, "80000000", 0}, {-5877641, 6, 23, "00000000", math.MinInt32}, {5881580, 7, 11, "ffffffff", math.MaxInt32}, {1969, 12, 31, "7fffffff", -1}, {2000, 2, 29, "80002b08", 11016}} {
		tm := time.Date(e.y, e.m, e.d, 0, 0, 0, 0, time.UTC)
		id := fmt.Sprintf("C12 vector date %04d-%02d-%02d bytes %s", e.y, e.m, e.d, e.hx)
		res.Case(id, true)
		res.Count("vector/date-calendar")
		enc, err := datacodec.Date.Encode(tm, primitive.ProtocolVersion4)
		if err != nil || hex.EncodeToString(enc) != e.hx {
			r.rep.violation("spec vector: encoded bytes differ from the specification's format: date as time.Time", id, fmt.Sprint(hexOrMark(enc), " ", err))
		}
		var back time.Time
		raw, _ := hex.DecodeString(e.hx)
		if _, err := datacodec.Date.Decode(raw, &back, primitive.ProtocolVersion4); err != nil || !back.Equal(tm) {
			r.rep.violation("spec vector: bytes in the specification's format decoded to another value: date as time.Time", id, fmt.Sprint(back, " ", err))
		}
	}
	// (2) generated values, preferred representation, bytes against the harness serializer and the model
	check := func(vc vcase) {
		pt, p, err := preferredType(vc.dt)
		if p != nil || err != nil {
			res.Count("skipped/no-preferred-type")
			return
		}
		enc, ok := r.roundTrip(vc, rep{"preferred", pt}, true)
		if !ok {
			return
		}
		sb, _, sok := specEncode(vc.c, vc.dt, vc.version)
		if !sok {
			res.Count("spec-serializer/not-expressible")
			return
		}
		id := vc.id("C12", "preferred")
		multi := hasMultiEntryMap(vc.c)
		switch {
		case hexOrMark(sb) == hexOrMark(enc):
			res.Count("spec-serializer/equal")
		case multi && len(sb) == len(enc):
			res.Count("spec-serializer/equal-length")
		case hasEmptyComposite(vc.dt):
			r.rep.violation(emptyCompositeWhat, id, hexOrMark(enc)+" instead of "+hexOrMark(sb))
		default:
			r.rep.violation("encoded bytes differ from the specification's format: "+shortType(vc.dt), id, hexOrMark(enc)+" instead of "+hexOrMark(sb))
		}
		// a scalar in every OTHER Go type it is accepted in (a time of day as a time.Time in some zone, an integer in another width,
		// a number as a string …): whatever the representation, the bytes are the specification's bytes for the value
		if isScalar(vc.dt) {
			for ai, alt := range scalarAlts(vc.dt) {
				if alt == pt || (ai+len(id))%2 == 0 {
					continue
				}
				if enc2, ok2 := r.roundTrip(vc, rep{alt.String(), alt}, false); ok2 && hexOrMark(enc2) != hexOrMark(sb) && !hasEmptyComposite(vc.dt) {
					r.rep.violation("encoded bytes differ from the specification's format: "+shortType(vc.dt)+" via "+alt.String(), vc.id("C12", alt.String()), hexOrMark(enc2)+" instead of "+hexOrMark(sb))
				}
			}
		}
		// the specification's bytes must decode to the value, too
		codec := r.codec(vc.dt, id)
		o, p2 := decodeInto(codec, vc.dt, vc.version, sb, tIface)
		switch {
		case p2 != nil:
			r.rep.violation("codec panics: Decode into *interface{}: "+p2.words, id+" bytes "+hexOrMark(sb), p2.full)
		case o.status != "ok" || o.text != render(vc.c):
			what := "bytes in the specification's format do not decode to the value: " + shortType(vc.dt)
			if hasEmptyComposite(vc.dt) {
				what = emptyCompositeWhat
			}
			r.rep.violation(what, id+" bytes "+hexOrMark(sb), o.status+" "+o.text+o.err)
		default:
			res.Count("spec-serializer/decodes")
		}
	}
	n := 0
	for _, dt := range allScalarTypes() {
		for _, c := range scalarSpecials(dt) {
			n++
			check(vcase{dt, versionFor(n), c})
		}
	}
	formats := []datatype.DataType{datatype.Varint, datatype.Decimal, datatype.Duration, datatype.Date, datatype.Varint, datatype.Decimal,
		datatype.Time, datatype.Timestamp, datatype.Inet, datatype.Boolean, datatype.Smallint, datatype.Varchar}
	cases := 700
	if thorough() {
		cases = 14000
	}
	for i := 0; i < cases; i++ {
		var dt datatype.DataType
		leaf := func() datatype.DataType {
			if rng.Intn(3) == 0 {
				return genScalarType(rng)
			}
			return formats[rng.Intn(len(formats))]
		}
		switch rng.Intn(9) {
		case 0:
			dt = leaf()
		case 1:
			dt = datatype.NewList(leaf())
		case 2:
			dt = datatype.NewSet(leaf())
		case 3:
			k := leaf()
			for !hashableKey(k) {
				k = leaf()
			}
			dt = datatype.NewMap(k, leaf())
		case 4:
			dt = datatype.NewTuple(leaf(), leaf())
		case 5:
			dt = mustUdt([]string{"x", "y"}, leaf(), datatype.NewList(leaf()))
		case 6:
			dt = datatype.NewList(datatype.NewSet(leaf()))
		case 7:
			dt = datatype.NewList(datatype.NewTuple(leaf(), datatype.NewList(leaf())))
		default:
			dt = genType(rng, 2)
			if hasUnhashableKey(dt) {
				continue
			}
		}
		ver := versionFor(i)
		if i%3 == 0 {
			ver = primitive.ProtocolVersion2
		}
		g := &valueGen{rng: rng, version: ver, nullProb: 6}
		check(vcase{dt, ver, g.value(dt)})
	}
	// (3) what v2 cannot express
	big1 := bytes.Repeat([]byte{0x61}, 65536)
	for _, e := range []struct {
		name string
		dt   datatype.DataType
		c    *cv
	}{
		{"list element", datatype.NewList(datatype.Blob), cvList_(cvB(big1))},
		{"set element", datatype.NewSet(datatype.Varchar), cvList_(cvB(big1))},
		{"map key", datatype.NewMap(datatype.Varchar, datatype.Int), &cv{k: cvMap, keys: []*cv{cvB(big1)}, vals: []*cv{cvI64(1)}}},
		{"map value", datatype.NewMap(datatype.Int, datatype.Blob), &cv{k: cvMap, keys: []*cv{cvI64(1)}, vals: []*cv{cvB(big1)}}},
		{"nested list", datatype.NewList(datatype.NewList(datatype.Blob)), cvList_(cvList_(cvB(big1[:40000]), cvB(big1[:40000])))},
	} {
		for _, ver := range []primitive.ProtocolVersion{primitive.ProtocolVersion2, primitive.ProtocolVersion3} {
			id := fmt.Sprintf("C12 %s %s with a 65536-byte %s", verName(ver), typeName(e.dt), e.name)
			res.Case(id, true)
			res.Count("v2-limits/" + verName(ver))
			codec := r.codec(e.dt, id)
			pt := mustPref(e.dt)
			gv, _ := toGo(e.c, e.dt, pt)
			var enc []byte
			var err error
			if p := guard(func() { enc, err = codec.Encode(gv.Interface(), ver) }); p != nil {
				r.rep.violation("codec panics: Encode: "+p.words, id, p.full)
				continue
			}
			if ver == primitive.ProtocolVersion2 {
				if err == nil {
					o, _ := decodeInto(codec, e.dt, ver, enc, pt)
					if o.status != "ok" || o.text != render(e.c) {
						r.rep.violation("v2 collection element longer than 65535 bytes is not refused: "+e.name, id, fmt.Sprintf("%d bytes written, starting %x; decoding them: %s %s", len(enc), enc[:12], o.status, trunc(o.err)))
					}
				}
			} else if err != nil {
				r.rep.violation("valid value refused by the encoder: "+shortType(e.dt)+" via preferred", id, err.Error())
			} else if sb, _, _ := specEncode(e.c, e.dt, ver); !bytes.Equal(sb, enc) {
				r.rep.violation("encoded bytes differ from the specification's format: "+shortType(e.dt), id, "")
			}
		}
	}
	for _, ver := range []primitive.ProtocolVersion{primitive.ProtocolVersion2, primitive.ProtocolVersion3} {
		many := make([]int8, 65536)
		id := fmt.Sprintf("C12 %s list<tinyint> with 65536 elements", verName(ver))
		res.Case(id, true)
		res.Count("v2-limits/" + verName(ver))
		codec, _ := datacodec.NewCodec(datatype.NewList(datatype.Tinyint))
		enc, err := codec.Encode(many, ver)
		if ver == primitive.ProtocolVersion2 && err == nil {
			r.rep.violation("v2 collection with more than 65535 elements is not refused", id, fmt.Sprintf("%d bytes, starting %x", len(enc), enc[:8]))
		}
		if ver == primitive.ProtocolVersion3 && (err != nil || len(enc) != 4+65536*5 || binary.BigEndian.Uint32(enc) != 65536) {
			r.rep.violation("valid value refused by the encoder: list<tinyint> via []int8", id, fmt.Sprint(err))
		}
	}
	r.finish()
}

func mustPref(dt datatype.DataType) reflect.Type {
	t, p, err := preferredType(dt)
	if p != nil || err != nil {
		panic("harness: no preferred type for " + typeName(dt))
	}
	return t
}

// ---------------------------------------------------------------------------------------------------------------------
// C14: NULL

// sampleValue: a fixed non-null, non-zero value of the type (collections with two elements), to pre-fill destinations and as the
// base of the null-position enumeration
func sampleValue(dt datatype.DataType, salt int) *cv {
	switch t := dt.(type) {
	case *datatype.List:
		return cvList_(sampleValue(t.ElementType, salt), sampleValue(t.ElementType, salt+1))
	case *datatype.Set:
		return cvList_(sampleValue(t.ElementType, salt), sampleValue(t.ElementType, salt+1))
	case *datatype.Map:
		return &cv{k: cvMap, keys: []*cv{sampleValue(t.KeyType, salt), sampleValue(t.KeyType, salt+1)},
			vals: []*cv{sampleValue(t.ValueType, salt), sampleValue(t.ValueType, salt+1)}}
	case *datatype.Tuple:
		c := cvTuple_()
		for i, ft := range t.FieldTypes {
			c.elems = append(c.elems, sampleValue(ft, salt+i))
		}
		return c
	case *datatype.UserDefined:
		c := cvUdt_()
		for i, ft := range t.FieldTypes {
			c.elems = append(c.elems, sampleValue(ft, salt+i))
		}
		return c
	}
	s := int64(salt%50 + 1)
	switch dt.Code() {
	case primitive.DataTypeCodeBoolean:
		return &cv{k: cvBool, b: salt%2 == 0}
	case primitive.DataTypeCodeFloat:
		return mkFloat(uint64(math.Float32bits(float32(s) + 0.5)))
	case primitive.DataTypeCodeDouble:
		return mkDouble(math.Float64bits(float64(s) + 0.25))
	case primitive.DataTypeCodeDecimal:
		return &cv{k: cvDecimal, i: big.NewInt(s * 1000), scale: int32(s)}
	case primitive.DataTypeCodeDuration:
		return &cv{k: cvDuration, months: int32(s), days: int32(s + 1), nanos: s + 2}
	case primitive.DataTypeCodeInet:
		return mkInet([]byte{10, 0, 0, byte(s)})
	case primitive.DataTypeCodeUuid, primitive.DataTypeCodeTimeuuid:
		return cvB(append(bytes.Repeat([]byte{0x11}, 15), byte(s)))
	case primitive.DataTypeCodeVarchar, primitive.DataTypeCodeAscii:
		return cvText(fmt.Sprintf("text%d", s))
	case primitive.DataTypeCodeBlob, primitive.DataTypeCodeCustom:
		return cvB([]byte{0xca, 0xfe, byte(s)})
	}
	return cvI64(s)
}

func cloneCv(c *cv) *cv {
	if c == nil {
		return nil
	}
	d := *c
	cp := func(xs []*cv) []*cv {
		if xs == nil {
			return nil
		}
		out := make([]*cv, len(xs))
		for i, x := range xs {
			out[i] = cloneCv(x)
		}
		return out
	}
	d.elems, d.keys, d.vals = cp(c.elems), cp(c.keys), cp(c.vals)
	return &d
}

type nullVariant struct {
	c    *cv
	path string
	kind string // element | key | value | field
}

// nullVariants: the value with a null at each element, key, value and field position, one at a time (all depths)
func nullVariants(c *cv, dt datatype.DataType) []nullVariant {
	var out []nullVariant
	var walk func(cur *cv, t datatype.DataType, path string, set func(*cv))
	root := cloneCv(c)
	walk = func(cur *cv, t datatype.DataType, path string, set func(*cv)) {
		if cur == nil {
			return
		}
		slot := func(xs []*cv, i int, ct datatype.DataType, kind, p string) {
			old := xs[i]
			xs[i] = nil
			out = append(out, nullVariant{cloneCv(root), p, kind})
			xs[i] = old
			walk(old, ct, p, func(n *cv) { xs[i] = n })
		}
		switch d := t.(type) {
		case *datatype.List:
			for i := range cur.elems {
				slot(cur.elems, i, d.ElementType, "element", fmt.Sprintf("%s[%d]", path, i))
			}
		case *datatype.Set:
			for i := range cur.elems {
				slot(cur.elems, i, d.ElementType, "element", fmt.Sprintf("%s[%d]", path, i))
			}
		case *datatype.Map:
			for i := range cur.keys {
				slot(cur.keys, i, d.KeyType, "key", fmt.Sprintf("%s.key%d", path, i))
				slot(cur.vals, i, d.ValueType, "value", fmt.Sprintf("%s.value%d", path, i))
			}
		case *datatype.Tuple:
			for i := range cur.elems {
				slot(cur.elems, i, d.FieldTypes[i], "field", fmt.Sprintf("%s(%d)", path, i))
			}
		case *datatype.UserDefined:
			for i := range cur.elems {
				slot(cur.elems, i, d.FieldTypes[i], "field", fmt.Sprintf("%s<%d>", path, i))
			}
		}
	}
	walk(root, dt, "", nil)
	return out
}

// inV2Collection: the null at `path` sits directly in a list/set/map (as opposed to a tuple/UDT field)
func (v nullVariant) inCollection() bool { return v.kind != "field" }

func c14Types(rng *lp.Rng) []datatype.DataType {
	li := datatype.NewList(datatype.Int)
	ud := mustUdt([]string{"a", "b", "c"}, datatype.Int, datatype.Varchar, li)
	out := allScalarTypes()
	out = append(out, li, datatype.NewSet(datatype.Varchar), datatype.NewMap(datatype.Int, datatype.Varchar), datatype.NewMap(datatype.Varchar, li),
		datatype.NewTuple(datatype.Int, datatype.Varchar), ud, datatype.NewList(li), datatype.NewList(datatype.NewTuple(datatype.Int, datatype.Blob)),
		datatype.NewTuple(li, ud), datatype.NewSet(datatype.Varint), datatype.NewList(datatype.Blob), datatype.NewMap(datatype.Uuid, datatype.NewMap(datatype.Int, datatype.Double)),
		datatype.NewTuple(datatype.NewTuple(datatype.Timestamp, datatype.Inet), datatype.Decimal), datatype.NewList(ud),
		datatype.NewMap(datatype.Bigint, datatype.NewTuple(datatype.Duration, datatype.NewSet(datatype.Date))))
	n := 25
	if thorough() {
		n = 500
	}
	for len(out) < 36+n {
		dt := genType(rng, 1+rng.Intn(3))
		if !isScalar(dt) && !hasUnhashableKey(dt) && !hasEmptyComposite(dt) {
			out = append(out, dt)
		}
	}
	return out
}

func runC14(res *lp.Result) {
	res.Rule = "For every scalar codec and a set of fixed and generated nested types: (a) Encode of nil, of interface{}(nil), of a typed nil " +
		"pointer to every accepted Go type, and (non-scalars) of a nil slice/map must return nil bytes and no error; (b) Decode of " +
		"nil bytes into every accepted destination type pre-filled with a non-zero value must report wasNull, no error, and leave " +
		"the destination at its zero value (nil for *interface{}); Decode of an EMPTY non-nil byte string is recorded per type and " +
		"compared with the model (NULL for every type except ascii/varchar/blob/custom, where it is the empty value); (c) a null at " +
		"every element, map value, tuple field and UDT field position (one at a time, all depths) of a two-element sample value " +
		"survives the round trip through the preferred type, a pointer to it and *interface{} for versions ≥ 3 (map keys: counted " +
		"only); (d) in v2 a list/set/map with a null element, key or value must be refused by Encode, while null tuple/UDT fields " +
		"round-trip in every version. Non-trivial = every case (each involves a NULL); distinct by (check, type, version, Go type, position)."
	rng := lp.NewRng(*seed)
	r := newValRunner(res, "C14")
	usedDestinationsAndExtremes(res, "C14")
	res.Notes = append(res.Notes,
		"distribution keys empty-input/<type>/<null|value|error>: what Decode does with an empty non-nil byte string, per type (summed over destinations)",
		"distribution keys nil-scalar-slice/<type>/<go type>/<result>: Encode of a nil []byte, net.IP or []rune for a scalar type (recorded, not judged): "+
			"~ = NULL, - = empty value, error = refused",
		"null map keys (versions ≥ 3) are recorded under null-map-key/…, not judged")
	types := c14Types(rng)
	for ti, dt := range types {
		tn := typeName(dt)
		codec := r.codec(dt, "C14 "+tn)
		if codec == nil {
			continue
		}
		sample := sampleValue(dt, ti)
		// the accepted Go types for this CQL type
		var goTypes []reflect.Type
		if isScalar(dt) {
			goTypes = scalarAlts(dt)
		} else {
			for _, rp := range repsFor(dt, sample, rng) {
				if !isPtrRep(rp.t) {
					goTypes = append(goTypes, rp.t)
				}
			}
		}
		res.Count("type/" + kindName(dt))
		// (a) encoding NULL
		type src struct {
			name string
			v    interface{}
		}
		srcs := []src{{"nil", nil}, {"interface{}(nil)", interface{}(nil)}}
		for _, t := range goTypes {
			if t.Kind() != reflect.Ptr {
				srcs = append(srcs, src{"nil *" + t.String(), reflect.Zero(reflect.PtrTo(t)).Interface()})
			} else {
				srcs = append(srcs, src{"nil " + t.String(), reflect.Zero(t).Interface()})
			}
			if !isScalar(dt) && (t.Kind() == reflect.Slice || t.Kind() == reflect.Map) {
				srcs = append(srcs, src{"nil " + t.String(), reflect.Zero(t).Interface()})
			}
			if isScalar(dt) && (t.Kind() == reflect.Slice) {
				// nil []byte / net.IP / []rune given for a scalar: recorded, not judged (the documentation promises NULL for "a nil value")
				enc, err := codec.Encode(reflect.Zero(t).Interface(), primitive.ProtocolVersion4)
				res.Count(fmt.Sprintf("nil-scalar-slice/%s/%s/%s", tn, t, map[bool]string{true: "error", false: hexOrMark(enc)}[err != nil]))
			}
		}
		for si, s := range srcs {
			ver := versionFor(si + ti)
			id := fmt.Sprintf("C14 encode %s %s from %s", verName(ver), tn, s.name)
			res.Case(id, true)
			res.Count("check/encode-null")
			var enc []byte
			var err error
			if p := guard(func() { enc, err = codec.Encode(s.v, ver) }); p != nil {
				r.rep.violation("codec panics: Encode: "+p.words, id, p.full+" @ "+p.frame)
			} else if err != nil {
				r.rep.violation("encoding NULL returns an error: "+kindName(dt)+" from "+repName(dt, s.name), id, err.Error())
			} else if enc != nil {
				r.rep.violation("encoding NULL does not return nil bytes: "+kindName(dt)+" from "+repName(dt, s.name), id, hexOrMark(enc))
			}
		}
		// (b) decoding NULL and the empty byte string
		dests := append([]reflect.Type{tIface}, goTypes...)
		for di, t := range dests {
			for _, input := range [][]byte{nil, {}} {
				ver := versionFor(di + ti)
				id := fmt.Sprintf("C14 decode %s %s bytes %s into *%s", verName(ver), tn, hexOrMark(input), destName(t))
				res.Case(id, true)
				dest, result := destFor(t)
				// pre-fill
				if t == tIface {
					*(dest.(*interface{})) = "pre-filled"
				} else if gv, ok := toGo(sample, dt, t); ok {
					if isPtrRep(t) || t == tBigIntPtr || t == tBigFloatPtr {
						reflect.ValueOf(dest).Elem().Set(gv.Elem())
					} else {
						reflect.ValueOf(dest).Elem().Set(gv)
					}
				} else {
					res.Count("prefill-not-possible/" + destName(t))
				}
				var wasNull bool
				var err error
				if p := guard(func() { wasNull, err = codec.Decode(input, dest, ver) }); p != nil {
					r.rep.violation("codec panics: Decode: "+p.words, id, p.full+" @ "+p.frame)
					continue
				}
				got := result()
				isZero := got.IsZero()
				if got.Kind() == reflect.Ptr && !got.IsNil() { // *big.Int, *big.Float destinations: the pointee
					isZero = got.Elem().IsZero()
				}
				if input == nil {
					res.Count("check/decode-null")
					switch {
					case err != nil:
						r.rep.violation("decoding NULL returns an error: "+kindName(dt)+" into "+repName(dt, destName(t)), id, err.Error())
					case !wasNull:
						r.rep.violation("decoding NULL does not report wasNull: "+kindName(dt)+" into "+repName(dt, destName(t)), id, fmt.Sprint(got))
					case !isZero:
						r.rep.violation("decoding NULL does not reset the destination to its zero value: "+kindName(dt)+" into "+repName(dt, destName(t)), id, fmt.Sprint(got))
					}
					continue
				}
				// empty, non-nil
				res.Count("check/decode-empty")
				outcome := "error"
				text := ""
				if err == nil && wasNull {
					outcome, text = "null", "~"
					if !isZero {
						r.rep.violation("decoding NULL does not reset the destination to its zero value: "+kindName(dt)+" into "+repName(dt, destName(t)), id, fmt.Sprint(got))
					}
				} else if err == nil {
					c, ferr := fromGo(got, dt)
					outcome, text = "value", render(c)
					if ferr != nil {
						outcome = "unreadable"
					}
				}
				res.Count("empty-input/" + kindName(dt) + "/" + outcome)
				if di == 0 {
					r.q.val(ver, dt, input, func(line string, a modelAnswer) {
						if (a.status == "ok") != (err == nil) || a.status == "ok" && a.text != text {
							r.rep.add("disagreement", "model/implementation differ on val: empty byte string", line, outcome+" "+text, a.raw)
						} else {
							res.Count("model/agree")
						}
					})
				}
			}
		}
		if isScalar(dt) {
			continue
		}
		// (c), (d) nulls inside
		pt, pp, perr := preferredType(dt)
		if pp != nil || perr != nil {
			continue
		}
		reps := []rep{{"preferred", pt}, {"*preferred", reflect.PtrTo(pt)}}
		for vi, nv := range nullVariants(sample, dt) {
			for _, ver := range []primitive.ProtocolVersion{primitive.ProtocolVersion2, versionFor(1 + (vi+ti)%5)} {
				id := fmt.Sprintf("C14 %s %s null %s at %s value %s", verName(ver), tn, nv.kind, nv.path, render(nv.c))
				vc := vcase{dt, ver, nv.c}
				if ver == primitive.ProtocolVersion2 && v2Refused(nv.c, dt) {
					res.Case(id, true)
					res.Count("check/v2-refusal/" + nv.kind)
					gv, _ := toGo(nv.c, dt, pt)
					var enc []byte
					var err error
					if p := guard(func() { enc, err = codec.Encode(gv.Interface(), ver) }); p != nil {
						r.rep.violation("codec panics: Encode: "+p.words, id, p.full+" @ "+p.frame)
					} else if err == nil {
						r.rep.violation("v2 collection with a null element is not refused", id, hexOrMark(enc))
					}
					continue
				}
				if nv.kind == "key" {
					// not promised by the documentation: counted only
					gv, ok := toGo(nv.c, dt, pt)
					if !ok {
						continue
					}
					enc, err := codec.Encode(gv.Interface(), ver)
					outcome := "encode-error"
					if err == nil {
						o, p := decodeInto(codec, dt, ver, enc, pt)
						switch {
						case p != nil:
							outcome = "panic"
						case o.status == "ok" && o.text == render(nv.c):
							outcome = "round-trips"
						default:
							outcome = "changed"
						}
					}
					res.Count("null-map-key/" + outcome)
					continue
				}
				res.Count("check/null-position/" + nv.kind)
				for j, rp := range reps {
					r.roundTrip(vc, rp, j == 0)
				}
				// … and into a destination that is IN USE: pre-filled with the null-free sample of the same shape; a null must
				// reset its slot (a stale element, field or pointer showing through means the null did not survive)
				for _, t := range goTypes {
					if hasCode(dt, primitive.DataTypeCodeMap) {
						break // a map destination in use keeps its old entries (pointer keys never coincide): not a matter of nulls
					}
					src, ok := toGo(nv.c, dt, t)
					pre, ok2 := toGo(sample, dt, t)
					if !ok || !ok2 || isPtrRep(t) {
						continue
					}
					var enc []byte
					var err error
					if p := guard(func() { enc, err = codec.Encode(src.Interface(), ver) }); p != nil || err != nil {
						continue // judged by the round trips above
					}
					id2 := fmt.Sprintf("%s decoded into a %s holding %s", id, destName(t), render(sample))
					res.Case(id2, true)
					res.Count("check/null-into-used-destination")
					dest, result := destFor(t)
					reflect.ValueOf(dest).Elem().Set(pre)
					var derr error
					if p := guard(func() { _, derr = codec.Decode(enc, dest, ver) }); p != nil {
						r.rep.violation("codec panics: Decode: "+p.words, id2, p.full+" @ "+p.frame)
						continue
					}
					if derr != nil {
						r.rep.violation("value with a null inside refused when decoded into a destination in use: "+kindName(dt), id2, derr.Error())
						continue
					}
					back, ferr := fromGo(result(), dt)
					if ferr != nil || render(back) != render(nv.c) {
						r.rep.violation("a null "+nv.kind+" decoded into a destination in use leaves the old content in place: "+kindName(dt)+" into "+repName(dt, destName(t)), id2,
							fmt.Sprint("destination now holds ", render(back), ", the bytes denote ", render(nv.c), " ", ferr))
					}
				}
			}
		}
		// a UDT value that carries fewer fields than its type (written before a field was added): the missing trailing fields
		// are null — in a fresh destination and in one that is in use
		if u, ok := dt.(*datatype.UserDefined); ok && len(u.FieldTypes) >= 2 && sample != nil && len(sample.elems) == len(u.FieldTypes) {
			ver := versionFor(2 + ti%4)
			full, _, okEnc := specEncode(sample, dt, ver)
			for keep := 1; okEnc && keep < len(u.FieldTypes); keep++ {
				off := 0
				for f := 0; f < keep && off+4 <= len(full); f++ {
					n := int(int32(binary.BigEndian.Uint32(full[off:])))
					off += 4
					if n > 0 {
						off += n
					}
				}
				short := full[:off]
				want := &cv{k: cvUdt, elems: append(append([]*cv{}, sample.elems[:keep]...), make([]*cv, len(u.FieldTypes)-keep)...)}
				for _, t := range append([]reflect.Type{tIface}, goTypes...) {
					if isPtrRep(t) {
						continue
					}
					if _, holds := toGo(want, dt, t); t != tIface && !holds {
						continue
					}
					for _, used := range []bool{false, true} {
						id := fmt.Sprintf("C14 %s %s value with only %d of %d fields, bytes %s, into a %s (in use: %v)", verName(ver), tn, keep, len(u.FieldTypes), hexOrMark(short), destName(t), used)
						res.Case(id, true)
						res.Count("check/udt-fewer-fields")
						dest, result := destFor(t)
						if used {
							if t == tIface {
								continue
							}
							pre, _ := toGo(sample, dt, t)
							reflect.ValueOf(dest).Elem().Set(pre)
						}
						var derr error
						if p := guard(func() { _, derr = codec.Decode(short, dest, ver) }); p != nil {
							r.rep.violation("codec panics: Decode: "+p.words, id, p.full+" @ "+p.frame)
							continue
						}
						if derr != nil {
							r.rep.violation("UDT value with fewer fields than its type is refused", id, derr.Error())
							continue
						}
						got := result()
						if t == tIface {
							got = got.Elem()
						}
						back, ferr := fromGo(got, dt)
						if ferr != nil || render(back) != render(want) {
							r.rep.violation("the missing trailing fields of a UDT value are not decoded as nulls", id, fmt.Sprint("destination holds ", render(back), ", expected ", render(want), " ", ferr))
						}
					}
				}
			}
		}
	}
	r.finish()
}

func destName(t reflect.Type) string {
	if t == tIface {
		return "interface {}"
	}
	return t.String()
}

// repName: Go type names of scalars are stable; the generated struct types of other CQL types are not, so only their kind is named
func repName(dt datatype.DataType, goName string) string {
	if isScalar(dt) || len(goName) < 40 {
		return goName
	}
	return goName[:40] + "…"
}

// ---------------------------------------------------------------------------------------------------------------------
// C04V: the value decoders never panic

func containsTime(dt datatype.DataType) bool { return hasCode(dt, primitive.DataTypeCodeTime) }

func runC04V(res *lp.Result) {
	res.Rule = "For generated (type, version) pairs incl. maps keyed by blob/inet/list: encodings in the specification's format of generated " +
		"values, then mutated: every length/count field set to −1, −2, 0, 1, 0x7fffffff, 0xffff; truncation at every offset up to 64 " +
		"and sampled beyond; single bit flips (all for ≤ 16 bytes, 32 sampled otherwise); splices of two encodings of the type; random " +
		"bytes; nil and empty input. Each input is decoded under recover into *interface{} and into a typed destination (typed slices, " +
		"maps with pointer keys, structs for tuples/UDTs, pointer leaves, `time` as int64 so that every wire value fits). A panic is a " +
		"violation. Status (ok/error) and, when ok, the canonical text are compared with the Lean model's decoder; tolerated and " +
		"counted: `time` outside 0..86399999999999 is refused by the time.Duration representation; maps decoded with pointer keys keep " +
		"duplicate keys (text comparison skipped); IPv4-mapped 16-byte addresses. The heap watchdog of main.go guards allocations. " +
		"Non-trivial = input differs from a valid encoding; distinct by (type, version, input)."
	rng := lp.NewRng(*seed)
	r := newValRunner(res, "C04V")
	nTypes := 20
	if thorough() {
		nTypes = 400
	}
	fixed := []datatype.DataType{datatype.NewMap(datatype.Blob, datatype.Int), datatype.NewMap(datatype.Inet, datatype.Varchar),
		datatype.NewMap(datatype.NewList(datatype.Int), datatype.Int), datatype.NewList(datatype.NewMap(datatype.Blob, datatype.Int)),
		datatype.NewTuple(), mustUdt(nil), datatype.NewList(datatype.Int), datatype.NewMap(datatype.Varchar, datatype.NewList(datatype.Varint)),
		// maps whose key has no comparable Go representation of any shape: UDT (a Go map), map, set, tuple — alone and nested
		datatype.NewMap(mustUdt([]string{"a"}, datatype.Int), datatype.Int), datatype.NewMap(datatype.NewMap(datatype.Int, datatype.Int), datatype.Varchar),
		datatype.NewMap(datatype.NewSet(datatype.Int), datatype.Int), datatype.NewMap(datatype.NewTuple(datatype.Int), datatype.Int),
		datatype.NewList(datatype.NewMap(mustUdt([]string{"a"}, datatype.Int), datatype.Int)),
		mustUdt([]string{"m"}, datatype.NewMap(datatype.NewMap(datatype.Int, datatype.Int), datatype.Int))}
	types := append(allScalarTypes(), fixed...)
	for len(types) < 35+nTypes {
		types = append(types, genType(rng, 1+rng.Intn(3)))
	}
	wide := &typeStyle{name: "wide", leafPtr: true, ptrKeys: true, timeAsInt: true}
	for ti, dt := range types {
		ver := versionFor(ti)
		if ti%4 == 0 {
			ver = primitive.ProtocolVersion2
		}
		tn := typeName(dt)
		codec := r.codec(dt, "C04V "+tn)
		if codec == nil {
			continue
		}
		var typed reflect.Type
		if t, ok := wide.build(dt, nil); ok { // maps keyed by blob/inet get *string keys; none for list keys
			typed = t
		}
		if hasUnhashableKey(dt) {
			res.Count("tag/oddkey")
		}
		var arrayDests []reflect.Type
		switch x := dt.(type) {
		case *datatype.List, *datatype.Set:
			elemT := func() datatype.DataType {
				if l, ok := x.(*datatype.List); ok {
					return l.ElementType
				}
				return x.(*datatype.Set).ElementType
			}()
			var ets []reflect.Type
			if et, ok := wide.build(elemT, nil); ok {
				ets = append(ets, et)
				if et.Kind() == reflect.Ptr {
					ets = append(ets, et.Elem())
				}
			}
			if isScalar(elemT) {
				// every Go type the scalar is accepted in, plain and by pointer
				for _, alt := range scalarAlts(elemT) {
					ets = append(ets, alt)
				}
			}
			for _, et := range ets {
				arrayDests = append(arrayDests, reflect.ArrayOf(0, et), reflect.ArrayOf(1, et), reflect.ArrayOf(2, et))
			}
		case *datatype.Tuple:
			arrayDests = []reflect.Type{reflect.ArrayOf(0, tIface), reflect.ArrayOf(1, tIface), reflect.ArrayOf(len(x.FieldTypes)+1, tIface)}
		}
		// base encodings
		g := &valueGen{rng: rng, version: ver, nullProb: 6, fixedKey: 2}
		var bases [][]byte
		var fields [][]lenField
		for len(bases) < 2 {
			c := g.value(dt)
			if b, f, ok := specEncode(c, dt, ver); ok {
				bases = append(bases, b)
				fields = append(fields, f)
			}
		}
		inputs := map[string]bool{}
		var order [][]byte
		addIn := func(b []byte) {
			k := hexOrMark(b)
			if !inputs[k] {
				inputs[k] = true
				order = append(order, b)
			}
		}
		addIn(nil)
		addIn([]byte{})
		for bi, base := range bases {
			addIn(base)
			for _, f := range fields[bi] {
				for _, v := range []int{-1, -2, 0, 1, 0x7fffffff, 0xffff} {
					m := append([]byte{}, base...)
					if f.width == 2 {
						m[f.off], m[f.off+1] = byte(v>>8), byte(v)
					} else {
						binary.BigEndian.PutUint32(m[f.off:], uint32(int32(v)))
					}
					addIn(m)
				}
			}
			for cut := 0; cut < len(base) && cut <= 64; cut++ {
				addIn(append([]byte{}, base[:cut]...))
			}
			for k := 0; k < 8 && len(base) > 65; k++ {
				addIn(append([]byte{}, base[:65+rng.Intn(len(base)-65)]...))
			}
			nbits := len(base) * 8
			flip := func(bit int) {
				m := append([]byte{}, base...)
				m[bit/8] ^= 1 << uint(bit%8)
				addIn(m)
			}
			if len(base) <= 16 {
				for bit := 0; bit < nbits; bit++ {
					flip(bit)
				}
			} else {
				for k := 0; k < 32; k++ {
					flip(rng.Intn(nbits))
				}
			}
			addIn(append(append([]byte{}, base...), 0))
			addIn(append(append([]byte{}, base...), rng.Bytes(1+rng.Intn(4))...))
		}
		for k := 0; k < 6; k++ {
			a, b := bases[0], bases[1]
			if len(a) > 0 && len(b) > 0 {
				addIn(append(append([]byte{}, a[:rng.Intn(len(a)+1)]...), b[rng.Intn(len(b)):]...))
			}
		}
		for k := 0; k < 8; k++ {
			addIn(rng.Bytes(rng.Intn(40)))
		}
		valid := map[string]bool{hexOrMark(bases[0]): true, hexOrMark(bases[1]): true}
		sort.SliceStable(order, func(i, j int) bool { return len(order[i]) < len(order[j]) }) // the first failing input is a short one
		for _, in := range order {
			in := in
			inHex := hexOrMark(in)
			id := fmt.Sprintf("C04V decode %s %s bytes %s", verName(ver), tn, inHex)
			res.Case(fmt.Sprintf("%s|%s|%s", tn, verName(ver), inHex), !valid[inHex])
			res.Count("type/" + kindName(dt))
			res.Count("version/" + verName(ver))
			ifc, p := decodeInto(codec, dt, ver, in, tIface)
			if p != nil {
				r.rep.violationG("CQL value decoder panics: "+p.words, tn, id+" into *interface{}", p.full+" @ "+p.frame)
			}
			res.Count("outcome/interface/" + ifc.status)
			// a fixed-size array as the destination of a list, set or tuple: the wire may carry more (or fewer) elements than the
			// array holds — an error at most, never a panic
			for _, at := range arrayDests {
				if guard(func() { codec.Decode(in, reflect.New(at).Interface(), ver) }) != nil {
					_, p3 := decodeInto(codec, dt, ver, in, at)
					if p3 != nil {
						r.rep.violationG("CQL value decoder panics: "+p3.words, tn, id+" into "+at.String(), p3.full+" @ "+p3.frame)
					}
				}
				res.Count("outcome/array-destination")
			}
			ref := ifc
			if typed != nil {
				ty, p2 := decodeInto(codec, dt, ver, in, typed)
				if p2 != nil {
					r.rep.violationG("CQL value decoder panics: "+p2.words, tn, id+" into a typed destination", p2.full+" @ "+p2.frame)
				}
				res.Count("outcome/typed/" + ty.status)
				ref = ty
				// the two destinations against each other
				switch {
				case ifc.status == "panic" || ty.status == "panic":
				case ifc.status == "err" && ty.status == "ok" && containsTime(dt) && strings.Contains(ifc.err, "out of range"):
					res.Count("tolerated/time-out-of-range")
				case ifc.status == "err" && noPreferredGoType(dt):
					res.Count("tolerated/no-preferred-go-type")
				case ifc.status != ty.status:
					r.rep.violation("CQL value decoder: *interface{} and typed destination disagree on the same bytes", id, ifc.status+" "+ifc.text+ifc.err+" / "+ty.status+" "+ty.text+ty.err)
				case ifc.status == "ok" && ifc.text != ty.text && !ifc.dup && !ty.dup:
					r.rep.violation("CQL value decoder: *interface{} and typed destination disagree on the same bytes", id, ifc.text+" / "+ty.text)
				}
			}
			r.q.val(ver, dt, in, func(line string, a modelAnswer) {
				switch {
				case a.status == "panic" && ref.status == "panic":
					res.Count("model/agree-panic")
				case ref.status == "panic":
					res.Count("model/go-panicked") // reported as a violation above; the model does not cover reflect's map restrictions
				case ref.status == "unreadable":
					r.rep.add("disagreement", "harness cannot read a decoded value", line, ref.err, a.raw)
				case a.status == "ok" && ref.status == "err" && typed == nil && containsTime(dt) && strings.Contains(ref.err, "out of range"):
					res.Count("tolerated/time-out-of-range")
				case ref.status == "err" && typed == nil && noPreferredGoType(dt):
					res.Count("tolerated/no-preferred-go-type") // only the untyped destination was tried and the type has no Go representation
				case a.status != ref.status:
					r.rep.add("disagreement", "model/implementation differ on val: status of a mutated encoding", line, ref.status+" "+ref.err, a.raw)
				case a.status == "ok" && a.text != ref.text:
					switch {
					case ref.dup:
						res.Count("tolerated/duplicate-pointer-keys")
					case strings.Contains(a.text, "00000000000000000000ffff"):
						res.Count("tolerated/ipv4-mapped")
					default:
						r.rep.add("disagreement", "model/implementation differ on val: decoded value", line, ref.text, a.text)
					}
				default:
					res.Count("model/agree-" + a.status)
				}
			})
		}
	}
	r.finish()
}

// inexactFloats: a float64 that is not exactly a float32, handed to the CQL float codec (directly, by pointer and as a list
// element), must either be refused or come back equal: a silently rounded value does not round-trip.
func inexactFloats(res *lp.Result) {
	listCodec, err := datacodec.NewList(datatype.NewList(datatype.Float))
	if err != nil {
		return
	}
	for _, f := range []float64{0.1, 1.0 / 3, math.Pi, 16777217, 1e-50, -1.0000000001, 3.4028235e38 * 1.0000001} {
		for _, ver := range []primitive.ProtocolVersion{primitive.ProtocolVersion2, primitive.ProtocolVersion4} {
			id := fmt.Sprintf("float via float64 value %v version %v", f, ver)
			res.Case(id, true)
			res.Count("rep/float64-inexact")
			fp := f
			for name, src := range map[string]interface{}{"float64": f, "*float64": &fp} {
				enc, err := datacodec.Float.Encode(src, ver)
				if err != nil {
					continue // refused: fine
				}
				var back float64
				if _, err := datacodec.Float.Decode(enc, &back, ver); err == nil && back != f {
					res.Add(lp.Finding{Kind: "violation", What: "value does not round-trip: float via " + name + " (silently rounded)", Input: id,
						Impl: fmt.Sprintf("encoded as %x, decodes as %v", enc, back)})
				}
			}
			enc, err := listCodec.Encode([]float64{1.5, f}, ver)
			if err != nil {
				continue
			}
			var back []float64
			if _, err := listCodec.Decode(enc, &back, ver); err == nil && len(back) == 2 && back[1] != f {
				res.Add(lp.Finding{Kind: "violation", What: "value does not round-trip: list<float> via []float64 (silently rounded)", Input: id,
					Impl: fmt.Sprintf("element decodes as %v", back[1])})
			}
		}
	}
}

// goIntExtremes: min, max of a Go integer type (or of the pointed-to type) and their inner neighbours; the midpoint 2^(w-1)
// for unsigned types (the first value a signed conversion of the same width gets wrong)
func goIntExtremes(t reflect.Type) []*big.Int {
	if t.Kind() == reflect.Ptr {
		t = t.Elem()
	}
	var lo, hi *big.Int
	w := 0
	switch {
	case isIntKind(t.Kind()) && t != tDuration:
		w = t.Bits()
		lo, hi = new(big.Int).Neg(pow2(w-1)), new(big.Int).Sub(pow2(w-1), big.NewInt(1))
	case isUintKind(t.Kind()):
		w = t.Bits()
		lo, hi = big.NewInt(0), new(big.Int).Sub(pow2(w), big.NewInt(1))
	default:
		return nil
	}
	out := []*big.Int{lo, new(big.Int).Add(lo, big.NewInt(1)), hi, new(big.Int).Sub(hi, big.NewInt(1))}
	if isUintKind(t.Kind()) {
		out = append(out, pow2(w-1), new(big.Int).Add(pow2(w-1), big.NewInt(1)))
	}
	return out
}
