package main

import (
	"bytes"
	"encoding/json"
	"fmt"
	"math"
	"math/big"
	"os"
	"path/filepath"
	"reflect"
	"strings"
	"time"

	"github.com/datastax/go-cassandra-native-protocol/datacodec"
	"github.com/datastax/go-cassandra-native-protocol/primitive"
	"verif/internal/lp"
)

func init() { modes["C13"] = runC13 }

type numKind struct {
	name   string
	lo, hi *big.Int
	mk     func(v *big.Int) interface{} // a Go value of this kind holding v
	ptr    func(v *big.Int) interface{} // a pointer to such a value
	dest   func() interface{}           // a fresh *T destination
	read   func(d interface{}) *big.Int // the value stored in the destination
}

func bi(s string) *big.Int { v, _ := new(big.Int).SetString(s, 10); return v }

func numKinds() []numKind {
	mkInt := func(name string, bits int, signed bool, mk func(v *big.Int) reflect.Value, zero func() reflect.Value) numKind {
		lo, hi := big.NewInt(0), new(big.Int).Sub(new(big.Int).Lsh(big.NewInt(1), uint(bits)), big.NewInt(1))
		if signed {
			lo = new(big.Int).Neg(new(big.Int).Lsh(big.NewInt(1), uint(bits-1)))
			hi = new(big.Int).Sub(new(big.Int).Lsh(big.NewInt(1), uint(bits-1)), big.NewInt(1))
		}
		return numKind{name, lo, hi,
			func(v *big.Int) interface{} { return mk(v).Interface() },
			func(v *big.Int) interface{} {
				p := reflect.New(mk(v).Type())
				p.Elem().Set(mk(v))
				return p.Interface()
			},
			func() interface{} { return reflect.New(zero().Type()).Interface() },
			func(d interface{}) *big.Int {
				e := reflect.ValueOf(d).Elem()
				if signed {
					return big.NewInt(e.Int())
				}
				return new(big.Int).SetUint64(e.Uint())
			}}
	}
	s := func(t reflect.Type) (func(v *big.Int) reflect.Value, func() reflect.Value) {
		return func(v *big.Int) reflect.Value { r := reflect.New(t).Elem(); r.SetInt(v.Int64()); return r }, func() reflect.Value { return reflect.New(t).Elem() }
	}
	u := func(t reflect.Type) (func(v *big.Int) reflect.Value, func() reflect.Value) {
		return func(v *big.Int) reflect.Value { r := reflect.New(t).Elem(); r.SetUint(v.Uint64()); return r }, func() reflect.Value { return reflect.New(t).Elem() }
	}
	var ks []numKind
	add := func(name string, bits int, signed bool, t reflect.Type) {
		var mk func(v *big.Int) reflect.Value
		var z func() reflect.Value
		if signed {
			mk, z = s(t)
		} else {
			mk, z = u(t)
		}
		ks = append(ks, mkInt(name, bits, signed, mk, z))
	}
	add("int", 64, true, reflect.TypeOf(int(0)))
	add("int64", 64, true, reflect.TypeOf(int64(0)))
	add("int32", 32, true, reflect.TypeOf(int32(0)))
	add("int16", 16, true, reflect.TypeOf(int16(0)))
	add("int8", 8, true, reflect.TypeOf(int8(0)))
	add("uint", 64, false, reflect.TypeOf(uint(0)))
	add("uint64", 64, false, reflect.TypeOf(uint64(0)))
	add("uint32", 32, false, reflect.TypeOf(uint32(0)))
	add("uint16", 16, false, reflect.TypeOf(uint16(0)))
	add("uint8", 8, false, reflect.TypeOf(uint8(0)))
	return ks
}

type numCodec struct {
	name     string
	codec    datacodec.Codec
	lo, hi   *big.Int // nil = unbounded
	toFn     string   // name of the convertTo* table
	fromFn   string
	temporal bool // date/time/timestamp: numbers go through the integer tables; strings are layouts, not numbers
}

func candidates(r *lp.Rng) []*big.Int {
	var out []*big.Int
	for _, e := range []uint{0, 7, 8, 15, 16, 31, 32, 63, 64} {
		p := new(big.Int).Lsh(big.NewInt(1), e)
		for d := int64(-2); d <= 2; d++ {
			out = append(out, new(big.Int).Add(p, big.NewInt(d)), new(big.Int).Neg(new(big.Int).Add(p, big.NewInt(d))))
		}
	}
	out = append(out, big.NewInt(0), big.NewInt(1), big.NewInt(-1), big.NewInt(100), big.NewInt(-100))
	n := 30
	if thorough() {
		n = 600
	}
	for i := 0; i < n; i++ {
		v := new(big.Int).SetUint64(r.U64())
		switch r.Intn(4) {
		case 0:
			v.Rsh(v, uint(r.Intn(64)))
		case 1:
			v.Neg(v.Rsh(v, uint(1+r.Intn(63))))
		case 2:
			v.Lsh(v, uint(r.Intn(40)))
		}
		out = append(out, v)
	}
	return out
}

func inR(v, lo, hi *big.Int) bool {
	return (lo == nil || v.Cmp(lo) >= 0) && (hi == nil || v.Cmp(hi) <= 0)
}

type (
	namedI8   int8
	namedI16  int16
	namedI32  int32
	namedI64  int64
	namedInt  int
	namedU8   uint8
	namedU16  uint16
	namedU32  uint32
	namedU64  uint64
	namedUint uint
)

type namedDest struct {
	kind string
	ptr  interface{}
	read func() *big.Int
}

func namedIntDests() []namedDest {
	var a namedI8
	var b namedI16
	var c namedI32
	var d namedI64
	var e namedInt
	var f namedU8
	var g namedU16
	var h namedU32
	var i namedU64
	var j namedUint
	return []namedDest{
		{"int8", &a, func() *big.Int { return big.NewInt(int64(a)) }}, {"int16", &b, func() *big.Int { return big.NewInt(int64(b)) }},
		{"int32", &c, func() *big.Int { return big.NewInt(int64(c)) }}, {"int64", &d, func() *big.Int { return big.NewInt(int64(d)) }},
		{"int", &e, func() *big.Int { return big.NewInt(int64(e)) }}, {"uint8", &f, func() *big.Int { return new(big.Int).SetUint64(uint64(f)) }},
		{"uint16", &g, func() *big.Int { return new(big.Int).SetUint64(uint64(g)) }}, {"uint32", &h, func() *big.Int { return new(big.Int).SetUint64(uint64(h)) }},
		{"uint64", &i, func() *big.Int { return new(big.Int).SetUint64(uint64(i)) }}, {"uint", &j, func() *big.Int { return new(big.Int).SetUint64(uint64(j)) }},
	}
}

func runC13(res *lp.Result) {
	res.Rule = "every pair (CQL integer type in {bigint, counter, int, smallint, tinyint, varint}, Go type in {int, int8..int64, uint, " +
		"uint8..uint64, *big.Int, string}) by value and by pointer, in both directions, at and around every power-of-two boundary " +
		"(2^7 … 2^64, both signs) plus random values, judged against arbitrary-precision arithmetic: a conversion delivers exactly the " +
		"same mathematical value or an error, and refuses only values that really do not fit. float/double with float32/float64 " +
		"(bit patterns incl. NaN/Inf/subnormals). duration components. Correspondence: the regenerated helper named by the " +
		"translator's table for the pair is evaluated in the model on the same value. Non-trivial = value ≠ 0; distinct by (pair, value)."
	rng := lp.NewRng(*seed)
	raw, err := os.ReadFile(filepath.Join(*genDir, "conversions.json"))
	must(err)
	var tables map[string][]struct {
		Kind string `json:"kind"`
		Ptr  bool   `json:"ptr"`
		Conv string `json:"conv"`
	}
	must(json.Unmarshal(raw, &tables))
	helperOf := func(fn, kind string, ptr bool) string {
		for _, e := range tables[fn] {
			if e.Kind == kind && e.Ptr == ptr && strings.HasPrefix(e.Conv, "Conv.helper") {
				return strings.Trim(strings.TrimPrefix(e.Conv, "Conv.helper "), "\"")
			}
		}
		return ""
	}
	var lines, expect, descr []string
	ask := func(l, want, d string) {
		lines = append(lines, l)
		expect = append(expect, want)
		descr = append(descr, d)
	}
	i64lo, i64hi := bi("-9223372036854775808"), bi("9223372036854775807")
	codecs := []numCodec{
		{"bigint", datacodec.Bigint, i64lo, i64hi, "convertToInt64", "convertFromInt64", false},
		{"counter", datacodec.Counter, i64lo, i64hi, "convertToInt64", "convertFromInt64", false},
		{"int", datacodec.Int, big.NewInt(math.MinInt32), big.NewInt(math.MaxInt32), "convertToInt32", "convertFromInt32", false},
		{"smallint", datacodec.Smallint, big.NewInt(math.MinInt16), big.NewInt(math.MaxInt16), "convertToInt16", "convertFromInt16", false},
		{"tinyint", datacodec.Tinyint, big.NewInt(math.MinInt8), big.NewInt(math.MaxInt8), "convertToInt8", "convertFromInt8", false},
		{"varint", datacodec.Varint, nil, nil, "convertToBigInt", "convertFromBigInt", false},
		// the temporal types as numbers: milliseconds since the Epoch, nanoseconds of the day, days since the Epoch
		{"timestamp", datacodec.Timestamp, i64lo, i64hi, "convertToInt64", "convertFromInt64", true},
		{"time", datacodec.Time, i64lo, i64hi, "convertToInt64", "convertFromInt64", true},
		{"date", datacodec.Date, big.NewInt(math.MinInt32), big.NewInt(math.MaxInt32), "convertToInt32", "convertFromInt32", true},
	}
	kinds := numKinds()
	cands := candidates(rng)
	v4 := primitive.ProtocolVersion4
	hasEntry := func(fn, kind string) bool {
		for _, e := range tables[fn] {
			if e.Kind == kind {
				return true
			}
		}
		return false
	}
	// decodeWide reads an encoded integer back through the codec's widest destination
	// (a number handed out by an earlier Decode belongs to the caller: it must still be the same number after later calls)
	var prevBack, prevCopy *big.Int
	var prevId string
	decodeWide := func(c numCodec, enc []byte) (*big.Int, bool, error) {
		if c.name == "varint" {
			back := new(big.Int)
			wasNull, err := c.codec.Decode(enc, back, v4)
			if prevBack != nil {
				// (a number whose digits were overwritten behind its back may not even be a well-formed big.Int any more)
				now := func() (s string) {
					defer func() {
						if r := recover(); r != nil {
							s = "not a well-formed number any more: " + fmt.Sprint(r)
						}
					}()
					return prevBack.String()
				}()
				if now != prevCopy.String() {
					res.Add(lp.Finding{Kind: "violation", What: "number handed out by an earlier varint Decode changes when another value is decoded",
						Input: fmt.Sprintf("decode varint %s into *big.Int, then decode %x into another *big.Int", prevId, enc), Impl: now, Model: prevCopy.String()})
				}
			}
			prevBack, prevCopy, prevId = nil, nil, ""
			if err == nil && !wasNull {
				prevBack, prevCopy, prevId = back, new(big.Int).Set(back), fmt.Sprintf("%x", enc)
			}
			return back, wasNull, err
		}
		var back int64
		wasNull, err := c.codec.Decode(enc, &back, v4)
		return big.NewInt(back), wasNull, err
	}
	for _, c := range codecs {
		// Go value → CQL
		for _, k := range kinds {
			for _, v := range cands {
				if !inR(v, k.lo, k.hi) {
					continue
				}
				for _, ptr := range []bool{false, true} {
					src := k.mk(v)
					if ptr {
						src = k.ptr(v)
					}
					id := fmt.Sprintf("encode %s <- %s(ptr=%v) %s", c.name, k.name, ptr, v)
					res.Case(id, v.Sign() != 0)
					res.Count("encode/" + c.name + "/" + k.name)
					enc, err := c.codec.Encode(src, v4)
					fits := inR(v, c.lo, c.hi)
					if err != nil {
						if fits {
							res.Add(lp.Finding{Kind: "violation", What: fmt.Sprintf("%s refuses Go %s value that fits the CQL type", c.name, k.name), Input: id, Impl: err.Error()})
						}
					} else {
						if back, wasNull, derr := decodeWide(c, enc); derr != nil || wasNull || back.Cmp(v) != 0 {
							res.Add(lp.Finding{Kind: "violation", What: fmt.Sprintf("%s encodes Go %s value to bytes denoting a different number", c.name, k.name),
								Input: id, Impl: fmt.Sprintf("bytes=%x decoded=%v null=%v err=%v", enc, back, wasNull, derr)})
						}
					}
					if h := helperOf(c.toFn, k.name, ptr); h != "" {
						want := "err"
						if err == nil {
							want = "ok " + v.String()
						}
						ask(fmt.Sprintf("conv %s %s", h, v), want, id)
					}
				}
			}
		}
		// *big.Int and string sources
		for _, v := range cands {
			// (strings also zero-padded and with an explicit plus sign: decimal notation, whatever it looks like)
			padded := "00" + v.String()
			if v.Sign() < 0 {
				padded = "-0" + v.String()[1:]
			} else if v.Sign() > 0 {
				padded = "+0" + v.String()
			}
			for _, src := range []interface{}{new(big.Int).Set(v), v.String(), padded} {
				if _, isBig := src.(*big.Int); isBig && !hasEntry(c.toFn, "big") {
					continue
				}
				if _, isStr := src.(string); isStr && c.temporal {
					continue
				}
				id := fmt.Sprintf("encode %s <- %T %s", c.name, src, v)
				if str, ok := src.(string); ok {
					id = fmt.Sprintf("encode %s <- string %q", c.name, str)
				}
				res.Case(id, v.Sign() != 0)
				enc, err := c.codec.Encode(src, v4)
				fits := inR(v, c.lo, c.hi)
				if err != nil && fits {
					res.Add(lp.Finding{Kind: "violation", What: fmt.Sprintf("%s refuses %T value that fits the CQL type", c.name, src), Input: id, Impl: err.Error()})
				} else if err == nil {
					if back, wasNull, derr := decodeWide(c, enc); derr != nil || wasNull || back.Cmp(v) != 0 {
						res.Add(lp.Finding{Kind: "violation", What: fmt.Sprintf("%s encodes %T value to bytes denoting a different number", c.name, src), Input: id,
							Impl: fmt.Sprintf("bytes=%x decoded=%v err=%v", enc, back, derr)})
					}
				}
				if _, isBig := src.(*big.Int); isBig {
					if h := helperOf(c.toFn, "big", true); h != "" {
						want := "err"
						if err == nil {
							want = "ok " + v.String()
						}
						ask(fmt.Sprintf("conv %s %s", h, v), want, id)
					}
				}
			}
		}
		// CQL → Go destination
		for _, v := range cands {
			if !inR(v, c.lo, c.hi) {
				continue
			}
			var enc []byte
			var err error
			if c.temporal {
				enc, err = c.codec.Encode(v.Int64(), v4)
			} else {
				enc, err = c.codec.Encode(v.String(), v4)
			}
			if err != nil {
				continue
			}
			for _, k := range kinds {
				d := k.dest()
				id := fmt.Sprintf("decode %s -> *%s %s", c.name, k.name, v)
				res.Case(id, v.Sign() != 0)
				res.Count("decode/" + c.name + "/" + k.name)
				wasNull, derr := c.codec.Decode(enc, d, v4)
				fits := inR(v, k.lo, k.hi)
				if derr != nil {
					if fits {
						res.Add(lp.Finding{Kind: "violation", What: fmt.Sprintf("%s refuses to decode into *%s a value that fits", c.name, k.name), Input: id, Impl: derr.Error()})
					}
				} else if wasNull || k.read(d).Cmp(v) != 0 {
					res.Add(lp.Finding{Kind: "violation", What: fmt.Sprintf("%s decodes into *%s a different number", c.name, k.name), Input: id,
						Impl: fmt.Sprintf("got %v null=%v", k.read(d), wasNull)})
				}
				if h := helperOf(c.fromFn, k.name, true); h != "" {
					want := "err"
					if derr == nil {
						want = "ok " + v.String()
					}
					ask(fmt.Sprintf("conv %s %s", h, v), want, id)
				}
			}
			// destinations of user-defined integer types (type UserId uint64 …): whether the codec takes them is its choice, but if it
			// does, the number that arrives is the number that was sent
			for _, nd := range namedIntDests() {
				res.Count("decode/" + c.name + "/named-type")
				if wasNull, derr := c.codec.Decode(enc, nd.ptr, v4); derr == nil && !wasNull && nd.read().Cmp(v) != 0 {
					res.Add(lp.Finding{Kind: "violation", What: fmt.Sprintf("%s decodes into a pointer to a named %s type a different number", c.name, nd.kind),
						Input: fmt.Sprintf("decode %s -> *(type T %s) %s", c.name, nd.kind, v), Impl: nd.read().String()})
				}
			}
			var s string
			if c.temporal {
				continue
			}
			if _, derr := c.codec.Decode(enc, &s, v4); derr != nil || s != v.String() {
				res.Add(lp.Finding{Kind: "violation", What: c.name + " decodes into *string a different number", Input: "decode " + c.name + " -> *string " + v.String(), Impl: s})
			}
		}
	}
	temporalSources(res, rng, ask)
	// float / double
	fbits := []uint64{0, 1 << 63, 0x3FF0000000000000, 0x7FF0000000000000, 0xFFF0000000000000, 0x7FF8000000000001, 1, 0x000FFFFFFFFFFFFF,
		0x36A0000000000000, 0x47EFFFFFE0000000, 0x47EFFFFFF0000000, 0x3FB999999999999A, 0x3FE0000000000000}
	for i := 0; i < 200; i++ {
		fbits = append(fbits, rng.U64())
		fbits = append(fbits, math.Float64bits(float64(math.Float32frombits(uint32(rng.U64())))))
	}
	for _, b := range fbits {
		f := math.Float64frombits(b)
		id := fmt.Sprintf("float <- float64 bits %016x", b)
		res.Case(id, b != 0)
		res.Count("float")
		enc, err := datacodec.Float.Encode(f, v4)
		exact := float64(float32(f)) == f
		if err == nil {
			var back float64
			if _, derr := datacodec.Float.Decode(enc, &back, v4); derr != nil || (back != f && !(math.IsNaN(back) && math.IsNaN(f))) {
				res.Add(lp.Finding{Kind: "violation", What: "float codec silently rounds a float64", Input: id, Impl: fmt.Sprint(back)})
			}
		} else if exact {
			res.Add(lp.Finding{Kind: "violation", What: "float codec refuses a float64 that is exactly representable", Input: id, Impl: err.Error()})
		}
		enc2, err2 := datacodec.Double.Encode(f, v4)
		var back2 float64
		if err2 != nil {
			res.Add(lp.Finding{Kind: "violation", What: "double codec refuses a float64", Input: id})
		} else if _, derr := datacodec.Double.Decode(enc2, &back2, v4); derr != nil || math.Float64bits(back2) != b {
			res.Add(lp.Finding{Kind: "violation", What: "double codec changes a float64", Input: id, Impl: fmt.Sprintf("%016x", math.Float64bits(back2))})
		}
		var f32 float32
		if _, derr := datacodec.Double.Decode(enc2, &f32, v4); derr == nil && float64(f32) != f && !math.IsNaN(f) {
			res.Add(lp.Finding{Kind: "violation", What: "double codec silently rounds when decoding into *float32", Input: id, Impl: fmt.Sprint(f32)})
		}
		// *big.Float in both directions (doc.go lists it for double). A destination may be fresh (precision 0) or in use with
		// a precision of its own: the decoded number must be exactly the double, or the call must fail. A source with more
		// precision than a double holds must encode exactly or be refused.
		if err2 == nil && !math.IsNaN(f) && !math.IsInf(f, 0) {
			want := new(big.Float).SetFloat64(f)
			for _, prec := range []uint{0, 1, 10, 24, 52, 53, 64, 200} {
				res.Count("double -> *big.Float")
				d := new(big.Float).SetPrec(prec)
				if prec > 0 {
					d.SetInt64(1) // in use
				}
				if _, derr := datacodec.Double.Decode(enc2, d, v4); derr == nil && d.Cmp(want) != 0 {
					res.Add(lp.Finding{Kind: "violation", What: "double codec silently rounds when decoding into a *big.Float destination",
						Input: fmt.Sprintf("%s into *big.Float with precision %d", id, prec), Impl: d.Text('g', 40), Model: want.Text('g', 40)})
				}
			}
			for _, prec := range []uint{53, 64, 200} {
				res.Count("double <- *big.Float")
				src := new(big.Float).SetPrec(prec).SetFloat64(f)
				if prec > 53 && f != 0 {
					// one more bit below the double's last place: not a double any more
					ulp := new(big.Float).SetPrec(prec).SetMantExp(big.NewFloat(1), src.MantExp(nil)-int(prec))
					src2 := new(big.Float).SetPrec(prec).Add(src, ulp)
					if back, acc := src2.Float64(); acc != big.Exact {
						if encb, eerr := datacodec.Double.Encode(src2, v4); eerr == nil {
							var got float64
							datacodec.Double.Decode(encb, &got, v4)
							res.Add(lp.Finding{Kind: "violation", What: "double codec silently rounds a *big.Float source",
								Input: fmt.Sprintf("%s + 1 unit at precision %d", id, prec), Impl: fmt.Sprint(got), Model: src2.Text('g', 60) + " ~ " + fmt.Sprint(back)})
						}
					}
				}
				if encb, eerr := datacodec.Double.Encode(src, v4); eerr != nil {
					res.Add(lp.Finding{Kind: "violation", What: "double codec refuses a *big.Float that is exactly a double", Input: fmt.Sprintf("%s at precision %d", id, prec), Impl: eerr.Error()})
				} else if !bytes.Equal(encb, enc2) {
					res.Add(lp.Finding{Kind: "violation", What: "double codec encodes a *big.Float to another number", Input: fmt.Sprintf("%s at precision %d", id, prec), Impl: fmt.Sprintf("%x", encb), Model: fmt.Sprintf("%x", enc2)})
				}
			}
		}
	}
	// duration components: months/days 32-bit, nanos 64-bit
	for _, m := range []int64{0, 1, -1, math.MaxInt32, math.MinInt32, math.MaxInt32 + 1, math.MinInt32 - 1, 1<<32 + 5, -(1 << 40)} {
		for _, which := range []int{0, 1} {
			var b []byte
			w := &sliceWriter{}
			vals := []int64{3, 4, 5}
			vals[which] = m
			for _, x := range vals {
				primitive.WriteVint(x, w)
			}
			b = w.b
			var d datacodec.CqlDuration
			id := fmt.Sprintf("decode duration component %d = %d", which, m)
			res.Case(id, true)
			res.Count("duration")
			_, err := datacodec.Duration.Decode(b, &d, primitive.ProtocolVersion5)
			fits := m >= math.MinInt32 && m <= math.MaxInt32
			got := int64(d.Months)
			if which == 1 {
				got = int64(d.Days)
			}
			if err == nil && got != m {
				res.Add(lp.Finding{Kind: "violation", What: "duration decoder silently truncates months/days", Input: id, Impl: fmt.Sprint(got)})
			} else if err != nil && fits {
				res.Add(lp.Finding{Kind: "violation", What: "duration decoder refuses a 32-bit months/days value", Input: id, Impl: err.Error()})
			}
		}
	}
	// the [vint] notation the duration components travel in: every length boundary (C03Vint's theorems on the model side)
	vintChecks(res, rng, ask)
	// … and through the duration codec itself: months/days/nanos at and around 2^(7k) must come back as they went in
	for k := 0; k < 63; k++ {
		for d := int64(-1); d <= 1; d++ {
			for _, sign := range []int64{1, -1} {
				x := sign * (int64(1)<<uint(k) + d)
				var dur datacodec.CqlDuration
				dur.Nanos = time.Duration(x)
				if x >= math.MinInt32 && x <= math.MaxInt32 {
					dur.Months, dur.Days = int32(x), int32(x)
				}
				id := fmt.Sprintf("duration months=%d days=%d nanos=%d", dur.Months, dur.Days, int64(dur.Nanos))
				res.Count("duration/boundaries")
				enc, err := datacodec.Duration.Encode(dur, primitive.ProtocolVersion5)
				if err != nil {
					continue // mixed signs are refused by the codec; not a number conversion
				}
				var back datacodec.CqlDuration
				if _, derr := datacodec.Duration.Decode(enc, &back, primitive.ProtocolVersion5); derr != nil || back != dur {
					res.Add(lp.Finding{Kind: "violation", What: "duration components do not come back as the numbers that were encoded", Input: id,
						Impl: fmt.Sprintf("bytes=%x decoded months=%d days=%d nanos=%d err=%v", enc, back.Months, back.Days, int64(back.Nanos), derr)})
				}
			}
		}
	}
	finishAsk(res, lines, expect, descr)
}

type sliceWriter struct{ b []byte }

func (s *sliceWriter) Write(p []byte) (int, error) { s.b = append(s.b, p...); return len(p), nil }

// temporalSources: time.Time and time.Duration handed to the timestamp, date and time codecs, judged against arbitrary-precision
// arithmetic on what the Go value holds (t.Unix() seconds and t.Nanosecond()): milliseconds = floor((s·10^9+ns)/10^6) must fit
// int64, days = floor(s/86400) must fit int32, a Duration must lie in [0, 24h) — otherwise an error, never another number.
func temporalSources(res *lp.Result, rng *lp.Rng, ask func(l, want, d string)) {
	v4 := primitive.ProtocolVersion4
	secs := []int64{0, 1, -1, 86399, 86400, -86400, -86401, 1 << 31, -(1 << 31), 1 << 32,
		9223372036854775, 9223372036854776, 9223372036854777, -9223372036854775, -9223372036854776, -9223372036854777,
		185542587187199, 185542587187200, -185542587100800, -185542587100801, // around the int32 day range
		18446744073709551, 18446744073709552, -18446744073709551, -18446744073709552, // 2^64 ms
		36893488147419103, -36893488147419104, 1 << 55, -(1 << 55), 1 << 60, -(1 << 60), 1<<62 - 1, -(1 << 62)}
	for i := 0; i < 40; i++ {
		secs = append(secs, int64(rng.U64())>>uint(1+rng.Intn(40)))
	}
	nanos := []int64{0, 1, 999999, 1000000, 191999999, 192000000, 807000000, 807999999, 808000000, 999999999}
	decodeI64 := func(c datacodec.Codec, enc []byte) (int64, error) {
		var back int64
		_, err := c.Decode(enc, &back, v4)
		return back, err
	}
	for _, sec := range secs {
		for _, ns := range nanos {
			for zi, zone := range []*time.Location{time.UTC, time.FixedZone("+0530", 19800)} {
				t := time.Unix(sec, ns).In(zone)
				hs, hn := big.NewInt(t.Unix()), big.NewInt(int64(t.Nanosecond())) // what the value holds
				total := new(big.Int).Add(new(big.Int).Mul(hs, big.NewInt(1e9)), hn)
				ms := new(big.Int).Div(total, big.NewInt(1e6)) // Euclidean = floor for a positive divisor
				days := new(big.Int).Div(hs, big.NewInt(86400))
				if zi == 0 {
					// the exported conversion functions against the model Cql/TimeConv.lean (theorems: Cql/Props/C13Time.lean)
					okOr := func(v int64, err error) string {
						if err != nil {
							return "err"
						}
						return fmt.Sprintf("ok %d", v)
					}
					ms, err := datacodec.ConvertTimeToEpochMillis(t)
					ask(fmt.Sprintf("conv time millis %d %d", t.Unix(), t.Nanosecond()), okOr(ms, err), fmt.Sprintf("ConvertTimeToEpochMillis unix seconds %d nanos %d", t.Unix(), t.Nanosecond()))
					dd, err := datacodec.ConvertTimeToEpochDays(t)
					ask(fmt.Sprintf("conv time days %d", t.Unix()), okOr(int64(dd), err), fmt.Sprintf("ConvertTimeToEpochDays unix seconds %d", t.Unix()))
					if ns == 0 {
						back := datacodec.ConvertEpochMillisToTime(sec) // any int64 taken as milliseconds
						ask(fmt.Sprintf("conv time totime %d", sec), fmt.Sprintf("%d %d", back.Unix(), back.Nanosecond()), fmt.Sprintf("ConvertEpochMillisToTime %d", sec))
						d32 := int32(sec)
						ask(fmt.Sprintf("conv time fromdays %d", d32), fmt.Sprint(datacodec.ConvertEpochDaysToTime(d32).Unix()), fmt.Sprintf("ConvertEpochDaysToTime %d", d32))
						nd, err := datacodec.ConvertDurationToNanosOfDay(time.Duration(sec))
						ask(fmt.Sprintf("conv time dur %d", sec), okOr(nd, err), fmt.Sprintf("ConvertDurationToNanosOfDay %d", sec))
					}
				}
				for pi, src := range []interface{}{t, &t} {
					if zi+pi == 2 {
						continue
					}
					id := fmt.Sprintf("encode timestamp <- %T unix seconds %d nanos %d zone %s", src, t.Unix(), t.Nanosecond(), zone)
					res.Case(id, true)
					res.Count("temporal/timestamp")
					enc, err := datacodec.Timestamp.Encode(src, v4)
					if err != nil && ms.IsInt64() {
						res.Add(lp.Finding{Kind: "violation", What: "timestamp refuses a time.Time whose milliseconds since the Epoch fit 64 bits", Input: id, Impl: firstWords(err.Error())})
					} else if err == nil {
						if back, derr := decodeI64(datacodec.Timestamp, enc); derr != nil || !ms.IsInt64() || back != ms.Int64() {
							res.Add(lp.Finding{Kind: "violation", What: "timestamp encodes a time.Time to bytes denoting a different number of milliseconds (wrapped or truncated)", Input: id,
								Impl: fmt.Sprintf("bytes=%x = %d ms, the time is %s ms from the Epoch", enc, back, ms)})
						}
					}
					id = fmt.Sprintf("encode date <- %T unix seconds %d zone %s", src, t.Unix(), zone)
					res.Case(id, true)
					res.Count("temporal/date")
					enc, err = datacodec.Date.Encode(src, v4)
					fits := days.IsInt64() && days.Int64() >= math.MinInt32 && days.Int64() <= math.MaxInt32
					if err != nil && fits {
						res.Add(lp.Finding{Kind: "violation", What: "date refuses a time.Time whose days since the Epoch fit 32 bits", Input: id, Impl: firstWords(err.Error())})
					} else if err == nil {
						if back, derr := decodeI64(datacodec.Date, enc); derr != nil || !fits || back != days.Int64() {
							res.Add(lp.Finding{Kind: "violation", What: "date encodes a time.Time to bytes denoting a different day (wrapped or truncated)", Input: id,
								Impl: fmt.Sprintf("bytes=%x = day %d, the time is on day %s", enc, back, days)})
						}
					}
					// time: the clock of the instant in UTC
					u := t.UTC()
					clock := int64(u.Hour())*3600e9 + int64(u.Minute())*60e9 + int64(u.Second())*1e9 + int64(u.Nanosecond())
					id = fmt.Sprintf("encode time <- %T unix seconds %d nanos %d zone %s", src, t.Unix(), t.Nanosecond(), zone)
					res.Count("temporal/time")
					if enc, err = datacodec.Time.Encode(src, v4); err != nil {
						res.Add(lp.Finding{Kind: "violation", What: "time refuses a time.Time", Input: id, Impl: firstWords(err.Error())})
					} else if back, derr := decodeI64(datacodec.Time, enc); derr != nil || back != clock {
						res.Add(lp.Finding{Kind: "violation", What: "time encodes a time.Time to another nanosecond of the day", Input: id, Impl: fmt.Sprintf("%d, the UTC clock reads %d", back, clock)})
					}
				}
			}
		}
	}
	// time.Duration → time: [0, 24h) or an error; time → time.Duration / time.Time: the same number or an error
	day := int64(86400e9)
	for _, d := range []int64{0, 1, -1, day - 1, day, day + 1, -day, math.MaxInt64, math.MinInt64, 1 << 32, 1 << 46, 86399999999999, 86400000000000} {
		id := fmt.Sprintf("encode time <- time.Duration %d", d)
		res.Case(id, true)
		res.Count("temporal/duration")
		enc, err := datacodec.Time.Encode(time.Duration(d), v4)
		fits := d >= 0 && d < day
		if err != nil && fits {
			res.Add(lp.Finding{Kind: "violation", What: "time refuses a time.Duration within the day", Input: id, Impl: firstWords(err.Error())})
		} else if err == nil {
			if back, derr := decodeI64(datacodec.Time, enc); derr != nil || !fits || back != d {
				res.Add(lp.Finding{Kind: "violation", What: "time encodes a time.Duration to bytes denoting a different number", Input: id, Impl: fmt.Sprintf("bytes=%x = %d", enc, back)})
			}
		}
		enc, _ = datacodec.Time.Encode(d, v4) // as a plain number: any int64
		var dd time.Duration
		if _, derr := datacodec.Time.Decode(enc, &dd, v4); derr == nil && int64(dd) != d {
			res.Add(lp.Finding{Kind: "violation", What: "time decodes into *time.Duration a different number", Input: fmt.Sprintf("decode time -> *time.Duration %d", d), Impl: fmt.Sprint(int64(dd))})
		}
		var tt time.Time
		if _, derr := datacodec.Time.Decode(enc, &tt, v4); derr == nil {
			u := tt.UTC()
			clock := int64(u.Hour())*3600e9 + int64(u.Minute())*60e9 + int64(u.Second())*1e9 + int64(u.Nanosecond())
			if clock != d {
				res.Add(lp.Finding{Kind: "violation", What: "time decodes into *time.Time a different clock reading", Input: fmt.Sprintf("decode time -> *time.Time %d", d), Impl: fmt.Sprint(clock)})
			}
		}
	}
	// timestamp / date → time.Time: the instant must be exactly the number decoded
	for _, ms := range []int64{0, 1, -1, 999, -999, -1000, -1001, math.MaxInt64, math.MinInt64, math.MaxInt64 - 807, 1 << 53, -(1 << 53)} {
		enc, _ := datacodec.Timestamp.Encode(ms, v4)
		var tt time.Time
		res.Count("temporal/timestamp-decode")
		if _, derr := datacodec.Timestamp.Decode(enc, &tt, v4); derr == nil {
			total := new(big.Int).Add(new(big.Int).Mul(big.NewInt(tt.Unix()), big.NewInt(1e9)), big.NewInt(int64(tt.Nanosecond())))
			if total.Cmp(new(big.Int).Mul(big.NewInt(ms), big.NewInt(1e6))) != 0 {
				res.Add(lp.Finding{Kind: "violation", What: "timestamp decodes into *time.Time a different instant", Input: fmt.Sprintf("decode timestamp -> *time.Time %d ms", ms), Impl: tt.String()})
			}
		}
	}
	for _, dy := range []int64{0, 1, -1, math.MaxInt32, math.MinInt32, 19000, -719162} {
		enc, _ := datacodec.Date.Encode(dy, v4)
		var tt time.Time
		res.Count("temporal/date-decode")
		if _, derr := datacodec.Date.Decode(enc, &tt, v4); derr == nil && tt.Unix() != dy*86400 {
			res.Add(lp.Finding{Kind: "violation", What: "date decodes into *time.Time a different day", Input: fmt.Sprintf("decode date -> *time.Time day %d", dy), Impl: tt.String()})
		}
	}
}
