package main

import (
	"encoding/json"
	"fmt"
	"math"
	"math/big"
	"os"
	"path/filepath"
	"reflect"
	"strings"

	"github.com/datastax/go-cassandra-native-protocol/datacodec"
	"github.com/datastax/go-cassandra-native-protocol/primitive"
	"verif/internal/lp"
)

func init() { modes["C13"] = runC13 }

type numKind struct {
	name   string
	lo, hi *big.Int
	mk     func(v *big.Int) interface{}      // a Go value of this kind holding v
	ptr    func(v *big.Int) interface{}      // a pointer to such a value
	dest   func() interface{}                // a fresh *T destination
	read   func(d interface{}) *big.Int      // the value stored in the destination
}

func bi(s string) *big.Int { v, _ := new(big.Int).SetString(s, 10); return v }

func numKinds() []numKind {
	mkInt := func(name string, bits int, signed bool, mk func(v *big.Int) reflect.Value, zero func() reflect.Value) numKind {
		lo, hi := big.NewInt(0), new(big.Int).Sub(new(big.Int).Lsh(big.NewInt(1), uint(bits)), big.NewInt(1))
		if signed {
			lo = new(big.Int).Neg(new(big.Int).Lsh(big.NewInt(1), uint(bits-1)))
			hi = new(big.Int).Sub(new(big.Int).Lsh(big.NewInt(1), uint(bits-1)), big.NewInt(1))
		}
		return numKind{name, lo, hi,
			func(v *big.Int) interface{} { return mk(v).Interface() },
			func(v *big.Int) interface{} { p := reflect.New(mk(v).Type()); p.Elem().Set(mk(v)); return p.Interface() },
			func() interface{} { return reflect.New(zero().Type()).Interface() },
			func(d interface{}) *big.Int {
				e := reflect.ValueOf(d).Elem()
				if signed {
					return big.NewInt(e.Int())
				}
				return new(big.Int).SetUint64(e.Uint())
			}}
	}
	s := func(t reflect.Type) (func(v *big.Int) reflect.Value, func() reflect.Value) {
		return func(v *big.Int) reflect.Value { r := reflect.New(t).Elem(); r.SetInt(v.Int64()); return r }, func() reflect.Value { return reflect.New(t).Elem() }
	}
	u := func(t reflect.Type) (func(v *big.Int) reflect.Value, func() reflect.Value) {
		return func(v *big.Int) reflect.Value { r := reflect.New(t).Elem(); r.SetUint(v.Uint64()); return r }, func() reflect.Value { return reflect.New(t).Elem() }
	}
	var ks []numKind
	add := func(name string, bits int, signed bool, t reflect.Type) {
		var mk func(v *big.Int) reflect.Value
		var z func() reflect.Value
		if signed {
			mk, z = s(t)
		} else {
			mk, z = u(t)
		}
		ks = append(ks, mkInt(name, bits, signed, mk, z))
	}
	add("int", 64, true, reflect.TypeOf(int(0)))
	add("int64", 64, true, reflect.TypeOf(int64(0)))
	add("int32", 32, true, reflect.TypeOf(int32(0)))
	add("int16", 16, true, reflect.TypeOf(int16(0)))
	add("int8", 8, true, reflect.TypeOf(int8(0)))
	add("uint", 64, false, reflect.TypeOf(uint(0)))
	add("uint64", 64, false, reflect.TypeOf(uint64(0)))
	add("uint32", 32, false, reflect.TypeOf(uint32(0)))
	add("uint16", 16, false, reflect.TypeOf(uint16(0)))
	add("uint8", 8, false, reflect.TypeOf(uint8(0)))
	return ks
}

type numCodec struct {
	name   string
	codec  datacodec.Codec
	lo, hi *big.Int // nil = unbounded
	toFn   string   // name of the convertTo* table
	fromFn string
}

func candidates(r *lp.Rng) []*big.Int {
	var out []*big.Int
	for _, e := range []uint{0, 7, 8, 15, 16, 31, 32, 63, 64} {
		p := new(big.Int).Lsh(big.NewInt(1), e)
		for d := int64(-2); d <= 2; d++ {
			out = append(out, new(big.Int).Add(p, big.NewInt(d)), new(big.Int).Neg(new(big.Int).Add(p, big.NewInt(d))))
		}
	}
	out = append(out, big.NewInt(0), big.NewInt(1), big.NewInt(-1), big.NewInt(100), big.NewInt(-100))
	n := 30
	if thorough() {
		n = 600
	}
	for i := 0; i < n; i++ {
		v := new(big.Int).SetUint64(r.U64())
		switch r.Intn(4) {
		case 0:
			v.Rsh(v, uint(r.Intn(64)))
		case 1:
			v.Neg(v.Rsh(v, uint(1+r.Intn(63))))
		case 2:
			v.Lsh(v, uint(r.Intn(40)))
		}
		out = append(out, v)
	}
	return out
}

func inR(v, lo, hi *big.Int) bool {
	return (lo == nil || v.Cmp(lo) >= 0) && (hi == nil || v.Cmp(hi) <= 0)
}

func runC13(res *lp.Result) {
	res.Rule = "every pair (CQL integer type in {bigint, counter, int, smallint, tinyint, varint}, Go type in {int, int8..int64, uint, " +
		"uint8..uint64, *big.Int, string}) by value and by pointer, in both directions, at and around every power-of-two boundary " +
		"(2^7 … 2^64, both signs) plus random values, judged against arbitrary-precision arithmetic: a conversion delivers exactly the " +
		"same mathematical value or an error, and refuses only values that really do not fit. float/double with float32/float64 " +
		"(bit patterns incl. NaN/Inf/subnormals). duration components. Correspondence: the regenerated helper named by the " +
		"translator's table for the pair is evaluated in the model on the same value. Non-trivial = value ≠ 0; distinct by (pair, value)."
	rng := lp.NewRng(*seed)
	raw, err := os.ReadFile(filepath.Join(*genDir, "conversions.json"))
	must(err)
	var tables map[string][]struct {
		Kind string `json:"kind"`
		Ptr  bool   `json:"ptr"`
		Conv string `json:"conv"`
	}
	must(json.Unmarshal(raw, &tables))
	helperOf := func(fn, kind string, ptr bool) string {
		for _, e := range tables[fn] {
			if e.Kind == kind && e.Ptr == ptr && strings.HasPrefix(e.Conv, "Conv.helper") {
				return strings.Trim(strings.TrimPrefix(e.Conv, "Conv.helper "), "\"")
			}
		}
		return ""
	}
	var lines, expect, descr []string
	ask := func(l, want, d string) { lines = append(lines, l); expect = append(expect, want); descr = append(descr, d) }
	i64lo, i64hi := bi("-9223372036854775808"), bi("9223372036854775807")
	codecs := []numCodec{
		{"bigint", datacodec.Bigint, i64lo, i64hi, "convertToInt64", "convertFromInt64"},
		{"counter", datacodec.Counter, i64lo, i64hi, "convertToInt64", "convertFromInt64"},
		{"int", datacodec.Int, big.NewInt(math.MinInt32), big.NewInt(math.MaxInt32), "convertToInt32", "convertFromInt32"},
		{"smallint", datacodec.Smallint, big.NewInt(math.MinInt16), big.NewInt(math.MaxInt16), "convertToInt16", "convertFromInt16"},
		{"tinyint", datacodec.Tinyint, big.NewInt(math.MinInt8), big.NewInt(math.MaxInt8), "convertToInt8", "convertFromInt8"},
		{"varint", datacodec.Varint, nil, nil, "convertToBigInt", "convertFromBigInt"},
	}
	kinds := numKinds()
	cands := candidates(rng)
	v4 := primitive.ProtocolVersion4
	hasEntry := func(fn, kind string) bool {
		for _, e := range tables[fn] {
			if e.Kind == kind {
				return true
			}
		}
		return false
	}
	// decodeWide reads an encoded integer back through the codec's widest destination
	decodeWide := func(c numCodec, enc []byte) (*big.Int, bool, error) {
		if c.name == "varint" {
			back := new(big.Int)
			wasNull, err := c.codec.Decode(enc, back, v4)
			return back, wasNull, err
		}
		var back int64
		wasNull, err := c.codec.Decode(enc, &back, v4)
		return big.NewInt(back), wasNull, err
	}
	for _, c := range codecs {
		// Go value → CQL
		for _, k := range kinds {
			for _, v := range cands {
				if !inR(v, k.lo, k.hi) {
					continue
				}
				for _, ptr := range []bool{false, true} {
					src := k.mk(v)
					if ptr {
						src = k.ptr(v)
					}
					id := fmt.Sprintf("encode %s <- %s(ptr=%v) %s", c.name, k.name, ptr, v)
					res.Case(id, v.Sign() != 0)
					res.Count("encode/" + c.name + "/" + k.name)
					enc, err := c.codec.Encode(src, v4)
					fits := inR(v, c.lo, c.hi)
					if err != nil {
						if fits {
							res.Add(lp.Finding{Kind: "violation", What: fmt.Sprintf("%s refuses Go %s value that fits the CQL type", c.name, k.name), Input: id, Impl: err.Error()})
						}
					} else {
						if back, wasNull, derr := decodeWide(c, enc); derr != nil || wasNull || back.Cmp(v) != 0 {
							res.Add(lp.Finding{Kind: "violation", What: fmt.Sprintf("%s encodes Go %s value to bytes denoting a different number", c.name, k.name),
								Input: id, Impl: fmt.Sprintf("bytes=%x decoded=%v null=%v err=%v", enc, back, wasNull, derr)})
						}
					}
					if h := helperOf(c.toFn, k.name, ptr); h != "" {
						want := "err"
						if err == nil {
							want = "ok " + v.String()
						}
						ask(fmt.Sprintf("conv %s %s", h, v), want, id)
					}
				}
			}
		}
		// *big.Int and string sources
		for _, v := range cands {
			for _, src := range []interface{}{new(big.Int).Set(v), v.String()} {
				if _, isBig := src.(*big.Int); isBig && !hasEntry(c.toFn, "big") {
					continue
				}
				id := fmt.Sprintf("encode %s <- %T %s", c.name, src, v)
				res.Case(id, v.Sign() != 0)
				enc, err := c.codec.Encode(src, v4)
				fits := inR(v, c.lo, c.hi)
				if err != nil && fits {
					res.Add(lp.Finding{Kind: "violation", What: fmt.Sprintf("%s refuses %T value that fits the CQL type", c.name, src), Input: id, Impl: err.Error()})
				} else if err == nil {
					if back, wasNull, derr := decodeWide(c, enc); derr != nil || wasNull || back.Cmp(v) != 0 {
						res.Add(lp.Finding{Kind: "violation", What: fmt.Sprintf("%s encodes %T value to bytes denoting a different number", c.name, src), Input: id,
							Impl: fmt.Sprintf("bytes=%x decoded=%v err=%v", enc, back, derr)})
					}
				}
				if _, isBig := src.(*big.Int); isBig {
					if h := helperOf(c.toFn, "big", true); h != "" {
						want := "err"
						if err == nil {
							want = "ok " + v.String()
						}
						ask(fmt.Sprintf("conv %s %s", h, v), want, id)
					}
				}
			}
		}
		// CQL → Go destination
		for _, v := range cands {
			if !inR(v, c.lo, c.hi) {
				continue
			}
			enc, err := c.codec.Encode(v.String(), v4)
			if err != nil {
				continue
			}
			for _, k := range kinds {
				d := k.dest()
				id := fmt.Sprintf("decode %s -> *%s %s", c.name, k.name, v)
				res.Case(id, v.Sign() != 0)
				res.Count("decode/" + c.name + "/" + k.name)
				wasNull, derr := c.codec.Decode(enc, d, v4)
				fits := inR(v, k.lo, k.hi)
				if derr != nil {
					if fits {
						res.Add(lp.Finding{Kind: "violation", What: fmt.Sprintf("%s refuses to decode into *%s a value that fits", c.name, k.name), Input: id, Impl: derr.Error()})
					}
				} else if wasNull || k.read(d).Cmp(v) != 0 {
					res.Add(lp.Finding{Kind: "violation", What: fmt.Sprintf("%s decodes into *%s a different number", c.name, k.name), Input: id,
						Impl: fmt.Sprintf("got %v null=%v", k.read(d), wasNull)})
				}
				if h := helperOf(c.fromFn, k.name, true); h != "" {
					want := "err"
					if derr == nil {
						want = "ok " + v.String()
					}
					ask(fmt.Sprintf("conv %s %s", h, v), want, id)
				}
			}
			var s string
			if _, derr := c.codec.Decode(enc, &s, v4); derr != nil || s != v.String() {
				res.Add(lp.Finding{Kind: "violation", What: c.name + " decodes into *string a different number", Input: "decode " + c.name + " -> *string " + v.String(), Impl: s})
			}
		}
	}
	// float / double
	fbits := []uint64{0, 1 << 63, 0x3FF0000000000000, 0x7FF0000000000000, 0xFFF0000000000000, 0x7FF8000000000001, 1, 0x000FFFFFFFFFFFFF,
		0x36A0000000000000, 0x47EFFFFFE0000000, 0x47EFFFFFF0000000, 0x3FB999999999999A, 0x3FE0000000000000}
	for i := 0; i < 200; i++ {
		fbits = append(fbits, rng.U64())
		fbits = append(fbits, math.Float64bits(float64(math.Float32frombits(uint32(rng.U64())))))
	}
	for _, b := range fbits {
		f := math.Float64frombits(b)
		id := fmt.Sprintf("float <- float64 bits %016x", b)
		res.Case(id, b != 0)
		res.Count("float")
		enc, err := datacodec.Float.Encode(f, v4)
		exact := float64(float32(f)) == f
		if err == nil {
			var back float64
			if _, derr := datacodec.Float.Decode(enc, &back, v4); derr != nil || (back != f && !(math.IsNaN(back) && math.IsNaN(f))) {
				res.Add(lp.Finding{Kind: "violation", What: "float codec silently rounds a float64", Input: id, Impl: fmt.Sprint(back)})
			}
		} else if exact {
			res.Add(lp.Finding{Kind: "violation", What: "float codec refuses a float64 that is exactly representable", Input: id, Impl: err.Error()})
		}
		enc2, err2 := datacodec.Double.Encode(f, v4)
		var back2 float64
		if err2 != nil {
			res.Add(lp.Finding{Kind: "violation", What: "double codec refuses a float64", Input: id})
		} else if _, derr := datacodec.Double.Decode(enc2, &back2, v4); derr != nil || math.Float64bits(back2) != b {
			res.Add(lp.Finding{Kind: "violation", What: "double codec changes a float64", Input: id, Impl: fmt.Sprintf("%016x", math.Float64bits(back2))})
		}
		var f32 float32
		if _, derr := datacodec.Double.Decode(enc2, &f32, v4); derr == nil && float64(f32) != f && !math.IsNaN(f) {
			res.Add(lp.Finding{Kind: "violation", What: "double codec silently rounds when decoding into *float32", Input: id, Impl: fmt.Sprint(f32)})
		}
	}
	// duration components: months/days 32-bit, nanos 64-bit
	for _, m := range []int64{0, 1, -1, math.MaxInt32, math.MinInt32, math.MaxInt32 + 1, math.MinInt32 - 1, 1<<32 + 5, -(1 << 40)} {
		for _, which := range []int{0, 1} {
			var b []byte
			w := &sliceWriter{}
			vals := []int64{3, 4, 5}
			vals[which] = m
			for _, x := range vals {
				primitive.WriteVint(x, w)
			}
			b = w.b
			var d datacodec.CqlDuration
			id := fmt.Sprintf("decode duration component %d = %d", which, m)
			res.Case(id, true)
			res.Count("duration")
			_, err := datacodec.Duration.Decode(b, &d, primitive.ProtocolVersion5)
			fits := m >= math.MinInt32 && m <= math.MaxInt32
			got := int64(d.Months)
			if which == 1 {
				got = int64(d.Days)
			}
			if err == nil && got != m {
				res.Add(lp.Finding{Kind: "violation", What: "duration decoder silently truncates months/days", Input: id, Impl: fmt.Sprint(got)})
			} else if err != nil && fits {
				res.Add(lp.Finding{Kind: "violation", What: "duration decoder refuses a 32-bit months/days value", Input: id, Impl: err.Error()})
			}
		}
	}
	finishAsk(res, lines, expect, descr)
}

type sliceWriter struct{ b []byte }

func (s *sliceWriter) Write(p []byte) (int, error) { s.b = append(s.b, p...); return len(p), nil }
