package main

import (
	"context"
	"fmt"
	"io"
	"sync"
	"time"

	"github.com/datastax/go-cassandra-native-protocol/client"
	"github.com/datastax/go-cassandra-native-protocol/frame"
	"github.com/datastax/go-cassandra-native-protocol/message"
	"github.com/datastax/go-cassandra-native-protocol/primitive"
	"github.com/rs/zerolog"
	"github.com/rs/zerolog/log"

	"verif/internal/lp"
)

// C16, part C: chosen interleavings of Close with a call that is IN PROGRESS, made deterministic instead of hoped for:
//   - a Send is parked in the middle of its body (after it has looked at the closed flag, before it touches the channel):
//     debug logging is switched on (output discarded) and the frame carries a message whose String() blocks, so the
//     sender stops inside the library's own `log.Debug().Msgf("… %v", frame)`; Close is called while it is parked;
//   - Close is called while an event handler / a request handler of the connection is running.
// Then the parked call is released. Judged: nothing panics (the child process dies otherwise), Send returns, Close returns,
// a request still pending completes with an error, later sends are refused. One child process per scenario.

func init() { modes["C16PARK"] = runC16ParkChild }

var c16ParkScenarios = []string{
	"server connection: Close while a Send is in progress (parked between its closed-check and the enqueue)",
	"client connection: Close while a Send is in progress (parked between its closed-check and the enqueue)",
	"client connection: Close while an event handler is running",
	"server connection: Close while a request handler is running",
	"client connection: Close while a Send is in progress and a response is being delivered",
	"server: Close while a request handler of one of its connections is running",
}

func runC16Park(res *lp.Result) {
	runScenarios(res, "C16PARK", len(c16ParkScenarios), func(i int) string { return c16ParkScenarios[i] })
}

// parking messages: valid OPTIONS / SUPPORTED messages whose first String() call parks the caller
type parker struct {
	once    sync.Once
	parked  chan struct{}
	release chan struct{}
}

func newParker() *parker { return &parker{parked: make(chan struct{}), release: make(chan struct{})} }
func (p *parker) park() {
	p.once.Do(func() {
		close(p.parked)
		<-p.release
	})
}

type parkingOptions struct {
	*message.Options
	p *parker
}

func (m *parkingOptions) String() string { m.p.park(); return "OPTIONS (parking)" }

type parkingSupported struct {
	*message.Supported
	p *parker
}

func (m *parkingSupported) String() string { m.p.park(); return "SUPPORTED (parking)" }

func runC16ParkChild(res *lp.Result) {
	i := scenarioIndex()
	if i >= len(c16ParkScenarios) {
		return
	}
	id := c16ParkScenarios[i]
	res.Case(id, true)
	res.Count("interleavings")
	viol := func(what, detail string) { res.Add(lp.Finding{Kind: "violation", What: what, Input: id, Impl: detail}) }
	v := primitive.ProtocolVersion4
	evSent := make(chan struct{})
	evEntered, evRelease := make(chan struct{}), make(chan struct{})
	rqEntered, rqRelease := make(chan struct{}), make(chan struct{})
	var evOnce, rqOnce sync.Once
	var handlers []client.RequestHandler
	if i == 3 || i == 5 {
		handlers = append(handlers, func(request *frame.Frame, conn *client.CqlServerConnection, ctx client.RequestHandlerContext) *frame.Frame {
			if _, ok := request.Body.Message.(*message.Query); ok {
				rqOnce.Do(func() { close(rqEntered); <-rqRelease })
			}
			return nil
		})
	}
	srv, addr, cancel := startServer(nil, handlers...)
	defer cancel()
	cl := newClient(addr, nil, primitive.CompressionNone, 20*time.Second)
	if i == 2 {
		cl.EventHandlers = []client.EventHandler{func(event *frame.Frame, conn *client.CqlClientConnection) {
			evOnce.Do(func() {
				close(evEntered)
				<-evRelease
				// a handler uses the connection it is given (re-registers, queries the changed node …): with Close under way the
				// send may be refused, but it must return
				conn.Send(frame.NewFrame(event.Header.Version, 0, &message.Options{}))
				close(evSent)
			})
		}}
	}
	cc, sc, err := srv.BindAndInit(cl, context.Background(), v, 1)
	if err != nil {
		res.Add(lp.Finding{Kind: "harness", What: "cannot set up a connection", Input: id, Impl: err.Error()})
		return
	}
	defer srv.Close()
	// a request that stays pending on the client
	pending, err := cc.Send(frame.NewFrame(v, 7, &message.Options{}))
	if err != nil {
		res.Add(lp.Finding{Kind: "harness", What: "send failed", Input: id, Impl: err.Error()})
		return
	}
	within(3*time.Second, func() { sc.Receive() })

	safely := func(what string, f func()) (done chan struct{}) {
		done = make(chan struct{})
		go func() {
			defer close(done)
			defer func() {
				if r := recover(); r != nil {
					viol(what+" panics: "+firstWords(fmt.Sprint(r)), "")
				}
			}()
			f()
		}()
		return
	}
	waitFor := func(what string, ch chan struct{}, d time.Duration) bool {
		select {
		case <-ch:
			return true
		case <-time.After(d):
			viol(what, goroutineDump())
			return false
		}
	}
	closeClient := func() chan struct{} { return safely("Close of the client connection", func() { cc.Close() }) }
	closeServerConn := func() chan struct{} { return safely("Close of the server connection", func() { sc.Close() }) }

	switch i {
	case 0, 1, 4:
		zerolog.SetGlobalLevel(zerolog.DebugLevel)
		log.Logger = zerolog.New(io.Discard)
		p := newParker()
		var sendDone, closeDone chan struct{}
		if i == 0 {
			sendDone = safely("Send on the server connection", func() {
				sc.Send(frame.NewFrame(v, 7, &parkingSupported{&message.Supported{}, p}))
			})
		} else {
			sendDone = safely("Send on the client connection", func() {
				cc.Send(frame.NewFrame(v, 9, &parkingOptions{&message.Options{}, p}))
			})
		}
		select {
		case <-p.parked:
			res.Count("parked")
		case <-sendDone:
			res.Count("not-parked") // the library no longer formats the frame inside Send: this interleaving cannot be forced this way
			return
		case <-time.After(3 * time.Second):
			res.Count("not-parked")
			return
		}
		if i == 4 {
			// a response for the pending request is on its way while the Send is parked and Close begins
			sc.Send(frame.NewFrame(v, 7, &message.Supported{}))
		}
		if i == 0 {
			closeDone = closeServerConn()
		} else {
			closeDone = closeClient()
		}
		time.Sleep(200 * time.Millisecond) // Close is now either waiting for the Send or (wrongly) past it
		close(p.release)
		waitFor("a Send in progress when Close was called does not return", sendDone, 4*time.Second)
		waitFor("Close does not return when it was called while a Send was in progress", closeDone, 5*time.Second)
		zerolog.SetGlobalLevel(zerolog.Disabled)
	case 2:
		sc.Send(frame.NewFrame(v, -1, &message.StatusChangeEvent{ChangeType: primitive.StatusChangeTypeUp, Address: &primitive.Inet{Addr: []byte{127, 0, 0, 1}, Port: 9042}}))
		if !waitFor("event handler is not invoked for a pushed event", evEntered, 3*time.Second) {
			return
		}
		closeDone := closeClient()
		time.Sleep(200 * time.Millisecond)
		close(evRelease)
		waitFor("a Send made by an event handler while Close is under way does not return", evSent, 5*time.Second)
		waitFor("Close does not return when it was called while an event handler was running", closeDone, 5*time.Second)
	case 3, 5:
		if _, err := cc.Send(frame.NewFrame(v, 11, &message.Query{Query: "SELECT handler"})); err != nil {
			res.Add(lp.Finding{Kind: "harness", What: "send failed", Input: id, Impl: err.Error()})
			return
		}
		if !waitFor("request handler is not invoked for a request", rqEntered, 3*time.Second) {
			return
		}
		var closeDone chan struct{}
		if i == 5 {
			closeDone = safely("Close of the server", func() { srv.Close() })
		} else {
			closeDone = closeServerConn()
		}
		time.Sleep(300 * time.Millisecond)
		select {
		case <-closeDone:
			// the handler goroutine belongs to the connection: Close returning while it runs leaves it behind
			if i == 5 {
				viol("Close of the server returns while a request handler goroutine of one of its connections is still running (it survives the close)", "")
			} else {
				viol("Close of the server connection returns while a request handler goroutine of that connection is still running (it survives the close)", "")
			}
		default:
		}
		close(rqRelease)
		waitFor("Close does not return when it was called while a request handler was running", closeDone, 5*time.Second)
	}
	// afterwards: the closed side refuses sends; the client's pending request completes with an error once the client
	// connection is closed (by itself or because its peer went away)
	if i == 0 || i == 3 || i == 5 {
		if err := func() (err error) {
			defer func() {
				if r := recover(); r != nil {
					err = nil
					viol("Send panics on a closed server connection: "+firstWords(fmt.Sprint(r)), "")
				}
			}()
			return sc.Send(frame.NewFrame(v, 7, &message.Supported{}))
		}(); err == nil && sc.IsClosed() {
			viol("send on a closed server connection is not refused", "")
		}
	}
	deadline := time.Now().Add(4 * time.Second)
	for !cc.IsClosed() && time.Now().Before(deadline) {
		time.Sleep(10 * time.Millisecond)
	}
	if !cc.IsClosed() {
		viol("client connection is not closed after Close / after its peer closed", goroutineDump())
	} else {
		if i != 4 {
			for !pending.IsDone() && time.Now().Before(deadline) {
				time.Sleep(10 * time.Millisecond)
			}
			if !pending.IsDone() {
				viol("request still awaiting a response is not completed after the close", "")
			} else if pending.Err() == nil {
				viol("request completed without an error after the close", "")
			}
		}
		if _, err := cc.Send(frame.NewFrame(v, 99, &message.Options{})); err == nil {
			viol("send on a closed client connection is not refused", "")
		}
	}
	if !within(5*time.Second, func() { cc.Close(); sc.Close(); srv.Close() }) {
		viol("Close does not return (second call)", goroutineDump())
	}
}
