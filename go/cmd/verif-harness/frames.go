package main

import (
	"bytes"
	"encoding/hex"
	"fmt"
	"io"
	"reflect"
	"strings"

	"github.com/datastax/go-cassandra-native-protocol/compression/lz4"
	"github.com/datastax/go-cassandra-native-protocol/compression/snappy"
	"github.com/datastax/go-cassandra-native-protocol/frame"
	"github.com/datastax/go-cassandra-native-protocol/message"
	"github.com/datastax/go-cassandra-native-protocol/primitive"
	"verif/internal/gen"
	"verif/internal/lp"
	"verif/internal/show"
)

func init() {
	modes["C01"] = func(res *lp.Result) { runFrames(res, "C01") }
	modes["C03"] = func(res *lp.Result) { runFrames(res, "C03") }
}

type compSetting struct {
	name  string
	comp  frame.BodyCompressor
	codec frame.RawCodec
}

func compSettings() []compSetting {
	return []compSetting{
		{"none", nil, frame.NewRawCodec()},
		{"lz4", lz4.Compressor{}, frame.NewRawCodecWithCompression(lz4.Compressor{})},
		{"snappy", snappy.Compressor{}, frame.NewRawCodecWithCompression(snappy.Compressor{})},
	}
}

func hx(b []byte) string {
	if len(b) == 0 {
		return "-"
	}
	return hex.EncodeToString(b)
}

type countingReader struct {
	r io.Reader
	n int
}

func (c *countingReader) Read(p []byte) (int, error) { n, err := c.r.Read(p); c.n += n; return n, err }

// zOracle returns the driver lines that teach the model's compressor what the real library does on this chunk / raw body.
func zDecompress(comp frame.BodyCompressor, chunk []byte) string {
	cr := &countingReader{r: bytes.NewReader(chunk)}
	var out bytes.Buffer
	err := comp.DecompressWithLength(cr, &out)
	if err != nil {
		return fmt.Sprintf("z d %s ! -", hx(chunk))
	}
	return fmt.Sprintf("z d %s %s %s", hx(chunk), hx(out.Bytes()), hx(chunk[cr.n:]))
}

func zCompress(comp frame.BodyCompressor, raw []byte) (string, []byte) {
	var out bytes.Buffer
	if err := comp.CompressWithLength(bytes.NewBuffer(append([]byte{}, raw...)), &out); err != nil {
		return fmt.Sprintf("z c %s !", hx(raw)), nil
	}
	return fmt.Sprintf("z c %s %s", hx(raw), hx(out.Bytes())), out.Bytes()
}

var msgCodecs = func() map[primitive.OpCode]message.Codec {
	m := map[primitive.OpCode]message.Codec{}
	for _, c := range message.DefaultMessageCodecs {
		m[c.GetOpCode()] = c
	}
	return m
}()

func headerLen(v primitive.ProtocolVersion) int { return v.FrameHeaderLengthInBytes() }

// otherSources decodes an encoded frame again from (1) a source delivering one byte per Read, (2) a source delivering a few bytes per
// Read, (3) a *bytes.Buffer that holds the frame twice, back to back, followed by the trailer. Each must give the frame the plain
// bytes.Reader gave and consume exactly the frame.
func otherSources(res *lp.Result, rng *lp.Rng, cs compSetting, enc, trailer []byte, want, id string) {
	all := append(append([]byte{}, enc...), trailer...)
	for _, n := range []int{1, 2 + rng.Intn(22)} {
		if n == 1 && len(enc) > 1<<16 {
			continue
		}
		r := bytes.NewReader(all)
		d, err := cs.codec.DecodeFrame(&chunkedReader{r: r, n: n})
		res.Count("sources/piecewise")
		if err != nil {
			res.Add(lp.Finding{Kind: "violation", What: fmt.Sprintf("encoded frame does not decode from a source delivering %s per Read: %v", map[bool]string{true: "one byte", false: "a few bytes"}[n == 1], err), Input: id + " bytes=" + hxIn(enc)})
		} else if got := show.Frame(d); got != want || r.Len() != len(trailer) {
			res.Add(lp.Finding{Kind: "violation", What: "frame decoded from a source delivering a few bytes per Read differs from the frame decoded from a byte slice, or the decoder does not stop at the frame's end",
				Input: id + " bytes=" + hxIn(enc), Impl: fmt.Sprintf("%d bytes left, %d expected; %s", r.Len(), len(trailer), got), Model: want})
		}
	}
	backing := append(append([]byte{}, enc...), all...)
	b := bytes.NewBuffer(backing)
	defer func() {
		// a decoded frame (and a raw frame) owns its contents: reusing the source buffer afterwards must not change it
		rb := bytes.NewBuffer(append([]byte{}, enc...))
		raw, rerr := cs.codec.DecodeRawFrame(rb)
		var before []byte
		if rerr == nil {
			before = append([]byte{}, raw.Body...)
			under := rb.Bytes()[:0]
			under = under[:cap(under)]
			for i := range under {
				under[i] ^= 0x5a
			}
			rb.Reset()
			rb.Write(bytes.Repeat([]byte{0xee}, len(enc)))
			if !bytes.Equal(raw.Body, before) {
				res.Add(lp.Finding{Kind: "violation", What: "body of a decoded raw frame changes when the source buffer it was read from is reused", Input: id + " bytes=" + hxIn(enc)})
			}
		}
	}()
	var first *frame.Frame
	defer func() {
		if first != nil {
			for i := range backing {
				backing[i] ^= 0x5a
			}
			if got := show.Frame(first); got != want {
				res.Add(lp.Finding{Kind: "violation", What: "decoded frame changes when the source buffer it was read from is overwritten", Input: id + " bytes=" + hxIn(enc), Impl: got, Model: want})
			}
		}
	}()
	for k := 0; k < 2; k++ {
		d, err := cs.codec.DecodeFrame(b)
		if k == 0 && err == nil {
			first = d
		}
		res.Count("sources/buffer-with-two-frames")
		left := len(all) * (1 - k)
		if k == 1 {
			left = len(trailer)
		}
		if err != nil {
			res.Add(lp.Finding{Kind: "violation", What: fmt.Sprintf("frame %d of two held back to back in one *bytes.Buffer does not decode: %v", k+1, err), Input: id + " bytes=" + hxIn(enc)})
			return
		} else if got := show.Frame(d); got != want || b.Len() != left {
			res.Add(lp.Finding{Kind: "violation", What: fmt.Sprintf("frame %d of two held back to back in one *bytes.Buffer decodes to another frame, or the decoder does not stop at the frame's end", k+1),
				Input: id + " bytes=" + hxIn(enc), Impl: fmt.Sprintf("%d bytes left, %d expected; %s", b.Len(), left, got), Model: want})
			return
		}
	}
}

type plainWriter struct{ w io.Writer }

func (p plainWriter) Write(b []byte) (int, error) { return p.w.Write(b) }

func otherDestinations(res *lp.Result, cs compSetting, orig, used *frame.Frame, enc []byte, id string) {
	if hasMultiEntryMaps(orig) {
		return // Go's map iteration order may differ between two encodings of the same frame
	}
	same := func(what string, got []byte, err error) {
		res.Count("destinations/" + what)
		if err != nil {
			res.Add(lp.Finding{Kind: "violation", What: "frame that encodes into an empty buffer is refused when " + what + ": " + firstWords(err.Error()), Input: id})
		} else if !bytes.Equal(got, enc) {
			res.Add(lp.Finding{Kind: "violation", What: "encoded bytes differ when " + what, Input: id + " bytes=" + hxIn(enc), Impl: hxIn(got)})
		}
	}
	pre := []byte("bytes already in the destination")
	b1 := bytes.NewBuffer(append([]byte{}, pre...))
	err := cs.codec.EncodeFrame(orig.DeepCopy(), b1)
	if err == nil && !bytes.HasPrefix(b1.Bytes(), pre) {
		res.Add(lp.Finding{Kind: "violation", What: "encoding into a buffer that already holds bytes damages them", Input: id})
	} else if err == nil {
		same("the destination already holds bytes", b1.Bytes()[len(pre):], nil)
	} else {
		same("the destination already holds bytes", nil, err)
	}
	var b2 bytes.Buffer
	err = cs.codec.EncodeFrame(orig.DeepCopy(), plainWriter{&b2})
	same("the destination is not a *bytes.Buffer", b2.Bytes(), err)
	var b3 bytes.Buffer
	err = cs.codec.EncodeFrame(used, &b3)
	same("the same frame object is encoded a second time", b3.Bytes(), err)
	var other frame.Codec
	if cs.comp == nil {
		other = frame.NewCodec()
	} else {
		other = frame.NewCodecWithCompression(cs.comp)
	}
	var b4 bytes.Buffer
	err = other.EncodeFrame(orig.DeepCopy(), &b4)
	same("the codec comes from NewCodec / NewCodecWithCompression", b4.Bytes(), err)
	if d, derr := other.DecodeFrame(bytes.NewReader(enc)); derr != nil {
		res.Add(lp.Finding{Kind: "violation", What: "a codec from NewCodec / NewCodecWithCompression does not decode what a raw codec encoded: " + firstWords(derr.Error()), Input: id})
	} else if d2, _ := cs.codec.DecodeFrame(bytes.NewReader(enc)); d2 != nil && show.Frame(d) != show.Frame(d2) {
		res.Add(lp.Finding{Kind: "violation", What: "a codec from NewCodec / NewCodecWithCompression decodes the same bytes to another frame", Input: id})
	}
}

func runFrames(res *lp.Result, prop string) {
	res.Rule = "generated version-valid frames: every message kind (all ERROR/RESULT/EVENT variants) × 6 versions × {none, LZ4, Snappy} × random " +
		"optional-field subsets, nil/empty/unset values, boundary string sizes, nested column types, header flags legal for direction " +
		"and version, with random trailing bytes after the frame. Implementation oracles: the encoder accepts the frame; decode(encode f) " +
		"equals f up to the wire-inexpressible distinctions; exactly the frame's bytes are consumed; declared body length = emitted body " +
		"bytes; EncodedLength = bytes written by Encode; frame sequences decode in sequence. Correspondence: the model decodes the same " +
		"bytes to the same structure (rendered text), consumes the same number of bytes and re-encodes them to the same bytes. " +
		"Non-trivial = frame whose message has at least one non-empty field; distinct by the encoded bytes."
	rng := lp.NewRng(*seed)
	per := 6
	if thorough() {
		per = 120
	}
	var lines, expect, descr []string
	ask := func(l, want, d string) {
		lines = append(lines, l)
		expect = append(expect, want)
		descr = append(descr, d)
	}
	var stream bytes.Buffer // C03: frames written back-to-back on one stream
	var streamTexts []string
	streamCodec := frame.NewRawCodec()
	for _, v := range gen.Versions {
		for _, kind := range gen.Kinds {
			for _, cs := range compSettings() {
				if cs.name == "snappy" && v == primitive.ProtocolVersion5 {
					continue
				}
				extra := 0
				if cs.comp != nil && (kind == "Query" || kind == "RowsResult") {
					extra = 3 // bodies that compress extremely well (long runs of one byte): ratios far beyond 100:1
				}
				for i := 0; i < per+extra+1; i++ {
					g := &gen.G{R: rng, V: v, Big: rng.Intn(8) == 0}
					f := g.Frame(kind)
					if f == nil {
						continue
					}
					if i == per+extra {
						// one frame per kind whose lists have more than 1024 entries (where the kind has lists)
						if cs.name != "none" || !g.Enlarge(f) {
							continue
						}
					} else if i >= per {
						n := []int{9000, 40000, 140000}[i-per]
						switch m := f.Body.Message.(type) {
						case *message.Query:
							m.Query = strings.Repeat(" ", n)
						case *message.RowsResult:
							m.Metadata = &message.RowsMetadata{ColumnCount: 1}
							m.Data = message.RowSet{message.Row{make([]byte, n)}}
						}
					}
					huge := false
					if i == 0 && (kind == "Query" || kind == "RowsResult" || kind == "Execute") {
						// one content longer than 1 MiB (the decoder reads such contents piecewise)
						n := 1<<20 + 1 + rng.Intn(70000)
						switch m := f.Body.Message.(type) {
						case *message.Query:
							m.Query = strings.Repeat("q", n)
							huge = true
						case *message.RowsResult:
							m.Metadata = &message.RowsMetadata{ColumnCount: 1}
							m.Data = message.RowSet{message.Row{bytes.Repeat([]byte{7}, n)}}
							huge = true
						case *message.Execute:
							if m.Options == nil {
								m.Options = &message.QueryOptions{}
							}
							m.Options.NamedValues = nil
							m.Options.PositionalValues = []*primitive.Value{primitive.NewValue(bytes.Repeat([]byte{9}, n))}
							huge = true
						}
					}
					if cs.comp != nil {
						f.SetCompress(rng.Intn(4) != 0 || i >= per)
						if (kind == "Options" || kind == "Ready") && rng.Intn(2) == 0 {
							// SetCompress leaves these alone, but the flag is a header bit any caller or peer can set: an EMPTY body travels
							// compressed (LZ4: length 0 and a one-byte empty block; Snappy: one byte)
							f.Header.Flags = f.Header.Flags.Add(primitive.HeaderFlagCompressed)
						}
					}
					// the encoder must not read Header.BodyLength (it is documented as computed on encode): any value may be there
					if rng.Intn(2) == 0 {
						f.Header.BodyLength = []int32{1, 15, 72, -3, 1 << 20, int32(rng.Intn(300))}[rng.Intn(6)]
					}
					id := fmt.Sprintf("v=%d kind=%s comp=%s seed=%d i=%d", v, kind, cs.name, *seed, i)
					orig := f.DeepCopy()
					// history: the codec is used before — by an encode that fails part-way and by a decode of cut-off bytes; neither
					// may leave anything behind that changes what follows
					if rng.Intn(3) == 0 {
						for _, bad := range failingFrames(v, cs.comp != nil) {
							var sink bytes.Buffer
							if err := encodeNoPanic(cs.codec, bad, &sink); err == nil {
								res.Count("history/failing-encode-accepted")
							} else {
								res.Count("history/failing-encode")
							}
						}
					}
					if rng.Intn(3) == 0 {
						// … and by an encode of this very frame whose destination fails after a few bytes
						if err := encodeNoPanic(cs.codec, orig.DeepCopy(), &failingWriter{left: rng.Intn(14)}); err != nil {
							res.Count("history/failing-destination")
						}
					}
					var buf bytes.Buffer
					if err := cs.codec.EncodeFrame(f, &buf); err != nil {
						res.Add(lp.Finding{Kind: "violation", What: "version-valid frame refused by the encoder: " + err.Error(), Input: id + " " + show.Frame(orig)})
						continue
					}
					enc := append([]byte{}, buf.Bytes()...)
					// the bytes do not depend on where they are written, how often, or which constructor made the codec: a destination
					// that already holds bytes, a destination that is not a *bytes.Buffer, the same frame object encoded a second time,
					// and a codec from the other constructor all give the same bytes
					otherDestinations(res, cs, orig, f, enc, id)
					if rng.Intn(3) == 0 && len(enc) > 2 {
						if _, err := cs.codec.DecodeFrame(bytes.NewReader(enc[:len(enc)-1-rng.Intn(len(enc)-1)])); err != nil {
							res.Count("history/failing-decode")
						}
					}
					trailer := rng.Bytes(rng.Intn(6))
					all := append(append([]byte{}, enc...), trailer...)
					rd := bytes.NewReader(all)
					dec, err := cs.codec.DecodeFrame(rd)
					res.Count("kind/" + kind)
					res.Count(fmt.Sprintf("version/%d", v))
					res.Count("compression/" + cs.name)
					res.Count(fmt.Sprintf("flags/%02x", uint8(orig.Header.Flags)))
					res.Case(hx(enc), len(enc) > headerLen(v)+4)
					if err != nil && cs.name == "lz4" {
						// is it the third-party block codec that fails on this very body (known finding), or the repository's code?
						plain := orig.DeepCopy()
						plain.Header.Flags = plain.Header.Flags.Remove(primitive.HeaderFlagCompressed)
						var pb bytes.Buffer
						if e2 := frame.NewRawCodec().EncodeFrame(plain, &pb); e2 == nil && pb.Len() > headerLen(v) && lz4LibraryFails(pb.Bytes()[headerLen(v):]) {
							res.Add(lp.Finding{Kind: "violation", What: lz4LibraryWhat + ": encoded frame does not decode", Input: id})
							continue
						}
					}
					if err != nil {
						res.Add(lp.Finding{Kind: "violation", What: "encoded frame does not decode: " + err.Error(), Input: id + " bytes=" + hxIn(enc)})
						ask("frame dec "+flagOf(cs)+" "+hx(all), "err", id)
						continue
					}
					if prop == "C01" {
						want, got := show.Frame(show.Normalize(orig)), show.Frame(show.Normalize(dec))
						if want != got {
							res.Add(lp.Finding{Kind: "violation", What: "decode(encode(frame)) differs from the frame (" + kind + ", v" + fmt.Sprint(v) + ", " + cs.name + ")",
								Input: id + " bytes=" + hxIn(enc), Impl: got, Model: want})
						}
					}
					if rd.Len() != len(trailer) {
						res.Add(lp.Finding{Kind: "violation", What: fmt.Sprintf("decoder consumed %d bytes of a %d-byte frame", len(all)-rd.Len(), len(enc)),
							Input: id + " bytes=" + hxIn(enc)})
					}
					// the same bytes from other kinds of source (a connection delivers them piecewise; a proxy keeps several frames in one
					// buffer): the decoder must deliver the same frame and stop exactly at its end, whatever the property under check
					otherSources(res, rng, cs, enc, trailer, show.Frame(dec), id)
					if prop == "C03" {
						// back to back over a source that delivers a few bytes per Read: both decoders must stop exactly at the frame's end
						two := append(append([]byte{}, enc...), enc...)
						for pi, path := range []string{"DecodeFrame", "DecodeRawFrame", "DecodeFrame", "DecodeRawFrame"} {
							// a source delivering a few bytes per Read, and a *bytes.Buffer holding both frames
							var br interface{ Len() int }
							var src io.Reader
							if pi < 2 {
								r := bytes.NewReader(two)
								br, src = r, &chunkedReader{r: r, n: 1 + rng.Intn(24)}
							} else {
								b := bytes.NewBuffer(append([]byte{}, two...))
								br, src = b, b
							}
							var e1, e2 error
							if path == "DecodeFrame" {
								_, e1 = cs.codec.DecodeFrame(src)
							} else {
								_, e1 = cs.codec.DecodeRawFrame(src)
							}
							used := len(two) - br.Len()
							if path == "DecodeFrame" {
								_, e2 = cs.codec.DecodeFrame(src)
							} else {
								_, e2 = cs.codec.DecodeRawFrame(src)
							}
							if e1 != nil || used != len(enc) || e2 != nil || br.Len() != 0 {
								res.Add(lp.Finding{Kind: "violation", What: path + " over " + []string{"a source delivering a few bytes per Read", "a *bytes.Buffer holding two frames"}[pi/2] + " does not consume exactly the frame",
									Input: id + " bytes=" + hxIn(enc), Impl: fmt.Sprintf("first: err=%v consumed %d of %d; second: err=%v, %d bytes left", e1, used, len(enc), e2, br.Len())})
							}
						}
						declared := int(dec.Header.BodyLength)
						if declared != len(enc)-headerLen(v) {
							res.Add(lp.Finding{Kind: "violation", What: fmt.Sprintf("header declares %d body bytes, %d were emitted", declared, len(enc)-headerLen(v)),
								Input: id + " bytes=" + hxIn(enc)})
						}
						mc := msgCodecs[orig.Body.Message.GetOpCode()]
						var mb bytes.Buffer
						if err := mc.Encode(orig.Body.Message, &mb, v); err == nil {
							if n, err := mc.EncodedLength(orig.Body.Message, v); err != nil || n != mb.Len() {
								res.Add(lp.Finding{Kind: "violation", What: fmt.Sprintf("EncodedLength = %d (err %v) but Encode wrote %d bytes (%s)", n, err, mb.Len(), kind),
									Input: id + " " + show.Message(orig.Body.Message)})
							}
						}
						if cs.comp == nil && stream.Len() < 1<<20 {
							stream.Write(enc)
							streamTexts = append(streamTexts, show.Frame(dec))
						}
					}
					if huge {
						res.Count("content-over-1MiB")
						continue // implementation oracles only: megabyte lines are not sent to the model
					}
					// correspondence with the model
					if cs.comp != nil && dec.Header.Flags.Contains(primitive.HeaderFlagCompressed) {
						ask("z clear", "ok", "")
						chunk := all[headerLen(v):]
						if int(dec.Header.BodyLength) < len(chunk) {
							chunk = chunk[:dec.Header.BodyLength]
						}
						ask(zDecompress(cs.comp, chunk), "ok", "")
						// the raw body, for re-encoding
						plain := orig.DeepCopy()
						plain.Header.Flags = plain.Header.Flags.Remove(primitive.HeaderFlagCompressed)
						var pb bytes.Buffer
						if err := frame.NewRawCodec().EncodeBody(plain.Header, plain.Body, &pb); err == nil {
							l, _ := zCompress(cs.comp, pb.Bytes())
							ask(l, "ok", "")
						}
					}
					ask("frame dec "+flagOf(cs)+" "+hx(all), fmt.Sprintf("ok %d %s", len(enc), show.Frame(dec)), id)
					// re-encoding the decoded frame in the model must reproduce the implementation's bytes — except that
					// a compressed body is reproduced only when the decoded map order equals the original one (the oracle
					// table is keyed by the raw body bytes)
					if cs.comp == nil || !dec.Header.Flags.Contains(primitive.HeaderFlagCompressed) {
						ask("frame rt "+flagOf(cs)+" "+hx(all), fmt.Sprintf("ok %s %d", hx(enc), uint32(dec.Header.BodyLength)), id)
					}
					if prop == "C03" {
						mc := msgCodecs[dec.Body.Message.GetOpCode()]
						n1, e1 := mc.EncodedLength(dec.Body.Message, v)
						if e1 == nil {
							plain := dec.DeepCopy()
							n0 := len(enc) - headerLen(v)
							if dec.Header.Flags.Contains(primitive.HeaderFlagCompressed) {
								n0 = -1
							}
							_ = plain
							if n0 >= 0 {
								ask("frame len "+flagOf(cs)+" "+hx(all), fmt.Sprintf("ok %d %d", n0, n1), id)
							}
						}
					}
				}
			}
		}
	}
	if prop == "C03" && stream.Len() > 0 {
		// back-to-back frames on one stream decode in sequence, nothing left over
		rd := bytes.NewReader(stream.Bytes())
		for i, want := range streamTexts {
			d, err := streamCodec.DecodeFrame(rd)
			if err != nil {
				res.Add(lp.Finding{Kind: "violation", What: fmt.Sprintf("frame %d of a back-to-back stream does not decode: %v", i, err), Input: "stream seed=" + fmt.Sprint(*seed)})
				break
			}
			if got := show.Frame(d); got != want {
				res.Add(lp.Finding{Kind: "violation", What: fmt.Sprintf("frame %d of a back-to-back stream decodes differently than alone", i), Input: "stream seed=" + fmt.Sprint(*seed), Impl: got, Model: want})
				break
			}
		}
		if rd.Len() != 0 {
			res.Add(lp.Finding{Kind: "violation", What: fmt.Sprintf("%d bytes left over after a back-to-back stream", rd.Len()), Input: "stream seed=" + fmt.Sprint(*seed)})
		}
		res.Count("stream/frames")
	}
	if prop == "C03" {
		vintChecks(res, rng, ask)
	}
	answers, err := lp.Ask(*driverPath, lines)
	if err != nil {
		res.Add(lp.Finding{Kind: "disagreement", What: "driver failure: " + err.Error()})
		return
	}
	nd := 0
	for i, a := range answers {
		if a != expect[i] && nd < 20 {
			nd++
			res.Add(lp.Finding{Kind: "disagreement", What: "model/implementation differ on " + strings.SplitN(lines[i], " ", 3)[0] + " " + strings.SplitN(lines[i], " ", 3)[1] + " (" + descr[i] + ")",
				Input: lines[i], Impl: expect[i], Model: a})
		}
	}
}

func flagOf(cs compSetting) string {
	if cs.comp == nil {
		return "none"
	}
	return "z"
}

// failingFrames returns frames whose encoding fails after part of the body has been produced.
func failingFrames(v primitive.ProtocolVersion, compress bool) []*frame.Frame {
	mk := func(m message.Message) *frame.Frame {
		f := frame.NewFrame(v, 1, m)
		f.SetCompress(compress)
		return f
	}
	return []*frame.Frame{
		// a BATCH whose second child has neither a query string nor a prepared id
		mk(&message.Batch{Type: primitive.BatchTypeLogged, Children: []*message.BatchChild{
			{Query: "INSERT INTO history_marker_table (k) VALUES (0123456789)"}, {}}, Consistency: primitive.ConsistencyLevelOne}),
		// a QUERY whose second bound value has a type no version defines
		mk(&message.Query{Query: "SELECT history_marker FROM t", Options: &message.QueryOptions{PositionalValues: []*primitive.Value{
			primitive.NewValue([]byte("history_marker_value")), {Type: primitive.ValueType(99)}}}}),
		// an EXECUTE without a prepared id
		mk(&message.Execute{Options: &message.QueryOptions{}}),
	}
}

func encodeNoPanic(c frame.RawCodec, f *frame.Frame, w io.Writer) (err error) {
	defer func() {
		if r := recover(); r != nil {
			err = fmt.Errorf("panic: %v", r)
		}
	}()
	return c.EncodeFrame(f, w)
}

// hxIn renders bytes for a finding's input; megabyte frames are cut (they are regenerated from the seed and the id)
func hxIn(b []byte) string {
	if len(b) > 1<<16 {
		return fmt.Sprintf("%s…(%d bytes in all, regenerate from the seed)", hx(b[:96]), len(b))
	}
	return hx(b)
}

// hasMultiEntryMaps: does the value hold, anywhere, a map with more than one entry (whose order on the wire is Go's choice)?
func hasMultiEntryMaps(x interface{}) bool {
	seen := map[uintptr]bool{}
	var walk func(v reflect.Value) bool
	walk = func(v reflect.Value) bool {
		switch v.Kind() {
		case reflect.Ptr, reflect.Interface:
			if v.IsNil() {
				return false
			}
			if v.Kind() == reflect.Ptr {
				if seen[v.Pointer()] {
					return false
				}
				seen[v.Pointer()] = true
			}
			return walk(v.Elem())
		case reflect.Map:
			if v.Len() > 1 {
				return true
			}
			for _, k := range v.MapKeys() {
				if walk(v.MapIndex(k)) {
					return true
				}
			}
		case reflect.Slice, reflect.Array:
			for i := 0; i < v.Len(); i++ {
				if walk(v.Index(i)) {
					return true
				}
			}
		case reflect.Struct:
			for i := 0; i < v.NumField(); i++ {
				if walk(v.Field(i)) {
					return true
				}
			}
		}
		return false
	}
	return walk(reflect.ValueOf(x))
}
