package main

import (
	"encoding/binary"
	"bytes"
	"fmt"
	"io"
	"strings"
	"time"

	"github.com/datastax/go-cassandra-native-protocol/frame"
	"github.com/datastax/go-cassandra-native-protocol/message"
	"github.com/datastax/go-cassandra-native-protocol/primitive"
	"verif/internal/gen"
	"verif/internal/lp"
	"verif/internal/show"
)

func init() {
	modes["C05"] = runC05
}

// mutations of a valid encoding; `hdr` = number of leading bytes to leave alone most of the time
func mutations(r *lp.Rng, enc []byte, hdr int, n int) [][]byte {
	var out [][]byte
	body := len(enc) - hdr
	for i := 0; i < n; i++ {
		m := append([]byte{}, enc...)
		lo := hdr
		if r.Intn(5) == 0 || body <= 0 {
			lo = 0
		}
		span := len(m) - lo
		if span <= 0 {
			continue
		}
		pos := lo + r.Intn(span)
		switch r.Intn(9) {
		case 0:
			m[pos] ^= 1 << uint(r.Intn(8))
		case 1:
			m[pos] = []byte{0, 0xff, 0x80, 0x7f, 1}[r.Intn(5)]
		case 2:
			m = m[:pos] // truncate
		case 3:
			w := [][]byte{{0xff, 0xff, 0xff, 0xff}, {0xff, 0xff, 0xff, 0xfe}, {0x80, 0, 0, 0}, {0x7f, 0xff, 0xff, 0xff}, {0, 0, 0, 0}, {0, 0, 0, 1}, {0, 1, 0, 0}}[r.Intn(7)]
			copy(m[pos:], w)
		case 4:
			w := [][]byte{{0xff, 0xff}, {0, 0}, {0x80, 0}, {0, 1}, {0x7f, 0xff}}[r.Intn(5)]
			copy(m[pos:], w)
		case 5:
			m = append(m[:pos], append(r.Bytes(1+r.Intn(4)), m[pos:]...)...) // insert
		case 6:
			if pos+1 < len(m) {
				m = append(m[:pos], m[pos+1:]...) // delete
			}
		case 7:
			q := lo + r.Intn(span)
			m[pos], m[q] = m[q], m[pos]
		case 8:
			m = append(m, r.Bytes(1+r.Intn(8))...)
		}
		out = append(out, m)
	}
	return out
}

type outcome struct {
	kind string // ok | err | panic | timeout
	text string
	rest int
}

// guarded runs f under recover and a wall-clock limit
func guarded(f func() (string, int, error)) outcome {
	ch := make(chan outcome, 1)
	go func() {
		defer func() {
			if r := recover(); r != nil {
				ch <- outcome{kind: "panic", text: fmt.Sprint(r)}
			}
		}()
		t, rest, err := f()
		if err != nil {
			ch <- outcome{kind: "err", text: err.Error()}
		} else {
			ch <- outcome{kind: "ok", text: t, rest: rest}
		}
	}()
	select {
	case o := <-ch:
		return o
	case <-time.After(10 * time.Second):
		return outcome{kind: "timeout"}
	}
}

type noSeek struct{ r io.Reader }

func (n noSeek) Read(p []byte) (int, error) { return n.r.Read(p) }

func runC05(res *lp.Result) {
	res.Rule = "generated version-valid frames (all kinds × versions × compression) pushed through each partial path: DecodeRawFrame+" +
		"ConvertFromRawFrame, ConvertToRawFrame+EncodeRawFrame, DecodeHeader+DecodeBody, DecodeHeader+DecodeRawBody, DecodeHeader+" +
		"DiscardBody on seekable and non-seekable sources, EncodeHeader+EncodeBody — each compared with DecodeFrame/EncodeFrame on the " +
		"implementation and with the model; plus byte-level mutations of valid encodings: every mutated input that still decodes is " +
		"re-encoded and decoded again (re-encode clause). Non-trivial = frame with a non-empty body; distinct by encoded bytes."
	rng := lp.NewRng(*seed)
	per := 3
	nmut := 12
	if thorough() {
		per = 40
		nmut = 40
	}
	var lines, expect, descr []string
	ask := func(l, want, d string) { lines = append(lines, l); expect = append(expect, want); descr = append(descr, d) }
	viol := func(what, input, impl, model string) {
		res.Add(lp.Finding{Kind: "violation", What: what, Input: input, Impl: impl, Model: model})
	}
	for _, v := range gen.Versions {
		for _, kind := range gen.Kinds {
			for _, cs := range compSettings() {
				if cs.name == "snappy" && v == primitive.ProtocolVersion5 {
					continue
				}
				for i := 0; i < per; i++ {
					g := &gen.G{R: rng, V: v}
					f := g.Frame(kind)
					if f == nil {
						continue
					}
					if cs.comp != nil {
						f.SetCompress(rng.Bool())
						if (kind == "Options" || kind == "Ready") && i%2 == 0 {
							// the flag set directly (SetCompress leaves these opcodes alone): the empty body travels compressed
							f.Header.Flags = f.Header.Flags.Add(primitive.HeaderFlagCompressed)
						}
					}
					id := fmt.Sprintf("v=%d kind=%s comp=%s seed=%d i=%d", v, kind, cs.name, *seed, i)
					orig := f.DeepCopy()
					var buf bytes.Buffer
					if err := cs.codec.EncodeFrame(f, &buf); err != nil {
						continue // reported by C01
					}
					enc := append([]byte{}, buf.Bytes()...)
					trailer := rng.Bytes(rng.Intn(5))
					all := append(append([]byte{}, enc...), trailer...)
					hl := headerLen(v)
					res.Case(hx(enc), len(enc) > hl)
					res.Count("kind/" + kind)
					res.Count("compression/" + cs.name)
					full, err := cs.codec.DecodeFrame(bytes.NewReader(all))
					if err != nil {
						// EncodeFrame and EncodeHeader+EncodeBody / ConvertToRawFrame+EncodeRawFrame must agree; when the full encoder's own
						// bytes are rejected while the raw path's bytes decode, the two encoders differ
						if rf, e2 := cs.codec.ConvertToRawFrame(orig.DeepCopy()); e2 == nil {
							var rb bytes.Buffer
							if e3 := cs.codec.EncodeRawFrame(rf, &rb); e3 == nil {
								if _, e4 := cs.codec.DecodeFrame(bytes.NewReader(rb.Bytes())); e4 == nil && !bytes.Equal(rb.Bytes(), enc) {
									viol("EncodeFrame and ConvertToRawFrame+EncodeRawFrame emit different bytes for the same frame, and only the latter decode: "+firstWords(err.Error()),
										id+" bytes="+hx(enc), hx(enc), hx(rb.Bytes()))
								}
							}
						}
						continue
					}
					want := show.Frame(full)
					// 1. raw + convert
					rd := bytes.NewReader(all)
					raw, err := cs.codec.DecodeRawFrame(rd)
					if err != nil {
						viol("DecodeRawFrame fails on an encoded frame: "+err.Error(), id+" bytes="+hx(enc), "", "")
					} else {
						if rd.Len() != len(trailer) || len(raw.Body) != len(enc)-hl {
							viol(fmt.Sprintf("DecodeRawFrame consumed %d bytes / body %d bytes of a frame with %d body bytes", len(all)-rd.Len(), len(raw.Body), len(enc)-hl), id+" bytes="+hx(enc), "", "")
						}
						if conv, err := cs.codec.ConvertFromRawFrame(raw); err != nil {
							viol("ConvertFromRawFrame fails: "+err.Error(), id+" bytes="+hx(enc), "", "")
						} else if got := show.Frame(conv); got != want {
							viol("DecodeRawFrame+ConvertFromRawFrame differs from DecodeFrame", id+" bytes="+hx(enc), got, want)
						}
						ask("frame raw "+hx(all), fmt.Sprintf("ok %d %s %s", len(enc), show.Header(raw.Header), hx(raw.Body)), id)
					}
					// 2. convert to raw + encode raw
					if rf, err := cs.codec.ConvertToRawFrame(orig.DeepCopy()); err != nil {
						viol("ConvertToRawFrame fails on a valid frame: "+err.Error(), id, "", "")
					} else {
						if int(rf.Header.BodyLength) != len(rf.Body) {
							viol(fmt.Sprintf("ConvertToRawFrame: the header declares %d body bytes, the raw body has %d", rf.Header.BodyLength, len(rf.Body)), id, "", "")
						}
						var rb bytes.Buffer
						if err := cs.codec.EncodeRawFrame(rf, &rb); err != nil {
							viol("EncodeRawFrame fails: "+err.Error(), id, "", "")
						} else if d2, err := cs.codec.DecodeFrame(bytes.NewReader(rb.Bytes())); err != nil {
							viol("ConvertToRawFrame+EncodeRawFrame bytes do not decode: "+err.Error(), id, "", "")
						} else if diff := sameButLength(d2, full); diff != "" {
							viol("ConvertToRawFrame+EncodeRawFrame decodes to a different frame", id, diff, want)
						}
					}
					// 3. header + body / raw body / discard
					for _, path := range []string{"body", "rawbody", "discard-seek", "discard-copy"} {
						var src io.Reader
						br := bytes.NewReader(all)
						src = br
						if path == "discard-copy" {
							src = noSeek{br}
						}
						h, err := cs.codec.DecodeHeader(src)
						if err != nil {
							viol("DecodeHeader fails on an encoded frame: "+err.Error(), id, "", "")
							break
						}
						switch path {
						case "body":
							b, err := cs.codec.DecodeBody(h, src)
							if err != nil {
								viol("DecodeHeader+DecodeBody fails: "+err.Error(), id, "", "")
							} else if got := show.Frame(&frame.Frame{Header: h, Body: b}); got != want {
								viol("DecodeHeader+DecodeBody differs from DecodeFrame", id, got, want)
							}
						case "rawbody":
							b, err := cs.codec.DecodeRawBody(h, src)
							if err != nil || len(b) != len(enc)-hl {
								viol(fmt.Sprintf("DecodeRawBody returned %d bytes (err %v) for a %d-byte body", len(b), err, len(enc)-hl), id, "", "")
							}
						default:
							if err := cs.codec.DiscardBody(h, src); err != nil {
								viol("DiscardBody ("+path+") fails: "+err.Error(), id, "", "")
							}
						}
						if br.Len() != len(trailer) {
							viol(fmt.Sprintf("DecodeHeader+%s left %d bytes unread, %d follow the frame", path, br.Len(), len(trailer)), id+" bytes="+hx(enc), "", "")
						}
					}
					ask("frame hdr "+hx(all), fmt.Sprintf("ok %d %s", hl, show.Header(full.Header)), id)
					// 3a. the header is what is on the wire, whoever decodes it and whatever is decoded after it: DecodeHeader and
					// DecodeFrame agree on it, decoding the body (or converting the raw frame) leaves it alone, and the operations that
					// do not look inside the body (DecodeHeader, DecodeRawFrame, DecodeRawBody, DiscardBody — what a pass-through proxy
					// uses) give the same results on a codec that has no compressor at all
					{
						br := bytes.NewReader(all)
						if h, err := cs.codec.DecodeHeader(br); err == nil {
							before := show.Header(h)
							if before != show.Header(full.Header) || int(h.BodyLength) != len(enc)-hl {
								viol("DecodeHeader and DecodeFrame disagree on the header of the same bytes", id+" bytes="+hx(enc), before, show.Header(full.Header))
							}
							if _, err := cs.codec.DecodeBody(h, br); err == nil && show.Header(h) != before {
								viol("DecodeBody changes the header it was given", id+" bytes="+hx(enc), show.Header(h), before)
							}
						}
						if raw != nil {
							before := show.Header(raw.Header)
							if _, err := cs.codec.ConvertFromRawFrame(raw); err == nil && (show.Header(raw.Header) != before || int(raw.Header.BodyLength) != len(raw.Body)) {
								viol("ConvertFromRawFrame changes the raw frame it was given", id+" bytes="+hx(enc), show.Header(raw.Header), before)
							}
						}
						plainCodec := frame.NewRawCodec()
						for _, path := range []string{"header", "raw", "rawbody", "discard-seek", "discard-copy"} {
							br := bytes.NewReader(all)
							var src io.Reader = br
							if path == "discard-copy" {
								src = noSeek{br}
							}
							what := ""
							if path == "raw" {
								if r2, err := plainCodec.DecodeRawFrame(src); err != nil {
									what = "DecodeRawFrame fails: " + firstWords(err.Error())
								} else if raw != nil && (!bytes.Equal(r2.Body, raw.Body) || show.Header(r2.Header) != show.Header(full.Header)) {
									what = "DecodeRawFrame gives a different raw frame"
								}
							} else if h, err := plainCodec.DecodeHeader(src); err != nil {
								what = "DecodeHeader fails: " + firstWords(err.Error())
							} else if show.Header(h) != show.Header(full.Header) {
								what = "DecodeHeader gives a different header"
							} else {
								switch path {
								case "header":
									br.Seek(int64(len(enc)), io.SeekStart)
								case "rawbody":
									if b, err := plainCodec.DecodeRawBody(h, src); err != nil {
										what = "DecodeRawBody fails: " + firstWords(err.Error())
									} else if raw != nil && !bytes.Equal(b, raw.Body) {
										what = "DecodeRawBody gives a different body"
									}
								default:
									if err := plainCodec.DiscardBody(h, src); err != nil {
										what = "DiscardBody fails: " + firstWords(err.Error())
									}
								}
							}
							if what == "" && br.Len() != len(trailer) {
								what = fmt.Sprintf("%d bytes left unread, %d follow the frame", br.Len(), len(trailer))
							}
							if what != "" {
								viol("partial operation ("+path+") by a codec without compressor on a frame of a "+cs.name+" connection: "+what, id+" bytes="+hx(enc), "", "")
							}
						}
					}
					// 3b. the same paths over other kinds of io.Reader (a *bytes.Buffer, a non-seekable source that delivers a few
					// bytes per Read) holding TWO copies of the frame: each path must consume exactly the first frame and give the
					// same result as over a *bytes.Reader
					two := append(append(append([]byte{}, enc...), enc...), trailer...)
					for _, rk := range []string{"bytes.Buffer", "chunked"} {
						for _, path := range []string{"frame", "raw", "body", "rawbody", "discard"} {
							var src io.Reader
							var remaining func() int
							if rk == "bytes.Buffer" {
								bb := bytes.NewBuffer(append([]byte{}, two...))
								src, remaining = bb, bb.Len
							} else {
								br := bytes.NewReader(two)
								src, remaining = &chunkedReader{r: br, n: 1 + rng.Intn(16)}, br.Len
							}
							what := ""
							switch path {
							case "frame":
								if d, err := cs.codec.DecodeFrame(src); err != nil {
									what = "DecodeFrame fails: " + firstWords(err.Error())
								} else if got := show.Frame(d); got != want {
									what = "DecodeFrame gives a different frame"
								}
							case "raw":
								if r2, err := cs.codec.DecodeRawFrame(src); err != nil {
									what = "DecodeRawFrame fails: " + firstWords(err.Error())
								} else if raw != nil && !bytes.Equal(r2.Body, raw.Body) {
									what = "DecodeRawFrame gives a different body"
								}
							default:
								h, err := cs.codec.DecodeHeader(src)
								if err != nil {
									what = "DecodeHeader fails: " + firstWords(err.Error())
									break
								}
								switch path {
								case "body":
									if b, err := cs.codec.DecodeBody(h, src); err != nil {
										what = "DecodeBody fails: " + firstWords(err.Error())
									} else if got := show.Frame(&frame.Frame{Header: h, Body: b}); got != want {
										what = "DecodeHeader+DecodeBody gives a different frame"
									}
								case "rawbody":
									if b, err := cs.codec.DecodeRawBody(h, src); err != nil {
										what = "DecodeRawBody fails: " + firstWords(err.Error())
									} else if raw != nil && !bytes.Equal(b, raw.Body) {
										what = "DecodeRawBody gives a different body"
									}
								case "discard":
									if err := cs.codec.DiscardBody(h, src); err != nil {
										what = "DiscardBody fails: " + firstWords(err.Error())
									}
								}
							}
							if what == "" && remaining() != len(enc)+len(trailer) {
								what = fmt.Sprintf("consumed %d bytes of a %d-byte frame", len(two)-remaining(), len(enc))
							}
							if what != "" {
								viol("partial operation over a "+rk+" source ("+path+"): "+what, id+" bytes="+hx(enc), "", "")
							}
						}
					}
					// 4. header + body encoders: EncodeBody, then EncodeHeader with the body length set, is a frame
					{
						o2 := orig.DeepCopy()
						var bb bytes.Buffer
						e2 := cs.codec.EncodeBody(o2.Header, o2.Body, &bb)
						o2.Header.BodyLength = int32(bb.Len())
						var hb bytes.Buffer
						e1 := cs.codec.EncodeHeader(o2.Header, &hb)
						hb.Write(bb.Bytes())
						if e1 != nil || e2 != nil {
							viol(fmt.Sprintf("EncodeHeader+EncodeBody fail: %v %v", e1, e2), id, "", "")
						} else if d3, err := cs.codec.DecodeFrame(bytes.NewReader(hb.Bytes())); err != nil || sameButLength(d3, full) != "" {
							viol("EncodeHeader+EncodeBody bytes do not decode to the frame", id, fmt.Sprint(err), want)
						}
					}
					// 5. re-encode clause on mutated inputs
					if cs.comp != nil {
						continue
					}
					for _, m := range mutations(rng, enc, hl, nmut) {
						currentInput.Store("frame dec none " + hx(m))
						o := guarded(func() (string, int, error) {
							r := bytes.NewReader(m)
							d, err := cs.codec.DecodeFrame(r)
							if err != nil {
								return "", 0, err
							}
							return show.Frame(d), r.Len(), nil
						})
						res.Count("mutated/" + o.kind)
						switch o.kind {
						case "ok":
							d, _ := cs.codec.DecodeFrame(bytes.NewReader(m))
							var rb bytes.Buffer
							if err := cs.codec.EncodeFrame(d.DeepCopy(), &rb); err != nil {
								viol("decoded frame cannot be re-encoded: "+classifyEncodeError(err.Error()), "bytes="+hx(m), err.Error(), o.text)
							} else if d2, err := cs.codec.DecodeFrame(bytes.NewReader(rb.Bytes())); err != nil {
								viol("re-encoded frame does not decode: "+classifyEncodeError(err.Error()), "bytes="+hx(m), err.Error(), o.text)
							} else if got, want := show.Frame(show.Normalize(d2)), show.Frame(show.Normalize(d)); got != want {
								viol("decode → encode → decode yields a different frame", "bytes="+hx(m), got, want)
							}
							ask("frame dec none "+hx(m), fmt.Sprintf("ok %d %s", len(m)-o.rest, o.text), "mutated")
						case "err":
							ask("frame dec none "+hx(m), "err", "mutated")
						case "panic":
							ask("frame dec none "+hx(m), "panic", "mutated: "+o.text)
						}
					}
				}
			}
		}
	}
	rawFrameHistories(res, rng)
	answers, err := lp.Ask(*driverPath, lines)
	if err != nil {
		res.Add(lp.Finding{Kind: "disagreement", What: "driver failure: " + err.Error()})
		return
	}
	nd := 0
	for i, a := range answers {
		exp := expect[i]
		if exp == "panic" && strings.HasPrefix(a, "panic") {
			continue
		}
		if a != exp && nd < 30 {
			nd++
			res.Add(lp.Finding{Kind: "disagreement", What: "model/implementation differ on " + strings.Join(strings.SplitN(lines[i], " ", 4)[:3], " ") + " (" + descr[i] + ")",
				Input: lines[i], Impl: exp, Model: a})
		}
	}
}

// sameButLength compares two decoded frames ignoring Header.BodyLength (a compressed body re-encoded with another map
// iteration order may have another size); returns "" when equal
func sameButLength(a, b *frame.Frame) string {
	x, y := a.DeepCopy(), b.DeepCopy()
	x.Header.BodyLength, y.Header.BodyLength = 0, 0
	if sa, sb := show.Frame(x), show.Frame(y); sa != sb {
		return sa
	}
	return ""
}

var encodeErrorClasses = []string{
	"invalid schema change type", "invalid topology change type", "invalid status change type", "invalid schema change target",
	"invalid serial consistency level", "invalid consistency level", "REGISTER messages must have at least one event type",
	"cannot write PREPARE empty query string", "AUTHENTICATE authenticator cannot be empty", "cannot write empty BATCH query id",
	"cannot write empty RESULT Prepared query id", "cannot write empty RESULT Prepared result metadata id",
	"cannot write empty keyspace", "cannot write empty object", "cannot write empty table", "EXECUTE missing",
	"invalid event type", "invalid write type", "invalid failure code", "invalid BATCH type", "unknown ERROR code",
	"stream id out of range", "metadata.ColumnCount", "invalid RESULT Rows", "cannot use unset value",
	"custom payloads are not supported", "warnings are not supported", "invalid DSE revision type", "invalid data type code",
	"table must be empty for keyspace targets", "cannot write nil",
}

// classifyEncodeError maps an error text (which embeds values) to a stable class, so that known findings can be matched
func classifyEncodeError(s string) string {
	for _, c := range encodeErrorClasses {
		if strings.Contains(s, c) {
			return c
		}
	}
	return firstWords(s)
}

func firstWords(s string) string {
	// error texts embed values; keep the stable prefix so that known findings can be matched
	if i := strings.LastIndex(s, ": "); i >= 0 && i+2 < len(s) {
		s = s[i+2:]
	}
	w := strings.Fields(s)
	if len(w) > 6 {
		w = w[:6]
	}
	return strings.Join(w, " ")
}

// chunkedReader delivers at most n bytes per Read and is neither seekable nor a *bytes.Buffer
type chunkedReader struct {
	r io.Reader
	n int
}

func (c *chunkedReader) Read(p []byte) (int, error) {
	if len(p) > c.n {
		p = p[:c.n]
	}
	return c.r.Read(p)
}

// rawFrameHistories: raw frames that are ALIVE TOGETHER and raw frames whose header has been around. (a) Several frames are
// converted to raw frames first and encoded afterwards — each raw frame must still be its own frame; (b) a raw frame is encoded
// with whatever Header.BodyLength the shared header holds (another codec wrote it, the caller edited the twin frame): the
// bytes must declare the length of the body that follows and decode to the frame; (c) a decoded raw frame is forwarded after its
// converted twin was changed and encoded: the forwarded bytes are the bytes read.
func rawFrameHistories(res *lp.Result, rng *lp.Rng) {
	for _, v := range gen.Versions {
		for _, cs := range compSettings() {
			if cs.name == "snappy" && v == primitive.ProtocolVersion5 {
				continue
			}
			id := fmt.Sprintf("raw-frame histories v=%d comp=%s seed=%d", v, cs.name, *seed)
			res.Case(id, true)
			res.Count("raw-frame-histories")
			var frames []*frame.Frame
			var wantBytes [][]byte
			for _, kind := range []string{"Query", "Prepare", "Supported", "RowsResult"} {
				g := &gen.G{R: rng, V: v}
				f := g.Frame(kind)
				if f == nil {
					continue
				}
				var b bytes.Buffer
				if cs.codec.EncodeFrame(f.DeepCopy(), &b) != nil {
					continue
				}
				frames = append(frames, f)
				wantBytes = append(wantBytes, append([]byte{}, b.Bytes()...))
			}
			// (a) convert all, then encode all
			var raws []*frame.RawFrame
			for _, f := range frames {
				r, err := cs.codec.ConvertToRawFrame(f.DeepCopy())
				if err != nil {
					res.Add(lp.Finding{Kind: "violation", What: "ConvertToRawFrame fails: " + firstWords(err.Error()), Input: id})
					return
				}
				raws = append(raws, r)
			}
			for i, r := range raws {
				var b bytes.Buffer
				if err := cs.codec.EncodeRawFrame(r, &b); err != nil {
					res.Add(lp.Finding{Kind: "violation", What: "EncodeRawFrame fails: " + firstWords(err.Error()), Input: id})
					continue
				}
				d, err := cs.codec.DecodeFrame(bytes.NewReader(b.Bytes()))
				if err != nil || sameButLength(d, mustDecode(cs, wantBytes[i])) != "" {
					res.Add(lp.Finding{Kind: "violation", What: fmt.Sprintf("raw frame %d of %d converted before any was encoded no longer encodes to its own frame", i+1, len(raws)),
						Input: id + " bytes=" + hx(b.Bytes()), Impl: fmt.Sprint(err)})
				}
			}
			// (b) a header that has been around
			for i, f := range frames {
				r, err := cs.codec.ConvertToRawFrame(f.DeepCopy())
				if err != nil {
					continue
				}
				r.Header.BodyLength = []int32{0, 1, int32(len(r.Body)) + 2, int32(len(r.Body)) - 2, 1 << 20}[rng.Intn(5)]
				var b bytes.Buffer
				if err := cs.codec.EncodeRawFrame(r, &b); err != nil {
					continue
				}
				hl := headerLen(v)
				enc := b.Bytes()
				if len(enc) >= hl {
					if declared := int(int32(binary.BigEndian.Uint32(enc[hl-4 : hl]))); declared != len(enc)-hl {
						res.Add(lp.Finding{Kind: "violation", What: fmt.Sprintf("EncodeRawFrame writes a header declaring %d body bytes in front of a body of %d (the header's BodyLength field held another value)", declared, len(enc)-hl),
							Input: id + fmt.Sprintf(" frame %d bytes=%s", i, hx(enc))})
					}
				}
			}
			// (c) read, change and send the twin, forward the original
			for i := range frames {
				r, err := cs.codec.DecodeRawFrame(bytes.NewReader(wantBytes[i]))
				if err != nil {
					continue
				}
				if twin, err := cs.codec.ConvertFromRawFrame(r); err == nil {
					// (the twin shares its header with the raw frame: only its message is changed)
					if q, ok := twin.Body.Message.(*message.Query); ok {
						q.Query += " AND this_makes_the_body_longer = 1"
					}
					var sink bytes.Buffer
					cs.codec.EncodeFrame(twin, &sink)
				}
				var b bytes.Buffer
				if err := cs.codec.EncodeRawFrame(r, &b); err != nil || !bytes.Equal(b.Bytes(), wantBytes[i]) {
					res.Add(lp.Finding{Kind: "violation", What: "a raw frame forwarded after its converted twin was changed and encoded is not the bytes that were read",
						Input: id + fmt.Sprintf(" frame %d bytes=%s", i, hx(wantBytes[i])), Impl: hx(b.Bytes())})
				}
			}
		}
	}
}

func mustDecode(cs compSetting, b []byte) *frame.Frame {
	d, err := cs.codec.DecodeFrame(bytes.NewReader(b))
	if err != nil {
		return &frame.Frame{Header: &frame.Header{}, Body: &frame.Body{}}
	}
	return d
}
