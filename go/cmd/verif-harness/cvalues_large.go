package main

import (
	"encoding/binary"
	"fmt"
	"math"
	"math/big"
	"reflect"
	"sort"
	"time"

	"github.com/datastax/go-cassandra-native-protocol/datacodec"
	"github.com/datastax/go-cassandra-native-protocol/datatype"
	"github.com/datastax/go-cassandra-native-protocol/primitive"

	"verif/internal/lp"
)

// Large collections (beyond the sizes the random generator draws): element counts around 1024 (the decoder's plausibility
// bound), 32767/32768 (sign of a 2-byte count) and 65535 (the v2 maximum), with 1- and 2-byte elements, in the v2 and v3+
// formats. Each value is encoded and decoded by the real codec, the bytes are compared with bytes built here from the
// specification (count, then length-prefixed elements), and the specification's bytes are decoded.
func largeCollections(res *lp.Result, prop string) {
	specBytes := func(ver primitive.ProtocolVersion, elems [][]byte) []byte {
		var b []byte
		put := func(n int) {
			if ver.Uses4BytesCollectionLength() {
				b = binary.BigEndian.AppendUint32(b, uint32(n))
			} else {
				b = binary.BigEndian.AppendUint16(b, uint16(n))
			}
		}
		put(len(elems))
		for _, e := range elems {
			put(len(e))
			b = append(b, e...)
		}
		return b
	}
	listTiny, _ := datacodec.NewList(datatype.NewList(datatype.Tinyint))
	setBool, _ := datacodec.NewSet(datatype.NewSet(datatype.Boolean))
	mapSmallBool, _ := datacodec.NewMap(datatype.NewMap(datatype.Smallint, datatype.Boolean))
	sizes := []int{1024, 1025, 1100, 3000, 32767, 32768, 40000, 65535}
	if !thorough() {
		sizes = []int{1025, 3000, 32768, 65535}
	}
	for _, ver := range []primitive.ProtocolVersion{primitive.ProtocolVersion2, primitive.ProtocolVersion4} {
		for _, n := range sizes {
			// list<tinyint>
			vals := make([]int8, n)
			elems := make([][]byte, n)
			for i := range vals {
				vals[i] = int8(i*7 + 3)
				elems[i] = []byte{byte(vals[i])}
			}
			bools := make([]bool, n)
			belems := make([][]byte, n)
			for i := range bools {
				bools[i] = i%3 == 0
				belems[i] = []byte{0}
				if bools[i] {
					belems[i] = []byte{1}
				}
			}
			type tc struct {
				name  string
				codec datacodec.Codec
				value interface{}
				spec  []byte
			}
			cases := []tc{
				{"list<tinyint>", listTiny, vals, specBytes(ver, elems)},
				{"set<boolean>", setBool, bools, specBytes(ver, belems)},
			}
			if n <= 40000 {
				m := map[int16]bool{}
				for i := 0; i < n; i++ {
					m[int16(i-20000)] = i%2 == 0
				}
				cases = append(cases, tc{"map<smallint,boolean>", mapSmallBool, m, nil})
			}
			for _, c := range cases {
				id := fmt.Sprintf("%s %s with %d elements, version %v", prop, c.name, n, ver)
				res.Case(id, true)
				res.Count("large-collections")
				enc, err := c.codec.Encode(c.value, ver)
				if err != nil {
					res.Add(lp.Finding{Kind: "violation", What: "valid value refused by the encoder: large " + c.name, Input: id, Impl: firstWords(err.Error())})
					continue
				}
				if c.spec != nil && prop == "C12" && string(enc) != string(c.spec) {
					res.Add(lp.Finding{Kind: "violation", What: "encoded bytes differ from the specification's format: large " + c.name, Input: id,
						Impl: fmt.Sprintf("%d bytes, specification %d bytes", len(enc), len(c.spec))})
				}
				dest := reflect.New(reflect.TypeOf(c.value))
				src := enc
				if c.spec != nil && prop == "C12" {
					src = c.spec
				}
				if _, err := c.codec.Decode(src, dest.Interface(), ver); err != nil {
					what := "value does not round-trip: large " + c.name
					if prop == "C12" {
						what = "bytes in the specification's format refused by the decoder: large " + c.name
					}
					res.Add(lp.Finding{Kind: "violation", What: what, Input: id, Impl: firstWords(err.Error())})
					continue
				}
				if !reflect.DeepEqual(dest.Elem().Interface(), c.value) {
					res.Add(lp.Finding{Kind: "violation", What: "value does not round-trip: large " + c.name + " (different value)", Input: id})
				}
			}
		}
	}
	// element lengths at and around the boundaries of the length fields: a v2 collection element is a [short bytes] (unsigned 16
	// bits: 32767, 32768 … 65535 are all legal), a v3+ element a [bytes] (signed 32 bits); list elements, map keys and map values
	{
		lb, _ := datacodec.NewList(datatype.NewList(datatype.Blob))
		mv, _ := datacodec.NewMap(datatype.NewMap(datatype.Int, datatype.Varchar))
		mk, _ := datacodec.NewMap(datatype.NewMap(datatype.Blob, datatype.Int))
		_ = mk
		for _, ver := range []primitive.ProtocolVersion{primitive.ProtocolVersion2, primitive.ProtocolVersion4} {
			for _, n := range []int{127, 128, 255, 256, 32767, 32768, 40000, 65534, 65535} {
				el := make([]byte, n)
				for i := range el {
					el[i] = byte('a' + i%26)
				}
				for _, c := range []struct {
					name  string
					codec datacodec.Codec
					value interface{}
				}{
					{"list<blob>", lb, [][]byte{{1}, el, {2}}},
					{"map<int,varchar>", mv, map[int32]string{7: string(el)}},
				} {
					id := fmt.Sprintf("%s %s with one element of %d bytes, version %v", prop, c.name, n, ver)
					res.Case(id, true)
					res.Count("element-length-boundaries")
					enc, err := c.codec.Encode(c.value, ver)
					if err != nil {
						res.Add(lp.Finding{Kind: "violation", What: "valid value refused by the encoder: " + c.name + " with an element at a length boundary", Input: id, Impl: firstWords(err.Error())})
						continue
					}
					dest := reflect.New(reflect.TypeOf(c.value))
					if _, err := c.codec.Decode(enc, dest.Interface(), ver); err != nil {
						res.Add(lp.Finding{Kind: "violation", What: "value does not round-trip: " + c.name + " with an element at a length boundary", Input: id, Impl: firstWords(err.Error())})
					} else if !reflect.DeepEqual(dest.Elem().Interface(), c.value) {
						res.Add(lp.Finding{Kind: "violation", What: "value does not round-trip: " + c.name + " with an element at a length boundary (different value)", Input: id})
					}
				}
			}
		}
	}
	// one element longer than 1 MiB (contents of that size are read piecewise): list<blob>, tuple<int,blob>, a UDT field
	listBlob, _ := datacodec.NewList(datatype.NewList(datatype.Blob))
	tupleIB, _ := datacodec.NewTuple(datatype.NewTuple(datatype.Int, datatype.Blob))
	udtT, _ := datatype.NewUserDefined("ks", "t", []string{"a", "b"}, []datatype.DataType{datatype.Int, datatype.Blob})
	udtC, _ := datacodec.NewUserDefined(udtT)
	for _, ver := range []primitive.ProtocolVersion{primitive.ProtocolVersion3, primitive.ProtocolVersion5} {
		for _, n := range []int{1 << 20, 1<<20 + 1, 1<<21 + 5} {
			big := make([]byte, n)
			for i := range big {
				big[i] = byte(i*13 + 1)
			}
			be32 := func(k int) []byte { return binary.BigEndian.AppendUint32(nil, uint32(k)) }
			listSpec := append(append(append(append(be32(2), be32(1)...), 0x42), be32(n)...), big...)
			tupSpec := append(append(append(be32(4), 0, 0, 0, 7), be32(n)...), big...)
			type tc struct {
				name  string
				codec datacodec.Codec
				value interface{}
				spec  []byte
			}
			for _, c := range []tc{
				{"list<blob>", listBlob, [][]byte{{0x42}, big}, listSpec},
				{"tuple<int,blob>", tupleIB, []interface{}{int32(7), big}, tupSpec},
				{"udt<a int, b blob>", udtC, map[string]interface{}{"a": int32(7), "b": big}, tupSpec},
			} {
				id := fmt.Sprintf("%s %s with an element of %d bytes, version %v", prop, c.name, n, ver)
				res.Case(id, true)
				res.Count("large-elements")
				enc, err := c.codec.Encode(c.value, ver)
				if err != nil {
					res.Add(lp.Finding{Kind: "violation", What: "valid value refused by the encoder: large element in " + c.name, Input: id, Impl: firstWords(err.Error())})
					continue
				}
				if prop == "C12" && string(enc) != string(c.spec) {
					res.Add(lp.Finding{Kind: "violation", What: "encoded bytes differ from the specification's format: large element in " + c.name, Input: id,
						Impl: fmt.Sprintf("%d bytes, specification %d bytes", len(enc), len(c.spec))})
				}
				src := enc
				if prop == "C12" {
					src = c.spec
				}
				var dest interface{}
				if _, err := c.codec.Decode(src, &dest, ver); err != nil {
					res.Add(lp.Finding{Kind: "violation", What: "bytes in the specification's format refused by the decoder: large element in " + c.name, Input: id, Impl: firstWords(err.Error())})
					continue
				}
				// the big element must come back byte for byte (found by walking the decoded value for []byte leaves)
				found, sizes := false, []int{}
				var walk func(v reflect.Value)
				walk = func(v reflect.Value) {
					for v.IsValid() && (v.Kind() == reflect.Interface || v.Kind() == reflect.Ptr) && !v.IsNil() {
						v = v.Elem()
					}
					if !v.IsValid() {
						return
					}
					switch v.Kind() {
					case reflect.Slice:
						if b, ok := v.Interface().([]byte); ok {
							sizes = append(sizes, len(b))
							if string(b) == string(big) {
								found = true
							}
							return
						}
						for i := 0; i < v.Len(); i++ {
							walk(v.Index(i))
						}
					case reflect.Map:
						for _, k := range v.MapKeys() {
							walk(v.MapIndex(k))
						}
					}
				}
				walk(reflect.ValueOf(dest))
				if !found {
					res.Add(lp.Finding{Kind: "violation", What: "an element longer than 1 MiB is decoded to other bytes: " + c.name, Input: id,
						Impl: fmt.Sprintf("byte strings decoded: sizes %v, expected one of %d bytes", sizes, n)})
				}
			}
		}
	}
}

// usedDestinationsAndExtremes (C11, C12, C14): cases of the value codecs that need a particular circumstance rather than a particular
// type — written directly against the specification's bytes.
//  (a) a destination that is IN USE (a slice/array/map/struct filled by the previous row): after decoding, it must hold what the
//      bytes denote — in particular a NULL element puts nil/zero into its slot;
//  (b) more than 1024 elements that are all NULL (4 bytes each in v3+);
//  (c) every unsigned Go integer type at 2^(w-1) and 2^w − 1 as a varint source, against the specification's two's-complement bytes.
func usedDestinationsAndExtremes(res *lp.Result, prop string) {
	be32 := func(k int) []byte { return binary.BigEndian.AppendUint32(nil, uint32(k)) }
	null := be32(-1)
	i32 := func(v int32) []byte { return append(be32(4), be32(int(v))...) }
	str := func(t string) []byte { return append(be32(len(t)), t...) }
	cat := func(bs ...[]byte) []byte {
		var o []byte
		for _, b := range bs {
			o = append(o, b...)
		}
		return o
	}
	p32 := func(v int32) *int32 { return &v }
	listInt, _ := datacodec.NewList(datatype.NewList(datatype.Int))
	setStr, _ := datacodec.NewSet(datatype.NewSet(datatype.Varchar))
	tup, _ := datacodec.NewTuple(datatype.NewTuple(datatype.Int, datatype.Varchar, datatype.Int))
	udtT, _ := datatype.NewUserDefined("ks", "t", []string{"a", "b", "c"}, []datatype.DataType{datatype.Int, datatype.Varchar, datatype.Int})
	udtC, _ := datacodec.NewUserDefined(udtT)
	type S struct {
		A *int32  `cassandra:"a"`
		B *string `cassandra:"b"`
		C *int32  `cassandra:"c"`
	}
	x, y := "x", "y"
	listBytes := cat(be32(3), i32(7), null, i32(9))
	setBytes := cat(be32(3), str("a"), null, str("c"))
	tupBytes := cat(i32(7), null, i32(9))
	mapSI, _ := datacodec.NewMap(datatype.NewMap(datatype.Varchar, datatype.Int))
	mapBytes := cat(be32(3), str("a"), i32(7), str("b"), null, str("c"), i32(9))
	type tc struct {
		name  string
		codec datacodec.Codec
		bytes []byte
		dest  interface{} // pointer to a destination in use
		want  string      // fmt %v of the dereferenced leaves after decoding
	}
	show := func(v interface{}) string {
		var w func(rv reflect.Value) string
		w = func(rv reflect.Value) string {
			for rv.IsValid() && (rv.Kind() == reflect.Ptr || rv.Kind() == reflect.Interface) {
				if rv.IsNil() {
					return "nil"
				}
				rv = rv.Elem()
			}
			if !rv.IsValid() {
				return "nil"
			}
			switch rv.Kind() {
			case reflect.Slice, reflect.Array:
				o := "["
				for i := 0; i < rv.Len(); i++ {
					o += w(rv.Index(i)) + " "
				}
				return o + "]"
			case reflect.Struct:
				o := "{"
				for i := 0; i < rv.NumField(); i++ {
					o += w(rv.Field(i)) + " "
				}
				return o + "}"
			case reflect.Map:
				var ks []string
				for _, k := range rv.MapKeys() {
					ks = append(ks, fmt.Sprint(k.Interface())+":"+w(rv.MapIndex(k)))
				}
				sort.Strings(ks)
				return fmt.Sprint(ks)
			}
			return fmt.Sprint(rv.Interface())
		}
		return w(reflect.ValueOf(v))
	}
	cases := []tc{
		{"list<int> [7,NULL,9] into a []*int32 holding [1,2,3]", listInt, listBytes, &[]*int32{p32(1), p32(2), p32(3)}, "[7 nil 9 ]"},
		{"list<int> [7,NULL,9] into a []int32 holding [1,2,3]", listInt, listBytes, &[]int32{1, 2, 3}, "[7 0 9 ]"},
		{"list<int> [7,NULL,9] into a [3]int32 holding [1,2,3]", listInt, listBytes, &[3]int32{1, 2, 3}, "[7 0 9 ]"},
		{"list<int> [7,NULL,9] into a []interface{} holding [1,2,3]", listInt, listBytes, &[]interface{}{1, 2, 3}, "[7 nil 9 ]"},
		{"set<varchar> [a,NULL,c] into a []*string holding [x,y,x]", setStr, setBytes, &[]*string{&x, &y, &x}, "[a nil c ]"},
		{"set<varchar> [a,NULL,c] into a [3]string holding [x,y,x]", setStr, setBytes, &[3]string{"x", "y", "x"}, "[a  c ]"},
		{"tuple (7,NULL,9) into a []interface{} holding (1,y,3)", tup, tupBytes, &[]interface{}{int32(1), "y", int32(3)}, "[7 nil 9 ]"},
		{"tuple (7,NULL,9) into a [3]interface{} holding (1,y,3)", tup, tupBytes, &[3]interface{}{int32(1), "y", int32(3)}, "[7 nil 9 ]"},
		{"udt <7,NULL,9> into a struct holding <1,y,3>", udtC, tupBytes, &S{p32(1), &y, p32(3)}, "{7 nil 9 }"},
		{"udt <7,NULL,9> into a map[string]interface{} holding <1,y,3>", udtC, tupBytes, &map[string]interface{}{"a": int32(1), "b": "y", "c": int32(3)}, "[a:7 b:nil c:9]"},
		// a map with a NULL value into every kind of destination the map codec takes: a map with pointer values, a map with plain
		// values, a struct whose fields are named after the keys
		{"map<varchar,int> {a:7,b:NULL,c:9} into a map[string]*int32 holding {a:1}", mapSI, mapBytes, &map[string]*int32{"a": p32(1)}, "[a:7 b:nil c:9]"},
		{"map<varchar,int> {a:7,b:NULL,c:9} into a map[string]int32 holding {a:1}", mapSI, mapBytes, &map[string]int32{"a": 1}, "[a:7 b:0 c:9]"},
		{"map<varchar,int> {a:7,b:NULL,c:9} into a struct holding <1,2,3> (pointer fields)", mapSI, mapBytes, &struct {
			A *int32 `cassandra:"a"`
			B *int32 `cassandra:"b"`
			C *int32 `cassandra:"c"`
		}{p32(1), p32(2), p32(3)}, "{7 nil 9 }"},
		{"map<varchar,int> {a:7,b:NULL,c:9} into a struct holding <1,2,3> (plain fields)", mapSI, mapBytes, &struct {
			A int32 `cassandra:"a"`
			B int32 `cassandra:"b"`
			C int32 `cassandra:"c"`
		}{1, 2, 3}, "{7 0 9 }"},
	}
	for _, c := range cases {
		for _, ver := range []primitive.ProtocolVersion{primitive.ProtocolVersion3, primitive.ProtocolVersion5} {
			id := fmt.Sprintf("%s %s, version %v, bytes %x", prop, c.name, ver, c.bytes)
			res.Case(id, true)
			res.Count("destination-in-use")
			// a copy of the destination in use, so that both versions start from the same content
			d := reflect.New(reflect.TypeOf(c.dest).Elem())
			d.Elem().Set(reflect.ValueOf(c.dest).Elem())
			if d.Elem().Kind() == reflect.Slice {
				cp := reflect.MakeSlice(d.Elem().Type(), d.Elem().Len(), d.Elem().Len())
				reflect.Copy(cp, d.Elem())
				d.Elem().Set(cp)
			}
			if d.Elem().Kind() == reflect.Map {
				cp := reflect.MakeMap(d.Elem().Type())
				for _, k := range d.Elem().MapKeys() {
					cp.SetMapIndex(k, d.Elem().MapIndex(k))
				}
				d.Elem().Set(cp)
			}
			var err error
			if p := guard(func() { _, err = c.codec.Decode(c.bytes, d.Interface(), ver) }); p != nil {
				res.Add(lp.Finding{Kind: "violation", What: "codec panics: Decode into a destination in use: " + p.words, Input: id})
				continue
			}
			if err != nil {
				res.Add(lp.Finding{Kind: "violation", What: "bytes in the specification's format refused when decoded into a destination in use", Input: id, Impl: firstWords(err.Error())})
				continue
			}
			if got := show(d.Interface()); got != c.want {
				res.Add(lp.Finding{Kind: "violation", What: "a destination in use does not hold the decoded value afterwards (a NULL element left the old content in its slot)", Input: id,
					Impl: "destination holds " + got, Model: "the bytes denote " + c.want})
			}
		}
	}
	// (b) more than 1024 NULL elements
	for _, n := range []int{1024, 1025, 5000} {
		for _, ver := range []primitive.ProtocolVersion{primitive.ProtocolVersion3, primitive.ProtocolVersion4} {
			id := fmt.Sprintf("%s list<int> of %d NULL elements, version %v", prop, n, ver)
			res.Case(id, true)
			res.Count("many-null-elements")
			src := make([]*int32, n)
			enc, err := listInt.Encode(src, ver)
			spec := be32(n)
			for i := 0; i < n; i++ {
				spec = append(spec, null...)
			}
			if err != nil {
				res.Add(lp.Finding{Kind: "violation", What: "a list of NULL elements is refused by the encoder", Input: id, Impl: firstWords(err.Error())})
				continue
			}
			if string(enc) != string(spec) && prop == "C12" {
				res.Add(lp.Finding{Kind: "violation", What: "encoded bytes differ from the specification's format: list of NULL elements", Input: id})
			}
			var back []*int32
			if _, err := listInt.Decode(spec, &back, ver); err != nil {
				res.Add(lp.Finding{Kind: "violation", What: "a list of more than 1024 NULL elements in the specification's format is refused by the decoder", Input: id, Impl: firstWords(err.Error())})
				continue
			}
			ok := len(back) == n
			for _, e := range back {
				ok = ok && e == nil
			}
			if !ok {
				res.Add(lp.Finding{Kind: "violation", What: "NULL elements of a large list do not survive the round trip", Input: id, Impl: fmt.Sprint(len(back), " elements")})
			}
		}
	}
	// (c) unsigned sources at the top of their range → varint
	specVar := func(v uint64) []byte { // minimal two's complement of a non-negative number
		b := new(big.Int).SetUint64(v).Bytes()
		if len(b) == 0 || b[0]&0x80 != 0 {
			b = append([]byte{0}, b...)
		}
		return b
	}
	for _, v := range []uint64{1<<63 - 1, 1 << 63, 1<<63 + 1, 1<<64 - 1, 1 << 31, 1<<32 - 1, 1 << 15, 1<<16 - 1, 128, 255} {
		srcs := []interface{}{v, &v}
		if v <= math.MaxUint32 {
			w := uint32(v)
			srcs = append(srcs, w, &w)
		}
		if uint64(uint(v)) == v {
			w := uint(v)
			srcs = append(srcs, w, &w)
		}
		if v <= math.MaxUint16 {
			w := uint16(v)
			srcs = append(srcs, w, &w)
		}
		if v <= math.MaxUint8 {
			w := uint8(v)
			srcs = append(srcs, w, &w)
		}
		for _, src := range srcs {
			id := fmt.Sprintf("%s varint from %T %d", prop, src, v)
			res.Case(id, true)
			res.Count("unsigned-extremes")
			enc, err := datacodec.Varint.Encode(src, primitive.ProtocolVersion4)
			if err != nil {
				res.Add(lp.Finding{Kind: "violation", What: "varint refuses an unsigned Go value", Input: id, Impl: firstWords(err.Error())})
				continue
			}
			if string(enc) != string(specVar(v)) {
				res.Add(lp.Finding{Kind: "violation", What: "encoded bytes differ from the specification's format: varint from an unsigned Go value at the top of its range", Input: id,
					Impl: fmt.Sprintf("%x", enc), Model: fmt.Sprintf("%x", specVar(v))})
				continue
			}
			back := new(big.Int)
			if _, err := datacodec.Varint.Decode(enc, back, primitive.ProtocolVersion4); err != nil || back.Cmp(new(big.Int).SetUint64(v)) != 0 {
				res.Add(lp.Finding{Kind: "violation", What: "value does not round-trip: varint from an unsigned Go value", Input: id, Impl: fmt.Sprint(back, err)})
			}
		}
	}
	// (d) a time.Time with a sub-millisecond part as a timestamp source: the milliseconds are the FLOOR of the instant (what the
	//     codec documents — Java's Instant.toEpochMilli — and what Cql/Props/C13Time.lean proves of the model), before and after the Epoch
	for _, c := range []struct {
		sec, nsec int64
		ms        int64
	}{{1700000000, 999600000, 1700000000999}, {1700000000, 999499999, 1700000000999}, {0, 999999, 0}, {-1, 999500000, -1}, {-1, 999999999, -1},
		{-1, 1, -1000}, {-2, 500000, -2000}, {5, 1500000, 5001}} {
		t := time.Unix(c.sec, c.nsec).UTC()
		id := fmt.Sprintf("%s timestamp from time.Time %s (unix %d s + %d ns)", prop, t.Format(time.RFC3339Nano), c.sec, c.nsec)
		res.Case(id, true)
		res.Count("timestamp-sub-millisecond")
		enc, err := datacodec.Timestamp.Encode(t, primitive.ProtocolVersion4)
		want := binary.BigEndian.AppendUint64(nil, uint64(c.ms))
		if err != nil {
			res.Add(lp.Finding{Kind: "violation", What: "timestamp refuses a time.Time with a sub-millisecond part", Input: id, Impl: firstWords(err.Error())})
		} else if string(enc) != string(want) {
			res.Add(lp.Finding{Kind: "violation", What: "encoded bytes differ from the specification's format: timestamp of a time.Time with a sub-millisecond part is not the floor of the instant in milliseconds",
				Input: id, Impl: fmt.Sprintf("%x", enc), Model: fmt.Sprintf("%x (= %d ms)", want, c.ms)})
		}
	}
}
