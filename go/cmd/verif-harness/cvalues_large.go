package main

import (
	"encoding/binary"
	"fmt"
	"reflect"

	"github.com/datastax/go-cassandra-native-protocol/datacodec"
	"github.com/datastax/go-cassandra-native-protocol/datatype"
	"github.com/datastax/go-cassandra-native-protocol/primitive"

	"verif/internal/lp"
)

// Large collections (beyond the sizes the random generator draws): element counts around 1024 (the decoder's plausibility
// bound), 32767/32768 (sign of a 2-byte count) and 65535 (the v2 maximum), with 1- and 2-byte elements, in the v2 and v3+
// formats. Each value is encoded and decoded by the real codec, the bytes are compared with bytes built here from the
// specification (count, then length-prefixed elements), and the specification's bytes are decoded.
func largeCollections(res *lp.Result, prop string) {
	specBytes := func(ver primitive.ProtocolVersion, elems [][]byte) []byte {
		var b []byte
		put := func(n int) {
			if ver.Uses4BytesCollectionLength() {
				b = binary.BigEndian.AppendUint32(b, uint32(n))
			} else {
				b = binary.BigEndian.AppendUint16(b, uint16(n))
			}
		}
		put(len(elems))
		for _, e := range elems {
			put(len(e))
			b = append(b, e...)
		}
		return b
	}
	listTiny, _ := datacodec.NewList(datatype.NewList(datatype.Tinyint))
	setBool, _ := datacodec.NewSet(datatype.NewSet(datatype.Boolean))
	mapSmallBool, _ := datacodec.NewMap(datatype.NewMap(datatype.Smallint, datatype.Boolean))
	sizes := []int{1024, 1025, 1100, 3000, 32767, 32768, 40000, 65535}
	if !thorough() {
		sizes = []int{1025, 3000, 32768, 65535}
	}
	for _, ver := range []primitive.ProtocolVersion{primitive.ProtocolVersion2, primitive.ProtocolVersion4} {
		for _, n := range sizes {
			// list<tinyint>
			vals := make([]int8, n)
			elems := make([][]byte, n)
			for i := range vals {
				vals[i] = int8(i*7 + 3)
				elems[i] = []byte{byte(vals[i])}
			}
			bools := make([]bool, n)
			belems := make([][]byte, n)
			for i := range bools {
				bools[i] = i%3 == 0
				belems[i] = []byte{0}
				if bools[i] {
					belems[i] = []byte{1}
				}
			}
			type tc struct {
				name  string
				codec datacodec.Codec
				value interface{}
				spec  []byte
			}
			cases := []tc{
				{"list<tinyint>", listTiny, vals, specBytes(ver, elems)},
				{"set<boolean>", setBool, bools, specBytes(ver, belems)},
			}
			if n <= 40000 {
				m := map[int16]bool{}
				for i := 0; i < n; i++ {
					m[int16(i-20000)] = i%2 == 0
				}
				cases = append(cases, tc{"map<smallint,boolean>", mapSmallBool, m, nil})
			}
			for _, c := range cases {
				id := fmt.Sprintf("%s %s with %d elements, version %v", prop, c.name, n, ver)
				res.Case(id, true)
				res.Count("large-collections")
				enc, err := c.codec.Encode(c.value, ver)
				if err != nil {
					res.Add(lp.Finding{Kind: "violation", What: "valid value refused by the encoder: large " + c.name, Input: id, Impl: firstWords(err.Error())})
					continue
				}
				if c.spec != nil && prop == "C12" && string(enc) != string(c.spec) {
					res.Add(lp.Finding{Kind: "violation", What: "encoded bytes differ from the specification's format: large " + c.name, Input: id,
						Impl: fmt.Sprintf("%d bytes, specification %d bytes", len(enc), len(c.spec))})
				}
				dest := reflect.New(reflect.TypeOf(c.value))
				src := enc
				if c.spec != nil && prop == "C12" {
					src = c.spec
				}
				if _, err := c.codec.Decode(src, dest.Interface(), ver); err != nil {
					what := "value does not round-trip: large " + c.name
					if prop == "C12" {
						what = "bytes in the specification's format refused by the decoder: large " + c.name
					}
					res.Add(lp.Finding{Kind: "violation", What: what, Input: id, Impl: firstWords(err.Error())})
					continue
				}
				if !reflect.DeepEqual(dest.Elem().Interface(), c.value) {
					res.Add(lp.Finding{Kind: "violation", What: "value does not round-trip: large " + c.name + " (different value)", Input: id})
				}
			}
		}
	}
}
