package main

import (
	"encoding/binary"
	"fmt"
	"reflect"

	"github.com/datastax/go-cassandra-native-protocol/datacodec"
	"github.com/datastax/go-cassandra-native-protocol/datatype"
	"github.com/datastax/go-cassandra-native-protocol/primitive"

	"verif/internal/lp"
)

// Large collections (beyond the sizes the random generator draws): element counts around 1024 (the decoder's plausibility
// bound), 32767/32768 (sign of a 2-byte count) and 65535 (the v2 maximum), with 1- and 2-byte elements, in the v2 and v3+
// formats. Each value is encoded and decoded by the real codec, the bytes are compared with bytes built here from the
// specification (count, then length-prefixed elements), and the specification's bytes are decoded.
func largeCollections(res *lp.Result, prop string) {
	specBytes := func(ver primitive.ProtocolVersion, elems [][]byte) []byte {
		var b []byte
		put := func(n int) {
			if ver.Uses4BytesCollectionLength() {
				b = binary.BigEndian.AppendUint32(b, uint32(n))
			} else {
				b = binary.BigEndian.AppendUint16(b, uint16(n))
			}
		}
		put(len(elems))
		for _, e := range elems {
			put(len(e))
			b = append(b, e...)
		}
		return b
	}
	listTiny, _ := datacodec.NewList(datatype.NewList(datatype.Tinyint))
	setBool, _ := datacodec.NewSet(datatype.NewSet(datatype.Boolean))
	mapSmallBool, _ := datacodec.NewMap(datatype.NewMap(datatype.Smallint, datatype.Boolean))
	sizes := []int{1024, 1025, 1100, 3000, 32767, 32768, 40000, 65535}
	if !thorough() {
		sizes = []int{1025, 3000, 32768, 65535}
	}
	for _, ver := range []primitive.ProtocolVersion{primitive.ProtocolVersion2, primitive.ProtocolVersion4} {
		for _, n := range sizes {
			// list<tinyint>
			vals := make([]int8, n)
			elems := make([][]byte, n)
			for i := range vals {
				vals[i] = int8(i*7 + 3)
				elems[i] = []byte{byte(vals[i])}
			}
			bools := make([]bool, n)
			belems := make([][]byte, n)
			for i := range bools {
				bools[i] = i%3 == 0
				belems[i] = []byte{0}
				if bools[i] {
					belems[i] = []byte{1}
				}
			}
			type tc struct {
				name  string
				codec datacodec.Codec
				value interface{}
				spec  []byte
			}
			cases := []tc{
				{"list<tinyint>", listTiny, vals, specBytes(ver, elems)},
				{"set<boolean>", setBool, bools, specBytes(ver, belems)},
			}
			if n <= 40000 {
				m := map[int16]bool{}
				for i := 0; i < n; i++ {
					m[int16(i-20000)] = i%2 == 0
				}
				cases = append(cases, tc{"map<smallint,boolean>", mapSmallBool, m, nil})
			}
			for _, c := range cases {
				id := fmt.Sprintf("%s %s with %d elements, version %v", prop, c.name, n, ver)
				res.Case(id, true)
				res.Count("large-collections")
				enc, err := c.codec.Encode(c.value, ver)
				if err != nil {
					res.Add(lp.Finding{Kind: "violation", What: "valid value refused by the encoder: large " + c.name, Input: id, Impl: firstWords(err.Error())})
					continue
				}
				if c.spec != nil && prop == "C12" && string(enc) != string(c.spec) {
					res.Add(lp.Finding{Kind: "violation", What: "encoded bytes differ from the specification's format: large " + c.name, Input: id,
						Impl: fmt.Sprintf("%d bytes, specification %d bytes", len(enc), len(c.spec))})
				}
				dest := reflect.New(reflect.TypeOf(c.value))
				src := enc
				if c.spec != nil && prop == "C12" {
					src = c.spec
				}
				if _, err := c.codec.Decode(src, dest.Interface(), ver); err != nil {
					what := "value does not round-trip: large " + c.name
					if prop == "C12" {
						what = "bytes in the specification's format refused by the decoder: large " + c.name
					}
					res.Add(lp.Finding{Kind: "violation", What: what, Input: id, Impl: firstWords(err.Error())})
					continue
				}
				if !reflect.DeepEqual(dest.Elem().Interface(), c.value) {
					res.Add(lp.Finding{Kind: "violation", What: "value does not round-trip: large " + c.name + " (different value)", Input: id})
				}
			}
		}
	}
	// one element longer than 1 MiB (contents of that size are read piecewise): list<blob>, tuple<int,blob>, a UDT field
	listBlob, _ := datacodec.NewList(datatype.NewList(datatype.Blob))
	tupleIB, _ := datacodec.NewTuple(datatype.NewTuple(datatype.Int, datatype.Blob))
	udtT, _ := datatype.NewUserDefined("ks", "t", []string{"a", "b"}, []datatype.DataType{datatype.Int, datatype.Blob})
	udtC, _ := datacodec.NewUserDefined(udtT)
	for _, ver := range []primitive.ProtocolVersion{primitive.ProtocolVersion3, primitive.ProtocolVersion5} {
		for _, n := range []int{1 << 20, 1<<20 + 1, 1<<21 + 5} {
			big := make([]byte, n)
			for i := range big {
				big[i] = byte(i*13 + 1)
			}
			be32 := func(k int) []byte { return binary.BigEndian.AppendUint32(nil, uint32(k)) }
			listSpec := append(append(append(append(be32(2), be32(1)...), 0x42), be32(n)...), big...)
			tupSpec := append(append(append(be32(4), 0, 0, 0, 7), be32(n)...), big...)
			type tc struct {
				name  string
				codec datacodec.Codec
				value interface{}
				spec  []byte
			}
			for _, c := range []tc{
				{"list<blob>", listBlob, [][]byte{{0x42}, big}, listSpec},
				{"tuple<int,blob>", tupleIB, []interface{}{int32(7), big}, tupSpec},
				{"udt<a int, b blob>", udtC, map[string]interface{}{"a": int32(7), "b": big}, tupSpec},
			} {
				id := fmt.Sprintf("%s %s with an element of %d bytes, version %v", prop, c.name, n, ver)
				res.Case(id, true)
				res.Count("large-elements")
				enc, err := c.codec.Encode(c.value, ver)
				if err != nil {
					res.Add(lp.Finding{Kind: "violation", What: "valid value refused by the encoder: large element in " + c.name, Input: id, Impl: firstWords(err.Error())})
					continue
				}
				if prop == "C12" && string(enc) != string(c.spec) {
					res.Add(lp.Finding{Kind: "violation", What: "encoded bytes differ from the specification's format: large element in " + c.name, Input: id,
						Impl: fmt.Sprintf("%d bytes, specification %d bytes", len(enc), len(c.spec))})
				}
				src := enc
				if prop == "C12" {
					src = c.spec
				}
				var dest interface{}
				if _, err := c.codec.Decode(src, &dest, ver); err != nil {
					res.Add(lp.Finding{Kind: "violation", What: "bytes in the specification's format refused by the decoder: large element in " + c.name, Input: id, Impl: firstWords(err.Error())})
					continue
				}
				// the big element must come back byte for byte (found by walking the decoded value for []byte leaves)
				found, sizes := false, []int{}
				var walk func(v reflect.Value)
				walk = func(v reflect.Value) {
					for v.IsValid() && (v.Kind() == reflect.Interface || v.Kind() == reflect.Ptr) && !v.IsNil() {
						v = v.Elem()
					}
					if !v.IsValid() {
						return
					}
					switch v.Kind() {
					case reflect.Slice:
						if b, ok := v.Interface().([]byte); ok {
							sizes = append(sizes, len(b))
							if string(b) == string(big) {
								found = true
							}
							return
						}
						for i := 0; i < v.Len(); i++ {
							walk(v.Index(i))
						}
					case reflect.Map:
						for _, k := range v.MapKeys() {
							walk(v.MapIndex(k))
						}
					}
				}
				walk(reflect.ValueOf(dest))
				if !found {
					res.Add(lp.Finding{Kind: "violation", What: "an element longer than 1 MiB is decoded to other bytes: " + c.name, Input: id,
						Impl: fmt.Sprintf("byte strings decoded: sizes %v, expected one of %d bytes", sizes, n)})
				}
			}
		}
	}
}
