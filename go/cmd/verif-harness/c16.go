package main

import (
	"fmt"
	"strings"
	"time"

	"github.com/datastax/go-cassandra-native-protocol/client"
	"github.com/datastax/go-cassandra-native-protocol/frame"
	"github.com/datastax/go-cassandra-native-protocol/message"
	"github.com/datastax/go-cassandra-native-protocol/primitive"

	"verif/internal/lp"
)

// C16, part A: timed histories of {send, response page, last page, time passes, handler close} executed in real time on the
// real in-flight handler (through the `verif` export shim) and compared with the timed model Cql/Timer.lean. Histories
// are generated so that no timer deadline falls within two time units of an event or of the final observation, which
// makes the expected outcome robust against scheduling jitter. A run-time panic (send on closed channel, close of closed
// channel) is a violation.
// Part B (connection level) is in c16conn.go.

func init() { modes["C16"] = runC16 }

type lifeEv struct {
	kind byte // s p l a c
	arg  int
}

func (e lifeEv) String() string {
	switch e.kind {
	case 's', 'c':
		return string(e.kind)
	}
	return fmt.Sprintf("%c%d", e.kind, e.arg)
}

const lifeT = 6 // read timeout in units

// simulate returns whether the history keeps every deadline at least `slack` units away from every event and from the end,
// and the end time
func lifeSlackOK(evs []lifeEv, slack int, lifeT int) bool {
	type rq struct {
		done     bool
		deadline int // -1 = none
	}
	var reqs []*rq
	now := 0
	closed := false
	check := func(t int) bool {
		for _, r := range reqs {
			if !r.done && r.deadline >= 0 {
				d := r.deadline - t
				if d < 0 {
					d = -d
				}
				if d < slack {
					return false
				}
			}
		}
		return true
	}
	fire := func() {
		for _, r := range reqs {
			if !r.done && r.deadline >= 0 && r.deadline <= now {
				r.done, r.deadline = true, -1
			}
		}
	}
	for _, e := range evs {
		switch e.kind {
		case 'a':
			now += e.arg
			// the next event (or the final observation) happens at `now`: no live deadline may be close to it, whether it
			// is about to fire or has just fired
			if !check(now) {
				return false
			}
			fire()
		case 's':
			if !check(now) {
				return false
			}
			if !closed {
				reqs = append(reqs, &rq{deadline: now + lifeT})
			}
		case 'p', 'l':
			if !check(now) {
				return false
			}
			if !closed && e.arg < len(reqs) && !reqs[e.arg].done {
				if e.kind == 'l' {
					reqs[e.arg].done, reqs[e.arg].deadline = true, -1
				} else {
					reqs[e.arg].deadline = now + lifeT
				}
			}
		case 'c':
			if !check(now) {
				return false
			}
			closed = true
			for _, r := range reqs {
				r.done, r.deadline = true, -1
			}
		}
	}
	return check(now)
}

func genLife(r *lp.Rng) []lifeEv {
	for {
		var evs []lifeEv
		nreq := 0
		n := 4 + r.Intn(10)
		total := 0
		for i := 0; i < n && total < 34; i++ {
			switch x := r.Intn(10); {
			case x < 2 && nreq < 3:
				evs = append(evs, lifeEv{'s', 0})
				nreq++
			case x < 5 && nreq > 0:
				evs = append(evs, lifeEv{'p', r.Intn(nreq)})
			case x < 6 && nreq > 0:
				evs = append(evs, lifeEv{'l', r.Intn(nreq)})
			case x < 9:
				d := 1 + r.Intn(9)
				evs = append(evs, lifeEv{'a', d})
				total += d
			default:
				if r.Intn(3) == 0 {
					evs = append(evs, lifeEv{'c', 0})
				}
			}
		}
		if nreq == 0 {
			continue
		}
		// end with some time passing so that the last timers are decided
		evs = append(evs, lifeEv{'a', 2 + r.Intn(7)})
		if lifeSlackOK(evs, 2, lifeT) {
			return evs
		}
	}
}

// the scripted multi-page history of the property statement: pages keep arriving at intervals shorter than the timeout
func pagedLife(pages, gap, tail int) []lifeEv {
	evs := []lifeEv{{'s', 0}}
	for i := 0; i < pages; i++ {
		evs = append(evs, lifeEv{'a', gap}, lifeEv{'p', 0})
	}
	return append(evs, lifeEv{'a', tail})
}

func runLifeReal(evs []lifeEv, unit time.Duration, timeoutUnits int) (outs []string, final []string, panicMsg string) {
	h := client.VerifNewHandler(16, 64, time.Duration(timeoutUnits)*unit)
	defer func() {
		// closing the handler at the end must not panic either (a request whose channel was closed behind its back is closed twice)
		defer func() {
			if r := recover(); r != nil && panicMsg == "" {
				panicMsg = fmt.Sprint(r) + " (when the handler is closed at the end of the history)"
			}
		}()
		h.Close()
		h.CancelContext()
	}()
	var reqs []client.InFlightRequest
	start := time.Now()
	now := 0
	tag := 0
	call := func(f func() string) string {
		defer func() {
			if r := recover(); r != nil {
				if panicMsg == "" {
					panicMsg = fmt.Sprint(r)
				}
			}
		}()
		return f()
	}
	classify := func(err error) string {
		switch {
		case err == nil:
			return "ok"
		case strings.Contains(err.Error(), "handler closed"):
			return "refused"
		case strings.Contains(err.Error(), "request closed"), strings.Contains(err.Error(), "unknown stream id"):
			return "request-closed"
		}
		return "err:" + firstWords(err.Error())
	}
	for _, e := range evs {
		switch e.kind {
		case 'a':
			now += e.arg
			time.Sleep(time.Until(start.Add(time.Duration(now) * unit)))
			outs = append(outs, "ok")
		case 's':
			outs = append(outs, call(func() string {
				f := frame.NewFrame(primitive.ProtocolVersionDse2, 0, &message.Options{})
				req, err := h.Send(f)
				if err == nil {
					reqs = append(reqs, req)
				}
				return classify(err)
			}))
		case 'p', 'l':
			outs = append(outs, call(func() string {
				tag++
				if e.arg >= len(reqs) {
					// a response for a request that was never registered
					if c := classify(h.Deliver(responseFrame(9999, e.kind == 'l', tag))); c == "request-closed" {
						return "unknown"
					} else {
						return c
					}
				}
				return classify(h.Deliver(responseFrame(int(reqs[e.arg].StreamId()), e.kind == 'l', tag)))
			}))
		case 'c':
			outs = append(outs, call(func() string { h.Close(); return "ok" }))
		}
		if panicMsg != "" {
			return
		}
	}
	for _, r := range reqs {
		n := 0
	drain:
		for {
			select {
			case f, ok := <-r.Incoming():
				if !ok || f == nil {
					break drain
				}
				n++
			default:
				break drain
			}
		}
		st := "open"
		if r.IsDone() {
			st = "done"
		}
		why := "nil"
		if err := r.Err(); err != nil {
			switch {
			case strings.Contains(err.Error(), "timed out"):
				why = "timeout"
			case strings.Contains(err.Error(), "handler closed"):
				why = "closed"
			default:
				why = "err:" + firstWords(err.Error())
			}
		}
		final = append(final, fmt.Sprintf("%s,%s,%d", st, why, n))
	}
	return
}

type lifeHist struct {
	t   int // read timeout in units
	evs []lifeEv
}

func c16Histories() []lifeHist {
	rng := lp.NewRng(*seed)
	n := 40
	if thorough() {
		n = 400
	}
	var hist []lifeHist
	for _, h := range [][]lifeEv{pagedLife(6, 2, 3), pagedLife(5, 4, 8), pagedLife(3, 3, 2), pagedLife(8, 1, 9)} {
		hist = append(hist, lifeHist{lifeT, h})
	}
	// a longer timeout (12, 16 units) leaves room for histories in which a page arrives EARLY in the timeout (first half,
	// first quarter) and the next one after the deadline that was running before it, but within the timeout counted from
	// it — every page must restart the clock, however early it comes —, and for a silence of just under / just over the timeout
	// counted from the last page
	for _, tu := range []int{12, 16} {
		for _, early := range []int{tu/4 + 1, tu/2 - 1} {
			next := tu + (early+1)/2 // between the old deadline (tu) and the restarted one (early+tu), clear of both
			if next-tu < 2 || early+tu-next < 2 {
				continue
			}
			hist = append(hist,
				lifeHist{tu, []lifeEv{{'s', 0}, {'a', early}, {'p', 0}, {'a', next - early}, {'p', 0}, {'a', 3}, {'l', 0}, {'a', 2}}},
				lifeHist{tu, []lifeEv{{'s', 0}, {'a', early}, {'p', 0}, {'a', tu - 3}, {'p', 0}, {'a', tu + 3}}},
				lifeHist{tu, []lifeEv{{'s', 0}, {'s', 0}, {'a', early}, {'p', 1}, {'a', next - early}, {'l', 1}, {'p', 0}, {'a', 2}}})
		}
	}
	for _, h := range hist {
		if !lifeSlackOK(h.evs, 2, h.t) {
			panic("scripted history with a deadline too close to an event: " + lifeLine(h))
		}
	}
	for len(hist) < n {
		hist = append(hist, lifeHist{lifeT, genLife(rng)})
	}
	return hist
}

func lifeLine(h lifeHist) string {
	var toks []string
	for _, e := range h.evs {
		toks = append(toks, e.String())
	}
	return fmt.Sprintf("life %d %s", h.t, strings.Join(toks, " "))
}

func runC16(res *lp.Result) {
	res.Rule = "part A: timed histories over {send, page, last page, time passes, handler close} with up to 3 requests, read timeout 6 units, " +
		"every deadline at least 2 units away from any event (robust against jitter), plus scripted multi-page histories with gaps shorter " +
		"than the timeout; executed in real time on the real handler (one child process per history: a panic in a timer goroutine kills the " +
		"process) and compared event by event and request by request with the timed model. " +
		"part B: scripted client/server sessions over loopback TCP with close injected at every step boundary from the client side, the server " +
		"side and the network; Close must return, pending requests must complete with an error, later sends must be refused, goroutine counts " +
		"must return to the baseline. part C: Close called while a Send is parked in the middle of its body (by a message whose String() blocks inside the library's own debug logging), while an event handler and while a request handler is running: nothing panics, every call returns. Non-trivial = a history in which a timer or a close decides a request's outcome."
	hist := c16Histories()
	runScenarios(res, "C16LIFE", len(hist), func(i int) string {
		return fmt.Sprintf("timeout=%d units of 50ms; history: %s", hist[i].t, strings.TrimPrefix(lifeLine(hist[i]), fmt.Sprintf("life %d ", hist[i].t)))
	})
	runC16Conn(res)
	runC16Park(res)
}

func init() { modes["C16LIFE"] = runC16LifeChild }

func runC16LifeChild(res *lp.Result) {
	hist := c16Histories()
	i := scenarioIndex()
	if i >= len(hist) {
		return
	}
	unit := 50 * time.Millisecond
	line := lifeLine(hist[i])
	outs, final, panicMsg := runLifeReal(hist[i].evs, unit, hist[i].t)
	// give a stray timer of the history the time to fire (it would kill this process: the parent reports the crash)
	time.Sleep(time.Duration(hist[i].t+2) * unit)
	answers, err := lp.Ask(*driverPath, []string{line})
	if err != nil || len(answers) != 1 {
		res.Add(lp.Finding{Kind: "disagreement", What: "driver failure on life"})
		return
	}
	a := answers[0]
	id := fmt.Sprintf("timeout=%d units of %v; history: %s", hist[i].t, unit, strings.TrimPrefix(line, fmt.Sprintf("life %d ", hist[i].t)))
	parts := strings.SplitN(a, " | ", 2)
	if len(parts) != 2 {
		res.Add(lp.Finding{Kind: "disagreement", What: "driver answer malformed", Input: id, Model: a})
		return
	}
	decisive := strings.Contains(parts[1], "timeout") || strings.Contains(parts[1], "closed")
	res.Case(line, decisive)
	res.Count("histories")
	if panicMsg != "" {
		res.Add(lp.Finding{Kind: "violation", What: "in-flight request handling panics: " + firstWords(panicMsg), Input: id})
		return
	}
	var want []string
	for _, q := range strings.Split(parts[1], ";") {
		f := strings.Split(q, ",")
		if len(f) == 4 {
			want = append(want, strings.Join(f[:3], ","))
		}
	}
	got := strings.Join(final, ";")
	if got != strings.Join(want, ";") {
		what := "request outcome differs from the timed model"
		kind := "disagreement"
		for k := range want {
			if k < len(final) && final[k] != want[k] {
				switch {
				case strings.Contains(final[k], "timeout") && !strings.Contains(want[k], "timeout"):
					what, kind = "request fails with a timeout although its pages kept arriving within the read timeout", "violation"
				case !strings.HasPrefix(final[k], "done") && strings.HasPrefix(want[k], "done"):
					what, kind = "request is not completed (channel still open) where it must be done", "violation"
				case strings.HasPrefix(final[k], "done,nil") && strings.HasPrefix(want[k], "done,") && !strings.HasPrefix(want[k], "done,nil"):
					what, kind = "request channel closed without an error where an error is due", "violation"
				}
				break
			}
		}
		res.Add(lp.Finding{Kind: kind, What: what, Input: id, Impl: got, Model: strings.Join(want, ";")})
		return
	}
	if strings.Join(outs, " ") != parts[0] {
		res.Add(lp.Finding{Kind: "disagreement", What: "event outcomes differ from the timed model", Input: id, Impl: strings.Join(outs, " "), Model: parts[0]})
	}
}
