package main

// Go representations of CQL values (the table of accepted Go types in datacodec/doc.go).
//
//	toGo(c, dt, t)    builds a Go value of type t holding the canonical value c of CQL type dt (ok=false when t cannot hold it
//	                  exactly: a null where t is not nillable, an integer that does not fit, a NaN as a float64 for `float`, …)
//	fromGo(v, dt)     reads any accepted Go value back into a canonical value (nil pointer / nil interface / nil slice / nil map = NULL)
//
// Struct representations (tuples, UDTs) are created with reflect.StructOf; each field carries a `verif:"<position>"` tag that the
// harness uses to find the field of a tuple/UDT position, so that the library's own lookup (by index for tuples, by
// case-insensitive name or `cassandra` tag for UDTs) is exercised with struct fields in a different order than the UDT's.

import (
	"errors"
	"fmt"
	"math"
	"math/big"
	"net"
	"reflect"
	"strconv"
	"strings"
	"time"
	"unicode/utf8"

	"github.com/datastax/go-cassandra-native-protocol/datacodec"
	"github.com/datastax/go-cassandra-native-protocol/datatype"
	"github.com/datastax/go-cassandra-native-protocol/primitive"
	"verif/internal/lp"
)

var (
	tIface       = reflect.TypeOf((*interface{})(nil)).Elem()
	tBigIntPtr   = reflect.TypeOf((*big.Int)(nil))
	tBigInt      = tBigIntPtr.Elem() // listed for varint by doc.go, by value
	tBigFloatPtr = reflect.TypeOf((*big.Float)(nil))
	tTime        = reflect.TypeOf(time.Time{})
	tDuration    = reflect.TypeOf(time.Duration(0))
	tNetIP       = reflect.TypeOf(net.IP{})
	tUUID        = reflect.TypeOf(primitive.UUID{})
	tArr16       = reflect.TypeOf([16]byte{})
	tBytes       = reflect.TypeOf([]byte{})
	tRunes       = reflect.TypeOf([]rune{})
	tString      = reflect.TypeOf("")
	tBool        = reflect.TypeOf(false)
	tFloat32     = reflect.TypeOf(float32(0))
	tFloat64     = reflect.TypeOf(float64(0))
	tDecimal     = reflect.TypeOf(datacodec.CqlDecimal{})
	tCqlDuration = reflect.TypeOf(datacodec.CqlDuration{})
	tInt         = reflect.TypeOf(int(0))
	tInt64       = reflect.TypeOf(int64(0))
	tInt32       = reflect.TypeOf(int32(0))
	tInt16       = reflect.TypeOf(int16(0))
	tInt8        = reflect.TypeOf(int8(0))
	tUint        = reflect.TypeOf(uint(0))
	tUint64      = reflect.TypeOf(uint64(0))
	tUint32      = reflect.TypeOf(uint32(0))
	tUint16      = reflect.TypeOf(uint16(0))
	tUint8       = reflect.TypeOf(uint8(0))
	tIfaceSlice  = reflect.TypeOf([]interface{}{})
	tStrIfaceMap = reflect.TypeOf(map[string]interface{}{})
	tIfaceMap    = reflect.TypeOf(map[interface{}]interface{}{})
)

var sizedInts = []reflect.Type{tInt64, tInt, tInt32, tInt16, tInt8, tUint64, tUint, tUint32, tUint16, tUint8}

// isPtrRep: a pointer type that is a pointer to a representation (not *big.Int / *big.Float, which are representations themselves)
func isPtrRep(t reflect.Type) bool {
	return t.Kind() == reflect.Ptr && t != tBigIntPtr && t != tBigFloatPtr
}

func nillable(t reflect.Type) bool {
	switch t.Kind() {
	case reflect.Ptr, reflect.Interface, reflect.Slice, reflect.Map:
		return true
	}
	return false
}

func ensureNillableT(t reflect.Type) reflect.Type {
	if nillable(t) {
		return t
	}
	return reflect.PtrTo(t)
}

// preferredType: datacodec.PreferredGoType under recover (it panics in reflect.MapOf for maps keyed by blob/inet/collections)
func preferredType(dt datatype.DataType) (t reflect.Type, p *panicInfo, err error) {
	p = guard(func() { t, err = datacodec.PreferredGoType(dt) })
	return
}

// noPreferredGoType: the library reports (with an error, not a panic) that the type has no preferred Go representation
func noPreferredGoType(dt datatype.DataType) bool {
	if _, p, err := preferredType(dt); p == nil && err != nil {
		return true
	}
	// … or a component of it has none (the error then surfaces when that component is decoded)
	switch t := dt.(type) {
	case *datatype.List:
		return noPreferredGoType(t.ElementType)
	case *datatype.Set:
		return noPreferredGoType(t.ElementType)
	case *datatype.Map:
		return noPreferredGoType(t.KeyType) || noPreferredGoType(t.ValueType)
	case *datatype.Tuple:
		for _, f := range t.FieldTypes {
			if noPreferredGoType(f) {
				return true
			}
		}
	case *datatype.UserDefined:
		for _, f := range t.FieldTypes {
			if noPreferredGoType(f) {
				return true
			}
		}
	}
	return false
}

// scalarAlts: the accepted Go types of a scalar CQL type, preferred type first (doc.go; pointer variants are derived)
func scalarAlts(dt datatype.DataType) []reflect.Type {
	ints := func(first reflect.Type, more ...reflect.Type) []reflect.Type {
		out := []reflect.Type{first}
		for _, t := range sizedInts {
			if t != first {
				out = append(out, t)
			}
		}
		return append(out, more...)
	}
	switch dt.Code() {
	case primitive.DataTypeCodeBigint, primitive.DataTypeCodeCounter:
		return ints(tInt64, tBigIntPtr, tString)
	case primitive.DataTypeCodeInt:
		return ints(tInt32, tString)
	case primitive.DataTypeCodeSmallint:
		return ints(tInt16, tString)
	case primitive.DataTypeCodeTinyint:
		return ints(tInt8, tString)
	case primitive.DataTypeCodeVarint:
		return ints(tBigIntPtr, tString, tBigInt)
	case primitive.DataTypeCodeBlob, primitive.DataTypeCodeCustom:
		return []reflect.Type{tBytes, tString}
	case primitive.DataTypeCodeBoolean:
		return ints(tBool)
	case primitive.DataTypeCodeDate:
		return ints(tTime, tString)
	case primitive.DataTypeCodeTime:
		return ints(tDuration, tTime, tString)
	case primitive.DataTypeCodeTimestamp:
		return ints(tTime, tString)
	case primitive.DataTypeCodeDecimal:
		return []reflect.Type{tDecimal}
	case primitive.DataTypeCodeDuration:
		return []reflect.Type{tCqlDuration}
	case primitive.DataTypeCodeDouble:
		return []reflect.Type{tFloat64, tFloat32, tBigFloatPtr}
	case primitive.DataTypeCodeFloat:
		return []reflect.Type{tFloat32, tFloat64}
	case primitive.DataTypeCodeInet:
		return []reflect.Type{tNetIP, tBytes, tString}
	case primitive.DataTypeCodeUuid, primitive.DataTypeCodeTimeuuid:
		return []reflect.Type{tUUID, tArr16, tBytes, tString}
	case primitive.DataTypeCodeVarchar, primitive.DataTypeCodeAscii:
		return []reflect.Type{tString, tBytes, tRunes}
	}
	return nil
}

func floorDiv(x, y int64) int64 {
	q := x / y
	if (x%y != 0) && ((x < 0) != (y < 0)) {
		q--
	}
	return q
}

const (
	minStringDays   = -719162 // 0001-01-01
	maxStringDays   = 2932896 // 9999-12-31
	minStringMillis = minStringDays * 86400000
	maxStringMillis = (maxStringDays+1)*86400000 - 1
)

func fitsInt(v *big.Int, t reflect.Type) bool {
	switch t.Kind() {
	case reflect.Int, reflect.Int8, reflect.Int16, reflect.Int32, reflect.Int64:
		return v.IsInt64() && !reflect.Zero(t).OverflowInt(v.Int64())
	case reflect.Uint, reflect.Uint8, reflect.Uint16, reflect.Uint32, reflect.Uint64:
		return v.IsUint64() && !reflect.Zero(t).OverflowUint(v.Uint64())
	}
	return false
}

func isIntKind(k reflect.Kind) bool  { return k >= reflect.Int && k <= reflect.Int64 }
func isUintKind(k reflect.Kind) bool { return k >= reflect.Uint && k <= reflect.Uint64 }

func setInt(t reflect.Type, v *big.Int) (reflect.Value, bool) {
	if !fitsInt(v, t) {
		return reflect.Value{}, false
	}
	r := reflect.New(t).Elem()
	if isIntKind(t.Kind()) {
		r.SetInt(v.Int64())
	} else {
		r.SetUint(v.Uint64())
	}
	return r, true
}

func bytesValue(t reflect.Type, b []byte) reflect.Value {
	s := reflect.MakeSlice(t, len(b), len(b))
	reflect.Copy(s, reflect.ValueOf(b))
	return s
}

var no = reflect.Value{}

// toGoScalar: a non-null scalar as a non-pointer Go type t
var timeZones = []*time.Location{time.UTC, time.FixedZone("+0530", 19800), time.UTC, time.FixedZone("-0800", -28800),
	time.FixedZone("+1400", 50400), time.FixedZone("-1200", -43200), time.FixedZone("+0045", 2700)}

func toGoScalar(c *cv, dt datatype.DataType, t reflect.Type) (reflect.Value, bool) {
	code := dt.Code()
	switch c.k {
	case cvInt:
		isPlain := intWidth(code) > 0 && code != primitive.DataTypeCodeDate && code != primitive.DataTypeCodeTimestamp || code == primitive.DataTypeCodeVarint
		switch {
		case t == tBigIntPtr:
			if code == primitive.DataTypeCodeBigint || code == primitive.DataTypeCodeCounter || code == primitive.DataTypeCodeVarint {
				return reflect.ValueOf(new(big.Int).Set(c.i)), true
			}
			return no, false
		case t == tBigInt:
			if code != primitive.DataTypeCodeVarint {
				return no, false
			}
			return reflect.ValueOf(new(big.Int).Set(c.i)).Elem(), true
		case t == tDuration:
			if code != primitive.DataTypeCodeTime {
				return no, false
			}
			return reflect.ValueOf(time.Duration(c.i.Int64())), true
		case isIntKind(t.Kind()) || isUintKind(t.Kind()):
			return setInt(t, c.i)
		case t == tTime:
			// the same instant presented in some location (chosen by the value): the codecs document that a time.Time is
			// normalised to UTC before encoding
			zone := timeZones[int(new(big.Int).Mod(c.i, big.NewInt(int64(len(timeZones)))).Int64())]
			switch code {
			case primitive.DataTypeCodeDate:
				return reflect.ValueOf(time.Unix(c.i.Int64()*86400, 0).In(zone)), true
			case primitive.DataTypeCodeTimestamp:
				ms := c.i.Int64()
				s := floorDiv(ms, 1000)
				return reflect.ValueOf(time.Unix(s, (ms-s*1000)*1e6).In(zone)), true
			case primitive.DataTypeCodeTime:
				// only the clock part (in UTC) counts: some date
				return reflect.ValueOf(time.Date(2021, 3, 4, 0, 0, 0, 0, time.UTC).Add(time.Duration(c.i.Int64())).In(zone)), true
			}
			return no, false
		case t == tString:
			if isPlain {
				return reflect.ValueOf(c.i.String()), true
			}
			v := c.i.Int64()
			switch code {
			case primitive.DataTypeCodeDate:
				if v < minStringDays || v > maxStringDays {
					return no, false
				}
				return reflect.ValueOf(time.Unix(v*86400, 0).UTC().Format(datacodec.DateLayoutDefault)), true
			case primitive.DataTypeCodeTimestamp:
				if v < minStringMillis || v > maxStringMillis {
					return no, false
				}
				s := floorDiv(v, 1000)
				return reflect.ValueOf(time.Unix(s, (v-s*1000)*1e6).UTC().Format(datacodec.TimestampLayoutDefault)), true
			case primitive.DataTypeCodeTime:
				return reflect.ValueOf(time.Date(0, 1, 1, 0, 0, 0, 0, time.UTC).Add(time.Duration(v)).Format(datacodec.TimeLayoutDefault)), true
			}
		}
	case cvBool:
		if t == tBool {
			return reflect.ValueOf(c.b), true
		}
		if isIntKind(t.Kind()) || isUintKind(t.Kind()) {
			if c.b {
				return setInt(t, big.NewInt(1))
			}
			return setInt(t, big.NewInt(0))
		}
	case cvFloat:
		f := math.Float32frombits(uint32(c.bits))
		switch t {
		case tFloat32:
			return reflect.ValueOf(f), true
		case tFloat64:
			if f != f { // the float codec refuses a NaN given as float64 (it tests float64(float32(x)) == x)
				return no, false
			}
			return reflect.ValueOf(float64(f)), true
		}
	case cvDouble:
		f := math.Float64frombits(c.bits)
		switch t {
		case tFloat64:
			return reflect.ValueOf(f), true
		case tFloat32:
			if f != f || float64(float32(f)) != f {
				return no, false
			}
			return reflect.ValueOf(float32(f)), true
		case tBigFloatPtr:
			if f != f {
				return no, false
			}
			return reflect.ValueOf(new(big.Float).SetFloat64(f)), true
		}
	case cvBytes:
		switch code {
		case primitive.DataTypeCodeInet:
			switch t {
			case tNetIP, tBytes:
				return bytesValue(t, c.by), true
			case tString:
				return reflect.ValueOf(net.IP(c.by).String()), true
			}
		case primitive.DataTypeCodeUuid, primitive.DataTypeCodeTimeuuid:
			switch t {
			case tUUID, tArr16:
				a := reflect.New(t).Elem()
				reflect.Copy(a, reflect.ValueOf(c.by))
				return a, true
			case tBytes:
				return bytesValue(t, c.by), true
			case tString:
				var u primitive.UUID
				copy(u[:], c.by)
				return reflect.ValueOf(u.String()), true
			}
		case primitive.DataTypeCodeVarchar, primitive.DataTypeCodeAscii:
			switch t {
			case tString:
				return reflect.ValueOf(string(c.by)), true
			case tBytes:
				return bytesValue(t, c.by), true
			case tRunes:
				if !utf8.Valid(c.by) {
					return no, false
				}
				r := []rune(string(c.by))
				if r == nil {
					r = []rune{}
				}
				return reflect.ValueOf(r), true
			}
		default: // blob, custom
			switch t {
			case tBytes:
				return bytesValue(t, c.by), true
			case tString:
				return reflect.ValueOf(string(c.by)), true
			}
		}
	case cvDecimal:
		if t == tDecimal {
			return reflect.ValueOf(datacodec.CqlDecimal{Unscaled: new(big.Int).Set(c.i), Scale: c.scale}), true
		}
	case cvDuration:
		if t == tCqlDuration {
			return reflect.ValueOf(datacodec.CqlDuration{Months: c.months, Days: c.days, Nanos: time.Duration(c.nanos)}), true
		}
	}
	return no, false
}

// structField: the field of a harness-made struct type that stands for position i
func structField(t reflect.Type, i int) int {
	want := strconv.Itoa(i)
	for j := 0; j < t.NumField(); j++ {
		if t.Field(j).Tag.Get("verif") == want {
			return j
		}
	}
	return -1
}

func toGo(c *cv, dt datatype.DataType, t reflect.Type) (v reflect.Value, ok bool) {
	defer func() {
		if r := recover(); r != nil { // unhashable map keys and the like: this Go type cannot hold the value
			v, ok = no, false
		}
	}()
	if t.Kind() == reflect.Interface {
		out := reflect.New(t).Elem()
		if c == nil {
			return out, true
		}
		dyn, p, err := preferredType(dt)
		if p != nil || err != nil {
			return no, false
		}
		inner, ok := toGo(c, dt, dyn)
		if !ok {
			return no, false
		}
		out.Set(inner)
		return out, true
	}
	if isPtrRep(t) {
		if c == nil {
			return reflect.Zero(t), true
		}
		inner, ok := toGo(c, dt, t.Elem())
		if !ok {
			return no, false
		}
		p := reflect.New(t.Elem())
		p.Elem().Set(inner)
		return p, true
	}
	if c == nil {
		// NULL as a nil slice: for collections, tuples, UDTs, and for the scalars whose preferred type is a slice (blob, custom,
		// inet). A nil []byte for a uuid or a nil []rune for a varchar is not NULL for the library (recorded by C14, not judged).
		if nillable(t) && !(isScalar(dt) && t.Kind() == reflect.Slice && t != scalarAlts(dt)[0]) {
			return reflect.Zero(t), true
		}
		return no, false
	}
	elemsInto := func(types []datatype.DataType, single datatype.DataType) (reflect.Value, bool) {
		n := len(c.elems)
		et := func(i int) datatype.DataType {
			if single != nil {
				return single
			}
			return types[i]
		}
		switch t.Kind() {
		case reflect.Slice, reflect.Array:
			var s reflect.Value
			if t.Kind() == reflect.Slice {
				s = reflect.MakeSlice(t, n, n)
			} else {
				if t.Len() != n {
					return no, false
				}
				s = reflect.New(t).Elem()
			}
			for i, e := range c.elems {
				x, ok := toGo(e, et(i), t.Elem())
				if !ok {
					return no, false
				}
				s.Index(i).Set(x)
			}
			return s, true
		case reflect.Struct:
			if single != nil || t.NumField() != n {
				return no, false
			}
			s := reflect.New(t).Elem()
			for i, e := range c.elems {
				j := structField(t, i)
				if j < 0 {
					return no, false
				}
				x, ok := toGo(e, et(i), t.Field(j).Type)
				if !ok {
					return no, false
				}
				s.Field(j).Set(x)
			}
			return s, true
		}
		return no, false
	}
	switch d := dt.(type) {
	case *datatype.List:
		return elemsInto(nil, d.ElementType)
	case *datatype.Set:
		return elemsInto(nil, d.ElementType)
	case *datatype.Tuple:
		return elemsInto(d.FieldTypes, nil)
	case *datatype.UserDefined:
		if t.Kind() == reflect.Map {
			if t.Key().Kind() != reflect.String {
				return no, false
			}
			m := reflect.MakeMapWithSize(t, len(c.elems))
			for i, e := range c.elems {
				x, ok := toGo(e, d.FieldTypes[i], t.Elem())
				if !ok {
					return no, false
				}
				m.SetMapIndex(reflect.ValueOf(d.FieldNames[i]).Convert(t.Key()), x)
			}
			return m, true
		}
		return elemsInto(d.FieldTypes, nil)
	case *datatype.Map:
		if t.Kind() != reflect.Map {
			return no, false
		}
		m := reflect.MakeMapWithSize(t, len(c.keys))
		var ks []reflect.Value
		for i := range c.keys {
			k, ok := toGo(c.keys[i], d.KeyType, t.Key())
			if !ok {
				return no, false
			}
			x, ok := toGo(c.vals[i], d.ValueType, t.Elem())
			if !ok {
				return no, false
			}
			m.SetMapIndex(k, x)
			ks = append(ks, k)
		}
		if m.Len() != len(c.keys) { // 0 and -0, or two values that the Go key type identifies
			return no, false
		}
		for _, k := range ks {
			if !m.MapIndex(k).IsValid() { // NaN keys cannot be looked up again
				return no, false
			}
		}
		return m, true
	}
	return toGoScalar(c, dt, t)
}

// ---------------------------------------------------------------------------------------------------------------------

var errUnreadable = errors.New("unexpected Go type")

func unreadable(v reflect.Value, dt datatype.DataType) error {
	return fmt.Errorf("%w %s for %s", errUnreadable, v.Type(), typeName(dt))
}

func bytesOf(v reflect.Value) []byte {
	b := make([]byte, v.Len())
	reflect.Copy(reflect.ValueOf(b), v)
	return b
}

func fromGo(v reflect.Value, dt datatype.DataType) (*cv, error) {
	if !v.IsValid() {
		return nil, nil
	}
	t := v.Type()
	if t.Kind() == reflect.Interface || isPtrRep(t) {
		if v.IsNil() {
			return nil, nil
		}
		return fromGo(v.Elem(), dt)
	}
	if (t.Kind() == reflect.Slice || t.Kind() == reflect.Map || t.Kind() == reflect.Ptr) && v.IsNil() {
		return nil, nil
	}
	elems := func(kind cvKind, types []datatype.DataType, single datatype.DataType) (*cv, error) {
		et := func(i int) datatype.DataType {
			if single != nil {
				return single
			}
			return types[i]
		}
		c := &cv{k: kind, elems: []*cv{}}
		switch t.Kind() {
		case reflect.Slice, reflect.Array:
			if single == nil && v.Len() != len(types) {
				return nil, fmt.Errorf("%d elements for %s", v.Len(), typeName(dt))
			}
			for i := 0; i < v.Len(); i++ {
				e, err := fromGo(v.Index(i), et(i))
				if err != nil {
					return nil, err
				}
				c.elems = append(c.elems, e)
			}
			return c, nil
		case reflect.Struct:
			if single != nil || t == tTime {
				return nil, unreadable(v, dt)
			}
			for i := range types {
				j := structField(t, i)
				if j < 0 {
					return nil, unreadable(v, dt)
				}
				e, err := fromGo(v.Field(j), et(i))
				if err != nil {
					return nil, err
				}
				c.elems = append(c.elems, e)
			}
			return c, nil
		}
		return nil, unreadable(v, dt)
	}
	switch d := dt.(type) {
	case *datatype.List:
		return elems(cvList, nil, d.ElementType)
	case *datatype.Set:
		return elems(cvList, nil, d.ElementType)
	case *datatype.Tuple:
		return elems(cvTuple, d.FieldTypes, nil)
	case *datatype.UserDefined:
		if t.Kind() == reflect.Map {
			if t.Key().Kind() != reflect.String {
				return nil, unreadable(v, dt)
			}
			c := &cv{k: cvUdt, elems: []*cv{}}
			for i, name := range d.FieldNames {
				e, err := fromGo(v.MapIndex(reflect.ValueOf(name).Convert(t.Key())), d.FieldTypes[i])
				if err != nil {
					return nil, err
				}
				c.elems = append(c.elems, e)
			}
			if v.Len() > len(d.FieldNames) {
				return nil, fmt.Errorf("map with %d keys for %s", v.Len(), typeName(dt))
			}
			return c, nil
		}
		return elems(cvUdt, d.FieldTypes, nil)
	case *datatype.Map:
		if t.Kind() != reflect.Map {
			return nil, unreadable(v, dt)
		}
		c := &cv{k: cvMap, keys: []*cv{}, vals: []*cv{}}
		it := v.MapRange()
		for it.Next() {
			k, err := fromGo(it.Key(), d.KeyType)
			if err != nil {
				return nil, err
			}
			x, err := fromGo(it.Value(), d.ValueType)
			if err != nil {
				return nil, err
			}
			c.keys = append(c.keys, k)
			c.vals = append(c.vals, x)
		}
		return c, nil
	}
	return fromGoScalar(v, dt)
}

func fromGoScalar(v reflect.Value, dt datatype.DataType) (*cv, error) {
	t := v.Type()
	code := dt.Code()
	parseInt := func(s string) (*cv, error) {
		i, ok := new(big.Int).SetString(s, 10)
		if !ok || i.String() != s {
			return nil, fmt.Errorf("not a canonical base-10 number: %q", s)
		}
		return cvI(i), nil
	}
	isIntType := intWidth(code) > 0 || code == primitive.DataTypeCodeVarint || code == primitive.DataTypeCodeTime
	switch {
	case isIntType:
		switch {
		case t == tBigIntPtr:
			return cvI(v.Interface().(*big.Int)), nil
		case t == tBigInt:
			p := reflect.New(tBigInt)
			p.Elem().Set(v)
			return cvI(p.Interface().(*big.Int)), nil
		case t == tTime:
			tm := v.Interface().(time.Time)
			switch code {
			case primitive.DataTypeCodeDate:
				return cvI64(floorDiv(tm.Unix(), 86400)), nil
			case primitive.DataTypeCodeTimestamp:
				ms := new(big.Int).Mul(big.NewInt(tm.Unix()), big.NewInt(1000))
				return cvI(ms.Add(ms, big.NewInt(int64(tm.Nanosecond()/1e6)))), nil
			case primitive.DataTypeCodeTime:
				u := tm.UTC()
				return cvI64(int64(u.Hour())*3600e9 + int64(u.Minute())*60e9 + int64(u.Second())*1e9 + int64(u.Nanosecond())), nil
			}
		case isIntKind(t.Kind()):
			return cvI64(v.Int()), nil
		case isUintKind(t.Kind()):
			return cvI(new(big.Int).SetUint64(v.Uint())), nil
		case t.Kind() == reflect.String:
			s := v.String()
			switch code {
			case primitive.DataTypeCodeDate:
				tm, err := time.Parse(datacodec.DateLayoutDefault, s)
				if err != nil {
					return nil, err
				}
				return cvI64(floorDiv(tm.Unix(), 86400)), nil
			case primitive.DataTypeCodeTimestamp:
				tm, err := time.Parse(datacodec.TimestampLayoutDefault, s)
				if err != nil {
					return nil, err
				}
				return cvI64(tm.Unix()*1000 + int64(tm.Nanosecond()/1e6)), nil
			case primitive.DataTypeCodeTime:
				tm, err := time.Parse(datacodec.TimeLayoutDefault, s)
				if err != nil {
					return nil, err
				}
				return cvI64(int64(tm.Hour())*3600e9 + int64(tm.Minute())*60e9 + int64(tm.Second())*1e9 + int64(tm.Nanosecond())), nil
			}
			return parseInt(s)
		}
	case code == primitive.DataTypeCodeBoolean:
		switch {
		case t.Kind() == reflect.Bool:
			return &cv{k: cvBool, b: v.Bool()}, nil
		case isIntKind(t.Kind()):
			return &cv{k: cvBool, b: v.Int() != 0}, nil
		case isUintKind(t.Kind()):
			return &cv{k: cvBool, b: v.Uint() != 0}, nil
		}
	case code == primitive.DataTypeCodeFloat:
		switch t {
		case tFloat32:
			if v.CanInterface() {
				return mkFloat(uint64(math.Float32bits(v.Interface().(float32)))), nil
			}
			return mkFloat(uint64(math.Float32bits(float32(v.Float())))), nil
		case tFloat64:
			return mkFloat(uint64(math.Float32bits(float32(v.Float())))), nil
		}
	case code == primitive.DataTypeCodeDouble:
		switch t {
		case tFloat64:
			return mkDouble(math.Float64bits(v.Float())), nil
		case tFloat32:
			return mkDouble(math.Float64bits(v.Float())), nil
		case tBigFloatPtr:
			f, _ := v.Interface().(*big.Float).Float64()
			return mkDouble(math.Float64bits(f)), nil
		}
	case code == primitive.DataTypeCodeDecimal:
		if t == tDecimal {
			d := v.Interface().(datacodec.CqlDecimal)
			u := d.Unscaled
			if u == nil {
				u = new(big.Int)
			}
			return &cv{k: cvDecimal, i: new(big.Int).Set(u), scale: d.Scale}, nil
		}
	case code == primitive.DataTypeCodeDuration:
		if t == tCqlDuration {
			d := v.Interface().(datacodec.CqlDuration)
			return &cv{k: cvDuration, months: d.Months, days: d.Days, nanos: int64(d.Nanos)}, nil
		}
	case code == primitive.DataTypeCodeInet:
		switch {
		case t == tNetIP || t == tBytes:
			if v.Len() == 0 {
				return nil, nil // the codec writes an empty address as NULL
			}
			return mkInet(bytesOf(v)), nil
		case t.Kind() == reflect.String:
			ip := net.ParseIP(v.String())
			if ip == nil {
				return nil, fmt.Errorf("not an address: %q", v.String())
			}
			return mkInet(inetBytes(ip)), nil
		}
	case code == primitive.DataTypeCodeUuid || code == primitive.DataTypeCodeTimeuuid:
		switch {
		case t == tUUID || t == tArr16 || t == tBytes:
			return cvB(bytesOf(v)), nil
		case t.Kind() == reflect.String:
			u, err := primitive.ParseUuid(v.String())
			if err != nil {
				return nil, err
			}
			return cvB(u[:]), nil
		}
	default: // varchar ascii blob custom
		switch {
		case t == tBytes:
			return cvB(bytesOf(v)), nil
		case t.Kind() == reflect.String:
			return cvB([]byte(v.String())), nil
		case t == tRunes && (code == primitive.DataTypeCodeVarchar || code == primitive.DataTypeCodeAscii):
			return cvB([]byte(string(v.Interface().([]rune)))), nil
		}
	}
	return nil, unreadable(v, dt)
}

// nilSig: which slices and maps of a Go value are nil (N) and which are empty but not nil (E); used only to count nil ↔ empty
// changes that the canonical text cannot see
func nilSig(v reflect.Value, depth int) string {
	if !v.IsValid() || depth > 8 {
		return ""
	}
	switch v.Kind() {
	case reflect.Interface, reflect.Ptr:
		if v.IsNil() || v.Type() == tBigIntPtr || v.Type() == tBigFloatPtr {
			return ""
		}
		return nilSig(v.Elem(), depth+1)
	case reflect.Slice, reflect.Map:
		if v.IsNil() {
			return "N"
		}
		if v.Len() == 0 {
			return "E"
		}
		if v.Kind() == reflect.Map || v.Type().Elem().Kind() == reflect.Uint8 || v.Type().Elem().Kind() == reflect.Int32 {
			return "S"
		}
		var sb strings.Builder
		sb.WriteByte('(')
		for i := 0; i < v.Len(); i++ {
			sb.WriteString(nilSig(v.Index(i), depth+1))
		}
		sb.WriteByte(')')
		return sb.String()
	}
	return ""
}

// ---------------------------------------------------------------------------------------------------------------------
// representation types

type rep struct {
	label string
	t     reflect.Type
}

type typeStyle struct {
	name       string
	leafPtr    bool // scalars as pointers (can hold nulls)
	altLeaves  bool // scalars as a random accepted alternative type
	ptrKeys    bool // map keys made nillable like the preferred type does; otherwise plain comparable keys
	timeAsInt  bool // `time` as int64, which holds every wire value
	ifaceElems bool // lists/sets as []interface{}, UDTs as []interface{}, maps as map[interface{}]interface{}
	tupleIface bool // tuples as []interface{} instead of structs
	rng        *lp.Rng
	depth      int
}

func exportedIdent(name string) (string, bool) {
	if name == "" {
		return "", false
	}
	for i, r := range name {
		if !(r >= 'a' && r <= 'z' || r >= 'A' && r <= 'Z' || r == '_' && i > 0 || r >= '0' && r <= '9' && i > 0) {
			return "", false
		}
	}
	if name[0] >= 'A' && name[0] <= 'Z' {
		if len(name) > 1 && name[0] == 'T' && name[1] >= '0' && name[1] <= '9' {
			return "", false
		}
		return name, true
	}
	return strings.ToUpper(name[:1]) + name[1:], true
}

// structOf: fields[i] stands for position i; names (UDTs) are matched by the library case-insensitively or through the
// `cassandra` tag. UDT structs get their fields in reverse order.
func structOf(fields []reflect.Type, names []string, useTags bool) reflect.Type {
	sf := make([]reflect.StructField, len(fields))
	for i, ft := range fields {
		f := reflect.StructField{Name: fmt.Sprintf("T%d", i), Type: ft, Tag: reflect.StructTag(fmt.Sprintf(`verif:"%d"`, i))}
		if names != nil {
			if id, ok := exportedIdent(names[i]); ok && !useTags {
				f.Name = id
			} else {
				f.Tag = reflect.StructTag(fmt.Sprintf(`verif:"%d" cassandra:%s`, i, strconv.Quote(names[i])))
			}
			sf[len(fields)-1-i] = f
		} else {
			sf[i] = f
		}
	}
	return reflect.StructOf(sf)
}

func (s *typeStyle) leaf(dt datatype.DataType) reflect.Type {
	alts := scalarAlts(dt)
	t := alts[0]
	if s.altLeaves && len(alts) > 1 {
		t = alts[s.rng.Intn(len(alts))]
		if t == tBigInt { // big.Int by value is judged once, at the scalar level
			t = tBigIntPtr
		}
	}
	if s.timeAsInt && dt.Code() == primitive.DataTypeCodeTime {
		t = tInt64
	}
	return t
}

// keyType: a Go map key type for a CQL key type
func (s *typeStyle) keyType(dt datatype.DataType, sample *cv) (reflect.Type, bool) {
	if isScalar(dt) {
		if hashableKey(dt) {
			t := s.leaf(dt)
			if s.ptrKeys {
				return ensureNillableT(t), true
			}
			return t, t.Comparable()
		}
		if s.ptrKeys {
			return reflect.PtrTo(tString), true
		}
		return tString, true // blob, custom, inet: string is an accepted type and can be a key
	}
	switch d := dt.(type) {
	case *datatype.List:
		if sample == nil || !isScalar(d.ElementType) {
			return nil, false
		}
		return reflect.ArrayOf(len(sample.elems), reflect.PtrTo(scalarAlts(d.ElementType)[0])), true
	}
	return nil, false
}

func firstNonNil(xs []*cv) *cv {
	for _, x := range xs {
		if x != nil {
			return x
		}
	}
	return nil
}

// build: a Go type for the CQL type in this style; `c` is a sample value (array lengths come from it)
func (s *typeStyle) build(dt datatype.DataType, c *cv) (reflect.Type, bool) {
	s.depth++
	defer func() { s.depth-- }()
	switch d := dt.(type) {
	case *datatype.List, *datatype.Set:
		if s.ifaceElems {
			return tIfaceSlice, true
		}
		var sample *cv
		if c != nil {
			sample = firstNonNil(c.elems)
		}
		et, ok := s.build(children(dt)[0], sample)
		if !ok {
			return nil, false
		}
		return reflect.SliceOf(et), true
	case *datatype.Map:
		if s.ifaceElems {
			if !hashableKey(d.KeyType) {
				return nil, false
			}
			return tIfaceMap, true
		}
		var ks, vs *cv
		if c != nil {
			ks, vs = firstNonNil(c.keys), firstNonNil(c.vals)
		}
		kt, ok := s.keyType(d.KeyType, ks)
		if !ok {
			return nil, false
		}
		vt, ok := s.build(d.ValueType, vs)
		if !ok {
			return nil, false
		}
		return reflect.MapOf(kt, vt), true
	case *datatype.Tuple:
		if s.tupleIface {
			return tIfaceSlice, true
		}
		return s.fields(d.FieldTypes, nil, c)
	case *datatype.UserDefined:
		if s.ifaceElems {
			return tIfaceSlice, true
		}
		return s.fields(d.FieldTypes, d.FieldNames, c)
	}
	t := s.leaf(dt)
	if s.leafPtr {
		t = ensureNillableT(t)
	}
	return t, true
}

func (s *typeStyle) fields(types []datatype.DataType, names []string, c *cv) (reflect.Type, bool) {
	fts := make([]reflect.Type, len(types))
	for i, ft := range types {
		var sample *cv
		if c != nil && i < len(c.elems) {
			sample = c.elems[i]
		}
		t, ok := s.build(ft, sample)
		if !ok {
			return nil, false
		}
		fts[i] = t
	}
	st := structOf(fts, names, s.rng != nil && s.rng.Bool())
	if s.leafPtr && s.depth > 1 {
		return reflect.PtrTo(st), true // nested tuples/UDTs must be able to hold NULL
	}
	return st, true
}

// arrayType: the outermost list/set/tuple/UDT as an array sized for the value
func arrayType(dt datatype.DataType, c *cv) (reflect.Type, bool) {
	if c == nil {
		return nil, false
	}
	switch dt.(type) {
	case *datatype.List, *datatype.Set:
		et, p, err := preferredType(children(dt)[0])
		if p != nil || err != nil {
			return nil, false
		}
		return reflect.ArrayOf(len(c.elems), ensureNillableT(et)), true
	case *datatype.Tuple, *datatype.UserDefined:
		return reflect.ArrayOf(len(c.elems), tIface), true
	}
	return nil, false
}

// repsFor: the Go types in which the value is handed to the codec. Scalars: every accepted type and the pointers to them.
// Other types: the preferred type, a pointer to it, and the structural alternatives.
func repsFor(dt datatype.DataType, c *cv, rng *lp.Rng) []rep {
	var out []rep
	if isScalar(dt) {
		for _, t := range scalarAlts(dt) {
			out = append(out, rep{t.String(), t})
			if t.Kind() != reflect.Ptr && t != tBigInt {
				out = append(out, rep{"*" + t.String(), reflect.PtrTo(t)})
			}
		}
		return out
	}
	if pt, p, err := preferredType(dt); p == nil && err == nil {
		out = append(out, rep{"preferred", pt}, rep{"*preferred", reflect.PtrTo(pt)})
	}
	styles := []*typeStyle{
		{name: "typed-values", ptrKeys: false},
		{name: "typed-pointers", leafPtr: true},
		{name: "typed-pointers-ptrkeys", leafPtr: true, ptrKeys: true, tupleIface: true},
		{name: "interfaces", ifaceElems: true},
		{name: "alternatives", leafPtr: true, altLeaves: true},
		{name: "alternatives-values", altLeaves: true},
	}
	for _, s := range styles {
		s.rng = rng
		for try := 0; try < 3; try++ {
			t, ok := s.build(dt, c)
			if !ok {
				break
			}
			if _, fits := toGo(c, dt, t); fits || !s.altLeaves {
				out = append(out, rep{s.name, t})
				break
			}
		}
	}
	if t, ok := arrayType(dt, c); ok {
		out = append(out, rep{"array", t})
	}
	return out
}

// destFor: a fresh destination of the representation and the place where the decoded value is found afterwards
func destFor(t reflect.Type) (dest interface{}, result func() reflect.Value) {
	if isPtrRep(t) || t == tBigIntPtr || t == tBigFloatPtr {
		p := reflect.New(t.Elem())
		return p.Interface(), func() reflect.Value { return p }
	}
	p := reflect.New(t)
	return p.Interface(), func() reflect.Value { return p.Elem() }
}
