package main

import (
	"fmt"
	"sync"
	"time"

	"github.com/datastax/go-cassandra-native-protocol/client"
	"github.com/datastax/go-cassandra-native-protocol/frame"
	"github.com/datastax/go-cassandra-native-protocol/message"
	"github.com/datastax/go-cassandra-native-protocol/primitive"

	"verif/internal/lp"
)

// C09/C10 under concurrent senders, on the real in-flight handler: G goroutines released together send with caller-chosen
// ids (several of them the SAME id) or with managed ids, while a responder answers; repeated many times so that the
// critical sections of onOutgoingFrameEnqueued interleave. The model side is Cql/Props/C09Concurrent.lean (every
// interleaving of the critical sections); this run looks for the failing schedule on the implementation.
func runInflightConcurrent(res *lp.Result) {
	iters := 3000
	if thorough() {
		iters = 60000
	}
	rng := lp.NewRng(*seed + 77)
	dupExplicit, dupManaged, overLimit := 0, 0, 0
	var firstDup, firstOver string
	for it := 0; it < iters; it++ {
		n := 2 + rng.Intn(6)
		g := 2 + rng.Intn(7)
		explicit := rng.Bool()
		h := client.VerifNewHandler(n, 4, time.Hour)
		ids := make([]int16, g)
		for i := range ids {
			if explicit {
				ids[i] = int16(100 + rng.Intn(2)) // two ids shared by all senders
			}
		}
		accepted := make([]int16, g)
		var wg sync.WaitGroup
		start := make(chan struct{})
		for i := 0; i < g; i++ {
			wg.Add(1)
			go func(i int) {
				defer wg.Done()
				<-start
				f := frame.NewFrame(primitive.ProtocolVersion4, ids[i], &message.Options{})
				if req, err := h.Send(f); err == nil {
					accepted[i] = req.StreamId()
				} else {
					accepted[i] = -1
				}
			}(i)
		}
		close(start)
		wg.Wait()
		count := map[int16]int{}
		total := 0
		for _, a := range accepted {
			if a != -1 {
				count[a]++
				total++
			}
		}
		res.Count("concurrent/rounds")
		for id, c := range count {
			if c > 1 {
				if explicit {
					dupExplicit++
				} else {
					dupManaged++
				}
				if firstDup == "" {
					firstDup = fmt.Sprintf("round %d (seed %d): N=%d, %d goroutines released together, explicit=%v: stream id %d accepted %d times", it, *seed, n, g, explicit, id, c)
				}
			}
		}
		if total > n {
			overLimit++
			if firstOver == "" {
				firstOver = fmt.Sprintf("round %d (seed %d): N=%d, %d sends accepted with none answered", it, *seed, n, total)
			}
		}
		func() {
			defer func() { recover() }()
			h.Close()
			h.CancelContext()
		}()
	}
	res.Case(fmt.Sprintf("concurrent senders, %d rounds", iters), true)
	if dupExplicit > 0 {
		res.Add(lp.Finding{Kind: "violation", What: "the same caller-chosen stream id is accepted for two unanswered requests when senders run concurrently",
			Input: firstDup, Impl: fmt.Sprintf("%d of %d rounds", dupExplicit, iters)})
	}
	if dupManaged > 0 {
		res.Add(lp.Finding{Kind: "violation", What: "the same managed stream id is assigned to two unanswered requests when senders run concurrently",
			Input: firstDup, Impl: fmt.Sprintf("%d of %d rounds", dupManaged, iters)})
	}
	if overLimit > 0 {
		res.Add(lp.Finding{Kind: "violation", What: "more than N requests are accepted unanswered when senders run concurrently",
			Input: firstOver, Impl: fmt.Sprintf("%d of %d rounds", overLimit, iters)})
	}
}

// The limits as configured on a real client connection (MaxInFlight = N, MaxPending = P with N != P): against a peer that
// never answers, exactly N managed sends are accepted, with ids 1..N, and the next is refused; after the peer answers all of
// them, N more are accepted.
func runInflightConnection(res *lp.Result) {
	for _, cfg := range [][2]int{{2, 5}, {3, 1}, {7, 2}, {1, 9}} {
		n, p := cfg[0], cfg[1]
		id := fmt.Sprintf("client connection with MaxInFlight=%d MaxPending=%d, peer that never answers", n, p)
		res.Case(id, true)
		res.Count("connection/limits")
		srv, addr, cancel := startServer(nil)
		cl := newClient(addr, nil, primitive.CompressionNone, time.Hour)
		cl.MaxInFlight, cl.MaxPending = n, p
		cc, sc, err := srv.BindAndInit(cl, contextBackground(), primitive.ProtocolVersion4, 1)
		if err != nil {
			res.Add(lp.Finding{Kind: "harness", What: "cannot set up a connection", Input: id, Impl: err.Error()})
			cancel()
			continue
		}
		var reqs []client.InFlightRequest
		seen := map[int16]bool{}
		for k := 0; k < n; k++ {
			r, err := cc.Send(frame.NewFrame(primitive.ProtocolVersion4, 0, &message.Options{}))
			if err != nil {
				res.Add(lp.Finding{Kind: "violation", What: "send refused although fewer than N requests are unanswered", Input: id,
					Impl: fmt.Sprintf("send %d of %d: %v", k+1, n, firstWords(err.Error()))})
				break
			}
			if r.StreamId() < 1 || int(r.StreamId()) > n {
				res.Add(lp.Finding{Kind: "violation", What: "accepted request carries a stream id outside 1..N", Input: id, Impl: fmt.Sprint(r.StreamId())})
			}
			if seen[r.StreamId()] {
				res.Add(lp.Finding{Kind: "violation", What: "two unanswered requests carry the same stream id", Input: id, Impl: fmt.Sprint(r.StreamId())})
			}
			seen[r.StreamId()] = true
			reqs = append(reqs, r)
		}
		if len(reqs) == n {
			if _, err := cc.Send(frame.NewFrame(primitive.ProtocolVersion4, 0, &message.Options{})); err == nil {
				res.Add(lp.Finding{Kind: "violation", What: "send accepted although N requests are unanswered", Input: id})
			}
			// the peer answers all of them; then N more must be accepted
			for range reqs {
				if f, err := sc.Receive(); err == nil && f != nil {
					sc.Send(frame.NewFrame(primitive.ProtocolVersion4, f.Header.StreamId, &message.Supported{}))
				}
			}
			for _, r := range reqs {
				within(3*time.Second, func() { cc.Receive(r) })
			}
			for k := 0; k < n; k++ {
				if _, err := cc.Send(frame.NewFrame(primitive.ProtocolVersion4, 0, &message.Options{})); err != nil {
					res.Add(lp.Finding{Kind: "violation", What: "after all requests are answered fewer than N new ones can be sent", Input: id,
						Impl: fmt.Sprintf("send %d of %d: %v", k+1, n, firstWords(err.Error()))})
					break
				}
			}
		}
		cc.Close()
		srv.Close()
		cancel()
	}
}

// C10 at connection level (real client connection, library server as the peer): k requests outstanding, answered in reverse
// order with a response on an unused stream id and an event in between: every request gets exactly its own response, the
// spurious response disturbs nobody, the event goes to the event channel and to no request.
func runRoutingConnection(res *lp.Result) {
	for _, v := range []primitive.ProtocolVersion{primitive.ProtocolVersion3, primitive.ProtocolVersion4, primitive.ProtocolVersion5, primitive.ProtocolVersionDse2} {
		id := fmt.Sprintf("client connection %v: 4 requests outstanding, answered in reverse order, spurious response and event in between", v)
		res.Case(id, true)
		res.Count("connection/routing")
		srv, addr, cancel := startServer(nil)
		cl := newClient(addr, nil, primitive.CompressionNone, 10*time.Second)
		cc, sc, err := srv.BindAndInit(cl, contextBackground(), v, 1)
		if err != nil {
			res.Add(lp.Finding{Kind: "harness", What: "cannot set up a connection", Input: id, Impl: err.Error()})
			cancel()
			continue
		}
		viol := func(what, impl string) { res.Add(lp.Finding{Kind: "violation", What: what, Input: id, Impl: impl}) }
		var reqs []client.InFlightRequest
		for k := 0; k < 4; k++ {
			r, err := cc.Send(frame.NewFrame(v, int16(20+k), &message.Query{Query: fmt.Sprintf("q%d", k)}))
			if err != nil {
				viol("client refuses to send a request", err.Error())
				break
			}
			reqs = append(reqs, r)
		}
		for range reqs {
			within(3*time.Second, func() { sc.Receive() })
		}
		// the peer answers: a response for an unknown id first, then 3, an event, 2, 1, 0
		sc.Send(frame.NewFrame(v, 12345, &message.SetKeyspaceResult{Keyspace: "spurious"}))
		for k := len(reqs) - 1; k >= 0; k-- {
			if k == 2 {
				sc.Send(frame.NewFrame(v, -1, &message.StatusChangeEvent{ChangeType: primitive.StatusChangeTypeUp,
					Address: &primitive.Inet{Addr: []byte{127, 0, 0, 1}, Port: 9042}}))
			}
			sc.Send(frame.NewFrame(v, int16(20+k), &message.SetKeyspaceResult{Keyspace: fmt.Sprintf("ks%d", k)}))
		}
		for k, r := range reqs {
			var f *frame.Frame
			var err error
			if !within(4*time.Second, func() { f, err = cc.Receive(r) }) || err != nil || f == nil {
				viol("a response for an unknown stream id (or an event) disturbs the delivery to other requests", fmt.Sprintf("request %d: %v", k, err))
				continue
			}
			if sk, ok := f.Body.Message.(*message.SetKeyspaceResult); !ok || sk.Keyspace != fmt.Sprintf("ks%d", k) || f.Header.StreamId != int16(20+k) {
				viol("response delivered to the wrong request", fmt.Sprintf("request %d (stream id %d) received %v", k, 20+k, f.Body.Message))
			}
			// exactly once: the channel is closed after the single response
			extra := 0
			within(time.Second, func() {
				for range r.Incoming() {
					extra++
				}
			})
			if extra > 0 {
				viol("response delivered more than once", fmt.Sprintf("request %d got %d further frames", k, extra))
			}
		}
		var ev *frame.Frame
		if !within(3*time.Second, func() { ev, err = cc.ReceiveEvent() }) || err != nil || ev == nil {
			viol("server-pushed event does not reach the event channel", fmt.Sprint(err))
		} else if _, ok := ev.Body.Message.(*message.StatusChangeEvent); !ok {
			viol("event channel delivers something that is not the event", fmt.Sprint(ev.Body.Message))
		}
		if cc.IsClosed() {
			viol("connection closed by a response for an unknown stream id", "")
		}
		cc.Close()
		srv.Close()
		cancel()
	}
}

// … and over the v5 segment framing with an independent raw peer as the server (several responses for different requests,
// out of order, in ONE self-contained segment; a response split over segments): the raw-server scenarios of C15, each in a
// child process.
func runRoutingRawPeer(res *lp.Result) {
	all := c15Scenarios()
	var idx []int
	for i, s := range all {
		if s.kind == "raw-server" && s.variant == 0 {
			idx = append(idx, i)
		}
	}
	runScenariosAt(res, "C15CONN", idx, func(i int) string { return all[i].String() })
}
