package main

import (
	"strings"
	"fmt"
	"sync"
	"time"

	"github.com/datastax/go-cassandra-native-protocol/client"
	"github.com/datastax/go-cassandra-native-protocol/frame"
	"github.com/datastax/go-cassandra-native-protocol/message"
	"github.com/datastax/go-cassandra-native-protocol/primitive"

	"verif/internal/lp"
)

// C09/C10 under concurrent senders, on the real in-flight handler: G goroutines released together send with caller-chosen
// ids (several of them the SAME id) or with managed ids, while a responder answers; repeated many times so that the
// critical sections of onOutgoingFrameEnqueued interleave. The model side is Cql/Props/C09Concurrent.lean (every
// interleaving of the critical sections); this run looks for the failing schedule on the implementation.
func runInflightConcurrent(res *lp.Result) {
	iters := 3000
	if thorough() {
		iters = 60000
	}
	rng := lp.NewRng(*seed + 77)
	dupExplicit, dupManaged, overLimit := 0, 0, 0
	var firstDup, firstOver string
	for it := 0; it < iters; it++ {
		n := 2 + rng.Intn(6)
		g := 2 + rng.Intn(7)
		explicit := rng.Bool()
		h := client.VerifNewHandler(n, 4, time.Hour)
		ids := make([]int16, g)
		for i := range ids {
			if explicit {
				ids[i] = int16(100 + rng.Intn(2)) // two ids shared by all senders
			}
		}
		accepted := make([]int16, g)
		var wg sync.WaitGroup
		start := make(chan struct{})
		for i := 0; i < g; i++ {
			wg.Add(1)
			go func(i int) {
				defer wg.Done()
				<-start
				f := frame.NewFrame(primitive.ProtocolVersion4, ids[i], &message.Options{})
				if req, err := h.Send(f); err == nil {
					accepted[i] = req.StreamId()
				} else {
					accepted[i] = -1
				}
			}(i)
		}
		close(start)
		wg.Wait()
		count := map[int16]int{}
		total := 0
		for _, a := range accepted {
			if a != -1 {
				count[a]++
				total++
			}
		}
		res.Count("concurrent/rounds")
		for id, c := range count {
			if c > 1 {
				if explicit {
					dupExplicit++
				} else {
					dupManaged++
				}
				if firstDup == "" {
					firstDup = fmt.Sprintf("round %d (seed %d): N=%d, %d goroutines released together, explicit=%v: stream id %d accepted %d times", it, *seed, n, g, explicit, id, c)
				}
			}
		}
		if total > n {
			overLimit++
			if firstOver == "" {
				firstOver = fmt.Sprintf("round %d (seed %d): N=%d, %d sends accepted with none answered", it, *seed, n, total)
			}
		}
		func() {
			defer func() { recover() }()
			h.Close()
			h.CancelContext()
		}()
	}
	res.Case(fmt.Sprintf("concurrent senders, %d rounds", iters), true)
	if dupExplicit > 0 {
		res.Add(lp.Finding{Kind: "violation", What: "the same caller-chosen stream id is accepted for two unanswered requests when senders run concurrently",
			Input: firstDup, Impl: fmt.Sprintf("%d of %d rounds", dupExplicit, iters)})
	}
	if dupManaged > 0 {
		res.Add(lp.Finding{Kind: "violation", What: "the same managed stream id is assigned to two unanswered requests when senders run concurrently",
			Input: firstDup, Impl: fmt.Sprintf("%d of %d rounds", dupManaged, iters)})
	}
	if overLimit > 0 {
		res.Add(lp.Finding{Kind: "violation", What: "more than N requests are accepted unanswered when senders run concurrently",
			Input: firstOver, Impl: fmt.Sprintf("%d of %d rounds", overLimit, iters)})
	}
}

// Senders racing the arrival of responses (the window in which a response recycles an id while a sender borrows one): S
// goroutines send managed requests as fast as they can, a responder delivers the final response of each accepted request
// at once. Refusals while the table is full are legitimate and not judged here; judged are (a) two requests accepted
// with the same id while neither is answered, (b) an id outside 1..N, and (c) the state after everything has been
// answered: N new requests must be accepted, with N distinct ids of 1..N.
func runInflightSendVsDeliver(res *lp.Result) {
	rounds, perRound := 12, 1500
	if thorough() {
		rounds, perRound = 200, 3000
	}
	rng := lp.NewRng(*seed + 99)
	for round := 0; round < rounds; round++ {
		n := 1 + round%3
		senders := 1 + rng.Intn(3)
		id := fmt.Sprintf("send-vs-deliver round %d (seed %d): N=%d, %d senders against one responder, %d requests", round, *seed, n, senders, perRound)
		res.Case(id, true)
		res.Count("concurrent/send-vs-deliver")
		h := client.VerifNewHandler(n, 4, time.Hour)
		acceptedIds := make(chan int16, 1<<16)
		var unanswered sync.Map // id -> true while accepted and not yet delivered
		var bad sync.Map
		var accepted int64
		var mu sync.Mutex
		var wg sync.WaitGroup
		stop := make(chan struct{})
		for sdr := 0; sdr < senders; sdr++ {
			wg.Add(1)
			go func() {
				defer wg.Done()
				for {
					select {
					case <-stop:
						return
					default:
					}
					req, err := h.Send(frame.NewFrame(primitive.ProtocolVersion4, 0, &message.Options{}))
					if err != nil {
						continue
					}
					sid := req.StreamId()
					if sid < 1 || int(sid) > n {
						bad.Store(fmt.Sprintf("accepted request carries stream id %d, outside 1..%d", sid, n), true)
					}
					if _, dup := unanswered.LoadOrStore(sid, true); dup {
						bad.Store(fmt.Sprintf("stream id %d given to a request while another unanswered request carries it", sid), true)
					}
					mu.Lock()
					accepted++
					done := accepted >= int64(perRound)
					mu.Unlock()
					acceptedIds <- sid
					if done {
						return
					}
				}
			}()
		}
		respDone := make(chan struct{})
		go func() {
			defer close(respDone)
			for sid := range acceptedIds {
				unanswered.Delete(sid)
				h.Deliver(frame.NewFrame(primitive.ProtocolVersion4, sid, &message.Supported{}))
			}
		}()
		ok := within(20*time.Second, func() { wg.Wait() })
		close(stop)
		wg.Wait()
		close(acceptedIds)
		<-respDone
		bad.Range(func(k, _ interface{}) bool {
			res.Add(lp.Finding{Kind: "violation", What: k.(string), Input: id})
			return true
		})
		// everything accepted has been answered: N new requests must go out
		seen := map[int16]bool{}
		for k := 0; k < n; k++ {
			req, err := h.Send(frame.NewFrame(primitive.ProtocolVersion4, 0, &message.Options{}))
			if err != nil {
				res.Add(lp.Finding{Kind: "violation", What: "after all requests are answered fewer than N new ones can be sent (senders racing responses)", Input: id,
					Impl: fmt.Sprintf("send %d of %d refused: %s; free ids %d, registered %d, %d requests had been accepted (all within time: %v)", k+1, n, firstWords(err.Error()), h.FreeIds(), h.InFlightCount(), accepted, ok)})
				break
			}
			if seen[req.StreamId()] || req.StreamId() < 1 || int(req.StreamId()) > n {
				res.Add(lp.Finding{Kind: "violation", What: "after all requests are answered the new ones do not get distinct ids of 1..N", Input: id, Impl: fmt.Sprint(req.StreamId())})
			}
			seen[req.StreamId()] = true
		}
		func() {
			defer func() { recover() }()
			h.Close()
			h.CancelContext()
		}()
	}
}

// The limits as configured on a real client connection (MaxInFlight = N, MaxPending = P with N != P): against a peer that
// never answers, exactly N managed sends are accepted, with ids 1..N, and the next is refused; after the peer answers all of
// them, N more are accepted.
// Time passes: a request whose read timeout has elapsed has FAILED for its caller, but nothing says the server will not still answer
// it — its stream id stays taken (no managed send gets it, a caller-chosen reuse is refused, the limit still counts it) until the
// late response has arrived; then it is free again.
func runInflightTimedOut(res *lp.Result) {
	for _, explicit := range []bool{false, true} {
		n := 2
		id := fmt.Sprintf("N=%d, read timeout 40 ms, explicit ids=%v: send, send, wait 200 ms, send, late responses, send", n, explicit)
		res.Case(id, true)
		res.Count("timed-out-requests")
		h := client.VerifNewHandler(n, 4, 40*time.Millisecond)
		ids := []int16{0, 0}
		if explicit {
			ids = []int16{7, 9}
		}
		var got []int16
		ok := true
		for _, sid := range ids {
			r, err := h.Send(frame.NewFrame(primitive.ProtocolVersion4, sid, &message.Options{}))
			if err != nil {
				ok = false
				break
			}
			got = append(got, r.StreamId())
		}
		if !ok {
			h.Close()
			h.CancelContext()
			continue
		}
		time.Sleep(200 * time.Millisecond)
		third := int16(0)
		if explicit {
			third = got[0]
		}
		if r, err := h.Send(frame.NewFrame(primitive.ProtocolVersion4, third, &message.Options{})); err == nil {
			res.Add(lp.Finding{Kind: "violation", What: "send accepted with a stream id that a timed-out, still unanswered request carries (its late response would reach the new request)",
				Input: id, Impl: fmt.Sprintf("third send got stream id %d; unanswered: %v", r.StreamId(), got)})
		} else {
			// the late responses arrive: the ids are free again
			for _, sid := range got {
				h.Deliver(frame.NewFrame(primitive.ProtocolVersion4, sid, &message.Supported{}))
			}
			for k, sid := range ids {
				if _, err := h.Send(frame.NewFrame(primitive.ProtocolVersion4, sid, &message.Options{})); err != nil {
					res.Add(lp.Finding{Kind: "violation", What: "after the late responses of timed-out requests arrived their stream ids are not usable again", Input: id,
						Impl: fmt.Sprintf("send %d: %v", k+1, firstWords(err.Error()))})
					break
				}
			}
		}
		h.Close()
		h.CancelContext()
	}
}

func runInflightConnection(res *lp.Result) {
	// (the last configuration: a limit in the thousands and requests of 16 KiB, so that the peer, which reads nothing before the
	// burst is over, stalls the writer: socket buffers and every queue on the way fill up)
	for _, cfg := range [][2]int{{2, 5}, {3, 1}, {7, 2}, {1, 9}, {2000, 2}} {
		n, p := cfg[0], cfg[1]
		request := func() *frame.Frame { return frame.NewFrame(primitive.ProtocolVersion4, 0, &message.Options{}) }
		if n > 1000 {
			q := strings.Repeat("q", 16<<10)
			request = func() *frame.Frame { return frame.NewFrame(primitive.ProtocolVersion4, 0, &message.Query{Query: q}) }
		}
		id := fmt.Sprintf("client connection with MaxInFlight=%d MaxPending=%d, peer that never answers", n, p)
		res.Case(id, true)
		res.Count("connection/limits")
		srv, addr, cancel := startServer(nil)
		srv.MaxInFlight = n + 8
		var px *proxy
		if n > 1000 {
			// the peer stops reading once the connection is set up and reads again only when the burst is over
			px, addr = startProxy(addr)
		}
		cl := newClient(addr, nil, primitive.CompressionNone, time.Hour)
		cl.MaxInFlight, cl.MaxPending = n, p
		var cc *client.CqlClientConnection
		var sc *client.CqlServerConnection
		var err error
		if px == nil {
			cc, sc, err = srv.BindAndInit(cl, contextBackground(), primitive.ProtocolVersion4, 1)
		} else {
			// (through the proxy the server knows the client under another address: accept whoever comes)
			if cc, err = cl.Connect(contextBackground()); err == nil {
				if sc, err = srv.AcceptAny(); err == nil {
					err = client.PerformHandshake(cc, sc, primitive.ProtocolVersion4, 1)
				}
			}
		}
		if err != nil {
			res.Add(lp.Finding{Kind: "harness", What: "cannot set up a connection", Input: id, Impl: err.Error()})
			cancel()
			continue
		}
		var reqs []client.InFlightRequest
		seen := map[int16]bool{}
		if px != nil {
			px.hold()
		}
		for k := 0; k < n; k++ {
			r, err := cc.Send(request())
			if err != nil {
				res.Add(lp.Finding{Kind: "violation", What: "send refused although fewer than N requests are unanswered", Input: id,
					Impl: fmt.Sprintf("send %d of %d: %v", k+1, n, firstWords(err.Error()))})
				break
			}
			if r.StreamId() < 1 || int(r.StreamId()) > n {
				res.Add(lp.Finding{Kind: "violation", What: "accepted request carries a stream id outside 1..N", Input: id, Impl: fmt.Sprint(r.StreamId())})
			}
			if seen[r.StreamId()] {
				res.Add(lp.Finding{Kind: "violation", What: "two unanswered requests carry the same stream id", Input: id, Impl: fmt.Sprint(r.StreamId())})
			}
			seen[r.StreamId()] = true
			reqs = append(reqs, r)
		}
		if len(reqs) == n {
			if _, err := cc.Send(request()); err == nil {
				res.Add(lp.Finding{Kind: "violation", What: "send accepted although N requests are unanswered", Input: id})
			}
			// the peer answers all of them; then N more must be accepted
			if px != nil {
				px.release()
				px = nil
			}
			within(60*time.Second, func() {
				for range reqs {
					if f, err := sc.Receive(); err == nil && f != nil {
						for try := 0; try < 200; try++ {
							if sc.Send(frame.NewFrame(primitive.ProtocolVersion4, f.Header.StreamId, &message.Supported{})) == nil {
								break
							}
							time.Sleep(5 * time.Millisecond)
						}
					}
				}
			})
			answered := 0
			for _, r := range reqs {
				r := r
				var got *frame.Frame
				if within(3*time.Second, func() { got, _ = cc.Receive(r) }) && got != nil {
					answered++
				}
			}
			if answered < n {
				// (the peer of this harness did not get all answers through in time — a slow machine, or requests the connection lost on
				// the way, which is C15's business: the recycling clause is judged only when everything WAS answered)
				res.Count("connection/limits-not-all-answered")
			}
			for k := 0; k < n && answered == n; k++ {
				if _, err := cc.Send(request()); err != nil {
					res.Add(lp.Finding{Kind: "violation", What: "after all requests are answered fewer than N new ones can be sent", Input: id,
						Impl: fmt.Sprintf("send %d of %d: %v", k+1, n, firstWords(err.Error()))})
					break
				}
			}
		}
		if px != nil {
			px.release()
		}
		cc.Close()
		srv.Close()
		cancel()
	}
}

// Caller-chosen ids on a real connection (any int16, negative ones included): the id is in use until the final response has
// arrived — a second send with it is refused — and usable again afterwards.
func runInflightExplicitConnection(res *lp.Result) {
	id := "client connection with MaxInFlight=4, library server as the peer"
	res.Case(id, true)
	srv, addr, cancel := startServer(nil)
	defer cancel()
	cl := newClient(addr, nil, primitive.CompressionNone, time.Hour)
	cl.MaxInFlight, cl.MaxPending = 4, 4
	cc, sc, err := srv.BindAndInit(cl, contextBackground(), primitive.ProtocolVersion4, 1)
	if err != nil {
		res.Add(lp.Finding{Kind: "harness", What: "cannot set up a connection", Input: id, Impl: err.Error()})
		return
	}
	for _, sid := range []int16{5, -1, -32768, 32767} {
		what := fmt.Sprintf("%s; caller-chosen stream id %d", id, sid)
		res.Count("connection/explicit-id")
		r1, err := cc.Send(frame.NewFrame(primitive.ProtocolVersion4, sid, &message.Options{}))
		if err != nil {
			res.Add(lp.Finding{Kind: "violation", What: "send with a caller-chosen id that no unanswered request carries is refused", Input: what, Impl: firstWords(err.Error())})
			continue
		}
		if _, err := cc.Send(frame.NewFrame(primitive.ProtocolVersion4, sid, &message.Options{})); err == nil {
			res.Add(lp.Finding{Kind: "violation", What: "caller-chosen id of an unanswered request accepted a second time", Input: what})
			within(3*time.Second, func() { sc.Receive() })
		}
		answer := func() {
			within(3*time.Second, func() {
				if f, err := sc.Receive(); err == nil && f != nil {
					sc.Send(frame.NewFrame(primitive.ProtocolVersion4, f.Header.StreamId, &message.Supported{}))
				}
			})
		}
		answer()
		var got *frame.Frame
		if !within(9*time.Second, func() { got, _ = cc.Receive(r1) }) || got == nil {
			res.Add(lp.Finding{Kind: "violation", What: "the response to a request sent with a caller-chosen id does not reach it", Input: what})
			continue
		}
		r2, err := cc.Send(frame.NewFrame(primitive.ProtocolVersion4, sid, &message.Options{}))
		if err != nil {
			res.Add(lp.Finding{Kind: "violation", What: "caller-chosen id is not usable again after its request's final response arrived", Input: what, Impl: firstWords(err.Error())})
			continue
		}
		answer()
		within(3*time.Second, func() { cc.Receive(r2) })
	}
	cc.Close()
	srv.Close()
}

// C10 at connection level (real client connection, library server as the peer): k requests outstanding, answered in reverse
// order with a response on an unused stream id and an event in between: every request gets exactly its own response, the
// spurious response disturbs nobody, the event goes to the event channel and to no request.
func runRoutingConnection(res *lp.Result) {
	// caller-chosen ids of the whole int16 range: negative ones are legal for requests (the event also travels with id -1)
	rid := func(k int) int16 { return []int16{20, -1, -32768, 23}[k] }
	for _, v := range []primitive.ProtocolVersion{primitive.ProtocolVersion3, primitive.ProtocolVersion4, primitive.ProtocolVersion5, primitive.ProtocolVersionDse2} {
		id := fmt.Sprintf("client connection %v: 4 requests outstanding, answered in reverse order, spurious response and event in between", v)
		res.Case(id, true)
		res.Count("connection/routing")
		srv, addr, cancel := startServer(nil)
		cl := newClient(addr, nil, primitive.CompressionNone, 10*time.Second)
		cc, sc, err := srv.BindAndInit(cl, contextBackground(), v, 1)
		if err != nil {
			res.Add(lp.Finding{Kind: "harness", What: "cannot set up a connection", Input: id, Impl: err.Error()})
			cancel()
			continue
		}
		viol := func(what, impl string) { res.Add(lp.Finding{Kind: "violation", What: what, Input: id, Impl: impl}) }
		var reqs []client.InFlightRequest
		for k := 0; k < 4; k++ {
			r, err := cc.Send(frame.NewFrame(v, rid(k), &message.Query{Query: fmt.Sprintf("q%d", k)}))
			if err != nil {
				viol("client refuses to send a request", err.Error())
				break
			}
			reqs = append(reqs, r)
		}
		for range reqs {
			within(3*time.Second, func() { sc.Receive() })
		}
		// the peer answers: a response for an unknown id first, then 3, an event, 2, 1, 0
		sc.Send(frame.NewFrame(v, 12345, &message.SetKeyspaceResult{Keyspace: "spurious"}))
		for k := len(reqs) - 1; k >= 0; k-- {
			if k == 2 {
				sc.Send(frame.NewFrame(v, -1, &message.StatusChangeEvent{ChangeType: primitive.StatusChangeTypeUp,
					Address: &primitive.Inet{Addr: []byte{127, 0, 0, 1}, Port: 9042}}))
			}
			sc.Send(frame.NewFrame(v, rid(k), &message.SetKeyspaceResult{Keyspace: fmt.Sprintf("ks%d", k)}))
		}
		for k, r := range reqs {
			var f *frame.Frame
			var err error
			if !within(9*time.Second, func() { f, err = cc.Receive(r) }) || err != nil || f == nil {
				viol("a response for an unknown stream id (or an event) disturbs the delivery to other requests", fmt.Sprintf("request %d: %v", k, err))
				continue
			}
			if sk, ok := f.Body.Message.(*message.SetKeyspaceResult); !ok || sk.Keyspace != fmt.Sprintf("ks%d", k) || f.Header.StreamId != rid(k) {
				viol("response delivered to the wrong request", fmt.Sprintf("request %d (stream id %d) received %v", k, rid(k), f.Body.Message))
			}
			// exactly once: the channel is closed after the single response
			extra := 0
			within(time.Second, func() {
				for range r.Incoming() {
					extra++
				}
			})
			if extra > 0 {
				viol("response delivered more than once", fmt.Sprintf("request %d got %d further frames", k, extra))
			}
		}
		var ev *frame.Frame
		if !within(9*time.Second, func() { ev, err = cc.ReceiveEvent() }) || err != nil || ev == nil {
			viol("server-pushed event does not reach the event channel", fmt.Sprint(err))
		} else if _, ok := ev.Body.Message.(*message.StatusChangeEvent); !ok {
			viol("event channel delivers something that is not the event", fmt.Sprint(ev.Body.Message))
		}
		if cc.IsClosed() {
			viol("connection closed by a response for an unknown stream id", "")
		}
		cc.Close()
		srv.Close()
		cancel()
	}
}

// Events that nobody consumes must not hold up responses: the peer pushes more events than the event queue holds (its
// capacity is MaxInFlight) while a request is outstanding, then answers the request; the request must get its response, and
// the event channel must hold events only.
func runRoutingEventFlood(res *lp.Result) {
	for _, n := range []int{1, 2, 5} {
		id := fmt.Sprintf("client connection with MaxInFlight=%d: %d events pushed that nobody consumes, then the response to the outstanding request", n, n+3)
		res.Case(id, true)
		res.Count("connection/event-flood")
		func() {
			srv, addr, cancel := startServer(nil)
			defer cancel()
			cl := newClient(addr, nil, primitive.CompressionNone, 10*time.Second)
			cl.MaxInFlight = n
			v := primitive.ProtocolVersion4
			cc, sc, err := srv.BindAndInit(cl, contextBackground(), v, 1)
			if err != nil {
				res.Add(lp.Finding{Kind: "harness", What: "cannot set up a connection", Input: id, Impl: err.Error()})
				return
			}
			defer srv.Close()
			defer cc.Close()
			r, err := cc.Send(frame.NewFrame(v, 0, &message.Query{Query: "q"}))
			if err != nil {
				res.Add(lp.Finding{Kind: "violation", What: "client refuses to send a request", Input: id, Impl: err.Error()})
				return
			}
			var req *frame.Frame
			within(3*time.Second, func() { req, _ = sc.Receive() })
			if req == nil {
				res.Add(lp.Finding{Kind: "harness", What: "request did not reach the peer", Input: id})
				return
			}
			for k := 0; k < n+3; k++ {
				sc.Send(frame.NewFrame(v, -1, &message.StatusChangeEvent{ChangeType: primitive.StatusChangeTypeUp, Address: &primitive.Inet{Addr: []byte{127, 0, 0, byte(k + 1)}, Port: 9042}}))
			}
			sc.Send(frame.NewFrame(v, req.Header.StreamId, &message.SetKeyspaceResult{Keyspace: "answer"}))
			var f *frame.Frame
			if !within(9*time.Second, func() { f, err = cc.Receive(r) }) || err != nil || f == nil {
				res.Add(lp.Finding{Kind: "violation", What: "a response is not delivered to its request while unconsumed events fill the event queue", Input: id, Impl: fmt.Sprint(err)})
				return
			}
			if sk, ok := f.Body.Message.(*message.SetKeyspaceResult); !ok || sk.Keyspace != "answer" {
				res.Add(lp.Finding{Kind: "violation", What: "request received something that is not its response", Input: id, Impl: fmt.Sprint(f.Body.Message)})
			}
			got := 0
			for got < n+3 {
				var ev *frame.Frame
				if !within(300*time.Millisecond, func() { ev, _ = cc.ReceiveEvent() }) || ev == nil {
					break
				}
				if _, ok := ev.Body.Message.(*message.StatusChangeEvent); !ok {
					res.Add(lp.Finding{Kind: "violation", What: "event channel delivers something that is not an event", Input: id, Impl: fmt.Sprint(ev.Body.Message)})
				}
				got++
			}
			if got == 0 {
				res.Add(lp.Finding{Kind: "violation", What: "no pushed event reached the event channel", Input: id})
			}
		}()
	}
}

// … and over the v5 segment framing with an independent raw peer as the server (several responses for different requests,
// out of order, in ONE self-contained segment; a response split over segments): the raw-server scenarios of C15, each in a
// child process.
func runRoutingRawPeer(res *lp.Result) {
	all := c15Scenarios()
	var idx []int
	for i, s := range all {
		if s.kind == "raw-server" && s.variant == 0 {
			idx = append(idx, i)
		}
	}
	runScenariosAt(res, "C15CONN", idx, func(i int) string { return all[i].String() })
}
